-- GENERATED from /repo/src/Imath by harness/sym (T = Sym path extraction); do not edit.
import ImathVerif.Basic.Types
import ImathVerif.Gen.Leaf
set_option linter.unusedVariables false
namespace ImathVerif.Gen
open ImathVerif

/-- extracted from the C++ template at T = Sym; 1 path(s) -/
def Frustum.ctor_persp {α : Type} (n : α) (f : α) (l : α) (r : α) (t : α) (b : α) : (α × α × α × α × α × α × Bool) :=
  (n, f, l, r, t, b, false)

/-- extracted from the C++ template at T = Sym; 1 path(s) -/
def Frustum.ctor_ortho {α : Type} (n : α) (f : α) (l : α) (r : α) (t : α) (b : α) : (α × α × α × α × α × α × Bool) :=
  (n, f, l, r, t, b, true)

/-- extracted from the C++ template at T = Sym; 1 path(s) -/
def Frustum.set_persp {α : Type} (n : α) (f : α) (l : α) (r : α) (t : α) (b : α) (n2 : α) (f2 : α) (l2 : α) (r2 : α) (t2 : α) (b2 : α) : (α × α × α × α × α × α × Bool) :=
  (n2, f2, l2, r2, t2, b2, false)

/-- extracted from the C++ template at T = Sym; 1 path(s) -/
def Frustum.set_ortho {α : Type} (n : α) (f : α) (l : α) (r : α) (t : α) (b : α) (n2 : α) (f2 : α) (l2 : α) (r2 : α) (t2 : α) (b2 : α) : (α × α × α × α × α × α × Bool) :=
  (n2, f2, l2, r2, t2, b2, true)

/-- extracted from the C++ template at T = Sym; 4 path(s) -/
def Frustum.degenerate_persp {α : Type} [DecidableEq α] (n : α) (f : α) (l : α) (r : α) (t : α) (b : α) : Bool :=
  if n = f then
    true
  else
    if l = r then
      true
    else
      if t = b then
        true
      else
        false

/-- extracted from the C++ template at T = Sym; 4 path(s) -/
def Frustum.degenerate_ortho {α : Type} [DecidableEq α] (n : α) (f : α) (l : α) (r : α) (t : α) (b : α) : Bool :=
  if n = f then
    true
  else
    if l = r then
      true
    else
      if t = b then
        true
      else
        false

/-- extracted from the C++ template at T = Sym; 2 path(s) -/
def Frustum.setFov_persp {α : Type} [Sub α] [Mul α] [Div α] [Neg α] [DecidableEq α] [OfNat α 0] [OfNat α 2] (tan : α → α) (n : α) (f : α) (l : α) (r : α) (t : α) (b : α) (nearPlane : α) (farPlane : α) (fovx : α) (fovy : α) (aspect : α) : (α × α × α × α × α × α × Bool) :=
  let t21 := (nearPlane * (tan (fovy / (2 : α))))
  let t22 := (-t21)
  let t25 := (((t21 - t22) * aspect) / (2 : α))
  let t29 := (nearPlane * (tan (fovx / (2 : α))))
  let t30 := (-t29)
  let t33 := (((t29 - t30) / aspect) / (2 : α))
  if fovx = (0 : α) then
    (nearPlane, farPlane, (-t25), t25, t21, t22, false)
  else
    (nearPlane, farPlane, t30, t29, t33, (-t33), false)

/-- extracted from the C++ template at T = Sym; 2 path(s) -/
def Frustum.setFov_ortho {α : Type} [Sub α] [Mul α] [Div α] [Neg α] [DecidableEq α] [OfNat α 0] [OfNat α 2] (tan : α → α) (n : α) (f : α) (l : α) (r : α) (t : α) (b : α) (nearPlane : α) (farPlane : α) (fovx : α) (fovy : α) (aspect : α) : (α × α × α × α × α × α × Bool) :=
  let t21 := (nearPlane * (tan (fovy / (2 : α))))
  let t22 := (-t21)
  let t25 := (((t21 - t22) * aspect) / (2 : α))
  let t29 := (nearPlane * (tan (fovx / (2 : α))))
  let t30 := (-t29)
  let t33 := (((t29 - t30) / aspect) / (2 : α))
  if fovx = (0 : α) then
    (nearPlane, farPlane, (-t25), t25, t21, t22, false)
  else
    (nearPlane, farPlane, t30, t29, t33, (-t33), false)

/-- extracted from the C++ template at T = Sym; 2 path(s) -/
def Frustum.ctorFov {α : Type} [Sub α] [Mul α] [Div α] [Neg α] [DecidableEq α] [OfNat α 0] [OfNat α 2] (tan : α → α) (nearPlane : α) (farPlane : α) (fovx : α) (fovy : α) (aspect : α) : (α × α × α × α × α × α × Bool) :=
  let t21 := (nearPlane * (tan (fovy / (2 : α))))
  let t22 := (-t21)
  let t25 := (((t21 - t22) * aspect) / (2 : α))
  let t29 := (nearPlane * (tan (fovx / (2 : α))))
  let t30 := (-t29)
  let t33 := (((t29 - t30) / aspect) / (2 : α))
  if fovx = (0 : α) then
    (nearPlane, farPlane, (-t25), t25, t21, t22, false)
  else
    (nearPlane, farPlane, t30, t29, t33, (-t33), false)

/-- extracted from the C++ template at T = Sym; 1 path(s) -/
def Frustum.fovx_persp {α : Type} [Sub α] (atan2 : α → α → α) (n : α) (f : α) (l : α) (r : α) (t : α) (b : α) : α :=
  ((atan2 r n) - (atan2 l n))

/-- extracted from the C++ template at T = Sym; 1 path(s) -/
def Frustum.fovy_persp {α : Type} [Sub α] (atan2 : α → α → α) (n : α) (f : α) (l : α) (r : α) (t : α) (b : α) : α :=
  ((atan2 t n) - (atan2 b n))

/-- extracted from the C++ template at T = Sym; 1 path(s) -/
def Frustum.aspect_persp {α : Type} [Sub α] [Div α] (n : α) (f : α) (l : α) (r : α) (t : α) (b : α) : α :=
  ((r - l) / (t - b))

/-- extracted from the C++ template at T = Sym; 1 path(s) -/
def Frustum.fovx_ortho {α : Type} [Sub α] (atan2 : α → α → α) (n : α) (f : α) (l : α) (r : α) (t : α) (b : α) : α :=
  ((atan2 r n) - (atan2 l n))

/-- extracted from the C++ template at T = Sym; 1 path(s) -/
def Frustum.fovy_ortho {α : Type} [Sub α] (atan2 : α → α → α) (n : α) (f : α) (l : α) (r : α) (t : α) (b : α) : α :=
  ((atan2 t n) - (atan2 b n))

/-- extracted from the C++ template at T = Sym; 1 path(s) -/
def Frustum.aspect_ortho {α : Type} [Sub α] [Div α] (n : α) (f : α) (l : α) (r : α) (t : α) (b : α) : α :=
  ((r - l) / (t - b))

/-- extracted from the C++ template at T = Sym; 32 path(s) -/
def Frustum.modifyNearAndFar_persp {α : Type} [Add α] [Sub α] [Mul α] [Div α] [Neg α] [LT α] [LE α] [DecidableLT α] [DecidableLE α] [DecidableEq α] [OfNat α 0] [OfNat α 1] [OfNat α 2] (tmin : α) (tmax : α) (sqrt : α → α) (n : α) (f : α) (l : α) (r : α) (t : α) (b : α) (n2 : α) (f2 : α) : (α × α × α × α × α × α × Bool) :=
  let t45 := ((-n) - (0 : α))
  let t46 := (b - (0 : α))
  let t47 := (l - (0 : α))
  let t48 := (V3.length tmin tmax sqrt ⟨t47, t46, t45⟩)
  let t49 := (t - (0 : α))
  let t50 := (r - (0 : α))
  let t51 := (V3.length tmin tmax sqrt ⟨t50, t49, t45⟩)
  let t53 := (V3.length tmin tmax sqrt ⟨(0 : α), (0 : α), (-(1 : α))⟩)
  let t54 := ((-(1 : α)) * t45)
  let t58 := ((((0 : α) * t47) + ((0 : α) * t46)) + t54)
  let t62 := ((((0 : α) * t50) + ((0 : α) * t49)) + t54)
  let t64 := ((0 : α) * (0 : α))
  let t68 := (-(((t64 + t64) + ((-(1 : α)) * (0 : α))) - n2))
  let t69 := (t68 / t62)
  let t74 := ((0 : α) + (t49 * t69))
  let t75 := ((0 : α) + (t50 * t69))
  let t76 := (t68 / t58)
  let t81 := ((0 : α) + (t46 * t76))
  let t82 := ((0 : α) + (t47 * t76))
  let t83 := ((0 : α) / t53)
  let t84 := ((-(1 : α)) / t53)
  let t85 := (t84 * t45)
  let t89 := (((t83 * t47) + (t83 * t46)) + t85)
  let t93 := (((t83 * t50) + (t83 * t49)) + t85)
  let t95 := (t83 * (0 : α))
  let t99 := (-(((t95 + t95) + (t84 * (0 : α))) - n2))
  let t100 := (t99 / t93)
  let t105 := ((0 : α) + (t49 * t100))
  let t106 := ((0 : α) + (t50 * t100))
  let t107 := (t99 / t89)
  let t112 := ((0 : α) + (t46 * t107))
  let t113 := ((0 : α) + (t47 * t107))
  let t114 := (t50 / t51)
  let t115 := (t49 / t51)
  let t116 := (t45 / t51)
  let t121 := ((((0 : α) * t114) + ((0 : α) * t115)) + ((-(1 : α)) * t116))
  let t122 := (t68 / t121)
  let t127 := ((0 : α) + (t115 * t122))
  let t128 := ((0 : α) + (t114 * t122))
  let t133 := (((t83 * t114) + (t83 * t115)) + (t84 * t116))
  let t134 := (t99 / t133)
  let t139 := ((0 : α) + (t115 * t134))
  let t140 := ((0 : α) + (t114 * t134))
  let t141 := (t47 / t48)
  let t142 := (t46 / t48)
  let t143 := (t45 / t48)
  let t148 := ((((0 : α) * t141) + ((0 : α) * t142)) + ((-(1 : α)) * t143))
  let t149 := (t68 / t148)
  let t154 := ((0 : α) + (t142 * t149))
  let t155 := ((0 : α) + (t141 * t149))
  let t160 := (((t83 * t141) + (t83 * t142)) + (t84 * t143))
  let t161 := (t99 / t160)
  let t166 := ((0 : α) + (t142 * t161))
  let t167 := ((0 : α) + (t141 * t161))
  if t48 = (0 : α) then
    if t51 = (0 : α) then
      if t53 = (0 : α) then
        if t58 = (0 : α) then
          if t62 = (0 : α) then
            (n2, f2, (0 : α), (0 : α), (0 : α), (0 : α), false)
          else
            (n2, f2, (0 : α), t75, t74, (0 : α), false)
        else
          if t62 = (0 : α) then
            (n2, f2, t82, (0 : α), (0 : α), t81, false)
          else
            (n2, f2, t82, t75, t74, t81, false)
      else
        if t89 = (0 : α) then
          if t93 = (0 : α) then
            (n2, f2, (0 : α), (0 : α), (0 : α), (0 : α), false)
          else
            (n2, f2, (0 : α), t106, t105, (0 : α), false)
        else
          if t93 = (0 : α) then
            (n2, f2, t113, (0 : α), (0 : α), t112, false)
          else
            (n2, f2, t113, t106, t105, t112, false)
    else
      if t53 = (0 : α) then
        if t58 = (0 : α) then
          if t121 = (0 : α) then
            (n2, f2, (0 : α), (0 : α), (0 : α), (0 : α), false)
          else
            (n2, f2, (0 : α), t128, t127, (0 : α), false)
        else
          if t121 = (0 : α) then
            (n2, f2, t82, (0 : α), (0 : α), t81, false)
          else
            (n2, f2, t82, t128, t127, t81, false)
      else
        if t89 = (0 : α) then
          if t133 = (0 : α) then
            (n2, f2, (0 : α), (0 : α), (0 : α), (0 : α), false)
          else
            (n2, f2, (0 : α), t140, t139, (0 : α), false)
        else
          if t133 = (0 : α) then
            (n2, f2, t113, (0 : α), (0 : α), t112, false)
          else
            (n2, f2, t113, t140, t139, t112, false)
  else
    if t51 = (0 : α) then
      if t53 = (0 : α) then
        if t148 = (0 : α) then
          if t62 = (0 : α) then
            (n2, f2, (0 : α), (0 : α), (0 : α), (0 : α), false)
          else
            (n2, f2, (0 : α), t75, t74, (0 : α), false)
        else
          if t62 = (0 : α) then
            (n2, f2, t155, (0 : α), (0 : α), t154, false)
          else
            (n2, f2, t155, t75, t74, t154, false)
      else
        if t160 = (0 : α) then
          if t93 = (0 : α) then
            (n2, f2, (0 : α), (0 : α), (0 : α), (0 : α), false)
          else
            (n2, f2, (0 : α), t106, t105, (0 : α), false)
        else
          if t93 = (0 : α) then
            (n2, f2, t167, (0 : α), (0 : α), t166, false)
          else
            (n2, f2, t167, t106, t105, t166, false)
    else
      if t53 = (0 : α) then
        if t148 = (0 : α) then
          if t121 = (0 : α) then
            (n2, f2, (0 : α), (0 : α), (0 : α), (0 : α), false)
          else
            (n2, f2, (0 : α), t128, t127, (0 : α), false)
        else
          if t121 = (0 : α) then
            (n2, f2, t155, (0 : α), (0 : α), t154, false)
          else
            (n2, f2, t155, t128, t127, t154, false)
      else
        if t160 = (0 : α) then
          if t133 = (0 : α) then
            (n2, f2, (0 : α), (0 : α), (0 : α), (0 : α), false)
          else
            (n2, f2, (0 : α), t140, t139, (0 : α), false)
        else
          if t133 = (0 : α) then
            (n2, f2, t167, (0 : α), (0 : α), t166, false)
          else
            (n2, f2, t167, t140, t139, t166, false)

/-- extracted from the C++ template at T = Sym; 1 path(s) -/
def Frustum.modifyNearAndFar_ortho {α : Type} (n : α) (f : α) (l : α) (r : α) (t : α) (b : α) (n2 : α) (f2 : α) : (α × α × α × α × α × α × Bool) :=
  (n2, f2, l, r, t, b, true)

/-- extracted from the C++ template at T = Sym; 1 path(s) -/
def Frustum.setOrthographic_persp {α : Type} (n : α) (f : α) (l : α) (r : α) (t : α) (b : α) : (α × α × α × α × α × α × Bool) :=
  (n, f, l, r, t, b, false)

/-- extracted from the C++ template at T = Sym; 1 path(s) -/
def Frustum.setOrthographic_ortho {α : Type} (n : α) (f : α) (l : α) (r : α) (t : α) (b : α) : (α × α × α × α × α × α × Bool) :=
  (n, f, l, r, t, b, true)

/-- extracted from the C++ template at T = Sym; 1 path(s) -/
def Frustum.window_persp {α : Type} [Add α] [Sub α] [Mul α] [Div α] [OfNat α 1] [OfNat α 2] (n : α) (f : α) (l : α) (r : α) (t : α) (b : α) (wl : α) (wr : α) (wt : α) (wb : α) : (α × α × α × α × α × α × Bool) :=
  let t41 := (r - l)
  let t42 := (t - b)
  (n, f, (l + ((t41 * ((1 : α) + wl)) / (2 : α))), (l + ((t41 * ((1 : α) + wr)) / (2 : α))), (b + ((t42 * ((1 : α) + wt)) / (2 : α))), (b + ((t42 * ((1 : α) + wb)) / (2 : α))), false)

/-- extracted from the C++ template at T = Sym; 1 path(s) -/
def Frustum.window_ortho {α : Type} [Add α] [Sub α] [Mul α] [Div α] [OfNat α 1] [OfNat α 2] (n : α) (f : α) (l : α) (r : α) (t : α) (b : α) (wl : α) (wr : α) (wt : α) (wb : α) : (α × α × α × α × α × α × Bool) :=
  let t41 := (r - l)
  let t42 := (t - b)
  (n, f, (l + ((t41 * ((1 : α) + wl)) / (2 : α))), (l + ((t41 * ((1 : α) + wr)) / (2 : α))), (b + ((t42 * ((1 : α) + wt)) / (2 : α))), (b + ((t42 * ((1 : α) + wb)) / (2 : α))), true)

/-- extracted from the C++ template at T = Sym; 1 path(s) -/
def Frustum.assign_persp {α : Type} (n : α) (f : α) (l : α) (r : α) (t : α) (b : α) : (α × α × α × α × α × α × Bool) :=
  (n, f, l, r, t, b, false)

/-- extracted from the C++ template at T = Sym; 1 path(s) -/
def Frustum.copyCtor_persp {α : Type} (n : α) (f : α) (l : α) (r : α) (t : α) (b : α) : (α × α × α × α × α × α × Bool) :=
  (n, f, l, r, t, b, false)

/-- extracted from the C++ template at T = Sym; 1 path(s) -/
def Frustum.hitherYon_persp {α : Type} (n : α) (f : α) (l : α) (r : α) (t : α) (b : α) : (α × α) :=
  (n, f)

/-- extracted from the C++ template at T = Sym; 1 path(s) -/
def Frustum.assign_ortho {α : Type} (n : α) (f : α) (l : α) (r : α) (t : α) (b : α) : (α × α × α × α × α × α × Bool) :=
  (n, f, l, r, t, b, true)

/-- extracted from the C++ template at T = Sym; 1 path(s) -/
def Frustum.copyCtor_ortho {α : Type} (n : α) (f : α) (l : α) (r : α) (t : α) (b : α) : (α × α × α × α × α × α × Bool) :=
  (n, f, l, r, t, b, true)

/-- extracted from the C++ template at T = Sym; 1 path(s) -/
def Frustum.hitherYon_ortho {α : Type} (n : α) (f : α) (l : α) (r : α) (t : α) (b : α) : (α × α) :=
  (n, f)

/-- extracted from the C++ template at T = Sym; 1 path(s) -/
def Frustum.defaultCtor {α : Type} [Div α] [Neg α] [OfNat α 1] [OfNat α 1000] [OfNat α 3602879701896397] [OfNat α 36028797018963968] : (α × α × α × α × α × α × Bool) :=
  (((3602879701896397 : α) / (36028797018963968 : α)), (1000 : α), (-(1 : α)), (1 : α), (1 : α), (-(1 : α)), false)

/-- extracted from the C++ template at T = Sym; 7 path(s) -/
def Frustum.eq_persp_persp {α : Type} [DecidableEq α] (n : α) (f : α) (l : α) (r : α) (t : α) (b : α) (n2 : α) (f2 : α) (l2 : α) (r2 : α) (t2 : α) (b2 : α) : (Bool × Bool) :=
  if n = n2 then
    if f = f2 then
      if l = l2 then
        if r = r2 then
          if t = t2 then
            if b = b2 then
              (true, false)
            else
              (false, true)
          else
            (false, true)
        else
          (false, true)
      else
        (false, true)
    else
      (false, true)
  else
    (false, true)

/-- extracted from the C++ template at T = Sym; 7 path(s) -/
def Frustum.eq_ortho_ortho {α : Type} [DecidableEq α] (n : α) (f : α) (l : α) (r : α) (t : α) (b : α) (n2 : α) (f2 : α) (l2 : α) (r2 : α) (t2 : α) (b2 : α) : (Bool × Bool) :=
  if n = n2 then
    if f = f2 then
      if l = l2 then
        if r = r2 then
          if t = t2 then
            if b = b2 then
              (true, false)
            else
              (false, true)
          else
            (false, true)
        else
          (false, true)
      else
        (false, true)
    else
      (false, true)
  else
    (false, true)

/-- extracted from the C++ template at T = Sym; 7 path(s) -/
def Frustum.eq_persp_ortho {α : Type} [DecidableEq α] (n : α) (f : α) (l : α) (r : α) (t : α) (b : α) (n2 : α) (f2 : α) (l2 : α) (r2 : α) (t2 : α) (b2 : α) : (Bool × Bool) :=
  if n = n2 then
    if f = f2 then
      if l = l2 then
        if r = r2 then
          if t = t2 then
            if b = b2 then
              (false, true)
            else
              (false, true)
          else
            (false, true)
        else
          (false, true)
      else
        (false, true)
    else
      (false, true)
  else
    (false, true)

/-- extracted from the C++ template at T = Sym; 7 path(s) -/
def Frustum.eq_ortho_persp {α : Type} [DecidableEq α] (n : α) (f : α) (l : α) (r : α) (t : α) (b : α) (n2 : α) (f2 : α) (l2 : α) (r2 : α) (t2 : α) (b2 : α) : (Bool × Bool) :=
  if n = n2 then
    if f = f2 then
      if l = l2 then
        if r = r2 then
          if t = t2 then
            if b = b2 then
              (false, true)
            else
              (false, true)
          else
            (false, true)
        else
          (false, true)
      else
        (false, true)
    else
      (false, true)
  else
    (false, true)

/-- extracted from the C++ template at T = Sym; 1 path(s) -/
def Frustum.ZToDepth_persp_5_0_10 {α : Type} [Sub α] [Mul α] [Div α] [OfNat α 0] [OfNat α 1] [OfNat α 2] [OfNat α 5] [OfNat α 10] (n : α) (f : α) (l : α) (r : α) (t : α) (b : α) : α :=
  ((((2 : α) * f) * n) / ((((((((5 : α) - (0 : α)) / (10 : α)) * (2 : α)) - (1 : α)) * (f - n)) - f) - n))

/-- extracted from the C++ template at T = Sym; 1 path(s) -/
def Frustum.ZToDepth_persp_11_0_10 {α : Type} [Sub α] [Mul α] [Div α] [OfNat α 0] [OfNat α 1] [OfNat α 2] [OfNat α 10] [OfNat α 11] (n : α) (f : α) (l : α) (r : α) (t : α) (b : α) : α :=
  ((((2 : α) * f) * n) / ((((((((11 : α) - (0 : α)) / (10 : α)) * (2 : α)) - (1 : α)) * (f - n)) - f) - n))

/-- extracted from the C++ template at T = Sym; 1 path(s) -/
def Frustum.ZToDepth_persp_12_0_10 {α : Type} [Sub α] [Mul α] [Div α] [OfNat α 0] [OfNat α 1] [OfNat α 2] [OfNat α 10] (n : α) (f : α) (l : α) (r : α) (t : α) (b : α) : α :=
  ((((2 : α) * f) * n) / ((((((((2 : α) - (0 : α)) / (10 : α)) * (2 : α)) - (1 : α)) * (f - n)) - f) - n))

/-- extracted from the C++ template at T = Sym; 1 path(s) -/
def Frustum.ZToDepth_persp_m3_m10_10 {α : Type} [Sub α] [Mul α] [Div α] [Neg α] [OfNat α 1] [OfNat α 2] [OfNat α 3] [OfNat α 10] [OfNat α 20] (n : α) (f : α) (l : α) (r : α) (t : α) (b : α) : α :=
  ((((2 : α) * f) * n) / ((((((((-(3 : α)) - (-(10 : α))) / (20 : α)) * (2 : α)) - (1 : α)) * (f - n)) - f) - n))

/-- extracted from the C++ template at T = Sym; 1 path(s) -/
def Frustum.ZToDepth_persp_w32 {α : Type} [Sub α] [Mul α] [Div α] [OfNat α 0] [OfNat α 1] [OfNat α 2] [OfNat α 4294967295] (n : α) (f : α) (l : α) (r : α) (t : α) (b : α) : α :=
  ((((2 : α) * f) * n) / ((((((((4294967295 : α) - (0 : α)) / (4294967295 : α)) * (2 : α)) - (1 : α)) * (f - n)) - f) - n))

/-- extracted from the C++ template at T = Sym; 1 path(s) -/
def Frustum.ZToDepth_ortho_5_0_10 {α : Type} [Add α] [Sub α] [Mul α] [Div α] [Neg α] [OfNat α 0] [OfNat α 1] [OfNat α 2] [OfNat α 5] [OfNat α 10] (n : α) (f : α) (l : α) (r : α) (t : α) (b : α) : α :=
  ((-(((((((5 : α) - (0 : α)) / (10 : α)) * (2 : α)) - (1 : α)) * (f - n)) + (f + n))) / (2 : α))

/-- extracted from the C++ template at T = Sym; 1 path(s) -/
def Frustum.ZToDepth_ortho_11_0_10 {α : Type} [Add α] [Sub α] [Mul α] [Div α] [Neg α] [OfNat α 0] [OfNat α 1] [OfNat α 2] [OfNat α 10] [OfNat α 11] (n : α) (f : α) (l : α) (r : α) (t : α) (b : α) : α :=
  ((-(((((((11 : α) - (0 : α)) / (10 : α)) * (2 : α)) - (1 : α)) * (f - n)) + (f + n))) / (2 : α))

/-- extracted from the C++ template at T = Sym; 1 path(s) -/
def Frustum.ZToDepth_ortho_12_0_10 {α : Type} [Add α] [Sub α] [Mul α] [Div α] [Neg α] [OfNat α 0] [OfNat α 1] [OfNat α 2] [OfNat α 10] (n : α) (f : α) (l : α) (r : α) (t : α) (b : α) : α :=
  ((-(((((((2 : α) - (0 : α)) / (10 : α)) * (2 : α)) - (1 : α)) * (f - n)) + (f + n))) / (2 : α))

/-- extracted from the C++ template at T = Sym; 1 path(s) -/
def Frustum.ZToDepth_ortho_m3_m10_10 {α : Type} [Add α] [Sub α] [Mul α] [Div α] [Neg α] [OfNat α 1] [OfNat α 2] [OfNat α 3] [OfNat α 10] [OfNat α 20] (n : α) (f : α) (l : α) (r : α) (t : α) (b : α) : α :=
  ((-(((((((-(3 : α)) - (-(10 : α))) / (20 : α)) * (2 : α)) - (1 : α)) * (f - n)) + (f + n))) / (2 : α))

/-- extracted from the C++ template at T = Sym; 1 path(s) -/
def Frustum.ZToDepth_ortho_w32 {α : Type} [Add α] [Sub α] [Mul α] [Div α] [Neg α] [OfNat α 0] [OfNat α 1] [OfNat α 2] [OfNat α 4294967295] (n : α) (f : α) (l : α) (r : α) (t : α) (b : α) : α :=
  ((-(((((((4294967295 : α) - (0 : α)) / (4294967295 : α)) * (2 : α)) - (1 : α)) * (f - n)) + (f + n))) / (2 : α))

/-- extracted from the C++ template at T = Sym; 1 path(s) -/
def Frustum.DepthToZ_persp_3_10 {α : Type} [Add α] [Sub α] [Mul α] [Div α] [OfNat α 1] [OfNat α 2] [OfNat α 7] (n : α) (f : α) (l : α) (r : α) (t : α) (b : α) (depth : α) : (α × Int × Int × Int) :=
  (((((1 : α) / (2 : α)) * ((((((((2 : α) * f) * n) / depth) + f) + n) / (f - n)) + (1 : α))) * (7 : α)), (3 : Int), (1 : Int), (0 : Int))

/-- extracted from the C++ template at T = Sym; 1 path(s) -/
def Frustum.DepthToZ_ortho_3_10 {α : Type} [Add α] [Sub α] [Mul α] [Div α] [Neg α] [OfNat α 1] [OfNat α 2] [OfNat α 7] (n : α) (f : α) (l : α) (r : α) (t : α) (b : α) (depth : α) : (α × Int × Int × Int) :=
  (((((1 : α) / (2 : α)) * (((-((((2 : α) * depth) + f) + n)) / (f - n)) + (1 : α))) * (7 : α)), (3 : Int), (1 : Int), (0 : Int))

/-- extracted from the C++ template at T = Sym; 1 path(s) -/
def Frustum.projectionMatrix_persp {α : Type} [Add α] [Sub α] [Mul α] [Div α] [Neg α] [OfNat α 0] [OfNat α 1] [OfNat α 2] (n : α) (f : α) (l : α) (r : α) (t : α) (b : α) : (M44 α) :=
  let t41 := (r - l)
  let t42 := (t - b)
  let t204 := (f - n)
  let t289 := ((2 : α) * n)
  ⟨(t289 / t41), (0 : α), (0 : α), (0 : α), (0 : α), (t289 / t42), (0 : α), (0 : α), ((r + l) / t41), ((t + b) / t42), ((-(f + n)) / t204), (-(1 : α)), (0 : α), (0 : α), ((((-(2 : α)) * f) * n) / t204), (0 : α)⟩

/-- extracted from the C++ template at T = Sym; 1 path(s) -/
def Frustum.screenToLocal_persp {α : Type} [Add α] [Sub α] [Mul α] [Div α] [OfNat α 1] [OfNat α 2] (n : α) (f : α) (l : α) (r : α) (t : α) (b : α) (s : V2 α) : (V2 α) :=
  ⟨(l + (((r - l) * ((1 : α) + s.x)) / (2 : α))), (b + (((t - b) * ((1 : α) + s.y)) / (2 : α)))⟩

/-- extracted from the C++ template at T = Sym; 1 path(s) -/
def Frustum.localToScreen_persp {α : Type} [Add α] [Sub α] [Mul α] [Div α] [OfNat α 2] (n : α) (f : α) (l : α) (r : α) (t : α) (b : α) (p : V2 α) : (V2 α) :=
  ⟨(((l - ((2 : α) * p.x)) + r) / (l - r)), (((b - ((2 : α) * p.y)) + t) / (b - t))⟩

/-- extracted from the C++ template at T = Sym; 2 path(s) -/
def Frustum.projectScreenToRay_persp {α : Type} [Add α] [Sub α] [Mul α] [Div α] [Neg α] [LT α] [LE α] [DecidableLT α] [DecidableLE α] [DecidableEq α] [OfNat α 0] [OfNat α 1] [OfNat α 2] (tmin : α) (tmax : α) (sqrt : α → α) (n : α) (f : α) (l : α) (r : α) (t : α) (b : α) (s : V2 α) : (Line3 α) :=
  let t45 := ((-n) - (0 : α))
  let t314 := ((b + (((t - b) * ((1 : α) + s.y)) / (2 : α))) - (0 : α))
  let t315 := ((l + (((r - l) * ((1 : α) + s.x)) / (2 : α))) - (0 : α))
  let t316 := (V3.length tmin tmax sqrt ⟨t315, t314, t45⟩)
  if t316 = (0 : α) then
    ⟨⟨(0 : α), (0 : α), (0 : α)⟩, ⟨t315, t314, t45⟩⟩
  else
    ⟨⟨(0 : α), (0 : α), (0 : α)⟩, ⟨(t315 / t316), (t314 / t316), (t45 / t316)⟩⟩

/-- extracted from the C++ template at T = Sym; 2 path(s) -/
def Frustum.projectPointToScreen_persp {α : Type} [Add α] [Sub α] [Mul α] [Div α] [Neg α] [DecidableEq α] [OfNat α 0] [OfNat α 2] (n : α) (f : α) (l : α) (r : α) (t : α) (b : α) (p : V3 α) : (V2 α) :=
  let t307 := (l - r)
  let t311 := (b - t)
  let t321 := (-p.z)
  if p.z = (0 : α) then
    ⟨(((l - ((2 : α) * p.x)) + r) / t307), (((b - ((2 : α) * p.y)) + t) / t311)⟩
  else
    ⟨(((l - ((2 : α) * ((p.x * n) / t321))) + r) / t307), (((b - ((2 : α) * ((p.y * n) / t321))) + t) / t311)⟩

/-- extracted from the C++ template at T = Sym; 1 path(s) -/
def Frustum.normalizedZToDepth_persp {α : Type} [Sub α] [Mul α] [Div α] [OfNat α 1] [OfNat α 2] (n : α) (f : α) (l : α) (r : α) (t : α) (b : α) (zval : α) : α :=
  ((((2 : α) * f) * n) / (((((zval * (2 : α)) - (1 : α)) * (f - n)) - f) - n))

/-- extracted from the C++ template at T = Sym; 1 path(s) -/
def Frustum.screenRadius_persp {α : Type} [Mul α] [Div α] [Neg α] (n : α) (f : α) (l : α) (r : α) (t : α) (b : α) (p : V3 α) (radius : α) : α :=
  (radius * ((-n) / p.z))

/-- extracted from the C++ template at T = Sym; 1 path(s) -/
def Frustum.worldRadius_persp {α : Type} [Mul α] [Div α] [Neg α] (n : α) (f : α) (l : α) (r : α) (t : α) (b : α) (p : V3 α) (radius : α) : α :=
  (radius * (p.z / (-n)))

/-- extracted from the C++ template at T = Sym; 1 path(s) -/
def Frustum.projectionMatrix_ortho {α : Type} [Add α] [Sub α] [Div α] [Neg α] [OfNat α 0] [OfNat α 1] [OfNat α 2] (n : α) (f : α) (l : α) (r : α) (t : α) (b : α) : (M44 α) :=
  let t41 := (r - l)
  let t42 := (t - b)
  let t204 := (f - n)
  ⟨((2 : α) / t41), (0 : α), (0 : α), (0 : α), (0 : α), ((2 : α) / t42), (0 : α), (0 : α), (0 : α), (0 : α), ((-(2 : α)) / t204), (0 : α), ((-(r + l)) / t41), ((-(t + b)) / t42), ((-(f + n)) / t204), (1 : α)⟩

/-- extracted from the C++ template at T = Sym; 1 path(s) -/
def Frustum.screenToLocal_ortho {α : Type} [Add α] [Sub α] [Mul α] [Div α] [OfNat α 1] [OfNat α 2] (n : α) (f : α) (l : α) (r : α) (t : α) (b : α) (s : V2 α) : (V2 α) :=
  ⟨(l + (((r - l) * ((1 : α) + s.x)) / (2 : α))), (b + (((t - b) * ((1 : α) + s.y)) / (2 : α)))⟩

/-- extracted from the C++ template at T = Sym; 1 path(s) -/
def Frustum.localToScreen_ortho {α : Type} [Add α] [Sub α] [Mul α] [Div α] [OfNat α 2] (n : α) (f : α) (l : α) (r : α) (t : α) (b : α) (p : V2 α) : (V2 α) :=
  ⟨(((l - ((2 : α) * p.x)) + r) / (l - r)), (((b - ((2 : α) * p.y)) + t) / (b - t))⟩

/-- extracted from the C++ template at T = Sym; 2 path(s) -/
def Frustum.projectScreenToRay_ortho {α : Type} [Add α] [Sub α] [Mul α] [Div α] [Neg α] [LT α] [LE α] [DecidableLT α] [DecidableLE α] [DecidableEq α] [OfNat α 0] [OfNat α 1] [OfNat α 2] (tmin : α) (tmax : α) (sqrt : α → α) (n : α) (f : α) (l : α) (r : α) (t : α) (b : α) (s : V2 α) : (Line3 α) :=
  let t297 := (b + (((t - b) * ((1 : α) + s.y)) / (2 : α)))
  let t301 := (l + (((r - l) * ((1 : α) + s.x)) / (2 : α)))
  let t353 := ((-(1 : α)) - (0 : α))
  let t354 := (t297 - t297)
  let t355 := (t301 - t301)
  let t356 := (V3.length tmin tmax sqrt ⟨t355, t354, t353⟩)
  if t356 = (0 : α) then
    ⟨⟨t301, t297, (0 : α)⟩, ⟨t355, t354, t353⟩⟩
  else
    ⟨⟨t301, t297, (0 : α)⟩, ⟨(t355 / t356), (t354 / t356), (t353 / t356)⟩⟩

/-- extracted from the C++ template at T = Sym; 1 path(s) -/
def Frustum.projectPointToScreen_ortho {α : Type} [Add α] [Sub α] [Mul α] [Div α] [OfNat α 2] (n : α) (f : α) (l : α) (r : α) (t : α) (b : α) (p : V3 α) : (V2 α) :=
  ⟨(((l - ((2 : α) * p.x)) + r) / (l - r)), (((b - ((2 : α) * p.y)) + t) / (b - t))⟩

/-- extracted from the C++ template at T = Sym; 1 path(s) -/
def Frustum.normalizedZToDepth_ortho {α : Type} [Add α] [Sub α] [Mul α] [Div α] [Neg α] [OfNat α 1] [OfNat α 2] (n : α) (f : α) (l : α) (r : α) (t : α) (b : α) (zval : α) : α :=
  ((-((((zval * (2 : α)) - (1 : α)) * (f - n)) + (f + n))) / (2 : α))

/-- extracted from the C++ template at T = Sym; 1 path(s) -/
def Frustum.screenRadius_ortho {α : Type} [Mul α] [Div α] [Neg α] (n : α) (f : α) (l : α) (r : α) (t : α) (b : α) (p : V3 α) (radius : α) : α :=
  (radius * ((-n) / p.z))

/-- extracted from the C++ template at T = Sym; 1 path(s) -/
def Frustum.worldRadius_ortho {α : Type} [Mul α] [Div α] [Neg α] (n : α) (f : α) (l : α) (r : α) (t : α) (b : α) (p : V3 α) (radius : α) : α :=
  (radius * (p.z / (-n)))

/-- extracted from the C++ template at T = Sym; 1 path(s) -/
def Frustum.V3mulM44 {α : Type} [Add α] [Mul α] [Div α] (v : V3 α) (m : M44 α) : (V3 α) :=
  let t405 := ((((v.x * m.x03) + (v.y * m.x13)) + (v.z * m.x23)) + m.x33)
  ⟨(((((v.x * m.x00) + (v.y * m.x10)) + (v.z * m.x20)) + m.x30) / t405), (((((v.x * m.x01) + (v.y * m.x11)) + (v.z * m.x21)) + m.x31) / t405), (((((v.x * m.x02) + (v.y * m.x12)) + (v.z * m.x22)) + m.x32) / t405)⟩

/-- extracted from the C++ template at T = Sym; 64 path(s) -/
def Frustum.planes_persp {α : Type} [Add α] [Sub α] [Mul α] [Div α] [Neg α] [LT α] [LE α] [DecidableLT α] [DecidableLE α] [DecidableEq α] [OfNat α 0] [OfNat α 1] [OfNat α 2] (tmin : α) (tmax : α) (sqrt : α → α) (n : α) (f : α) (l : α) (r : α) (t : α) (b : α) : ((Plane3 α) × (Plane3 α) × (Plane3 α) × (Plane3 α) × (Plane3 α) × (Plane3 α)) :=
  let t44 := (-n)
  let t45 := (t44 - (0 : α))
  let t46 := (b - (0 : α))
  let t47 := (l - (0 : α))
  let t49 := (t - (0 : α))
  let t50 := (r - (0 : α))
  let t53 := (V3.length tmin tmax sqrt ⟨(0 : α), (0 : α), (-(1 : α))⟩)
  let t83 := ((0 : α) / t53)
  let t84 := ((-(1 : α)) / t53)
  let t409 := (t49 * t47)
  let t410 := (t50 * t49)
  let t411 := (t410 - t409)
  let t412 := (t50 * t45)
  let t413 := (t45 * t47)
  let t414 := (t413 - t412)
  let t415 := (t45 * t49)
  let t416 := (t49 * t45)
  let t417 := (t416 - t415)
  let t418 := (V3.length tmin tmax sqrt ⟨t417, t414, t411⟩)
  let t423 := (((t417 * (0 : α)) + (t414 * (0 : α))) + (t411 * (0 : α)))
  let t424 := (t46 * t50)
  let t425 := (t410 - t424)
  let t426 := (t45 * t50)
  let t427 := (t426 - t412)
  let t428 := (t46 * t45)
  let t429 := (t428 - t415)
  let t430 := (V3.length tmin tmax sqrt ⟨t429, t427, t425⟩)
  let t435 := (((t429 * (0 : α)) + (t427 * (0 : α))) + (t425 * (0 : α)))
  let t436 := (t47 * t46)
  let t437 := (t436 - t424)
  let t438 := (t47 * t45)
  let t439 := (t426 - t438)
  let t440 := (t45 * t46)
  let t441 := (t428 - t440)
  let t442 := (V3.length tmin tmax sqrt ⟨t441, t439, t437⟩)
  let t447 := (((t441 * (0 : α)) + (t439 * (0 : α))) + (t437 * (0 : α)))
  let t448 := (t436 - t409)
  let t449 := (t413 - t438)
  let t450 := (t416 - t440)
  let t451 := (V3.length tmin tmax sqrt ⟨t450, t449, t448⟩)
  let t456 := (((t450 * (0 : α)) + (t449 * (0 : α))) + (t448 * (0 : α)))
  let t457 := (V3.length tmin tmax sqrt ⟨(0 : α), (0 : α), (1 : α)⟩)
  let t458 := ((0 : α) / t457)
  let t459 := ((1 : α) / t457)
  let t460 := (t450 / t451)
  let t461 := (t449 / t451)
  let t462 := (t448 / t451)
  let t467 := (((t460 * (0 : α)) + (t461 * (0 : α))) + (t462 * (0 : α)))
  let t468 := (t441 / t442)
  let t469 := (t439 / t442)
  let t470 := (t437 / t442)
  let t475 := (((t468 * (0 : α)) + (t469 * (0 : α))) + (t470 * (0 : α)))
  let t476 := (t429 / t430)
  let t477 := (t427 / t430)
  let t478 := (t425 / t430)
  let t483 := (((t476 * (0 : α)) + (t477 * (0 : α))) + (t478 * (0 : α)))
  let t484 := (t417 / t418)
  let t485 := (t414 / t418)
  let t486 := (t411 / t418)
  let t491 := (((t484 * (0 : α)) + (t485 * (0 : α))) + (t486 * (0 : α)))
  if t418 = (0 : α) then
    if t430 = (0 : α) then
      if t442 = (0 : α) then
        if t451 = (0 : α) then
          if t457 = (0 : α) then
            if t53 = (0 : α) then
              (⟨⟨t417, t414, t411⟩, t423⟩, ⟨⟨t429, t427, t425⟩, t435⟩, ⟨⟨t441, t439, t437⟩, t447⟩, ⟨⟨t450, t449, t448⟩, t456⟩, ⟨⟨(0 : α), (0 : α), (1 : α)⟩, t44⟩, ⟨⟨(0 : α), (0 : α), (-(1 : α))⟩, f⟩)
            else
              (⟨⟨t417, t414, t411⟩, t423⟩, ⟨⟨t429, t427, t425⟩, t435⟩, ⟨⟨t441, t439, t437⟩, t447⟩, ⟨⟨t450, t449, t448⟩, t456⟩, ⟨⟨(0 : α), (0 : α), (1 : α)⟩, t44⟩, ⟨⟨t83, t83, t84⟩, f⟩)
          else
            if t53 = (0 : α) then
              (⟨⟨t417, t414, t411⟩, t423⟩, ⟨⟨t429, t427, t425⟩, t435⟩, ⟨⟨t441, t439, t437⟩, t447⟩, ⟨⟨t450, t449, t448⟩, t456⟩, ⟨⟨t458, t458, t459⟩, t44⟩, ⟨⟨(0 : α), (0 : α), (-(1 : α))⟩, f⟩)
            else
              (⟨⟨t417, t414, t411⟩, t423⟩, ⟨⟨t429, t427, t425⟩, t435⟩, ⟨⟨t441, t439, t437⟩, t447⟩, ⟨⟨t450, t449, t448⟩, t456⟩, ⟨⟨t458, t458, t459⟩, t44⟩, ⟨⟨t83, t83, t84⟩, f⟩)
        else
          if t457 = (0 : α) then
            if t53 = (0 : α) then
              (⟨⟨t417, t414, t411⟩, t423⟩, ⟨⟨t429, t427, t425⟩, t435⟩, ⟨⟨t441, t439, t437⟩, t447⟩, ⟨⟨t460, t461, t462⟩, t467⟩, ⟨⟨(0 : α), (0 : α), (1 : α)⟩, t44⟩, ⟨⟨(0 : α), (0 : α), (-(1 : α))⟩, f⟩)
            else
              (⟨⟨t417, t414, t411⟩, t423⟩, ⟨⟨t429, t427, t425⟩, t435⟩, ⟨⟨t441, t439, t437⟩, t447⟩, ⟨⟨t460, t461, t462⟩, t467⟩, ⟨⟨(0 : α), (0 : α), (1 : α)⟩, t44⟩, ⟨⟨t83, t83, t84⟩, f⟩)
          else
            if t53 = (0 : α) then
              (⟨⟨t417, t414, t411⟩, t423⟩, ⟨⟨t429, t427, t425⟩, t435⟩, ⟨⟨t441, t439, t437⟩, t447⟩, ⟨⟨t460, t461, t462⟩, t467⟩, ⟨⟨t458, t458, t459⟩, t44⟩, ⟨⟨(0 : α), (0 : α), (-(1 : α))⟩, f⟩)
            else
              (⟨⟨t417, t414, t411⟩, t423⟩, ⟨⟨t429, t427, t425⟩, t435⟩, ⟨⟨t441, t439, t437⟩, t447⟩, ⟨⟨t460, t461, t462⟩, t467⟩, ⟨⟨t458, t458, t459⟩, t44⟩, ⟨⟨t83, t83, t84⟩, f⟩)
      else
        if t451 = (0 : α) then
          if t457 = (0 : α) then
            if t53 = (0 : α) then
              (⟨⟨t417, t414, t411⟩, t423⟩, ⟨⟨t429, t427, t425⟩, t435⟩, ⟨⟨t468, t469, t470⟩, t475⟩, ⟨⟨t450, t449, t448⟩, t456⟩, ⟨⟨(0 : α), (0 : α), (1 : α)⟩, t44⟩, ⟨⟨(0 : α), (0 : α), (-(1 : α))⟩, f⟩)
            else
              (⟨⟨t417, t414, t411⟩, t423⟩, ⟨⟨t429, t427, t425⟩, t435⟩, ⟨⟨t468, t469, t470⟩, t475⟩, ⟨⟨t450, t449, t448⟩, t456⟩, ⟨⟨(0 : α), (0 : α), (1 : α)⟩, t44⟩, ⟨⟨t83, t83, t84⟩, f⟩)
          else
            if t53 = (0 : α) then
              (⟨⟨t417, t414, t411⟩, t423⟩, ⟨⟨t429, t427, t425⟩, t435⟩, ⟨⟨t468, t469, t470⟩, t475⟩, ⟨⟨t450, t449, t448⟩, t456⟩, ⟨⟨t458, t458, t459⟩, t44⟩, ⟨⟨(0 : α), (0 : α), (-(1 : α))⟩, f⟩)
            else
              (⟨⟨t417, t414, t411⟩, t423⟩, ⟨⟨t429, t427, t425⟩, t435⟩, ⟨⟨t468, t469, t470⟩, t475⟩, ⟨⟨t450, t449, t448⟩, t456⟩, ⟨⟨t458, t458, t459⟩, t44⟩, ⟨⟨t83, t83, t84⟩, f⟩)
        else
          if t457 = (0 : α) then
            if t53 = (0 : α) then
              (⟨⟨t417, t414, t411⟩, t423⟩, ⟨⟨t429, t427, t425⟩, t435⟩, ⟨⟨t468, t469, t470⟩, t475⟩, ⟨⟨t460, t461, t462⟩, t467⟩, ⟨⟨(0 : α), (0 : α), (1 : α)⟩, t44⟩, ⟨⟨(0 : α), (0 : α), (-(1 : α))⟩, f⟩)
            else
              (⟨⟨t417, t414, t411⟩, t423⟩, ⟨⟨t429, t427, t425⟩, t435⟩, ⟨⟨t468, t469, t470⟩, t475⟩, ⟨⟨t460, t461, t462⟩, t467⟩, ⟨⟨(0 : α), (0 : α), (1 : α)⟩, t44⟩, ⟨⟨t83, t83, t84⟩, f⟩)
          else
            if t53 = (0 : α) then
              (⟨⟨t417, t414, t411⟩, t423⟩, ⟨⟨t429, t427, t425⟩, t435⟩, ⟨⟨t468, t469, t470⟩, t475⟩, ⟨⟨t460, t461, t462⟩, t467⟩, ⟨⟨t458, t458, t459⟩, t44⟩, ⟨⟨(0 : α), (0 : α), (-(1 : α))⟩, f⟩)
            else
              (⟨⟨t417, t414, t411⟩, t423⟩, ⟨⟨t429, t427, t425⟩, t435⟩, ⟨⟨t468, t469, t470⟩, t475⟩, ⟨⟨t460, t461, t462⟩, t467⟩, ⟨⟨t458, t458, t459⟩, t44⟩, ⟨⟨t83, t83, t84⟩, f⟩)
    else
      if t442 = (0 : α) then
        if t451 = (0 : α) then
          if t457 = (0 : α) then
            if t53 = (0 : α) then
              (⟨⟨t417, t414, t411⟩, t423⟩, ⟨⟨t476, t477, t478⟩, t483⟩, ⟨⟨t441, t439, t437⟩, t447⟩, ⟨⟨t450, t449, t448⟩, t456⟩, ⟨⟨(0 : α), (0 : α), (1 : α)⟩, t44⟩, ⟨⟨(0 : α), (0 : α), (-(1 : α))⟩, f⟩)
            else
              (⟨⟨t417, t414, t411⟩, t423⟩, ⟨⟨t476, t477, t478⟩, t483⟩, ⟨⟨t441, t439, t437⟩, t447⟩, ⟨⟨t450, t449, t448⟩, t456⟩, ⟨⟨(0 : α), (0 : α), (1 : α)⟩, t44⟩, ⟨⟨t83, t83, t84⟩, f⟩)
          else
            if t53 = (0 : α) then
              (⟨⟨t417, t414, t411⟩, t423⟩, ⟨⟨t476, t477, t478⟩, t483⟩, ⟨⟨t441, t439, t437⟩, t447⟩, ⟨⟨t450, t449, t448⟩, t456⟩, ⟨⟨t458, t458, t459⟩, t44⟩, ⟨⟨(0 : α), (0 : α), (-(1 : α))⟩, f⟩)
            else
              (⟨⟨t417, t414, t411⟩, t423⟩, ⟨⟨t476, t477, t478⟩, t483⟩, ⟨⟨t441, t439, t437⟩, t447⟩, ⟨⟨t450, t449, t448⟩, t456⟩, ⟨⟨t458, t458, t459⟩, t44⟩, ⟨⟨t83, t83, t84⟩, f⟩)
        else
          if t457 = (0 : α) then
            if t53 = (0 : α) then
              (⟨⟨t417, t414, t411⟩, t423⟩, ⟨⟨t476, t477, t478⟩, t483⟩, ⟨⟨t441, t439, t437⟩, t447⟩, ⟨⟨t460, t461, t462⟩, t467⟩, ⟨⟨(0 : α), (0 : α), (1 : α)⟩, t44⟩, ⟨⟨(0 : α), (0 : α), (-(1 : α))⟩, f⟩)
            else
              (⟨⟨t417, t414, t411⟩, t423⟩, ⟨⟨t476, t477, t478⟩, t483⟩, ⟨⟨t441, t439, t437⟩, t447⟩, ⟨⟨t460, t461, t462⟩, t467⟩, ⟨⟨(0 : α), (0 : α), (1 : α)⟩, t44⟩, ⟨⟨t83, t83, t84⟩, f⟩)
          else
            if t53 = (0 : α) then
              (⟨⟨t417, t414, t411⟩, t423⟩, ⟨⟨t476, t477, t478⟩, t483⟩, ⟨⟨t441, t439, t437⟩, t447⟩, ⟨⟨t460, t461, t462⟩, t467⟩, ⟨⟨t458, t458, t459⟩, t44⟩, ⟨⟨(0 : α), (0 : α), (-(1 : α))⟩, f⟩)
            else
              (⟨⟨t417, t414, t411⟩, t423⟩, ⟨⟨t476, t477, t478⟩, t483⟩, ⟨⟨t441, t439, t437⟩, t447⟩, ⟨⟨t460, t461, t462⟩, t467⟩, ⟨⟨t458, t458, t459⟩, t44⟩, ⟨⟨t83, t83, t84⟩, f⟩)
      else
        if t451 = (0 : α) then
          if t457 = (0 : α) then
            if t53 = (0 : α) then
              (⟨⟨t417, t414, t411⟩, t423⟩, ⟨⟨t476, t477, t478⟩, t483⟩, ⟨⟨t468, t469, t470⟩, t475⟩, ⟨⟨t450, t449, t448⟩, t456⟩, ⟨⟨(0 : α), (0 : α), (1 : α)⟩, t44⟩, ⟨⟨(0 : α), (0 : α), (-(1 : α))⟩, f⟩)
            else
              (⟨⟨t417, t414, t411⟩, t423⟩, ⟨⟨t476, t477, t478⟩, t483⟩, ⟨⟨t468, t469, t470⟩, t475⟩, ⟨⟨t450, t449, t448⟩, t456⟩, ⟨⟨(0 : α), (0 : α), (1 : α)⟩, t44⟩, ⟨⟨t83, t83, t84⟩, f⟩)
          else
            if t53 = (0 : α) then
              (⟨⟨t417, t414, t411⟩, t423⟩, ⟨⟨t476, t477, t478⟩, t483⟩, ⟨⟨t468, t469, t470⟩, t475⟩, ⟨⟨t450, t449, t448⟩, t456⟩, ⟨⟨t458, t458, t459⟩, t44⟩, ⟨⟨(0 : α), (0 : α), (-(1 : α))⟩, f⟩)
            else
              (⟨⟨t417, t414, t411⟩, t423⟩, ⟨⟨t476, t477, t478⟩, t483⟩, ⟨⟨t468, t469, t470⟩, t475⟩, ⟨⟨t450, t449, t448⟩, t456⟩, ⟨⟨t458, t458, t459⟩, t44⟩, ⟨⟨t83, t83, t84⟩, f⟩)
        else
          if t457 = (0 : α) then
            if t53 = (0 : α) then
              (⟨⟨t417, t414, t411⟩, t423⟩, ⟨⟨t476, t477, t478⟩, t483⟩, ⟨⟨t468, t469, t470⟩, t475⟩, ⟨⟨t460, t461, t462⟩, t467⟩, ⟨⟨(0 : α), (0 : α), (1 : α)⟩, t44⟩, ⟨⟨(0 : α), (0 : α), (-(1 : α))⟩, f⟩)
            else
              (⟨⟨t417, t414, t411⟩, t423⟩, ⟨⟨t476, t477, t478⟩, t483⟩, ⟨⟨t468, t469, t470⟩, t475⟩, ⟨⟨t460, t461, t462⟩, t467⟩, ⟨⟨(0 : α), (0 : α), (1 : α)⟩, t44⟩, ⟨⟨t83, t83, t84⟩, f⟩)
          else
            if t53 = (0 : α) then
              (⟨⟨t417, t414, t411⟩, t423⟩, ⟨⟨t476, t477, t478⟩, t483⟩, ⟨⟨t468, t469, t470⟩, t475⟩, ⟨⟨t460, t461, t462⟩, t467⟩, ⟨⟨t458, t458, t459⟩, t44⟩, ⟨⟨(0 : α), (0 : α), (-(1 : α))⟩, f⟩)
            else
              (⟨⟨t417, t414, t411⟩, t423⟩, ⟨⟨t476, t477, t478⟩, t483⟩, ⟨⟨t468, t469, t470⟩, t475⟩, ⟨⟨t460, t461, t462⟩, t467⟩, ⟨⟨t458, t458, t459⟩, t44⟩, ⟨⟨t83, t83, t84⟩, f⟩)
  else
    if t430 = (0 : α) then
      if t442 = (0 : α) then
        if t451 = (0 : α) then
          if t457 = (0 : α) then
            if t53 = (0 : α) then
              (⟨⟨t484, t485, t486⟩, t491⟩, ⟨⟨t429, t427, t425⟩, t435⟩, ⟨⟨t441, t439, t437⟩, t447⟩, ⟨⟨t450, t449, t448⟩, t456⟩, ⟨⟨(0 : α), (0 : α), (1 : α)⟩, t44⟩, ⟨⟨(0 : α), (0 : α), (-(1 : α))⟩, f⟩)
            else
              (⟨⟨t484, t485, t486⟩, t491⟩, ⟨⟨t429, t427, t425⟩, t435⟩, ⟨⟨t441, t439, t437⟩, t447⟩, ⟨⟨t450, t449, t448⟩, t456⟩, ⟨⟨(0 : α), (0 : α), (1 : α)⟩, t44⟩, ⟨⟨t83, t83, t84⟩, f⟩)
          else
            if t53 = (0 : α) then
              (⟨⟨t484, t485, t486⟩, t491⟩, ⟨⟨t429, t427, t425⟩, t435⟩, ⟨⟨t441, t439, t437⟩, t447⟩, ⟨⟨t450, t449, t448⟩, t456⟩, ⟨⟨t458, t458, t459⟩, t44⟩, ⟨⟨(0 : α), (0 : α), (-(1 : α))⟩, f⟩)
            else
              (⟨⟨t484, t485, t486⟩, t491⟩, ⟨⟨t429, t427, t425⟩, t435⟩, ⟨⟨t441, t439, t437⟩, t447⟩, ⟨⟨t450, t449, t448⟩, t456⟩, ⟨⟨t458, t458, t459⟩, t44⟩, ⟨⟨t83, t83, t84⟩, f⟩)
        else
          if t457 = (0 : α) then
            if t53 = (0 : α) then
              (⟨⟨t484, t485, t486⟩, t491⟩, ⟨⟨t429, t427, t425⟩, t435⟩, ⟨⟨t441, t439, t437⟩, t447⟩, ⟨⟨t460, t461, t462⟩, t467⟩, ⟨⟨(0 : α), (0 : α), (1 : α)⟩, t44⟩, ⟨⟨(0 : α), (0 : α), (-(1 : α))⟩, f⟩)
            else
              (⟨⟨t484, t485, t486⟩, t491⟩, ⟨⟨t429, t427, t425⟩, t435⟩, ⟨⟨t441, t439, t437⟩, t447⟩, ⟨⟨t460, t461, t462⟩, t467⟩, ⟨⟨(0 : α), (0 : α), (1 : α)⟩, t44⟩, ⟨⟨t83, t83, t84⟩, f⟩)
          else
            if t53 = (0 : α) then
              (⟨⟨t484, t485, t486⟩, t491⟩, ⟨⟨t429, t427, t425⟩, t435⟩, ⟨⟨t441, t439, t437⟩, t447⟩, ⟨⟨t460, t461, t462⟩, t467⟩, ⟨⟨t458, t458, t459⟩, t44⟩, ⟨⟨(0 : α), (0 : α), (-(1 : α))⟩, f⟩)
            else
              (⟨⟨t484, t485, t486⟩, t491⟩, ⟨⟨t429, t427, t425⟩, t435⟩, ⟨⟨t441, t439, t437⟩, t447⟩, ⟨⟨t460, t461, t462⟩, t467⟩, ⟨⟨t458, t458, t459⟩, t44⟩, ⟨⟨t83, t83, t84⟩, f⟩)
      else
        if t451 = (0 : α) then
          if t457 = (0 : α) then
            if t53 = (0 : α) then
              (⟨⟨t484, t485, t486⟩, t491⟩, ⟨⟨t429, t427, t425⟩, t435⟩, ⟨⟨t468, t469, t470⟩, t475⟩, ⟨⟨t450, t449, t448⟩, t456⟩, ⟨⟨(0 : α), (0 : α), (1 : α)⟩, t44⟩, ⟨⟨(0 : α), (0 : α), (-(1 : α))⟩, f⟩)
            else
              (⟨⟨t484, t485, t486⟩, t491⟩, ⟨⟨t429, t427, t425⟩, t435⟩, ⟨⟨t468, t469, t470⟩, t475⟩, ⟨⟨t450, t449, t448⟩, t456⟩, ⟨⟨(0 : α), (0 : α), (1 : α)⟩, t44⟩, ⟨⟨t83, t83, t84⟩, f⟩)
          else
            if t53 = (0 : α) then
              (⟨⟨t484, t485, t486⟩, t491⟩, ⟨⟨t429, t427, t425⟩, t435⟩, ⟨⟨t468, t469, t470⟩, t475⟩, ⟨⟨t450, t449, t448⟩, t456⟩, ⟨⟨t458, t458, t459⟩, t44⟩, ⟨⟨(0 : α), (0 : α), (-(1 : α))⟩, f⟩)
            else
              (⟨⟨t484, t485, t486⟩, t491⟩, ⟨⟨t429, t427, t425⟩, t435⟩, ⟨⟨t468, t469, t470⟩, t475⟩, ⟨⟨t450, t449, t448⟩, t456⟩, ⟨⟨t458, t458, t459⟩, t44⟩, ⟨⟨t83, t83, t84⟩, f⟩)
        else
          if t457 = (0 : α) then
            if t53 = (0 : α) then
              (⟨⟨t484, t485, t486⟩, t491⟩, ⟨⟨t429, t427, t425⟩, t435⟩, ⟨⟨t468, t469, t470⟩, t475⟩, ⟨⟨t460, t461, t462⟩, t467⟩, ⟨⟨(0 : α), (0 : α), (1 : α)⟩, t44⟩, ⟨⟨(0 : α), (0 : α), (-(1 : α))⟩, f⟩)
            else
              (⟨⟨t484, t485, t486⟩, t491⟩, ⟨⟨t429, t427, t425⟩, t435⟩, ⟨⟨t468, t469, t470⟩, t475⟩, ⟨⟨t460, t461, t462⟩, t467⟩, ⟨⟨(0 : α), (0 : α), (1 : α)⟩, t44⟩, ⟨⟨t83, t83, t84⟩, f⟩)
          else
            if t53 = (0 : α) then
              (⟨⟨t484, t485, t486⟩, t491⟩, ⟨⟨t429, t427, t425⟩, t435⟩, ⟨⟨t468, t469, t470⟩, t475⟩, ⟨⟨t460, t461, t462⟩, t467⟩, ⟨⟨t458, t458, t459⟩, t44⟩, ⟨⟨(0 : α), (0 : α), (-(1 : α))⟩, f⟩)
            else
              (⟨⟨t484, t485, t486⟩, t491⟩, ⟨⟨t429, t427, t425⟩, t435⟩, ⟨⟨t468, t469, t470⟩, t475⟩, ⟨⟨t460, t461, t462⟩, t467⟩, ⟨⟨t458, t458, t459⟩, t44⟩, ⟨⟨t83, t83, t84⟩, f⟩)
    else
      if t442 = (0 : α) then
        if t451 = (0 : α) then
          if t457 = (0 : α) then
            if t53 = (0 : α) then
              (⟨⟨t484, t485, t486⟩, t491⟩, ⟨⟨t476, t477, t478⟩, t483⟩, ⟨⟨t441, t439, t437⟩, t447⟩, ⟨⟨t450, t449, t448⟩, t456⟩, ⟨⟨(0 : α), (0 : α), (1 : α)⟩, t44⟩, ⟨⟨(0 : α), (0 : α), (-(1 : α))⟩, f⟩)
            else
              (⟨⟨t484, t485, t486⟩, t491⟩, ⟨⟨t476, t477, t478⟩, t483⟩, ⟨⟨t441, t439, t437⟩, t447⟩, ⟨⟨t450, t449, t448⟩, t456⟩, ⟨⟨(0 : α), (0 : α), (1 : α)⟩, t44⟩, ⟨⟨t83, t83, t84⟩, f⟩)
          else
            if t53 = (0 : α) then
              (⟨⟨t484, t485, t486⟩, t491⟩, ⟨⟨t476, t477, t478⟩, t483⟩, ⟨⟨t441, t439, t437⟩, t447⟩, ⟨⟨t450, t449, t448⟩, t456⟩, ⟨⟨t458, t458, t459⟩, t44⟩, ⟨⟨(0 : α), (0 : α), (-(1 : α))⟩, f⟩)
            else
              (⟨⟨t484, t485, t486⟩, t491⟩, ⟨⟨t476, t477, t478⟩, t483⟩, ⟨⟨t441, t439, t437⟩, t447⟩, ⟨⟨t450, t449, t448⟩, t456⟩, ⟨⟨t458, t458, t459⟩, t44⟩, ⟨⟨t83, t83, t84⟩, f⟩)
        else
          if t457 = (0 : α) then
            if t53 = (0 : α) then
              (⟨⟨t484, t485, t486⟩, t491⟩, ⟨⟨t476, t477, t478⟩, t483⟩, ⟨⟨t441, t439, t437⟩, t447⟩, ⟨⟨t460, t461, t462⟩, t467⟩, ⟨⟨(0 : α), (0 : α), (1 : α)⟩, t44⟩, ⟨⟨(0 : α), (0 : α), (-(1 : α))⟩, f⟩)
            else
              (⟨⟨t484, t485, t486⟩, t491⟩, ⟨⟨t476, t477, t478⟩, t483⟩, ⟨⟨t441, t439, t437⟩, t447⟩, ⟨⟨t460, t461, t462⟩, t467⟩, ⟨⟨(0 : α), (0 : α), (1 : α)⟩, t44⟩, ⟨⟨t83, t83, t84⟩, f⟩)
          else
            if t53 = (0 : α) then
              (⟨⟨t484, t485, t486⟩, t491⟩, ⟨⟨t476, t477, t478⟩, t483⟩, ⟨⟨t441, t439, t437⟩, t447⟩, ⟨⟨t460, t461, t462⟩, t467⟩, ⟨⟨t458, t458, t459⟩, t44⟩, ⟨⟨(0 : α), (0 : α), (-(1 : α))⟩, f⟩)
            else
              (⟨⟨t484, t485, t486⟩, t491⟩, ⟨⟨t476, t477, t478⟩, t483⟩, ⟨⟨t441, t439, t437⟩, t447⟩, ⟨⟨t460, t461, t462⟩, t467⟩, ⟨⟨t458, t458, t459⟩, t44⟩, ⟨⟨t83, t83, t84⟩, f⟩)
      else
        if t451 = (0 : α) then
          if t457 = (0 : α) then
            if t53 = (0 : α) then
              (⟨⟨t484, t485, t486⟩, t491⟩, ⟨⟨t476, t477, t478⟩, t483⟩, ⟨⟨t468, t469, t470⟩, t475⟩, ⟨⟨t450, t449, t448⟩, t456⟩, ⟨⟨(0 : α), (0 : α), (1 : α)⟩, t44⟩, ⟨⟨(0 : α), (0 : α), (-(1 : α))⟩, f⟩)
            else
              (⟨⟨t484, t485, t486⟩, t491⟩, ⟨⟨t476, t477, t478⟩, t483⟩, ⟨⟨t468, t469, t470⟩, t475⟩, ⟨⟨t450, t449, t448⟩, t456⟩, ⟨⟨(0 : α), (0 : α), (1 : α)⟩, t44⟩, ⟨⟨t83, t83, t84⟩, f⟩)
          else
            if t53 = (0 : α) then
              (⟨⟨t484, t485, t486⟩, t491⟩, ⟨⟨t476, t477, t478⟩, t483⟩, ⟨⟨t468, t469, t470⟩, t475⟩, ⟨⟨t450, t449, t448⟩, t456⟩, ⟨⟨t458, t458, t459⟩, t44⟩, ⟨⟨(0 : α), (0 : α), (-(1 : α))⟩, f⟩)
            else
              (⟨⟨t484, t485, t486⟩, t491⟩, ⟨⟨t476, t477, t478⟩, t483⟩, ⟨⟨t468, t469, t470⟩, t475⟩, ⟨⟨t450, t449, t448⟩, t456⟩, ⟨⟨t458, t458, t459⟩, t44⟩, ⟨⟨t83, t83, t84⟩, f⟩)
        else
          if t457 = (0 : α) then
            if t53 = (0 : α) then
              (⟨⟨t484, t485, t486⟩, t491⟩, ⟨⟨t476, t477, t478⟩, t483⟩, ⟨⟨t468, t469, t470⟩, t475⟩, ⟨⟨t460, t461, t462⟩, t467⟩, ⟨⟨(0 : α), (0 : α), (1 : α)⟩, t44⟩, ⟨⟨(0 : α), (0 : α), (-(1 : α))⟩, f⟩)
            else
              (⟨⟨t484, t485, t486⟩, t491⟩, ⟨⟨t476, t477, t478⟩, t483⟩, ⟨⟨t468, t469, t470⟩, t475⟩, ⟨⟨t460, t461, t462⟩, t467⟩, ⟨⟨(0 : α), (0 : α), (1 : α)⟩, t44⟩, ⟨⟨t83, t83, t84⟩, f⟩)
          else
            if t53 = (0 : α) then
              (⟨⟨t484, t485, t486⟩, t491⟩, ⟨⟨t476, t477, t478⟩, t483⟩, ⟨⟨t468, t469, t470⟩, t475⟩, ⟨⟨t460, t461, t462⟩, t467⟩, ⟨⟨t458, t458, t459⟩, t44⟩, ⟨⟨(0 : α), (0 : α), (-(1 : α))⟩, f⟩)
            else
              (⟨⟨t484, t485, t486⟩, t491⟩, ⟨⟨t476, t477, t478⟩, t483⟩, ⟨⟨t468, t469, t470⟩, t475⟩, ⟨⟨t460, t461, t462⟩, t467⟩, ⟨⟨t458, t458, t459⟩, t44⟩, ⟨⟨t83, t83, t84⟩, f⟩)

/-- extracted from the C++ template at T = Sym; 64 path(s) -/
def Frustum.planes_ortho {α : Type} [Add α] [Mul α] [Div α] [Neg α] [LT α] [LE α] [DecidableLT α] [DecidableLE α] [DecidableEq α] [OfNat α 0] [OfNat α 1] [OfNat α 2] (tmin : α) (tmax : α) (sqrt : α → α) (n : α) (f : α) (l : α) (r : α) (t : α) (b : α) : ((Plane3 α) × (Plane3 α) × (Plane3 α) × (Plane3 α) × (Plane3 α) × (Plane3 α)) :=
  let t44 := (-n)
  let t53 := (V3.length tmin tmax sqrt ⟨(0 : α), (0 : α), (-(1 : α))⟩)
  let t83 := ((0 : α) / t53)
  let t84 := ((-(1 : α)) / t53)
  let t457 := (V3.length tmin tmax sqrt ⟨(0 : α), (0 : α), (1 : α)⟩)
  let t458 := ((0 : α) / t457)
  let t459 := ((1 : α) / t457)
  let t492 := (V3.length tmin tmax sqrt ⟨(0 : α), (1 : α), (0 : α)⟩)
  let t493 := (V3.length tmin tmax sqrt ⟨(1 : α), (0 : α), (0 : α)⟩)
  let t494 := (-b)
  let t495 := (V3.length tmin tmax sqrt ⟨(0 : α), (-(1 : α)), (0 : α)⟩)
  let t496 := (-l)
  let t497 := (V3.length tmin tmax sqrt ⟨(-(1 : α)), (0 : α), (0 : α)⟩)
  let t498 := ((-(1 : α)) / t497)
  let t499 := ((0 : α) / t497)
  let t500 := ((0 : α) / t495)
  let t501 := ((-(1 : α)) / t495)
  let t502 := ((1 : α) / t493)
  let t503 := ((0 : α) / t493)
  let t504 := ((0 : α) / t492)
  let t505 := ((1 : α) / t492)
  if t492 = (0 : α) then
    if t493 = (0 : α) then
      if t495 = (0 : α) then
        if t497 = (0 : α) then
          if t457 = (0 : α) then
            if t53 = (0 : α) then
              (⟨⟨(0 : α), (1 : α), (0 : α)⟩, t⟩, ⟨⟨(1 : α), (0 : α), (0 : α)⟩, r⟩, ⟨⟨(0 : α), (-(1 : α)), (0 : α)⟩, t494⟩, ⟨⟨(-(1 : α)), (0 : α), (0 : α)⟩, t496⟩, ⟨⟨(0 : α), (0 : α), (1 : α)⟩, t44⟩, ⟨⟨(0 : α), (0 : α), (-(1 : α))⟩, f⟩)
            else
              (⟨⟨(0 : α), (1 : α), (0 : α)⟩, t⟩, ⟨⟨(1 : α), (0 : α), (0 : α)⟩, r⟩, ⟨⟨(0 : α), (-(1 : α)), (0 : α)⟩, t494⟩, ⟨⟨(-(1 : α)), (0 : α), (0 : α)⟩, t496⟩, ⟨⟨(0 : α), (0 : α), (1 : α)⟩, t44⟩, ⟨⟨t83, t83, t84⟩, f⟩)
          else
            if t53 = (0 : α) then
              (⟨⟨(0 : α), (1 : α), (0 : α)⟩, t⟩, ⟨⟨(1 : α), (0 : α), (0 : α)⟩, r⟩, ⟨⟨(0 : α), (-(1 : α)), (0 : α)⟩, t494⟩, ⟨⟨(-(1 : α)), (0 : α), (0 : α)⟩, t496⟩, ⟨⟨t458, t458, t459⟩, t44⟩, ⟨⟨(0 : α), (0 : α), (-(1 : α))⟩, f⟩)
            else
              (⟨⟨(0 : α), (1 : α), (0 : α)⟩, t⟩, ⟨⟨(1 : α), (0 : α), (0 : α)⟩, r⟩, ⟨⟨(0 : α), (-(1 : α)), (0 : α)⟩, t494⟩, ⟨⟨(-(1 : α)), (0 : α), (0 : α)⟩, t496⟩, ⟨⟨t458, t458, t459⟩, t44⟩, ⟨⟨t83, t83, t84⟩, f⟩)
        else
          if t457 = (0 : α) then
            if t53 = (0 : α) then
              (⟨⟨(0 : α), (1 : α), (0 : α)⟩, t⟩, ⟨⟨(1 : α), (0 : α), (0 : α)⟩, r⟩, ⟨⟨(0 : α), (-(1 : α)), (0 : α)⟩, t494⟩, ⟨⟨t498, t499, t499⟩, t496⟩, ⟨⟨(0 : α), (0 : α), (1 : α)⟩, t44⟩, ⟨⟨(0 : α), (0 : α), (-(1 : α))⟩, f⟩)
            else
              (⟨⟨(0 : α), (1 : α), (0 : α)⟩, t⟩, ⟨⟨(1 : α), (0 : α), (0 : α)⟩, r⟩, ⟨⟨(0 : α), (-(1 : α)), (0 : α)⟩, t494⟩, ⟨⟨t498, t499, t499⟩, t496⟩, ⟨⟨(0 : α), (0 : α), (1 : α)⟩, t44⟩, ⟨⟨t83, t83, t84⟩, f⟩)
          else
            if t53 = (0 : α) then
              (⟨⟨(0 : α), (1 : α), (0 : α)⟩, t⟩, ⟨⟨(1 : α), (0 : α), (0 : α)⟩, r⟩, ⟨⟨(0 : α), (-(1 : α)), (0 : α)⟩, t494⟩, ⟨⟨t498, t499, t499⟩, t496⟩, ⟨⟨t458, t458, t459⟩, t44⟩, ⟨⟨(0 : α), (0 : α), (-(1 : α))⟩, f⟩)
            else
              (⟨⟨(0 : α), (1 : α), (0 : α)⟩, t⟩, ⟨⟨(1 : α), (0 : α), (0 : α)⟩, r⟩, ⟨⟨(0 : α), (-(1 : α)), (0 : α)⟩, t494⟩, ⟨⟨t498, t499, t499⟩, t496⟩, ⟨⟨t458, t458, t459⟩, t44⟩, ⟨⟨t83, t83, t84⟩, f⟩)
      else
        if t497 = (0 : α) then
          if t457 = (0 : α) then
            if t53 = (0 : α) then
              (⟨⟨(0 : α), (1 : α), (0 : α)⟩, t⟩, ⟨⟨(1 : α), (0 : α), (0 : α)⟩, r⟩, ⟨⟨t500, t501, t500⟩, t494⟩, ⟨⟨(-(1 : α)), (0 : α), (0 : α)⟩, t496⟩, ⟨⟨(0 : α), (0 : α), (1 : α)⟩, t44⟩, ⟨⟨(0 : α), (0 : α), (-(1 : α))⟩, f⟩)
            else
              (⟨⟨(0 : α), (1 : α), (0 : α)⟩, t⟩, ⟨⟨(1 : α), (0 : α), (0 : α)⟩, r⟩, ⟨⟨t500, t501, t500⟩, t494⟩, ⟨⟨(-(1 : α)), (0 : α), (0 : α)⟩, t496⟩, ⟨⟨(0 : α), (0 : α), (1 : α)⟩, t44⟩, ⟨⟨t83, t83, t84⟩, f⟩)
          else
            if t53 = (0 : α) then
              (⟨⟨(0 : α), (1 : α), (0 : α)⟩, t⟩, ⟨⟨(1 : α), (0 : α), (0 : α)⟩, r⟩, ⟨⟨t500, t501, t500⟩, t494⟩, ⟨⟨(-(1 : α)), (0 : α), (0 : α)⟩, t496⟩, ⟨⟨t458, t458, t459⟩, t44⟩, ⟨⟨(0 : α), (0 : α), (-(1 : α))⟩, f⟩)
            else
              (⟨⟨(0 : α), (1 : α), (0 : α)⟩, t⟩, ⟨⟨(1 : α), (0 : α), (0 : α)⟩, r⟩, ⟨⟨t500, t501, t500⟩, t494⟩, ⟨⟨(-(1 : α)), (0 : α), (0 : α)⟩, t496⟩, ⟨⟨t458, t458, t459⟩, t44⟩, ⟨⟨t83, t83, t84⟩, f⟩)
        else
          if t457 = (0 : α) then
            if t53 = (0 : α) then
              (⟨⟨(0 : α), (1 : α), (0 : α)⟩, t⟩, ⟨⟨(1 : α), (0 : α), (0 : α)⟩, r⟩, ⟨⟨t500, t501, t500⟩, t494⟩, ⟨⟨t498, t499, t499⟩, t496⟩, ⟨⟨(0 : α), (0 : α), (1 : α)⟩, t44⟩, ⟨⟨(0 : α), (0 : α), (-(1 : α))⟩, f⟩)
            else
              (⟨⟨(0 : α), (1 : α), (0 : α)⟩, t⟩, ⟨⟨(1 : α), (0 : α), (0 : α)⟩, r⟩, ⟨⟨t500, t501, t500⟩, t494⟩, ⟨⟨t498, t499, t499⟩, t496⟩, ⟨⟨(0 : α), (0 : α), (1 : α)⟩, t44⟩, ⟨⟨t83, t83, t84⟩, f⟩)
          else
            if t53 = (0 : α) then
              (⟨⟨(0 : α), (1 : α), (0 : α)⟩, t⟩, ⟨⟨(1 : α), (0 : α), (0 : α)⟩, r⟩, ⟨⟨t500, t501, t500⟩, t494⟩, ⟨⟨t498, t499, t499⟩, t496⟩, ⟨⟨t458, t458, t459⟩, t44⟩, ⟨⟨(0 : α), (0 : α), (-(1 : α))⟩, f⟩)
            else
              (⟨⟨(0 : α), (1 : α), (0 : α)⟩, t⟩, ⟨⟨(1 : α), (0 : α), (0 : α)⟩, r⟩, ⟨⟨t500, t501, t500⟩, t494⟩, ⟨⟨t498, t499, t499⟩, t496⟩, ⟨⟨t458, t458, t459⟩, t44⟩, ⟨⟨t83, t83, t84⟩, f⟩)
    else
      if t495 = (0 : α) then
        if t497 = (0 : α) then
          if t457 = (0 : α) then
            if t53 = (0 : α) then
              (⟨⟨(0 : α), (1 : α), (0 : α)⟩, t⟩, ⟨⟨t502, t503, t503⟩, r⟩, ⟨⟨(0 : α), (-(1 : α)), (0 : α)⟩, t494⟩, ⟨⟨(-(1 : α)), (0 : α), (0 : α)⟩, t496⟩, ⟨⟨(0 : α), (0 : α), (1 : α)⟩, t44⟩, ⟨⟨(0 : α), (0 : α), (-(1 : α))⟩, f⟩)
            else
              (⟨⟨(0 : α), (1 : α), (0 : α)⟩, t⟩, ⟨⟨t502, t503, t503⟩, r⟩, ⟨⟨(0 : α), (-(1 : α)), (0 : α)⟩, t494⟩, ⟨⟨(-(1 : α)), (0 : α), (0 : α)⟩, t496⟩, ⟨⟨(0 : α), (0 : α), (1 : α)⟩, t44⟩, ⟨⟨t83, t83, t84⟩, f⟩)
          else
            if t53 = (0 : α) then
              (⟨⟨(0 : α), (1 : α), (0 : α)⟩, t⟩, ⟨⟨t502, t503, t503⟩, r⟩, ⟨⟨(0 : α), (-(1 : α)), (0 : α)⟩, t494⟩, ⟨⟨(-(1 : α)), (0 : α), (0 : α)⟩, t496⟩, ⟨⟨t458, t458, t459⟩, t44⟩, ⟨⟨(0 : α), (0 : α), (-(1 : α))⟩, f⟩)
            else
              (⟨⟨(0 : α), (1 : α), (0 : α)⟩, t⟩, ⟨⟨t502, t503, t503⟩, r⟩, ⟨⟨(0 : α), (-(1 : α)), (0 : α)⟩, t494⟩, ⟨⟨(-(1 : α)), (0 : α), (0 : α)⟩, t496⟩, ⟨⟨t458, t458, t459⟩, t44⟩, ⟨⟨t83, t83, t84⟩, f⟩)
        else
          if t457 = (0 : α) then
            if t53 = (0 : α) then
              (⟨⟨(0 : α), (1 : α), (0 : α)⟩, t⟩, ⟨⟨t502, t503, t503⟩, r⟩, ⟨⟨(0 : α), (-(1 : α)), (0 : α)⟩, t494⟩, ⟨⟨t498, t499, t499⟩, t496⟩, ⟨⟨(0 : α), (0 : α), (1 : α)⟩, t44⟩, ⟨⟨(0 : α), (0 : α), (-(1 : α))⟩, f⟩)
            else
              (⟨⟨(0 : α), (1 : α), (0 : α)⟩, t⟩, ⟨⟨t502, t503, t503⟩, r⟩, ⟨⟨(0 : α), (-(1 : α)), (0 : α)⟩, t494⟩, ⟨⟨t498, t499, t499⟩, t496⟩, ⟨⟨(0 : α), (0 : α), (1 : α)⟩, t44⟩, ⟨⟨t83, t83, t84⟩, f⟩)
          else
            if t53 = (0 : α) then
              (⟨⟨(0 : α), (1 : α), (0 : α)⟩, t⟩, ⟨⟨t502, t503, t503⟩, r⟩, ⟨⟨(0 : α), (-(1 : α)), (0 : α)⟩, t494⟩, ⟨⟨t498, t499, t499⟩, t496⟩, ⟨⟨t458, t458, t459⟩, t44⟩, ⟨⟨(0 : α), (0 : α), (-(1 : α))⟩, f⟩)
            else
              (⟨⟨(0 : α), (1 : α), (0 : α)⟩, t⟩, ⟨⟨t502, t503, t503⟩, r⟩, ⟨⟨(0 : α), (-(1 : α)), (0 : α)⟩, t494⟩, ⟨⟨t498, t499, t499⟩, t496⟩, ⟨⟨t458, t458, t459⟩, t44⟩, ⟨⟨t83, t83, t84⟩, f⟩)
      else
        if t497 = (0 : α) then
          if t457 = (0 : α) then
            if t53 = (0 : α) then
              (⟨⟨(0 : α), (1 : α), (0 : α)⟩, t⟩, ⟨⟨t502, t503, t503⟩, r⟩, ⟨⟨t500, t501, t500⟩, t494⟩, ⟨⟨(-(1 : α)), (0 : α), (0 : α)⟩, t496⟩, ⟨⟨(0 : α), (0 : α), (1 : α)⟩, t44⟩, ⟨⟨(0 : α), (0 : α), (-(1 : α))⟩, f⟩)
            else
              (⟨⟨(0 : α), (1 : α), (0 : α)⟩, t⟩, ⟨⟨t502, t503, t503⟩, r⟩, ⟨⟨t500, t501, t500⟩, t494⟩, ⟨⟨(-(1 : α)), (0 : α), (0 : α)⟩, t496⟩, ⟨⟨(0 : α), (0 : α), (1 : α)⟩, t44⟩, ⟨⟨t83, t83, t84⟩, f⟩)
          else
            if t53 = (0 : α) then
              (⟨⟨(0 : α), (1 : α), (0 : α)⟩, t⟩, ⟨⟨t502, t503, t503⟩, r⟩, ⟨⟨t500, t501, t500⟩, t494⟩, ⟨⟨(-(1 : α)), (0 : α), (0 : α)⟩, t496⟩, ⟨⟨t458, t458, t459⟩, t44⟩, ⟨⟨(0 : α), (0 : α), (-(1 : α))⟩, f⟩)
            else
              (⟨⟨(0 : α), (1 : α), (0 : α)⟩, t⟩, ⟨⟨t502, t503, t503⟩, r⟩, ⟨⟨t500, t501, t500⟩, t494⟩, ⟨⟨(-(1 : α)), (0 : α), (0 : α)⟩, t496⟩, ⟨⟨t458, t458, t459⟩, t44⟩, ⟨⟨t83, t83, t84⟩, f⟩)
        else
          if t457 = (0 : α) then
            if t53 = (0 : α) then
              (⟨⟨(0 : α), (1 : α), (0 : α)⟩, t⟩, ⟨⟨t502, t503, t503⟩, r⟩, ⟨⟨t500, t501, t500⟩, t494⟩, ⟨⟨t498, t499, t499⟩, t496⟩, ⟨⟨(0 : α), (0 : α), (1 : α)⟩, t44⟩, ⟨⟨(0 : α), (0 : α), (-(1 : α))⟩, f⟩)
            else
              (⟨⟨(0 : α), (1 : α), (0 : α)⟩, t⟩, ⟨⟨t502, t503, t503⟩, r⟩, ⟨⟨t500, t501, t500⟩, t494⟩, ⟨⟨t498, t499, t499⟩, t496⟩, ⟨⟨(0 : α), (0 : α), (1 : α)⟩, t44⟩, ⟨⟨t83, t83, t84⟩, f⟩)
          else
            if t53 = (0 : α) then
              (⟨⟨(0 : α), (1 : α), (0 : α)⟩, t⟩, ⟨⟨t502, t503, t503⟩, r⟩, ⟨⟨t500, t501, t500⟩, t494⟩, ⟨⟨t498, t499, t499⟩, t496⟩, ⟨⟨t458, t458, t459⟩, t44⟩, ⟨⟨(0 : α), (0 : α), (-(1 : α))⟩, f⟩)
            else
              (⟨⟨(0 : α), (1 : α), (0 : α)⟩, t⟩, ⟨⟨t502, t503, t503⟩, r⟩, ⟨⟨t500, t501, t500⟩, t494⟩, ⟨⟨t498, t499, t499⟩, t496⟩, ⟨⟨t458, t458, t459⟩, t44⟩, ⟨⟨t83, t83, t84⟩, f⟩)
  else
    if t493 = (0 : α) then
      if t495 = (0 : α) then
        if t497 = (0 : α) then
          if t457 = (0 : α) then
            if t53 = (0 : α) then
              (⟨⟨t504, t505, t504⟩, t⟩, ⟨⟨(1 : α), (0 : α), (0 : α)⟩, r⟩, ⟨⟨(0 : α), (-(1 : α)), (0 : α)⟩, t494⟩, ⟨⟨(-(1 : α)), (0 : α), (0 : α)⟩, t496⟩, ⟨⟨(0 : α), (0 : α), (1 : α)⟩, t44⟩, ⟨⟨(0 : α), (0 : α), (-(1 : α))⟩, f⟩)
            else
              (⟨⟨t504, t505, t504⟩, t⟩, ⟨⟨(1 : α), (0 : α), (0 : α)⟩, r⟩, ⟨⟨(0 : α), (-(1 : α)), (0 : α)⟩, t494⟩, ⟨⟨(-(1 : α)), (0 : α), (0 : α)⟩, t496⟩, ⟨⟨(0 : α), (0 : α), (1 : α)⟩, t44⟩, ⟨⟨t83, t83, t84⟩, f⟩)
          else
            if t53 = (0 : α) then
              (⟨⟨t504, t505, t504⟩, t⟩, ⟨⟨(1 : α), (0 : α), (0 : α)⟩, r⟩, ⟨⟨(0 : α), (-(1 : α)), (0 : α)⟩, t494⟩, ⟨⟨(-(1 : α)), (0 : α), (0 : α)⟩, t496⟩, ⟨⟨t458, t458, t459⟩, t44⟩, ⟨⟨(0 : α), (0 : α), (-(1 : α))⟩, f⟩)
            else
              (⟨⟨t504, t505, t504⟩, t⟩, ⟨⟨(1 : α), (0 : α), (0 : α)⟩, r⟩, ⟨⟨(0 : α), (-(1 : α)), (0 : α)⟩, t494⟩, ⟨⟨(-(1 : α)), (0 : α), (0 : α)⟩, t496⟩, ⟨⟨t458, t458, t459⟩, t44⟩, ⟨⟨t83, t83, t84⟩, f⟩)
        else
          if t457 = (0 : α) then
            if t53 = (0 : α) then
              (⟨⟨t504, t505, t504⟩, t⟩, ⟨⟨(1 : α), (0 : α), (0 : α)⟩, r⟩, ⟨⟨(0 : α), (-(1 : α)), (0 : α)⟩, t494⟩, ⟨⟨t498, t499, t499⟩, t496⟩, ⟨⟨(0 : α), (0 : α), (1 : α)⟩, t44⟩, ⟨⟨(0 : α), (0 : α), (-(1 : α))⟩, f⟩)
            else
              (⟨⟨t504, t505, t504⟩, t⟩, ⟨⟨(1 : α), (0 : α), (0 : α)⟩, r⟩, ⟨⟨(0 : α), (-(1 : α)), (0 : α)⟩, t494⟩, ⟨⟨t498, t499, t499⟩, t496⟩, ⟨⟨(0 : α), (0 : α), (1 : α)⟩, t44⟩, ⟨⟨t83, t83, t84⟩, f⟩)
          else
            if t53 = (0 : α) then
              (⟨⟨t504, t505, t504⟩, t⟩, ⟨⟨(1 : α), (0 : α), (0 : α)⟩, r⟩, ⟨⟨(0 : α), (-(1 : α)), (0 : α)⟩, t494⟩, ⟨⟨t498, t499, t499⟩, t496⟩, ⟨⟨t458, t458, t459⟩, t44⟩, ⟨⟨(0 : α), (0 : α), (-(1 : α))⟩, f⟩)
            else
              (⟨⟨t504, t505, t504⟩, t⟩, ⟨⟨(1 : α), (0 : α), (0 : α)⟩, r⟩, ⟨⟨(0 : α), (-(1 : α)), (0 : α)⟩, t494⟩, ⟨⟨t498, t499, t499⟩, t496⟩, ⟨⟨t458, t458, t459⟩, t44⟩, ⟨⟨t83, t83, t84⟩, f⟩)
      else
        if t497 = (0 : α) then
          if t457 = (0 : α) then
            if t53 = (0 : α) then
              (⟨⟨t504, t505, t504⟩, t⟩, ⟨⟨(1 : α), (0 : α), (0 : α)⟩, r⟩, ⟨⟨t500, t501, t500⟩, t494⟩, ⟨⟨(-(1 : α)), (0 : α), (0 : α)⟩, t496⟩, ⟨⟨(0 : α), (0 : α), (1 : α)⟩, t44⟩, ⟨⟨(0 : α), (0 : α), (-(1 : α))⟩, f⟩)
            else
              (⟨⟨t504, t505, t504⟩, t⟩, ⟨⟨(1 : α), (0 : α), (0 : α)⟩, r⟩, ⟨⟨t500, t501, t500⟩, t494⟩, ⟨⟨(-(1 : α)), (0 : α), (0 : α)⟩, t496⟩, ⟨⟨(0 : α), (0 : α), (1 : α)⟩, t44⟩, ⟨⟨t83, t83, t84⟩, f⟩)
          else
            if t53 = (0 : α) then
              (⟨⟨t504, t505, t504⟩, t⟩, ⟨⟨(1 : α), (0 : α), (0 : α)⟩, r⟩, ⟨⟨t500, t501, t500⟩, t494⟩, ⟨⟨(-(1 : α)), (0 : α), (0 : α)⟩, t496⟩, ⟨⟨t458, t458, t459⟩, t44⟩, ⟨⟨(0 : α), (0 : α), (-(1 : α))⟩, f⟩)
            else
              (⟨⟨t504, t505, t504⟩, t⟩, ⟨⟨(1 : α), (0 : α), (0 : α)⟩, r⟩, ⟨⟨t500, t501, t500⟩, t494⟩, ⟨⟨(-(1 : α)), (0 : α), (0 : α)⟩, t496⟩, ⟨⟨t458, t458, t459⟩, t44⟩, ⟨⟨t83, t83, t84⟩, f⟩)
        else
          if t457 = (0 : α) then
            if t53 = (0 : α) then
              (⟨⟨t504, t505, t504⟩, t⟩, ⟨⟨(1 : α), (0 : α), (0 : α)⟩, r⟩, ⟨⟨t500, t501, t500⟩, t494⟩, ⟨⟨t498, t499, t499⟩, t496⟩, ⟨⟨(0 : α), (0 : α), (1 : α)⟩, t44⟩, ⟨⟨(0 : α), (0 : α), (-(1 : α))⟩, f⟩)
            else
              (⟨⟨t504, t505, t504⟩, t⟩, ⟨⟨(1 : α), (0 : α), (0 : α)⟩, r⟩, ⟨⟨t500, t501, t500⟩, t494⟩, ⟨⟨t498, t499, t499⟩, t496⟩, ⟨⟨(0 : α), (0 : α), (1 : α)⟩, t44⟩, ⟨⟨t83, t83, t84⟩, f⟩)
          else
            if t53 = (0 : α) then
              (⟨⟨t504, t505, t504⟩, t⟩, ⟨⟨(1 : α), (0 : α), (0 : α)⟩, r⟩, ⟨⟨t500, t501, t500⟩, t494⟩, ⟨⟨t498, t499, t499⟩, t496⟩, ⟨⟨t458, t458, t459⟩, t44⟩, ⟨⟨(0 : α), (0 : α), (-(1 : α))⟩, f⟩)
            else
              (⟨⟨t504, t505, t504⟩, t⟩, ⟨⟨(1 : α), (0 : α), (0 : α)⟩, r⟩, ⟨⟨t500, t501, t500⟩, t494⟩, ⟨⟨t498, t499, t499⟩, t496⟩, ⟨⟨t458, t458, t459⟩, t44⟩, ⟨⟨t83, t83, t84⟩, f⟩)
    else
      if t495 = (0 : α) then
        if t497 = (0 : α) then
          if t457 = (0 : α) then
            if t53 = (0 : α) then
              (⟨⟨t504, t505, t504⟩, t⟩, ⟨⟨t502, t503, t503⟩, r⟩, ⟨⟨(0 : α), (-(1 : α)), (0 : α)⟩, t494⟩, ⟨⟨(-(1 : α)), (0 : α), (0 : α)⟩, t496⟩, ⟨⟨(0 : α), (0 : α), (1 : α)⟩, t44⟩, ⟨⟨(0 : α), (0 : α), (-(1 : α))⟩, f⟩)
            else
              (⟨⟨t504, t505, t504⟩, t⟩, ⟨⟨t502, t503, t503⟩, r⟩, ⟨⟨(0 : α), (-(1 : α)), (0 : α)⟩, t494⟩, ⟨⟨(-(1 : α)), (0 : α), (0 : α)⟩, t496⟩, ⟨⟨(0 : α), (0 : α), (1 : α)⟩, t44⟩, ⟨⟨t83, t83, t84⟩, f⟩)
          else
            if t53 = (0 : α) then
              (⟨⟨t504, t505, t504⟩, t⟩, ⟨⟨t502, t503, t503⟩, r⟩, ⟨⟨(0 : α), (-(1 : α)), (0 : α)⟩, t494⟩, ⟨⟨(-(1 : α)), (0 : α), (0 : α)⟩, t496⟩, ⟨⟨t458, t458, t459⟩, t44⟩, ⟨⟨(0 : α), (0 : α), (-(1 : α))⟩, f⟩)
            else
              (⟨⟨t504, t505, t504⟩, t⟩, ⟨⟨t502, t503, t503⟩, r⟩, ⟨⟨(0 : α), (-(1 : α)), (0 : α)⟩, t494⟩, ⟨⟨(-(1 : α)), (0 : α), (0 : α)⟩, t496⟩, ⟨⟨t458, t458, t459⟩, t44⟩, ⟨⟨t83, t83, t84⟩, f⟩)
        else
          if t457 = (0 : α) then
            if t53 = (0 : α) then
              (⟨⟨t504, t505, t504⟩, t⟩, ⟨⟨t502, t503, t503⟩, r⟩, ⟨⟨(0 : α), (-(1 : α)), (0 : α)⟩, t494⟩, ⟨⟨t498, t499, t499⟩, t496⟩, ⟨⟨(0 : α), (0 : α), (1 : α)⟩, t44⟩, ⟨⟨(0 : α), (0 : α), (-(1 : α))⟩, f⟩)
            else
              (⟨⟨t504, t505, t504⟩, t⟩, ⟨⟨t502, t503, t503⟩, r⟩, ⟨⟨(0 : α), (-(1 : α)), (0 : α)⟩, t494⟩, ⟨⟨t498, t499, t499⟩, t496⟩, ⟨⟨(0 : α), (0 : α), (1 : α)⟩, t44⟩, ⟨⟨t83, t83, t84⟩, f⟩)
          else
            if t53 = (0 : α) then
              (⟨⟨t504, t505, t504⟩, t⟩, ⟨⟨t502, t503, t503⟩, r⟩, ⟨⟨(0 : α), (-(1 : α)), (0 : α)⟩, t494⟩, ⟨⟨t498, t499, t499⟩, t496⟩, ⟨⟨t458, t458, t459⟩, t44⟩, ⟨⟨(0 : α), (0 : α), (-(1 : α))⟩, f⟩)
            else
              (⟨⟨t504, t505, t504⟩, t⟩, ⟨⟨t502, t503, t503⟩, r⟩, ⟨⟨(0 : α), (-(1 : α)), (0 : α)⟩, t494⟩, ⟨⟨t498, t499, t499⟩, t496⟩, ⟨⟨t458, t458, t459⟩, t44⟩, ⟨⟨t83, t83, t84⟩, f⟩)
      else
        if t497 = (0 : α) then
          if t457 = (0 : α) then
            if t53 = (0 : α) then
              (⟨⟨t504, t505, t504⟩, t⟩, ⟨⟨t502, t503, t503⟩, r⟩, ⟨⟨t500, t501, t500⟩, t494⟩, ⟨⟨(-(1 : α)), (0 : α), (0 : α)⟩, t496⟩, ⟨⟨(0 : α), (0 : α), (1 : α)⟩, t44⟩, ⟨⟨(0 : α), (0 : α), (-(1 : α))⟩, f⟩)
            else
              (⟨⟨t504, t505, t504⟩, t⟩, ⟨⟨t502, t503, t503⟩, r⟩, ⟨⟨t500, t501, t500⟩, t494⟩, ⟨⟨(-(1 : α)), (0 : α), (0 : α)⟩, t496⟩, ⟨⟨(0 : α), (0 : α), (1 : α)⟩, t44⟩, ⟨⟨t83, t83, t84⟩, f⟩)
          else
            if t53 = (0 : α) then
              (⟨⟨t504, t505, t504⟩, t⟩, ⟨⟨t502, t503, t503⟩, r⟩, ⟨⟨t500, t501, t500⟩, t494⟩, ⟨⟨(-(1 : α)), (0 : α), (0 : α)⟩, t496⟩, ⟨⟨t458, t458, t459⟩, t44⟩, ⟨⟨(0 : α), (0 : α), (-(1 : α))⟩, f⟩)
            else
              (⟨⟨t504, t505, t504⟩, t⟩, ⟨⟨t502, t503, t503⟩, r⟩, ⟨⟨t500, t501, t500⟩, t494⟩, ⟨⟨(-(1 : α)), (0 : α), (0 : α)⟩, t496⟩, ⟨⟨t458, t458, t459⟩, t44⟩, ⟨⟨t83, t83, t84⟩, f⟩)
        else
          if t457 = (0 : α) then
            if t53 = (0 : α) then
              (⟨⟨t504, t505, t504⟩, t⟩, ⟨⟨t502, t503, t503⟩, r⟩, ⟨⟨t500, t501, t500⟩, t494⟩, ⟨⟨t498, t499, t499⟩, t496⟩, ⟨⟨(0 : α), (0 : α), (1 : α)⟩, t44⟩, ⟨⟨(0 : α), (0 : α), (-(1 : α))⟩, f⟩)
            else
              (⟨⟨t504, t505, t504⟩, t⟩, ⟨⟨t502, t503, t503⟩, r⟩, ⟨⟨t500, t501, t500⟩, t494⟩, ⟨⟨t498, t499, t499⟩, t496⟩, ⟨⟨(0 : α), (0 : α), (1 : α)⟩, t44⟩, ⟨⟨t83, t83, t84⟩, f⟩)
          else
            if t53 = (0 : α) then
              (⟨⟨t504, t505, t504⟩, t⟩, ⟨⟨t502, t503, t503⟩, r⟩, ⟨⟨t500, t501, t500⟩, t494⟩, ⟨⟨t498, t499, t499⟩, t496⟩, ⟨⟨t458, t458, t459⟩, t44⟩, ⟨⟨(0 : α), (0 : α), (-(1 : α))⟩, f⟩)
            else
              (⟨⟨t504, t505, t504⟩, t⟩, ⟨⟨t502, t503, t503⟩, r⟩, ⟨⟨t500, t501, t500⟩, t494⟩, ⟨⟨t498, t499, t499⟩, t496⟩, ⟨⟨t458, t458, t459⟩, t44⟩, ⟨⟨t83, t83, t84⟩, f⟩)

end ImathVerif.Gen
