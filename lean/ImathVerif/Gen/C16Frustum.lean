-- GENERATED from /repo/src/Imath by harness/sym (T = Sym path extraction); do not edit.
import ImathVerif.Basic.Types
import ImathVerif.Gen.Leaf
set_option linter.unusedVariables false
namespace ImathVerif.Gen
open ImathVerif

/-- extracted from the C++ template at T = Sym; 1 path(s) -/
def Frustum.ctor_persp {α : Type} (n : α) (f : α) (l : α) (r : α) (t : α) (b : α) : (α × α × α × α × α × α × Bool) :=
  (n, f, l, r, t, b, false)

/-- extracted from the C++ template at T = Sym; 1 path(s) -/
def Frustum.ctor_ortho {α : Type} (n : α) (f : α) (l : α) (r : α) (t : α) (b : α) : (α × α × α × α × α × α × Bool) :=
  (n, f, l, r, t, b, true)

/-- extracted from the C++ template at T = Sym; 1 path(s) -/
def Frustum.set_persp {α : Type} (n : α) (f : α) (l : α) (r : α) (t : α) (b : α) (n2 : α) (f2 : α) (l2 : α) (r2 : α) (t2 : α) (b2 : α) : (α × α × α × α × α × α × Bool) :=
  (n2, f2, l2, r2, t2, b2, false)

/-- extracted from the C++ template at T = Sym; 1 path(s) -/
def Frustum.set_ortho {α : Type} (n : α) (f : α) (l : α) (r : α) (t : α) (b : α) (n2 : α) (f2 : α) (l2 : α) (r2 : α) (t2 : α) (b2 : α) : (α × α × α × α × α × α × Bool) :=
  (n2, f2, l2, r2, t2, b2, true)

/-- extracted from the C++ template at T = Sym; 4 path(s) -/
def Frustum.degenerate_persp {α : Type} [DecidableEq α] (n : α) (f : α) (l : α) (r : α) (t : α) (b : α) : Bool :=
  if n = f then
    true
  else
    if l = r then
      true
    else
      if t = b then
        true
      else
        false

/-- extracted from the C++ template at T = Sym; 4 path(s) -/
def Frustum.degenerate_ortho {α : Type} [DecidableEq α] (n : α) (f : α) (l : α) (r : α) (t : α) (b : α) : Bool :=
  if n = f then
    true
  else
    if l = r then
      true
    else
      if t = b then
        true
      else
        false

/-- extracted from the C++ template at T = Sym; 2 path(s) -/
def Frustum.setFov_persp {α : Type} [Sub α] [Mul α] [Div α] [Neg α] [DecidableEq α] [OfNat α 0] [OfNat α 2] (tan : α → α) (n : α) (f : α) (l : α) (r : α) (t : α) (b : α) (nearPlane : α) (farPlane : α) (fovx : α) (fovy : α) (aspect : α) : (α × α × α × α × α × α × Bool) :=
  let t21 := (nearPlane * (tan (fovy / (2 : α))))
  let t22 := (-t21)
  let t25 := (((t21 - t22) * aspect) / (2 : α))
  let t29 := (nearPlane * (tan (fovx / (2 : α))))
  let t30 := (-t29)
  let t33 := (((t29 - t30) / aspect) / (2 : α))
  if fovx = (0 : α) then
    (nearPlane, farPlane, (-t25), t25, t21, t22, false)
  else
    (nearPlane, farPlane, t30, t29, t33, (-t33), false)

/-- extracted from the C++ template at T = Sym; 2 path(s) -/
def Frustum.setFov_ortho {α : Type} [Sub α] [Mul α] [Div α] [Neg α] [DecidableEq α] [OfNat α 0] [OfNat α 2] (tan : α → α) (n : α) (f : α) (l : α) (r : α) (t : α) (b : α) (nearPlane : α) (farPlane : α) (fovx : α) (fovy : α) (aspect : α) : (α × α × α × α × α × α × Bool) :=
  let t21 := (nearPlane * (tan (fovy / (2 : α))))
  let t22 := (-t21)
  let t25 := (((t21 - t22) * aspect) / (2 : α))
  let t29 := (nearPlane * (tan (fovx / (2 : α))))
  let t30 := (-t29)
  let t33 := (((t29 - t30) / aspect) / (2 : α))
  if fovx = (0 : α) then
    (nearPlane, farPlane, (-t25), t25, t21, t22, false)
  else
    (nearPlane, farPlane, t30, t29, t33, (-t33), false)

/-- extracted from the C++ template at T = Sym; 2 path(s) -/
def Frustum.ctorFov {α : Type} [Sub α] [Mul α] [Div α] [Neg α] [DecidableEq α] [OfNat α 0] [OfNat α 2] (tan : α → α) (nearPlane : α) (farPlane : α) (fovx : α) (fovy : α) (aspect : α) : (α × α × α × α × α × α × Bool) :=
  let t21 := (nearPlane * (tan (fovy / (2 : α))))
  let t22 := (-t21)
  let t25 := (((t21 - t22) * aspect) / (2 : α))
  let t29 := (nearPlane * (tan (fovx / (2 : α))))
  let t30 := (-t29)
  let t33 := (((t29 - t30) / aspect) / (2 : α))
  if fovx = (0 : α) then
    (nearPlane, farPlane, (-t25), t25, t21, t22, false)
  else
    (nearPlane, farPlane, t30, t29, t33, (-t33), false)

/-- extracted from the C++ template at T = Sym; 1 path(s) -/
def Frustum.fovx_persp {α : Type} [Sub α] (atan2 : α → α → α) (n : α) (f : α) (l : α) (r : α) (t : α) (b : α) : α :=
  ((atan2 r n) - (atan2 l n))

/-- extracted from the C++ template at T = Sym; 1 path(s) -/
def Frustum.fovy_persp {α : Type} [Sub α] (atan2 : α → α → α) (n : α) (f : α) (l : α) (r : α) (t : α) (b : α) : α :=
  ((atan2 t n) - (atan2 b n))

/-- extracted from the C++ template at T = Sym; 1 path(s) -/
def Frustum.aspect_persp {α : Type} [Sub α] [Div α] (n : α) (f : α) (l : α) (r : α) (t : α) (b : α) : α :=
  ((r - l) / (t - b))

/-- extracted from the C++ template at T = Sym; 1 path(s) -/
def Frustum.fovx_ortho {α : Type} [Sub α] (atan2 : α → α → α) (n : α) (f : α) (l : α) (r : α) (t : α) (b : α) : α :=
  ((atan2 r n) - (atan2 l n))

/-- extracted from the C++ template at T = Sym; 1 path(s) -/
def Frustum.fovy_ortho {α : Type} [Sub α] (atan2 : α → α → α) (n : α) (f : α) (l : α) (r : α) (t : α) (b : α) : α :=
  ((atan2 t n) - (atan2 b n))

/-- extracted from the C++ template at T = Sym; 1 path(s) -/
def Frustum.aspect_ortho {α : Type} [Sub α] [Div α] (n : α) (f : α) (l : α) (r : α) (t : α) (b : α) : α :=
  ((r - l) / (t - b))

/-- extracted from the C++ template at T = Sym; 32 path(s) -/
def Frustum.modifyNearAndFar_persp {α : Type} [Add α] [Sub α] [Mul α] [Div α] [Neg α] [LT α] [LE α] [DecidableLT α] [DecidableLE α] [DecidableEq α] [OfNat α 0] [OfNat α 1] [OfNat α 2] (tmin : α) (tmax : α) (sqrt : α → α) (n : α) (f : α) (l : α) (r : α) (t : α) (b : α) (n2 : α) (f2 : α) : (α × α × α × α × α × α × Bool) :=
  let t45 := ((-n) - (0 : α))
  let t46 := (b - (0 : α))
  let t47 := (l - (0 : α))
  let t48 := (V3.length tmin tmax sqrt ⟨t47, t46, t45⟩)
  let t49 := (t - (0 : α))
  let t50 := (r - (0 : α))
  let t51 := (V3.length tmin tmax sqrt ⟨t50, t49, t45⟩)
  let t53 := (V3.length tmin tmax sqrt ⟨(0 : α), (0 : α), (-(1 : α))⟩)
  let t54 := ((-(1 : α)) * t45)
  let t58 := ((((0 : α) * t47) + ((0 : α) * t46)) + t54)
  let t62 := ((((0 : α) * t50) + ((0 : α) * t49)) + t54)
  let t64 := ((0 : α) * (0 : α))
  let t68 := (-(((t64 + t64) + ((-(1 : α)) * (0 : α))) - n2))
  let t69 := (t68 / t62)
  let t74 := ((0 : α) + (t49 * t69))
  let t75 := ((0 : α) + (t50 * t69))
  let t76 := (t68 / t58)
  let t81 := ((0 : α) + (t46 * t76))
  let t82 := ((0 : α) + (t47 * t76))
  let t83 := ((0 : α) / t53)
  let t84 := ((-(1 : α)) / t53)
  let t85 := (t84 * t45)
  let t89 := (((t83 * t47) + (t83 * t46)) + t85)
  let t93 := (((t83 * t50) + (t83 * t49)) + t85)
  let t95 := (t83 * (0 : α))
  let t99 := (-(((t95 + t95) + (t84 * (0 : α))) - n2))
  let t100 := (t99 / t93)
  let t105 := ((0 : α) + (t49 * t100))
  let t106 := ((0 : α) + (t50 * t100))
  let t107 := (t99 / t89)
  let t112 := ((0 : α) + (t46 * t107))
  let t113 := ((0 : α) + (t47 * t107))
  let t114 := (t50 / t51)
  let t115 := (t49 / t51)
  let t116 := (t45 / t51)
  let t121 := ((((0 : α) * t114) + ((0 : α) * t115)) + ((-(1 : α)) * t116))
  let t122 := (t68 / t121)
  let t127 := ((0 : α) + (t115 * t122))
  let t128 := ((0 : α) + (t114 * t122))
  let t133 := (((t83 * t114) + (t83 * t115)) + (t84 * t116))
  let t134 := (t99 / t133)
  let t139 := ((0 : α) + (t115 * t134))
  let t140 := ((0 : α) + (t114 * t134))
  let t141 := (t47 / t48)
  let t142 := (t46 / t48)
  let t143 := (t45 / t48)
  let t148 := ((((0 : α) * t141) + ((0 : α) * t142)) + ((-(1 : α)) * t143))
  let t149 := (t68 / t148)
  let t154 := ((0 : α) + (t142 * t149))
  let t155 := ((0 : α) + (t141 * t149))
  let t160 := (((t83 * t141) + (t83 * t142)) + (t84 * t143))
  let t161 := (t99 / t160)
  let t166 := ((0 : α) + (t142 * t161))
  let t167 := ((0 : α) + (t141 * t161))
  if t48 = (0 : α) then
    if t51 = (0 : α) then
      if t53 = (0 : α) then
        if t58 = (0 : α) then
          if t62 = (0 : α) then
            (n2, f2, (0 : α), (0 : α), (0 : α), (0 : α), false)
          else
            (n2, f2, (0 : α), t75, t74, (0 : α), false)
        else
          if t62 = (0 : α) then
            (n2, f2, t82, (0 : α), (0 : α), t81, false)
          else
            (n2, f2, t82, t75, t74, t81, false)
      else
        if t89 = (0 : α) then
          if t93 = (0 : α) then
            (n2, f2, (0 : α), (0 : α), (0 : α), (0 : α), false)
          else
            (n2, f2, (0 : α), t106, t105, (0 : α), false)
        else
          if t93 = (0 : α) then
            (n2, f2, t113, (0 : α), (0 : α), t112, false)
          else
            (n2, f2, t113, t106, t105, t112, false)
    else
      if t53 = (0 : α) then
        if t58 = (0 : α) then
          if t121 = (0 : α) then
            (n2, f2, (0 : α), (0 : α), (0 : α), (0 : α), false)
          else
            (n2, f2, (0 : α), t128, t127, (0 : α), false)
        else
          if t121 = (0 : α) then
            (n2, f2, t82, (0 : α), (0 : α), t81, false)
          else
            (n2, f2, t82, t128, t127, t81, false)
      else
        if t89 = (0 : α) then
          if t133 = (0 : α) then
            (n2, f2, (0 : α), (0 : α), (0 : α), (0 : α), false)
          else
            (n2, f2, (0 : α), t140, t139, (0 : α), false)
        else
          if t133 = (0 : α) then
            (n2, f2, t113, (0 : α), (0 : α), t112, false)
          else
            (n2, f2, t113, t140, t139, t112, false)
  else
    if t51 = (0 : α) then
      if t53 = (0 : α) then
        if t148 = (0 : α) then
          if t62 = (0 : α) then
            (n2, f2, (0 : α), (0 : α), (0 : α), (0 : α), false)
          else
            (n2, f2, (0 : α), t75, t74, (0 : α), false)
        else
          if t62 = (0 : α) then
            (n2, f2, t155, (0 : α), (0 : α), t154, false)
          else
            (n2, f2, t155, t75, t74, t154, false)
      else
        if t160 = (0 : α) then
          if t93 = (0 : α) then
            (n2, f2, (0 : α), (0 : α), (0 : α), (0 : α), false)
          else
            (n2, f2, (0 : α), t106, t105, (0 : α), false)
        else
          if t93 = (0 : α) then
            (n2, f2, t167, (0 : α), (0 : α), t166, false)
          else
            (n2, f2, t167, t106, t105, t166, false)
    else
      if t53 = (0 : α) then
        if t148 = (0 : α) then
          if t121 = (0 : α) then
            (n2, f2, (0 : α), (0 : α), (0 : α), (0 : α), false)
          else
            (n2, f2, (0 : α), t128, t127, (0 : α), false)
        else
          if t121 = (0 : α) then
            (n2, f2, t155, (0 : α), (0 : α), t154, false)
          else
            (n2, f2, t155, t128, t127, t154, false)
      else
        if t160 = (0 : α) then
          if t133 = (0 : α) then
            (n2, f2, (0 : α), (0 : α), (0 : α), (0 : α), false)
          else
            (n2, f2, (0 : α), t140, t139, (0 : α), false)
        else
          if t133 = (0 : α) then
            (n2, f2, t167, (0 : α), (0 : α), t166, false)
          else
            (n2, f2, t167, t140, t139, t166, false)

/-- extracted from the C++ template at T = Sym; 1 path(s) -/
def Frustum.modifyNearAndFar_ortho {α : Type} (n : α) (f : α) (l : α) (r : α) (t : α) (b : α) (n2 : α) (f2 : α) : (α × α × α × α × α × α × Bool) :=
  (n2, f2, l, r, t, b, true)

/-- extracted from the C++ template at T = Sym; 1 path(s) -/
def Frustum.setOrthographic_persp {α : Type} (n : α) (f : α) (l : α) (r : α) (t : α) (b : α) : (α × α × α × α × α × α × Bool) :=
  (n, f, l, r, t, b, false)

/-- extracted from the C++ template at T = Sym; 1 path(s) -/
def Frustum.setOrthographic_ortho {α : Type} (n : α) (f : α) (l : α) (r : α) (t : α) (b : α) : (α × α × α × α × α × α × Bool) :=
  (n, f, l, r, t, b, true)

/-- extracted from the C++ template at T = Sym; 1 path(s) -/
def Frustum.window_persp {α : Type} [Add α] [Sub α] [Mul α] [Div α] [OfNat α 1] [OfNat α 2] (n : α) (f : α) (l : α) (r : α) (t : α) (b : α) (wl : α) (wr : α) (wt : α) (wb : α) : (α × α × α × α × α × α × Bool) :=
  let t41 := (r - l)
  let t42 := (t - b)
  (n, f, (l + ((t41 * ((1 : α) + wl)) / (2 : α))), (l + ((t41 * ((1 : α) + wr)) / (2 : α))), (b + ((t42 * ((1 : α) + wt)) / (2 : α))), (b + ((t42 * ((1 : α) + wb)) / (2 : α))), false)

/-- extracted from the C++ template at T = Sym; 1 path(s) -/
def Frustum.window_ortho {α : Type} [Add α] [Sub α] [Mul α] [Div α] [OfNat α 1] [OfNat α 2] (n : α) (f : α) (l : α) (r : α) (t : α) (b : α) (wl : α) (wr : α) (wt : α) (wb : α) : (α × α × α × α × α × α × Bool) :=
  let t41 := (r - l)
  let t42 := (t - b)
  (n, f, (l + ((t41 * ((1 : α) + wl)) / (2 : α))), (l + ((t41 * ((1 : α) + wr)) / (2 : α))), (b + ((t42 * ((1 : α) + wt)) / (2 : α))), (b + ((t42 * ((1 : α) + wb)) / (2 : α))), true)

/-- extracted from the C++ template at T = Sym; 1 path(s) -/
def Frustum.assign_persp {α : Type} (n : α) (f : α) (l : α) (r : α) (t : α) (b : α) : (α × α × α × α × α × α × Bool) :=
  (n, f, l, r, b, b, false)

/-- extracted from the C++ template at T = Sym; 1 path(s) -/
def Frustum.copyCtor_persp {α : Type} (n : α) (f : α) (l : α) (r : α) (t : α) (b : α) : (α × α × α × α × α × α × Bool) :=
  (n, f, l, r, b, b, false)

/-- extracted from the C++ template at T = Sym; 1 path(s) -/
def Frustum.hitherYon_persp {α : Type} (n : α) (f : α) (l : α) (r : α) (t : α) (b : α) : (α × α) :=
  (f, f)

/-- extracted from the C++ template at T = Sym; 1 path(s) -/
def Frustum.assign_ortho {α : Type} (n : α) (f : α) (l : α) (r : α) (t : α) (b : α) : (α × α × α × α × α × α × Bool) :=
  (n, f, l, r, b, b, true)

/-- extracted from the C++ template at T = Sym; 1 path(s) -/
def Frustum.copyCtor_ortho {α : Type} (n : α) (f : α) (l : α) (r : α) (t : α) (b : α) : (α × α × α × α × α × α × Bool) :=
  (n, f, l, r, b, b, true)

/-- extracted from the C++ template at T = Sym; 1 path(s) -/
def Frustum.hitherYon_ortho {α : Type} (n : α) (f : α) (l : α) (r : α) (t : α) (b : α) : (α × α) :=
  (f, f)

/-- extracted from the C++ template at T = Sym; 1 path(s) -/
def Frustum.defaultCtor {α : Type} [Div α] [Neg α] [OfNat α 1] [OfNat α 1000] [OfNat α 3602879701896397] [OfNat α 18014398509481984] : (α × α × α × α × α × α × Bool) :=
  (((3602879701896397 : α) / (18014398509481984 : α)), (1000 : α), (-(1 : α)), (1 : α), (1 : α), (-(1 : α)), false)

/-- extracted from the C++ template at T = Sym; 6 path(s) -/
def Frustum.eq_persp_persp {α : Type} [DecidableEq α] (n : α) (f : α) (l : α) (r : α) (t : α) (b : α) (n2 : α) (f2 : α) (l2 : α) (r2 : α) (t2 : α) (b2 : α) : (Bool × Bool) :=
  if n = n2 then
    if f = f2 then
      if r = r2 then
        if t = t2 then
          if b = b2 then
            (true, false)
          else
            (false, true)
        else
          (false, true)
      else
        (false, true)
    else
      (false, true)
  else
    (false, true)

/-- extracted from the C++ template at T = Sym; 6 path(s) -/
def Frustum.eq_ortho_ortho {α : Type} [DecidableEq α] (n : α) (f : α) (l : α) (r : α) (t : α) (b : α) (n2 : α) (f2 : α) (l2 : α) (r2 : α) (t2 : α) (b2 : α) : (Bool × Bool) :=
  if n = n2 then
    if f = f2 then
      if r = r2 then
        if t = t2 then
          if b = b2 then
            (true, false)
          else
            (false, true)
        else
          (false, true)
      else
        (false, true)
    else
      (false, true)
  else
    (false, true)

/-- extracted from the C++ template at T = Sym; 6 path(s) -/
def Frustum.eq_persp_ortho {α : Type} [DecidableEq α] (n : α) (f : α) (l : α) (r : α) (t : α) (b : α) (n2 : α) (f2 : α) (l2 : α) (r2 : α) (t2 : α) (b2 : α) : (Bool × Bool) :=
  if n = n2 then
    if f = f2 then
      if r = r2 then
        if t = t2 then
          if b = b2 then
            (false, true)
          else
            (false, true)
        else
          (false, true)
      else
        (false, true)
    else
      (false, true)
  else
    (false, true)

/-- extracted from the C++ template at T = Sym; 6 path(s) -/
def Frustum.eq_ortho_persp {α : Type} [DecidableEq α] (n : α) (f : α) (l : α) (r : α) (t : α) (b : α) (n2 : α) (f2 : α) (l2 : α) (r2 : α) (t2 : α) (b2 : α) : (Bool × Bool) :=
  if n = n2 then
    if f = f2 then
      if r = r2 then
        if t = t2 then
          if b = b2 then
            (false, true)
          else
            (false, true)
        else
          (false, true)
      else
        (false, true)
    else
      (false, true)
  else
    (false, true)

/-- extracted from the C++ template at T = Sym; 1 path(s) -/
def Frustum.ZToDepth_persp_5_0_10 {α : Type} [Sub α] [Mul α] [Div α] [OfNat α 0] [OfNat α 1] [OfNat α 2] [OfNat α 5] [OfNat α 10] (n : α) (f : α) (l : α) (r : α) (t : α) (b : α) : α :=
  ((((2 : α) * f) * n) / ((((((((5 : α) - (0 : α)) / (10 : α)) * (2 : α)) - (1 : α)) * (f - n)) - f) - n))

/-- extracted from the C++ template at T = Sym; 1 path(s) -/
def Frustum.ZToDepth_persp_11_0_10 {α : Type} [Sub α] [Mul α] [Div α] [OfNat α 0] [OfNat α 1] [OfNat α 2] [OfNat α 10] [OfNat α 11] (n : α) (f : α) (l : α) (r : α) (t : α) (b : α) : α :=
  ((((2 : α) * f) * n) / ((((((((11 : α) - (0 : α)) / (10 : α)) * (2 : α)) - (1 : α)) * (f - n)) - f) - n))

/-- extracted from the C++ template at T = Sym; 1 path(s) -/
def Frustum.ZToDepth_persp_12_0_10 {α : Type} [Sub α] [Mul α] [Div α] [OfNat α 0] [OfNat α 1] [OfNat α 2] [OfNat α 10] [OfNat α 12] (n : α) (f : α) (l : α) (r : α) (t : α) (b : α) : α :=
  ((((2 : α) * f) * n) / ((((((((12 : α) - (0 : α)) / (10 : α)) * (2 : α)) - (1 : α)) * (f - n)) - f) - n))

/-- extracted from the C++ template at T = Sym; 1 path(s) -/
def Frustum.ZToDepth_persp_m3_m10_10 {α : Type} [Sub α] [Mul α] [Div α] [Neg α] [OfNat α 1] [OfNat α 2] [OfNat α 3] [OfNat α 10] [OfNat α 20] (n : α) (f : α) (l : α) (r : α) (t : α) (b : α) : α :=
  ((((2 : α) * f) * n) / ((((((((-(3 : α)) - (-(10 : α))) / (20 : α)) * (2 : α)) - (1 : α)) * (f - n)) - f) - n))

/-- extracted from the C++ template at T = Sym; 1 path(s) -/
def Frustum.ZToDepth_persp_w32 {α : Type} [Sub α] [Mul α] [Div α] [OfNat α 0] [OfNat α 1] [OfNat α 2] [OfNat α 4294967295] (n : α) (f : α) (l : α) (r : α) (t : α) (b : α) : α :=
  ((((2 : α) * f) * n) / ((((((((4294967295 : α) - (0 : α)) / (4294967295 : α)) * (2 : α)) - (1 : α)) * (f - n)) - f) - n))

/-- extracted from the C++ template at T = Sym; 1 path(s) -/
def Frustum.ZToDepth_ortho_5_0_10 {α : Type} [Add α] [Sub α] [Mul α] [Div α] [Neg α] [OfNat α 0] [OfNat α 1] [OfNat α 2] [OfNat α 5] [OfNat α 10] (n : α) (f : α) (l : α) (r : α) (t : α) (b : α) : α :=
  ((-(((((((5 : α) - (0 : α)) / (10 : α)) * (2 : α)) - (1 : α)) * (f - n)) + (f + n))) / (2 : α))

/-- extracted from the C++ template at T = Sym; 1 path(s) -/
def Frustum.ZToDepth_ortho_11_0_10 {α : Type} [Add α] [Sub α] [Mul α] [Div α] [Neg α] [OfNat α 0] [OfNat α 1] [OfNat α 2] [OfNat α 10] [OfNat α 11] (n : α) (f : α) (l : α) (r : α) (t : α) (b : α) : α :=
  ((-(((((((11 : α) - (0 : α)) / (10 : α)) * (2 : α)) - (1 : α)) * (f - n)) + (f + n))) / (2 : α))

/-- extracted from the C++ template at T = Sym; 1 path(s) -/
def Frustum.ZToDepth_ortho_12_0_10 {α : Type} [Add α] [Sub α] [Mul α] [Div α] [Neg α] [OfNat α 0] [OfNat α 1] [OfNat α 2] [OfNat α 10] [OfNat α 12] (n : α) (f : α) (l : α) (r : α) (t : α) (b : α) : α :=
  ((-(((((((12 : α) - (0 : α)) / (10 : α)) * (2 : α)) - (1 : α)) * (f - n)) + (f + n))) / (2 : α))

/-- extracted from the C++ template at T = Sym; 1 path(s) -/
def Frustum.ZToDepth_ortho_m3_m10_10 {α : Type} [Add α] [Sub α] [Mul α] [Div α] [Neg α] [OfNat α 1] [OfNat α 2] [OfNat α 3] [OfNat α 10] [OfNat α 20] (n : α) (f : α) (l : α) (r : α) (t : α) (b : α) : α :=
  ((-(((((((-(3 : α)) - (-(10 : α))) / (20 : α)) * (2 : α)) - (1 : α)) * (f - n)) + (f + n))) / (2 : α))

/-- extracted from the C++ template at T = Sym; 1 path(s) -/
def Frustum.ZToDepth_ortho_w32 {α : Type} [Add α] [Sub α] [Mul α] [Div α] [Neg α] [OfNat α 0] [OfNat α 1] [OfNat α 2] [OfNat α 4294967295] (n : α) (f : α) (l : α) (r : α) (t : α) (b : α) : α :=
  ((-(((((((4294967295 : α) - (0 : α)) / (4294967295 : α)) * (2 : α)) - (1 : α)) * (f - n)) + (f + n))) / (2 : α))

/-- extracted from the C++ template at T = Sym; 1 path(s) -/
def Frustum.DepthToZ_persp_3_10 {α : Type} [Add α] [Sub α] [Mul α] [Div α] [OfNat α 1] [OfNat α 2] [OfNat α 7] (n : α) (f : α) (l : α) (r : α) (t : α) (b : α) (depth : α) : (α × Int × Int × Int) :=
  (((((1 : α) / (2 : α)) * ((((((((2 : α) * f) * n) / depth) + f) + n) / (f - n)) + (1 : α))) * (7 : α)), (3 : Int), (1 : Int), (0 : Int))

/-- extracted from the C++ template at T = Sym; 1 path(s) -/
def Frustum.DepthToZ_ortho_3_10 {α : Type} [Add α] [Sub α] [Mul α] [Div α] [Neg α] [OfNat α 1] [OfNat α 2] [OfNat α 7] (n : α) (f : α) (l : α) (r : α) (t : α) (b : α) (depth : α) : (α × Int × Int × Int) :=
  (((((1 : α) / (2 : α)) * (((-((((2 : α) * depth) + f) + n)) / (f - n)) + (1 : α))) * (7 : α)), (3 : Int), (1 : Int), (0 : Int))

/-- extracted from the C++ template at T = Sym; 1 path(s) -/
def Frustum.projectionMatrix_persp {α : Type} [Add α] [Sub α] [Mul α] [Div α] [Neg α] [OfNat α 0] [OfNat α 1] [OfNat α 2] (n : α) (f : α) (l : α) (r : α) (t : α) (b : α) : (M44 α) :=
  let t41 := (r - l)
  let t42 := (t - b)
  let t204 := (f - n)
  let t290 := ((2 : α) * n)
  ⟨(t290 / t41), (0 : α), (0 : α), (0 : α), (0 : α), (t290 / t42), (0 : α), (0 : α), ((r + l) / t41), ((t + b) / t42), ((-(f + n)) / t204), (-(1 : α)), (0 : α), (0 : α), ((((-(2 : α)) * f) * n) / t204), (0 : α)⟩

/-- extracted from the C++ template at T = Sym; 1 path(s) -/
def Frustum.screenToLocal_persp {α : Type} [Add α] [Sub α] [Mul α] [Div α] [OfNat α 1] [OfNat α 2] (n : α) (f : α) (l : α) (r : α) (t : α) (b : α) (s : V2 α) : (V2 α) :=
  ⟨(l + (((r - l) * ((1 : α) + s.x)) / (2 : α))), (b + (((t - b) * ((1 : α) + s.y)) / (2 : α)))⟩

/-- extracted from the C++ template at T = Sym; 1 path(s) -/
def Frustum.localToScreen_persp {α : Type} [Add α] [Sub α] [Mul α] [Div α] [OfNat α 2] (n : α) (f : α) (l : α) (r : α) (t : α) (b : α) (p : V2 α) : (V2 α) :=
  ⟨(((l - ((2 : α) * p.x)) + r) / (l - r)), (((b - ((2 : α) * p.y)) + t) / (b - t))⟩

/-- extracted from the C++ template at T = Sym; 2 path(s) -/
def Frustum.projectScreenToRay_persp {α : Type} [Add α] [Sub α] [Mul α] [Div α] [Neg α] [LT α] [LE α] [DecidableLT α] [DecidableLE α] [DecidableEq α] [OfNat α 0] [OfNat α 1] [OfNat α 2] (tmin : α) (tmax : α) (sqrt : α → α) (n : α) (f : α) (l : α) (r : α) (t : α) (b : α) (s : V2 α) : (Line3 α) :=
  let t45 := ((-n) - (0 : α))
  let t315 := ((b + (((t - b) * ((1 : α) + s.y)) / (2 : α))) - (0 : α))
  let t316 := ((l + (((r - l) * ((1 : α) + s.x)) / (2 : α))) - (0 : α))
  let t317 := (V3.length tmin tmax sqrt ⟨t316, t315, t45⟩)
  if t317 = (0 : α) then
    ⟨⟨(0 : α), (0 : α), (0 : α)⟩, ⟨t316, t315, t45⟩⟩
  else
    ⟨⟨(0 : α), (0 : α), (0 : α)⟩, ⟨(t316 / t317), (t315 / t317), (t45 / t317)⟩⟩

/-- extracted from the C++ template at T = Sym; 2 path(s) -/
def Frustum.projectPointToScreen_persp {α : Type} [Add α] [Sub α] [Mul α] [Div α] [Neg α] [DecidableEq α] [OfNat α 1] [OfNat α 2] (n : α) (f : α) (l : α) (r : α) (t : α) (b : α) (p : V3 α) : (V2 α) :=
  let t308 := (l - r)
  let t312 := (b - t)
  let t322 := (-p.z)
  if p.z = (1 : α) then
    ⟨(((l - ((2 : α) * p.x)) + r) / t308), (((b - ((2 : α) * p.y)) + t) / t312)⟩
  else
    ⟨(((l - ((2 : α) * ((p.x * n) / t322))) + r) / t308), (((b - ((2 : α) * ((p.y * n) / t322))) + t) / t312)⟩

/-- extracted from the C++ template at T = Sym; 1 path(s) -/
def Frustum.normalizedZToDepth_persp {α : Type} [Sub α] [Mul α] [Div α] [OfNat α 1] [OfNat α 2] (n : α) (f : α) (l : α) (r : α) (t : α) (b : α) (zval : α) : α :=
  ((((2 : α) * f) * n) / (((((zval * (2 : α)) - (1 : α)) * (f - n)) - f) - n))

/-- extracted from the C++ template at T = Sym; 1 path(s) -/
def Frustum.screenRadius_persp {α : Type} [Mul α] [Div α] [Neg α] (n : α) (f : α) (l : α) (r : α) (t : α) (b : α) (p : V3 α) (radius : α) : α :=
  (radius * ((-n) / p.z))

/-- extracted from the C++ template at T = Sym; 1 path(s) -/
def Frustum.worldRadius_persp {α : Type} [Mul α] [Div α] [Neg α] (n : α) (f : α) (l : α) (r : α) (t : α) (b : α) (p : V3 α) (radius : α) : α :=
  (radius * (p.z / (-n)))

/-- extracted from the C++ template at T = Sym; 1 path(s) -/
def Frustum.projectionMatrix_ortho {α : Type} [Add α] [Sub α] [Div α] [Neg α] [OfNat α 0] [OfNat α 1] [OfNat α 2] (n : α) (f : α) (l : α) (r : α) (t : α) (b : α) : (M44 α) :=
  let t41 := (r - l)
  let t42 := (t - b)
  let t204 := (f - n)
  ⟨((2 : α) / t41), (0 : α), (0 : α), (0 : α), (0 : α), ((2 : α) / t42), (0 : α), (0 : α), (0 : α), (0 : α), ((-(2 : α)) / t204), (0 : α), ((-(r + l)) / t41), ((-(t + b)) / t42), ((-(f + n)) / t204), (1 : α)⟩

/-- extracted from the C++ template at T = Sym; 1 path(s) -/
def Frustum.screenToLocal_ortho {α : Type} [Add α] [Sub α] [Mul α] [Div α] [OfNat α 1] [OfNat α 2] (n : α) (f : α) (l : α) (r : α) (t : α) (b : α) (s : V2 α) : (V2 α) :=
  ⟨(l + (((r - l) * ((1 : α) + s.x)) / (2 : α))), (b + (((t - b) * ((1 : α) + s.y)) / (2 : α)))⟩

/-- extracted from the C++ template at T = Sym; 1 path(s) -/
def Frustum.localToScreen_ortho {α : Type} [Add α] [Sub α] [Mul α] [Div α] [OfNat α 2] (n : α) (f : α) (l : α) (r : α) (t : α) (b : α) (p : V2 α) : (V2 α) :=
  ⟨(((l - ((2 : α) * p.x)) + r) / (l - r)), (((b - ((2 : α) * p.y)) + t) / (b - t))⟩

/-- extracted from the C++ template at T = Sym; 2 path(s) -/
def Frustum.projectScreenToRay_ortho {α : Type} [Add α] [Sub α] [Mul α] [Div α] [Neg α] [LT α] [LE α] [DecidableLT α] [DecidableLE α] [DecidableEq α] [OfNat α 0] [OfNat α 1] [OfNat α 2] (tmin : α) (tmax : α) (sqrt : α → α) (n : α) (f : α) (l : α) (r : α) (t : α) (b : α) (s : V2 α) : (Line3 α) :=
  let t298 := (b + (((t - b) * ((1 : α) + s.y)) / (2 : α)))
  let t302 := (l + (((r - l) * ((1 : α) + s.x)) / (2 : α)))
  let t354 := ((-(1 : α)) - (0 : α))
  let t355 := (t298 - t298)
  let t356 := (t302 - t302)
  let t357 := (V3.length tmin tmax sqrt ⟨t356, t355, t354⟩)
  if t357 = (0 : α) then
    ⟨⟨t302, t298, (0 : α)⟩, ⟨t356, t355, t354⟩⟩
  else
    ⟨⟨t302, t298, (0 : α)⟩, ⟨(t356 / t357), (t355 / t357), (t354 / t357)⟩⟩

/-- extracted from the C++ template at T = Sym; 1 path(s) -/
def Frustum.projectPointToScreen_ortho {α : Type} [Add α] [Sub α] [Mul α] [Div α] [OfNat α 2] (n : α) (f : α) (l : α) (r : α) (t : α) (b : α) (p : V3 α) : (V2 α) :=
  ⟨(((l - ((2 : α) * p.x)) + r) / (l - r)), (((b - ((2 : α) * p.y)) + t) / (b - t))⟩

/-- extracted from the C++ template at T = Sym; 1 path(s) -/
def Frustum.normalizedZToDepth_ortho {α : Type} [Add α] [Sub α] [Mul α] [Div α] [Neg α] [OfNat α 1] [OfNat α 2] (n : α) (f : α) (l : α) (r : α) (t : α) (b : α) (zval : α) : α :=
  ((-((((zval * (2 : α)) - (1 : α)) * (f - n)) + (f + n))) / (2 : α))

/-- extracted from the C++ template at T = Sym; 1 path(s) -/
def Frustum.screenRadius_ortho {α : Type} [Mul α] [Div α] [Neg α] (n : α) (f : α) (l : α) (r : α) (t : α) (b : α) (p : V3 α) (radius : α) : α :=
  (radius * ((-n) / p.z))

/-- extracted from the C++ template at T = Sym; 1 path(s) -/
def Frustum.worldRadius_ortho {α : Type} [Mul α] [Div α] [Neg α] (n : α) (f : α) (l : α) (r : α) (t : α) (b : α) (p : V3 α) (radius : α) : α :=
  (radius * (p.z / (-n)))

/-- extracted from the C++ template at T = Sym; 1 path(s) -/
def Frustum.V3mulM44 {α : Type} [Add α] [Mul α] [Div α] (v : V3 α) (m : M44 α) : (V3 α) :=
  let t406 := ((((v.x * m.x03) + (v.y * m.x13)) + (v.z * m.x23)) + m.x33)
  ⟨(((((v.x * m.x00) + (v.y * m.x10)) + (v.z * m.x20)) + m.x30) / t406), (((((v.x * m.x01) + (v.y * m.x11)) + (v.z * m.x21)) + m.x31) / t406), (((((v.x * m.x02) + (v.y * m.x12)) + (v.z * m.x22)) + m.x32) / t406)⟩

/-- extracted from the C++ template at T = Sym; 64 path(s) -/
def Frustum.planes_persp {α : Type} [Add α] [Sub α] [Mul α] [Div α] [Neg α] [LT α] [LE α] [DecidableLT α] [DecidableLE α] [DecidableEq α] [OfNat α 0] [OfNat α 1] [OfNat α 2] (tmin : α) (tmax : α) (sqrt : α → α) (n : α) (f : α) (l : α) (r : α) (t : α) (b : α) : ((Plane3 α) × (Plane3 α) × (Plane3 α) × (Plane3 α) × (Plane3 α) × (Plane3 α)) :=
  let t44 := (-n)
  let t45 := (t44 - (0 : α))
  let t46 := (b - (0 : α))
  let t47 := (l - (0 : α))
  let t49 := (t - (0 : α))
  let t50 := (r - (0 : α))
  let t53 := (V3.length tmin tmax sqrt ⟨(0 : α), (0 : α), (-(1 : α))⟩)
  let t83 := ((0 : α) / t53)
  let t84 := ((-(1 : α)) / t53)
  let t410 := (t49 * t47)
  let t411 := (t50 * t49)
  let t412 := (t411 - t410)
  let t413 := (t50 * t45)
  let t414 := (t45 * t47)
  let t415 := (t414 - t413)
  let t416 := (t45 * t49)
  let t417 := (t49 * t45)
  let t418 := (t417 - t416)
  let t419 := (V3.length tmin tmax sqrt ⟨t418, t415, t412⟩)
  let t424 := (((t418 * (0 : α)) + (t415 * (0 : α))) + (t412 * (0 : α)))
  let t425 := (t46 * t50)
  let t426 := (t411 - t425)
  let t427 := (t45 * t50)
  let t428 := (t427 - t413)
  let t429 := (t46 * t45)
  let t430 := (t429 - t416)
  let t431 := (V3.length tmin tmax sqrt ⟨t430, t428, t426⟩)
  let t436 := (((t430 * (0 : α)) + (t428 * (0 : α))) + (t426 * (0 : α)))
  let t437 := (t47 * t46)
  let t438 := (t437 - t425)
  let t439 := (t47 * t45)
  let t440 := (t427 - t439)
  let t441 := (t45 * t46)
  let t442 := (t429 - t441)
  let t443 := (V3.length tmin tmax sqrt ⟨t442, t440, t438⟩)
  let t448 := (((t442 * (0 : α)) + (t440 * (0 : α))) + (t438 * (0 : α)))
  let t449 := (t437 - t410)
  let t450 := (t414 - t439)
  let t451 := (t417 - t441)
  let t452 := (V3.length tmin tmax sqrt ⟨t451, t450, t449⟩)
  let t457 := (((t451 * (0 : α)) + (t450 * (0 : α))) + (t449 * (0 : α)))
  let t458 := (V3.length tmin tmax sqrt ⟨(0 : α), (0 : α), (1 : α)⟩)
  let t459 := ((0 : α) / t458)
  let t460 := ((1 : α) / t458)
  let t461 := (t451 / t452)
  let t462 := (t450 / t452)
  let t463 := (t449 / t452)
  let t468 := (((t461 * (0 : α)) + (t462 * (0 : α))) + (t463 * (0 : α)))
  let t469 := (t442 / t443)
  let t470 := (t440 / t443)
  let t471 := (t438 / t443)
  let t476 := (((t469 * (0 : α)) + (t470 * (0 : α))) + (t471 * (0 : α)))
  let t477 := (t430 / t431)
  let t478 := (t428 / t431)
  let t479 := (t426 / t431)
  let t484 := (((t477 * (0 : α)) + (t478 * (0 : α))) + (t479 * (0 : α)))
  let t485 := (t418 / t419)
  let t486 := (t415 / t419)
  let t487 := (t412 / t419)
  let t492 := (((t485 * (0 : α)) + (t486 * (0 : α))) + (t487 * (0 : α)))
  if t419 = (0 : α) then
    if t431 = (0 : α) then
      if t443 = (0 : α) then
        if t452 = (0 : α) then
          if t458 = (0 : α) then
            if t53 = (0 : α) then
              (⟨⟨t418, t415, t412⟩, t424⟩, ⟨⟨t430, t428, t426⟩, t436⟩, ⟨⟨t442, t440, t438⟩, t448⟩, ⟨⟨t451, t450, t449⟩, t457⟩, ⟨⟨(0 : α), (0 : α), (1 : α)⟩, t44⟩, ⟨⟨(0 : α), (0 : α), (-(1 : α))⟩, f⟩)
            else
              (⟨⟨t418, t415, t412⟩, t424⟩, ⟨⟨t430, t428, t426⟩, t436⟩, ⟨⟨t442, t440, t438⟩, t448⟩, ⟨⟨t451, t450, t449⟩, t457⟩, ⟨⟨(0 : α), (0 : α), (1 : α)⟩, t44⟩, ⟨⟨t83, t83, t84⟩, f⟩)
          else
            if t53 = (0 : α) then
              (⟨⟨t418, t415, t412⟩, t424⟩, ⟨⟨t430, t428, t426⟩, t436⟩, ⟨⟨t442, t440, t438⟩, t448⟩, ⟨⟨t451, t450, t449⟩, t457⟩, ⟨⟨t459, t459, t460⟩, t44⟩, ⟨⟨(0 : α), (0 : α), (-(1 : α))⟩, f⟩)
            else
              (⟨⟨t418, t415, t412⟩, t424⟩, ⟨⟨t430, t428, t426⟩, t436⟩, ⟨⟨t442, t440, t438⟩, t448⟩, ⟨⟨t451, t450, t449⟩, t457⟩, ⟨⟨t459, t459, t460⟩, t44⟩, ⟨⟨t83, t83, t84⟩, f⟩)
        else
          if t458 = (0 : α) then
            if t53 = (0 : α) then
              (⟨⟨t418, t415, t412⟩, t424⟩, ⟨⟨t430, t428, t426⟩, t436⟩, ⟨⟨t442, t440, t438⟩, t448⟩, ⟨⟨t461, t462, t463⟩, t468⟩, ⟨⟨(0 : α), (0 : α), (1 : α)⟩, t44⟩, ⟨⟨(0 : α), (0 : α), (-(1 : α))⟩, f⟩)
            else
              (⟨⟨t418, t415, t412⟩, t424⟩, ⟨⟨t430, t428, t426⟩, t436⟩, ⟨⟨t442, t440, t438⟩, t448⟩, ⟨⟨t461, t462, t463⟩, t468⟩, ⟨⟨(0 : α), (0 : α), (1 : α)⟩, t44⟩, ⟨⟨t83, t83, t84⟩, f⟩)
          else
            if t53 = (0 : α) then
              (⟨⟨t418, t415, t412⟩, t424⟩, ⟨⟨t430, t428, t426⟩, t436⟩, ⟨⟨t442, t440, t438⟩, t448⟩, ⟨⟨t461, t462, t463⟩, t468⟩, ⟨⟨t459, t459, t460⟩, t44⟩, ⟨⟨(0 : α), (0 : α), (-(1 : α))⟩, f⟩)
            else
              (⟨⟨t418, t415, t412⟩, t424⟩, ⟨⟨t430, t428, t426⟩, t436⟩, ⟨⟨t442, t440, t438⟩, t448⟩, ⟨⟨t461, t462, t463⟩, t468⟩, ⟨⟨t459, t459, t460⟩, t44⟩, ⟨⟨t83, t83, t84⟩, f⟩)
      else
        if t452 = (0 : α) then
          if t458 = (0 : α) then
            if t53 = (0 : α) then
              (⟨⟨t418, t415, t412⟩, t424⟩, ⟨⟨t430, t428, t426⟩, t436⟩, ⟨⟨t469, t470, t471⟩, t476⟩, ⟨⟨t451, t450, t449⟩, t457⟩, ⟨⟨(0 : α), (0 : α), (1 : α)⟩, t44⟩, ⟨⟨(0 : α), (0 : α), (-(1 : α))⟩, f⟩)
            else
              (⟨⟨t418, t415, t412⟩, t424⟩, ⟨⟨t430, t428, t426⟩, t436⟩, ⟨⟨t469, t470, t471⟩, t476⟩, ⟨⟨t451, t450, t449⟩, t457⟩, ⟨⟨(0 : α), (0 : α), (1 : α)⟩, t44⟩, ⟨⟨t83, t83, t84⟩, f⟩)
          else
            if t53 = (0 : α) then
              (⟨⟨t418, t415, t412⟩, t424⟩, ⟨⟨t430, t428, t426⟩, t436⟩, ⟨⟨t469, t470, t471⟩, t476⟩, ⟨⟨t451, t450, t449⟩, t457⟩, ⟨⟨t459, t459, t460⟩, t44⟩, ⟨⟨(0 : α), (0 : α), (-(1 : α))⟩, f⟩)
            else
              (⟨⟨t418, t415, t412⟩, t424⟩, ⟨⟨t430, t428, t426⟩, t436⟩, ⟨⟨t469, t470, t471⟩, t476⟩, ⟨⟨t451, t450, t449⟩, t457⟩, ⟨⟨t459, t459, t460⟩, t44⟩, ⟨⟨t83, t83, t84⟩, f⟩)
        else
          if t458 = (0 : α) then
            if t53 = (0 : α) then
              (⟨⟨t418, t415, t412⟩, t424⟩, ⟨⟨t430, t428, t426⟩, t436⟩, ⟨⟨t469, t470, t471⟩, t476⟩, ⟨⟨t461, t462, t463⟩, t468⟩, ⟨⟨(0 : α), (0 : α), (1 : α)⟩, t44⟩, ⟨⟨(0 : α), (0 : α), (-(1 : α))⟩, f⟩)
            else
              (⟨⟨t418, t415, t412⟩, t424⟩, ⟨⟨t430, t428, t426⟩, t436⟩, ⟨⟨t469, t470, t471⟩, t476⟩, ⟨⟨t461, t462, t463⟩, t468⟩, ⟨⟨(0 : α), (0 : α), (1 : α)⟩, t44⟩, ⟨⟨t83, t83, t84⟩, f⟩)
          else
            if t53 = (0 : α) then
              (⟨⟨t418, t415, t412⟩, t424⟩, ⟨⟨t430, t428, t426⟩, t436⟩, ⟨⟨t469, t470, t471⟩, t476⟩, ⟨⟨t461, t462, t463⟩, t468⟩, ⟨⟨t459, t459, t460⟩, t44⟩, ⟨⟨(0 : α), (0 : α), (-(1 : α))⟩, f⟩)
            else
              (⟨⟨t418, t415, t412⟩, t424⟩, ⟨⟨t430, t428, t426⟩, t436⟩, ⟨⟨t469, t470, t471⟩, t476⟩, ⟨⟨t461, t462, t463⟩, t468⟩, ⟨⟨t459, t459, t460⟩, t44⟩, ⟨⟨t83, t83, t84⟩, f⟩)
    else
      if t443 = (0 : α) then
        if t452 = (0 : α) then
          if t458 = (0 : α) then
            if t53 = (0 : α) then
              (⟨⟨t418, t415, t412⟩, t424⟩, ⟨⟨t477, t478, t479⟩, t484⟩, ⟨⟨t442, t440, t438⟩, t448⟩, ⟨⟨t451, t450, t449⟩, t457⟩, ⟨⟨(0 : α), (0 : α), (1 : α)⟩, t44⟩, ⟨⟨(0 : α), (0 : α), (-(1 : α))⟩, f⟩)
            else
              (⟨⟨t418, t415, t412⟩, t424⟩, ⟨⟨t477, t478, t479⟩, t484⟩, ⟨⟨t442, t440, t438⟩, t448⟩, ⟨⟨t451, t450, t449⟩, t457⟩, ⟨⟨(0 : α), (0 : α), (1 : α)⟩, t44⟩, ⟨⟨t83, t83, t84⟩, f⟩)
          else
            if t53 = (0 : α) then
              (⟨⟨t418, t415, t412⟩, t424⟩, ⟨⟨t477, t478, t479⟩, t484⟩, ⟨⟨t442, t440, t438⟩, t448⟩, ⟨⟨t451, t450, t449⟩, t457⟩, ⟨⟨t459, t459, t460⟩, t44⟩, ⟨⟨(0 : α), (0 : α), (-(1 : α))⟩, f⟩)
            else
              (⟨⟨t418, t415, t412⟩, t424⟩, ⟨⟨t477, t478, t479⟩, t484⟩, ⟨⟨t442, t440, t438⟩, t448⟩, ⟨⟨t451, t450, t449⟩, t457⟩, ⟨⟨t459, t459, t460⟩, t44⟩, ⟨⟨t83, t83, t84⟩, f⟩)
        else
          if t458 = (0 : α) then
            if t53 = (0 : α) then
              (⟨⟨t418, t415, t412⟩, t424⟩, ⟨⟨t477, t478, t479⟩, t484⟩, ⟨⟨t442, t440, t438⟩, t448⟩, ⟨⟨t461, t462, t463⟩, t468⟩, ⟨⟨(0 : α), (0 : α), (1 : α)⟩, t44⟩, ⟨⟨(0 : α), (0 : α), (-(1 : α))⟩, f⟩)
            else
              (⟨⟨t418, t415, t412⟩, t424⟩, ⟨⟨t477, t478, t479⟩, t484⟩, ⟨⟨t442, t440, t438⟩, t448⟩, ⟨⟨t461, t462, t463⟩, t468⟩, ⟨⟨(0 : α), (0 : α), (1 : α)⟩, t44⟩, ⟨⟨t83, t83, t84⟩, f⟩)
          else
            if t53 = (0 : α) then
              (⟨⟨t418, t415, t412⟩, t424⟩, ⟨⟨t477, t478, t479⟩, t484⟩, ⟨⟨t442, t440, t438⟩, t448⟩, ⟨⟨t461, t462, t463⟩, t468⟩, ⟨⟨t459, t459, t460⟩, t44⟩, ⟨⟨(0 : α), (0 : α), (-(1 : α))⟩, f⟩)
            else
              (⟨⟨t418, t415, t412⟩, t424⟩, ⟨⟨t477, t478, t479⟩, t484⟩, ⟨⟨t442, t440, t438⟩, t448⟩, ⟨⟨t461, t462, t463⟩, t468⟩, ⟨⟨t459, t459, t460⟩, t44⟩, ⟨⟨t83, t83, t84⟩, f⟩)
      else
        if t452 = (0 : α) then
          if t458 = (0 : α) then
            if t53 = (0 : α) then
              (⟨⟨t418, t415, t412⟩, t424⟩, ⟨⟨t477, t478, t479⟩, t484⟩, ⟨⟨t469, t470, t471⟩, t476⟩, ⟨⟨t451, t450, t449⟩, t457⟩, ⟨⟨(0 : α), (0 : α), (1 : α)⟩, t44⟩, ⟨⟨(0 : α), (0 : α), (-(1 : α))⟩, f⟩)
            else
              (⟨⟨t418, t415, t412⟩, t424⟩, ⟨⟨t477, t478, t479⟩, t484⟩, ⟨⟨t469, t470, t471⟩, t476⟩, ⟨⟨t451, t450, t449⟩, t457⟩, ⟨⟨(0 : α), (0 : α), (1 : α)⟩, t44⟩, ⟨⟨t83, t83, t84⟩, f⟩)
          else
            if t53 = (0 : α) then
              (⟨⟨t418, t415, t412⟩, t424⟩, ⟨⟨t477, t478, t479⟩, t484⟩, ⟨⟨t469, t470, t471⟩, t476⟩, ⟨⟨t451, t450, t449⟩, t457⟩, ⟨⟨t459, t459, t460⟩, t44⟩, ⟨⟨(0 : α), (0 : α), (-(1 : α))⟩, f⟩)
            else
              (⟨⟨t418, t415, t412⟩, t424⟩, ⟨⟨t477, t478, t479⟩, t484⟩, ⟨⟨t469, t470, t471⟩, t476⟩, ⟨⟨t451, t450, t449⟩, t457⟩, ⟨⟨t459, t459, t460⟩, t44⟩, ⟨⟨t83, t83, t84⟩, f⟩)
        else
          if t458 = (0 : α) then
            if t53 = (0 : α) then
              (⟨⟨t418, t415, t412⟩, t424⟩, ⟨⟨t477, t478, t479⟩, t484⟩, ⟨⟨t469, t470, t471⟩, t476⟩, ⟨⟨t461, t462, t463⟩, t468⟩, ⟨⟨(0 : α), (0 : α), (1 : α)⟩, t44⟩, ⟨⟨(0 : α), (0 : α), (-(1 : α))⟩, f⟩)
            else
              (⟨⟨t418, t415, t412⟩, t424⟩, ⟨⟨t477, t478, t479⟩, t484⟩, ⟨⟨t469, t470, t471⟩, t476⟩, ⟨⟨t461, t462, t463⟩, t468⟩, ⟨⟨(0 : α), (0 : α), (1 : α)⟩, t44⟩, ⟨⟨t83, t83, t84⟩, f⟩)
          else
            if t53 = (0 : α) then
              (⟨⟨t418, t415, t412⟩, t424⟩, ⟨⟨t477, t478, t479⟩, t484⟩, ⟨⟨t469, t470, t471⟩, t476⟩, ⟨⟨t461, t462, t463⟩, t468⟩, ⟨⟨t459, t459, t460⟩, t44⟩, ⟨⟨(0 : α), (0 : α), (-(1 : α))⟩, f⟩)
            else
              (⟨⟨t418, t415, t412⟩, t424⟩, ⟨⟨t477, t478, t479⟩, t484⟩, ⟨⟨t469, t470, t471⟩, t476⟩, ⟨⟨t461, t462, t463⟩, t468⟩, ⟨⟨t459, t459, t460⟩, t44⟩, ⟨⟨t83, t83, t84⟩, f⟩)
  else
    if t431 = (0 : α) then
      if t443 = (0 : α) then
        if t452 = (0 : α) then
          if t458 = (0 : α) then
            if t53 = (0 : α) then
              (⟨⟨t485, t486, t487⟩, t492⟩, ⟨⟨t430, t428, t426⟩, t436⟩, ⟨⟨t442, t440, t438⟩, t448⟩, ⟨⟨t451, t450, t449⟩, t457⟩, ⟨⟨(0 : α), (0 : α), (1 : α)⟩, t44⟩, ⟨⟨(0 : α), (0 : α), (-(1 : α))⟩, f⟩)
            else
              (⟨⟨t485, t486, t487⟩, t492⟩, ⟨⟨t430, t428, t426⟩, t436⟩, ⟨⟨t442, t440, t438⟩, t448⟩, ⟨⟨t451, t450, t449⟩, t457⟩, ⟨⟨(0 : α), (0 : α), (1 : α)⟩, t44⟩, ⟨⟨t83, t83, t84⟩, f⟩)
          else
            if t53 = (0 : α) then
              (⟨⟨t485, t486, t487⟩, t492⟩, ⟨⟨t430, t428, t426⟩, t436⟩, ⟨⟨t442, t440, t438⟩, t448⟩, ⟨⟨t451, t450, t449⟩, t457⟩, ⟨⟨t459, t459, t460⟩, t44⟩, ⟨⟨(0 : α), (0 : α), (-(1 : α))⟩, f⟩)
            else
              (⟨⟨t485, t486, t487⟩, t492⟩, ⟨⟨t430, t428, t426⟩, t436⟩, ⟨⟨t442, t440, t438⟩, t448⟩, ⟨⟨t451, t450, t449⟩, t457⟩, ⟨⟨t459, t459, t460⟩, t44⟩, ⟨⟨t83, t83, t84⟩, f⟩)
        else
          if t458 = (0 : α) then
            if t53 = (0 : α) then
              (⟨⟨t485, t486, t487⟩, t492⟩, ⟨⟨t430, t428, t426⟩, t436⟩, ⟨⟨t442, t440, t438⟩, t448⟩, ⟨⟨t461, t462, t463⟩, t468⟩, ⟨⟨(0 : α), (0 : α), (1 : α)⟩, t44⟩, ⟨⟨(0 : α), (0 : α), (-(1 : α))⟩, f⟩)
            else
              (⟨⟨t485, t486, t487⟩, t492⟩, ⟨⟨t430, t428, t426⟩, t436⟩, ⟨⟨t442, t440, t438⟩, t448⟩, ⟨⟨t461, t462, t463⟩, t468⟩, ⟨⟨(0 : α), (0 : α), (1 : α)⟩, t44⟩, ⟨⟨t83, t83, t84⟩, f⟩)
          else
            if t53 = (0 : α) then
              (⟨⟨t485, t486, t487⟩, t492⟩, ⟨⟨t430, t428, t426⟩, t436⟩, ⟨⟨t442, t440, t438⟩, t448⟩, ⟨⟨t461, t462, t463⟩, t468⟩, ⟨⟨t459, t459, t460⟩, t44⟩, ⟨⟨(0 : α), (0 : α), (-(1 : α))⟩, f⟩)
            else
              (⟨⟨t485, t486, t487⟩, t492⟩, ⟨⟨t430, t428, t426⟩, t436⟩, ⟨⟨t442, t440, t438⟩, t448⟩, ⟨⟨t461, t462, t463⟩, t468⟩, ⟨⟨t459, t459, t460⟩, t44⟩, ⟨⟨t83, t83, t84⟩, f⟩)
      else
        if t452 = (0 : α) then
          if t458 = (0 : α) then
            if t53 = (0 : α) then
              (⟨⟨t485, t486, t487⟩, t492⟩, ⟨⟨t430, t428, t426⟩, t436⟩, ⟨⟨t469, t470, t471⟩, t476⟩, ⟨⟨t451, t450, t449⟩, t457⟩, ⟨⟨(0 : α), (0 : α), (1 : α)⟩, t44⟩, ⟨⟨(0 : α), (0 : α), (-(1 : α))⟩, f⟩)
            else
              (⟨⟨t485, t486, t487⟩, t492⟩, ⟨⟨t430, t428, t426⟩, t436⟩, ⟨⟨t469, t470, t471⟩, t476⟩, ⟨⟨t451, t450, t449⟩, t457⟩, ⟨⟨(0 : α), (0 : α), (1 : α)⟩, t44⟩, ⟨⟨t83, t83, t84⟩, f⟩)
          else
            if t53 = (0 : α) then
              (⟨⟨t485, t486, t487⟩, t492⟩, ⟨⟨t430, t428, t426⟩, t436⟩, ⟨⟨t469, t470, t471⟩, t476⟩, ⟨⟨t451, t450, t449⟩, t457⟩, ⟨⟨t459, t459, t460⟩, t44⟩, ⟨⟨(0 : α), (0 : α), (-(1 : α))⟩, f⟩)
            else
              (⟨⟨t485, t486, t487⟩, t492⟩, ⟨⟨t430, t428, t426⟩, t436⟩, ⟨⟨t469, t470, t471⟩, t476⟩, ⟨⟨t451, t450, t449⟩, t457⟩, ⟨⟨t459, t459, t460⟩, t44⟩, ⟨⟨t83, t83, t84⟩, f⟩)
        else
          if t458 = (0 : α) then
            if t53 = (0 : α) then
              (⟨⟨t485, t486, t487⟩, t492⟩, ⟨⟨t430, t428, t426⟩, t436⟩, ⟨⟨t469, t470, t471⟩, t476⟩, ⟨⟨t461, t462, t463⟩, t468⟩, ⟨⟨(0 : α), (0 : α), (1 : α)⟩, t44⟩, ⟨⟨(0 : α), (0 : α), (-(1 : α))⟩, f⟩)
            else
              (⟨⟨t485, t486, t487⟩, t492⟩, ⟨⟨t430, t428, t426⟩, t436⟩, ⟨⟨t469, t470, t471⟩, t476⟩, ⟨⟨t461, t462, t463⟩, t468⟩, ⟨⟨(0 : α), (0 : α), (1 : α)⟩, t44⟩, ⟨⟨t83, t83, t84⟩, f⟩)
          else
            if t53 = (0 : α) then
              (⟨⟨t485, t486, t487⟩, t492⟩, ⟨⟨t430, t428, t426⟩, t436⟩, ⟨⟨t469, t470, t471⟩, t476⟩, ⟨⟨t461, t462, t463⟩, t468⟩, ⟨⟨t459, t459, t460⟩, t44⟩, ⟨⟨(0 : α), (0 : α), (-(1 : α))⟩, f⟩)
            else
              (⟨⟨t485, t486, t487⟩, t492⟩, ⟨⟨t430, t428, t426⟩, t436⟩, ⟨⟨t469, t470, t471⟩, t476⟩, ⟨⟨t461, t462, t463⟩, t468⟩, ⟨⟨t459, t459, t460⟩, t44⟩, ⟨⟨t83, t83, t84⟩, f⟩)
    else
      if t443 = (0 : α) then
        if t452 = (0 : α) then
          if t458 = (0 : α) then
            if t53 = (0 : α) then
              (⟨⟨t485, t486, t487⟩, t492⟩, ⟨⟨t477, t478, t479⟩, t484⟩, ⟨⟨t442, t440, t438⟩, t448⟩, ⟨⟨t451, t450, t449⟩, t457⟩, ⟨⟨(0 : α), (0 : α), (1 : α)⟩, t44⟩, ⟨⟨(0 : α), (0 : α), (-(1 : α))⟩, f⟩)
            else
              (⟨⟨t485, t486, t487⟩, t492⟩, ⟨⟨t477, t478, t479⟩, t484⟩, ⟨⟨t442, t440, t438⟩, t448⟩, ⟨⟨t451, t450, t449⟩, t457⟩, ⟨⟨(0 : α), (0 : α), (1 : α)⟩, t44⟩, ⟨⟨t83, t83, t84⟩, f⟩)
          else
            if t53 = (0 : α) then
              (⟨⟨t485, t486, t487⟩, t492⟩, ⟨⟨t477, t478, t479⟩, t484⟩, ⟨⟨t442, t440, t438⟩, t448⟩, ⟨⟨t451, t450, t449⟩, t457⟩, ⟨⟨t459, t459, t460⟩, t44⟩, ⟨⟨(0 : α), (0 : α), (-(1 : α))⟩, f⟩)
            else
              (⟨⟨t485, t486, t487⟩, t492⟩, ⟨⟨t477, t478, t479⟩, t484⟩, ⟨⟨t442, t440, t438⟩, t448⟩, ⟨⟨t451, t450, t449⟩, t457⟩, ⟨⟨t459, t459, t460⟩, t44⟩, ⟨⟨t83, t83, t84⟩, f⟩)
        else
          if t458 = (0 : α) then
            if t53 = (0 : α) then
              (⟨⟨t485, t486, t487⟩, t492⟩, ⟨⟨t477, t478, t479⟩, t484⟩, ⟨⟨t442, t440, t438⟩, t448⟩, ⟨⟨t461, t462, t463⟩, t468⟩, ⟨⟨(0 : α), (0 : α), (1 : α)⟩, t44⟩, ⟨⟨(0 : α), (0 : α), (-(1 : α))⟩, f⟩)
            else
              (⟨⟨t485, t486, t487⟩, t492⟩, ⟨⟨t477, t478, t479⟩, t484⟩, ⟨⟨t442, t440, t438⟩, t448⟩, ⟨⟨t461, t462, t463⟩, t468⟩, ⟨⟨(0 : α), (0 : α), (1 : α)⟩, t44⟩, ⟨⟨t83, t83, t84⟩, f⟩)
          else
            if t53 = (0 : α) then
              (⟨⟨t485, t486, t487⟩, t492⟩, ⟨⟨t477, t478, t479⟩, t484⟩, ⟨⟨t442, t440, t438⟩, t448⟩, ⟨⟨t461, t462, t463⟩, t468⟩, ⟨⟨t459, t459, t460⟩, t44⟩, ⟨⟨(0 : α), (0 : α), (-(1 : α))⟩, f⟩)
            else
              (⟨⟨t485, t486, t487⟩, t492⟩, ⟨⟨t477, t478, t479⟩, t484⟩, ⟨⟨t442, t440, t438⟩, t448⟩, ⟨⟨t461, t462, t463⟩, t468⟩, ⟨⟨t459, t459, t460⟩, t44⟩, ⟨⟨t83, t83, t84⟩, f⟩)
      else
        if t452 = (0 : α) then
          if t458 = (0 : α) then
            if t53 = (0 : α) then
              (⟨⟨t485, t486, t487⟩, t492⟩, ⟨⟨t477, t478, t479⟩, t484⟩, ⟨⟨t469, t470, t471⟩, t476⟩, ⟨⟨t451, t450, t449⟩, t457⟩, ⟨⟨(0 : α), (0 : α), (1 : α)⟩, t44⟩, ⟨⟨(0 : α), (0 : α), (-(1 : α))⟩, f⟩)
            else
              (⟨⟨t485, t486, t487⟩, t492⟩, ⟨⟨t477, t478, t479⟩, t484⟩, ⟨⟨t469, t470, t471⟩, t476⟩, ⟨⟨t451, t450, t449⟩, t457⟩, ⟨⟨(0 : α), (0 : α), (1 : α)⟩, t44⟩, ⟨⟨t83, t83, t84⟩, f⟩)
          else
            if t53 = (0 : α) then
              (⟨⟨t485, t486, t487⟩, t492⟩, ⟨⟨t477, t478, t479⟩, t484⟩, ⟨⟨t469, t470, t471⟩, t476⟩, ⟨⟨t451, t450, t449⟩, t457⟩, ⟨⟨t459, t459, t460⟩, t44⟩, ⟨⟨(0 : α), (0 : α), (-(1 : α))⟩, f⟩)
            else
              (⟨⟨t485, t486, t487⟩, t492⟩, ⟨⟨t477, t478, t479⟩, t484⟩, ⟨⟨t469, t470, t471⟩, t476⟩, ⟨⟨t451, t450, t449⟩, t457⟩, ⟨⟨t459, t459, t460⟩, t44⟩, ⟨⟨t83, t83, t84⟩, f⟩)
        else
          if t458 = (0 : α) then
            if t53 = (0 : α) then
              (⟨⟨t485, t486, t487⟩, t492⟩, ⟨⟨t477, t478, t479⟩, t484⟩, ⟨⟨t469, t470, t471⟩, t476⟩, ⟨⟨t461, t462, t463⟩, t468⟩, ⟨⟨(0 : α), (0 : α), (1 : α)⟩, t44⟩, ⟨⟨(0 : α), (0 : α), (-(1 : α))⟩, f⟩)
            else
              (⟨⟨t485, t486, t487⟩, t492⟩, ⟨⟨t477, t478, t479⟩, t484⟩, ⟨⟨t469, t470, t471⟩, t476⟩, ⟨⟨t461, t462, t463⟩, t468⟩, ⟨⟨(0 : α), (0 : α), (1 : α)⟩, t44⟩, ⟨⟨t83, t83, t84⟩, f⟩)
          else
            if t53 = (0 : α) then
              (⟨⟨t485, t486, t487⟩, t492⟩, ⟨⟨t477, t478, t479⟩, t484⟩, ⟨⟨t469, t470, t471⟩, t476⟩, ⟨⟨t461, t462, t463⟩, t468⟩, ⟨⟨t459, t459, t460⟩, t44⟩, ⟨⟨(0 : α), (0 : α), (-(1 : α))⟩, f⟩)
            else
              (⟨⟨t485, t486, t487⟩, t492⟩, ⟨⟨t477, t478, t479⟩, t484⟩, ⟨⟨t469, t470, t471⟩, t476⟩, ⟨⟨t461, t462, t463⟩, t468⟩, ⟨⟨t459, t459, t460⟩, t44⟩, ⟨⟨t83, t83, t84⟩, f⟩)

/-- extracted from the C++ template at T = Sym; 64 path(s) -/
def Frustum.planes_ortho {α : Type} [Add α] [Mul α] [Div α] [Neg α] [LT α] [LE α] [DecidableLT α] [DecidableLE α] [DecidableEq α] [OfNat α 0] [OfNat α 1] [OfNat α 2] (tmin : α) (tmax : α) (sqrt : α → α) (n : α) (f : α) (l : α) (r : α) (t : α) (b : α) : ((Plane3 α) × (Plane3 α) × (Plane3 α) × (Plane3 α) × (Plane3 α) × (Plane3 α)) :=
  let t44 := (-n)
  let t53 := (V3.length tmin tmax sqrt ⟨(0 : α), (0 : α), (-(1 : α))⟩)
  let t83 := ((0 : α) / t53)
  let t84 := ((-(1 : α)) / t53)
  let t458 := (V3.length tmin tmax sqrt ⟨(0 : α), (0 : α), (1 : α)⟩)
  let t459 := ((0 : α) / t458)
  let t460 := ((1 : α) / t458)
  let t493 := (V3.length tmin tmax sqrt ⟨(0 : α), (1 : α), (0 : α)⟩)
  let t494 := (V3.length tmin tmax sqrt ⟨(1 : α), (0 : α), (0 : α)⟩)
  let t495 := (-b)
  let t496 := (V3.length tmin tmax sqrt ⟨(0 : α), (-(1 : α)), (0 : α)⟩)
  let t497 := (-l)
  let t498 := (V3.length tmin tmax sqrt ⟨(-(1 : α)), (0 : α), (0 : α)⟩)
  let t499 := ((-(1 : α)) / t498)
  let t500 := ((0 : α) / t498)
  let t501 := ((0 : α) / t496)
  let t502 := ((-(1 : α)) / t496)
  let t503 := ((1 : α) / t494)
  let t504 := ((0 : α) / t494)
  let t505 := ((0 : α) / t493)
  let t506 := ((1 : α) / t493)
  if t493 = (0 : α) then
    if t494 = (0 : α) then
      if t496 = (0 : α) then
        if t498 = (0 : α) then
          if t458 = (0 : α) then
            if t53 = (0 : α) then
              (⟨⟨(0 : α), (1 : α), (0 : α)⟩, t⟩, ⟨⟨(1 : α), (0 : α), (0 : α)⟩, r⟩, ⟨⟨(0 : α), (-(1 : α)), (0 : α)⟩, t495⟩, ⟨⟨(-(1 : α)), (0 : α), (0 : α)⟩, t497⟩, ⟨⟨(0 : α), (0 : α), (1 : α)⟩, t44⟩, ⟨⟨(0 : α), (0 : α), (-(1 : α))⟩, f⟩)
            else
              (⟨⟨(0 : α), (1 : α), (0 : α)⟩, t⟩, ⟨⟨(1 : α), (0 : α), (0 : α)⟩, r⟩, ⟨⟨(0 : α), (-(1 : α)), (0 : α)⟩, t495⟩, ⟨⟨(-(1 : α)), (0 : α), (0 : α)⟩, t497⟩, ⟨⟨(0 : α), (0 : α), (1 : α)⟩, t44⟩, ⟨⟨t83, t83, t84⟩, f⟩)
          else
            if t53 = (0 : α) then
              (⟨⟨(0 : α), (1 : α), (0 : α)⟩, t⟩, ⟨⟨(1 : α), (0 : α), (0 : α)⟩, r⟩, ⟨⟨(0 : α), (-(1 : α)), (0 : α)⟩, t495⟩, ⟨⟨(-(1 : α)), (0 : α), (0 : α)⟩, t497⟩, ⟨⟨t459, t459, t460⟩, t44⟩, ⟨⟨(0 : α), (0 : α), (-(1 : α))⟩, f⟩)
            else
              (⟨⟨(0 : α), (1 : α), (0 : α)⟩, t⟩, ⟨⟨(1 : α), (0 : α), (0 : α)⟩, r⟩, ⟨⟨(0 : α), (-(1 : α)), (0 : α)⟩, t495⟩, ⟨⟨(-(1 : α)), (0 : α), (0 : α)⟩, t497⟩, ⟨⟨t459, t459, t460⟩, t44⟩, ⟨⟨t83, t83, t84⟩, f⟩)
        else
          if t458 = (0 : α) then
            if t53 = (0 : α) then
              (⟨⟨(0 : α), (1 : α), (0 : α)⟩, t⟩, ⟨⟨(1 : α), (0 : α), (0 : α)⟩, r⟩, ⟨⟨(0 : α), (-(1 : α)), (0 : α)⟩, t495⟩, ⟨⟨t499, t500, t500⟩, t497⟩, ⟨⟨(0 : α), (0 : α), (1 : α)⟩, t44⟩, ⟨⟨(0 : α), (0 : α), (-(1 : α))⟩, f⟩)
            else
              (⟨⟨(0 : α), (1 : α), (0 : α)⟩, t⟩, ⟨⟨(1 : α), (0 : α), (0 : α)⟩, r⟩, ⟨⟨(0 : α), (-(1 : α)), (0 : α)⟩, t495⟩, ⟨⟨t499, t500, t500⟩, t497⟩, ⟨⟨(0 : α), (0 : α), (1 : α)⟩, t44⟩, ⟨⟨t83, t83, t84⟩, f⟩)
          else
            if t53 = (0 : α) then
              (⟨⟨(0 : α), (1 : α), (0 : α)⟩, t⟩, ⟨⟨(1 : α), (0 : α), (0 : α)⟩, r⟩, ⟨⟨(0 : α), (-(1 : α)), (0 : α)⟩, t495⟩, ⟨⟨t499, t500, t500⟩, t497⟩, ⟨⟨t459, t459, t460⟩, t44⟩, ⟨⟨(0 : α), (0 : α), (-(1 : α))⟩, f⟩)
            else
              (⟨⟨(0 : α), (1 : α), (0 : α)⟩, t⟩, ⟨⟨(1 : α), (0 : α), (0 : α)⟩, r⟩, ⟨⟨(0 : α), (-(1 : α)), (0 : α)⟩, t495⟩, ⟨⟨t499, t500, t500⟩, t497⟩, ⟨⟨t459, t459, t460⟩, t44⟩, ⟨⟨t83, t83, t84⟩, f⟩)
      else
        if t498 = (0 : α) then
          if t458 = (0 : α) then
            if t53 = (0 : α) then
              (⟨⟨(0 : α), (1 : α), (0 : α)⟩, t⟩, ⟨⟨(1 : α), (0 : α), (0 : α)⟩, r⟩, ⟨⟨t501, t502, t501⟩, t495⟩, ⟨⟨(-(1 : α)), (0 : α), (0 : α)⟩, t497⟩, ⟨⟨(0 : α), (0 : α), (1 : α)⟩, t44⟩, ⟨⟨(0 : α), (0 : α), (-(1 : α))⟩, f⟩)
            else
              (⟨⟨(0 : α), (1 : α), (0 : α)⟩, t⟩, ⟨⟨(1 : α), (0 : α), (0 : α)⟩, r⟩, ⟨⟨t501, t502, t501⟩, t495⟩, ⟨⟨(-(1 : α)), (0 : α), (0 : α)⟩, t497⟩, ⟨⟨(0 : α), (0 : α), (1 : α)⟩, t44⟩, ⟨⟨t83, t83, t84⟩, f⟩)
          else
            if t53 = (0 : α) then
              (⟨⟨(0 : α), (1 : α), (0 : α)⟩, t⟩, ⟨⟨(1 : α), (0 : α), (0 : α)⟩, r⟩, ⟨⟨t501, t502, t501⟩, t495⟩, ⟨⟨(-(1 : α)), (0 : α), (0 : α)⟩, t497⟩, ⟨⟨t459, t459, t460⟩, t44⟩, ⟨⟨(0 : α), (0 : α), (-(1 : α))⟩, f⟩)
            else
              (⟨⟨(0 : α), (1 : α), (0 : α)⟩, t⟩, ⟨⟨(1 : α), (0 : α), (0 : α)⟩, r⟩, ⟨⟨t501, t502, t501⟩, t495⟩, ⟨⟨(-(1 : α)), (0 : α), (0 : α)⟩, t497⟩, ⟨⟨t459, t459, t460⟩, t44⟩, ⟨⟨t83, t83, t84⟩, f⟩)
        else
          if t458 = (0 : α) then
            if t53 = (0 : α) then
              (⟨⟨(0 : α), (1 : α), (0 : α)⟩, t⟩, ⟨⟨(1 : α), (0 : α), (0 : α)⟩, r⟩, ⟨⟨t501, t502, t501⟩, t495⟩, ⟨⟨t499, t500, t500⟩, t497⟩, ⟨⟨(0 : α), (0 : α), (1 : α)⟩, t44⟩, ⟨⟨(0 : α), (0 : α), (-(1 : α))⟩, f⟩)
            else
              (⟨⟨(0 : α), (1 : α), (0 : α)⟩, t⟩, ⟨⟨(1 : α), (0 : α), (0 : α)⟩, r⟩, ⟨⟨t501, t502, t501⟩, t495⟩, ⟨⟨t499, t500, t500⟩, t497⟩, ⟨⟨(0 : α), (0 : α), (1 : α)⟩, t44⟩, ⟨⟨t83, t83, t84⟩, f⟩)
          else
            if t53 = (0 : α) then
              (⟨⟨(0 : α), (1 : α), (0 : α)⟩, t⟩, ⟨⟨(1 : α), (0 : α), (0 : α)⟩, r⟩, ⟨⟨t501, t502, t501⟩, t495⟩, ⟨⟨t499, t500, t500⟩, t497⟩, ⟨⟨t459, t459, t460⟩, t44⟩, ⟨⟨(0 : α), (0 : α), (-(1 : α))⟩, f⟩)
            else
              (⟨⟨(0 : α), (1 : α), (0 : α)⟩, t⟩, ⟨⟨(1 : α), (0 : α), (0 : α)⟩, r⟩, ⟨⟨t501, t502, t501⟩, t495⟩, ⟨⟨t499, t500, t500⟩, t497⟩, ⟨⟨t459, t459, t460⟩, t44⟩, ⟨⟨t83, t83, t84⟩, f⟩)
    else
      if t496 = (0 : α) then
        if t498 = (0 : α) then
          if t458 = (0 : α) then
            if t53 = (0 : α) then
              (⟨⟨(0 : α), (1 : α), (0 : α)⟩, t⟩, ⟨⟨t503, t504, t504⟩, r⟩, ⟨⟨(0 : α), (-(1 : α)), (0 : α)⟩, t495⟩, ⟨⟨(-(1 : α)), (0 : α), (0 : α)⟩, t497⟩, ⟨⟨(0 : α), (0 : α), (1 : α)⟩, t44⟩, ⟨⟨(0 : α), (0 : α), (-(1 : α))⟩, f⟩)
            else
              (⟨⟨(0 : α), (1 : α), (0 : α)⟩, t⟩, ⟨⟨t503, t504, t504⟩, r⟩, ⟨⟨(0 : α), (-(1 : α)), (0 : α)⟩, t495⟩, ⟨⟨(-(1 : α)), (0 : α), (0 : α)⟩, t497⟩, ⟨⟨(0 : α), (0 : α), (1 : α)⟩, t44⟩, ⟨⟨t83, t83, t84⟩, f⟩)
          else
            if t53 = (0 : α) then
              (⟨⟨(0 : α), (1 : α), (0 : α)⟩, t⟩, ⟨⟨t503, t504, t504⟩, r⟩, ⟨⟨(0 : α), (-(1 : α)), (0 : α)⟩, t495⟩, ⟨⟨(-(1 : α)), (0 : α), (0 : α)⟩, t497⟩, ⟨⟨t459, t459, t460⟩, t44⟩, ⟨⟨(0 : α), (0 : α), (-(1 : α))⟩, f⟩)
            else
              (⟨⟨(0 : α), (1 : α), (0 : α)⟩, t⟩, ⟨⟨t503, t504, t504⟩, r⟩, ⟨⟨(0 : α), (-(1 : α)), (0 : α)⟩, t495⟩, ⟨⟨(-(1 : α)), (0 : α), (0 : α)⟩, t497⟩, ⟨⟨t459, t459, t460⟩, t44⟩, ⟨⟨t83, t83, t84⟩, f⟩)
        else
          if t458 = (0 : α) then
            if t53 = (0 : α) then
              (⟨⟨(0 : α), (1 : α), (0 : α)⟩, t⟩, ⟨⟨t503, t504, t504⟩, r⟩, ⟨⟨(0 : α), (-(1 : α)), (0 : α)⟩, t495⟩, ⟨⟨t499, t500, t500⟩, t497⟩, ⟨⟨(0 : α), (0 : α), (1 : α)⟩, t44⟩, ⟨⟨(0 : α), (0 : α), (-(1 : α))⟩, f⟩)
            else
              (⟨⟨(0 : α), (1 : α), (0 : α)⟩, t⟩, ⟨⟨t503, t504, t504⟩, r⟩, ⟨⟨(0 : α), (-(1 : α)), (0 : α)⟩, t495⟩, ⟨⟨t499, t500, t500⟩, t497⟩, ⟨⟨(0 : α), (0 : α), (1 : α)⟩, t44⟩, ⟨⟨t83, t83, t84⟩, f⟩)
          else
            if t53 = (0 : α) then
              (⟨⟨(0 : α), (1 : α), (0 : α)⟩, t⟩, ⟨⟨t503, t504, t504⟩, r⟩, ⟨⟨(0 : α), (-(1 : α)), (0 : α)⟩, t495⟩, ⟨⟨t499, t500, t500⟩, t497⟩, ⟨⟨t459, t459, t460⟩, t44⟩, ⟨⟨(0 : α), (0 : α), (-(1 : α))⟩, f⟩)
            else
              (⟨⟨(0 : α), (1 : α), (0 : α)⟩, t⟩, ⟨⟨t503, t504, t504⟩, r⟩, ⟨⟨(0 : α), (-(1 : α)), (0 : α)⟩, t495⟩, ⟨⟨t499, t500, t500⟩, t497⟩, ⟨⟨t459, t459, t460⟩, t44⟩, ⟨⟨t83, t83, t84⟩, f⟩)
      else
        if t498 = (0 : α) then
          if t458 = (0 : α) then
            if t53 = (0 : α) then
              (⟨⟨(0 : α), (1 : α), (0 : α)⟩, t⟩, ⟨⟨t503, t504, t504⟩, r⟩, ⟨⟨t501, t502, t501⟩, t495⟩, ⟨⟨(-(1 : α)), (0 : α), (0 : α)⟩, t497⟩, ⟨⟨(0 : α), (0 : α), (1 : α)⟩, t44⟩, ⟨⟨(0 : α), (0 : α), (-(1 : α))⟩, f⟩)
            else
              (⟨⟨(0 : α), (1 : α), (0 : α)⟩, t⟩, ⟨⟨t503, t504, t504⟩, r⟩, ⟨⟨t501, t502, t501⟩, t495⟩, ⟨⟨(-(1 : α)), (0 : α), (0 : α)⟩, t497⟩, ⟨⟨(0 : α), (0 : α), (1 : α)⟩, t44⟩, ⟨⟨t83, t83, t84⟩, f⟩)
          else
            if t53 = (0 : α) then
              (⟨⟨(0 : α), (1 : α), (0 : α)⟩, t⟩, ⟨⟨t503, t504, t504⟩, r⟩, ⟨⟨t501, t502, t501⟩, t495⟩, ⟨⟨(-(1 : α)), (0 : α), (0 : α)⟩, t497⟩, ⟨⟨t459, t459, t460⟩, t44⟩, ⟨⟨(0 : α), (0 : α), (-(1 : α))⟩, f⟩)
            else
              (⟨⟨(0 : α), (1 : α), (0 : α)⟩, t⟩, ⟨⟨t503, t504, t504⟩, r⟩, ⟨⟨t501, t502, t501⟩, t495⟩, ⟨⟨(-(1 : α)), (0 : α), (0 : α)⟩, t497⟩, ⟨⟨t459, t459, t460⟩, t44⟩, ⟨⟨t83, t83, t84⟩, f⟩)
        else
          if t458 = (0 : α) then
            if t53 = (0 : α) then
              (⟨⟨(0 : α), (1 : α), (0 : α)⟩, t⟩, ⟨⟨t503, t504, t504⟩, r⟩, ⟨⟨t501, t502, t501⟩, t495⟩, ⟨⟨t499, t500, t500⟩, t497⟩, ⟨⟨(0 : α), (0 : α), (1 : α)⟩, t44⟩, ⟨⟨(0 : α), (0 : α), (-(1 : α))⟩, f⟩)
            else
              (⟨⟨(0 : α), (1 : α), (0 : α)⟩, t⟩, ⟨⟨t503, t504, t504⟩, r⟩, ⟨⟨t501, t502, t501⟩, t495⟩, ⟨⟨t499, t500, t500⟩, t497⟩, ⟨⟨(0 : α), (0 : α), (1 : α)⟩, t44⟩, ⟨⟨t83, t83, t84⟩, f⟩)
          else
            if t53 = (0 : α) then
              (⟨⟨(0 : α), (1 : α), (0 : α)⟩, t⟩, ⟨⟨t503, t504, t504⟩, r⟩, ⟨⟨t501, t502, t501⟩, t495⟩, ⟨⟨t499, t500, t500⟩, t497⟩, ⟨⟨t459, t459, t460⟩, t44⟩, ⟨⟨(0 : α), (0 : α), (-(1 : α))⟩, f⟩)
            else
              (⟨⟨(0 : α), (1 : α), (0 : α)⟩, t⟩, ⟨⟨t503, t504, t504⟩, r⟩, ⟨⟨t501, t502, t501⟩, t495⟩, ⟨⟨t499, t500, t500⟩, t497⟩, ⟨⟨t459, t459, t460⟩, t44⟩, ⟨⟨t83, t83, t84⟩, f⟩)
  else
    if t494 = (0 : α) then
      if t496 = (0 : α) then
        if t498 = (0 : α) then
          if t458 = (0 : α) then
            if t53 = (0 : α) then
              (⟨⟨t505, t506, t505⟩, t⟩, ⟨⟨(1 : α), (0 : α), (0 : α)⟩, r⟩, ⟨⟨(0 : α), (-(1 : α)), (0 : α)⟩, t495⟩, ⟨⟨(-(1 : α)), (0 : α), (0 : α)⟩, t497⟩, ⟨⟨(0 : α), (0 : α), (1 : α)⟩, t44⟩, ⟨⟨(0 : α), (0 : α), (-(1 : α))⟩, f⟩)
            else
              (⟨⟨t505, t506, t505⟩, t⟩, ⟨⟨(1 : α), (0 : α), (0 : α)⟩, r⟩, ⟨⟨(0 : α), (-(1 : α)), (0 : α)⟩, t495⟩, ⟨⟨(-(1 : α)), (0 : α), (0 : α)⟩, t497⟩, ⟨⟨(0 : α), (0 : α), (1 : α)⟩, t44⟩, ⟨⟨t83, t83, t84⟩, f⟩)
          else
            if t53 = (0 : α) then
              (⟨⟨t505, t506, t505⟩, t⟩, ⟨⟨(1 : α), (0 : α), (0 : α)⟩, r⟩, ⟨⟨(0 : α), (-(1 : α)), (0 : α)⟩, t495⟩, ⟨⟨(-(1 : α)), (0 : α), (0 : α)⟩, t497⟩, ⟨⟨t459, t459, t460⟩, t44⟩, ⟨⟨(0 : α), (0 : α), (-(1 : α))⟩, f⟩)
            else
              (⟨⟨t505, t506, t505⟩, t⟩, ⟨⟨(1 : α), (0 : α), (0 : α)⟩, r⟩, ⟨⟨(0 : α), (-(1 : α)), (0 : α)⟩, t495⟩, ⟨⟨(-(1 : α)), (0 : α), (0 : α)⟩, t497⟩, ⟨⟨t459, t459, t460⟩, t44⟩, ⟨⟨t83, t83, t84⟩, f⟩)
        else
          if t458 = (0 : α) then
            if t53 = (0 : α) then
              (⟨⟨t505, t506, t505⟩, t⟩, ⟨⟨(1 : α), (0 : α), (0 : α)⟩, r⟩, ⟨⟨(0 : α), (-(1 : α)), (0 : α)⟩, t495⟩, ⟨⟨t499, t500, t500⟩, t497⟩, ⟨⟨(0 : α), (0 : α), (1 : α)⟩, t44⟩, ⟨⟨(0 : α), (0 : α), (-(1 : α))⟩, f⟩)
            else
              (⟨⟨t505, t506, t505⟩, t⟩, ⟨⟨(1 : α), (0 : α), (0 : α)⟩, r⟩, ⟨⟨(0 : α), (-(1 : α)), (0 : α)⟩, t495⟩, ⟨⟨t499, t500, t500⟩, t497⟩, ⟨⟨(0 : α), (0 : α), (1 : α)⟩, t44⟩, ⟨⟨t83, t83, t84⟩, f⟩)
          else
            if t53 = (0 : α) then
              (⟨⟨t505, t506, t505⟩, t⟩, ⟨⟨(1 : α), (0 : α), (0 : α)⟩, r⟩, ⟨⟨(0 : α), (-(1 : α)), (0 : α)⟩, t495⟩, ⟨⟨t499, t500, t500⟩, t497⟩, ⟨⟨t459, t459, t460⟩, t44⟩, ⟨⟨(0 : α), (0 : α), (-(1 : α))⟩, f⟩)
            else
              (⟨⟨t505, t506, t505⟩, t⟩, ⟨⟨(1 : α), (0 : α), (0 : α)⟩, r⟩, ⟨⟨(0 : α), (-(1 : α)), (0 : α)⟩, t495⟩, ⟨⟨t499, t500, t500⟩, t497⟩, ⟨⟨t459, t459, t460⟩, t44⟩, ⟨⟨t83, t83, t84⟩, f⟩)
      else
        if t498 = (0 : α) then
          if t458 = (0 : α) then
            if t53 = (0 : α) then
              (⟨⟨t505, t506, t505⟩, t⟩, ⟨⟨(1 : α), (0 : α), (0 : α)⟩, r⟩, ⟨⟨t501, t502, t501⟩, t495⟩, ⟨⟨(-(1 : α)), (0 : α), (0 : α)⟩, t497⟩, ⟨⟨(0 : α), (0 : α), (1 : α)⟩, t44⟩, ⟨⟨(0 : α), (0 : α), (-(1 : α))⟩, f⟩)
            else
              (⟨⟨t505, t506, t505⟩, t⟩, ⟨⟨(1 : α), (0 : α), (0 : α)⟩, r⟩, ⟨⟨t501, t502, t501⟩, t495⟩, ⟨⟨(-(1 : α)), (0 : α), (0 : α)⟩, t497⟩, ⟨⟨(0 : α), (0 : α), (1 : α)⟩, t44⟩, ⟨⟨t83, t83, t84⟩, f⟩)
          else
            if t53 = (0 : α) then
              (⟨⟨t505, t506, t505⟩, t⟩, ⟨⟨(1 : α), (0 : α), (0 : α)⟩, r⟩, ⟨⟨t501, t502, t501⟩, t495⟩, ⟨⟨(-(1 : α)), (0 : α), (0 : α)⟩, t497⟩, ⟨⟨t459, t459, t460⟩, t44⟩, ⟨⟨(0 : α), (0 : α), (-(1 : α))⟩, f⟩)
            else
              (⟨⟨t505, t506, t505⟩, t⟩, ⟨⟨(1 : α), (0 : α), (0 : α)⟩, r⟩, ⟨⟨t501, t502, t501⟩, t495⟩, ⟨⟨(-(1 : α)), (0 : α), (0 : α)⟩, t497⟩, ⟨⟨t459, t459, t460⟩, t44⟩, ⟨⟨t83, t83, t84⟩, f⟩)
        else
          if t458 = (0 : α) then
            if t53 = (0 : α) then
              (⟨⟨t505, t506, t505⟩, t⟩, ⟨⟨(1 : α), (0 : α), (0 : α)⟩, r⟩, ⟨⟨t501, t502, t501⟩, t495⟩, ⟨⟨t499, t500, t500⟩, t497⟩, ⟨⟨(0 : α), (0 : α), (1 : α)⟩, t44⟩, ⟨⟨(0 : α), (0 : α), (-(1 : α))⟩, f⟩)
            else
              (⟨⟨t505, t506, t505⟩, t⟩, ⟨⟨(1 : α), (0 : α), (0 : α)⟩, r⟩, ⟨⟨t501, t502, t501⟩, t495⟩, ⟨⟨t499, t500, t500⟩, t497⟩, ⟨⟨(0 : α), (0 : α), (1 : α)⟩, t44⟩, ⟨⟨t83, t83, t84⟩, f⟩)
          else
            if t53 = (0 : α) then
              (⟨⟨t505, t506, t505⟩, t⟩, ⟨⟨(1 : α), (0 : α), (0 : α)⟩, r⟩, ⟨⟨t501, t502, t501⟩, t495⟩, ⟨⟨t499, t500, t500⟩, t497⟩, ⟨⟨t459, t459, t460⟩, t44⟩, ⟨⟨(0 : α), (0 : α), (-(1 : α))⟩, f⟩)
            else
              (⟨⟨t505, t506, t505⟩, t⟩, ⟨⟨(1 : α), (0 : α), (0 : α)⟩, r⟩, ⟨⟨t501, t502, t501⟩, t495⟩, ⟨⟨t499, t500, t500⟩, t497⟩, ⟨⟨t459, t459, t460⟩, t44⟩, ⟨⟨t83, t83, t84⟩, f⟩)
    else
      if t496 = (0 : α) then
        if t498 = (0 : α) then
          if t458 = (0 : α) then
            if t53 = (0 : α) then
              (⟨⟨t505, t506, t505⟩, t⟩, ⟨⟨t503, t504, t504⟩, r⟩, ⟨⟨(0 : α), (-(1 : α)), (0 : α)⟩, t495⟩, ⟨⟨(-(1 : α)), (0 : α), (0 : α)⟩, t497⟩, ⟨⟨(0 : α), (0 : α), (1 : α)⟩, t44⟩, ⟨⟨(0 : α), (0 : α), (-(1 : α))⟩, f⟩)
            else
              (⟨⟨t505, t506, t505⟩, t⟩, ⟨⟨t503, t504, t504⟩, r⟩, ⟨⟨(0 : α), (-(1 : α)), (0 : α)⟩, t495⟩, ⟨⟨(-(1 : α)), (0 : α), (0 : α)⟩, t497⟩, ⟨⟨(0 : α), (0 : α), (1 : α)⟩, t44⟩, ⟨⟨t83, t83, t84⟩, f⟩)
          else
            if t53 = (0 : α) then
              (⟨⟨t505, t506, t505⟩, t⟩, ⟨⟨t503, t504, t504⟩, r⟩, ⟨⟨(0 : α), (-(1 : α)), (0 : α)⟩, t495⟩, ⟨⟨(-(1 : α)), (0 : α), (0 : α)⟩, t497⟩, ⟨⟨t459, t459, t460⟩, t44⟩, ⟨⟨(0 : α), (0 : α), (-(1 : α))⟩, f⟩)
            else
              (⟨⟨t505, t506, t505⟩, t⟩, ⟨⟨t503, t504, t504⟩, r⟩, ⟨⟨(0 : α), (-(1 : α)), (0 : α)⟩, t495⟩, ⟨⟨(-(1 : α)), (0 : α), (0 : α)⟩, t497⟩, ⟨⟨t459, t459, t460⟩, t44⟩, ⟨⟨t83, t83, t84⟩, f⟩)
        else
          if t458 = (0 : α) then
            if t53 = (0 : α) then
              (⟨⟨t505, t506, t505⟩, t⟩, ⟨⟨t503, t504, t504⟩, r⟩, ⟨⟨(0 : α), (-(1 : α)), (0 : α)⟩, t495⟩, ⟨⟨t499, t500, t500⟩, t497⟩, ⟨⟨(0 : α), (0 : α), (1 : α)⟩, t44⟩, ⟨⟨(0 : α), (0 : α), (-(1 : α))⟩, f⟩)
            else
              (⟨⟨t505, t506, t505⟩, t⟩, ⟨⟨t503, t504, t504⟩, r⟩, ⟨⟨(0 : α), (-(1 : α)), (0 : α)⟩, t495⟩, ⟨⟨t499, t500, t500⟩, t497⟩, ⟨⟨(0 : α), (0 : α), (1 : α)⟩, t44⟩, ⟨⟨t83, t83, t84⟩, f⟩)
          else
            if t53 = (0 : α) then
              (⟨⟨t505, t506, t505⟩, t⟩, ⟨⟨t503, t504, t504⟩, r⟩, ⟨⟨(0 : α), (-(1 : α)), (0 : α)⟩, t495⟩, ⟨⟨t499, t500, t500⟩, t497⟩, ⟨⟨t459, t459, t460⟩, t44⟩, ⟨⟨(0 : α), (0 : α), (-(1 : α))⟩, f⟩)
            else
              (⟨⟨t505, t506, t505⟩, t⟩, ⟨⟨t503, t504, t504⟩, r⟩, ⟨⟨(0 : α), (-(1 : α)), (0 : α)⟩, t495⟩, ⟨⟨t499, t500, t500⟩, t497⟩, ⟨⟨t459, t459, t460⟩, t44⟩, ⟨⟨t83, t83, t84⟩, f⟩)
      else
        if t498 = (0 : α) then
          if t458 = (0 : α) then
            if t53 = (0 : α) then
              (⟨⟨t505, t506, t505⟩, t⟩, ⟨⟨t503, t504, t504⟩, r⟩, ⟨⟨t501, t502, t501⟩, t495⟩, ⟨⟨(-(1 : α)), (0 : α), (0 : α)⟩, t497⟩, ⟨⟨(0 : α), (0 : α), (1 : α)⟩, t44⟩, ⟨⟨(0 : α), (0 : α), (-(1 : α))⟩, f⟩)
            else
              (⟨⟨t505, t506, t505⟩, t⟩, ⟨⟨t503, t504, t504⟩, r⟩, ⟨⟨t501, t502, t501⟩, t495⟩, ⟨⟨(-(1 : α)), (0 : α), (0 : α)⟩, t497⟩, ⟨⟨(0 : α), (0 : α), (1 : α)⟩, t44⟩, ⟨⟨t83, t83, t84⟩, f⟩)
          else
            if t53 = (0 : α) then
              (⟨⟨t505, t506, t505⟩, t⟩, ⟨⟨t503, t504, t504⟩, r⟩, ⟨⟨t501, t502, t501⟩, t495⟩, ⟨⟨(-(1 : α)), (0 : α), (0 : α)⟩, t497⟩, ⟨⟨t459, t459, t460⟩, t44⟩, ⟨⟨(0 : α), (0 : α), (-(1 : α))⟩, f⟩)
            else
              (⟨⟨t505, t506, t505⟩, t⟩, ⟨⟨t503, t504, t504⟩, r⟩, ⟨⟨t501, t502, t501⟩, t495⟩, ⟨⟨(-(1 : α)), (0 : α), (0 : α)⟩, t497⟩, ⟨⟨t459, t459, t460⟩, t44⟩, ⟨⟨t83, t83, t84⟩, f⟩)
        else
          if t458 = (0 : α) then
            if t53 = (0 : α) then
              (⟨⟨t505, t506, t505⟩, t⟩, ⟨⟨t503, t504, t504⟩, r⟩, ⟨⟨t501, t502, t501⟩, t495⟩, ⟨⟨t499, t500, t500⟩, t497⟩, ⟨⟨(0 : α), (0 : α), (1 : α)⟩, t44⟩, ⟨⟨(0 : α), (0 : α), (-(1 : α))⟩, f⟩)
            else
              (⟨⟨t505, t506, t505⟩, t⟩, ⟨⟨t503, t504, t504⟩, r⟩, ⟨⟨t501, t502, t501⟩, t495⟩, ⟨⟨t499, t500, t500⟩, t497⟩, ⟨⟨(0 : α), (0 : α), (1 : α)⟩, t44⟩, ⟨⟨t83, t83, t84⟩, f⟩)
          else
            if t53 = (0 : α) then
              (⟨⟨t505, t506, t505⟩, t⟩, ⟨⟨t503, t504, t504⟩, r⟩, ⟨⟨t501, t502, t501⟩, t495⟩, ⟨⟨t499, t500, t500⟩, t497⟩, ⟨⟨t459, t459, t460⟩, t44⟩, ⟨⟨(0 : α), (0 : α), (-(1 : α))⟩, f⟩)
            else
              (⟨⟨t505, t506, t505⟩, t⟩, ⟨⟨t503, t504, t504⟩, r⟩, ⟨⟨t501, t502, t501⟩, t495⟩, ⟨⟨t499, t500, t500⟩, t497⟩, ⟨⟨t459, t459, t460⟩, t44⟩, ⟨⟨t83, t83, t84⟩, f⟩)

end ImathVerif.Gen
