-- GENERATED from /repo/src/Imath by harness/sym (T = Sym path extraction); do not edit.
import ImathVerif.Basic.Types
import ImathVerif.Gen.Leaf
set_option linter.unusedVariables false
namespace ImathVerif.Gen
open ImathVerif

/-- extracted from the C++ template at T = Sym; 1 path(s) -/
def V2.add {α : Type} [Add α] (a : V2 α) (b : V2 α) : (V2 α) :=
  ⟨(a.x + b.x), (a.y + b.y)⟩

/-- extracted from the C++ template at T = Sym; 1 path(s) -/
def V2.addAssign {α : Type} [Add α] (a : V2 α) (b : V2 α) : (V2 α) :=
  ⟨(a.x + b.x), (a.y + b.y)⟩

/-- extracted from the C++ template at T = Sym; 1 path(s) -/
def V2.sub {α : Type} [Sub α] (a : V2 α) (b : V2 α) : (V2 α) :=
  ⟨(a.x - b.x), (a.y - b.y)⟩

/-- extracted from the C++ template at T = Sym; 1 path(s) -/
def V2.subAssign {α : Type} [Sub α] (a : V2 α) (b : V2 α) : (V2 α) :=
  ⟨(a.x - b.x), (a.y - b.y)⟩

/-- extracted from the C++ template at T = Sym; 1 path(s) -/
def V2.neg {α : Type} [Neg α] (a : V2 α) : (V2 α) :=
  ⟨(-a.x), (-a.y)⟩

/-- extracted from the C++ template at T = Sym; 1 path(s) -/
def V2.negate {α : Type} [Neg α] (a : V2 α) : (V2 α) :=
  ⟨(-a.x), (-a.y)⟩

/-- extracted from the C++ template at T = Sym; 1 path(s) -/
def V2.mul {α : Type} [Mul α] (a : V2 α) (b : V2 α) : (V2 α) :=
  ⟨(a.x * b.x), (a.y * b.y)⟩

/-- extracted from the C++ template at T = Sym; 1 path(s) -/
def V2.mulAssign {α : Type} [Mul α] (a : V2 α) (b : V2 α) : (V2 α) :=
  ⟨(a.x * b.x), (a.y * b.y)⟩

/-- extracted from the C++ template at T = Sym; 1 path(s) -/
def V2.mulS {α : Type} [Mul α] (a : V2 α) (s : α) : (V2 α) :=
  ⟨(a.x * s), (a.y * s)⟩

/-- extracted from the C++ template at T = Sym; 1 path(s) -/
def V2.mulSAssign {α : Type} [Mul α] (a : V2 α) (s : α) : (V2 α) :=
  ⟨(a.x * s), (a.y * s)⟩

/-- extracted from the C++ template at T = Sym; 1 path(s) -/
def V2.smul {α : Type} [Mul α] (s : α) (a : V2 α) : (V2 α) :=
  ⟨(s * a.x), (s * a.y)⟩

/-- extracted from the C++ template at T = Sym; 1 path(s) -/
def V2.div {α : Type} [Div α] (a : V2 α) (b : V2 α) : (V2 α) :=
  ⟨(a.x / b.x), (a.y / b.y)⟩

/-- extracted from the C++ template at T = Sym; 1 path(s) -/
def V2.divAssign {α : Type} [Div α] (a : V2 α) (b : V2 α) : (V2 α) :=
  ⟨(a.x / b.x), (a.y / b.y)⟩

/-- extracted from the C++ template at T = Sym; 1 path(s) -/
def V2.divS {α : Type} [Div α] (a : V2 α) (s : α) : (V2 α) :=
  ⟨(a.x / s), (a.y / s)⟩

/-- extracted from the C++ template at T = Sym; 1 path(s) -/
def V2.divSAssign {α : Type} [Div α] (a : V2 α) (s : α) : (V2 α) :=
  ⟨(a.x / s), (a.y / s)⟩

/-- extracted from the C++ template at T = Sym; 3 path(s) -/
def V2.eq {α : Type} [DecidableEq α] (a : V2 α) (b : V2 α) : Bool :=
  if a.x = b.x then
    if a.y = b.y then
      true
    else
      false
  else
    false

/-- extracted from the C++ template at T = Sym; 3 path(s) -/
def V2.ne {α : Type} [DecidableEq α] (a : V2 α) (b : V2 α) : Bool :=
  if a.x = b.x then
    if a.y = b.y then
      false
    else
      true
  else
    true

/-- extracted from the C++ template at T = Sym; 1 path(s) -/
def V2.dot {α : Type} [Add α] [Mul α] (a : V2 α) (b : V2 α) : α :=
  ((a.x * b.x) + (a.y * b.y))

/-- extracted from the C++ template at T = Sym; 1 path(s) -/
def V2.dotOp {α : Type} [Add α] [Mul α] (a : V2 α) (b : V2 α) : α :=
  ((a.x * b.x) + (a.y * b.y))

/-- extracted from the C++ template at T = Sym; 1 path(s) -/
def V2.length2 {α : Type} [Add α] [Mul α] (a : V2 α) : α :=
  ((a.x * a.x) + (a.y * a.y))

/-- extracted from the C++ template at T = Sym; 1 path(s) -/
def V3.add {α : Type} [Add α] (a : V3 α) (b : V3 α) : (V3 α) :=
  ⟨(a.x + b.x), (a.y + b.y), (a.z + b.z)⟩

/-- extracted from the C++ template at T = Sym; 1 path(s) -/
def V3.addAssign {α : Type} [Add α] (a : V3 α) (b : V3 α) : (V3 α) :=
  ⟨(a.x + b.x), (a.y + b.y), (a.z + b.z)⟩

/-- extracted from the C++ template at T = Sym; 1 path(s) -/
def V3.sub {α : Type} [Sub α] (a : V3 α) (b : V3 α) : (V3 α) :=
  ⟨(a.x - b.x), (a.y - b.y), (a.z - b.z)⟩

/-- extracted from the C++ template at T = Sym; 1 path(s) -/
def V3.subAssign {α : Type} [Sub α] (a : V3 α) (b : V3 α) : (V3 α) :=
  ⟨(a.x - b.x), (a.y - b.y), (a.z - b.z)⟩

/-- extracted from the C++ template at T = Sym; 1 path(s) -/
def V3.neg {α : Type} [Neg α] (a : V3 α) : (V3 α) :=
  ⟨(-a.x), (-a.y), (-a.z)⟩

/-- extracted from the C++ template at T = Sym; 1 path(s) -/
def V3.negate {α : Type} [Neg α] (a : V3 α) : (V3 α) :=
  ⟨(-a.x), (-a.y), (-a.z)⟩

/-- extracted from the C++ template at T = Sym; 1 path(s) -/
def V3.mul {α : Type} [Mul α] (a : V3 α) (b : V3 α) : (V3 α) :=
  ⟨(a.x * b.x), (a.y * b.y), (a.z * b.z)⟩

/-- extracted from the C++ template at T = Sym; 1 path(s) -/
def V3.mulAssign {α : Type} [Mul α] (a : V3 α) (b : V3 α) : (V3 α) :=
  ⟨(a.x * b.x), (a.y * b.y), (a.z * b.z)⟩

/-- extracted from the C++ template at T = Sym; 1 path(s) -/
def V3.mulS {α : Type} [Mul α] (a : V3 α) (s : α) : (V3 α) :=
  ⟨(a.x * s), (a.y * s), (a.z * s)⟩

/-- extracted from the C++ template at T = Sym; 1 path(s) -/
def V3.mulSAssign {α : Type} [Mul α] (a : V3 α) (s : α) : (V3 α) :=
  ⟨(a.x * s), (a.y * s), (a.z * s)⟩

/-- extracted from the C++ template at T = Sym; 1 path(s) -/
def V3.smul {α : Type} [Mul α] (s : α) (a : V3 α) : (V3 α) :=
  ⟨(s * a.x), (s * a.y), (s * a.z)⟩

/-- extracted from the C++ template at T = Sym; 1 path(s) -/
def V3.div {α : Type} [Div α] (a : V3 α) (b : V3 α) : (V3 α) :=
  ⟨(a.x / b.x), (a.y / b.y), (a.z / b.z)⟩

/-- extracted from the C++ template at T = Sym; 1 path(s) -/
def V3.divAssign {α : Type} [Div α] (a : V3 α) (b : V3 α) : (V3 α) :=
  ⟨(a.x / b.x), (a.y / b.y), (a.z / b.z)⟩

/-- extracted from the C++ template at T = Sym; 1 path(s) -/
def V3.divS {α : Type} [Div α] (a : V3 α) (s : α) : (V3 α) :=
  ⟨(a.x / s), (a.y / s), (a.z / s)⟩

/-- extracted from the C++ template at T = Sym; 1 path(s) -/
def V3.divSAssign {α : Type} [Div α] (a : V3 α) (s : α) : (V3 α) :=
  ⟨(a.x / s), (a.y / s), (a.z / s)⟩

/-- extracted from the C++ template at T = Sym; 4 path(s) -/
def V3.eq {α : Type} [DecidableEq α] (a : V3 α) (b : V3 α) : Bool :=
  if a.x = b.x then
    if a.y = b.y then
      if a.z = b.z then
        true
      else
        false
    else
      false
  else
    false

/-- extracted from the C++ template at T = Sym; 4 path(s) -/
def V3.ne {α : Type} [DecidableEq α] (a : V3 α) (b : V3 α) : Bool :=
  if a.x = b.x then
    if a.y = b.y then
      if a.z = b.z then
        false
      else
        true
    else
      true
  else
    true

/-- extracted from the C++ template at T = Sym; 1 path(s) -/
def V3.dot {α : Type} [Add α] [Mul α] (a : V3 α) (b : V3 α) : α :=
  (((a.x * b.x) + (a.y * b.y)) + (a.z * b.z))

/-- extracted from the C++ template at T = Sym; 1 path(s) -/
def V3.dotOp {α : Type} [Add α] [Mul α] (a : V3 α) (b : V3 α) : α :=
  (((a.x * b.x) + (a.y * b.y)) + (a.z * b.z))

/-- extracted from the C++ template at T = Sym; 1 path(s) -/
def V3.length2 {α : Type} [Add α] [Mul α] (a : V3 α) : α :=
  (((a.x * a.x) + (a.y * a.y)) + (a.z * a.z))

/-- extracted from the C++ template at T = Sym; 1 path(s) -/
def V4.add {α : Type} [Add α] (a : V4 α) (b : V4 α) : (V4 α) :=
  ⟨(a.x + b.x), (a.y + b.y), (a.z + b.z), (a.w + b.w)⟩

/-- extracted from the C++ template at T = Sym; 1 path(s) -/
def V4.addAssign {α : Type} [Add α] (a : V4 α) (b : V4 α) : (V4 α) :=
  ⟨(a.x + b.x), (a.y + b.y), (a.z + b.z), (a.w + b.w)⟩

/-- extracted from the C++ template at T = Sym; 1 path(s) -/
def V4.sub {α : Type} [Sub α] (a : V4 α) (b : V4 α) : (V4 α) :=
  ⟨(a.x - b.x), (a.y - b.y), (a.z - b.z), (a.w - b.w)⟩

/-- extracted from the C++ template at T = Sym; 1 path(s) -/
def V4.subAssign {α : Type} [Sub α] (a : V4 α) (b : V4 α) : (V4 α) :=
  ⟨(a.x - b.x), (a.y - b.y), (a.z - b.z), (a.w - b.w)⟩

/-- extracted from the C++ template at T = Sym; 1 path(s) -/
def V4.neg {α : Type} [Neg α] (a : V4 α) : (V4 α) :=
  ⟨(-a.x), (-a.y), (-a.z), (-a.w)⟩

/-- extracted from the C++ template at T = Sym; 1 path(s) -/
def V4.negate {α : Type} [Neg α] (a : V4 α) : (V4 α) :=
  ⟨(-a.x), (-a.y), (-a.z), (-a.w)⟩

/-- extracted from the C++ template at T = Sym; 1 path(s) -/
def V4.mul {α : Type} [Mul α] (a : V4 α) (b : V4 α) : (V4 α) :=
  ⟨(a.x * b.x), (a.y * b.y), (a.z * b.z), (a.w * b.w)⟩

/-- extracted from the C++ template at T = Sym; 1 path(s) -/
def V4.mulAssign {α : Type} [Mul α] (a : V4 α) (b : V4 α) : (V4 α) :=
  ⟨(a.x * b.x), (a.y * b.y), (a.z * b.z), (a.w * b.w)⟩

/-- extracted from the C++ template at T = Sym; 1 path(s) -/
def V4.mulS {α : Type} [Mul α] (a : V4 α) (s : α) : (V4 α) :=
  ⟨(a.x * s), (a.y * s), (a.z * s), (a.w * s)⟩

/-- extracted from the C++ template at T = Sym; 1 path(s) -/
def V4.mulSAssign {α : Type} [Mul α] (a : V4 α) (s : α) : (V4 α) :=
  ⟨(a.x * s), (a.y * s), (a.z * s), (a.w * s)⟩

/-- extracted from the C++ template at T = Sym; 1 path(s) -/
def V4.smul {α : Type} [Mul α] (s : α) (a : V4 α) : (V4 α) :=
  ⟨(s * a.x), (s * a.y), (s * a.z), (s * a.w)⟩

/-- extracted from the C++ template at T = Sym; 1 path(s) -/
def V4.div {α : Type} [Div α] (a : V4 α) (b : V4 α) : (V4 α) :=
  ⟨(a.x / b.x), (a.y / b.y), (a.z / b.z), (a.w / b.w)⟩

/-- extracted from the C++ template at T = Sym; 1 path(s) -/
def V4.divAssign {α : Type} [Div α] (a : V4 α) (b : V4 α) : (V4 α) :=
  ⟨(a.x / b.x), (a.y / b.y), (a.z / b.z), (a.w / b.w)⟩

/-- extracted from the C++ template at T = Sym; 1 path(s) -/
def V4.divS {α : Type} [Div α] (a : V4 α) (s : α) : (V4 α) :=
  ⟨(a.x / s), (a.y / s), (a.z / s), (a.w / s)⟩

/-- extracted from the C++ template at T = Sym; 1 path(s) -/
def V4.divSAssign {α : Type} [Div α] (a : V4 α) (s : α) : (V4 α) :=
  ⟨(a.x / s), (a.y / s), (a.z / s), (a.w / s)⟩

/-- extracted from the C++ template at T = Sym; 5 path(s) -/
def V4.eq {α : Type} [DecidableEq α] (a : V4 α) (b : V4 α) : Bool :=
  if a.x = b.x then
    if a.y = b.y then
      if a.z = b.z then
        if a.w = b.w then
          true
        else
          false
      else
        false
    else
      false
  else
    false

/-- extracted from the C++ template at T = Sym; 5 path(s) -/
def V4.ne {α : Type} [DecidableEq α] (a : V4 α) (b : V4 α) : Bool :=
  if a.x = b.x then
    if a.y = b.y then
      if a.z = b.z then
        if a.w = b.w then
          false
        else
          true
      else
        true
    else
      true
  else
    true

/-- extracted from the C++ template at T = Sym; 1 path(s) -/
def V4.dot {α : Type} [Add α] [Mul α] (a : V4 α) (b : V4 α) : α :=
  ((((a.x * b.x) + (a.y * b.y)) + (a.z * b.z)) + (a.w * b.w))

/-- extracted from the C++ template at T = Sym; 1 path(s) -/
def V4.dotOp {α : Type} [Add α] [Mul α] (a : V4 α) (b : V4 α) : α :=
  ((((a.x * b.x) + (a.y * b.y)) + (a.z * b.z)) + (a.w * b.w))

/-- extracted from the C++ template at T = Sym; 1 path(s) -/
def V4.length2 {α : Type} [Add α] [Mul α] (a : V4 α) : α :=
  ((((a.x * a.x) + (a.y * a.y)) + (a.z * a.z)) + (a.w * a.w))

/-- extracted from the C++ template at T = Sym; 1 path(s) -/
def V2.cross {α : Type} [Sub α] [Mul α] (a : V2 α) (b : V2 α) : α :=
  ((a.x * b.y) - (a.y * b.x))

/-- extracted from the C++ template at T = Sym; 1 path(s) -/
def V2.crossOp {α : Type} [Sub α] [Mul α] (a : V2 α) (b : V2 α) : α :=
  ((a.x * b.y) - (a.y * b.x))

/-- extracted from the C++ template at T = Sym; 1 path(s) -/
def V3.cross {α : Type} [Sub α] [Mul α] (a : V3 α) (b : V3 α) : (V3 α) :=
  ⟨((a.y * b.z) - (a.z * b.y)), ((a.z * b.x) - (a.x * b.z)), ((a.x * b.y) - (a.y * b.x))⟩

/-- extracted from the C++ template at T = Sym; 1 path(s) -/
def V3.crossOp {α : Type} [Sub α] [Mul α] (a : V3 α) (b : V3 α) : (V3 α) :=
  ⟨((a.y * b.z) - (a.z * b.y)), ((a.z * b.x) - (a.x * b.z)), ((a.x * b.y) - (a.y * b.x))⟩

/-- extracted from the C++ template at T = Sym; 1 path(s) -/
def V3.crossAssign {α : Type} [Sub α] [Mul α] (a : V3 α) (b : V3 α) : (V3 α) :=
  ⟨((a.y * b.z) - (a.z * b.y)), ((a.z * b.x) - (a.x * b.z)), ((a.x * b.y) - (a.y * b.x))⟩

/-- extracted from the C++ template at T = Sym; 2 path(s) -/
def V3.normalized {α : Type} [Add α] [Mul α] [Div α] [Neg α] [LT α] [LE α] [DecidableLT α] [DecidableLE α] [DecidableEq α] [OfNat α 0] [OfNat α 2] (tmin : α) (sqrt : α → α) (a : V3 α) : (V3 α) :=
  let t61 := (V3.length tmin sqrt ⟨a.x, a.y, a.z⟩)
  if t61 = (0 : α) then
    ⟨(0 : α), (0 : α), (0 : α)⟩
  else
    ⟨(a.x / t61), (a.y / t61), (a.z / t61)⟩

/-- extracted from the C++ template at T = Sym; 2 path(s) -/
def V3.normalizedExc {α : Type} [Add α] [Mul α] [Div α] [Neg α] [LT α] [LE α] [DecidableLT α] [DecidableLE α] [DecidableEq α] [OfNat α 0] [OfNat α 2] (tmin : α) (sqrt : α → α) (a : V3 α) : Except Exc (V3 α) :=
  let t61 := (V3.length tmin sqrt ⟨a.x, a.y, a.z⟩)
  if t61 = (0 : α) then
    .error Exc.domainError
  else
    .ok (⟨(a.x / t61), (a.y / t61), (a.z / t61)⟩)

end ImathVerif.Gen
