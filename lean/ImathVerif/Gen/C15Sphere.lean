-- GENERATED from /repo/src/Imath by harness/sym (T = Sym path extraction); do not edit.
import ImathVerif.Basic.Types
import ImathVerif.Gen.Leaf
set_option linter.unusedVariables false
namespace ImathVerif.Gen
open ImathVerif

/-- extracted from the C++ template at T = Sym; 1 path(s) -/
def Sphere3.circumscribe {α : Type} [Add α] [Sub α] [Mul α] [Div α] [Neg α] [LT α] [LE α] [DecidableLT α] [DecidableLE α] [DecidableEq α] [OfNat α 0] [OfNat α 1] [OfNat α 2] (tmin : α) (sqrt : α → α) (b : Box3 α) : (Sphere3 α) :=
  let t842 := (((1 : α) / (2 : α)) * (b.min.z + b.max.z))
  let t843 := (((1 : α) / (2 : α)) * (b.min.y + b.max.y))
  let t844 := (((1 : α) / (2 : α)) * (b.min.x + b.max.x))
  ⟨⟨t844, t843, t842⟩, (V3.length tmin sqrt ⟨(b.max.x - t844), (b.max.y - t843), (b.max.z - t842)⟩)⟩

/-- extracted from the C++ template at T = Sym; 4 path(s) -/
def Sphere3.intersectT {α : Type} [Add α] [Sub α] [Mul α] [Div α] [Neg α] [LT α] [DecidableLT α] [OfNat α 0] [OfNat α 1] [OfNat α 2] [OfNat α 4] (sqrt : α → α) (s : Sphere3 α) (l : Line3 α) : (Bool × α) :=
  let t861 := ((2 : α) * (((l.dir.x * (l.pos.x - s.center.x)) + (l.dir.y * (l.pos.y - s.center.y))) + (l.dir.z * (l.pos.z - s.center.z))))
  let t885 := ((t861 * t861) - ((4 : α) * ((((((l.pos.x * l.pos.x) + (l.pos.y * l.pos.y)) + (l.pos.z * l.pos.z)) - ((2 : α) * (((l.pos.x * s.center.x) + (l.pos.y * s.center.y)) + (l.pos.z * s.center.z)))) + (((s.center.x * s.center.x) + (s.center.y * s.center.y)) + (s.center.z * s.center.z))) - (s.radius * s.radius))))
  let t886 := (sqrt t885)
  let t887 := (-t861)
  let t889 := ((t887 - t886) * ((1 : α) / (2 : α)))
  let t891 := ((t887 + t886) * ((1 : α) / (2 : α)))
  if t885 < (0 : α) then
    (false, (0 : α))
  else
    if t889 < (0 : α) then
      if t891 < (0 : α) then
        (false, t891)
      else
        (true, t891)
    else
      (true, t889)

/-- extracted from the C++ template at T = Sym; 4 path(s) -/
def Sphere3.intersect {α : Type} [Add α] [Sub α] [Mul α] [Div α] [Neg α] [LT α] [DecidableLT α] [OfNat α 0] [OfNat α 1] [OfNat α 2] [OfNat α 4] (sqrt : α → α) (s : Sphere3 α) (l : Line3 α) : (Bool × (V3 α)) :=
  let t861 := ((2 : α) * (((l.dir.x * (l.pos.x - s.center.x)) + (l.dir.y * (l.pos.y - s.center.y))) + (l.dir.z * (l.pos.z - s.center.z))))
  let t885 := ((t861 * t861) - ((4 : α) * ((((((l.pos.x * l.pos.x) + (l.pos.y * l.pos.y)) + (l.pos.z * l.pos.z)) - ((2 : α) * (((l.pos.x * s.center.x) + (l.pos.y * s.center.y)) + (l.pos.z * s.center.z)))) + (((s.center.x * s.center.x) + (s.center.y * s.center.y)) + (s.center.z * s.center.z))) - (s.radius * s.radius))))
  let t886 := (sqrt t885)
  let t887 := (-t861)
  let t889 := ((t887 - t886) * ((1 : α) / (2 : α)))
  let t891 := ((t887 + t886) * ((1 : α) / (2 : α)))
  if t885 < (0 : α) then
    (false, ⟨(0 : α), (0 : α), (0 : α)⟩)
  else
    if t889 < (0 : α) then
      if t891 < (0 : α) then
        (false, ⟨(0 : α), (0 : α), (0 : α)⟩)
      else
        (true, ⟨(l.pos.x + (l.dir.x * t891)), (l.pos.y + (l.dir.y * t891)), (l.pos.z + (l.dir.z * t891))⟩)
    else
      (true, ⟨(l.pos.x + (l.dir.x * t889)), (l.pos.y + (l.dir.y * t889)), (l.pos.z + (l.dir.z * t889))⟩)

end ImathVerif.Gen
