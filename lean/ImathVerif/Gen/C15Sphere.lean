-- GENERATED from /repo/src/Imath by harness/sym (T = Sym path extraction); do not edit.
import ImathVerif.Basic.Types
import ImathVerif.Gen.Leaf
set_option linter.unusedVariables false
namespace ImathVerif.Gen
open ImathVerif

/-- extracted from the C++ template at T = Sym; 1 path(s) -/
def Sphere3.circumscribe {α : Type} [Add α] [Sub α] [Mul α] [Div α] [Neg α] [LT α] [LE α] [DecidableLT α] [DecidableLE α] [DecidableEq α] [OfNat α 0] [OfNat α 1] [OfNat α 2] (tmin : α) (tmax : α) (sqrt : α → α) (b : Box3 α) : (Sphere3 α) :=
  let t937 := (((1 : α) / (2 : α)) * (b.min.z + b.max.z))
  let t938 := (((1 : α) / (2 : α)) * (b.min.y + b.max.y))
  let t939 := (((1 : α) / (2 : α)) * (b.min.x + b.max.x))
  ⟨⟨t939, t938, t937⟩, (V3.length tmin tmax sqrt ⟨(b.max.x - t939), (b.max.y - t938), (b.max.z - t937)⟩)⟩

/-- extracted from the C++ template at T = Sym; 4 path(s) -/
def Sphere3.intersectT {α : Type} [Add α] [Sub α] [Mul α] [Div α] [Neg α] [LT α] [DecidableLT α] [OfNat α 0] [OfNat α 1] [OfNat α 2] [OfNat α 4] (sqrt : α → α) (s : Sphere3 α) (l : Line3 α) : (Bool × α) :=
  let t948 := (l.pos.z - s.center.z)
  let t949 := (l.pos.y - s.center.y)
  let t950 := (l.pos.x - s.center.x)
  let t956 := ((2 : α) * (((l.dir.x * t950) + (l.dir.y * t949)) + (l.dir.z * t948)))
  let t967 := ((t956 * t956) - ((4 : α) * ((((t950 * t950) + (t949 * t949)) + (t948 * t948)) - (s.radius * s.radius))))
  let t968 := (sqrt t967)
  let t969 := (-t956)
  let t971 := ((t969 - t968) * ((1 : α) / (2 : α)))
  let t973 := ((t969 + t968) * ((1 : α) / (2 : α)))
  if t967 < (0 : α) then
    (false, (0 : α))
  else
    if t971 < (0 : α) then
      if t973 < (0 : α) then
        (false, t973)
      else
        (true, t973)
    else
      (true, t971)

/-- extracted from the C++ template at T = Sym; 4 path(s) -/
def Sphere3.intersect {α : Type} [Add α] [Sub α] [Mul α] [Div α] [Neg α] [LT α] [DecidableLT α] [OfNat α 0] [OfNat α 1] [OfNat α 2] [OfNat α 4] (sqrt : α → α) (s : Sphere3 α) (l : Line3 α) : (Bool × (V3 α)) :=
  let t948 := (l.pos.z - s.center.z)
  let t949 := (l.pos.y - s.center.y)
  let t950 := (l.pos.x - s.center.x)
  let t956 := ((2 : α) * (((l.dir.x * t950) + (l.dir.y * t949)) + (l.dir.z * t948)))
  let t967 := ((t956 * t956) - ((4 : α) * ((((t950 * t950) + (t949 * t949)) + (t948 * t948)) - (s.radius * s.radius))))
  let t968 := (sqrt t967)
  let t969 := (-t956)
  let t971 := ((t969 - t968) * ((1 : α) / (2 : α)))
  let t973 := ((t969 + t968) * ((1 : α) / (2 : α)))
  if t967 < (0 : α) then
    (false, ⟨(0 : α), (0 : α), (0 : α)⟩)
  else
    if t971 < (0 : α) then
      if t973 < (0 : α) then
        (false, ⟨(0 : α), (0 : α), (0 : α)⟩)
      else
        (true, ⟨(l.pos.x + (l.dir.x * t973)), (l.pos.y + (l.dir.y * t973)), (l.pos.z + (l.dir.z * t973))⟩)
    else
      (true, ⟨(l.pos.x + (l.dir.x * t971)), (l.pos.y + (l.dir.y * t971)), (l.pos.z + (l.dir.z * t971))⟩)

end ImathVerif.Gen
