-- GENERATED from /repo/src/Imath by harness/sym (T = Sym path extraction); do not edit.
import ImathVerif.Basic.Types
import ImathVerif.Gen.Leaf
set_option linter.unusedVariables false
namespace ImathVerif.Gen
open ImathVerif

/-- extracted from the C++ template at T = Sym; 1 path(s) -/
def Sphere3.circumscribe {α : Type} [Add α] [Sub α] [Mul α] [Div α] [Neg α] [LT α] [LE α] [DecidableLT α] [DecidableLE α] [DecidableEq α] [OfNat α 0] [OfNat α 1] [OfNat α 2] (tmin : α) (sqrt : α → α) (b : Box3 α) : (Sphere3 α) :=
  let t1212 := (((1 : α) / (2 : α)) * (b.min.z + b.max.z))
  let t1213 := (((1 : α) / (2 : α)) * (b.min.y + b.max.y))
  let t1214 := (((1 : α) / (2 : α)) * (b.min.x + b.max.x))
  ⟨⟨t1214, t1213, t1212⟩, (V3.length tmin sqrt ⟨(b.max.x - t1214), (b.max.y - t1213), (b.max.z - t1212)⟩)⟩

/-- extracted from the C++ template at T = Sym; 4 path(s) -/
def Sphere3.intersectT {α : Type} [Add α] [Sub α] [Mul α] [Div α] [Neg α] [LT α] [DecidableLT α] [OfNat α 0] [OfNat α 1] [OfNat α 2] [OfNat α 4] (sqrt : α → α) (s : Sphere3 α) (l : Line3 α) : (Bool × α) :=
  let t1223 := (l.pos.z - s.center.z)
  let t1224 := (l.pos.y - s.center.y)
  let t1225 := (l.pos.x - s.center.x)
  let t1231 := ((2 : α) * (((l.dir.x * t1225) + (l.dir.y * t1224)) + (l.dir.z * t1223)))
  let t1242 := ((t1231 * t1231) - ((4 : α) * ((((t1225 * t1225) + (t1224 * t1224)) + (t1223 * t1223)) - (s.radius * s.radius))))
  let t1243 := (sqrt t1242)
  let t1244 := (-t1231)
  let t1246 := ((t1244 - t1243) * ((1 : α) / (2 : α)))
  let t1248 := ((t1244 + t1243) * ((1 : α) / (2 : α)))
  if t1242 < (0 : α) then
    (false, (0 : α))
  else
    if t1246 < (0 : α) then
      if t1248 < (0 : α) then
        (false, t1248)
      else
        (true, t1248)
    else
      (true, t1246)

/-- extracted from the C++ template at T = Sym; 4 path(s) -/
def Sphere3.intersect {α : Type} [Add α] [Sub α] [Mul α] [Div α] [Neg α] [LT α] [DecidableLT α] [OfNat α 0] [OfNat α 1] [OfNat α 2] [OfNat α 4] (sqrt : α → α) (s : Sphere3 α) (l : Line3 α) : (Bool × (V3 α)) :=
  let t1223 := (l.pos.z - s.center.z)
  let t1224 := (l.pos.y - s.center.y)
  let t1225 := (l.pos.x - s.center.x)
  let t1231 := ((2 : α) * (((l.dir.x * t1225) + (l.dir.y * t1224)) + (l.dir.z * t1223)))
  let t1242 := ((t1231 * t1231) - ((4 : α) * ((((t1225 * t1225) + (t1224 * t1224)) + (t1223 * t1223)) - (s.radius * s.radius))))
  let t1243 := (sqrt t1242)
  let t1244 := (-t1231)
  let t1246 := ((t1244 - t1243) * ((1 : α) / (2 : α)))
  let t1248 := ((t1244 + t1243) * ((1 : α) / (2 : α)))
  if t1242 < (0 : α) then
    (false, ⟨(0 : α), (0 : α), (0 : α)⟩)
  else
    if t1246 < (0 : α) then
      if t1248 < (0 : α) then
        (false, ⟨(0 : α), (0 : α), (0 : α)⟩)
      else
        (true, ⟨(l.pos.x + (l.dir.x * t1248)), (l.pos.y + (l.dir.y * t1248)), (l.pos.z + (l.dir.z * t1248))⟩)
    else
      (true, ⟨(l.pos.x + (l.dir.x * t1246)), (l.pos.y + (l.dir.y * t1246)), (l.pos.z + (l.dir.z * t1246))⟩)

end ImathVerif.Gen
