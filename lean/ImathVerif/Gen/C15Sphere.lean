-- GENERATED from /repo/src/Imath by harness/sym (T = Sym path extraction); do not edit.
import ImathVerif.Basic.Types
import ImathVerif.Gen.Leaf
set_option linter.unusedVariables false
namespace ImathVerif.Gen
open ImathVerif

/-- extracted from the C++ template at T = Sym; 1 path(s) -/
def Sphere3.circumscribe {α : Type} [Add α] [Sub α] [Mul α] [Div α] [Neg α] [LT α] [LE α] [DecidableLT α] [DecidableLE α] [DecidableEq α] [OfNat α 0] [OfNat α 1] [OfNat α 2] (tmin : α) (sqrt : α → α) (b : Box3 α) : (Sphere3 α) :=
  let t842 := (((1 : α) / (2 : α)) * (b.min.z + b.max.z))
  let t843 := (((1 : α) / (2 : α)) * (b.min.y + b.max.y))
  let t844 := (((1 : α) / (2 : α)) * (b.min.x + b.max.x))
  ⟨⟨t844, t843, t842⟩, (V3.length tmin sqrt ⟨(b.max.x - t844), (b.max.y - t843), (b.max.z - t842)⟩)⟩

/-- extracted from the C++ template at T = Sym; 4 path(s) -/
def Sphere3.intersectT {α : Type} [Add α] [Sub α] [Mul α] [Div α] [Neg α] [LT α] [DecidableLT α] [OfNat α 0] [OfNat α 1] [OfNat α 2] [OfNat α 4] (sqrt : α → α) (s : Sphere3 α) (l : Line3 α) : (Bool × α) :=
  let t853 := (l.pos.z - s.center.z)
  let t854 := (l.pos.y - s.center.y)
  let t855 := (l.pos.x - s.center.x)
  let t861 := ((2 : α) * (((l.dir.x * t855) + (l.dir.y * t854)) + (l.dir.z * t853)))
  let t872 := ((t861 * t861) - ((4 : α) * ((((t855 * t855) + (t854 * t854)) + (t853 * t853)) - (s.radius * s.radius))))
  let t873 := (sqrt t872)
  let t874 := (-t861)
  let t876 := ((t874 - t873) * ((1 : α) / (2 : α)))
  let t878 := ((t874 + t873) * ((1 : α) / (2 : α)))
  if t872 < (0 : α) then
    (false, (0 : α))
  else
    if t876 < (0 : α) then
      if t878 < (0 : α) then
        (false, t878)
      else
        (true, t878)
    else
      (true, t876)

/-- extracted from the C++ template at T = Sym; 4 path(s) -/
def Sphere3.intersect {α : Type} [Add α] [Sub α] [Mul α] [Div α] [Neg α] [LT α] [DecidableLT α] [OfNat α 0] [OfNat α 1] [OfNat α 2] [OfNat α 4] (sqrt : α → α) (s : Sphere3 α) (l : Line3 α) : (Bool × (V3 α)) :=
  let t853 := (l.pos.z - s.center.z)
  let t854 := (l.pos.y - s.center.y)
  let t855 := (l.pos.x - s.center.x)
  let t861 := ((2 : α) * (((l.dir.x * t855) + (l.dir.y * t854)) + (l.dir.z * t853)))
  let t872 := ((t861 * t861) - ((4 : α) * ((((t855 * t855) + (t854 * t854)) + (t853 * t853)) - (s.radius * s.radius))))
  let t873 := (sqrt t872)
  let t874 := (-t861)
  let t876 := ((t874 - t873) * ((1 : α) / (2 : α)))
  let t878 := ((t874 + t873) * ((1 : α) / (2 : α)))
  if t872 < (0 : α) then
    (false, ⟨(0 : α), (0 : α), (0 : α)⟩)
  else
    if t876 < (0 : α) then
      if t878 < (0 : α) then
        (false, ⟨(0 : α), (0 : α), (0 : α)⟩)
      else
        (true, ⟨(l.pos.x + (l.dir.x * t878)), (l.pos.y + (l.dir.y * t878)), (l.pos.z + (l.dir.z * t878))⟩)
    else
      (true, ⟨(l.pos.x + (l.dir.x * t876)), (l.pos.y + (l.dir.y * t876)), (l.pos.z + (l.dir.z * t876))⟩)

end ImathVerif.Gen
