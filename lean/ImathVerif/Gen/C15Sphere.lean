-- GENERATED from /repo/src/Imath by harness/sym (T = Sym path extraction); do not edit.
import ImathVerif.Basic.Types
import ImathVerif.Gen.Leaf
set_option linter.unusedVariables false
namespace ImathVerif.Gen
open ImathVerif

/-- extracted from the C++ template at T = Sym; 1 path(s) -/
def Sphere3.circumscribe {α : Type} [Add α] [Sub α] [Mul α] [Div α] [Neg α] [LT α] [LE α] [DecidableLT α] [DecidableLE α] [DecidableEq α] [OfNat α 0] [OfNat α 1] [OfNat α 2] (tmin : α) (tmax : α) (sqrt : α → α) (b : Box3 α) : (Sphere3 α) :=
  let t939 := (((1 : α) / (2 : α)) * (b.min.z + b.max.z))
  let t940 := (((1 : α) / (2 : α)) * (b.min.y + b.max.y))
  let t941 := (((1 : α) / (2 : α)) * (b.min.x + b.max.x))
  ⟨⟨t941, t940, t939⟩, (V3.length tmin tmax sqrt ⟨(b.max.x - t941), (b.max.y - t940), (b.max.z - t939)⟩)⟩

/-- extracted from the C++ template at T = Sym; 4 path(s) -/
def Sphere3.intersectT {α : Type} [Add α] [Sub α] [Mul α] [Div α] [Neg α] [LT α] [DecidableLT α] [OfNat α 0] [OfNat α 1] [OfNat α 2] [OfNat α 4] (sqrt : α → α) (s : Sphere3 α) (l : Line3 α) : (Bool × α) :=
  let t950 := (l.pos.z - s.center.z)
  let t951 := (l.pos.y - s.center.y)
  let t952 := (l.pos.x - s.center.x)
  let t958 := ((2 : α) * (((l.dir.x * t952) + (l.dir.y * t951)) + (l.dir.z * t950)))
  let t969 := ((t958 * t958) - ((4 : α) * ((((t952 * t952) + (t951 * t951)) + (t950 * t950)) - (s.radius * s.radius))))
  let t970 := (sqrt t969)
  let t971 := (-t958)
  let t973 := ((t971 - t970) * ((1 : α) / (2 : α)))
  let t975 := ((t971 + t970) * ((1 : α) / (2 : α)))
  if t969 < (0 : α) then
    (false, (0 : α))
  else
    if t973 < (0 : α) then
      if t975 < (0 : α) then
        (false, t975)
      else
        (true, t975)
    else
      (true, t973)

/-- extracted from the C++ template at T = Sym; 4 path(s) -/
def Sphere3.intersect {α : Type} [Add α] [Sub α] [Mul α] [Div α] [Neg α] [LT α] [DecidableLT α] [OfNat α 0] [OfNat α 1] [OfNat α 2] [OfNat α 4] (sqrt : α → α) (s : Sphere3 α) (l : Line3 α) : (Bool × (V3 α)) :=
  let t950 := (l.pos.z - s.center.z)
  let t951 := (l.pos.y - s.center.y)
  let t952 := (l.pos.x - s.center.x)
  let t958 := ((2 : α) * (((l.dir.x * t952) + (l.dir.y * t951)) + (l.dir.z * t950)))
  let t969 := ((t958 * t958) - ((4 : α) * ((((t952 * t952) + (t951 * t951)) + (t950 * t950)) - (s.radius * s.radius))))
  let t970 := (sqrt t969)
  let t971 := (-t958)
  let t973 := ((t971 - t970) * ((1 : α) / (2 : α)))
  let t975 := ((t971 + t970) * ((1 : α) / (2 : α)))
  if t969 < (0 : α) then
    (false, ⟨(0 : α), (0 : α), (0 : α)⟩)
  else
    if t973 < (0 : α) then
      if t975 < (0 : α) then
        (false, ⟨(0 : α), (0 : α), (0 : α)⟩)
      else
        (true, ⟨(l.pos.x + (l.dir.x * t975)), (l.pos.y + (l.dir.y * t975)), (l.pos.z + (l.dir.z * t975))⟩)
    else
      (true, ⟨(l.pos.x + (l.dir.x * t973)), (l.pos.y + (l.dir.y * t973)), (l.pos.z + (l.dir.z * t973))⟩)

end ImathVerif.Gen
