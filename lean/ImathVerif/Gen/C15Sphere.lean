-- GENERATED from /repo/src/Imath by harness/sym (T = Sym path extraction); do not edit.
import ImathVerif.Basic.Types
import ImathVerif.Gen.Leaf
set_option linter.unusedVariables false
namespace ImathVerif.Gen
open ImathVerif

/-- extracted from the C++ template at T = Sym; 1 path(s) -/
def Sphere3.circumscribe {α : Type} [Add α] [Sub α] [Mul α] [Div α] [Neg α] [LT α] [LE α] [DecidableLT α] [DecidableLE α] [DecidableEq α] [OfNat α 0] [OfNat α 1] [OfNat α 2] (tmin : α) (tmax : α) (sqrt : α → α) (b : Box3 α) : (Sphere3 α) :=
  let t859 := (((1 : α) / (2 : α)) * (b.min.z + b.max.z))
  let t860 := (((1 : α) / (2 : α)) * (b.min.y + b.max.y))
  let t861 := (((1 : α) / (2 : α)) * (b.min.x + b.max.x))
  ⟨⟨t861, t860, t859⟩, (V3.length tmin tmax sqrt ⟨(b.max.x - t861), (b.max.y - t860), (b.max.z - t859)⟩)⟩

/-- extracted from the C++ template at T = Sym; 4 path(s) -/
def Sphere3.intersectT {α : Type} [Add α] [Sub α] [Mul α] [Div α] [Neg α] [LT α] [DecidableLT α] [OfNat α 0] [OfNat α 1] [OfNat α 2] [OfNat α 4] (sqrt : α → α) (s : Sphere3 α) (l : Line3 α) : (Bool × α) :=
  let t870 := (l.pos.z - s.center.z)
  let t871 := (l.pos.y - s.center.y)
  let t872 := (l.pos.x - s.center.x)
  let t878 := ((2 : α) * (((l.dir.x * t872) + (l.dir.y * t871)) + (l.dir.z * t870)))
  let t889 := ((t878 * t878) - ((4 : α) * ((((t872 * t872) + (t871 * t871)) + (t870 * t870)) - (s.radius * s.radius))))
  let t890 := (sqrt t889)
  let t891 := (-t878)
  let t893 := ((t891 - t890) * ((1 : α) / (2 : α)))
  let t895 := ((t891 + t890) * ((1 : α) / (2 : α)))
  if t889 < (0 : α) then
    (false, (0 : α))
  else
    if t893 < (0 : α) then
      if t895 < (0 : α) then
        (false, t895)
      else
        (true, t895)
    else
      (true, t893)

/-- extracted from the C++ template at T = Sym; 4 path(s) -/
def Sphere3.intersect {α : Type} [Add α] [Sub α] [Mul α] [Div α] [Neg α] [LT α] [DecidableLT α] [OfNat α 0] [OfNat α 1] [OfNat α 2] [OfNat α 4] (sqrt : α → α) (s : Sphere3 α) (l : Line3 α) : (Bool × (V3 α)) :=
  let t870 := (l.pos.z - s.center.z)
  let t871 := (l.pos.y - s.center.y)
  let t872 := (l.pos.x - s.center.x)
  let t878 := ((2 : α) * (((l.dir.x * t872) + (l.dir.y * t871)) + (l.dir.z * t870)))
  let t889 := ((t878 * t878) - ((4 : α) * ((((t872 * t872) + (t871 * t871)) + (t870 * t870)) - (s.radius * s.radius))))
  let t890 := (sqrt t889)
  let t891 := (-t878)
  let t893 := ((t891 - t890) * ((1 : α) / (2 : α)))
  let t895 := ((t891 + t890) * ((1 : α) / (2 : α)))
  if t889 < (0 : α) then
    (false, ⟨(0 : α), (0 : α), (0 : α)⟩)
  else
    if t893 < (0 : α) then
      if t895 < (0 : α) then
        (false, ⟨(0 : α), (0 : α), (0 : α)⟩)
      else
        (true, ⟨(l.pos.x + (l.dir.x * t895)), (l.pos.y + (l.dir.y * t895)), (l.pos.z + (l.dir.z * t895))⟩)
    else
      (true, ⟨(l.pos.x + (l.dir.x * t893)), (l.pos.y + (l.dir.y * t893)), (l.pos.z + (l.dir.z * t893))⟩)

end ImathVerif.Gen
