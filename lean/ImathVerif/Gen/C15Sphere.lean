-- GENERATED from /repo/src/Imath by harness/sym (T = Sym path extraction); do not edit.
import ImathVerif.Basic.Types
import ImathVerif.Gen.Leaf
set_option linter.unusedVariables false
namespace ImathVerif.Gen
open ImathVerif

/-- extracted from the C++ template at T = Sym; 1 path(s) -/
def Sphere3.circumscribe {α : Type} [Add α] [Sub α] [Mul α] [Div α] [Neg α] [LT α] [LE α] [DecidableLT α] [DecidableLE α] [DecidableEq α] [OfNat α 0] [OfNat α 1] [OfNat α 2] (tmin : α) (sqrt : α → α) (b : Box3 α) : (Sphere3 α) :=
  let t841 := (((1 : α) / (2 : α)) * (b.min.z + b.max.z))
  let t842 := (((1 : α) / (2 : α)) * (b.min.y + b.max.y))
  let t843 := (((1 : α) / (2 : α)) * (b.min.x + b.max.x))
  ⟨⟨t843, t842, t841⟩, (V3.length tmin sqrt ⟨(b.max.x - t843), (b.max.y - t842), (b.max.z - t841)⟩)⟩

/-- extracted from the C++ template at T = Sym; 4 path(s) -/
def Sphere3.intersectT {α : Type} [Add α] [Sub α] [Mul α] [Div α] [Neg α] [LT α] [DecidableLT α] [OfNat α 0] [OfNat α 1] [OfNat α 2] [OfNat α 4] (sqrt : α → α) (s : Sphere3 α) (l : Line3 α) : (Bool × α) :=
  let t852 := (l.pos.z - s.center.z)
  let t853 := (l.pos.y - s.center.y)
  let t854 := (l.pos.x - s.center.x)
  let t860 := ((2 : α) * (((l.dir.x * t854) + (l.dir.y * t853)) + (l.dir.z * t852)))
  let t871 := ((t860 * t860) - ((4 : α) * ((((t854 * t854) + (t853 * t853)) + (t852 * t852)) - (s.radius * s.radius))))
  let t872 := (sqrt t871)
  let t873 := (-t860)
  let t875 := ((t873 - t872) * ((1 : α) / (2 : α)))
  let t877 := ((t873 + t872) * ((1 : α) / (2 : α)))
  if t871 < (0 : α) then
    (false, (0 : α))
  else
    if t875 < (0 : α) then
      if t877 < (0 : α) then
        (false, t877)
      else
        (true, t877)
    else
      (true, t875)

/-- extracted from the C++ template at T = Sym; 4 path(s) -/
def Sphere3.intersect {α : Type} [Add α] [Sub α] [Mul α] [Div α] [Neg α] [LT α] [DecidableLT α] [OfNat α 0] [OfNat α 1] [OfNat α 2] [OfNat α 4] (sqrt : α → α) (s : Sphere3 α) (l : Line3 α) : (Bool × (V3 α)) :=
  let t852 := (l.pos.z - s.center.z)
  let t853 := (l.pos.y - s.center.y)
  let t854 := (l.pos.x - s.center.x)
  let t860 := ((2 : α) * (((l.dir.x * t854) + (l.dir.y * t853)) + (l.dir.z * t852)))
  let t871 := ((t860 * t860) - ((4 : α) * ((((t854 * t854) + (t853 * t853)) + (t852 * t852)) - (s.radius * s.radius))))
  let t872 := (sqrt t871)
  let t873 := (-t860)
  let t875 := ((t873 - t872) * ((1 : α) / (2 : α)))
  let t877 := ((t873 + t872) * ((1 : α) / (2 : α)))
  if t871 < (0 : α) then
    (false, ⟨(0 : α), (0 : α), (0 : α)⟩)
  else
    if t875 < (0 : α) then
      if t877 < (0 : α) then
        (false, ⟨(0 : α), (0 : α), (0 : α)⟩)
      else
        (true, ⟨(l.pos.x + (l.dir.x * t877)), (l.pos.y + (l.dir.y * t877)), (l.pos.z + (l.dir.z * t877))⟩)
    else
      (true, ⟨(l.pos.x + (l.dir.x * t875)), (l.pos.y + (l.dir.y * t875)), (l.pos.z + (l.dir.z * t875))⟩)

end ImathVerif.Gen
