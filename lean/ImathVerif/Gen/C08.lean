-- GENERATED from /repo/src/Imath by harness/sym (T = Sym path extraction); do not edit.
import ImathVerif.Basic.Types
import ImathVerif.Gen.Leaf
set_option linter.unusedVariables false
namespace ImathVerif.Gen
open ImathVerif

/-- extracted from the C++ template at T = Sym; 1 path(s) -/
def C08.V2.dot {α : Type} [Add α] [Mul α] (a : V2 α) (b : V2 α) : α :=
  ((a.x * b.x) + (a.y * b.y))

/-- extracted from the C++ template at T = Sym; 1 path(s) -/
def C08.V2.length2 {α : Type} [Add α] [Mul α] (a : V2 α) : α :=
  ((a.x * a.x) + (a.y * a.y))

/-- extracted from the C++ template at T = Sym; 2 path(s) -/
def C08.V2.normalize {α : Type} [Add α] [Mul α] [Div α] [Neg α] [LT α] [DecidableLT α] [DecidableEq α] [OfNat α 0] [OfNat α 2] (tmin : α) (tmax : α) (sqrt : α → α) (a : V2 α) : (V2 α) :=
  let t11 := (V2.length tmin tmax sqrt ⟨a.x, a.y⟩)
  if t11 = (0 : α) then
    ⟨a.x, a.y⟩
  else
    ⟨(a.x / t11), (a.y / t11)⟩

/-- extracted from the C++ template at T = Sym; 2 path(s) -/
def C08.V2.normalizeExc {α : Type} [Add α] [Mul α] [Div α] [Neg α] [LT α] [DecidableLT α] [DecidableEq α] [OfNat α 0] [OfNat α 2] (tmin : α) (tmax : α) (sqrt : α → α) (a : V2 α) : Except Exc (V2 α) :=
  let t11 := (V2.length tmin tmax sqrt ⟨a.x, a.y⟩)
  if t11 = (0 : α) then
    .error Exc.domainError
  else
    .ok (⟨(a.x / t11), (a.y / t11)⟩)

/-- extracted from the C++ template at T = Sym; 1 path(s) -/
def C08.V2.normalizeNonNull {α : Type} [Add α] [Mul α] [Div α] [Neg α] [LT α] [DecidableLT α] [DecidableEq α] [OfNat α 0] [OfNat α 2] (tmin : α) (tmax : α) (sqrt : α → α) (a : V2 α) : (V2 α) :=
  let t11 := (V2.length tmin tmax sqrt ⟨a.x, a.y⟩)
  ⟨(a.x / t11), (a.y / t11)⟩

/-- extracted from the C++ template at T = Sym; 2 path(s) -/
def C08.V2.normalized {α : Type} [Add α] [Mul α] [Div α] [Neg α] [LT α] [DecidableLT α] [DecidableEq α] [OfNat α 0] [OfNat α 2] (tmin : α) (tmax : α) (sqrt : α → α) (a : V2 α) : (V2 α) :=
  let t11 := (V2.length tmin tmax sqrt ⟨a.x, a.y⟩)
  if t11 = (0 : α) then
    ⟨(0 : α), (0 : α)⟩
  else
    ⟨(a.x / t11), (a.y / t11)⟩

/-- extracted from the C++ template at T = Sym; 2 path(s) -/
def C08.V2.normalizedExc {α : Type} [Add α] [Mul α] [Div α] [Neg α] [LT α] [DecidableLT α] [DecidableEq α] [OfNat α 0] [OfNat α 2] (tmin : α) (tmax : α) (sqrt : α → α) (a : V2 α) : Except Exc (V2 α) :=
  let t11 := (V2.length tmin tmax sqrt ⟨a.x, a.y⟩)
  if t11 = (0 : α) then
    .error Exc.domainError
  else
    .ok (⟨(a.x / t11), (a.y / t11)⟩)

/-- extracted from the C++ template at T = Sym; 1 path(s) -/
def C08.V2.normalizedNonNull {α : Type} [Add α] [Mul α] [Div α] [Neg α] [LT α] [DecidableLT α] [DecidableEq α] [OfNat α 0] [OfNat α 2] (tmin : α) (tmax : α) (sqrt : α → α) (a : V2 α) : (V2 α) :=
  let t11 := (V2.length tmin tmax sqrt ⟨a.x, a.y⟩)
  ⟨(a.x / t11), (a.y / t11)⟩

/-- extracted from the C++ template at T = Sym; 1 path(s) -/
def C08.V3.dot {α : Type} [Add α] [Mul α] (a : V3 α) (b : V3 α) : α :=
  (((a.x * b.x) + (a.y * b.y)) + (a.z * b.z))

/-- extracted from the C++ template at T = Sym; 1 path(s) -/
def C08.V3.length2 {α : Type} [Add α] [Mul α] (a : V3 α) : α :=
  (((a.x * a.x) + (a.y * a.y)) + (a.z * a.z))

/-- extracted from the C++ template at T = Sym; 2 path(s) -/
def C08.V3.normalize {α : Type} [Add α] [Mul α] [Div α] [Neg α] [LT α] [LE α] [DecidableLT α] [DecidableLE α] [DecidableEq α] [OfNat α 0] [OfNat α 2] (tmin : α) (tmax : α) (sqrt : α → α) (a : V3 α) : (V3 α) :=
  let t20 := (V3.length tmin tmax sqrt ⟨a.x, a.y, a.z⟩)
  if t20 = (0 : α) then
    ⟨a.x, a.y, a.z⟩
  else
    ⟨(a.x / t20), (a.y / t20), (a.z / t20)⟩

/-- extracted from the C++ template at T = Sym; 2 path(s) -/
def C08.V3.normalizeExc {α : Type} [Add α] [Mul α] [Div α] [Neg α] [LT α] [LE α] [DecidableLT α] [DecidableLE α] [DecidableEq α] [OfNat α 0] [OfNat α 2] (tmin : α) (tmax : α) (sqrt : α → α) (a : V3 α) : Except Exc (V3 α) :=
  let t20 := (V3.length tmin tmax sqrt ⟨a.x, a.y, a.z⟩)
  if t20 = (0 : α) then
    .error Exc.domainError
  else
    .ok (⟨(a.x / t20), (a.y / t20), (a.z / t20)⟩)

/-- extracted from the C++ template at T = Sym; 1 path(s) -/
def C08.V3.normalizeNonNull {α : Type} [Add α] [Mul α] [Div α] [Neg α] [LT α] [LE α] [DecidableLT α] [DecidableLE α] [DecidableEq α] [OfNat α 0] [OfNat α 2] (tmin : α) (tmax : α) (sqrt : α → α) (a : V3 α) : (V3 α) :=
  let t20 := (V3.length tmin tmax sqrt ⟨a.x, a.y, a.z⟩)
  ⟨(a.x / t20), (a.y / t20), (a.z / t20)⟩

/-- extracted from the C++ template at T = Sym; 2 path(s) -/
def C08.V3.normalized {α : Type} [Add α] [Mul α] [Div α] [Neg α] [LT α] [LE α] [DecidableLT α] [DecidableLE α] [DecidableEq α] [OfNat α 0] [OfNat α 2] (tmin : α) (tmax : α) (sqrt : α → α) (a : V3 α) : (V3 α) :=
  let t20 := (V3.length tmin tmax sqrt ⟨a.x, a.y, a.z⟩)
  if t20 = (0 : α) then
    ⟨(0 : α), (0 : α), (0 : α)⟩
  else
    ⟨(a.x / t20), (a.y / t20), (a.z / t20)⟩

/-- extracted from the C++ template at T = Sym; 2 path(s) -/
def C08.V3.normalizedExc {α : Type} [Add α] [Mul α] [Div α] [Neg α] [LT α] [LE α] [DecidableLT α] [DecidableLE α] [DecidableEq α] [OfNat α 0] [OfNat α 2] (tmin : α) (tmax : α) (sqrt : α → α) (a : V3 α) : Except Exc (V3 α) :=
  let t20 := (V3.length tmin tmax sqrt ⟨a.x, a.y, a.z⟩)
  if t20 = (0 : α) then
    .error Exc.domainError
  else
    .ok (⟨(a.x / t20), (a.y / t20), (a.z / t20)⟩)

/-- extracted from the C++ template at T = Sym; 1 path(s) -/
def C08.V3.normalizedNonNull {α : Type} [Add α] [Mul α] [Div α] [Neg α] [LT α] [LE α] [DecidableLT α] [DecidableLE α] [DecidableEq α] [OfNat α 0] [OfNat α 2] (tmin : α) (tmax : α) (sqrt : α → α) (a : V3 α) : (V3 α) :=
  let t20 := (V3.length tmin tmax sqrt ⟨a.x, a.y, a.z⟩)
  ⟨(a.x / t20), (a.y / t20), (a.z / t20)⟩

/-- extracted from the C++ template at T = Sym; 1 path(s) -/
def C08.V4.dot {α : Type} [Add α] [Mul α] (a : V4 α) (b : V4 α) : α :=
  ((((a.x * b.x) + (a.y * b.y)) + (a.z * b.z)) + (a.w * b.w))

/-- extracted from the C++ template at T = Sym; 1 path(s) -/
def C08.V4.length2 {α : Type} [Add α] [Mul α] (a : V4 α) : α :=
  ((((a.x * a.x) + (a.y * a.y)) + (a.z * a.z)) + (a.w * a.w))

/-- extracted from the C++ template at T = Sym; 2 path(s) -/
def C08.V4.normalize {α : Type} [Add α] [Mul α] [Div α] [Neg α] [LT α] [LE α] [DecidableLT α] [DecidableLE α] [DecidableEq α] [OfNat α 0] [OfNat α 2] (tmin : α) (tmax : α) (sqrt : α → α) (a : V4 α) : (V4 α) :=
  let t30 := (V4.length tmin tmax sqrt ⟨a.x, a.y, a.z, a.w⟩)
  if t30 = (0 : α) then
    ⟨a.x, a.y, a.z, a.w⟩
  else
    ⟨(a.x / t30), (a.y / t30), (a.z / t30), (a.w / t30)⟩

/-- extracted from the C++ template at T = Sym; 2 path(s) -/
def C08.V4.normalizeExc {α : Type} [Add α] [Mul α] [Div α] [Neg α] [LT α] [LE α] [DecidableLT α] [DecidableLE α] [DecidableEq α] [OfNat α 0] [OfNat α 2] (tmin : α) (tmax : α) (sqrt : α → α) (a : V4 α) : Except Exc (V4 α) :=
  let t30 := (V4.length tmin tmax sqrt ⟨a.x, a.y, a.z, a.w⟩)
  if t30 = (0 : α) then
    .error Exc.domainError
  else
    .ok (⟨(a.x / t30), (a.y / t30), (a.z / t30), (a.w / t30)⟩)

/-- extracted from the C++ template at T = Sym; 1 path(s) -/
def C08.V4.normalizeNonNull {α : Type} [Add α] [Mul α] [Div α] [Neg α] [LT α] [LE α] [DecidableLT α] [DecidableLE α] [DecidableEq α] [OfNat α 0] [OfNat α 2] (tmin : α) (tmax : α) (sqrt : α → α) (a : V4 α) : (V4 α) :=
  let t30 := (V4.length tmin tmax sqrt ⟨a.x, a.y, a.z, a.w⟩)
  ⟨(a.x / t30), (a.y / t30), (a.z / t30), (a.w / t30)⟩

/-- extracted from the C++ template at T = Sym; 2 path(s) -/
def C08.V4.normalized {α : Type} [Add α] [Mul α] [Div α] [Neg α] [LT α] [LE α] [DecidableLT α] [DecidableLE α] [DecidableEq α] [OfNat α 0] [OfNat α 2] (tmin : α) (tmax : α) (sqrt : α → α) (a : V4 α) : (V4 α) :=
  let t30 := (V4.length tmin tmax sqrt ⟨a.x, a.y, a.z, a.w⟩)
  if t30 = (0 : α) then
    ⟨(0 : α), (0 : α), (0 : α), (0 : α)⟩
  else
    ⟨(a.x / t30), (a.y / t30), (a.z / t30), (a.w / t30)⟩

/-- extracted from the C++ template at T = Sym; 2 path(s) -/
def C08.V4.normalizedExc {α : Type} [Add α] [Mul α] [Div α] [Neg α] [LT α] [LE α] [DecidableLT α] [DecidableLE α] [DecidableEq α] [OfNat α 0] [OfNat α 2] (tmin : α) (tmax : α) (sqrt : α → α) (a : V4 α) : Except Exc (V4 α) :=
  let t30 := (V4.length tmin tmax sqrt ⟨a.x, a.y, a.z, a.w⟩)
  if t30 = (0 : α) then
    .error Exc.domainError
  else
    .ok (⟨(a.x / t30), (a.y / t30), (a.z / t30), (a.w / t30)⟩)

/-- extracted from the C++ template at T = Sym; 1 path(s) -/
def C08.V4.normalizedNonNull {α : Type} [Add α] [Mul α] [Div α] [Neg α] [LT α] [LE α] [DecidableLT α] [DecidableLE α] [DecidableEq α] [OfNat α 0] [OfNat α 2] (tmin : α) (tmax : α) (sqrt : α → α) (a : V4 α) : (V4 α) :=
  let t30 := (V4.length tmin tmax sqrt ⟨a.x, a.y, a.z, a.w⟩)
  ⟨(a.x / t30), (a.y / t30), (a.z / t30), (a.w / t30)⟩

end ImathVerif.Gen
