-- GENERATED from /repo/src/Imath by harness/sym (T = Sym path extraction); do not edit.
import ImathVerif.Basic.Types
import ImathVerif.Gen.Leaf
set_option linter.unusedVariables false
namespace ImathVerif.Gen
open ImathVerif

/-- extracted from the C++ template at T = Sym; 1 path(s) -/
def C08.V2.length2 {α : Type} [Add α] [Mul α] (a : V2 α) : α :=
  ((a.x * a.x) + (a.y * a.y))

/-- extracted from the C++ template at T = Sym; 2 path(s) -/
def C08.V2.normalize {α : Type} [Add α] [Mul α] [Div α] [Neg α] [LT α] [DecidableLT α] [DecidableEq α] [OfNat α 0] [OfNat α 2] (tmin : α) (sqrt : α → α) (a : V2 α) : (V2 α) :=
  let t6 := (V2.length tmin sqrt ⟨a.x, a.y⟩)
  if t6 = (0 : α) then
    ⟨a.x, a.y⟩
  else
    ⟨(a.x / t6), (a.y / t6)⟩

/-- extracted from the C++ template at T = Sym; 2 path(s) -/
def C08.V2.normalizeExc {α : Type} [Add α] [Mul α] [Div α] [Neg α] [LT α] [DecidableLT α] [DecidableEq α] [OfNat α 0] [OfNat α 2] (tmin : α) (sqrt : α → α) (a : V2 α) : Except Exc (V2 α) :=
  let t6 := (V2.length tmin sqrt ⟨a.x, a.y⟩)
  if t6 = (0 : α) then
    .error Exc.domainError
  else
    .ok (⟨(a.x / t6), (a.y / t6)⟩)

/-- extracted from the C++ template at T = Sym; 1 path(s) -/
def C08.V2.normalizeNonNull {α : Type} [Add α] [Mul α] [Div α] [Neg α] [LT α] [DecidableLT α] [DecidableEq α] [OfNat α 0] [OfNat α 2] (tmin : α) (sqrt : α → α) (a : V2 α) : (V2 α) :=
  let t6 := (V2.length tmin sqrt ⟨a.x, a.y⟩)
  ⟨(a.x / t6), (a.y / t6)⟩

/-- extracted from the C++ template at T = Sym; 2 path(s) -/
def C08.V2.normalized {α : Type} [Add α] [Mul α] [Div α] [Neg α] [LT α] [DecidableLT α] [DecidableEq α] [OfNat α 0] [OfNat α 2] (tmin : α) (sqrt : α → α) (a : V2 α) : (V2 α) :=
  let t6 := (V2.length tmin sqrt ⟨a.x, a.y⟩)
  if t6 = (0 : α) then
    ⟨(0 : α), (0 : α)⟩
  else
    ⟨(a.x / t6), (a.y / t6)⟩

/-- extracted from the C++ template at T = Sym; 2 path(s) -/
def C08.V2.normalizedExc {α : Type} [Add α] [Mul α] [Div α] [Neg α] [LT α] [DecidableLT α] [DecidableEq α] [OfNat α 0] [OfNat α 2] (tmin : α) (sqrt : α → α) (a : V2 α) : Except Exc (V2 α) :=
  let t6 := (V2.length tmin sqrt ⟨a.x, a.y⟩)
  if t6 = (0 : α) then
    .error Exc.domainError
  else
    .ok (⟨(a.x / t6), (a.y / t6)⟩)

/-- extracted from the C++ template at T = Sym; 1 path(s) -/
def C08.V2.normalizedNonNull {α : Type} [Add α] [Mul α] [Div α] [Neg α] [LT α] [DecidableLT α] [DecidableEq α] [OfNat α 0] [OfNat α 2] (tmin : α) (sqrt : α → α) (a : V2 α) : (V2 α) :=
  let t6 := (V2.length tmin sqrt ⟨a.x, a.y⟩)
  ⟨(a.x / t6), (a.y / t6)⟩

/-- extracted from the C++ template at T = Sym; 1 path(s) -/
def C08.V3.length2 {α : Type} [Add α] [Mul α] (a : V3 α) : α :=
  (((a.x * a.x) + (a.y * a.y)) + (a.z * a.z))

/-- extracted from the C++ template at T = Sym; 2 path(s) -/
def C08.V3.normalize {α : Type} [Add α] [Mul α] [Div α] [Neg α] [LT α] [LE α] [DecidableLT α] [DecidableLE α] [DecidableEq α] [OfNat α 0] [OfNat α 2] (tmin : α) (sqrt : α → α) (a : V3 α) : (V3 α) :=
  let t12 := (V3.length tmin sqrt ⟨a.x, a.y, a.z⟩)
  if t12 = (0 : α) then
    ⟨a.x, a.y, a.z⟩
  else
    ⟨(a.x / t12), (a.y / t12), (a.z / t12)⟩

/-- extracted from the C++ template at T = Sym; 2 path(s) -/
def C08.V3.normalizeExc {α : Type} [Add α] [Mul α] [Div α] [Neg α] [LT α] [LE α] [DecidableLT α] [DecidableLE α] [DecidableEq α] [OfNat α 0] [OfNat α 2] (tmin : α) (sqrt : α → α) (a : V3 α) : Except Exc (V3 α) :=
  let t12 := (V3.length tmin sqrt ⟨a.x, a.y, a.z⟩)
  if t12 = (0 : α) then
    .error Exc.domainError
  else
    .ok (⟨(a.x / t12), (a.y / t12), (a.z / t12)⟩)

/-- extracted from the C++ template at T = Sym; 1 path(s) -/
def C08.V3.normalizeNonNull {α : Type} [Add α] [Mul α] [Div α] [Neg α] [LT α] [LE α] [DecidableLT α] [DecidableLE α] [DecidableEq α] [OfNat α 0] [OfNat α 2] (tmin : α) (sqrt : α → α) (a : V3 α) : (V3 α) :=
  let t12 := (V3.length tmin sqrt ⟨a.x, a.y, a.z⟩)
  ⟨(a.x / t12), (a.y / t12), (a.z / t12)⟩

/-- extracted from the C++ template at T = Sym; 2 path(s) -/
def C08.V3.normalized {α : Type} [Add α] [Mul α] [Div α] [Neg α] [LT α] [LE α] [DecidableLT α] [DecidableLE α] [DecidableEq α] [OfNat α 0] [OfNat α 2] (tmin : α) (sqrt : α → α) (a : V3 α) : (V3 α) :=
  let t12 := (V3.length tmin sqrt ⟨a.x, a.y, a.z⟩)
  if t12 = (0 : α) then
    ⟨(0 : α), (0 : α), (0 : α)⟩
  else
    ⟨(a.x / t12), (a.y / t12), (a.z / t12)⟩

/-- extracted from the C++ template at T = Sym; 2 path(s) -/
def C08.V3.normalizedExc {α : Type} [Add α] [Mul α] [Div α] [Neg α] [LT α] [LE α] [DecidableLT α] [DecidableLE α] [DecidableEq α] [OfNat α 0] [OfNat α 2] (tmin : α) (sqrt : α → α) (a : V3 α) : Except Exc (V3 α) :=
  let t12 := (V3.length tmin sqrt ⟨a.x, a.y, a.z⟩)
  if t12 = (0 : α) then
    .error Exc.domainError
  else
    .ok (⟨(a.x / t12), (a.y / t12), (a.z / t12)⟩)

/-- extracted from the C++ template at T = Sym; 1 path(s) -/
def C08.V3.normalizedNonNull {α : Type} [Add α] [Mul α] [Div α] [Neg α] [LT α] [LE α] [DecidableLT α] [DecidableLE α] [DecidableEq α] [OfNat α 0] [OfNat α 2] (tmin : α) (sqrt : α → α) (a : V3 α) : (V3 α) :=
  let t12 := (V3.length tmin sqrt ⟨a.x, a.y, a.z⟩)
  ⟨(a.x / t12), (a.y / t12), (a.z / t12)⟩

/-- extracted from the C++ template at T = Sym; 1 path(s) -/
def C08.V4.length2 {α : Type} [Add α] [Mul α] (a : V4 α) : α :=
  ((((a.x * a.x) + (a.y * a.y)) + (a.z * a.z)) + (a.w * a.w))

/-- extracted from the C++ template at T = Sym; 2 path(s) -/
def C08.V4.normalize {α : Type} [Add α] [Mul α] [Div α] [Neg α] [LT α] [LE α] [DecidableLT α] [DecidableLE α] [DecidableEq α] [OfNat α 0] [OfNat α 2] (tmin : α) (sqrt : α → α) (a : V4 α) : (V4 α) :=
  let t19 := (V4.length tmin sqrt ⟨a.x, a.y, a.z, a.w⟩)
  if t19 = (0 : α) then
    ⟨a.x, a.y, a.z, a.w⟩
  else
    ⟨(a.x / t19), (a.y / t19), (a.z / t19), (a.w / t19)⟩

/-- extracted from the C++ template at T = Sym; 2 path(s) -/
def C08.V4.normalizeExc {α : Type} [Add α] [Mul α] [Div α] [Neg α] [LT α] [LE α] [DecidableLT α] [DecidableLE α] [DecidableEq α] [OfNat α 0] [OfNat α 2] (tmin : α) (sqrt : α → α) (a : V4 α) : Except Exc (V4 α) :=
  let t19 := (V4.length tmin sqrt ⟨a.x, a.y, a.z, a.w⟩)
  if t19 = (0 : α) then
    .error Exc.domainError
  else
    .ok (⟨(a.x / t19), (a.y / t19), (a.z / t19), (a.w / t19)⟩)

/-- extracted from the C++ template at T = Sym; 1 path(s) -/
def C08.V4.normalizeNonNull {α : Type} [Add α] [Mul α] [Div α] [Neg α] [LT α] [LE α] [DecidableLT α] [DecidableLE α] [DecidableEq α] [OfNat α 0] [OfNat α 2] (tmin : α) (sqrt : α → α) (a : V4 α) : (V4 α) :=
  let t19 := (V4.length tmin sqrt ⟨a.x, a.y, a.z, a.w⟩)
  ⟨(a.x / t19), (a.y / t19), (a.z / t19), (a.w / t19)⟩

/-- extracted from the C++ template at T = Sym; 2 path(s) -/
def C08.V4.normalized {α : Type} [Add α] [Mul α] [Div α] [Neg α] [LT α] [LE α] [DecidableLT α] [DecidableLE α] [DecidableEq α] [OfNat α 0] [OfNat α 2] (tmin : α) (sqrt : α → α) (a : V4 α) : (V4 α) :=
  let t19 := (V4.length tmin sqrt ⟨a.x, a.y, a.z, a.w⟩)
  if t19 = (0 : α) then
    ⟨(0 : α), (0 : α), (0 : α), (0 : α)⟩
  else
    ⟨(a.x / t19), (a.y / t19), (a.z / t19), (a.w / t19)⟩

/-- extracted from the C++ template at T = Sym; 2 path(s) -/
def C08.V4.normalizedExc {α : Type} [Add α] [Mul α] [Div α] [Neg α] [LT α] [LE α] [DecidableLT α] [DecidableLE α] [DecidableEq α] [OfNat α 0] [OfNat α 2] (tmin : α) (sqrt : α → α) (a : V4 α) : Except Exc (V4 α) :=
  let t19 := (V4.length tmin sqrt ⟨a.x, a.y, a.z, a.w⟩)
  if t19 = (0 : α) then
    .error Exc.domainError
  else
    .ok (⟨(a.x / t19), (a.y / t19), (a.z / t19), (a.w / t19)⟩)

/-- extracted from the C++ template at T = Sym; 1 path(s) -/
def C08.V4.normalizedNonNull {α : Type} [Add α] [Mul α] [Div α] [Neg α] [LT α] [LE α] [DecidableLT α] [DecidableLE α] [DecidableEq α] [OfNat α 0] [OfNat α 2] (tmin : α) (sqrt : α → α) (a : V4 α) : (V4 α) :=
  let t19 := (V4.length tmin sqrt ⟨a.x, a.y, a.z, a.w⟩)
  ⟨(a.x / t19), (a.y / t19), (a.z / t19), (a.w / t19)⟩

end ImathVerif.Gen
