-- GENERATED from /repo/src/Imath by harness/sym (T = Sym path extraction); do not edit.
import ImathVerif.Basic.Types
set_option linter.unusedVariables false
namespace ImathVerif.Gen
open ImathVerif

/-- extracted from the C++ template at T = Sym; 1 path(s) -/
def V2.add {α : Type} [Add α] (a : V2 α) (b : V2 α) : (V2 α) :=
  ⟨(a.x + b.x), (a.y + b.y)⟩

/-- extracted from the C++ template at T = Sym; 1 path(s) -/
def V2.addAssign {α : Type} [Add α] (a : V2 α) (b : V2 α) : (V2 α) :=
  ⟨(a.x + b.x), (a.y + b.y)⟩

/-- extracted from the C++ template at T = Sym; 1 path(s) -/
def V2.sub {α : Type} [Sub α] (a : V2 α) (b : V2 α) : (V2 α) :=
  ⟨(a.x - b.x), (a.y - b.y)⟩

/-- extracted from the C++ template at T = Sym; 1 path(s) -/
def V2.subAssign {α : Type} [Sub α] (a : V2 α) (b : V2 α) : (V2 α) :=
  ⟨(a.x - b.x), (a.y - b.y)⟩

/-- extracted from the C++ template at T = Sym; 1 path(s) -/
def V2.neg {α : Type} [Neg α] (a : V2 α) : (V2 α) :=
  ⟨(-a.x), (-a.y)⟩

/-- extracted from the C++ template at T = Sym; 1 path(s) -/
def V2.negate {α : Type} [Neg α] (a : V2 α) : (V2 α) :=
  ⟨(-a.x), (-a.y)⟩

/-- extracted from the C++ template at T = Sym; 1 path(s) -/
def V2.mul {α : Type} [Mul α] (a : V2 α) (b : V2 α) : (V2 α) :=
  ⟨(a.x * b.x), (a.y * b.y)⟩

/-- extracted from the C++ template at T = Sym; 1 path(s) -/
def V2.mulAssign {α : Type} [Mul α] (a : V2 α) (b : V2 α) : (V2 α) :=
  ⟨(a.x * b.x), (a.y * b.y)⟩

/-- extracted from the C++ template at T = Sym; 1 path(s) -/
def V2.div {α : Type} [Div α] (a : V2 α) (b : V2 α) : (V2 α) :=
  ⟨(a.x / b.x), (a.y / b.y)⟩

/-- extracted from the C++ template at T = Sym; 1 path(s) -/
def V2.divAssign {α : Type} [Div α] (a : V2 α) (b : V2 α) : (V2 α) :=
  ⟨(a.x / b.x), (a.y / b.y)⟩

/-- extracted from the C++ template at T = Sym; 1 path(s) -/
def V2.mulS {α : Type} [Mul α] (a : V2 α) (s : α) : (V2 α) :=
  ⟨(a.x * s), (a.y * s)⟩

/-- extracted from the C++ template at T = Sym; 1 path(s) -/
def V2.mulSAssign {α : Type} [Mul α] (a : V2 α) (s : α) : (V2 α) :=
  ⟨(a.x * s), (a.y * s)⟩

/-- extracted from the C++ template at T = Sym; 1 path(s) -/
def V2.smul {α : Type} [Mul α] (s : α) (a : V2 α) : (V2 α) :=
  ⟨(s * a.x), (s * a.y)⟩

/-- extracted from the C++ template at T = Sym; 1 path(s) -/
def V2.divS {α : Type} [Div α] (a : V2 α) (s : α) : (V2 α) :=
  ⟨(a.x / s), (a.y / s)⟩

/-- extracted from the C++ template at T = Sym; 1 path(s) -/
def V2.divSAssign {α : Type} [Div α] (a : V2 α) (s : α) : (V2 α) :=
  ⟨(a.x / s), (a.y / s)⟩

/-- extracted from the C++ template at T = Sym; 3 path(s) -/
def V2.eq {α : Type} [DecidableEq α] (a : V2 α) (b : V2 α) : Bool :=
  if a.x = b.x then
    if a.y = b.y then
      true
    else
      false
  else
    false

/-- extracted from the C++ template at T = Sym; 3 path(s) -/
def V2.ne {α : Type} [DecidableEq α] (a : V2 α) (b : V2 α) : Bool :=
  if a.x = b.x then
    if a.y = b.y then
      false
    else
      true
  else
    true

/-- extracted from the C++ template at T = Sym; 3 path(s) -/
def V2.equalWithAbsError {α : Type} [Sub α] [LT α] [LE α] [DecidableLT α] [DecidableLE α] (a : V2 α) (b : V2 α) (e : α) : Bool :=
  let t23 := (sabsdiff a.x b.x)
  let t24 := (sabsdiff a.y b.y)
  if t23 ≤ e then
    if t24 ≤ e then
      true
    else
      false
  else
    false

/-- extracted from the C++ template at T = Sym; 3 path(s) -/
def V2.equalWithRelError {α : Type} [Sub α] [Mul α] [Neg α] [LT α] [LE α] [DecidableLT α] [DecidableLE α] [OfNat α 0] (a : V2 α) (b : V2 α) (e : α) : Bool :=
  let t23 := (sabsdiff a.x b.x)
  let t24 := (sabsdiff a.y b.y)
  let t26 := (e * (sabs a.x))
  let t28 := (e * (sabs a.y))
  if t23 ≤ t26 then
    if t24 ≤ t28 then
      true
    else
      false
  else
    false

/-- extracted from the C++ template at T = Sym; 1 path(s) -/
def V2.indexAll {α : Type} (a : V2 α) : (V2 α) :=
  ⟨a.x, a.y⟩

/-- extracted from the C++ template at T = Sym; 1 path(s) -/
def V2.setIndexAll {α : Type} (a : V2 α) (b : V2 α) : (V2 α) :=
  ⟨b.x, b.y⟩

/-- extracted from the C++ template at T = Sym; 1 path(s) -/
def V2.getValuePtr {α : Type} (a : V2 α) : (V2 α) :=
  ⟨a.x, a.y⟩

/-- extracted from the C++ template at T = Sym; 1 path(s) -/
def V2.convertCtor {α : Type} (a : V2 α) : (V2 α) :=
  ⟨a.x, a.y⟩

/-- extracted from the C++ template at T = Sym; 1 path(s) -/
def V2.setValueV {α : Type} (a : V2 α) (b : V2 α) : (V2 α) :=
  ⟨b.x, b.y⟩

/-- extracted from the C++ template at T = Sym; 1 path(s) -/
def V2.getValueV {α : Type} (a : V2 α) : (V2 α) :=
  ⟨a.x, a.y⟩

/-- extracted from the C++ template at T = Sym; 1 path(s) -/
def V3.add {α : Type} [Add α] (a : V3 α) (b : V3 α) : (V3 α) :=
  ⟨(a.x + b.x), (a.y + b.y), (a.z + b.z)⟩

/-- extracted from the C++ template at T = Sym; 1 path(s) -/
def V3.addAssign {α : Type} [Add α] (a : V3 α) (b : V3 α) : (V3 α) :=
  ⟨(a.x + b.x), (a.y + b.y), (a.z + b.z)⟩

/-- extracted from the C++ template at T = Sym; 1 path(s) -/
def V3.sub {α : Type} [Sub α] (a : V3 α) (b : V3 α) : (V3 α) :=
  ⟨(a.x - b.x), (a.y - b.y), (a.z - b.z)⟩

/-- extracted from the C++ template at T = Sym; 1 path(s) -/
def V3.subAssign {α : Type} [Sub α] (a : V3 α) (b : V3 α) : (V3 α) :=
  ⟨(a.x - b.x), (a.y - b.y), (a.z - b.z)⟩

/-- extracted from the C++ template at T = Sym; 1 path(s) -/
def V3.neg {α : Type} [Neg α] (a : V3 α) : (V3 α) :=
  ⟨(-a.x), (-a.y), (-a.z)⟩

/-- extracted from the C++ template at T = Sym; 1 path(s) -/
def V3.negate {α : Type} [Neg α] (a : V3 α) : (V3 α) :=
  ⟨(-a.x), (-a.y), (-a.z)⟩

/-- extracted from the C++ template at T = Sym; 1 path(s) -/
def V3.mul {α : Type} [Mul α] (a : V3 α) (b : V3 α) : (V3 α) :=
  ⟨(a.x * b.x), (a.y * b.y), (a.z * b.z)⟩

/-- extracted from the C++ template at T = Sym; 1 path(s) -/
def V3.mulAssign {α : Type} [Mul α] (a : V3 α) (b : V3 α) : (V3 α) :=
  ⟨(a.x * b.x), (a.y * b.y), (a.z * b.z)⟩

/-- extracted from the C++ template at T = Sym; 1 path(s) -/
def V3.div {α : Type} [Div α] (a : V3 α) (b : V3 α) : (V3 α) :=
  ⟨(a.x / b.x), (a.y / b.y), (a.z / b.z)⟩

/-- extracted from the C++ template at T = Sym; 1 path(s) -/
def V3.divAssign {α : Type} [Div α] (a : V3 α) (b : V3 α) : (V3 α) :=
  ⟨(a.x / b.x), (a.y / b.y), (a.z / b.z)⟩

/-- extracted from the C++ template at T = Sym; 1 path(s) -/
def V3.mulS {α : Type} [Mul α] (a : V3 α) (s : α) : (V3 α) :=
  ⟨(a.x * s), (a.y * s), (a.z * s)⟩

/-- extracted from the C++ template at T = Sym; 1 path(s) -/
def V3.mulSAssign {α : Type} [Mul α] (a : V3 α) (s : α) : (V3 α) :=
  ⟨(a.x * s), (a.y * s), (a.z * s)⟩

/-- extracted from the C++ template at T = Sym; 1 path(s) -/
def V3.smul {α : Type} [Mul α] (s : α) (a : V3 α) : (V3 α) :=
  ⟨(s * a.x), (s * a.y), (s * a.z)⟩

/-- extracted from the C++ template at T = Sym; 1 path(s) -/
def V3.divS {α : Type} [Div α] (a : V3 α) (s : α) : (V3 α) :=
  ⟨(a.x / s), (a.y / s), (a.z / s)⟩

/-- extracted from the C++ template at T = Sym; 1 path(s) -/
def V3.divSAssign {α : Type} [Div α] (a : V3 α) (s : α) : (V3 α) :=
  ⟨(a.x / s), (a.y / s), (a.z / s)⟩

/-- extracted from the C++ template at T = Sym; 4 path(s) -/
def V3.eq {α : Type} [DecidableEq α] (a : V3 α) (b : V3 α) : Bool :=
  if a.x = b.x then
    if a.y = b.y then
      if a.z = b.z then
        true
      else
        false
    else
      false
  else
    false

/-- extracted from the C++ template at T = Sym; 4 path(s) -/
def V3.ne {α : Type} [DecidableEq α] (a : V3 α) (b : V3 α) : Bool :=
  if a.x = b.x then
    if a.y = b.y then
      if a.z = b.z then
        false
      else
        true
    else
      true
  else
    true

/-- extracted from the C++ template at T = Sym; 4 path(s) -/
def V3.equalWithAbsError {α : Type} [Sub α] [LT α] [LE α] [DecidableLT α] [DecidableLE α] (a : V3 α) (b : V3 α) (e : α) : Bool :=
  let t23 := (sabsdiff a.x b.x)
  let t24 := (sabsdiff a.y b.y)
  let t39 := (sabsdiff a.z b.z)
  if t23 ≤ e then
    if t24 ≤ e then
      if t39 ≤ e then
        true
      else
        false
    else
      false
  else
    false

/-- extracted from the C++ template at T = Sym; 4 path(s) -/
def V3.equalWithRelError {α : Type} [Sub α] [Mul α] [Neg α] [LT α] [LE α] [DecidableLT α] [DecidableLE α] [OfNat α 0] (a : V3 α) (b : V3 α) (e : α) : Bool :=
  let t23 := (sabsdiff a.x b.x)
  let t24 := (sabsdiff a.y b.y)
  let t26 := (e * (sabs a.x))
  let t28 := (e * (sabs a.y))
  let t39 := (sabsdiff a.z b.z)
  let t41 := (e * (sabs a.z))
  if t23 ≤ t26 then
    if t24 ≤ t28 then
      if t39 ≤ t41 then
        true
      else
        false
    else
      false
  else
    false

/-- extracted from the C++ template at T = Sym; 1 path(s) -/
def V3.indexAll {α : Type} (a : V3 α) : (V3 α) :=
  ⟨a.x, a.y, a.z⟩

/-- extracted from the C++ template at T = Sym; 1 path(s) -/
def V3.setIndexAll {α : Type} (a : V3 α) (b : V3 α) : (V3 α) :=
  ⟨b.x, b.y, b.z⟩

/-- extracted from the C++ template at T = Sym; 1 path(s) -/
def V3.getValuePtr {α : Type} (a : V3 α) : (V3 α) :=
  ⟨a.x, a.y, a.z⟩

/-- extracted from the C++ template at T = Sym; 1 path(s) -/
def V3.convertCtor {α : Type} (a : V3 α) : (V3 α) :=
  ⟨a.x, a.y, a.z⟩

/-- extracted from the C++ template at T = Sym; 1 path(s) -/
def V3.setValueV {α : Type} (a : V3 α) (b : V3 α) : (V3 α) :=
  ⟨b.x, b.y, b.z⟩

/-- extracted from the C++ template at T = Sym; 1 path(s) -/
def V3.getValueV {α : Type} (a : V3 α) : (V3 α) :=
  ⟨a.x, a.y, a.z⟩

/-- extracted from the C++ template at T = Sym; 1 path(s) -/
def V4.add {α : Type} [Add α] (a : V4 α) (b : V4 α) : (V4 α) :=
  ⟨(a.x + b.x), (a.y + b.y), (a.z + b.z), (a.w + b.w)⟩

/-- extracted from the C++ template at T = Sym; 1 path(s) -/
def V4.addAssign {α : Type} [Add α] (a : V4 α) (b : V4 α) : (V4 α) :=
  ⟨(a.x + b.x), (a.y + b.y), (a.z + b.z), (a.w + b.w)⟩

/-- extracted from the C++ template at T = Sym; 1 path(s) -/
def V4.sub {α : Type} [Sub α] (a : V4 α) (b : V4 α) : (V4 α) :=
  ⟨(a.x - b.x), (a.y - b.y), (a.z - b.z), (a.w - b.w)⟩

/-- extracted from the C++ template at T = Sym; 1 path(s) -/
def V4.subAssign {α : Type} [Sub α] (a : V4 α) (b : V4 α) : (V4 α) :=
  ⟨(a.x - b.x), (a.y - b.y), (a.z - b.z), (a.w - b.w)⟩

/-- extracted from the C++ template at T = Sym; 1 path(s) -/
def V4.neg {α : Type} [Neg α] (a : V4 α) : (V4 α) :=
  ⟨(-a.x), (-a.y), (-a.z), (-a.w)⟩

/-- extracted from the C++ template at T = Sym; 1 path(s) -/
def V4.negate {α : Type} [Neg α] (a : V4 α) : (V4 α) :=
  ⟨(-a.x), (-a.y), (-a.z), (-a.w)⟩

/-- extracted from the C++ template at T = Sym; 1 path(s) -/
def V4.mul {α : Type} [Mul α] (a : V4 α) (b : V4 α) : (V4 α) :=
  ⟨(a.x * b.x), (a.y * b.y), (a.z * b.z), (a.w * b.w)⟩

/-- extracted from the C++ template at T = Sym; 1 path(s) -/
def V4.mulAssign {α : Type} [Mul α] (a : V4 α) (b : V4 α) : (V4 α) :=
  ⟨(a.x * b.x), (a.y * b.y), (a.z * b.z), (a.w * b.w)⟩

/-- extracted from the C++ template at T = Sym; 1 path(s) -/
def V4.div {α : Type} [Div α] (a : V4 α) (b : V4 α) : (V4 α) :=
  ⟨(a.x / b.x), (a.y / b.y), (a.z / b.z), (a.w / b.w)⟩

/-- extracted from the C++ template at T = Sym; 1 path(s) -/
def V4.divAssign {α : Type} [Div α] (a : V4 α) (b : V4 α) : (V4 α) :=
  ⟨(a.x / b.x), (a.y / b.y), (a.z / b.z), (a.w / b.w)⟩

/-- extracted from the C++ template at T = Sym; 1 path(s) -/
def V4.mulS {α : Type} [Mul α] (a : V4 α) (s : α) : (V4 α) :=
  ⟨(a.x * s), (a.y * s), (a.z * s), (a.w * s)⟩

/-- extracted from the C++ template at T = Sym; 1 path(s) -/
def V4.mulSAssign {α : Type} [Mul α] (a : V4 α) (s : α) : (V4 α) :=
  ⟨(a.x * s), (a.y * s), (a.z * s), (a.w * s)⟩

/-- extracted from the C++ template at T = Sym; 1 path(s) -/
def V4.smul {α : Type} [Mul α] (s : α) (a : V4 α) : (V4 α) :=
  ⟨(s * a.x), (s * a.y), (s * a.z), (s * a.w)⟩

/-- extracted from the C++ template at T = Sym; 1 path(s) -/
def V4.divS {α : Type} [Div α] (a : V4 α) (s : α) : (V4 α) :=
  ⟨(a.x / s), (a.y / s), (a.z / s), (a.w / s)⟩

/-- extracted from the C++ template at T = Sym; 1 path(s) -/
def V4.divSAssign {α : Type} [Div α] (a : V4 α) (s : α) : (V4 α) :=
  ⟨(a.x / s), (a.y / s), (a.z / s), (a.w / s)⟩

/-- extracted from the C++ template at T = Sym; 5 path(s) -/
def V4.eq {α : Type} [DecidableEq α] (a : V4 α) (b : V4 α) : Bool :=
  if a.x = b.x then
    if a.y = b.y then
      if a.z = b.z then
        if a.w = b.w then
          true
        else
          false
      else
        false
    else
      false
  else
    false

/-- extracted from the C++ template at T = Sym; 5 path(s) -/
def V4.ne {α : Type} [DecidableEq α] (a : V4 α) (b : V4 α) : Bool :=
  if a.x = b.x then
    if a.y = b.y then
      if a.z = b.z then
        if a.w = b.w then
          false
        else
          true
      else
        true
    else
      true
  else
    true

/-- extracted from the C++ template at T = Sym; 5 path(s) -/
def V4.equalWithAbsError {α : Type} [Sub α] [LT α] [LE α] [DecidableLT α] [DecidableLE α] (a : V4 α) (b : V4 α) (e : α) : Bool :=
  let t23 := (sabsdiff a.x b.x)
  let t24 := (sabsdiff a.y b.y)
  let t39 := (sabsdiff a.z b.z)
  let t52 := (sabsdiff a.w b.w)
  if t23 ≤ e then
    if t24 ≤ e then
      if t39 ≤ e then
        if t52 ≤ e then
          true
        else
          false
      else
        false
    else
      false
  else
    false

/-- extracted from the C++ template at T = Sym; 5 path(s) -/
def V4.equalWithRelError {α : Type} [Sub α] [Mul α] [Neg α] [LT α] [LE α] [DecidableLT α] [DecidableLE α] [OfNat α 0] (a : V4 α) (b : V4 α) (e : α) : Bool :=
  let t23 := (sabsdiff a.x b.x)
  let t24 := (sabsdiff a.y b.y)
  let t26 := (e * (sabs a.x))
  let t28 := (e * (sabs a.y))
  let t39 := (sabsdiff a.z b.z)
  let t41 := (e * (sabs a.z))
  let t52 := (sabsdiff a.w b.w)
  let t54 := (e * (sabs a.w))
  if t23 ≤ t26 then
    if t24 ≤ t28 then
      if t39 ≤ t41 then
        if t52 ≤ t54 then
          true
        else
          false
      else
        false
    else
      false
  else
    false

/-- extracted from the C++ template at T = Sym; 1 path(s) -/
def V4.indexAll {α : Type} (a : V4 α) : (V4 α) :=
  ⟨a.x, a.y, a.z, a.w⟩

/-- extracted from the C++ template at T = Sym; 1 path(s) -/
def V4.setIndexAll {α : Type} (a : V4 α) (b : V4 α) : (V4 α) :=
  ⟨b.x, b.y, b.z, b.w⟩

/-- extracted from the C++ template at T = Sym; 1 path(s) -/
def V4.getValuePtr {α : Type} (a : V4 α) : (V4 α) :=
  ⟨a.x, a.y, a.z, a.w⟩

/-- extracted from the C++ template at T = Sym; 1 path(s) -/
def V4.convertCtor {α : Type} (a : V4 α) : (V4 α) :=
  ⟨a.x, a.y, a.z, a.w⟩

/-- extracted from the C++ template at T = Sym; 1 path(s) -/
def V4.setValueV {α : Type} (a : V4 α) (b : V4 α) : (V4 α) :=
  ⟨b.x, b.y, b.z, b.w⟩

/-- extracted from the C++ template at T = Sym; 1 path(s) -/
def V4.getValueV {α : Type} (a : V4 α) : (V4 α) :=
  ⟨a.x, a.y, a.z, a.w⟩

/-- extracted from the C++ template at T = Sym; 1 path(s) -/
def V2.setValueS {α : Type} (a : V2 α) (b : V2 α) : (V2 α) :=
  ⟨b.x, b.y⟩

/-- extracted from the C++ template at T = Sym; 1 path(s) -/
def V3.setValueS {α : Type} (a : V3 α) (b : V3 α) : (V3 α) :=
  ⟨b.x, b.y, b.z⟩

/-- extracted from the C++ template at T = Sym; 1 path(s) -/
def V4.setValueS {α : Type} (a : V4 α) (b : V4 α) : (V4 α) :=
  ⟨b.x, b.y, b.z, b.w⟩

/-- extracted from the C++ template at T = Sym; 1 path(s) -/
def V2.getValueS {α : Type} (a : V2 α) : (V2 α) :=
  ⟨a.x, a.y⟩

/-- extracted from the C++ template at T = Sym; 1 path(s) -/
def V3.getValueS {α : Type} (a : V3 α) : (V3 α) :=
  ⟨a.x, a.y, a.z⟩

/-- extracted from the C++ template at T = Sym; 1 path(s) -/
def V4.getValueS {α : Type} (a : V4 α) : (V4 α) :=
  ⟨a.x, a.y, a.z, a.w⟩

/-- extracted from the C++ template at T = Sym; 1 path(s) -/
def V2.ctorScalar {α : Type} (s : α) : (V2 α) :=
  ⟨s, s⟩

/-- extracted from the C++ template at T = Sym; 1 path(s) -/
def V3.ctorScalar {α : Type} (s : α) : (V3 α) :=
  ⟨s, s, s⟩

/-- extracted from the C++ template at T = Sym; 1 path(s) -/
def V4.ctorScalar {α : Type} (s : α) : (V4 α) :=
  ⟨s, s, s, s⟩

/-- extracted from the C++ template at T = Sym; 1 path(s) -/
def V4.fromV3 {α : Type} [OfNat α 1] (a : V3 α) : (V4 α) :=
  ⟨a.x, a.y, a.z, (1 : α)⟩

/-- extracted from the C++ template at T = Sym; 1 path(s) -/
def V2.interopXY {α : Type} (a : V2 α) : ((V2 α) × (V2 α)) :=
  (⟨a.x, a.y⟩, ⟨a.x, a.y⟩)

/-- extracted from the C++ template at T = Sym; 1 path(s) -/
def V3.interopXYZ {α : Type} (a : V3 α) : ((V3 α) × (V3 α)) :=
  (⟨a.x, a.y, a.z⟩, ⟨a.x, a.y, a.z⟩)

/-- extracted from the C++ template at T = Sym; 1 path(s) -/
def V4.interopXYZW {α : Type} (a : V4 α) : ((V4 α) × (V4 α)) :=
  (⟨a.x, a.y, a.z, a.w⟩, ⟨a.x, a.y, a.z, a.w⟩)

/-- extracted from the C++ template at T = Sym; 1 path(s) -/
def V2.interopSub {α : Type} (a : V2 α) : ((V2 α) × (V2 α)) :=
  (⟨a.x, a.y⟩, ⟨a.x, a.y⟩)

/-- extracted from the C++ template at T = Sym; 1 path(s) -/
def V3.interopSub {α : Type} (a : V3 α) : ((V3 α) × (V3 α)) :=
  (⟨a.x, a.y, a.z⟩, ⟨a.x, a.y, a.z⟩)

/-- extracted from the C++ template at T = Sym; 1 path(s) -/
def V4.interopSub {α : Type} (a : V4 α) : ((V4 α) × (V4 α)) :=
  (⟨a.x, a.y, a.z, a.w⟩, ⟨a.x, a.y, a.z, a.w⟩)

/-- extracted from the C++ template at T = Sym; 1 path(s) -/
def V2.narrowCtor {α : Type} {β : Type} (cast : β → α) (a : V2 β) : (V2 α) :=
  ⟨(cast a.x), (cast a.y)⟩

/-- extracted from the C++ template at T = Sym; 1 path(s) -/
def V2.narrowSetValueV {α : Type} {β : Type} (cast : β → α) (a : V2 α) (b : V2 β) : (V2 α) :=
  ⟨(cast b.x), (cast b.y)⟩

/-- extracted from the C++ template at T = Sym; 1 path(s) -/
def V2.narrowGetValueV {α : Type} {β : Type} (cast : β → α) (a : V2 β) (b : V2 α) : (V2 α) :=
  ⟨(cast a.x), (cast a.y)⟩

/-- extracted from the C++ template at T = Sym; 1 path(s) -/
def V3.narrowCtor {α : Type} {β : Type} (cast : β → α) (a : V3 β) : (V3 α) :=
  ⟨(cast a.x), (cast a.y), (cast a.z)⟩

/-- extracted from the C++ template at T = Sym; 1 path(s) -/
def V3.narrowSetValueV {α : Type} {β : Type} (cast : β → α) (a : V3 α) (b : V3 β) : (V3 α) :=
  ⟨(cast b.x), (cast b.y), (cast b.z)⟩

/-- extracted from the C++ template at T = Sym; 1 path(s) -/
def V3.narrowGetValueV {α : Type} {β : Type} (cast : β → α) (a : V3 β) (b : V3 α) : (V3 α) :=
  ⟨(cast a.x), (cast a.y), (cast a.z)⟩

/-- extracted from the C++ template at T = Sym; 1 path(s) -/
def V4.narrowCtor {α : Type} {β : Type} (cast : β → α) (a : V4 β) : (V4 α) :=
  ⟨(cast a.x), (cast a.y), (cast a.z), (cast a.w)⟩

/-- extracted from the C++ template at T = Sym; 1 path(s) -/
def V4.narrowSetValueV {α : Type} {β : Type} (cast : β → α) (a : V4 α) (b : V4 β) : (V4 α) :=
  ⟨(cast b.x), (cast b.y), (cast b.z), (cast b.w)⟩

/-- extracted from the C++ template at T = Sym; 1 path(s) -/
def V4.narrowGetValueV {α : Type} {β : Type} (cast : β → α) (a : V4 β) (b : V4 α) : (V4 α) :=
  ⟨(cast a.x), (cast a.y), (cast a.z), (cast a.w)⟩

/-- extracted from the C++ template at T = Sym; 1 path(s) -/
def V2.narrowSetValueS {α : Type} {β : Type} (cast : β → α) (a : V2 α) (b : V2 β) : (V2 α) :=
  ⟨(cast b.x), (cast b.y)⟩

/-- extracted from the C++ template at T = Sym; 1 path(s) -/
def V3.narrowSetValueS {α : Type} {β : Type} (cast : β → α) (a : V3 α) (b : V3 β) : (V3 α) :=
  ⟨(cast b.x), (cast b.y), (cast b.z)⟩

/-- extracted from the C++ template at T = Sym; 1 path(s) -/
def V4.narrowSetValueS {α : Type} {β : Type} (cast : β → α) (a : V4 α) (b : V4 β) : (V4 α) :=
  ⟨(cast b.x), (cast b.y), (cast b.z), (cast b.w)⟩

/-- extracted from the C++ template at T = Sym; 1 path(s) -/
def V2.narrowGetValueS {α : Type} {β : Type} (cast : β → α) (a : V2 β) (b : V2 α) : (V2 α) :=
  ⟨(cast a.x), (cast a.y)⟩

/-- extracted from the C++ template at T = Sym; 1 path(s) -/
def V3.narrowGetValueS {α : Type} {β : Type} (cast : β → α) (a : V3 β) (b : V3 α) : (V3 α) :=
  ⟨(cast a.x), (cast a.y), (cast a.z)⟩

/-- extracted from the C++ template at T = Sym; 1 path(s) -/
def V4.narrowGetValueS {α : Type} {β : Type} (cast : β → α) (a : V4 β) (b : V4 α) : (V4 α) :=
  ⟨(cast a.x), (cast a.y), (cast a.z), (cast a.w)⟩

/-- extracted from the C++ template at T = Sym; 1 path(s) -/
def V4.narrowFromV3 {α : Type} {β : Type} [OfNat α 1] (cast : β → α) (a : V3 β) : (V4 α) :=
  ⟨(cast a.x), (cast a.y), (cast a.z), (1 : α)⟩

/-- extracted from the C++ template at T = Sym; 1 path(s) -/
def V2.interopArr {α : Type} (a : V2 α) : ((V2 α) × (V2 α)) :=
  (⟨a.x, a.y⟩, ⟨a.x, a.y⟩)

/-- extracted from the C++ template at T = Sym; 1 path(s) -/
def V3.interopArr {α : Type} (a : V3 α) : ((V3 α) × (V3 α)) :=
  (⟨a.x, a.y, a.z⟩, ⟨a.x, a.y, a.z⟩)

/-- extracted from the C++ template at T = Sym; 1 path(s) -/
def V4.interopArr {α : Type} (a : V4 α) : ((V4 α) × (V4 α)) :=
  (⟨a.x, a.y, a.z, a.w⟩, ⟨a.x, a.y, a.z, a.w⟩)

/-- extracted from the C++ template at T = Sym; 1 path(s) -/
def V2.assign {α : Type} (a : V2 α) (b : V2 α) : (V2 α) :=
  ⟨b.x, b.y⟩

/-- extracted from the C++ template at T = Sym; 1 path(s) -/
def V2.copyCtor {α : Type} (a : V2 α) : (V2 α) :=
  ⟨a.x, a.y⟩

/-- extracted from the C++ template at T = Sym; 1 path(s) -/
def V3.assign {α : Type} (a : V3 α) (b : V3 α) : (V3 α) :=
  ⟨b.x, b.y, b.z⟩

/-- extracted from the C++ template at T = Sym; 1 path(s) -/
def V3.copyCtor {α : Type} (a : V3 α) : (V3 α) :=
  ⟨a.x, a.y, a.z⟩

/-- extracted from the C++ template at T = Sym; 1 path(s) -/
def V4.assign {α : Type} (a : V4 α) (b : V4 α) : (V4 α) :=
  ⟨b.x, b.y, b.z, b.w⟩

/-- extracted from the C++ template at T = Sym; 1 path(s) -/
def V4.copyCtor {α : Type} (a : V4 α) : (V4 α) :=
  ⟨a.x, a.y, a.z, a.w⟩

/-- extracted from the C++ template at T = Sym; 1 path(s) -/
def V2.ctorElems {α : Type} (a : V2 α) : (V2 α) :=
  ⟨a.x, a.y⟩

/-- extracted from the C++ template at T = Sym; 1 path(s) -/
def V3.ctorElems {α : Type} (a : V3 α) : (V3 α) :=
  ⟨a.x, a.y, a.z⟩

/-- extracted from the C++ template at T = Sym; 1 path(s) -/
def V4.ctorElems {α : Type} (a : V4 α) : (V4 α) :=
  ⟨a.x, a.y, a.z, a.w⟩

end ImathVerif.Gen
