-- GENERATED from /repo/src/Imath by harness/sym (T = Sym path extraction); do not edit.
import ImathVerif.Basic.Types
import ImathVerif.Gen.Leaf
set_option linter.unusedVariables false
namespace ImathVerif.Gen
open ImathVerif

/-- extracted from the C++ template at T = Sym; 2 path(s) -/
def Line3.set {α : Type} [Add α] [Sub α] [Mul α] [Div α] [Neg α] [LT α] [LE α] [DecidableLT α] [DecidableLE α] [DecidableEq α] [OfNat α 0] [OfNat α 2] (tmin : α) (tmax : α) (sqrt : α → α) (p0 : V3 α) (p1 : V3 α) : (Line3 α) :=
  let t7 := (p1.z - p0.z)
  let t8 := (p1.y - p0.y)
  let t9 := (p1.x - p0.x)
  let t10 := (V3.length tmin tmax sqrt ⟨t9, t8, t7⟩)
  if t10 = (0 : α) then
    ⟨⟨p0.x, p0.y, p0.z⟩, ⟨t9, t8, t7⟩⟩
  else
    ⟨⟨p0.x, p0.y, p0.z⟩, ⟨(t9 / t10), (t8 / t10), (t7 / t10)⟩⟩

/-- extracted from the C++ template at T = Sym; 2 path(s) -/
def Line3.ctor {α : Type} [Add α] [Sub α] [Mul α] [Div α] [Neg α] [LT α] [LE α] [DecidableLT α] [DecidableLE α] [DecidableEq α] [OfNat α 0] [OfNat α 2] (tmin : α) (tmax : α) (sqrt : α → α) (p0 : V3 α) (p1 : V3 α) : (Line3 α) :=
  let t7 := (p1.z - p0.z)
  let t8 := (p1.y - p0.y)
  let t9 := (p1.x - p0.x)
  let t10 := (V3.length tmin tmax sqrt ⟨t9, t8, t7⟩)
  if t10 = (0 : α) then
    ⟨⟨p0.x, p0.y, p0.z⟩, ⟨t9, t8, t7⟩⟩
  else
    ⟨⟨p0.x, p0.y, p0.z⟩, ⟨(t9 / t10), (t8 / t10), (t7 / t10)⟩⟩

/-- extracted from the C++ template at T = Sym; 1 path(s) -/
def Line3.eval {α : Type} [Add α] [Mul α] (l : Line3 α) (t : α) : (V3 α) :=
  ⟨(l.pos.x + (l.dir.x * t)), (l.pos.y + (l.dir.y * t)), (l.pos.z + (l.dir.z * t))⟩

/-- extracted from the C++ template at T = Sym; 1 path(s) -/
def Line3.closestPointToPoint {α : Type} [Add α] [Sub α] [Mul α] (l : Line3 α) (p : V3 α) : (V3 α) :=
  let t37 := ((((p.x - l.pos.x) * l.dir.x) + ((p.y - l.pos.y) * l.dir.y)) + ((p.z - l.pos.z) * l.dir.z))
  ⟨((t37 * l.dir.x) + l.pos.x), ((t37 * l.dir.y) + l.pos.y), ((t37 * l.dir.z) + l.pos.z)⟩

/-- extracted from the C++ template at T = Sym; 10 path(s) -/
def Line3.closestPointToLine {α : Type} [Add α] [Sub α] [Mul α] [Div α] [Neg α] [LT α] [LE α] [DecidableLT α] [DecidableLE α] [OfNat α 0] [OfNat α 1] (tmax : α) (l1 : Line3 α) (l2 : Line3 α) : (V3 α) :=
  let t56 := (l1.pos.z - l2.pos.z)
  let t57 := (l1.pos.y - l2.pos.y)
  let t58 := (l1.pos.x - l2.pos.x)
  let t68 := (((l2.dir.x * l1.dir.x) + (l2.dir.y * l1.dir.y)) + (l2.dir.z * l1.dir.z))
  let t75 := ((((l1.dir.x * t58) + (l1.dir.y * t57)) + (l1.dir.z * t56)) - (t68 * (((l2.dir.x * t58) + (l2.dir.y * t57)) + (l2.dir.z * t56))))
  let t78 := ((t68 * t68) - (1 : α))
  let t80 := (t78 * tmax)
  let t81 := (t75 / t78)
  let t85 := (l1.pos.z + (l1.dir.z * t81))
  let t86 := (l1.pos.y + (l1.dir.y * t81))
  let t87 := (l1.pos.x + (l1.dir.x * t81))
  let t88 := (-t75)
  let t89 := (-t78)
  let t90 := (t89 * tmax)
  if (0 : α) ≤ t78 then
    if t78 < (1 : α) then
      if (0 : α) ≤ t75 then
        if t80 ≤ t75 then
          ⟨l1.pos.x, l1.pos.y, l1.pos.z⟩
        else
          ⟨t87, t86, t85⟩
      else
        if t80 ≤ t88 then
          ⟨l1.pos.x, l1.pos.y, l1.pos.z⟩
        else
          ⟨t87, t86, t85⟩
    else
      ⟨t87, t86, t85⟩
  else
    if t89 < (1 : α) then
      if (0 : α) ≤ t75 then
        if t90 ≤ t75 then
          ⟨l1.pos.x, l1.pos.y, l1.pos.z⟩
        else
          ⟨t87, t86, t85⟩
      else
        if t90 ≤ t88 then
          ⟨l1.pos.x, l1.pos.y, l1.pos.z⟩
        else
          ⟨t87, t86, t85⟩
    else
      ⟨t87, t86, t85⟩

/-- extracted from the C++ template at T = Sym; 1 path(s) -/
def Line3.distanceToPoint {α : Type} [Add α] [Sub α] [Mul α] [Div α] [Neg α] [LT α] [LE α] [DecidableLT α] [DecidableLE α] [DecidableEq α] [OfNat α 0] [OfNat α 2] (tmin : α) (tmax : α) (sqrt : α → α) (l : Line3 α) (p : V3 α) : α :=
  let t37 := ((((p.x - l.pos.x) * l.dir.x) + ((p.y - l.pos.y) * l.dir.y)) + ((p.z - l.pos.z) * l.dir.z))
  (V3.length tmin tmax sqrt ⟨(((t37 * l.dir.x) + l.pos.x) - p.x), (((t37 * l.dir.y) + l.pos.y) - p.y), (((t37 * l.dir.z) + l.pos.z) - p.z)⟩)

/-- extracted from the C++ template at T = Sym; 3 path(s) -/
def Line3.distanceToLine {α : Type} [Add α] [Sub α] [Mul α] [Div α] [Neg α] [LT α] [LE α] [DecidableLT α] [DecidableLE α] [DecidableEq α] [OfNat α 0] [OfNat α 2] (tmin : α) (tmax : α) (sqrt : α → α) (l1 : Line3 α) (l2 : Line3 α) : α :=
  let t97 := ((l1.dir.x * l2.dir.y) - (l1.dir.y * l2.dir.x))
  let t100 := ((l1.dir.z * l2.dir.x) - (l1.dir.x * l2.dir.z))
  let t103 := ((l1.dir.y * l2.dir.z) - (l1.dir.z * l2.dir.y))
  let t104 := (V3.length tmin tmax sqrt ⟨t103, t100, t97⟩)
  let t105 := (l2.pos.z - l1.pos.z)
  let t106 := (l2.pos.y - l1.pos.y)
  let t107 := (l2.pos.x - l1.pos.x)
  let t112 := (((t107 * l1.dir.x) + (t106 * l1.dir.y)) + (t105 * l1.dir.z))
  let t128 := ((((t103 * t107) + (t100 * t106)) + (t97 * t105)) / t104)
  if t104 = (0 : α) then
    (V3.length tmin tmax sqrt ⟨(((t112 * l1.dir.x) + l1.pos.x) - l2.pos.x), (((t112 * l1.dir.y) + l1.pos.y) - l2.pos.y), (((t112 * l1.dir.z) + l1.pos.z) - l2.pos.z)⟩)
  else
    if (0 : α) ≤ t128 then
      t128
    else
      (-t128)

/-- extracted from the C++ template at T = Sym; 2 path(s) -/
def Line3.mulM44 {α : Type} [Add α] [Sub α] [Mul α] [Div α] [Neg α] [LT α] [LE α] [DecidableLT α] [DecidableLE α] [DecidableEq α] [OfNat α 0] [OfNat α 2] (tmin : α) (tmax : α) (sqrt : α → α) (l : Line3 α) (m : M44 α) : (Line3 α) :=
  let t146 := (l.pos.z + l.dir.z)
  let t147 := (l.pos.y + l.dir.y)
  let t148 := (l.pos.x + l.dir.x)
  let t172 := ((((t148 * m.x03) + (t147 * m.x13)) + (t146 * m.x23)) + m.x33)
  let t199 := ((((l.pos.x * m.x03) + (l.pos.y * m.x13)) + (l.pos.z * m.x23)) + m.x33)
  let t200 := (((((l.pos.x * m.x02) + (l.pos.y * m.x12)) + (l.pos.z * m.x22)) + m.x32) / t199)
  let t201 := (((((l.pos.x * m.x01) + (l.pos.y * m.x11)) + (l.pos.z * m.x21)) + m.x31) / t199)
  let t202 := (((((l.pos.x * m.x00) + (l.pos.y * m.x10)) + (l.pos.z * m.x20)) + m.x30) / t199)
  let t203 := ((((((t148 * m.x02) + (t147 * m.x12)) + (t146 * m.x22)) + m.x32) / t172) - t200)
  let t204 := ((((((t148 * m.x01) + (t147 * m.x11)) + (t146 * m.x21)) + m.x31) / t172) - t201)
  let t205 := ((((((t148 * m.x00) + (t147 * m.x10)) + (t146 * m.x20)) + m.x30) / t172) - t202)
  let t206 := (V3.length tmin tmax sqrt ⟨t205, t204, t203⟩)
  if t206 = (0 : α) then
    ⟨⟨t202, t201, t200⟩, ⟨t205, t204, t203⟩⟩
  else
    ⟨⟨t202, t201, t200⟩, ⟨(t205 / t206), (t204 / t206), (t203 / t206)⟩⟩

end ImathVerif.Gen
