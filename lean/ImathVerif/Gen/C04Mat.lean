-- GENERATED from /repo/src/Imath by harness/sym (T = Sym path extraction); do not edit.
import ImathVerif.Basic.Types
set_option linter.unusedVariables false
namespace ImathVerif.Gen
open ImathVerif

/-- extracted from the C++ template at T = Sym; 1 path(s) -/
def M22.add {α : Type} [Add α] (a : M22 α) (b : M22 α) : (M22 α) :=
  ⟨(a.x00 + b.x00), (a.x01 + b.x01), (a.x10 + b.x10), (a.x11 + b.x11)⟩

/-- extracted from the C++ template at T = Sym; 1 path(s) -/
def M22.addAssign {α : Type} [Add α] (a : M22 α) (b : M22 α) : (M22 α) :=
  ⟨(a.x00 + b.x00), (a.x01 + b.x01), (a.x10 + b.x10), (a.x11 + b.x11)⟩

/-- extracted from the C++ template at T = Sym; 1 path(s) -/
def M22.sub {α : Type} [Sub α] (a : M22 α) (b : M22 α) : (M22 α) :=
  ⟨(a.x00 - b.x00), (a.x01 - b.x01), (a.x10 - b.x10), (a.x11 - b.x11)⟩

/-- extracted from the C++ template at T = Sym; 1 path(s) -/
def M22.subAssign {α : Type} [Sub α] (a : M22 α) (b : M22 α) : (M22 α) :=
  ⟨(a.x00 - b.x00), (a.x01 - b.x01), (a.x10 - b.x10), (a.x11 - b.x11)⟩

/-- extracted from the C++ template at T = Sym; 1 path(s) -/
def M22.neg {α : Type} [Neg α] (a : M22 α) : (M22 α) :=
  ⟨(-a.x00), (-a.x01), (-a.x10), (-a.x11)⟩

/-- extracted from the C++ template at T = Sym; 1 path(s) -/
def M22.negate {α : Type} [Neg α] (a : M22 α) : (M22 α) :=
  ⟨(-a.x00), (-a.x01), (-a.x10), (-a.x11)⟩

/-- extracted from the C++ template at T = Sym; 1 path(s) -/
def M22.addSAssign {α : Type} [Add α] (a : M22 α) (s : α) : (M22 α) :=
  ⟨(a.x00 + s), (a.x01 + s), (a.x10 + s), (a.x11 + s)⟩

/-- extracted from the C++ template at T = Sym; 1 path(s) -/
def M22.subSAssign {α : Type} [Sub α] (a : M22 α) (s : α) : (M22 α) :=
  ⟨(a.x00 - s), (a.x01 - s), (a.x10 - s), (a.x11 - s)⟩

/-- extracted from the C++ template at T = Sym; 1 path(s) -/
def M22.mulS {α : Type} [Mul α] (a : M22 α) (s : α) : (M22 α) :=
  ⟨(a.x00 * s), (a.x01 * s), (a.x10 * s), (a.x11 * s)⟩

/-- extracted from the C++ template at T = Sym; 1 path(s) -/
def M22.mulSAssign {α : Type} [Mul α] (a : M22 α) (s : α) : (M22 α) :=
  ⟨(a.x00 * s), (a.x01 * s), (a.x10 * s), (a.x11 * s)⟩

/-- extracted from the C++ template at T = Sym; 1 path(s) -/
def M22.smul {α : Type} [Mul α] (s : α) (a : M22 α) : (M22 α) :=
  ⟨(a.x00 * s), (a.x01 * s), (a.x10 * s), (a.x11 * s)⟩

/-- extracted from the C++ template at T = Sym; 1 path(s) -/
def M22.divS {α : Type} [Div α] (a : M22 α) (s : α) : (M22 α) :=
  ⟨(a.x00 / s), (a.x01 / s), (a.x10 / s), (a.x11 / s)⟩

/-- extracted from the C++ template at T = Sym; 1 path(s) -/
def M22.divSAssign {α : Type} [Div α] (a : M22 α) (s : α) : (M22 α) :=
  ⟨(a.x00 / s), (a.x01 / s), (a.x10 / s), (a.x11 / s)⟩

/-- extracted from the C++ template at T = Sym; 5 path(s) -/
def M22.eq {α : Type} [DecidableEq α] (a : M22 α) (b : M22 α) : Bool :=
  if a.x00 = b.x00 then
    if a.x01 = b.x01 then
      if a.x10 = b.x10 then
        if a.x11 = b.x11 then
          true
        else
          false
      else
        false
    else
      false
  else
    false

/-- extracted from the C++ template at T = Sym; 5 path(s) -/
def M22.ne {α : Type} [DecidableEq α] (a : M22 α) (b : M22 α) : Bool :=
  if a.x00 = b.x00 then
    if a.x01 = b.x01 then
      if a.x10 = b.x10 then
        if a.x11 = b.x11 then
          false
        else
          true
      else
        true
    else
      true
  else
    true

/-- extracted from the C++ template at T = Sym; 5 path(s) -/
def M22.equalWithAbsError {α : Type} [Sub α] [LT α] [LE α] [DecidableLT α] [DecidableLE α] (a : M22 α) (b : M22 α) (e : α) : Bool :=
  let t231 := (sabsdiff a.x00 b.x00)
  let t232 := (sabsdiff a.x01 b.x01)
  let t233 := (sabsdiff a.x10 b.x10)
  let t234 := (sabsdiff a.x11 b.x11)
  if t231 ≤ e then
    if t232 ≤ e then
      if t233 ≤ e then
        if t234 ≤ e then
          true
        else
          false
      else
        false
    else
      false
  else
    false

/-- extracted from the C++ template at T = Sym; 5 path(s) -/
def M22.equalWithRelError {α : Type} [Sub α] [Mul α] [Neg α] [LT α] [LE α] [DecidableLT α] [DecidableLE α] [OfNat α 0] (a : M22 α) (b : M22 α) (e : α) : Bool :=
  let t231 := (sabsdiff a.x00 b.x00)
  let t232 := (sabsdiff a.x01 b.x01)
  let t233 := (sabsdiff a.x10 b.x10)
  let t234 := (sabsdiff a.x11 b.x11)
  let t236 := (e * (sabs a.x00))
  let t238 := (e * (sabs a.x01))
  let t240 := (e * (sabs a.x10))
  let t242 := (e * (sabs a.x11))
  if t231 ≤ t236 then
    if t232 ≤ t238 then
      if t233 ≤ t240 then
        if t234 ≤ t242 then
          true
        else
          false
      else
        false
    else
      false
  else
    false

/-- extracted from the C++ template at T = Sym; 1 path(s) -/
def M22.indexAll {α : Type} (a : M22 α) : (M22 α) :=
  ⟨a.x00, a.x01, a.x10, a.x11⟩

/-- extracted from the C++ template at T = Sym; 1 path(s) -/
def M22.setIndexAll {α : Type} (a : M22 α) (b : M22 α) : (M22 α) :=
  ⟨b.x00, b.x01, b.x10, b.x11⟩

/-- extracted from the C++ template at T = Sym; 1 path(s) -/
def M22.getValuePtr {α : Type} (a : M22 α) : (M22 α) :=
  ⟨a.x00, a.x01, a.x10, a.x11⟩

/-- extracted from the C++ template at T = Sym; 1 path(s) -/
def M22.convertCtor {α : Type} (a : M22 α) : (M22 α) :=
  ⟨a.x00, a.x01, a.x10, a.x11⟩

/-- extracted from the C++ template at T = Sym; 1 path(s) -/
def M22.setValueM {α : Type} (a : M22 α) (b : M22 α) : (M22 α) :=
  ⟨b.x00, b.x01, b.x10, b.x11⟩

/-- extracted from the C++ template at T = Sym; 1 path(s) -/
def M22.getValueM {α : Type} (a : M22 α) : (M22 α) :=
  ⟨a.x00, a.x01, a.x10, a.x11⟩

/-- extracted from the C++ template at T = Sym; 1 path(s) -/
def M22.assignScalar {α : Type} (a : M22 α) (s : α) : (M22 α) :=
  ⟨s, s, s, s⟩

/-- extracted from the C++ template at T = Sym; 1 path(s) -/
def M22.ctorScalar {α : Type} (s : α) : (M22 α) :=
  ⟨s, s, s, s⟩

/-- extracted from the C++ template at T = Sym; 1 path(s) -/
def M22.ctorArray {α : Type} (a : M22 α) : (M22 α) :=
  ⟨a.x00, a.x01, a.x10, a.x11⟩

/-- extracted from the C++ template at T = Sym; 1 path(s) -/
def M22.interopSub2 {α : Type} (a : M22 α) : ((M22 α) × (M22 α)) :=
  (⟨a.x00, a.x01, a.x10, a.x11⟩, ⟨a.x00, a.x01, a.x10, a.x11⟩)

/-- extracted from the C++ template at T = Sym; 1 path(s) -/
def M33.add {α : Type} [Add α] (a : M33 α) (b : M33 α) : (M33 α) :=
  ⟨(a.x00 + b.x00), (a.x01 + b.x01), (a.x02 + b.x02), (a.x10 + b.x10), (a.x11 + b.x11), (a.x12 + b.x12), (a.x20 + b.x20), (a.x21 + b.x21), (a.x22 + b.x22)⟩

/-- extracted from the C++ template at T = Sym; 1 path(s) -/
def M33.addAssign {α : Type} [Add α] (a : M33 α) (b : M33 α) : (M33 α) :=
  ⟨(a.x00 + b.x00), (a.x01 + b.x01), (a.x02 + b.x02), (a.x10 + b.x10), (a.x11 + b.x11), (a.x12 + b.x12), (a.x20 + b.x20), (a.x21 + b.x21), (a.x22 + b.x22)⟩

/-- extracted from the C++ template at T = Sym; 1 path(s) -/
def M33.sub {α : Type} [Sub α] (a : M33 α) (b : M33 α) : (M33 α) :=
  ⟨(a.x00 - b.x00), (a.x01 - b.x01), (a.x02 - b.x02), (a.x10 - b.x10), (a.x11 - b.x11), (a.x12 - b.x12), (a.x20 - b.x20), (a.x21 - b.x21), (a.x22 - b.x22)⟩

/-- extracted from the C++ template at T = Sym; 1 path(s) -/
def M33.subAssign {α : Type} [Sub α] (a : M33 α) (b : M33 α) : (M33 α) :=
  ⟨(a.x00 - b.x00), (a.x01 - b.x01), (a.x02 - b.x02), (a.x10 - b.x10), (a.x11 - b.x11), (a.x12 - b.x12), (a.x20 - b.x20), (a.x21 - b.x21), (a.x22 - b.x22)⟩

/-- extracted from the C++ template at T = Sym; 1 path(s) -/
def M33.neg {α : Type} [Neg α] (a : M33 α) : (M33 α) :=
  ⟨(-a.x00), (-a.x01), (-a.x02), (-a.x10), (-a.x11), (-a.x12), (-a.x20), (-a.x21), (-a.x22)⟩

/-- extracted from the C++ template at T = Sym; 1 path(s) -/
def M33.negate {α : Type} [Neg α] (a : M33 α) : (M33 α) :=
  ⟨(-a.x00), (-a.x01), (-a.x02), (-a.x10), (-a.x11), (-a.x12), (-a.x20), (-a.x21), (-a.x22)⟩

/-- extracted from the C++ template at T = Sym; 1 path(s) -/
def M33.addSAssign {α : Type} [Add α] (a : M33 α) (s : α) : (M33 α) :=
  ⟨(a.x00 + s), (a.x01 + s), (a.x02 + s), (a.x10 + s), (a.x11 + s), (a.x12 + s), (a.x20 + s), (a.x21 + s), (a.x22 + s)⟩

/-- extracted from the C++ template at T = Sym; 1 path(s) -/
def M33.subSAssign {α : Type} [Sub α] (a : M33 α) (s : α) : (M33 α) :=
  ⟨(a.x00 - s), (a.x01 - s), (a.x02 - s), (a.x10 - s), (a.x11 - s), (a.x12 - s), (a.x20 - s), (a.x21 - s), (a.x22 - s)⟩

/-- extracted from the C++ template at T = Sym; 1 path(s) -/
def M33.mulS {α : Type} [Mul α] (a : M33 α) (s : α) : (M33 α) :=
  ⟨(a.x00 * s), (a.x01 * s), (a.x02 * s), (a.x10 * s), (a.x11 * s), (a.x12 * s), (a.x20 * s), (a.x21 * s), (a.x22 * s)⟩

/-- extracted from the C++ template at T = Sym; 1 path(s) -/
def M33.mulSAssign {α : Type} [Mul α] (a : M33 α) (s : α) : (M33 α) :=
  ⟨(a.x00 * s), (a.x01 * s), (a.x02 * s), (a.x10 * s), (a.x11 * s), (a.x12 * s), (a.x20 * s), (a.x21 * s), (a.x22 * s)⟩

/-- extracted from the C++ template at T = Sym; 1 path(s) -/
def M33.smul {α : Type} [Mul α] (s : α) (a : M33 α) : (M33 α) :=
  ⟨(a.x00 * s), (a.x01 * s), (a.x02 * s), (a.x10 * s), (a.x11 * s), (a.x12 * s), (a.x20 * s), (a.x21 * s), (a.x22 * s)⟩

/-- extracted from the C++ template at T = Sym; 1 path(s) -/
def M33.divS {α : Type} [Div α] (a : M33 α) (s : α) : (M33 α) :=
  ⟨(a.x00 / s), (a.x01 / s), (a.x02 / s), (a.x10 / s), (a.x11 / s), (a.x12 / s), (a.x20 / s), (a.x21 / s), (a.x22 / s)⟩

/-- extracted from the C++ template at T = Sym; 1 path(s) -/
def M33.divSAssign {α : Type} [Div α] (a : M33 α) (s : α) : (M33 α) :=
  ⟨(a.x00 / s), (a.x01 / s), (a.x02 / s), (a.x10 / s), (a.x11 / s), (a.x12 / s), (a.x20 / s), (a.x21 / s), (a.x22 / s)⟩

/-- extracted from the C++ template at T = Sym; 10 path(s) -/
def M33.eq {α : Type} [DecidableEq α] (a : M33 α) (b : M33 α) : Bool :=
  if a.x00 = b.x00 then
    if a.x01 = b.x01 then
      if a.x02 = b.x02 then
        if a.x10 = b.x10 then
          if a.x11 = b.x11 then
            if a.x12 = b.x12 then
              if a.x20 = b.x20 then
                if a.x21 = b.x21 then
                  if a.x22 = b.x22 then
                    true
                  else
                    false
                else
                  false
              else
                false
            else
              false
          else
            false
        else
          false
      else
        false
    else
      false
  else
    false

/-- extracted from the C++ template at T = Sym; 10 path(s) -/
def M33.ne {α : Type} [DecidableEq α] (a : M33 α) (b : M33 α) : Bool :=
  if a.x00 = b.x00 then
    if a.x01 = b.x01 then
      if a.x02 = b.x02 then
        if a.x10 = b.x10 then
          if a.x11 = b.x11 then
            if a.x12 = b.x12 then
              if a.x20 = b.x20 then
                if a.x21 = b.x21 then
                  if a.x22 = b.x22 then
                    false
                  else
                    true
                else
                  true
              else
                true
            else
              true
          else
            true
        else
          true
      else
        true
    else
      true
  else
    true

/-- extracted from the C++ template at T = Sym; 10 path(s) -/
def M33.equalWithAbsError {α : Type} [Sub α] [LT α] [LE α] [DecidableLT α] [DecidableLE α] (a : M33 α) (b : M33 α) (e : α) : Bool :=
  let t231 := (sabsdiff a.x00 b.x00)
  let t232 := (sabsdiff a.x01 b.x01)
  let t233 := (sabsdiff a.x10 b.x10)
  let t234 := (sabsdiff a.x11 b.x11)
  let t288 := (sabsdiff a.x02 b.x02)
  let t289 := (sabsdiff a.x12 b.x12)
  let t290 := (sabsdiff a.x20 b.x20)
  let t291 := (sabsdiff a.x21 b.x21)
  let t292 := (sabsdiff a.x22 b.x22)
  if t231 ≤ e then
    if t232 ≤ e then
      if t288 ≤ e then
        if t233 ≤ e then
          if t234 ≤ e then
            if t289 ≤ e then
              if t290 ≤ e then
                if t291 ≤ e then
                  if t292 ≤ e then
                    true
                  else
                    false
                else
                  false
              else
                false
            else
              false
          else
            false
        else
          false
      else
        false
    else
      false
  else
    false

/-- extracted from the C++ template at T = Sym; 10 path(s) -/
def M33.equalWithRelError {α : Type} [Sub α] [Mul α] [Neg α] [LT α] [LE α] [DecidableLT α] [DecidableLE α] [OfNat α 0] (a : M33 α) (b : M33 α) (e : α) : Bool :=
  let t231 := (sabsdiff a.x00 b.x00)
  let t232 := (sabsdiff a.x01 b.x01)
  let t233 := (sabsdiff a.x10 b.x10)
  let t234 := (sabsdiff a.x11 b.x11)
  let t236 := (e * (sabs a.x00))
  let t238 := (e * (sabs a.x01))
  let t240 := (e * (sabs a.x10))
  let t242 := (e * (sabs a.x11))
  let t288 := (sabsdiff a.x02 b.x02)
  let t289 := (sabsdiff a.x12 b.x12)
  let t290 := (sabsdiff a.x20 b.x20)
  let t291 := (sabsdiff a.x21 b.x21)
  let t292 := (sabsdiff a.x22 b.x22)
  let t294 := (e * (sabs a.x02))
  let t296 := (e * (sabs a.x12))
  let t298 := (e * (sabs a.x20))
  let t300 := (e * (sabs a.x21))
  let t302 := (e * (sabs a.x22))
  if t231 ≤ t236 then
    if t232 ≤ t238 then
      if t288 ≤ t294 then
        if t233 ≤ t240 then
          if t234 ≤ t242 then
            if t289 ≤ t296 then
              if t290 ≤ t298 then
                if t291 ≤ t300 then
                  if t292 ≤ t302 then
                    true
                  else
                    false
                else
                  false
              else
                false
            else
              false
          else
            false
        else
          false
      else
        false
    else
      false
  else
    false

/-- extracted from the C++ template at T = Sym; 1 path(s) -/
def M33.indexAll {α : Type} (a : M33 α) : (M33 α) :=
  ⟨a.x00, a.x01, a.x02, a.x10, a.x11, a.x12, a.x20, a.x21, a.x22⟩

/-- extracted from the C++ template at T = Sym; 1 path(s) -/
def M33.setIndexAll {α : Type} (a : M33 α) (b : M33 α) : (M33 α) :=
  ⟨b.x00, b.x01, b.x02, b.x10, b.x11, b.x12, b.x20, b.x21, b.x22⟩

/-- extracted from the C++ template at T = Sym; 1 path(s) -/
def M33.getValuePtr {α : Type} (a : M33 α) : (M33 α) :=
  ⟨a.x00, a.x01, a.x02, a.x10, a.x11, a.x12, a.x20, a.x21, a.x22⟩

/-- extracted from the C++ template at T = Sym; 1 path(s) -/
def M33.convertCtor {α : Type} (a : M33 α) : (M33 α) :=
  ⟨a.x00, a.x01, a.x02, a.x10, a.x11, a.x12, a.x20, a.x21, a.x22⟩

/-- extracted from the C++ template at T = Sym; 1 path(s) -/
def M33.setValueM {α : Type} (a : M33 α) (b : M33 α) : (M33 α) :=
  ⟨b.x00, b.x01, b.x02, b.x10, b.x11, b.x12, b.x20, b.x21, b.x22⟩

/-- extracted from the C++ template at T = Sym; 1 path(s) -/
def M33.getValueM {α : Type} (a : M33 α) : (M33 α) :=
  ⟨a.x00, a.x01, a.x02, a.x10, a.x11, a.x12, a.x20, a.x21, a.x22⟩

/-- extracted from the C++ template at T = Sym; 1 path(s) -/
def M33.assignScalar {α : Type} (a : M33 α) (s : α) : (M33 α) :=
  ⟨s, s, s, s, s, s, s, s, s⟩

/-- extracted from the C++ template at T = Sym; 1 path(s) -/
def M33.ctorScalar {α : Type} (s : α) : (M33 α) :=
  ⟨s, s, s, s, s, s, s, s, s⟩

/-- extracted from the C++ template at T = Sym; 1 path(s) -/
def M33.ctorArray {α : Type} (a : M33 α) : (M33 α) :=
  ⟨a.x00, a.x01, a.x02, a.x10, a.x11, a.x12, a.x20, a.x21, a.x22⟩

/-- extracted from the C++ template at T = Sym; 1 path(s) -/
def M33.interopSub2 {α : Type} (a : M33 α) : ((M33 α) × (M33 α)) :=
  (⟨a.x00, a.x01, a.x02, a.x10, a.x11, a.x12, a.x20, a.x21, a.x22⟩, ⟨a.x00, a.x01, a.x02, a.x10, a.x11, a.x12, a.x20, a.x21, a.x22⟩)

/-- extracted from the C++ template at T = Sym; 1 path(s) -/
def M44.add {α : Type} [Add α] (a : M44 α) (b : M44 α) : (M44 α) :=
  ⟨(a.x00 + b.x00), (a.x01 + b.x01), (a.x02 + b.x02), (a.x03 + b.x03), (a.x10 + b.x10), (a.x11 + b.x11), (a.x12 + b.x12), (a.x13 + b.x13), (a.x20 + b.x20), (a.x21 + b.x21), (a.x22 + b.x22), (a.x23 + b.x23), (a.x30 + b.x30), (a.x31 + b.x31), (a.x32 + b.x32), (a.x33 + b.x33)⟩

/-- extracted from the C++ template at T = Sym; 1 path(s) -/
def M44.addAssign {α : Type} [Add α] (a : M44 α) (b : M44 α) : (M44 α) :=
  ⟨(a.x00 + b.x00), (a.x01 + b.x01), (a.x02 + b.x02), (a.x03 + b.x03), (a.x10 + b.x10), (a.x11 + b.x11), (a.x12 + b.x12), (a.x13 + b.x13), (a.x20 + b.x20), (a.x21 + b.x21), (a.x22 + b.x22), (a.x23 + b.x23), (a.x30 + b.x30), (a.x31 + b.x31), (a.x32 + b.x32), (a.x33 + b.x33)⟩

/-- extracted from the C++ template at T = Sym; 1 path(s) -/
def M44.sub {α : Type} [Sub α] (a : M44 α) (b : M44 α) : (M44 α) :=
  ⟨(a.x00 - b.x00), (a.x01 - b.x01), (a.x02 - b.x02), (a.x03 - b.x03), (a.x10 - b.x10), (a.x11 - b.x11), (a.x12 - b.x12), (a.x13 - b.x13), (a.x20 - b.x20), (a.x21 - b.x21), (a.x22 - b.x22), (a.x23 - b.x23), (a.x30 - b.x30), (a.x31 - b.x31), (a.x32 - b.x32), (a.x33 - b.x33)⟩

/-- extracted from the C++ template at T = Sym; 1 path(s) -/
def M44.subAssign {α : Type} [Sub α] (a : M44 α) (b : M44 α) : (M44 α) :=
  ⟨(a.x00 - b.x00), (a.x01 - b.x01), (a.x02 - b.x02), (a.x03 - b.x03), (a.x10 - b.x10), (a.x11 - b.x11), (a.x12 - b.x12), (a.x13 - b.x13), (a.x20 - b.x20), (a.x21 - b.x21), (a.x22 - b.x22), (a.x23 - b.x23), (a.x30 - b.x30), (a.x31 - b.x31), (a.x32 - b.x32), (a.x33 - b.x33)⟩

/-- extracted from the C++ template at T = Sym; 1 path(s) -/
def M44.neg {α : Type} [Neg α] (a : M44 α) : (M44 α) :=
  ⟨(-a.x00), (-a.x01), (-a.x02), (-a.x03), (-a.x10), (-a.x11), (-a.x12), (-a.x13), (-a.x20), (-a.x21), (-a.x22), (-a.x23), (-a.x30), (-a.x31), (-a.x32), (-a.x33)⟩

/-- extracted from the C++ template at T = Sym; 1 path(s) -/
def M44.negate {α : Type} [Neg α] (a : M44 α) : (M44 α) :=
  ⟨(-a.x00), (-a.x01), (-a.x02), (-a.x03), (-a.x10), (-a.x11), (-a.x12), (-a.x13), (-a.x20), (-a.x21), (-a.x22), (-a.x23), (-a.x30), (-a.x31), (-a.x32), (-a.x33)⟩

/-- extracted from the C++ template at T = Sym; 1 path(s) -/
def M44.addSAssign {α : Type} [Add α] (a : M44 α) (s : α) : (M44 α) :=
  ⟨(a.x00 + s), (a.x01 + s), (a.x02 + s), (a.x03 + s), (a.x10 + s), (a.x11 + s), (a.x12 + s), (a.x13 + s), (a.x20 + s), (a.x21 + s), (a.x22 + s), (a.x23 + s), (a.x30 + s), (a.x31 + s), (a.x32 + s), (a.x33 + s)⟩

/-- extracted from the C++ template at T = Sym; 1 path(s) -/
def M44.subSAssign {α : Type} [Sub α] (a : M44 α) (s : α) : (M44 α) :=
  ⟨(a.x00 - s), (a.x01 - s), (a.x02 - s), (a.x03 - s), (a.x10 - s), (a.x11 - s), (a.x12 - s), (a.x13 - s), (a.x20 - s), (a.x21 - s), (a.x22 - s), (a.x23 - s), (a.x30 - s), (a.x31 - s), (a.x32 - s), (a.x33 - s)⟩

/-- extracted from the C++ template at T = Sym; 1 path(s) -/
def M44.mulS {α : Type} [Mul α] (a : M44 α) (s : α) : (M44 α) :=
  ⟨(a.x00 * s), (a.x01 * s), (a.x02 * s), (a.x03 * s), (a.x10 * s), (a.x11 * s), (a.x12 * s), (a.x13 * s), (a.x20 * s), (a.x21 * s), (a.x22 * s), (a.x23 * s), (a.x30 * s), (a.x31 * s), (a.x32 * s), (a.x33 * s)⟩

/-- extracted from the C++ template at T = Sym; 1 path(s) -/
def M44.mulSAssign {α : Type} [Mul α] (a : M44 α) (s : α) : (M44 α) :=
  ⟨(a.x00 * s), (a.x01 * s), (a.x02 * s), (a.x03 * s), (a.x10 * s), (a.x11 * s), (a.x12 * s), (a.x13 * s), (a.x20 * s), (a.x21 * s), (a.x22 * s), (a.x23 * s), (a.x30 * s), (a.x31 * s), (a.x32 * s), (a.x33 * s)⟩

/-- extracted from the C++ template at T = Sym; 1 path(s) -/
def M44.smul {α : Type} [Mul α] (s : α) (a : M44 α) : (M44 α) :=
  ⟨(a.x00 * s), (a.x01 * s), (a.x02 * s), (a.x03 * s), (a.x10 * s), (a.x11 * s), (a.x12 * s), (a.x13 * s), (a.x20 * s), (a.x21 * s), (a.x22 * s), (a.x23 * s), (a.x30 * s), (a.x31 * s), (a.x32 * s), (a.x33 * s)⟩

/-- extracted from the C++ template at T = Sym; 1 path(s) -/
def M44.divS {α : Type} [Div α] (a : M44 α) (s : α) : (M44 α) :=
  ⟨(a.x00 / s), (a.x01 / s), (a.x02 / s), (a.x03 / s), (a.x10 / s), (a.x11 / s), (a.x12 / s), (a.x13 / s), (a.x20 / s), (a.x21 / s), (a.x22 / s), (a.x23 / s), (a.x30 / s), (a.x31 / s), (a.x32 / s), (a.x33 / s)⟩

/-- extracted from the C++ template at T = Sym; 1 path(s) -/
def M44.divSAssign {α : Type} [Div α] (a : M44 α) (s : α) : (M44 α) :=
  ⟨(a.x00 / s), (a.x01 / s), (a.x02 / s), (a.x03 / s), (a.x10 / s), (a.x11 / s), (a.x12 / s), (a.x13 / s), (a.x20 / s), (a.x21 / s), (a.x22 / s), (a.x23 / s), (a.x30 / s), (a.x31 / s), (a.x32 / s), (a.x33 / s)⟩

/-- extracted from the C++ template at T = Sym; 17 path(s) -/
def M44.eq {α : Type} [DecidableEq α] (a : M44 α) (b : M44 α) : Bool :=
  if a.x00 = b.x00 then
    if a.x01 = b.x01 then
      if a.x02 = b.x02 then
        if a.x03 = b.x03 then
          if a.x10 = b.x10 then
            if a.x11 = b.x11 then
              if a.x12 = b.x12 then
                if a.x13 = b.x13 then
                  if a.x20 = b.x20 then
                    if a.x21 = b.x21 then
                      if a.x22 = b.x22 then
                        if a.x23 = b.x23 then
                          if a.x30 = b.x30 then
                            if a.x31 = b.x31 then
                              if a.x32 = b.x32 then
                                if a.x33 = b.x33 then
                                  true
                                else
                                  false
                              else
                                false
                            else
                              false
                          else
                            false
                        else
                          false
                      else
                        false
                    else
                      false
                  else
                    false
                else
                  false
              else
                false
            else
              false
          else
            false
        else
          false
      else
        false
    else
      false
  else
    false

/-- extracted from the C++ template at T = Sym; 17 path(s) -/
def M44.ne {α : Type} [DecidableEq α] (a : M44 α) (b : M44 α) : Bool :=
  if a.x00 = b.x00 then
    if a.x01 = b.x01 then
      if a.x02 = b.x02 then
        if a.x03 = b.x03 then
          if a.x10 = b.x10 then
            if a.x11 = b.x11 then
              if a.x12 = b.x12 then
                if a.x13 = b.x13 then
                  if a.x20 = b.x20 then
                    if a.x21 = b.x21 then
                      if a.x22 = b.x22 then
                        if a.x23 = b.x23 then
                          if a.x30 = b.x30 then
                            if a.x31 = b.x31 then
                              if a.x32 = b.x32 then
                                if a.x33 = b.x33 then
                                  false
                                else
                                  true
                              else
                                true
                            else
                              true
                          else
                            true
                        else
                          true
                      else
                        true
                    else
                      true
                  else
                    true
                else
                  true
              else
                true
            else
              true
          else
            true
        else
          true
      else
        true
    else
      true
  else
    true

/-- extracted from the C++ template at T = Sym; 17 path(s) -/
def M44.equalWithAbsError {α : Type} [Sub α] [LT α] [LE α] [DecidableLT α] [DecidableLE α] (a : M44 α) (b : M44 α) (e : α) : Bool :=
  let t231 := (sabsdiff a.x00 b.x00)
  let t232 := (sabsdiff a.x01 b.x01)
  let t233 := (sabsdiff a.x10 b.x10)
  let t234 := (sabsdiff a.x11 b.x11)
  let t288 := (sabsdiff a.x02 b.x02)
  let t289 := (sabsdiff a.x12 b.x12)
  let t290 := (sabsdiff a.x20 b.x20)
  let t291 := (sabsdiff a.x21 b.x21)
  let t292 := (sabsdiff a.x22 b.x22)
  let t366 := (sabsdiff a.x03 b.x03)
  let t367 := (sabsdiff a.x13 b.x13)
  let t368 := (sabsdiff a.x23 b.x23)
  let t369 := (sabsdiff a.x30 b.x30)
  let t370 := (sabsdiff a.x31 b.x31)
  let t371 := (sabsdiff a.x32 b.x32)
  let t372 := (sabsdiff a.x33 b.x33)
  if t231 ≤ e then
    if t232 ≤ e then
      if t288 ≤ e then
        if t366 ≤ e then
          if t233 ≤ e then
            if t234 ≤ e then
              if t289 ≤ e then
                if t367 ≤ e then
                  if t290 ≤ e then
                    if t291 ≤ e then
                      if t292 ≤ e then
                        if t368 ≤ e then
                          if t369 ≤ e then
                            if t370 ≤ e then
                              if t371 ≤ e then
                                if t372 ≤ e then
                                  true
                                else
                                  false
                              else
                                false
                            else
                              false
                          else
                            false
                        else
                          false
                      else
                        false
                    else
                      false
                  else
                    false
                else
                  false
              else
                false
            else
              false
          else
            false
        else
          false
      else
        false
    else
      false
  else
    false

/-- extracted from the C++ template at T = Sym; 17 path(s) -/
def M44.equalWithRelError {α : Type} [Sub α] [Mul α] [Neg α] [LT α] [LE α] [DecidableLT α] [DecidableLE α] [OfNat α 0] (a : M44 α) (b : M44 α) (e : α) : Bool :=
  let t231 := (sabsdiff a.x00 b.x00)
  let t232 := (sabsdiff a.x01 b.x01)
  let t233 := (sabsdiff a.x10 b.x10)
  let t234 := (sabsdiff a.x11 b.x11)
  let t236 := (e * (sabs a.x00))
  let t238 := (e * (sabs a.x01))
  let t240 := (e * (sabs a.x10))
  let t242 := (e * (sabs a.x11))
  let t288 := (sabsdiff a.x02 b.x02)
  let t289 := (sabsdiff a.x12 b.x12)
  let t290 := (sabsdiff a.x20 b.x20)
  let t291 := (sabsdiff a.x21 b.x21)
  let t292 := (sabsdiff a.x22 b.x22)
  let t294 := (e * (sabs a.x02))
  let t296 := (e * (sabs a.x12))
  let t298 := (e * (sabs a.x20))
  let t300 := (e * (sabs a.x21))
  let t302 := (e * (sabs a.x22))
  let t366 := (sabsdiff a.x03 b.x03)
  let t367 := (sabsdiff a.x13 b.x13)
  let t368 := (sabsdiff a.x23 b.x23)
  let t369 := (sabsdiff a.x30 b.x30)
  let t370 := (sabsdiff a.x31 b.x31)
  let t371 := (sabsdiff a.x32 b.x32)
  let t372 := (sabsdiff a.x33 b.x33)
  let t374 := (e * (sabs a.x03))
  let t376 := (e * (sabs a.x13))
  let t378 := (e * (sabs a.x23))
  let t380 := (e * (sabs a.x30))
  let t382 := (e * (sabs a.x31))
  let t384 := (e * (sabs a.x32))
  let t386 := (e * (sabs a.x33))
  if t231 ≤ t236 then
    if t232 ≤ t238 then
      if t288 ≤ t294 then
        if t366 ≤ t374 then
          if t233 ≤ t240 then
            if t234 ≤ t242 then
              if t289 ≤ t296 then
                if t367 ≤ t376 then
                  if t290 ≤ t298 then
                    if t291 ≤ t300 then
                      if t292 ≤ t302 then
                        if t368 ≤ t378 then
                          if t369 ≤ t380 then
                            if t370 ≤ t382 then
                              if t371 ≤ t384 then
                                if t372 ≤ t386 then
                                  true
                                else
                                  false
                              else
                                false
                            else
                              false
                          else
                            false
                        else
                          false
                      else
                        false
                    else
                      false
                  else
                    false
                else
                  false
              else
                false
            else
              false
          else
            false
        else
          false
      else
        false
    else
      false
  else
    false

/-- extracted from the C++ template at T = Sym; 1 path(s) -/
def M44.indexAll {α : Type} (a : M44 α) : (M44 α) :=
  ⟨a.x00, a.x01, a.x02, a.x03, a.x10, a.x11, a.x12, a.x13, a.x20, a.x21, a.x22, a.x23, a.x30, a.x31, a.x32, a.x33⟩

/-- extracted from the C++ template at T = Sym; 1 path(s) -/
def M44.setIndexAll {α : Type} (a : M44 α) (b : M44 α) : (M44 α) :=
  ⟨b.x00, b.x01, b.x02, b.x03, b.x10, b.x11, b.x12, b.x13, b.x20, b.x21, b.x22, b.x23, b.x30, b.x31, b.x32, b.x33⟩

/-- extracted from the C++ template at T = Sym; 1 path(s) -/
def M44.getValuePtr {α : Type} (a : M44 α) : (M44 α) :=
  ⟨a.x00, a.x01, a.x02, a.x03, a.x10, a.x11, a.x12, a.x13, a.x20, a.x21, a.x22, a.x23, a.x30, a.x31, a.x32, a.x33⟩

/-- extracted from the C++ template at T = Sym; 1 path(s) -/
def M44.convertCtor {α : Type} (a : M44 α) : (M44 α) :=
  ⟨a.x00, a.x01, a.x02, a.x03, a.x10, a.x11, a.x12, a.x13, a.x20, a.x21, a.x22, a.x23, a.x30, a.x31, a.x32, a.x33⟩

/-- extracted from the C++ template at T = Sym; 1 path(s) -/
def M44.setValueM {α : Type} (a : M44 α) (b : M44 α) : (M44 α) :=
  ⟨b.x00, b.x01, b.x02, b.x03, b.x10, b.x11, b.x12, b.x13, b.x20, b.x21, b.x22, b.x23, b.x30, b.x31, b.x32, b.x33⟩

/-- extracted from the C++ template at T = Sym; 1 path(s) -/
def M44.getValueM {α : Type} (a : M44 α) : (M44 α) :=
  ⟨a.x00, a.x01, a.x02, a.x03, a.x10, a.x11, a.x12, a.x13, a.x20, a.x21, a.x22, a.x23, a.x30, a.x31, a.x32, a.x33⟩

/-- extracted from the C++ template at T = Sym; 1 path(s) -/
def M44.assignScalar {α : Type} (a : M44 α) (s : α) : (M44 α) :=
  ⟨s, s, s, s, s, s, s, s, s, s, s, s, s, s, s, s⟩

/-- extracted from the C++ template at T = Sym; 1 path(s) -/
def M44.ctorScalar {α : Type} (s : α) : (M44 α) :=
  ⟨s, s, s, s, s, s, s, s, s, s, s, s, s, s, s, s⟩

/-- extracted from the C++ template at T = Sym; 1 path(s) -/
def M44.ctorArray {α : Type} (a : M44 α) : (M44 α) :=
  ⟨a.x00, a.x01, a.x02, a.x03, a.x10, a.x11, a.x12, a.x13, a.x20, a.x21, a.x22, a.x23, a.x30, a.x31, a.x32, a.x33⟩

/-- extracted from the C++ template at T = Sym; 1 path(s) -/
def M44.interopSub2 {α : Type} (a : M44 α) : ((M44 α) × (M44 α)) :=
  (⟨a.x00, a.x01, a.x02, a.x03, a.x10, a.x11, a.x12, a.x13, a.x20, a.x21, a.x22, a.x23, a.x30, a.x31, a.x32, a.x33⟩, ⟨a.x00, a.x01, a.x02, a.x03, a.x10, a.x11, a.x12, a.x13, a.x20, a.x21, a.x22, a.x23, a.x30, a.x31, a.x32, a.x33⟩)

/-- extracted from the C++ template at T = Sym; 1 path(s) -/
def M22.ctorElems {α : Type} (a : M22 α) : (M22 α) :=
  ⟨a.x00, a.x01, a.x10, a.x11⟩

/-- extracted from the C++ template at T = Sym; 1 path(s) -/
def M33.ctorElems {α : Type} (a : M33 α) : (M33 α) :=
  ⟨a.x00, a.x01, a.x02, a.x10, a.x11, a.x12, a.x20, a.x21, a.x22⟩

/-- extracted from the C++ template at T = Sym; 1 path(s) -/
def M44.ctorElems {α : Type} (a : M44 α) : (M44 α) :=
  ⟨a.x00, a.x01, a.x02, a.x03, a.x10, a.x11, a.x12, a.x13, a.x20, a.x21, a.x22, a.x23, a.x30, a.x31, a.x32, a.x33⟩

/-- extracted from the C++ template at T = Sym; 1 path(s) -/
def M22.narrowCtor {α : Type} {β : Type} (cast : β → α) (a : M22 β) : (M22 α) :=
  ⟨(cast a.x00), (cast a.x01), (cast a.x10), (cast a.x11)⟩

/-- extracted from the C++ template at T = Sym; 1 path(s) -/
def M22.narrowSetValueM {α : Type} {β : Type} (cast : β → α) (a : M22 α) (b : M22 β) : (M22 α) :=
  ⟨(cast b.x00), (cast b.x01), (cast b.x10), (cast b.x11)⟩

/-- extracted from the C++ template at T = Sym; 1 path(s) -/
def M22.narrowGetValueM {α : Type} {β : Type} (cast : β → α) (a : M22 β) (b : M22 α) : (M22 α) :=
  ⟨(cast a.x00), (cast a.x01), (cast a.x10), (cast a.x11)⟩

/-- extracted from the C++ template at T = Sym; 1 path(s) -/
def M33.narrowCtor {α : Type} {β : Type} (cast : β → α) (a : M33 β) : (M33 α) :=
  ⟨(cast a.x00), (cast a.x01), (cast a.x02), (cast a.x10), (cast a.x11), (cast a.x12), (cast a.x20), (cast a.x21), (cast a.x22)⟩

/-- extracted from the C++ template at T = Sym; 1 path(s) -/
def M33.narrowSetValueM {α : Type} {β : Type} (cast : β → α) (a : M33 α) (b : M33 β) : (M33 α) :=
  ⟨(cast b.x00), (cast b.x01), (cast b.x02), (cast b.x10), (cast b.x11), (cast b.x12), (cast b.x20), (cast b.x21), (cast b.x22)⟩

/-- extracted from the C++ template at T = Sym; 1 path(s) -/
def M33.narrowGetValueM {α : Type} {β : Type} (cast : β → α) (a : M33 β) (b : M33 α) : (M33 α) :=
  ⟨(cast a.x00), (cast a.x01), (cast a.x02), (cast a.x10), (cast a.x11), (cast a.x12), (cast a.x20), (cast a.x21), (cast a.x22)⟩

/-- extracted from the C++ template at T = Sym; 1 path(s) -/
def M44.narrowCtor {α : Type} {β : Type} (cast : β → α) (a : M44 β) : (M44 α) :=
  ⟨(cast a.x00), (cast a.x01), (cast a.x02), (cast a.x03), (cast a.x10), (cast a.x11), (cast a.x12), (cast a.x13), (cast a.x20), (cast a.x21), (cast a.x22), (cast a.x23), (cast a.x30), (cast a.x31), (cast a.x32), (cast a.x33)⟩

/-- extracted from the C++ template at T = Sym; 1 path(s) -/
def M44.narrowSetValueM {α : Type} {β : Type} (cast : β → α) (a : M44 α) (b : M44 β) : (M44 α) :=
  ⟨(cast b.x00), (cast b.x01), (cast b.x02), (cast b.x03), (cast b.x10), (cast b.x11), (cast b.x12), (cast b.x13), (cast b.x20), (cast b.x21), (cast b.x22), (cast b.x23), (cast b.x30), (cast b.x31), (cast b.x32), (cast b.x33)⟩

/-- extracted from the C++ template at T = Sym; 1 path(s) -/
def M44.narrowGetValueM {α : Type} {β : Type} (cast : β → α) (a : M44 β) (b : M44 α) : (M44 α) :=
  ⟨(cast a.x00), (cast a.x01), (cast a.x02), (cast a.x03), (cast a.x10), (cast a.x11), (cast a.x12), (cast a.x13), (cast a.x20), (cast a.x21), (cast a.x22), (cast a.x23), (cast a.x30), (cast a.x31), (cast a.x32), (cast a.x33)⟩

/-- extracted from the C++ template at T = Sym; 1 path(s) -/
def M22.narrowSetTheMatrix {α : Type} {β : Type} (cast : β → α) (a : M22 α) (b : M22 β) : (M22 α) :=
  ⟨(cast b.x00), (cast b.x01), (cast b.x10), (cast b.x11)⟩

/-- extracted from the C++ template at T = Sym; 1 path(s) -/
def M33.narrowSetTheMatrix {α : Type} {β : Type} (cast : β → α) (a : M33 α) (b : M33 β) : (M33 α) :=
  ⟨(cast b.x00), (cast b.x01), (cast b.x02), (cast b.x10), (cast b.x11), (cast b.x12), (cast b.x20), (cast b.x21), (cast b.x22)⟩

/-- extracted from the C++ template at T = Sym; 1 path(s) -/
def M44.narrowSetTheMatrix {α : Type} {β : Type} (cast : β → α) (a : M44 α) (b : M44 β) : (M44 α) :=
  ⟨(cast b.x00), (cast b.x01), (cast b.x02), (cast b.x03), (cast b.x10), (cast b.x11), (cast b.x12), (cast b.x13), (cast b.x20), (cast b.x21), (cast b.x22), (cast b.x23), (cast b.x30), (cast b.x31), (cast b.x32), (cast b.x33)⟩

/-- extracted from the C++ template at T = Sym; 1 path(s) -/
def M22.interopArr2 {α : Type} (a : M22 α) : (M22 α) :=
  ⟨a.x00, a.x01, a.x10, a.x11⟩

/-- extracted from the C++ template at T = Sym; 1 path(s) -/
def M33.interopArr2 {α : Type} (a : M33 α) : (M33 α) :=
  ⟨a.x00, a.x01, a.x02, a.x10, a.x11, a.x12, a.x20, a.x21, a.x22⟩

/-- extracted from the C++ template at T = Sym; 1 path(s) -/
def M44.interopArr2 {α : Type} (a : M44 α) : (M44 α) :=
  ⟨a.x00, a.x01, a.x02, a.x03, a.x10, a.x11, a.x12, a.x13, a.x20, a.x21, a.x22, a.x23, a.x30, a.x31, a.x32, a.x33⟩

/-- extracted from the C++ template at T = Sym; 1 path(s) -/
def M22.assign {α : Type} (a : M22 α) (b : M22 α) : (M22 α) :=
  ⟨b.x00, b.x01, b.x10, b.x11⟩

/-- extracted from the C++ template at T = Sym; 1 path(s) -/
def M22.copyCtor {α : Type} (a : M22 α) : (M22 α) :=
  ⟨a.x00, a.x01, a.x10, a.x11⟩

/-- extracted from the C++ template at T = Sym; 1 path(s) -/
def M33.assign {α : Type} (a : M33 α) (b : M33 α) : (M33 α) :=
  ⟨b.x00, b.x01, b.x02, b.x10, b.x11, b.x12, b.x20, b.x21, b.x22⟩

/-- extracted from the C++ template at T = Sym; 1 path(s) -/
def M33.copyCtor {α : Type} (a : M33 α) : (M33 α) :=
  ⟨a.x00, a.x01, a.x02, a.x10, a.x11, a.x12, a.x20, a.x21, a.x22⟩

/-- extracted from the C++ template at T = Sym; 1 path(s) -/
def M44.assign {α : Type} (a : M44 α) (b : M44 α) : (M44 α) :=
  ⟨b.x00, b.x01, b.x02, b.x03, b.x10, b.x11, b.x12, b.x13, b.x20, b.x21, b.x22, b.x23, b.x30, b.x31, b.x32, b.x33⟩

/-- extracted from the C++ template at T = Sym; 1 path(s) -/
def M44.copyCtor {α : Type} (a : M44 α) : (M44 α) :=
  ⟨a.x00, a.x01, a.x02, a.x03, a.x10, a.x11, a.x12, a.x13, a.x20, a.x21, a.x22, a.x23, a.x30, a.x31, a.x32, a.x33⟩

/-- extracted from the C++ template at T = Sym; 1 path(s) -/
def M44.ctorRT {α : Type} [OfNat α 0] [OfNat α 1] (r : M33 α) (t : V3 α) : (M44 α) :=
  ⟨r.x00, r.x01, r.x02, (0 : α), r.x10, r.x11, r.x12, (0 : α), r.x20, r.x21, r.x22, (0 : α), t.x, t.y, t.z, (1 : α)⟩

end ImathVerif.Gen
