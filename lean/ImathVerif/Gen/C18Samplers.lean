-- GENERATED from /repo/src/Imath by harness/sym (T = Sym path extraction); do not edit.
import ImathVerif.Basic.Types
import ImathVerif.Gen.Leaf
set_option linter.unusedVariables false
namespace ImathVerif.Gen
open ImathVerif

/-- extracted from the C++ template at T = Sym; 2 path(s) -/
def C18.solidSphere2_iter {α : Type} [Add α] [Mul α] [LT α] [DecidableLT α] [OfNat α 1] (v : V2 α) : Except Exc (V2 α) :=
  let t7 := ((v.x * v.x) + (v.y * v.y))
  if (1 : α) < t7 then
    .error Exc.outOfRange
  else
    .ok (⟨v.x, v.y⟩)

/-- extracted from the C++ template at T = Sym; 3 path(s) -/
def C18.hollowSphere2_iter {α : Type} [Add α] [Mul α] [Div α] [Neg α] [LT α] [DecidableLT α] [DecidableEq α] [OfNat α 0] [OfNat α 1] [OfNat α 2] (tmin : α) (tmax : α) (sqrt : α → α) (v : V2 α) : Except Exc (V2 α) :=
  let t8 := (V2.length tmin tmax sqrt ⟨v.x, v.y⟩)
  if (1 : α) < t8 then
    .error Exc.outOfRange
  else
    if t8 = (0 : α) then
      .error Exc.outOfRange
    else
      .ok (⟨(v.x / t8), (v.y / t8)⟩)

/-- extracted from the C++ template at T = Sym; 3 path(s) -/
def C18.gaussSphere2_body {α : Type} [Add α] [Mul α] [Div α] [Neg α] [LT α] [DecidableLT α] [DecidableEq α] [OfNat α 0] [OfNat α 1] [OfNat α 2] (tmin : α) (tmax : α) (sqrt : α → α) (g : α) (v : V2 α) : Except Exc (V2 α) :=
  let t8 := (V2.length tmin tmax sqrt ⟨v.x, v.y⟩)
  if (1 : α) < t8 then
    .error Exc.outOfRange
  else
    if t8 = (0 : α) then
      .error Exc.outOfRange
    else
      .ok (⟨((v.x / t8) * g), ((v.y / t8) * g)⟩)

/-- extracted from the C++ template at T = Sym; 2 path(s) -/
def C18.solidSphere3_iter {α : Type} [Add α] [Mul α] [LT α] [DecidableLT α] [OfNat α 1] (v : V3 α) : Except Exc (V3 α) :=
  let t16 := (((v.x * v.x) + (v.y * v.y)) + (v.z * v.z))
  if (1 : α) < t16 then
    .error Exc.outOfRange
  else
    .ok (⟨v.x, v.y, v.z⟩)

/-- extracted from the C++ template at T = Sym; 3 path(s) -/
def C18.hollowSphere3_iter {α : Type} [Add α] [Mul α] [Div α] [Neg α] [LT α] [LE α] [DecidableLT α] [DecidableLE α] [DecidableEq α] [OfNat α 0] [OfNat α 1] [OfNat α 2] (tmin : α) (tmax : α) (sqrt : α → α) (v : V3 α) : Except Exc (V3 α) :=
  let t17 := (V3.length tmin tmax sqrt ⟨v.x, v.y, v.z⟩)
  if (1 : α) < t17 then
    .error Exc.outOfRange
  else
    if t17 = (0 : α) then
      .error Exc.outOfRange
    else
      .ok (⟨(v.x / t17), (v.y / t17), (v.z / t17)⟩)

/-- extracted from the C++ template at T = Sym; 3 path(s) -/
def C18.gaussSphere3_body {α : Type} [Add α] [Mul α] [Div α] [Neg α] [LT α] [LE α] [DecidableLT α] [DecidableLE α] [DecidableEq α] [OfNat α 0] [OfNat α 1] [OfNat α 2] (tmin : α) (tmax : α) (sqrt : α → α) (g : α) (v : V3 α) : Except Exc (V3 α) :=
  let t17 := (V3.length tmin tmax sqrt ⟨v.x, v.y, v.z⟩)
  if (1 : α) < t17 then
    .error Exc.outOfRange
  else
    if t17 = (0 : α) then
      .error Exc.outOfRange
    else
      .ok (⟨((v.x / t17) * g), ((v.y / t17) * g), ((v.z / t17) * g)⟩)

/-- extracted from the C++ template at T = Sym; 2 path(s) -/
def C18.solidSphere4_iter {α : Type} [Add α] [Mul α] [LT α] [DecidableLT α] [OfNat α 1] (v : V4 α) : Except Exc (V4 α) :=
  let t26 := ((((v.x * v.x) + (v.y * v.y)) + (v.z * v.z)) + (v.w * v.w))
  if (1 : α) < t26 then
    .error Exc.outOfRange
  else
    .ok (⟨v.x, v.y, v.z, v.w⟩)

/-- extracted from the C++ template at T = Sym; 3 path(s) -/
def C18.hollowSphere4_iter {α : Type} [Add α] [Mul α] [Div α] [Neg α] [LT α] [LE α] [DecidableLT α] [DecidableLE α] [DecidableEq α] [OfNat α 0] [OfNat α 1] [OfNat α 2] (tmin : α) (tmax : α) (sqrt : α → α) (v : V4 α) : Except Exc (V4 α) :=
  let t27 := (V4.length tmin tmax sqrt ⟨v.x, v.y, v.z, v.w⟩)
  if (1 : α) < t27 then
    .error Exc.outOfRange
  else
    if t27 = (0 : α) then
      .error Exc.outOfRange
    else
      .ok (⟨(v.x / t27), (v.y / t27), (v.z / t27), (v.w / t27)⟩)

/-- extracted from the C++ template at T = Sym; 3 path(s) -/
def C18.gaussSphere4_body {α : Type} [Add α] [Mul α] [Div α] [Neg α] [LT α] [LE α] [DecidableLT α] [DecidableLE α] [DecidableEq α] [OfNat α 0] [OfNat α 1] [OfNat α 2] (tmin : α) (tmax : α) (sqrt : α → α) (g : α) (v : V4 α) : Except Exc (V4 α) :=
  let t27 := (V4.length tmin tmax sqrt ⟨v.x, v.y, v.z, v.w⟩)
  if (1 : α) < t27 then
    .error Exc.outOfRange
  else
    if t27 = (0 : α) then
      .error Exc.outOfRange
    else
      .ok (⟨((v.x / t27) * g), ((v.y / t27) * g), ((v.z / t27) * g), ((v.w / t27) * g)⟩)

end ImathVerif.Gen
