-- GENERATED from /repo/src/Imath by harness/sym (T = Sym path extraction); do not edit.
import ImathVerif.Basic.Types
set_option linter.unusedVariables false
namespace ImathVerif.Gen
open ImathVerif

/-- extracted from the C++ template at T = Sym; 1 path(s) -/
def Quat.add {α : Type} [Add α] (a : Quat α) (b : Quat α) : (Quat α) :=
  ⟨(a.r + b.r), ⟨(a.v.x + b.v.x), (a.v.y + b.v.y), (a.v.z + b.v.z)⟩⟩

/-- extracted from the C++ template at T = Sym; 1 path(s) -/
def Quat.addAssign {α : Type} [Add α] (a : Quat α) (b : Quat α) : (Quat α) :=
  ⟨(a.r + b.r), ⟨(a.v.x + b.v.x), (a.v.y + b.v.y), (a.v.z + b.v.z)⟩⟩

/-- extracted from the C++ template at T = Sym; 1 path(s) -/
def Quat.sub {α : Type} [Sub α] (a : Quat α) (b : Quat α) : (Quat α) :=
  ⟨(a.r - b.r), ⟨(a.v.x - b.v.x), (a.v.y - b.v.y), (a.v.z - b.v.z)⟩⟩

/-- extracted from the C++ template at T = Sym; 1 path(s) -/
def Quat.subAssign {α : Type} [Sub α] (a : Quat α) (b : Quat α) : (Quat α) :=
  ⟨(a.r - b.r), ⟨(a.v.x - b.v.x), (a.v.y - b.v.y), (a.v.z - b.v.z)⟩⟩

/-- extracted from the C++ template at T = Sym; 1 path(s) -/
def Quat.neg {α : Type} [Neg α] (a : Quat α) : (Quat α) :=
  ⟨(-a.r), ⟨(-a.v.x), (-a.v.y), (-a.v.z)⟩⟩

/-- extracted from the C++ template at T = Sym; 1 path(s) -/
def Quat.mulS {α : Type} [Mul α] (a : Quat α) (s : α) : (Quat α) :=
  ⟨(a.r * s), ⟨(a.v.x * s), (a.v.y * s), (a.v.z * s)⟩⟩

/-- extracted from the C++ template at T = Sym; 1 path(s) -/
def Quat.mulSAssign {α : Type} [Mul α] (a : Quat α) (s : α) : (Quat α) :=
  ⟨(a.r * s), ⟨(a.v.x * s), (a.v.y * s), (a.v.z * s)⟩⟩

/-- extracted from the C++ template at T = Sym; 1 path(s) -/
def Quat.smul {α : Type} [Mul α] (s : α) (a : Quat α) : (Quat α) :=
  ⟨(a.r * s), ⟨(a.v.x * s), (a.v.y * s), (a.v.z * s)⟩⟩

/-- extracted from the C++ template at T = Sym; 1 path(s) -/
def Quat.divS {α : Type} [Div α] (a : Quat α) (s : α) : (Quat α) :=
  ⟨(a.r / s), ⟨(a.v.x / s), (a.v.y / s), (a.v.z / s)⟩⟩

/-- extracted from the C++ template at T = Sym; 1 path(s) -/
def Quat.divSAssign {α : Type} [Div α] (a : Quat α) (s : α) : (Quat α) :=
  ⟨(a.r / s), ⟨(a.v.x / s), (a.v.y / s), (a.v.z / s)⟩⟩

/-- extracted from the C++ template at T = Sym; 5 path(s) -/
def Quat.eq {α : Type} [DecidableEq α] (a : Quat α) (b : Quat α) : Bool :=
  if a.r = b.r then
    if a.v.x = b.v.x then
      if a.v.y = b.v.y then
        if a.v.z = b.v.z then
          true
        else
          false
      else
        false
    else
      false
  else
    false

/-- extracted from the C++ template at T = Sym; 5 path(s) -/
def Quat.ne {α : Type} [DecidableEq α] (a : Quat α) (b : Quat α) : Bool :=
  if a.r = b.r then
    if a.v.x = b.v.x then
      if a.v.y = b.v.y then
        if a.v.z = b.v.z then
          false
        else
          true
      else
        true
    else
      true
  else
    true

/-- extracted from the C++ template at T = Sym; 1 path(s) -/
def Quat.indexAll {α : Type} (a : Quat α) : (Quat α) :=
  ⟨a.r, ⟨a.v.x, a.v.y, a.v.z⟩⟩

/-- extracted from the C++ template at T = Sym; 1 path(s) -/
def Quat.setIndexAll {α : Type} (a : Quat α) (b : Quat α) : (Quat α) :=
  ⟨b.r, ⟨b.v.x, b.v.y, b.v.z⟩⟩

/-- extracted from the C++ template at T = Sym; 1 path(s) -/
def Quat.convertCtor {α : Type} (a : Quat α) : (Quat α) :=
  ⟨a.r, ⟨a.v.x, a.v.y, a.v.z⟩⟩

/-- extracted from the C++ template at T = Sym; 1 path(s) -/
def Quat.ctor4 {α : Type} (a : Quat α) : (Quat α) :=
  ⟨a.r, ⟨a.v.x, a.v.y, a.v.z⟩⟩

/-- extracted from the C++ template at T = Sym; 1 path(s) -/
def Quat.ctorSV {α : Type} (a : Quat α) : (Quat α) :=
  ⟨a.r, ⟨a.v.x, a.v.y, a.v.z⟩⟩

/-- extracted from the C++ template at T = Sym; 1 path(s) -/
def Quat.narrowCtor {α : Type} {β : Type} (cast : β → α) (a : Quat β) : (Quat α) :=
  ⟨(cast a.r), ⟨(cast a.v.x), (cast a.v.y), (cast a.v.z)⟩⟩

/-- extracted from the C++ template at T = Sym; 1 path(s) -/
def Quat.assign {α : Type} (a : Quat α) (b : Quat α) : (Quat α) :=
  ⟨b.r, ⟨b.v.x, b.v.y, b.v.z⟩⟩

/-- extracted from the C++ template at T = Sym; 1 path(s) -/
def Quat.copyCtor {α : Type} (a : Quat α) : (Quat α) :=
  ⟨a.r, ⟨a.v.x, a.v.y, a.v.z⟩⟩

end ImathVerif.Gen
