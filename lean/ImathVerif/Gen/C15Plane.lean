-- GENERATED from /repo/src/Imath by harness/sym (T = Sym path extraction); do not edit.
import ImathVerif.Basic.Types
import ImathVerif.Gen.Leaf
set_option linter.unusedVariables false
namespace ImathVerif.Gen
open ImathVerif

/-- extracted from the C++ template at T = Sym; 2 path(s) -/
def Plane3.setPoints {α : Type} [Add α] [Sub α] [Mul α] [Div α] [Neg α] [LT α] [LE α] [DecidableLT α] [DecidableLE α] [DecidableEq α] [OfNat α 0] [OfNat α 2] (tmin : α) (tmax : α) (sqrt : α → α) (p1 : V3 α) (p2 : V3 α) (p3 : V3 α) : (Plane3 α) :=
  let t734 := (p3.z - p1.z)
  let t735 := (p3.y - p1.y)
  let t736 := (p3.x - p1.x)
  let t737 := (p2.z - p1.z)
  let t738 := (p2.y - p1.y)
  let t739 := (p2.x - p1.x)
  let t742 := ((t739 * t735) - (t738 * t736))
  let t745 := ((t737 * t736) - (t739 * t734))
  let t748 := ((t738 * t734) - (t737 * t735))
  let t749 := (V3.length tmin tmax sqrt ⟨t748, t745, t742⟩)
  let t755 := (t748 / t749)
  let t756 := (t745 / t749)
  let t757 := (t742 / t749)
  if t749 = (0 : α) then
    ⟨⟨t748, t745, t742⟩, (((t748 * p1.x) + (t745 * p1.y)) + (t742 * p1.z))⟩
  else
    ⟨⟨t755, t756, t757⟩, (((t755 * p1.x) + (t756 * p1.y)) + (t757 * p1.z))⟩

/-- extracted from the C++ template at T = Sym; 2 path(s) -/
def Plane3.setPointNormal {α : Type} [Add α] [Mul α] [Div α] [Neg α] [LT α] [LE α] [DecidableLT α] [DecidableLE α] [DecidableEq α] [OfNat α 0] [OfNat α 2] (tmin : α) (tmax : α) (sqrt : α → α) (point : V3 α) (n : V3 α) : (Plane3 α) :=
  let t769 := (V3.length tmin tmax sqrt ⟨n.x, n.y, n.z⟩)
  let t775 := (n.x / t769)
  let t776 := (n.y / t769)
  let t777 := (n.z / t769)
  if t769 = (0 : α) then
    ⟨⟨n.x, n.y, n.z⟩, (((n.x * point.x) + (n.y * point.y)) + (n.z * point.z))⟩
  else
    ⟨⟨t775, t776, t777⟩, (((t775 * point.x) + (t776 * point.y)) + (t777 * point.z))⟩

/-- extracted from the C++ template at T = Sym; 2 path(s) -/
def Plane3.setNormalDistance {α : Type} [Add α] [Mul α] [Div α] [Neg α] [LT α] [LE α] [DecidableLT α] [DecidableLE α] [DecidableEq α] [OfNat α 0] [OfNat α 2] (tmin : α) (tmax : α) (sqrt : α → α) (n : V3 α) (d : α) : (Plane3 α) :=
  let t769 := (V3.length tmin tmax sqrt ⟨n.x, n.y, n.z⟩)
  if t769 = (0 : α) then
    ⟨⟨n.x, n.y, n.z⟩, d⟩
  else
    ⟨⟨(n.x / t769), (n.y / t769), (n.z / t769)⟩, d⟩

/-- extracted from the C++ template at T = Sym; 2 path(s) -/
def Plane3.ctorPoints {α : Type} [Add α] [Sub α] [Mul α] [Div α] [Neg α] [LT α] [LE α] [DecidableLT α] [DecidableLE α] [DecidableEq α] [OfNat α 0] [OfNat α 2] (tmin : α) (tmax : α) (sqrt : α → α) (p1 : V3 α) (p2 : V3 α) (p3 : V3 α) : (Plane3 α) :=
  let t734 := (p3.z - p1.z)
  let t735 := (p3.y - p1.y)
  let t736 := (p3.x - p1.x)
  let t737 := (p2.z - p1.z)
  let t738 := (p2.y - p1.y)
  let t739 := (p2.x - p1.x)
  let t742 := ((t739 * t735) - (t738 * t736))
  let t745 := ((t737 * t736) - (t739 * t734))
  let t748 := ((t738 * t734) - (t737 * t735))
  let t749 := (V3.length tmin tmax sqrt ⟨t748, t745, t742⟩)
  let t755 := (t748 / t749)
  let t756 := (t745 / t749)
  let t757 := (t742 / t749)
  if t749 = (0 : α) then
    ⟨⟨t748, t745, t742⟩, (((t748 * p1.x) + (t745 * p1.y)) + (t742 * p1.z))⟩
  else
    ⟨⟨t755, t756, t757⟩, (((t755 * p1.x) + (t756 * p1.y)) + (t757 * p1.z))⟩

/-- extracted from the C++ template at T = Sym; 2 path(s) -/
def Plane3.ctorPointNormal {α : Type} [Add α] [Mul α] [Div α] [Neg α] [LT α] [LE α] [DecidableLT α] [DecidableLE α] [DecidableEq α] [OfNat α 0] [OfNat α 2] (tmin : α) (tmax : α) (sqrt : α → α) (point : V3 α) (n : V3 α) : (Plane3 α) :=
  let t769 := (V3.length tmin tmax sqrt ⟨n.x, n.y, n.z⟩)
  let t775 := (n.x / t769)
  let t776 := (n.y / t769)
  let t777 := (n.z / t769)
  if t769 = (0 : α) then
    ⟨⟨n.x, n.y, n.z⟩, (((n.x * point.x) + (n.y * point.y)) + (n.z * point.z))⟩
  else
    ⟨⟨t775, t776, t777⟩, (((t775 * point.x) + (t776 * point.y)) + (t777 * point.z))⟩

/-- extracted from the C++ template at T = Sym; 2 path(s) -/
def Plane3.ctorNormalDistance {α : Type} [Add α] [Mul α] [Div α] [Neg α] [LT α] [LE α] [DecidableLT α] [DecidableLE α] [DecidableEq α] [OfNat α 0] [OfNat α 2] (tmin : α) (tmax : α) (sqrt : α → α) (n : V3 α) (d : α) : (Plane3 α) :=
  let t769 := (V3.length tmin tmax sqrt ⟨n.x, n.y, n.z⟩)
  if t769 = (0 : α) then
    ⟨⟨n.x, n.y, n.z⟩, d⟩
  else
    ⟨⟨(n.x / t769), (n.y / t769), (n.z / t769)⟩, d⟩

/-- extracted from the C++ template at T = Sym; 1 path(s) -/
def Plane3.distanceTo {α : Type} [Add α] [Sub α] [Mul α] (pl : Plane3 α) (p : V3 α) : α :=
  ((((p.x * pl.normal.x) + (p.y * pl.normal.y)) + (p.z * pl.normal.z)) - pl.distance)

/-- extracted from the C++ template at T = Sym; 1 path(s) -/
def Plane3.reflectPoint {α : Type} [Add α] [Sub α] [Mul α] [Neg α] [OfNat α 2] (pl : Plane3 α) (p : V3 α) : (V3 α) :=
  let t793 := ((((p.x * pl.normal.x) + (p.y * pl.normal.y)) + (p.z * pl.normal.z)) - pl.distance)
  ⟨(((pl.normal.x * t793) * (-(2 : α))) + p.x), (((pl.normal.y * t793) * (-(2 : α))) + p.y), (((pl.normal.z * t793) * (-(2 : α))) + p.z)⟩

/-- extracted from the C++ template at T = Sym; 1 path(s) -/
def Plane3.reflectVector {α : Type} [Add α] [Sub α] [Mul α] [OfNat α 2] (pl : Plane3 α) (v : V3 α) : (V3 α) :=
  let t811 := (((pl.normal.x * v.x) + (pl.normal.y * v.y)) + (pl.normal.z * v.z))
  ⟨(((pl.normal.x * t811) * (2 : α)) - v.x), (((pl.normal.y * t811) * (2 : α)) - v.y), (((pl.normal.z * t811) * (2 : α)) - v.z)⟩

/-- extracted from the C++ template at T = Sym; 2 path(s) -/
def Plane3.intersect {α : Type} [Add α] [Sub α] [Mul α] [Div α] [Neg α] [DecidableEq α] [OfNat α 0] (pl : Plane3 α) (l : Line3 α) : (Bool × (V3 α)) :=
  let t825 := (((pl.normal.x * l.dir.x) + (pl.normal.y * l.dir.y)) + (pl.normal.z * l.dir.z))
  let t833 := ((-((((pl.normal.x * l.pos.x) + (pl.normal.y * l.pos.y)) + (pl.normal.z * l.pos.z)) - pl.distance)) / t825)
  if t825 = (0 : α) then
    (false, ⟨(0 : α), (0 : α), (0 : α)⟩)
  else
    (true, ⟨(l.pos.x + (l.dir.x * t833)), (l.pos.y + (l.dir.y * t833)), (l.pos.z + (l.dir.z * t833))⟩)

/-- extracted from the C++ template at T = Sym; 2 path(s) -/
def Plane3.intersectT {α : Type} [Add α] [Sub α] [Mul α] [Div α] [Neg α] [DecidableEq α] [OfNat α 0] (pl : Plane3 α) (l : Line3 α) : (Bool × α) :=
  let t825 := (((pl.normal.x * l.dir.x) + (pl.normal.y * l.dir.y)) + (pl.normal.z * l.dir.z))
  if t825 = (0 : α) then
    (false, (0 : α))
  else
    (true, ((-((((pl.normal.x * l.pos.x) + (pl.normal.y * l.pos.y)) + (pl.normal.z * l.pos.z)) - pl.distance)) / t825))

/-- extracted from the C++ template at T = Sym; 2 path(s) -/
def Plane3.neg {α : Type} [Add α] [Mul α] [Div α] [Neg α] [LT α] [LE α] [DecidableLT α] [DecidableLE α] [DecidableEq α] [OfNat α 0] [OfNat α 2] (tmin : α) (tmax : α) (sqrt : α → α) (pl : Plane3 α) : (Plane3 α) :=
  let t840 := (-pl.distance)
  let t841 := (-pl.normal.z)
  let t842 := (-pl.normal.y)
  let t843 := (-pl.normal.x)
  let t844 := (V3.length tmin tmax sqrt ⟨t843, t842, t841⟩)
  if t844 = (0 : α) then
    ⟨⟨t843, t842, t841⟩, t840⟩
  else
    ⟨⟨(t843 / t844), (t842 / t844), (t841 / t844)⟩, t840⟩

end ImathVerif.Gen
