-- GENERATED from /repo/src/Imath by harness/sym (T = Sym path extraction); do not edit.
import ImathVerif.Basic.Types
import ImathVerif.Gen.Leaf
set_option linter.unusedVariables false
namespace ImathVerif.Gen
open ImathVerif

/-- extracted from the C++ template at T = Sym; 2 path(s) -/
def Plane3.setPoints {α : Type} [Add α] [Sub α] [Mul α] [Div α] [Neg α] [LT α] [LE α] [DecidableLT α] [DecidableLE α] [DecidableEq α] [OfNat α 0] [OfNat α 2] (tmin : α) (tmax : α) (sqrt : α → α) (p1 : V3 α) (p2 : V3 α) (p3 : V3 α) : (Plane3 α) :=
  let t812 := (p3.z - p1.z)
  let t813 := (p3.y - p1.y)
  let t814 := (p3.x - p1.x)
  let t815 := (p2.z - p1.z)
  let t816 := (p2.y - p1.y)
  let t817 := (p2.x - p1.x)
  let t820 := ((t817 * t813) - (t816 * t814))
  let t823 := ((t815 * t814) - (t817 * t812))
  let t826 := ((t816 * t812) - (t815 * t813))
  let t827 := (V3.length tmin tmax sqrt ⟨t826, t823, t820⟩)
  let t833 := (t826 / t827)
  let t834 := (t823 / t827)
  let t835 := (t820 / t827)
  if t827 = (0 : α) then
    ⟨⟨t826, t823, t820⟩, (((t826 * p1.x) + (t823 * p1.y)) + (t820 * p1.z))⟩
  else
    ⟨⟨t833, t834, t835⟩, (((t833 * p1.x) + (t834 * p1.y)) + (t835 * p1.z))⟩

/-- extracted from the C++ template at T = Sym; 2 path(s) -/
def Plane3.setPointNormal {α : Type} [Add α] [Mul α] [Div α] [Neg α] [LT α] [LE α] [DecidableLT α] [DecidableLE α] [DecidableEq α] [OfNat α 0] [OfNat α 2] (tmin : α) (tmax : α) (sqrt : α → α) (point : V3 α) (n : V3 α) : (Plane3 α) :=
  let t847 := (V3.length tmin tmax sqrt ⟨n.x, n.y, n.z⟩)
  let t853 := (n.x / t847)
  let t854 := (n.y / t847)
  let t855 := (n.z / t847)
  if t847 = (0 : α) then
    ⟨⟨n.x, n.y, n.z⟩, (((n.x * point.x) + (n.y * point.y)) + (n.z * point.z))⟩
  else
    ⟨⟨t853, t854, t855⟩, (((t853 * point.x) + (t854 * point.y)) + (t855 * point.z))⟩

/-- extracted from the C++ template at T = Sym; 2 path(s) -/
def Plane3.setNormalDistance {α : Type} [Add α] [Mul α] [Div α] [Neg α] [LT α] [LE α] [DecidableLT α] [DecidableLE α] [DecidableEq α] [OfNat α 0] [OfNat α 2] (tmin : α) (tmax : α) (sqrt : α → α) (n : V3 α) (d : α) : (Plane3 α) :=
  let t847 := (V3.length tmin tmax sqrt ⟨n.x, n.y, n.z⟩)
  if t847 = (0 : α) then
    ⟨⟨n.x, n.y, n.z⟩, d⟩
  else
    ⟨⟨(n.x / t847), (n.y / t847), (n.z / t847)⟩, d⟩

/-- extracted from the C++ template at T = Sym; 2 path(s) -/
def Plane3.ctorPoints {α : Type} [Add α] [Sub α] [Mul α] [Div α] [Neg α] [LT α] [LE α] [DecidableLT α] [DecidableLE α] [DecidableEq α] [OfNat α 0] [OfNat α 2] (tmin : α) (tmax : α) (sqrt : α → α) (p1 : V3 α) (p2 : V3 α) (p3 : V3 α) : (Plane3 α) :=
  let t812 := (p3.z - p1.z)
  let t813 := (p3.y - p1.y)
  let t814 := (p3.x - p1.x)
  let t815 := (p2.z - p1.z)
  let t816 := (p2.y - p1.y)
  let t817 := (p2.x - p1.x)
  let t820 := ((t817 * t813) - (t816 * t814))
  let t823 := ((t815 * t814) - (t817 * t812))
  let t826 := ((t816 * t812) - (t815 * t813))
  let t827 := (V3.length tmin tmax sqrt ⟨t826, t823, t820⟩)
  let t833 := (t826 / t827)
  let t834 := (t823 / t827)
  let t835 := (t820 / t827)
  if t827 = (0 : α) then
    ⟨⟨t826, t823, t820⟩, (((t826 * p1.x) + (t823 * p1.y)) + (t820 * p1.z))⟩
  else
    ⟨⟨t833, t834, t835⟩, (((t833 * p1.x) + (t834 * p1.y)) + (t835 * p1.z))⟩

/-- extracted from the C++ template at T = Sym; 2 path(s) -/
def Plane3.ctorPointNormal {α : Type} [Add α] [Mul α] [Div α] [Neg α] [LT α] [LE α] [DecidableLT α] [DecidableLE α] [DecidableEq α] [OfNat α 0] [OfNat α 2] (tmin : α) (tmax : α) (sqrt : α → α) (point : V3 α) (n : V3 α) : (Plane3 α) :=
  let t847 := (V3.length tmin tmax sqrt ⟨n.x, n.y, n.z⟩)
  let t853 := (n.x / t847)
  let t854 := (n.y / t847)
  let t855 := (n.z / t847)
  if t847 = (0 : α) then
    ⟨⟨n.x, n.y, n.z⟩, (((n.x * point.x) + (n.y * point.y)) + (n.z * point.z))⟩
  else
    ⟨⟨t853, t854, t855⟩, (((t853 * point.x) + (t854 * point.y)) + (t855 * point.z))⟩

/-- extracted from the C++ template at T = Sym; 2 path(s) -/
def Plane3.ctorNormalDistance {α : Type} [Add α] [Mul α] [Div α] [Neg α] [LT α] [LE α] [DecidableLT α] [DecidableLE α] [DecidableEq α] [OfNat α 0] [OfNat α 2] (tmin : α) (tmax : α) (sqrt : α → α) (n : V3 α) (d : α) : (Plane3 α) :=
  let t847 := (V3.length tmin tmax sqrt ⟨n.x, n.y, n.z⟩)
  if t847 = (0 : α) then
    ⟨⟨n.x, n.y, n.z⟩, d⟩
  else
    ⟨⟨(n.x / t847), (n.y / t847), (n.z / t847)⟩, d⟩

/-- extracted from the C++ template at T = Sym; 1 path(s) -/
def Plane3.distanceTo {α : Type} [Add α] [Sub α] [Mul α] (pl : Plane3 α) (p : V3 α) : α :=
  ((((p.x * pl.normal.x) + (p.y * pl.normal.y)) + (p.z * pl.normal.z)) - pl.distance)

/-- extracted from the C++ template at T = Sym; 1 path(s) -/
def Plane3.reflectPoint {α : Type} [Add α] [Sub α] [Mul α] [Neg α] [OfNat α 2] (pl : Plane3 α) (p : V3 α) : (V3 α) :=
  let t871 := ((((p.x * pl.normal.x) + (p.y * pl.normal.y)) + (p.z * pl.normal.z)) - pl.distance)
  ⟨(((pl.normal.x * t871) * (-(2 : α))) + p.x), (((pl.normal.y * t871) * (-(2 : α))) + p.y), (((pl.normal.z * t871) * (-(2 : α))) + p.z)⟩

/-- extracted from the C++ template at T = Sym; 1 path(s) -/
def Plane3.reflectVector {α : Type} [Add α] [Sub α] [Mul α] [OfNat α 2] (pl : Plane3 α) (v : V3 α) : (V3 α) :=
  let t889 := (((pl.normal.x * v.x) + (pl.normal.y * v.y)) + (pl.normal.z * v.z))
  ⟨(((pl.normal.x * t889) * (2 : α)) - v.x), (((pl.normal.y * t889) * (2 : α)) - v.y), (((pl.normal.z * t889) * (2 : α)) - v.z)⟩

/-- extracted from the C++ template at T = Sym; 2 path(s) -/
def Plane3.intersect {α : Type} [Add α] [Sub α] [Mul α] [Div α] [Neg α] [DecidableEq α] [OfNat α 0] (pl : Plane3 α) (l : Line3 α) : (Bool × (V3 α)) :=
  let t903 := (((pl.normal.x * l.dir.x) + (pl.normal.y * l.dir.y)) + (pl.normal.z * l.dir.z))
  let t911 := ((-((((pl.normal.x * l.pos.x) + (pl.normal.y * l.pos.y)) + (pl.normal.z * l.pos.z)) - pl.distance)) / t903)
  if t903 = (0 : α) then
    (false, ⟨(0 : α), (0 : α), (0 : α)⟩)
  else
    (true, ⟨(l.pos.x + (l.dir.x * t911)), (l.pos.y + (l.dir.y * t911)), (l.pos.z + (l.dir.z * t911))⟩)

/-- extracted from the C++ template at T = Sym; 2 path(s) -/
def Plane3.intersectT {α : Type} [Add α] [Sub α] [Mul α] [Div α] [Neg α] [DecidableEq α] [OfNat α 0] (pl : Plane3 α) (l : Line3 α) : (Bool × α) :=
  let t903 := (((pl.normal.x * l.dir.x) + (pl.normal.y * l.dir.y)) + (pl.normal.z * l.dir.z))
  if t903 = (0 : α) then
    (false, (0 : α))
  else
    (true, ((-((((pl.normal.x * l.pos.x) + (pl.normal.y * l.pos.y)) + (pl.normal.z * l.pos.z)) - pl.distance)) / t903))

/-- extracted from the C++ template at T = Sym; 2 path(s) -/
def Plane3.neg {α : Type} [Add α] [Mul α] [Div α] [Neg α] [LT α] [LE α] [DecidableLT α] [DecidableLE α] [DecidableEq α] [OfNat α 0] [OfNat α 2] (tmin : α) (tmax : α) (sqrt : α → α) (pl : Plane3 α) : (Plane3 α) :=
  let t918 := (-pl.distance)
  let t919 := (-pl.normal.z)
  let t920 := (-pl.normal.y)
  let t921 := (-pl.normal.x)
  let t922 := (V3.length tmin tmax sqrt ⟨t921, t920, t919⟩)
  if t922 = (0 : α) then
    ⟨⟨t921, t920, t919⟩, t918⟩
  else
    ⟨⟨(t921 / t922), (t920 / t922), (t919 / t922)⟩, t918⟩

end ImathVerif.Gen
