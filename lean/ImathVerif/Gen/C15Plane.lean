-- GENERATED from /repo/src/Imath by harness/sym (T = Sym path extraction); do not edit.
import ImathVerif.Basic.Types
import ImathVerif.Gen.Leaf
set_option linter.unusedVariables false
namespace ImathVerif.Gen
open ImathVerif

/-- extracted from the C++ template at T = Sym; 2 path(s) -/
def Plane3.setPoints {α : Type} [Add α] [Sub α] [Mul α] [Div α] [Neg α] [LT α] [LE α] [DecidableLT α] [DecidableLE α] [DecidableEq α] [OfNat α 0] [OfNat α 2] (tmin : α) (tmax : α) (sqrt : α → α) (p1 : V3 α) (p2 : V3 α) (p3 : V3 α) : (Plane3 α) :=
  let t814 := (p3.z - p1.z)
  let t815 := (p3.y - p1.y)
  let t816 := (p3.x - p1.x)
  let t817 := (p2.z - p1.z)
  let t818 := (p2.y - p1.y)
  let t819 := (p2.x - p1.x)
  let t822 := ((t819 * t815) - (t818 * t816))
  let t825 := ((t817 * t816) - (t819 * t814))
  let t828 := ((t818 * t814) - (t817 * t815))
  let t829 := (V3.length tmin tmax sqrt ⟨t828, t825, t822⟩)
  let t835 := (t828 / t829)
  let t836 := (t825 / t829)
  let t837 := (t822 / t829)
  if t829 = (0 : α) then
    ⟨⟨t828, t825, t822⟩, (((t828 * p1.x) + (t825 * p1.y)) + (t822 * p1.z))⟩
  else
    ⟨⟨t835, t836, t837⟩, (((t835 * p1.x) + (t836 * p1.y)) + (t837 * p1.z))⟩

/-- extracted from the C++ template at T = Sym; 2 path(s) -/
def Plane3.setPointNormal {α : Type} [Add α] [Mul α] [Div α] [Neg α] [LT α] [LE α] [DecidableLT α] [DecidableLE α] [DecidableEq α] [OfNat α 0] [OfNat α 2] (tmin : α) (tmax : α) (sqrt : α → α) (point : V3 α) (n : V3 α) : (Plane3 α) :=
  let t849 := (V3.length tmin tmax sqrt ⟨n.x, n.y, n.z⟩)
  let t855 := (n.x / t849)
  let t856 := (n.y / t849)
  let t857 := (n.z / t849)
  if t849 = (0 : α) then
    ⟨⟨n.x, n.y, n.z⟩, (((n.x * point.x) + (n.y * point.y)) + (n.z * point.z))⟩
  else
    ⟨⟨t855, t856, t857⟩, (((t855 * point.x) + (t856 * point.y)) + (t857 * point.z))⟩

/-- extracted from the C++ template at T = Sym; 2 path(s) -/
def Plane3.setNormalDistance {α : Type} [Add α] [Mul α] [Div α] [Neg α] [LT α] [LE α] [DecidableLT α] [DecidableLE α] [DecidableEq α] [OfNat α 0] [OfNat α 2] (tmin : α) (tmax : α) (sqrt : α → α) (n : V3 α) (d : α) : (Plane3 α) :=
  let t849 := (V3.length tmin tmax sqrt ⟨n.x, n.y, n.z⟩)
  if t849 = (0 : α) then
    ⟨⟨n.x, n.y, n.z⟩, d⟩
  else
    ⟨⟨(n.x / t849), (n.y / t849), (n.z / t849)⟩, d⟩

/-- extracted from the C++ template at T = Sym; 2 path(s) -/
def Plane3.ctorPoints {α : Type} [Add α] [Sub α] [Mul α] [Div α] [Neg α] [LT α] [LE α] [DecidableLT α] [DecidableLE α] [DecidableEq α] [OfNat α 0] [OfNat α 2] (tmin : α) (tmax : α) (sqrt : α → α) (p1 : V3 α) (p2 : V3 α) (p3 : V3 α) : (Plane3 α) :=
  let t814 := (p3.z - p1.z)
  let t815 := (p3.y - p1.y)
  let t816 := (p3.x - p1.x)
  let t817 := (p2.z - p1.z)
  let t818 := (p2.y - p1.y)
  let t819 := (p2.x - p1.x)
  let t822 := ((t819 * t815) - (t818 * t816))
  let t825 := ((t817 * t816) - (t819 * t814))
  let t828 := ((t818 * t814) - (t817 * t815))
  let t829 := (V3.length tmin tmax sqrt ⟨t828, t825, t822⟩)
  let t835 := (t828 / t829)
  let t836 := (t825 / t829)
  let t837 := (t822 / t829)
  if t829 = (0 : α) then
    ⟨⟨t828, t825, t822⟩, (((t828 * p1.x) + (t825 * p1.y)) + (t822 * p1.z))⟩
  else
    ⟨⟨t835, t836, t837⟩, (((t835 * p1.x) + (t836 * p1.y)) + (t837 * p1.z))⟩

/-- extracted from the C++ template at T = Sym; 2 path(s) -/
def Plane3.ctorPointNormal {α : Type} [Add α] [Mul α] [Div α] [Neg α] [LT α] [LE α] [DecidableLT α] [DecidableLE α] [DecidableEq α] [OfNat α 0] [OfNat α 2] (tmin : α) (tmax : α) (sqrt : α → α) (point : V3 α) (n : V3 α) : (Plane3 α) :=
  let t849 := (V3.length tmin tmax sqrt ⟨n.x, n.y, n.z⟩)
  let t855 := (n.x / t849)
  let t856 := (n.y / t849)
  let t857 := (n.z / t849)
  if t849 = (0 : α) then
    ⟨⟨n.x, n.y, n.z⟩, (((n.x * point.x) + (n.y * point.y)) + (n.z * point.z))⟩
  else
    ⟨⟨t855, t856, t857⟩, (((t855 * point.x) + (t856 * point.y)) + (t857 * point.z))⟩

/-- extracted from the C++ template at T = Sym; 2 path(s) -/
def Plane3.ctorNormalDistance {α : Type} [Add α] [Mul α] [Div α] [Neg α] [LT α] [LE α] [DecidableLT α] [DecidableLE α] [DecidableEq α] [OfNat α 0] [OfNat α 2] (tmin : α) (tmax : α) (sqrt : α → α) (n : V3 α) (d : α) : (Plane3 α) :=
  let t849 := (V3.length tmin tmax sqrt ⟨n.x, n.y, n.z⟩)
  if t849 = (0 : α) then
    ⟨⟨n.x, n.y, n.z⟩, d⟩
  else
    ⟨⟨(n.x / t849), (n.y / t849), (n.z / t849)⟩, d⟩

/-- extracted from the C++ template at T = Sym; 1 path(s) -/
def Plane3.distanceTo {α : Type} [Add α] [Sub α] [Mul α] (pl : Plane3 α) (p : V3 α) : α :=
  ((((p.x * pl.normal.x) + (p.y * pl.normal.y)) + (p.z * pl.normal.z)) - pl.distance)

/-- extracted from the C++ template at T = Sym; 1 path(s) -/
def Plane3.reflectPoint {α : Type} [Add α] [Sub α] [Mul α] [Neg α] [OfNat α 2] (pl : Plane3 α) (p : V3 α) : (V3 α) :=
  let t873 := ((((p.x * pl.normal.x) + (p.y * pl.normal.y)) + (p.z * pl.normal.z)) - pl.distance)
  ⟨(((pl.normal.x * t873) * (-(2 : α))) + p.x), (((pl.normal.y * t873) * (-(2 : α))) + p.y), (((pl.normal.z * t873) * (-(2 : α))) + p.z)⟩

/-- extracted from the C++ template at T = Sym; 1 path(s) -/
def Plane3.reflectVector {α : Type} [Add α] [Sub α] [Mul α] [OfNat α 2] (pl : Plane3 α) (v : V3 α) : (V3 α) :=
  let t891 := (((pl.normal.x * v.x) + (pl.normal.y * v.y)) + (pl.normal.z * v.z))
  ⟨(((pl.normal.x * t891) * (2 : α)) - v.x), (((pl.normal.y * t891) * (2 : α)) - v.y), (((pl.normal.z * t891) * (2 : α)) - v.z)⟩

/-- extracted from the C++ template at T = Sym; 2 path(s) -/
def Plane3.intersect {α : Type} [Add α] [Sub α] [Mul α] [Div α] [Neg α] [DecidableEq α] [OfNat α 0] (pl : Plane3 α) (l : Line3 α) : (Bool × (V3 α)) :=
  let t905 := (((pl.normal.x * l.dir.x) + (pl.normal.y * l.dir.y)) + (pl.normal.z * l.dir.z))
  let t913 := ((-((((pl.normal.x * l.pos.x) + (pl.normal.y * l.pos.y)) + (pl.normal.z * l.pos.z)) - pl.distance)) / t905)
  if t905 = (0 : α) then
    (false, ⟨(0 : α), (0 : α), (0 : α)⟩)
  else
    (true, ⟨(l.pos.x + (l.dir.x * t913)), (l.pos.y + (l.dir.y * t913)), (l.pos.z + (l.dir.z * t913))⟩)

/-- extracted from the C++ template at T = Sym; 2 path(s) -/
def Plane3.intersectT {α : Type} [Add α] [Sub α] [Mul α] [Div α] [Neg α] [DecidableEq α] [OfNat α 0] (pl : Plane3 α) (l : Line3 α) : (Bool × α) :=
  let t905 := (((pl.normal.x * l.dir.x) + (pl.normal.y * l.dir.y)) + (pl.normal.z * l.dir.z))
  if t905 = (0 : α) then
    (false, (0 : α))
  else
    (true, ((-((((pl.normal.x * l.pos.x) + (pl.normal.y * l.pos.y)) + (pl.normal.z * l.pos.z)) - pl.distance)) / t905))

/-- extracted from the C++ template at T = Sym; 2 path(s) -/
def Plane3.neg {α : Type} [Add α] [Mul α] [Div α] [Neg α] [LT α] [LE α] [DecidableLT α] [DecidableLE α] [DecidableEq α] [OfNat α 0] [OfNat α 2] (tmin : α) (tmax : α) (sqrt : α → α) (pl : Plane3 α) : (Plane3 α) :=
  let t920 := (-pl.distance)
  let t921 := (-pl.normal.z)
  let t922 := (-pl.normal.y)
  let t923 := (-pl.normal.x)
  let t924 := (V3.length tmin tmax sqrt ⟨t923, t922, t921⟩)
  if t924 = (0 : α) then
    ⟨⟨t923, t922, t921⟩, t920⟩
  else
    ⟨⟨(t923 / t924), (t922 / t924), (t921 / t924)⟩, t920⟩

end ImathVerif.Gen
