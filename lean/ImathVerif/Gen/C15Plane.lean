-- GENERATED from /repo/src/Imath by harness/sym (T = Sym path extraction); do not edit.
import ImathVerif.Basic.Types
import ImathVerif.Gen.Leaf
set_option linter.unusedVariables false
namespace ImathVerif.Gen
open ImathVerif

/-- extracted from the C++ template at T = Sym; 2 path(s) -/
def Plane3.setPoints {α : Type} [Add α] [Sub α] [Mul α] [Div α] [Neg α] [LT α] [LE α] [DecidableLT α] [DecidableLE α] [DecidableEq α] [OfNat α 0] [OfNat α 2] (tmin : α) (sqrt : α → α) (p1 : V3 α) (p2 : V3 α) (p3 : V3 α) : (Plane3 α) :=
  let t717 := (p3.z - p1.z)
  let t718 := (p3.y - p1.y)
  let t719 := (p3.x - p1.x)
  let t720 := (p2.z - p1.z)
  let t721 := (p2.y - p1.y)
  let t722 := (p2.x - p1.x)
  let t725 := ((t722 * t718) - (t721 * t719))
  let t728 := ((t720 * t719) - (t722 * t717))
  let t731 := ((t721 * t717) - (t720 * t718))
  let t732 := (V3.length tmin sqrt ⟨t731, t728, t725⟩)
  let t738 := (t731 / t732)
  let t739 := (t728 / t732)
  let t740 := (t725 / t732)
  if t732 = (0 : α) then
    ⟨⟨t731, t728, t725⟩, (((t731 * p1.x) + (t728 * p1.y)) + (t725 * p1.z))⟩
  else
    ⟨⟨t738, t739, t740⟩, (((t738 * p1.x) + (t739 * p1.y)) + (t740 * p1.z))⟩

/-- extracted from the C++ template at T = Sym; 2 path(s) -/
def Plane3.setPointNormal {α : Type} [Add α] [Mul α] [Div α] [Neg α] [LT α] [LE α] [DecidableLT α] [DecidableLE α] [DecidableEq α] [OfNat α 0] [OfNat α 2] (tmin : α) (sqrt : α → α) (point : V3 α) (n : V3 α) : (Plane3 α) :=
  let t752 := (V3.length tmin sqrt ⟨n.x, n.y, n.z⟩)
  let t758 := (n.x / t752)
  let t759 := (n.y / t752)
  let t760 := (n.z / t752)
  if t752 = (0 : α) then
    ⟨⟨n.x, n.y, n.z⟩, (((n.x * point.x) + (n.y * point.y)) + (n.z * point.z))⟩
  else
    ⟨⟨t758, t759, t760⟩, (((t758 * point.x) + (t759 * point.y)) + (t760 * point.z))⟩

/-- extracted from the C++ template at T = Sym; 2 path(s) -/
def Plane3.setNormalDistance {α : Type} [Add α] [Mul α] [Div α] [Neg α] [LT α] [LE α] [DecidableLT α] [DecidableLE α] [DecidableEq α] [OfNat α 0] [OfNat α 2] (tmin : α) (sqrt : α → α) (n : V3 α) (d : α) : (Plane3 α) :=
  let t752 := (V3.length tmin sqrt ⟨n.x, n.y, n.z⟩)
  if t752 = (0 : α) then
    ⟨⟨n.x, n.y, n.z⟩, d⟩
  else
    ⟨⟨(n.x / t752), (n.y / t752), (n.z / t752)⟩, d⟩

/-- extracted from the C++ template at T = Sym; 2 path(s) -/
def Plane3.ctorPoints {α : Type} [Add α] [Sub α] [Mul α] [Div α] [Neg α] [LT α] [LE α] [DecidableLT α] [DecidableLE α] [DecidableEq α] [OfNat α 0] [OfNat α 2] (tmin : α) (sqrt : α → α) (p1 : V3 α) (p2 : V3 α) (p3 : V3 α) : (Plane3 α) :=
  let t717 := (p3.z - p1.z)
  let t718 := (p3.y - p1.y)
  let t719 := (p3.x - p1.x)
  let t720 := (p2.z - p1.z)
  let t721 := (p2.y - p1.y)
  let t722 := (p2.x - p1.x)
  let t725 := ((t722 * t718) - (t721 * t719))
  let t728 := ((t720 * t719) - (t722 * t717))
  let t731 := ((t721 * t717) - (t720 * t718))
  let t732 := (V3.length tmin sqrt ⟨t731, t728, t725⟩)
  let t738 := (t731 / t732)
  let t739 := (t728 / t732)
  let t740 := (t725 / t732)
  if t732 = (0 : α) then
    ⟨⟨t731, t728, t725⟩, (((t731 * p1.x) + (t728 * p1.y)) + (t725 * p1.z))⟩
  else
    ⟨⟨t738, t739, t740⟩, (((t738 * p1.x) + (t739 * p1.y)) + (t740 * p1.z))⟩

/-- extracted from the C++ template at T = Sym; 2 path(s) -/
def Plane3.ctorPointNormal {α : Type} [Add α] [Mul α] [Div α] [Neg α] [LT α] [LE α] [DecidableLT α] [DecidableLE α] [DecidableEq α] [OfNat α 0] [OfNat α 2] (tmin : α) (sqrt : α → α) (point : V3 α) (n : V3 α) : (Plane3 α) :=
  let t752 := (V3.length tmin sqrt ⟨n.x, n.y, n.z⟩)
  let t758 := (n.x / t752)
  let t759 := (n.y / t752)
  let t760 := (n.z / t752)
  if t752 = (0 : α) then
    ⟨⟨n.x, n.y, n.z⟩, (((n.x * point.x) + (n.y * point.y)) + (n.z * point.z))⟩
  else
    ⟨⟨t758, t759, t760⟩, (((t758 * point.x) + (t759 * point.y)) + (t760 * point.z))⟩

/-- extracted from the C++ template at T = Sym; 2 path(s) -/
def Plane3.ctorNormalDistance {α : Type} [Add α] [Mul α] [Div α] [Neg α] [LT α] [LE α] [DecidableLT α] [DecidableLE α] [DecidableEq α] [OfNat α 0] [OfNat α 2] (tmin : α) (sqrt : α → α) (n : V3 α) (d : α) : (Plane3 α) :=
  let t752 := (V3.length tmin sqrt ⟨n.x, n.y, n.z⟩)
  if t752 = (0 : α) then
    ⟨⟨n.x, n.y, n.z⟩, d⟩
  else
    ⟨⟨(n.x / t752), (n.y / t752), (n.z / t752)⟩, d⟩

/-- extracted from the C++ template at T = Sym; 1 path(s) -/
def Plane3.distanceTo {α : Type} [Add α] [Sub α] [Mul α] (pl : Plane3 α) (p : V3 α) : α :=
  ((((p.x * pl.normal.x) + (p.y * pl.normal.y)) + (p.z * pl.normal.z)) - pl.distance)

/-- extracted from the C++ template at T = Sym; 1 path(s) -/
def Plane3.reflectPoint {α : Type} [Add α] [Sub α] [Mul α] [Neg α] [OfNat α 2] (pl : Plane3 α) (p : V3 α) : (V3 α) :=
  let t776 := ((((p.x * pl.normal.x) + (p.y * pl.normal.y)) + (p.z * pl.normal.z)) - pl.distance)
  ⟨(((pl.normal.x * t776) * (-(2 : α))) + p.x), (((pl.normal.y * t776) * (-(2 : α))) + p.y), (((pl.normal.z * t776) * (-(2 : α))) + p.z)⟩

/-- extracted from the C++ template at T = Sym; 1 path(s) -/
def Plane3.reflectVector {α : Type} [Add α] [Sub α] [Mul α] [OfNat α 2] (pl : Plane3 α) (v : V3 α) : (V3 α) :=
  let t794 := (((pl.normal.x * v.x) + (pl.normal.y * v.y)) + (pl.normal.z * v.z))
  ⟨(((pl.normal.x * t794) * (2 : α)) - v.x), (((pl.normal.y * t794) * (2 : α)) - v.y), (((pl.normal.z * t794) * (2 : α)) - v.z)⟩

/-- extracted from the C++ template at T = Sym; 2 path(s) -/
def Plane3.intersect {α : Type} [Add α] [Sub α] [Mul α] [Div α] [Neg α] [DecidableEq α] [OfNat α 0] (pl : Plane3 α) (l : Line3 α) : (Bool × (V3 α)) :=
  let t808 := (((pl.normal.x * l.dir.x) + (pl.normal.y * l.dir.y)) + (pl.normal.z * l.dir.z))
  let t816 := ((-((((pl.normal.x * l.pos.x) + (pl.normal.y * l.pos.y)) + (pl.normal.z * l.pos.z)) - pl.distance)) / t808)
  if t808 = (0 : α) then
    (false, ⟨(0 : α), (0 : α), (0 : α)⟩)
  else
    (true, ⟨(l.pos.x + (l.dir.x * t816)), (l.pos.y + (l.dir.y * t816)), (l.pos.z + (l.dir.z * t816))⟩)

/-- extracted from the C++ template at T = Sym; 2 path(s) -/
def Plane3.intersectT {α : Type} [Add α] [Sub α] [Mul α] [Div α] [Neg α] [DecidableEq α] [OfNat α 0] (pl : Plane3 α) (l : Line3 α) : (Bool × α) :=
  let t808 := (((pl.normal.x * l.dir.x) + (pl.normal.y * l.dir.y)) + (pl.normal.z * l.dir.z))
  if t808 = (0 : α) then
    (false, (0 : α))
  else
    (true, ((-((((pl.normal.x * l.pos.x) + (pl.normal.y * l.pos.y)) + (pl.normal.z * l.pos.z)) - pl.distance)) / t808))

/-- extracted from the C++ template at T = Sym; 8 path(s) -/
def Plane3.mulM44 {α : Type} [Add α] [Sub α] [Mul α] [Div α] [Neg α] [LT α] [LE α] [DecidableLT α] [DecidableLE α] [DecidableEq α] [OfNat α 0] [OfNat α 1] [OfNat α 2] (tmin : α) (sqrt : α → α) (pl : Plane3 α) (m : M44 α) : (Plane3 α) :=
  let t839 := ((0 : α) * pl.normal.x)
  let t840 := ((1 : α) * pl.normal.y)
  let t841 := (t840 - t839)
  let t842 := ((1 : α) * pl.normal.z)
  let t843 := (t839 - t842)
  let t844 := ((0 : α) * pl.normal.y)
  let t845 := ((0 : α) * pl.normal.z)
  let t846 := (t845 - t844)
  let t851 := (((t846 * t846) + (t843 * t843)) + (t841 * t841))
  let t852 := ((1 : α) * pl.normal.x)
  let t853 := (t844 - t852)
  let t854 := (t839 - t845)
  let t855 := (t842 - t844)
  let t860 := (((t855 * t855) + (t854 * t854)) + (t853 * t853))
  let t861 := (t844 - t839)
  let t862 := (t852 - t845)
  let t863 := (t845 - t840)
  let t868 := (((t863 * t863) + (t862 * t862)) + (t861 * t861))
  let t878 := (pl.distance * pl.normal.z)
  let t879 := (pl.distance * pl.normal.y)
  let t880 := (pl.distance * pl.normal.x)
  let t881 := (t878 + t861)
  let t882 := (t879 + t862)
  let t883 := (t880 + t863)
  let t907 := ((((t883 * m.x03) + (t882 * m.x13)) + (t881 * m.x23)) + m.x33)
  let t911 := (t878 + ((t863 * pl.normal.y) - (t862 * pl.normal.x)))
  let t912 := (t879 + ((t861 * pl.normal.x) - (t863 * pl.normal.z)))
  let t913 := (t880 + ((t862 * pl.normal.z) - (t861 * pl.normal.y)))
  let t937 := ((((t913 * m.x03) + (t912 * m.x13)) + (t911 * m.x23)) + m.x33)
  let t964 := ((((t880 * m.x03) + (t879 * m.x13)) + (t878 * m.x23)) + m.x33)
  let t965 := (((((t880 * m.x02) + (t879 * m.x12)) + (t878 * m.x22)) + m.x32) / t964)
  let t966 := (((((t880 * m.x01) + (t879 * m.x11)) + (t878 * m.x21)) + m.x31) / t964)
  let t967 := (((((t880 * m.x00) + (t879 * m.x10)) + (t878 * m.x20)) + m.x30) / t964)
  let t968 := ((((((t883 * m.x02) + (t882 * m.x12)) + (t881 * m.x22)) + m.x32) / t907) - t965)
  let t969 := ((((((t883 * m.x01) + (t882 * m.x11)) + (t881 * m.x21)) + m.x31) / t907) - t966)
  let t970 := ((((((t883 * m.x00) + (t882 * m.x10)) + (t881 * m.x20)) + m.x30) / t907) - t967)
  let t971 := ((((((t913 * m.x02) + (t912 * m.x12)) + (t911 * m.x22)) + m.x32) / t937) - t965)
  let t972 := ((((((t913 * m.x01) + (t912 * m.x11)) + (t911 * m.x21)) + m.x31) / t937) - t966)
  let t973 := ((((((t913 * m.x00) + (t912 * m.x10)) + (t911 * m.x20)) + m.x30) / t937) - t967)
  let t976 := ((t973 * t969) - (t972 * t970))
  let t979 := ((t971 * t970) - (t973 * t968))
  let t982 := ((t972 * t968) - (t971 * t969))
  let t983 := (V3.length tmin sqrt ⟨t982, t979, t976⟩)
  let t988 := (((t982 * t967) + (t979 * t966)) + (t976 * t965))
  let t989 := (t982 / t983)
  let t990 := (t979 / t983)
  let t991 := (t976 / t983)
  let t996 := (((t989 * t967) + (t990 * t966)) + (t991 * t965))
  let t1006 := (t878 + t853)
  let t1007 := (t879 + t854)
  let t1008 := (t880 + t855)
  let t1032 := ((((t1008 * m.x03) + (t1007 * m.x13)) + (t1006 * m.x23)) + m.x33)
  let t1036 := (t878 + ((t855 * pl.normal.y) - (t854 * pl.normal.x)))
  let t1037 := (t879 + ((t853 * pl.normal.x) - (t855 * pl.normal.z)))
  let t1038 := (t880 + ((t854 * pl.normal.z) - (t853 * pl.normal.y)))
  let t1062 := ((((t1038 * m.x03) + (t1037 * m.x13)) + (t1036 * m.x23)) + m.x33)
  let t1066 := ((((((t1008 * m.x02) + (t1007 * m.x12)) + (t1006 * m.x22)) + m.x32) / t1032) - t965)
  let t1067 := ((((((t1008 * m.x01) + (t1007 * m.x11)) + (t1006 * m.x21)) + m.x31) / t1032) - t966)
  let t1068 := ((((((t1008 * m.x00) + (t1007 * m.x10)) + (t1006 * m.x20)) + m.x30) / t1032) - t967)
  let t1069 := ((((((t1038 * m.x02) + (t1037 * m.x12)) + (t1036 * m.x22)) + m.x32) / t1062) - t965)
  let t1070 := ((((((t1038 * m.x01) + (t1037 * m.x11)) + (t1036 * m.x21)) + m.x31) / t1062) - t966)
  let t1071 := ((((((t1038 * m.x00) + (t1037 * m.x10)) + (t1036 * m.x20)) + m.x30) / t1062) - t967)
  let t1074 := ((t1071 * t1067) - (t1070 * t1068))
  let t1077 := ((t1069 * t1068) - (t1071 * t1066))
  let t1080 := ((t1070 * t1066) - (t1069 * t1067))
  let t1081 := (V3.length tmin sqrt ⟨t1080, t1077, t1074⟩)
  let t1087 := (t1080 / t1081)
  let t1088 := (t1077 / t1081)
  let t1089 := (t1074 / t1081)
  let t1104 := (t878 + t841)
  let t1105 := (t879 + t843)
  let t1106 := (t880 + t846)
  let t1130 := ((((t1106 * m.x03) + (t1105 * m.x13)) + (t1104 * m.x23)) + m.x33)
  let t1134 := (t878 + ((t846 * pl.normal.y) - (t843 * pl.normal.x)))
  let t1135 := (t879 + ((t841 * pl.normal.x) - (t846 * pl.normal.z)))
  let t1136 := (t880 + ((t843 * pl.normal.z) - (t841 * pl.normal.y)))
  let t1160 := ((((t1136 * m.x03) + (t1135 * m.x13)) + (t1134 * m.x23)) + m.x33)
  let t1164 := ((((((t1106 * m.x02) + (t1105 * m.x12)) + (t1104 * m.x22)) + m.x32) / t1130) - t965)
  let t1165 := ((((((t1106 * m.x01) + (t1105 * m.x11)) + (t1104 * m.x21)) + m.x31) / t1130) - t966)
  let t1166 := ((((((t1106 * m.x00) + (t1105 * m.x10)) + (t1104 * m.x20)) + m.x30) / t1130) - t967)
  let t1167 := ((((((t1136 * m.x02) + (t1135 * m.x12)) + (t1134 * m.x22)) + m.x32) / t1160) - t965)
  let t1168 := ((((((t1136 * m.x01) + (t1135 * m.x11)) + (t1134 * m.x21)) + m.x31) / t1160) - t966)
  let t1169 := ((((((t1136 * m.x00) + (t1135 * m.x10)) + (t1134 * m.x20)) + m.x30) / t1160) - t967)
  let t1172 := ((t1169 * t1165) - (t1168 * t1166))
  let t1175 := ((t1167 * t1166) - (t1169 * t1164))
  let t1178 := ((t1168 * t1164) - (t1167 * t1165))
  let t1179 := (V3.length tmin sqrt ⟨t1178, t1175, t1172⟩)
  let t1185 := (t1178 / t1179)
  let t1186 := (t1175 / t1179)
  let t1187 := (t1172 / t1179)
  if t851 < t860 then
    if t860 < t868 then
      if t983 = (0 : α) then
        ⟨⟨t982, t979, t976⟩, t988⟩
      else
        ⟨⟨t989, t990, t991⟩, t996⟩
    else
      if t1081 = (0 : α) then
        ⟨⟨t1080, t1077, t1074⟩, (((t1080 * t967) + (t1077 * t966)) + (t1074 * t965))⟩
      else
        ⟨⟨t1087, t1088, t1089⟩, (((t1087 * t967) + (t1088 * t966)) + (t1089 * t965))⟩
  else
    if t851 < t868 then
      if t983 = (0 : α) then
        ⟨⟨t982, t979, t976⟩, t988⟩
      else
        ⟨⟨t989, t990, t991⟩, t996⟩
    else
      if t1179 = (0 : α) then
        ⟨⟨t1178, t1175, t1172⟩, (((t1178 * t967) + (t1175 * t966)) + (t1172 * t965))⟩
      else
        ⟨⟨t1185, t1186, t1187⟩, (((t1185 * t967) + (t1186 * t966)) + (t1187 * t965))⟩

/-- extracted from the C++ template at T = Sym; 2 path(s) -/
def Plane3.neg {α : Type} [Add α] [Mul α] [Div α] [Neg α] [LT α] [LE α] [DecidableLT α] [DecidableLE α] [DecidableEq α] [OfNat α 0] [OfNat α 2] (tmin : α) (sqrt : α → α) (pl : Plane3 α) : (Plane3 α) :=
  let t1193 := (-pl.distance)
  let t1194 := (-pl.normal.z)
  let t1195 := (-pl.normal.y)
  let t1196 := (-pl.normal.x)
  let t1197 := (V3.length tmin sqrt ⟨t1196, t1195, t1194⟩)
  if t1197 = (0 : α) then
    ⟨⟨t1196, t1195, t1194⟩, t1193⟩
  else
    ⟨⟨(t1196 / t1197), (t1195 / t1197), (t1194 / t1197)⟩, t1193⟩

end ImathVerif.Gen
