-- GENERATED from /repo/src/Imath by harness/sym (T = Sym path extraction); do not edit.
import ImathVerif.Basic.Types
import ImathVerif.Gen.Leaf
set_option linter.unusedVariables false
namespace ImathVerif.Gen
open ImathVerif

/-- extracted from the C++ template at T = Sym; 2 path(s) -/
def Plane3.setPoints {α : Type} [Add α] [Sub α] [Mul α] [Div α] [Neg α] [LT α] [LE α] [DecidableLT α] [DecidableLE α] [DecidableEq α] [OfNat α 0] [OfNat α 2] (tmin : α) (sqrt : α → α) (p1 : V3 α) (p2 : V3 α) (p3 : V3 α) : (Plane3 α) :=
  let t717 := (p3.z - p1.z)
  let t718 := (p3.y - p1.y)
  let t719 := (p3.x - p1.x)
  let t720 := (p2.z - p1.z)
  let t721 := (p2.y - p1.y)
  let t722 := (p2.x - p1.x)
  let t725 := ((t722 * t718) - (t721 * t719))
  let t728 := ((t720 * t719) - (t722 * t717))
  let t731 := ((t721 * t717) - (t720 * t718))
  let t732 := (V3.length tmin sqrt ⟨t731, t728, t725⟩)
  let t738 := (t731 / t732)
  let t739 := (t728 / t732)
  let t740 := (t725 / t732)
  if t732 = (0 : α) then
    ⟨⟨t731, t728, t725⟩, (((t731 * p1.x) + (t728 * p1.y)) + (t725 * p1.z))⟩
  else
    ⟨⟨t738, t739, t740⟩, (((t738 * p1.x) + (t739 * p1.y)) + (t740 * p1.z))⟩

/-- extracted from the C++ template at T = Sym; 2 path(s) -/
def Plane3.setPointNormal {α : Type} [Add α] [Mul α] [Div α] [Neg α] [LT α] [LE α] [DecidableLT α] [DecidableLE α] [DecidableEq α] [OfNat α 0] [OfNat α 2] (tmin : α) (sqrt : α → α) (point : V3 α) (n : V3 α) : (Plane3 α) :=
  let t752 := (V3.length tmin sqrt ⟨n.x, n.y, n.z⟩)
  let t758 := (n.x / t752)
  let t759 := (n.y / t752)
  let t760 := (n.z / t752)
  if t752 = (0 : α) then
    ⟨⟨n.x, n.y, n.z⟩, (((n.x * point.x) + (n.y * point.y)) + (n.z * point.z))⟩
  else
    ⟨⟨t758, t759, t760⟩, (((t758 * point.x) + (t759 * point.y)) + (t760 * point.z))⟩

/-- extracted from the C++ template at T = Sym; 2 path(s) -/
def Plane3.setNormalDistance {α : Type} [Add α] [Mul α] [Div α] [Neg α] [LT α] [LE α] [DecidableLT α] [DecidableLE α] [DecidableEq α] [OfNat α 0] [OfNat α 2] (tmin : α) (sqrt : α → α) (n : V3 α) (d : α) : (Plane3 α) :=
  let t752 := (V3.length tmin sqrt ⟨n.x, n.y, n.z⟩)
  if t752 = (0 : α) then
    ⟨⟨n.x, n.y, n.z⟩, d⟩
  else
    ⟨⟨(n.x / t752), (n.y / t752), (n.z / t752)⟩, d⟩

/-- extracted from the C++ template at T = Sym; 2 path(s) -/
def Plane3.ctorPoints {α : Type} [Add α] [Sub α] [Mul α] [Div α] [Neg α] [LT α] [LE α] [DecidableLT α] [DecidableLE α] [DecidableEq α] [OfNat α 0] [OfNat α 2] (tmin : α) (sqrt : α → α) (p1 : V3 α) (p2 : V3 α) (p3 : V3 α) : (Plane3 α) :=
  let t717 := (p3.z - p1.z)
  let t718 := (p3.y - p1.y)
  let t719 := (p3.x - p1.x)
  let t720 := (p2.z - p1.z)
  let t721 := (p2.y - p1.y)
  let t722 := (p2.x - p1.x)
  let t725 := ((t722 * t718) - (t721 * t719))
  let t728 := ((t720 * t719) - (t722 * t717))
  let t731 := ((t721 * t717) - (t720 * t718))
  let t732 := (V3.length tmin sqrt ⟨t731, t728, t725⟩)
  let t738 := (t731 / t732)
  let t739 := (t728 / t732)
  let t740 := (t725 / t732)
  if t732 = (0 : α) then
    ⟨⟨t731, t728, t725⟩, (((t731 * p1.x) + (t728 * p1.y)) + (t725 * p1.z))⟩
  else
    ⟨⟨t738, t739, t740⟩, (((t738 * p1.x) + (t739 * p1.y)) + (t740 * p1.z))⟩

/-- extracted from the C++ template at T = Sym; 2 path(s) -/
def Plane3.ctorPointNormal {α : Type} [Add α] [Mul α] [Div α] [Neg α] [LT α] [LE α] [DecidableLT α] [DecidableLE α] [DecidableEq α] [OfNat α 0] [OfNat α 2] (tmin : α) (sqrt : α → α) (point : V3 α) (n : V3 α) : (Plane3 α) :=
  let t752 := (V3.length tmin sqrt ⟨n.x, n.y, n.z⟩)
  let t758 := (n.x / t752)
  let t759 := (n.y / t752)
  let t760 := (n.z / t752)
  if t752 = (0 : α) then
    ⟨⟨n.x, n.y, n.z⟩, (((n.x * point.x) + (n.y * point.y)) + (n.z * point.z))⟩
  else
    ⟨⟨t758, t759, t760⟩, (((t758 * point.x) + (t759 * point.y)) + (t760 * point.z))⟩

/-- extracted from the C++ template at T = Sym; 2 path(s) -/
def Plane3.ctorNormalDistance {α : Type} [Add α] [Mul α] [Div α] [Neg α] [LT α] [LE α] [DecidableLT α] [DecidableLE α] [DecidableEq α] [OfNat α 0] [OfNat α 2] (tmin : α) (sqrt : α → α) (n : V3 α) (d : α) : (Plane3 α) :=
  let t752 := (V3.length tmin sqrt ⟨n.x, n.y, n.z⟩)
  if t752 = (0 : α) then
    ⟨⟨n.x, n.y, n.z⟩, d⟩
  else
    ⟨⟨(n.x / t752), (n.y / t752), (n.z / t752)⟩, d⟩

/-- extracted from the C++ template at T = Sym; 1 path(s) -/
def Plane3.distanceTo {α : Type} [Add α] [Sub α] [Mul α] (pl : Plane3 α) (p : V3 α) : α :=
  ((((p.x * pl.normal.x) + (p.y * pl.normal.y)) + (p.z * pl.normal.z)) - pl.distance)

/-- extracted from the C++ template at T = Sym; 1 path(s) -/
def Plane3.reflectPoint {α : Type} [Add α] [Sub α] [Mul α] [Neg α] [OfNat α 2] (pl : Plane3 α) (p : V3 α) : (V3 α) :=
  let t776 := ((((p.x * pl.normal.x) + (p.y * pl.normal.y)) + (p.z * pl.normal.z)) - pl.distance)
  ⟨(((pl.normal.x * t776) * (-(2 : α))) + p.x), (((pl.normal.y * t776) * (-(2 : α))) + p.y), (((pl.normal.z * t776) * (-(2 : α))) + p.z)⟩

/-- extracted from the C++ template at T = Sym; 1 path(s) -/
def Plane3.reflectVector {α : Type} [Add α] [Sub α] [Mul α] [OfNat α 2] (pl : Plane3 α) (v : V3 α) : (V3 α) :=
  let t794 := (((pl.normal.x * v.x) + (pl.normal.y * v.y)) + (pl.normal.z * v.z))
  ⟨(((pl.normal.x * t794) * (2 : α)) - v.x), (((pl.normal.y * t794) * (2 : α)) - v.y), (((pl.normal.z * t794) * (2 : α)) - v.z)⟩

/-- extracted from the C++ template at T = Sym; 2 path(s) -/
def Plane3.intersect {α : Type} [Add α] [Sub α] [Mul α] [Div α] [Neg α] [DecidableEq α] [OfNat α 0] (pl : Plane3 α) (l : Line3 α) : (Bool × (V3 α)) :=
  let t808 := (((pl.normal.x * l.dir.x) + (pl.normal.y * l.dir.y)) + (pl.normal.z * l.dir.z))
  let t816 := ((-((((pl.normal.x * l.pos.x) + (pl.normal.y * l.pos.y)) + (pl.normal.z * l.pos.z)) - pl.distance)) / t808)
  if t808 = (0 : α) then
    (false, ⟨(0 : α), (0 : α), (0 : α)⟩)
  else
    (true, ⟨(l.pos.x + (l.dir.x * t816)), (l.pos.y + (l.dir.y * t816)), (l.pos.z + (l.dir.z * t816))⟩)

/-- extracted from the C++ template at T = Sym; 2 path(s) -/
def Plane3.intersectT {α : Type} [Add α] [Sub α] [Mul α] [Div α] [Neg α] [DecidableEq α] [OfNat α 0] (pl : Plane3 α) (l : Line3 α) : (Bool × α) :=
  let t808 := (((pl.normal.x * l.dir.x) + (pl.normal.y * l.dir.y)) + (pl.normal.z * l.dir.z))
  if t808 = (0 : α) then
    (false, (0 : α))
  else
    (true, ((-((((pl.normal.x * l.pos.x) + (pl.normal.y * l.pos.y)) + (pl.normal.z * l.pos.z)) - pl.distance)) / t808))

/-- extracted from the C++ template at T = Sym; 2 path(s) -/
def Plane3.neg {α : Type} [Add α] [Mul α] [Div α] [Neg α] [LT α] [LE α] [DecidableLT α] [DecidableLE α] [DecidableEq α] [OfNat α 0] [OfNat α 2] (tmin : α) (sqrt : α → α) (pl : Plane3 α) : (Plane3 α) :=
  let t823 := (-pl.distance)
  let t824 := (-pl.normal.z)
  let t825 := (-pl.normal.y)
  let t826 := (-pl.normal.x)
  let t827 := (V3.length tmin sqrt ⟨t826, t825, t824⟩)
  if t827 = (0 : α) then
    ⟨⟨t826, t825, t824⟩, t823⟩
  else
    ⟨⟨(t826 / t827), (t825 / t827), (t824 / t827)⟩, t823⟩

end ImathVerif.Gen
