-- GENERATED from /repo/src/Imath by harness/sym (T = Sym path extraction); do not edit.
import ImathVerif.Basic.Types
set_option linter.unusedVariables false
namespace ImathVerif.Gen
open ImathVerif

/-- extracted from the C++ template at T = Sym; 1 path(s) -/
def C3.add {α : Type} [Add α] (a : V3 α) (b : V3 α) : (V3 α) :=
  ⟨(a.x + b.x), (a.y + b.y), (a.z + b.z)⟩

/-- extracted from the C++ template at T = Sym; 1 path(s) -/
def C3.addAssign {α : Type} [Add α] (a : V3 α) (b : V3 α) : (V3 α) :=
  ⟨(a.x + b.x), (a.y + b.y), (a.z + b.z)⟩

/-- extracted from the C++ template at T = Sym; 1 path(s) -/
def C3.sub {α : Type} [Sub α] (a : V3 α) (b : V3 α) : (V3 α) :=
  ⟨(a.x - b.x), (a.y - b.y), (a.z - b.z)⟩

/-- extracted from the C++ template at T = Sym; 1 path(s) -/
def C3.subAssign {α : Type} [Sub α] (a : V3 α) (b : V3 α) : (V3 α) :=
  ⟨(a.x - b.x), (a.y - b.y), (a.z - b.z)⟩

/-- extracted from the C++ template at T = Sym; 1 path(s) -/
def C3.neg {α : Type} [Neg α] (a : V3 α) : (V3 α) :=
  ⟨(-a.x), (-a.y), (-a.z)⟩

/-- extracted from the C++ template at T = Sym; 1 path(s) -/
def C3.negate {α : Type} [Neg α] (a : V3 α) : (V3 α) :=
  ⟨(-a.x), (-a.y), (-a.z)⟩

/-- extracted from the C++ template at T = Sym; 1 path(s) -/
def C3.mul {α : Type} [Mul α] (a : V3 α) (b : V3 α) : (V3 α) :=
  ⟨(a.x * b.x), (a.y * b.y), (a.z * b.z)⟩

/-- extracted from the C++ template at T = Sym; 1 path(s) -/
def C3.mulAssign {α : Type} [Mul α] (a : V3 α) (b : V3 α) : (V3 α) :=
  ⟨(a.x * b.x), (a.y * b.y), (a.z * b.z)⟩

/-- extracted from the C++ template at T = Sym; 1 path(s) -/
def C3.div {α : Type} [Div α] (a : V3 α) (b : V3 α) : (V3 α) :=
  ⟨(a.x / b.x), (a.y / b.y), (a.z / b.z)⟩

/-- extracted from the C++ template at T = Sym; 1 path(s) -/
def C3.divAssign {α : Type} [Div α] (a : V3 α) (b : V3 α) : (V3 α) :=
  ⟨(a.x / b.x), (a.y / b.y), (a.z / b.z)⟩

/-- extracted from the C++ template at T = Sym; 1 path(s) -/
def C3.mulS {α : Type} [Mul α] (a : V3 α) (s : α) : (V3 α) :=
  ⟨(a.x * s), (a.y * s), (a.z * s)⟩

/-- extracted from the C++ template at T = Sym; 1 path(s) -/
def C3.mulSAssign {α : Type} [Mul α] (a : V3 α) (s : α) : (V3 α) :=
  ⟨(a.x * s), (a.y * s), (a.z * s)⟩

/-- extracted from the C++ template at T = Sym; 1 path(s) -/
def C3.smul {α : Type} [Mul α] (s : α) (a : V3 α) : (V3 α) :=
  ⟨(s * a.x), (s * a.y), (s * a.z)⟩

/-- extracted from the C++ template at T = Sym; 1 path(s) -/
def C3.divS {α : Type} [Div α] (a : V3 α) (s : α) : (V3 α) :=
  ⟨(a.x / s), (a.y / s), (a.z / s)⟩

/-- extracted from the C++ template at T = Sym; 1 path(s) -/
def C3.divSAssign {α : Type} [Div α] (a : V3 α) (s : α) : (V3 α) :=
  ⟨(a.x / s), (a.y / s), (a.z / s)⟩

/-- extracted from the C++ template at T = Sym; 1 path(s) -/
def C4.add {α : Type} [Add α] (a : C4 α) (b : C4 α) : (C4 α) :=
  ⟨(a.r + b.r), (a.g + b.g), (a.b + b.b), (a.a + b.a)⟩

/-- extracted from the C++ template at T = Sym; 1 path(s) -/
def C4.addAssign {α : Type} [Add α] (a : C4 α) (b : C4 α) : (C4 α) :=
  ⟨(a.r + b.r), (a.g + b.g), (a.b + b.b), (a.a + b.a)⟩

/-- extracted from the C++ template at T = Sym; 1 path(s) -/
def C4.sub {α : Type} [Sub α] (a : C4 α) (b : C4 α) : (C4 α) :=
  ⟨(a.r - b.r), (a.g - b.g), (a.b - b.b), (a.a - b.a)⟩

/-- extracted from the C++ template at T = Sym; 1 path(s) -/
def C4.subAssign {α : Type} [Sub α] (a : C4 α) (b : C4 α) : (C4 α) :=
  ⟨(a.r - b.r), (a.g - b.g), (a.b - b.b), (a.a - b.a)⟩

/-- extracted from the C++ template at T = Sym; 1 path(s) -/
def C4.neg {α : Type} [Neg α] (a : C4 α) : (C4 α) :=
  ⟨(-a.r), (-a.g), (-a.b), (-a.a)⟩

/-- extracted from the C++ template at T = Sym; 1 path(s) -/
def C4.negate {α : Type} [Neg α] (a : C4 α) : (C4 α) :=
  ⟨(-a.r), (-a.g), (-a.b), (-a.a)⟩

/-- extracted from the C++ template at T = Sym; 1 path(s) -/
def C4.mul {α : Type} [Mul α] (a : C4 α) (b : C4 α) : (C4 α) :=
  ⟨(a.r * b.r), (a.g * b.g), (a.b * b.b), (a.a * b.a)⟩

/-- extracted from the C++ template at T = Sym; 1 path(s) -/
def C4.mulAssign {α : Type} [Mul α] (a : C4 α) (b : C4 α) : (C4 α) :=
  ⟨(a.r * b.r), (a.g * b.g), (a.b * b.b), (a.a * b.a)⟩

/-- extracted from the C++ template at T = Sym; 1 path(s) -/
def C4.div {α : Type} [Div α] (a : C4 α) (b : C4 α) : (C4 α) :=
  ⟨(a.r / b.r), (a.g / b.g), (a.b / b.b), (a.a / b.a)⟩

/-- extracted from the C++ template at T = Sym; 1 path(s) -/
def C4.divAssign {α : Type} [Div α] (a : C4 α) (b : C4 α) : (C4 α) :=
  ⟨(a.r / b.r), (a.g / b.g), (a.b / b.b), (a.a / b.a)⟩

/-- extracted from the C++ template at T = Sym; 1 path(s) -/
def C4.mulS {α : Type} [Mul α] (a : C4 α) (s : α) : (C4 α) :=
  ⟨(a.r * s), (a.g * s), (a.b * s), (a.a * s)⟩

/-- extracted from the C++ template at T = Sym; 1 path(s) -/
def C4.mulSAssign {α : Type} [Mul α] (a : C4 α) (s : α) : (C4 α) :=
  ⟨(a.r * s), (a.g * s), (a.b * s), (a.a * s)⟩

/-- extracted from the C++ template at T = Sym; 1 path(s) -/
def C4.smul {α : Type} [Mul α] (s : α) (a : C4 α) : (C4 α) :=
  ⟨(s * a.r), (s * a.g), (s * a.b), (s * a.a)⟩

/-- extracted from the C++ template at T = Sym; 1 path(s) -/
def C4.divS {α : Type} [Div α] (a : C4 α) (s : α) : (C4 α) :=
  ⟨(a.r / s), (a.g / s), (a.b / s), (a.a / s)⟩

/-- extracted from the C++ template at T = Sym; 1 path(s) -/
def C4.divSAssign {α : Type} [Div α] (a : C4 α) (s : α) : (C4 α) :=
  ⟨(a.r / s), (a.g / s), (a.b / s), (a.a / s)⟩

/-- extracted from the C++ template at T = Sym; 5 path(s) -/
def C4.eq {α : Type} [DecidableEq α] (a : C4 α) (b : C4 α) : Bool :=
  if a.r = b.r then
    if a.g = b.g then
      if a.b = b.b then
        if a.a = b.a then
          true
        else
          false
      else
        false
    else
      false
  else
    false

/-- extracted from the C++ template at T = Sym; 5 path(s) -/
def C4.ne {α : Type} [DecidableEq α] (a : C4 α) (b : C4 α) : Bool :=
  if a.r = b.r then
    if a.g = b.g then
      if a.b = b.b then
        if a.a = b.a then
          false
        else
          true
      else
        true
    else
      true
  else
    true

/-- extracted from the C++ template at T = Sym; 1 path(s) -/
def C4.indexAll {α : Type} (a : C4 α) : (C4 α) :=
  ⟨a.r, a.g, a.b, a.a⟩

/-- extracted from the C++ template at T = Sym; 1 path(s) -/
def C4.setIndexAll {α : Type} (a : C4 α) (b : C4 α) : (C4 α) :=
  ⟨b.r, b.g, b.b, b.a⟩

/-- extracted from the C++ template at T = Sym; 1 path(s) -/
def C4.getValuePtr {α : Type} (a : C4 α) : (C4 α) :=
  ⟨a.r, a.g, a.b, a.a⟩

/-- extracted from the C++ template at T = Sym; 1 path(s) -/
def C4.convertCtor {α : Type} (a : C4 α) : (C4 α) :=
  ⟨a.r, a.g, a.b, a.a⟩

/-- extracted from the C++ template at T = Sym; 1 path(s) -/
def C4.setValueV {α : Type} (a : C4 α) (b : C4 α) : (C4 α) :=
  ⟨b.r, b.g, b.b, b.a⟩

/-- extracted from the C++ template at T = Sym; 1 path(s) -/
def C4.getValueV {α : Type} (a : C4 α) : (C4 α) :=
  ⟨a.r, a.g, a.b, a.a⟩

/-- extracted from the C++ template at T = Sym; 1 path(s) -/
def C4.setValueS {α : Type} (a : C4 α) (b : C4 α) : (C4 α) :=
  ⟨b.r, b.g, b.b, b.a⟩

/-- extracted from the C++ template at T = Sym; 1 path(s) -/
def C4.getValueS {α : Type} (a : C4 α) : (C4 α) :=
  ⟨a.r, a.g, a.b, a.a⟩

/-- extracted from the C++ template at T = Sym; 1 path(s) -/
def C3.fromV3 {α : Type} (a : V3 α) : (V3 α) :=
  ⟨a.x, a.y, a.z⟩

/-- extracted from the C++ template at T = Sym; 1 path(s) -/
def C3.ctorScalar {α : Type} (s : α) : (V3 α) :=
  ⟨s, s, s⟩

/-- extracted from the C++ template at T = Sym; 1 path(s) -/
def C4.ctorScalar {α : Type} (s : α) : (C4 α) :=
  ⟨s, s, s, s⟩

/-- extracted from the C++ template at T = Sym; 1 path(s) -/
def C4.narrowCtor {α : Type} {β : Type} (cast : β → α) (a : C4 β) : (C4 α) :=
  ⟨(cast a.r), (cast a.g), (cast a.b), (cast a.a)⟩

/-- extracted from the C++ template at T = Sym; 1 path(s) -/
def C4.narrowSetValueV {α : Type} {β : Type} (cast : β → α) (a : C4 α) (b : C4 β) : (C4 α) :=
  ⟨(cast b.r), (cast b.g), (cast b.b), (cast b.a)⟩

/-- extracted from the C++ template at T = Sym; 1 path(s) -/
def C4.narrowGetValueV {α : Type} {β : Type} (cast : β → α) (a : C4 β) (b : C4 α) : (C4 α) :=
  ⟨(cast a.r), (cast a.g), (cast a.b), (cast a.a)⟩

/-- extracted from the C++ template at T = Sym; 1 path(s) -/
def C4.narrowSetValueS {α : Type} {β : Type} (cast : β → α) (a : C4 α) (b : C4 β) : (C4 α) :=
  ⟨(cast b.r), (cast b.g), (cast b.b), (cast b.a)⟩

/-- extracted from the C++ template at T = Sym; 1 path(s) -/
def C4.narrowGetValueS {α : Type} {β : Type} (cast : β → α) (a : C4 β) (b : C4 α) : (C4 α) :=
  ⟨(cast a.r), (cast a.g), (cast a.b), (cast a.a)⟩

/-- extracted from the C++ template at T = Sym; 1 path(s) -/
def C3.narrowFromV3 {α : Type} {β : Type} (cast : β → α) (a : V3 β) : (V3 α) :=
  ⟨(cast a.x), (cast a.y), (cast a.z)⟩

/-- extracted from the C++ template at T = Sym; 1 path(s) -/
def C3.assign {α : Type} (a : V3 α) (b : V3 α) : (V3 α) :=
  ⟨b.x, b.y, b.z⟩

/-- extracted from the C++ template at T = Sym; 1 path(s) -/
def C3.copyCtor {α : Type} (a : V3 α) : (V3 α) :=
  ⟨a.x, a.y, a.z⟩

/-- extracted from the C++ template at T = Sym; 1 path(s) -/
def C4.assign {α : Type} (a : C4 α) (b : C4 α) : (C4 α) :=
  ⟨b.r, b.g, b.b, b.a⟩

/-- extracted from the C++ template at T = Sym; 1 path(s) -/
def C4.copyCtor {α : Type} (a : C4 α) : (C4 α) :=
  ⟨a.r, a.g, a.b, a.a⟩

/-- extracted from the C++ template at T = Sym; 1 path(s) -/
def C3.ctorElems {α : Type} (a : V3 α) : (V3 α) :=
  ⟨a.x, a.y, a.z⟩

/-- extracted from the C++ template at T = Sym; 1 path(s) -/
def C4.ctorElems {α : Type} (a : C4 α) : (C4 α) :=
  ⟨a.r, a.g, a.b, a.a⟩

end ImathVerif.Gen
