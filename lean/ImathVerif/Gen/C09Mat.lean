-- GENERATED from /repo/src/Imath by harness/sym (T = Sym path extraction); do not edit.
import ImathVerif.Basic.Types
import ImathVerif.Gen.Leaf
set_option linter.unusedVariables false
namespace ImathVerif.Gen
open ImathVerif

/-- extracted from the C++ template at T = Sym; 1 path(s) -/
def M44.setEulerAngles {α : Type} [Add α] [Mul α] [Neg α] [OfNat α 0] [OfNat α 1] (sin : α → α) (cos : α → α) (m : M44 α) (r : V3 α) : (M44 α) :=
  let t2648 := (cos r.z)
  let t2649 := (cos r.y)
  let t2650 := (cos r.x)
  let t2651 := (sin r.z)
  let t2652 := (sin r.y)
  let t2653 := (sin r.x)
  let t2657 := (t2648 * t2652)
  let t2662 := (t2651 * t2652)
  ⟨(t2648 * t2649), (t2651 * t2649), (-t2652), (0 : α), (((-t2651) * t2650) + (t2657 * t2653)), ((t2648 * t2650) + (t2662 * t2653)), (t2649 * t2653), (0 : α), ((t2651 * t2653) + (t2657 * t2650)), (((-t2648) * t2653) + (t2662 * t2650)), (t2649 * t2650), (0 : α), (0 : α), (0 : α), (0 : α), (1 : α)⟩

/-- extracted from the C++ template at T = Sym; 2 path(s) -/
def M44.setAxisAngle {α : Type} [Add α] [Sub α] [Mul α] [Div α] [Neg α] [LT α] [LE α] [DecidableLT α] [DecidableLE α] [DecidableEq α] [OfNat α 0] [OfNat α 1] [OfNat α 2] (tmin : α) (tmax : α) (sqrt : α → α) (sin : α → α) (cos : α → α) (m : M44 α) (axis : V3 α) (angle : α) : (M44 α) :=
  let t2679 := (V3.length tmin tmax sqrt ⟨axis.x, axis.y, axis.z⟩)
  let t2680 := (sin angle)
  let t2681 := (cos angle)
  let t2682 := ((1 : α) - t2681)
  let t2683 := (((0 : α) * (0 : α)) * t2682)
  let t2684 := (t2683 + t2681)
  let t2685 := ((0 : α) * t2680)
  let t2686 := (t2683 + t2685)
  let t2687 := (t2683 - t2685)
  let t2688 := (axis.z / t2679)
  let t2689 := (axis.y / t2679)
  let t2690 := (axis.x / t2679)
  let t2694 := (t2688 * t2680)
  let t2696 := ((t2690 * t2689) * t2682)
  let t2698 := (t2689 * t2680)
  let t2700 := ((t2690 * t2688) * t2682)
  let t2706 := (t2690 * t2680)
  let t2708 := ((t2689 * t2688) * t2682)
  if t2679 = (0 : α) then
    ⟨t2684, t2686, t2687, (0 : α), t2687, t2684, t2686, (0 : α), t2686, t2687, t2684, (0 : α), (0 : α), (0 : α), (0 : α), (1 : α)⟩
  else
    ⟨(((t2690 * t2690) * t2682) + t2681), (t2696 + t2694), (t2700 - t2698), (0 : α), (t2696 - t2694), (((t2689 * t2689) * t2682) + t2681), (t2708 + t2706), (0 : α), (t2700 + t2698), (t2708 - t2706), (((t2688 * t2688) * t2682) + t2681), (0 : α), (0 : α), (0 : α), (0 : α), (1 : α)⟩

/-- extracted from the C++ template at T = Sym; 1 path(s) -/
def M44.rotate {α : Type} [Add α] [Mul α] [Neg α] (sin : α → α) (cos : α → α) (m : M44 α) (r : V3 α) : (M44 α) :=
  let t2648 := (cos r.z)
  let t2649 := (cos r.y)
  let t2650 := (cos r.x)
  let t2651 := (sin r.z)
  let t2652 := (sin r.y)
  let t2653 := (sin r.x)
  let t2654 := (t2648 * t2649)
  let t2655 := (t2651 * t2649)
  let t2656 := (-t2652)
  let t2657 := (t2648 * t2652)
  let t2659 := (-t2651)
  let t2661 := ((t2659 * t2650) + (t2657 * t2653))
  let t2662 := (t2651 * t2652)
  let t2665 := ((t2648 * t2650) + (t2662 * t2653))
  let t2666 := (t2649 * t2653)
  let t2674 := (t2649 * t2650)
  let t2715 := (-t2653)
  let t2717 := ((t2659 * t2715) + (t2657 * t2650))
  let t2719 := ((t2648 * t2715) + (t2662 * t2650))
  ⟨(((m.x00 * t2654) + (m.x10 * t2655)) + (m.x20 * t2656)), (((m.x01 * t2654) + (m.x11 * t2655)) + (m.x21 * t2656)), (((m.x02 * t2654) + (m.x12 * t2655)) + (m.x22 * t2656)), (((m.x03 * t2654) + (m.x13 * t2655)) + (m.x23 * t2656)), (((m.x00 * t2661) + (m.x10 * t2665)) + (m.x20 * t2666)), (((m.x01 * t2661) + (m.x11 * t2665)) + (m.x21 * t2666)), (((m.x02 * t2661) + (m.x12 * t2665)) + (m.x22 * t2666)), (((m.x03 * t2661) + (m.x13 * t2665)) + (m.x23 * t2666)), (((m.x00 * t2717) + (m.x10 * t2719)) + (m.x20 * t2674)), (((m.x01 * t2717) + (m.x11 * t2719)) + (m.x21 * t2674)), (((m.x02 * t2717) + (m.x12 * t2719)) + (m.x22 * t2674)), (((m.x03 * t2717) + (m.x13 * t2719)) + (m.x23 * t2674)), m.x30, m.x31, m.x32, m.x33⟩

/-- extracted from the C++ template at T = Sym; 1 path(s) -/
def M44.setScaleS {α : Type} [OfNat α 0] [OfNat α 1] (m : M44 α) (s : α) : (M44 α) :=
  ⟨s, (0 : α), (0 : α), (0 : α), (0 : α), s, (0 : α), (0 : α), (0 : α), (0 : α), s, (0 : α), (0 : α), (0 : α), (0 : α), (1 : α)⟩

/-- extracted from the C++ template at T = Sym; 1 path(s) -/
def M44.setScaleV {α : Type} [OfNat α 0] [OfNat α 1] (m : M44 α) (s : V3 α) : (M44 α) :=
  ⟨s.x, (0 : α), (0 : α), (0 : α), (0 : α), s.y, (0 : α), (0 : α), (0 : α), (0 : α), s.z, (0 : α), (0 : α), (0 : α), (0 : α), (1 : α)⟩

/-- extracted from the C++ template at T = Sym; 1 path(s) -/
def M44.scale {α : Type} [Mul α] (m : M44 α) (s : V3 α) : (M44 α) :=
  ⟨(m.x00 * s.x), (m.x01 * s.x), (m.x02 * s.x), (m.x03 * s.x), (m.x10 * s.y), (m.x11 * s.y), (m.x12 * s.y), (m.x13 * s.y), (m.x20 * s.z), (m.x21 * s.z), (m.x22 * s.z), (m.x23 * s.z), m.x30, m.x31, m.x32, m.x33⟩

/-- extracted from the C++ template at T = Sym; 1 path(s) -/
def M44.setTranslation {α : Type} [OfNat α 0] [OfNat α 1] (m : M44 α) (t : V3 α) : (M44 α) :=
  ⟨(1 : α), (0 : α), (0 : α), (0 : α), (0 : α), (1 : α), (0 : α), (0 : α), (0 : α), (0 : α), (1 : α), (0 : α), t.x, t.y, t.z, (1 : α)⟩

/-- extracted from the C++ template at T = Sym; 1 path(s) -/
def M44.translation {α : Type} (m : M44 α) : (V3 α) :=
  ⟨m.x30, m.x31, m.x32⟩

/-- extracted from the C++ template at T = Sym; 1 path(s) -/
def M44.translate {α : Type} [Add α] [Mul α] (m : M44 α) (t : V3 α) : (M44 α) :=
  ⟨m.x00, m.x01, m.x02, m.x03, m.x10, m.x11, m.x12, m.x13, m.x20, m.x21, m.x22, m.x23, (m.x30 + (((t.x * m.x00) + (t.y * m.x10)) + (t.z * m.x20))), (m.x31 + (((t.x * m.x01) + (t.y * m.x11)) + (t.z * m.x21))), (m.x32 + (((t.x * m.x02) + (t.y * m.x12)) + (t.z * m.x22))), (m.x33 + (((t.x * m.x03) + (t.y * m.x13)) + (t.z * m.x23)))⟩

/-- extracted from the C++ template at T = Sym; 1 path(s) -/
def M44.setShearV {α : Type} [OfNat α 0] [OfNat α 1] (m : M44 α) (h : V3 α) : (M44 α) :=
  ⟨(1 : α), (0 : α), (0 : α), (0 : α), h.x, (1 : α), (0 : α), (0 : α), h.y, h.z, (1 : α), (0 : α), (0 : α), (0 : α), (0 : α), (1 : α)⟩

/-- extracted from the C++ template at T = Sym; 1 path(s) -/
def M44.setShear6 {α : Type} [OfNat α 0] [OfNat α 1] (m : M44 α) (h : Shear6 α) : (M44 α) :=
  ⟨(1 : α), h.yx, h.zx, (0 : α), h.xy, (1 : α), h.zy, (0 : α), h.xz, h.yz, (1 : α), (0 : α), (0 : α), (0 : α), (0 : α), (1 : α)⟩

/-- extracted from the C++ template at T = Sym; 1 path(s) -/
def M44.shearV {α : Type} [Add α] [Mul α] (m : M44 α) (h : V3 α) : (M44 α) :=
  ⟨m.x00, m.x01, m.x02, m.x03, (m.x10 + (h.x * m.x00)), (m.x11 + (h.x * m.x01)), (m.x12 + (h.x * m.x02)), (m.x13 + (h.x * m.x03)), (m.x20 + ((h.y * m.x00) + (h.z * m.x10))), (m.x21 + ((h.y * m.x01) + (h.z * m.x11))), (m.x22 + ((h.y * m.x02) + (h.z * m.x12))), (m.x23 + ((h.y * m.x03) + (h.z * m.x13))), m.x30, m.x31, m.x32, m.x33⟩

/-- extracted from the C++ template at T = Sym; 1 path(s) -/
def M44.shear6 {α : Type} [Add α] [Mul α] (m : M44 α) (h : Shear6 α) : (M44 α) :=
  ⟨((m.x00 + (h.yx * m.x10)) + (h.zx * m.x20)), ((m.x01 + (h.yx * m.x11)) + (h.zx * m.x21)), ((m.x02 + (h.yx * m.x12)) + (h.zx * m.x22)), ((m.x03 + (h.yx * m.x13)) + (h.zx * m.x23)), (((h.xy * m.x00) + m.x10) + (h.zy * m.x20)), (((h.xy * m.x01) + m.x11) + (h.zy * m.x21)), (((h.xy * m.x02) + m.x12) + (h.zy * m.x22)), (((h.xy * m.x03) + m.x13) + (h.zy * m.x23)), (((h.xz * m.x00) + (h.yz * m.x10)) + m.x20), (((h.xz * m.x01) + (h.yz * m.x11)) + m.x21), (((h.xz * m.x02) + (h.yz * m.x12)) + m.x22), (((h.xz * m.x03) + (h.yz * m.x13)) + m.x23), m.x30, m.x31, m.x32, m.x33⟩

/-- extracted from the C++ template at T = Sym; 1 path(s) -/
def M44.translateRet {α : Type} [Add α] [Mul α] (m : M44 α) (t : V3 α) : (M44 α) :=
  ⟨m.x00, m.x01, m.x02, m.x03, m.x10, m.x11, m.x12, m.x13, m.x20, m.x21, m.x22, m.x23, (m.x30 + (((t.x * m.x00) + (t.y * m.x10)) + (t.z * m.x20))), (m.x31 + (((t.x * m.x01) + (t.y * m.x11)) + (t.z * m.x21))), (m.x32 + (((t.x * m.x02) + (t.y * m.x12)) + (t.z * m.x22))), (m.x33 + (((t.x * m.x03) + (t.y * m.x13)) + (t.z * m.x23)))⟩

/-- extracted from the C++ template at T = Sym; 1 path(s) -/
def M33.setRotation {α : Type} [Neg α] [OfNat α 0] [OfNat α 1] (sin : α → α) (cos : α → α) (m : M33 α) (r : α) : (M33 α) :=
  let t2905 := (cos r)
  let t2906 := (sin r)
  ⟨t2905, t2906, (0 : α), (-t2906), t2905, (0 : α), (0 : α), (0 : α), (1 : α)⟩

/-- extracted from the C++ template at T = Sym; 1 path(s) -/
def M33.rotate {α : Type} [Add α] [Mul α] [Neg α] [OfNat α 0] [OfNat α 1] (sin : α → α) (cos : α → α) (m : M33 α) (r : α) : (M33 α) :=
  let t2905 := (cos r)
  let t2906 := (sin r)
  let t2907 := (-t2906)
  let t2908 := (m.x02 * (0 : α))
  let t2922 := (m.x12 * (0 : α))
  let t2936 := (m.x22 * (0 : α))
  ⟨(((m.x00 * t2905) + (m.x01 * t2907)) + t2908), (((m.x00 * t2906) + (m.x01 * t2905)) + t2908), (((m.x00 * (0 : α)) + (m.x01 * (0 : α))) + (m.x02 * (1 : α))), (((m.x10 * t2905) + (m.x11 * t2907)) + t2922), (((m.x10 * t2906) + (m.x11 * t2905)) + t2922), (((m.x10 * (0 : α)) + (m.x11 * (0 : α))) + (m.x12 * (1 : α))), (((m.x20 * t2905) + (m.x21 * t2907)) + t2936), (((m.x20 * t2906) + (m.x21 * t2905)) + t2936), (((m.x20 * (0 : α)) + (m.x21 * (0 : α))) + (m.x22 * (1 : α)))⟩

/-- extracted from the C++ template at T = Sym; 1 path(s) -/
def M33.setScaleS {α : Type} [OfNat α 0] [OfNat α 1] (m : M33 α) (s : α) : (M33 α) :=
  ⟨s, (0 : α), (0 : α), (0 : α), s, (0 : α), (0 : α), (0 : α), (1 : α)⟩

/-- extracted from the C++ template at T = Sym; 1 path(s) -/
def M33.setScaleV {α : Type} [OfNat α 0] [OfNat α 1] (m : M33 α) (s : V2 α) : (M33 α) :=
  ⟨s.x, (0 : α), (0 : α), (0 : α), s.y, (0 : α), (0 : α), (0 : α), (1 : α)⟩

/-- extracted from the C++ template at T = Sym; 1 path(s) -/
def M33.scale {α : Type} [Mul α] (m : M33 α) (s : V2 α) : (M33 α) :=
  ⟨(m.x00 * s.x), (m.x01 * s.x), (m.x02 * s.x), (m.x10 * s.y), (m.x11 * s.y), (m.x12 * s.y), m.x20, m.x21, m.x22⟩

/-- extracted from the C++ template at T = Sym; 1 path(s) -/
def M33.setTranslation {α : Type} [OfNat α 0] [OfNat α 1] (m : M33 α) (t : V2 α) : (M33 α) :=
  ⟨(1 : α), (0 : α), (0 : α), (0 : α), (1 : α), (0 : α), t.x, t.y, (1 : α)⟩

/-- extracted from the C++ template at T = Sym; 1 path(s) -/
def M33.translation {α : Type} (m : M33 α) : (V2 α) :=
  ⟨m.x20, m.x21⟩

/-- extracted from the C++ template at T = Sym; 1 path(s) -/
def M33.translate {α : Type} [Add α] [Mul α] (m : M33 α) (t : V2 α) : (M33 α) :=
  ⟨m.x00, m.x01, m.x02, m.x10, m.x11, m.x12, (m.x20 + ((t.x * m.x00) + (t.y * m.x10))), (m.x21 + ((t.x * m.x01) + (t.y * m.x11))), (m.x22 + ((t.x * m.x02) + (t.y * m.x12)))⟩

/-- extracted from the C++ template at T = Sym; 1 path(s) -/
def M33.setShearS {α : Type} [OfNat α 0] [OfNat α 1] (m : M33 α) (xy : α) : (M33 α) :=
  ⟨(1 : α), (0 : α), (0 : α), xy, (1 : α), (0 : α), (0 : α), (0 : α), (1 : α)⟩

/-- extracted from the C++ template at T = Sym; 1 path(s) -/
def M33.setShearV {α : Type} [OfNat α 0] [OfNat α 1] (m : M33 α) (h : V2 α) : (M33 α) :=
  ⟨(1 : α), h.y, (0 : α), h.x, (1 : α), (0 : α), (0 : α), (0 : α), (1 : α)⟩

/-- extracted from the C++ template at T = Sym; 1 path(s) -/
def M33.shearS {α : Type} [Add α] [Mul α] (m : M33 α) (xy : α) : (M33 α) :=
  ⟨m.x00, m.x01, m.x02, (m.x10 + (xy * m.x00)), (m.x11 + (xy * m.x01)), (m.x12 + (xy * m.x02)), m.x20, m.x21, m.x22⟩

/-- extracted from the C++ template at T = Sym; 1 path(s) -/
def M33.shearV {α : Type} [Add α] [Mul α] (m : M33 α) (h : V2 α) : (M33 α) :=
  ⟨(m.x00 + (h.y * m.x10)), (m.x01 + (h.y * m.x11)), (m.x02 + (h.y * m.x12)), (m.x10 + (h.x * m.x00)), (m.x11 + (h.x * m.x01)), (m.x12 + (h.x * m.x02)), m.x20, m.x21, m.x22⟩

/-- extracted from the C++ template at T = Sym; 1 path(s) -/
def M22.setRotation {α : Type} [Neg α] (sin : α → α) (cos : α → α) (m : M22 α) (r : α) : (M22 α) :=
  let t2905 := (cos r)
  let t2906 := (sin r)
  ⟨t2905, t2906, (-t2906), t2905⟩

/-- extracted from the C++ template at T = Sym; 1 path(s) -/
def M22.rotate {α : Type} [Add α] [Mul α] [Neg α] [OfNat α 0] (sin : α → α) (cos : α → α) (m : M22 α) (r : α) : (M22 α) :=
  let t2905 := (cos r)
  let t2906 := (sin r)
  let t2907 := (-t2906)
  ⟨(((0 : α) + (m.x00 * t2905)) + (m.x01 * t2907)), (((0 : α) + (m.x00 * t2906)) + (m.x01 * t2905)), (((0 : α) + (m.x10 * t2905)) + (m.x11 * t2907)), (((0 : α) + (m.x10 * t2906)) + (m.x11 * t2905))⟩

/-- extracted from the C++ template at T = Sym; 1 path(s) -/
def M22.setScaleS {α : Type} [OfNat α 0] (m : M22 α) (s : α) : (M22 α) :=
  ⟨s, (0 : α), (0 : α), s⟩

/-- extracted from the C++ template at T = Sym; 1 path(s) -/
def M22.setScaleV {α : Type} [OfNat α 0] (m : M22 α) (s : V2 α) : (M22 α) :=
  ⟨s.x, (0 : α), (0 : α), s.y⟩

/-- extracted from the C++ template at T = Sym; 1 path(s) -/
def M22.scale {α : Type} [Mul α] (m : M22 α) (s : V2 α) : (M22 α) :=
  ⟨(m.x00 * s.x), (m.x01 * s.x), (m.x10 * s.y), (m.x11 * s.y)⟩

/-- extracted from the C++ template at T = Sym; 1 path(s) -/
def M44.scaleRet {α : Type} [Mul α] (m : M44 α) (s : V3 α) : (M44 α) :=
  ⟨(m.x00 * s.x), (m.x01 * s.x), (m.x02 * s.x), (m.x03 * s.x), (m.x10 * s.y), (m.x11 * s.y), (m.x12 * s.y), (m.x13 * s.y), (m.x20 * s.z), (m.x21 * s.z), (m.x22 * s.z), (m.x23 * s.z), m.x30, m.x31, m.x32, m.x33⟩

/-- extracted from the C++ template at T = Sym; 1 path(s) -/
def M44.shearVRet {α : Type} [Add α] [Mul α] (m : M44 α) (h : V3 α) : (M44 α) :=
  ⟨m.x00, m.x01, m.x02, m.x03, (m.x10 + (h.x * m.x00)), (m.x11 + (h.x * m.x01)), (m.x12 + (h.x * m.x02)), (m.x13 + (h.x * m.x03)), (m.x20 + ((h.y * m.x00) + (h.z * m.x10))), (m.x21 + ((h.y * m.x01) + (h.z * m.x11))), (m.x22 + ((h.y * m.x02) + (h.z * m.x12))), (m.x23 + ((h.y * m.x03) + (h.z * m.x13))), m.x30, m.x31, m.x32, m.x33⟩

/-- extracted from the C++ template at T = Sym; 1 path(s) -/
def M44.shear6Ret {α : Type} [Add α] [Mul α] (m : M44 α) (h : Shear6 α) : (M44 α) :=
  ⟨((m.x00 + (h.yx * m.x10)) + (h.zx * m.x20)), ((m.x01 + (h.yx * m.x11)) + (h.zx * m.x21)), ((m.x02 + (h.yx * m.x12)) + (h.zx * m.x22)), ((m.x03 + (h.yx * m.x13)) + (h.zx * m.x23)), (((h.xy * m.x00) + m.x10) + (h.zy * m.x20)), (((h.xy * m.x01) + m.x11) + (h.zy * m.x21)), (((h.xy * m.x02) + m.x12) + (h.zy * m.x22)), (((h.xy * m.x03) + m.x13) + (h.zy * m.x23)), (((h.xz * m.x00) + (h.yz * m.x10)) + m.x20), (((h.xz * m.x01) + (h.yz * m.x11)) + m.x21), (((h.xz * m.x02) + (h.yz * m.x12)) + m.x22), (((h.xz * m.x03) + (h.yz * m.x13)) + m.x23), m.x30, m.x31, m.x32, m.x33⟩

/-- extracted from the C++ template at T = Sym; 1 path(s) -/
def M44.rotateRet {α : Type} [Add α] [Mul α] [Neg α] (sin : α → α) (cos : α → α) (m : M44 α) (r : V3 α) : (M44 α) :=
  let t2648 := (cos r.z)
  let t2649 := (cos r.y)
  let t2650 := (cos r.x)
  let t2651 := (sin r.z)
  let t2652 := (sin r.y)
  let t2653 := (sin r.x)
  let t2654 := (t2648 * t2649)
  let t2655 := (t2651 * t2649)
  let t2656 := (-t2652)
  let t2657 := (t2648 * t2652)
  let t2659 := (-t2651)
  let t2661 := ((t2659 * t2650) + (t2657 * t2653))
  let t2662 := (t2651 * t2652)
  let t2665 := ((t2648 * t2650) + (t2662 * t2653))
  let t2666 := (t2649 * t2653)
  let t2674 := (t2649 * t2650)
  let t2715 := (-t2653)
  let t2717 := ((t2659 * t2715) + (t2657 * t2650))
  let t2719 := ((t2648 * t2715) + (t2662 * t2650))
  ⟨(((m.x00 * t2654) + (m.x10 * t2655)) + (m.x20 * t2656)), (((m.x01 * t2654) + (m.x11 * t2655)) + (m.x21 * t2656)), (((m.x02 * t2654) + (m.x12 * t2655)) + (m.x22 * t2656)), (((m.x03 * t2654) + (m.x13 * t2655)) + (m.x23 * t2656)), (((m.x00 * t2661) + (m.x10 * t2665)) + (m.x20 * t2666)), (((m.x01 * t2661) + (m.x11 * t2665)) + (m.x21 * t2666)), (((m.x02 * t2661) + (m.x12 * t2665)) + (m.x22 * t2666)), (((m.x03 * t2661) + (m.x13 * t2665)) + (m.x23 * t2666)), (((m.x00 * t2717) + (m.x10 * t2719)) + (m.x20 * t2674)), (((m.x01 * t2717) + (m.x11 * t2719)) + (m.x21 * t2674)), (((m.x02 * t2717) + (m.x12 * t2719)) + (m.x22 * t2674)), (((m.x03 * t2717) + (m.x13 * t2719)) + (m.x23 * t2674)), m.x30, m.x31, m.x32, m.x33⟩

/-- extracted from the C++ template at T = Sym; 1 path(s) -/
def M33.translateRet {α : Type} [Add α] [Mul α] (m : M33 α) (t : V2 α) : (M33 α) :=
  ⟨m.x00, m.x01, m.x02, m.x10, m.x11, m.x12, (m.x20 + ((t.x * m.x00) + (t.y * m.x10))), (m.x21 + ((t.x * m.x01) + (t.y * m.x11))), (m.x22 + ((t.x * m.x02) + (t.y * m.x12)))⟩

/-- extracted from the C++ template at T = Sym; 1 path(s) -/
def M33.scaleRet {α : Type} [Mul α] (m : M33 α) (s : V2 α) : (M33 α) :=
  ⟨(m.x00 * s.x), (m.x01 * s.x), (m.x02 * s.x), (m.x10 * s.y), (m.x11 * s.y), (m.x12 * s.y), m.x20, m.x21, m.x22⟩

/-- extracted from the C++ template at T = Sym; 1 path(s) -/
def M33.shearSRet {α : Type} [Add α] [Mul α] (m : M33 α) (xy : α) : (M33 α) :=
  ⟨m.x00, m.x01, m.x02, (m.x10 + (xy * m.x00)), (m.x11 + (xy * m.x01)), (m.x12 + (xy * m.x02)), m.x20, m.x21, m.x22⟩

/-- extracted from the C++ template at T = Sym; 1 path(s) -/
def M33.shearVRet {α : Type} [Add α] [Mul α] (m : M33 α) (h : V2 α) : (M33 α) :=
  ⟨(m.x00 + (h.y * m.x10)), (m.x01 + (h.y * m.x11)), (m.x02 + (h.y * m.x12)), (m.x10 + (h.x * m.x00)), (m.x11 + (h.x * m.x01)), (m.x12 + (h.x * m.x02)), m.x20, m.x21, m.x22⟩

/-- extracted from the C++ template at T = Sym; 1 path(s) -/
def M33.rotateRet {α : Type} [Add α] [Mul α] [Neg α] [OfNat α 0] [OfNat α 1] (sin : α → α) (cos : α → α) (m : M33 α) (r : α) : (M33 α) :=
  let t2905 := (cos r)
  let t2906 := (sin r)
  let t2907 := (-t2906)
  let t2908 := (m.x02 * (0 : α))
  let t2922 := (m.x12 * (0 : α))
  let t2936 := (m.x22 * (0 : α))
  ⟨(((m.x00 * t2905) + (m.x01 * t2907)) + t2908), (((m.x00 * t2906) + (m.x01 * t2905)) + t2908), (((m.x00 * (0 : α)) + (m.x01 * (0 : α))) + (m.x02 * (1 : α))), (((m.x10 * t2905) + (m.x11 * t2907)) + t2922), (((m.x10 * t2906) + (m.x11 * t2905)) + t2922), (((m.x10 * (0 : α)) + (m.x11 * (0 : α))) + (m.x12 * (1 : α))), (((m.x20 * t2905) + (m.x21 * t2907)) + t2936), (((m.x20 * t2906) + (m.x21 * t2905)) + t2936), (((m.x20 * (0 : α)) + (m.x21 * (0 : α))) + (m.x22 * (1 : α)))⟩

/-- extracted from the C++ template at T = Sym; 1 path(s) -/
def M22.rotateRet {α : Type} [Add α] [Mul α] [Neg α] [OfNat α 0] (sin : α → α) (cos : α → α) (m : M22 α) (r : α) : (M22 α) :=
  let t2905 := (cos r)
  let t2906 := (sin r)
  let t2907 := (-t2906)
  ⟨(((0 : α) + (m.x00 * t2905)) + (m.x01 * t2907)), (((0 : α) + (m.x00 * t2906)) + (m.x01 * t2905)), (((0 : α) + (m.x10 * t2905)) + (m.x11 * t2907)), (((0 : α) + (m.x10 * t2906)) + (m.x11 * t2905))⟩

/-- extracted from the C++ template at T = Sym; 1 path(s) -/
def M22.scaleRet {α : Type} [Mul α] (m : M22 α) (s : V2 α) : (M22 α) :=
  ⟨(m.x00 * s.x), (m.x01 * s.x), (m.x10 * s.y), (m.x11 * s.y)⟩

end ImathVerif.Gen
