-- GENERATED from /repo/src/Imath by harness/sym (T = Sym path extraction); do not edit.
import ImathVerif.Basic.Types
import ImathVerif.Gen.Leaf
set_option linter.unusedVariables false
namespace ImathVerif.Gen
open ImathVerif

/-- extracted from the C++ template at T = Sym; 1 path(s) -/
def M44.setEulerAngles {α : Type} [Add α] [Mul α] [Neg α] [OfNat α 0] [OfNat α 1] (sin : α → α) (cos : α → α) (m : M44 α) (r : V3 α) : (M44 α) :=
  let t21 := (cos r.z)
  let t22 := (cos r.y)
  let t23 := (cos r.x)
  let t24 := (sin r.z)
  let t25 := (sin r.y)
  let t26 := (sin r.x)
  let t30 := (t21 * t25)
  let t35 := (t24 * t25)
  ⟨(t21 * t22), (t24 * t22), (-t25), (0 : α), (((-t24) * t23) + (t30 * t26)), ((t21 * t23) + (t35 * t26)), (t22 * t26), (0 : α), ((t24 * t26) + (t30 * t23)), (((-t21) * t26) + (t35 * t23)), (t22 * t23), (0 : α), (0 : α), (0 : α), (0 : α), (1 : α)⟩

/-- extracted from the C++ template at T = Sym; 2 path(s) -/
def M44.setAxisAngle {α : Type} [Add α] [Sub α] [Mul α] [Div α] [Neg α] [LT α] [LE α] [DecidableLT α] [DecidableLE α] [DecidableEq α] [OfNat α 0] [OfNat α 1] [OfNat α 2] (tmin : α) (sqrt : α → α) (sin : α → α) (cos : α → α) (m : M44 α) (axis : V3 α) (angle : α) : (M44 α) :=
  let t52 := (V3.length tmin sqrt ⟨axis.x, axis.y, axis.z⟩)
  let t53 := (sin angle)
  let t54 := (cos angle)
  let t55 := ((1 : α) - t54)
  let t57 := (((0 : α) * (0 : α)) * t55)
  let t58 := (t57 + t54)
  let t59 := ((0 : α) * t53)
  let t60 := (t57 + t59)
  let t61 := (t57 - t59)
  let t62 := (axis.z / t52)
  let t63 := (axis.y / t52)
  let t64 := (axis.x / t52)
  let t68 := (t62 * t53)
  let t70 := ((t64 * t63) * t55)
  let t72 := (t63 * t53)
  let t74 := ((t64 * t62) * t55)
  let t80 := (t64 * t53)
  let t82 := ((t63 * t62) * t55)
  if t52 = (0 : α) then
    ⟨t58, t60, t61, (0 : α), t61, t58, t60, (0 : α), t60, t61, t58, (0 : α), (0 : α), (0 : α), (0 : α), (1 : α)⟩
  else
    ⟨(((t64 * t64) * t55) + t54), (t70 + t68), (t74 - t72), (0 : α), (t70 - t68), (((t63 * t63) * t55) + t54), (t82 + t80), (0 : α), (t74 + t72), (t82 - t80), (((t62 * t62) * t55) + t54), (0 : α), (0 : α), (0 : α), (0 : α), (1 : α)⟩

/-- extracted from the C++ template at T = Sym; 1 path(s) -/
def M44.rotate {α : Type} [Add α] [Mul α] [Neg α] (sin : α → α) (cos : α → α) (m : M44 α) (r : V3 α) : (M44 α) :=
  let t21 := (cos r.z)
  let t22 := (cos r.y)
  let t23 := (cos r.x)
  let t24 := (sin r.z)
  let t25 := (sin r.y)
  let t26 := (sin r.x)
  let t27 := (t21 * t22)
  let t28 := (t24 * t22)
  let t29 := (-t25)
  let t30 := (t21 * t25)
  let t32 := (-t24)
  let t34 := ((t32 * t23) + (t30 * t26))
  let t35 := (t24 * t25)
  let t38 := ((t21 * t23) + (t35 * t26))
  let t39 := (t22 * t26)
  let t47 := (t22 * t23)
  let t89 := (-t26)
  let t91 := ((t32 * t89) + (t30 * t23))
  let t93 := ((t21 * t89) + (t35 * t23))
  ⟨(((m.x00 * t27) + (m.x10 * t28)) + (m.x20 * t29)), (((m.x01 * t27) + (m.x11 * t28)) + (m.x21 * t29)), (((m.x02 * t27) + (m.x12 * t28)) + (m.x22 * t29)), (((m.x03 * t27) + (m.x13 * t28)) + (m.x23 * t29)), (((m.x00 * t34) + (m.x10 * t38)) + (m.x20 * t39)), (((m.x01 * t34) + (m.x11 * t38)) + (m.x21 * t39)), (((m.x02 * t34) + (m.x12 * t38)) + (m.x22 * t39)), (((m.x03 * t34) + (m.x13 * t38)) + (m.x23 * t39)), (((m.x00 * t91) + (m.x10 * t93)) + (m.x20 * t47)), (((m.x01 * t91) + (m.x11 * t93)) + (m.x21 * t47)), (((m.x02 * t91) + (m.x12 * t93)) + (m.x22 * t47)), (((m.x03 * t91) + (m.x13 * t93)) + (m.x23 * t47)), m.x30, m.x31, m.x32, m.x33⟩

/-- extracted from the C++ template at T = Sym; 1 path(s) -/
def M44.setScaleS {α : Type} [OfNat α 0] [OfNat α 1] (m : M44 α) (s : α) : (M44 α) :=
  ⟨s, (0 : α), (0 : α), (0 : α), (0 : α), s, (0 : α), (0 : α), (0 : α), (0 : α), s, (0 : α), (0 : α), (0 : α), (0 : α), (1 : α)⟩

/-- extracted from the C++ template at T = Sym; 1 path(s) -/
def M44.setScaleV {α : Type} [OfNat α 0] [OfNat α 1] (m : M44 α) (s : V3 α) : (M44 α) :=
  ⟨s.x, (0 : α), (0 : α), (0 : α), (0 : α), s.y, (0 : α), (0 : α), (0 : α), (0 : α), s.z, (0 : α), (0 : α), (0 : α), (0 : α), (1 : α)⟩

/-- extracted from the C++ template at T = Sym; 1 path(s) -/
def M44.scale {α : Type} [Mul α] (m : M44 α) (s : V3 α) : (M44 α) :=
  ⟨(m.x00 * s.x), (m.x01 * s.x), (m.x02 * s.x), (m.x03 * s.x), (m.x10 * s.y), (m.x11 * s.y), (m.x12 * s.y), (m.x13 * s.y), (m.x20 * s.z), (m.x21 * s.z), (m.x22 * s.z), (m.x23 * s.z), m.x30, m.x31, m.x32, m.x33⟩

/-- extracted from the C++ template at T = Sym; 1 path(s) -/
def M44.setTranslation {α : Type} [OfNat α 0] [OfNat α 1] (m : M44 α) (t : V3 α) : (M44 α) :=
  ⟨(1 : α), (0 : α), (0 : α), (0 : α), (0 : α), (1 : α), (0 : α), (0 : α), (0 : α), (0 : α), (1 : α), (0 : α), t.x, t.y, t.z, (1 : α)⟩

/-- extracted from the C++ template at T = Sym; 1 path(s) -/
def M44.translation {α : Type} (m : M44 α) : (V3 α) :=
  ⟨m.x30, m.x31, m.x32⟩

/-- extracted from the C++ template at T = Sym; 1 path(s) -/
def M44.translate {α : Type} [Add α] [Mul α] (m : M44 α) (t : V3 α) : (M44 α) :=
  ⟨m.x00, m.x01, m.x02, m.x03, m.x10, m.x11, m.x12, m.x13, m.x20, m.x21, m.x22, m.x23, (m.x30 + (((t.x * m.x00) + (t.y * m.x10)) + (t.z * m.x20))), (m.x31 + (((t.x * m.x01) + (t.y * m.x11)) + (t.z * m.x21))), (m.x32 + (((t.x * m.x02) + (t.y * m.x12)) + (t.z * m.x22))), (m.x33 + (((t.x * m.x03) + (t.y * m.x13)) + (t.z * m.x23)))⟩

/-- extracted from the C++ template at T = Sym; 1 path(s) -/
def M44.setShearV {α : Type} [OfNat α 0] [OfNat α 1] (m : M44 α) (h : V3 α) : (M44 α) :=
  ⟨(1 : α), (0 : α), (0 : α), (0 : α), h.x, (1 : α), (0 : α), (0 : α), h.y, h.z, (1 : α), (0 : α), (0 : α), (0 : α), (0 : α), (1 : α)⟩

/-- extracted from the C++ template at T = Sym; 1 path(s) -/
def M44.setShear6 {α : Type} [OfNat α 0] [OfNat α 1] (m : M44 α) (h : Shear6 α) : (M44 α) :=
  ⟨(1 : α), h.yx, h.zx, (0 : α), h.xy, (1 : α), h.zy, (0 : α), h.xz, h.yz, (1 : α), (0 : α), (0 : α), (0 : α), (0 : α), (1 : α)⟩

/-- extracted from the C++ template at T = Sym; 1 path(s) -/
def M44.shearV {α : Type} [Add α] [Mul α] (m : M44 α) (h : V3 α) : (M44 α) :=
  ⟨m.x00, m.x01, m.x02, m.x03, (m.x10 + (h.x * m.x00)), (m.x11 + (h.x * m.x01)), (m.x12 + (h.x * m.x02)), (m.x13 + (h.x * m.x03)), (m.x20 + ((h.y * m.x00) + (h.z * m.x10))), (m.x21 + ((h.y * m.x01) + (h.z * m.x11))), (m.x22 + ((h.y * m.x02) + (h.z * m.x12))), (m.x23 + ((h.y * m.x03) + (h.z * m.x13))), m.x30, m.x31, m.x32, m.x33⟩

/-- extracted from the C++ template at T = Sym; 1 path(s) -/
def M44.shear6 {α : Type} [Add α] [Mul α] (m : M44 α) (h : Shear6 α) : (M44 α) :=
  ⟨((m.x00 + (h.yx * m.x10)) + (h.zx * m.x20)), ((m.x01 + (h.yx * m.x11)) + (h.zx * m.x21)), ((m.x02 + (h.yx * m.x12)) + (h.zx * m.x22)), ((m.x03 + (h.yx * m.x13)) + (h.zx * m.x23)), (((h.xy * m.x00) + m.x10) + (h.zy * m.x20)), (((h.xy * m.x01) + m.x11) + (h.zy * m.x21)), (((h.xy * m.x02) + m.x12) + (h.zy * m.x22)), (((h.xy * m.x03) + m.x13) + (h.zy * m.x23)), (((h.xz * m.x00) + (h.yz * m.x10)) + m.x20), (((h.xz * m.x01) + (h.yz * m.x11)) + m.x21), (((h.xz * m.x02) + (h.yz * m.x12)) + m.x22), (((h.xz * m.x03) + (h.yz * m.x13)) + m.x23), m.x30, m.x31, m.x32, m.x33⟩

/-- extracted from the C++ template at T = Sym; 1 path(s) -/
def M44.translateRet {α : Type} [Add α] [Mul α] (m : M44 α) (t : V3 α) : (M44 α) :=
  ⟨m.x00, m.x01, m.x02, m.x03, m.x10, m.x11, m.x12, m.x13, m.x20, m.x21, m.x22, m.x23, (m.x30 + (((t.x * m.x00) + (t.y * m.x10)) + (t.z * m.x20))), (m.x31 + (((t.x * m.x01) + (t.y * m.x11)) + (t.z * m.x21))), (m.x32 + (((t.x * m.x02) + (t.y * m.x12)) + (t.z * m.x22))), (m.x33 + (((t.x * m.x03) + (t.y * m.x13)) + (t.z * m.x23)))⟩

/-- extracted from the C++ template at T = Sym; 1 path(s) -/
def M33.setRotation {α : Type} [Neg α] [OfNat α 0] [OfNat α 1] (sin : α → α) (cos : α → α) (m : M33 α) (r : α) : (M33 α) :=
  let t279 := (cos r)
  let t280 := (sin r)
  ⟨t279, t280, (0 : α), (-t280), t279, (0 : α), (0 : α), (0 : α), (1 : α)⟩

/-- extracted from the C++ template at T = Sym; 1 path(s) -/
def M33.rotate {α : Type} [Add α] [Mul α] [Neg α] [OfNat α 0] [OfNat α 1] (sin : α → α) (cos : α → α) (m : M33 α) (r : α) : (M33 α) :=
  let t279 := (cos r)
  let t280 := (sin r)
  let t281 := (-t280)
  let t282 := (m.x02 * (0 : α))
  let t296 := (m.x12 * (0 : α))
  let t310 := (m.x22 * (0 : α))
  ⟨(((m.x00 * t279) + (m.x01 * t281)) + t282), (((m.x00 * t280) + (m.x01 * t279)) + t282), (((m.x00 * (0 : α)) + (m.x01 * (0 : α))) + (m.x02 * (1 : α))), (((m.x10 * t279) + (m.x11 * t281)) + t296), (((m.x10 * t280) + (m.x11 * t279)) + t296), (((m.x10 * (0 : α)) + (m.x11 * (0 : α))) + (m.x12 * (1 : α))), (((m.x20 * t279) + (m.x21 * t281)) + t310), (((m.x20 * t280) + (m.x21 * t279)) + t310), (((m.x20 * (0 : α)) + (m.x21 * (0 : α))) + (m.x22 * (1 : α)))⟩

/-- extracted from the C++ template at T = Sym; 1 path(s) -/
def M33.setScaleS {α : Type} [OfNat α 0] [OfNat α 1] (m : M33 α) (s : α) : (M33 α) :=
  ⟨s, (0 : α), (0 : α), (0 : α), s, (0 : α), (0 : α), (0 : α), (1 : α)⟩

/-- extracted from the C++ template at T = Sym; 1 path(s) -/
def M33.setScaleV {α : Type} [OfNat α 0] [OfNat α 1] (m : M33 α) (s : V2 α) : (M33 α) :=
  ⟨s.x, (0 : α), (0 : α), (0 : α), s.y, (0 : α), (0 : α), (0 : α), (1 : α)⟩

/-- extracted from the C++ template at T = Sym; 1 path(s) -/
def M33.scale {α : Type} [Mul α] (m : M33 α) (s : V2 α) : (M33 α) :=
  ⟨(m.x00 * s.x), (m.x01 * s.x), (m.x02 * s.x), (m.x10 * s.y), (m.x11 * s.y), (m.x12 * s.y), m.x20, m.x21, m.x22⟩

/-- extracted from the C++ template at T = Sym; 1 path(s) -/
def M33.setTranslation {α : Type} [OfNat α 0] [OfNat α 1] (m : M33 α) (t : V2 α) : (M33 α) :=
  ⟨(1 : α), (0 : α), (0 : α), (0 : α), (1 : α), (0 : α), t.x, t.y, (1 : α)⟩

/-- extracted from the C++ template at T = Sym; 1 path(s) -/
def M33.translation {α : Type} (m : M33 α) : (V2 α) :=
  ⟨m.x20, m.x21⟩

/-- extracted from the C++ template at T = Sym; 1 path(s) -/
def M33.translate {α : Type} [Add α] [Mul α] (m : M33 α) (t : V2 α) : (M33 α) :=
  ⟨m.x00, m.x01, m.x02, m.x10, m.x11, m.x12, (m.x20 + ((t.x * m.x00) + (t.y * m.x10))), (m.x21 + ((t.x * m.x01) + (t.y * m.x11))), (m.x22 + ((t.x * m.x02) + (t.y * m.x12)))⟩

/-- extracted from the C++ template at T = Sym; 1 path(s) -/
def M33.setShearS {α : Type} [OfNat α 0] [OfNat α 1] (m : M33 α) (xy : α) : (M33 α) :=
  ⟨(1 : α), (0 : α), (0 : α), xy, (1 : α), (0 : α), (0 : α), (0 : α), (1 : α)⟩

/-- extracted from the C++ template at T = Sym; 1 path(s) -/
def M33.setShearV {α : Type} [OfNat α 0] [OfNat α 1] (m : M33 α) (h : V2 α) : (M33 α) :=
  ⟨(1 : α), h.y, (0 : α), h.x, (1 : α), (0 : α), (0 : α), (0 : α), (1 : α)⟩

/-- extracted from the C++ template at T = Sym; 1 path(s) -/
def M33.shearS {α : Type} [Add α] [Mul α] (m : M33 α) (xy : α) : (M33 α) :=
  ⟨m.x00, m.x01, m.x02, (m.x10 + (xy * m.x00)), (m.x11 + (xy * m.x01)), (m.x12 + (xy * m.x02)), m.x20, m.x21, m.x22⟩

/-- extracted from the C++ template at T = Sym; 1 path(s) -/
def M33.shearV {α : Type} [Add α] [Mul α] (m : M33 α) (h : V2 α) : (M33 α) :=
  ⟨(m.x00 + (h.y * m.x10)), (m.x01 + (h.y * m.x11)), (m.x02 + (h.y * m.x12)), (m.x10 + (h.x * m.x00)), (m.x11 + (h.x * m.x01)), (m.x12 + (h.x * m.x02)), m.x20, m.x21, m.x22⟩

/-- extracted from the C++ template at T = Sym; 1 path(s) -/
def M22.setRotation {α : Type} [Neg α] (sin : α → α) (cos : α → α) (m : M22 α) (r : α) : (M22 α) :=
  let t279 := (cos r)
  let t280 := (sin r)
  ⟨t279, t280, (-t280), t279⟩

/-- extracted from the C++ template at T = Sym; 1 path(s) -/
def M22.rotate {α : Type} [Add α] [Mul α] [Neg α] [OfNat α 0] (sin : α → α) (cos : α → α) (m : M22 α) (r : α) : (M22 α) :=
  let t279 := (cos r)
  let t280 := (sin r)
  let t281 := (-t280)
  ⟨(((0 : α) + (m.x00 * t279)) + (m.x01 * t281)), (((0 : α) + (m.x00 * t280)) + (m.x01 * t279)), (((0 : α) + (m.x10 * t279)) + (m.x11 * t281)), (((0 : α) + (m.x10 * t280)) + (m.x11 * t279))⟩

/-- extracted from the C++ template at T = Sym; 1 path(s) -/
def M22.setScaleS {α : Type} [OfNat α 0] (m : M22 α) (s : α) : (M22 α) :=
  ⟨s, (0 : α), (0 : α), s⟩

/-- extracted from the C++ template at T = Sym; 1 path(s) -/
def M22.setScaleV {α : Type} [OfNat α 0] (m : M22 α) (s : V2 α) : (M22 α) :=
  ⟨s.x, (0 : α), (0 : α), s.y⟩

/-- extracted from the C++ template at T = Sym; 1 path(s) -/
def M22.scale {α : Type} [Mul α] (m : M22 α) (s : V2 α) : (M22 α) :=
  ⟨(m.x00 * s.x), (m.x01 * s.x), (m.x10 * s.y), (m.x11 * s.y)⟩

end ImathVerif.Gen
