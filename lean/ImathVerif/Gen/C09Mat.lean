-- GENERATED from /repo/src/Imath by harness/sym (T = Sym path extraction); do not edit.
import ImathVerif.Basic.Types
import ImathVerif.Gen.Leaf
set_option linter.unusedVariables false
namespace ImathVerif.Gen
open ImathVerif

/-- extracted from the C++ template at T = Sym; 1 path(s) -/
def M44.setEulerAngles {α : Type} [Add α] [Mul α] [Neg α] [OfNat α 0] [OfNat α 1] (sin : α → α) (cos : α → α) (m : M44 α) (r : V3 α) : (M44 α) :=
  let t2600 := (cos r.z)
  let t2601 := (cos r.y)
  let t2602 := (cos r.x)
  let t2603 := (sin r.z)
  let t2604 := (sin r.y)
  let t2605 := (sin r.x)
  let t2609 := (t2600 * t2604)
  let t2614 := (t2603 * t2604)
  ⟨(t2600 * t2601), (t2603 * t2601), (-t2604), (0 : α), (((-t2603) * t2602) + (t2609 * t2605)), ((t2600 * t2602) + (t2614 * t2605)), (t2601 * t2605), (0 : α), ((t2603 * t2605) + (t2609 * t2602)), (((-t2600) * t2605) + (t2614 * t2602)), (t2601 * t2602), (0 : α), (0 : α), (0 : α), (0 : α), (1 : α)⟩

/-- extracted from the C++ template at T = Sym; 2 path(s) -/
def M44.setAxisAngle {α : Type} [Add α] [Sub α] [Mul α] [Div α] [Neg α] [LT α] [LE α] [DecidableLT α] [DecidableLE α] [DecidableEq α] [OfNat α 0] [OfNat α 1] [OfNat α 2] (tmin : α) (sqrt : α → α) (sin : α → α) (cos : α → α) (m : M44 α) (axis : V3 α) (angle : α) : (M44 α) :=
  let t2631 := (V3.length tmin sqrt ⟨axis.x, axis.y, axis.z⟩)
  let t2632 := (sin angle)
  let t2633 := (cos angle)
  let t2634 := ((1 : α) - t2633)
  let t2635 := (((0 : α) * (0 : α)) * t2634)
  let t2636 := (t2635 + t2633)
  let t2637 := ((0 : α) * t2632)
  let t2638 := (t2635 + t2637)
  let t2639 := (t2635 - t2637)
  let t2640 := (axis.z / t2631)
  let t2641 := (axis.y / t2631)
  let t2642 := (axis.x / t2631)
  let t2646 := (t2640 * t2632)
  let t2648 := ((t2642 * t2641) * t2634)
  let t2650 := (t2641 * t2632)
  let t2652 := ((t2642 * t2640) * t2634)
  let t2658 := (t2642 * t2632)
  let t2660 := ((t2641 * t2640) * t2634)
  if t2631 = (0 : α) then
    ⟨t2636, t2638, t2639, (0 : α), t2639, t2636, t2638, (0 : α), t2638, t2639, t2636, (0 : α), (0 : α), (0 : α), (0 : α), (1 : α)⟩
  else
    ⟨(((t2642 * t2642) * t2634) + t2633), (t2648 + t2646), (t2652 - t2650), (0 : α), (t2648 - t2646), (((t2641 * t2641) * t2634) + t2633), (t2660 + t2658), (0 : α), (t2652 + t2650), (t2660 - t2658), (((t2640 * t2640) * t2634) + t2633), (0 : α), (0 : α), (0 : α), (0 : α), (1 : α)⟩

/-- extracted from the C++ template at T = Sym; 1 path(s) -/
def M44.rotate {α : Type} [Add α] [Mul α] [Neg α] (sin : α → α) (cos : α → α) (m : M44 α) (r : V3 α) : (M44 α) :=
  let t2600 := (cos r.z)
  let t2601 := (cos r.y)
  let t2602 := (cos r.x)
  let t2603 := (sin r.z)
  let t2604 := (sin r.y)
  let t2605 := (sin r.x)
  let t2606 := (t2600 * t2601)
  let t2607 := (t2603 * t2601)
  let t2608 := (-t2604)
  let t2609 := (t2600 * t2604)
  let t2611 := (-t2603)
  let t2613 := ((t2611 * t2602) + (t2609 * t2605))
  let t2614 := (t2603 * t2604)
  let t2617 := ((t2600 * t2602) + (t2614 * t2605))
  let t2618 := (t2601 * t2605)
  let t2626 := (t2601 * t2602)
  let t2667 := (-t2605)
  let t2669 := ((t2611 * t2667) + (t2609 * t2602))
  let t2671 := ((t2600 * t2667) + (t2614 * t2602))
  ⟨(((m.x00 * t2606) + (m.x10 * t2607)) + (m.x20 * t2608)), (((m.x01 * t2606) + (m.x11 * t2607)) + (m.x21 * t2608)), (((m.x02 * t2606) + (m.x12 * t2607)) + (m.x22 * t2608)), (((m.x03 * t2606) + (m.x13 * t2607)) + (m.x23 * t2608)), (((m.x00 * t2613) + (m.x10 * t2617)) + (m.x20 * t2618)), (((m.x01 * t2613) + (m.x11 * t2617)) + (m.x21 * t2618)), (((m.x02 * t2613) + (m.x12 * t2617)) + (m.x22 * t2618)), (((m.x03 * t2613) + (m.x13 * t2617)) + (m.x23 * t2618)), (((m.x00 * t2669) + (m.x10 * t2671)) + (m.x20 * t2626)), (((m.x01 * t2669) + (m.x11 * t2671)) + (m.x21 * t2626)), (((m.x02 * t2669) + (m.x12 * t2671)) + (m.x22 * t2626)), (((m.x03 * t2669) + (m.x13 * t2671)) + (m.x23 * t2626)), m.x30, m.x31, m.x32, m.x33⟩

/-- extracted from the C++ template at T = Sym; 1 path(s) -/
def M44.setScaleS {α : Type} [OfNat α 0] [OfNat α 1] (m : M44 α) (s : α) : (M44 α) :=
  ⟨s, (0 : α), (0 : α), (0 : α), (0 : α), s, (0 : α), (0 : α), (0 : α), (0 : α), s, (0 : α), (0 : α), (0 : α), (0 : α), (1 : α)⟩

/-- extracted from the C++ template at T = Sym; 1 path(s) -/
def M44.setScaleV {α : Type} [OfNat α 0] [OfNat α 1] (m : M44 α) (s : V3 α) : (M44 α) :=
  ⟨s.x, (0 : α), (0 : α), (0 : α), (0 : α), s.y, (0 : α), (0 : α), (0 : α), (0 : α), s.z, (0 : α), (0 : α), (0 : α), (0 : α), (1 : α)⟩

/-- extracted from the C++ template at T = Sym; 1 path(s) -/
def M44.scale {α : Type} [Mul α] (m : M44 α) (s : V3 α) : (M44 α) :=
  ⟨(m.x00 * s.x), (m.x01 * s.x), (m.x02 * s.x), (m.x03 * s.x), (m.x10 * s.y), (m.x11 * s.y), (m.x12 * s.y), (m.x13 * s.y), (m.x20 * s.z), (m.x21 * s.z), (m.x22 * s.z), (m.x23 * s.z), m.x30, m.x31, m.x32, m.x33⟩

/-- extracted from the C++ template at T = Sym; 1 path(s) -/
def M44.setTranslation {α : Type} [OfNat α 0] [OfNat α 1] (m : M44 α) (t : V3 α) : (M44 α) :=
  ⟨(1 : α), (0 : α), (0 : α), (0 : α), (0 : α), (1 : α), (0 : α), (0 : α), (0 : α), (0 : α), (1 : α), (0 : α), t.x, t.y, t.z, (1 : α)⟩

/-- extracted from the C++ template at T = Sym; 1 path(s) -/
def M44.translation {α : Type} (m : M44 α) : (V3 α) :=
  ⟨m.x30, m.x31, m.x32⟩

/-- extracted from the C++ template at T = Sym; 1 path(s) -/
def M44.translate {α : Type} [Add α] [Mul α] (m : M44 α) (t : V3 α) : (M44 α) :=
  let t2752 := (t.y * m.x10)
  ⟨m.x00, m.x01, m.x02, m.x03, m.x10, m.x11, m.x12, m.x13, m.x20, m.x21, m.x22, m.x23, (m.x30 + (((t.x * m.x00) + t2752) + (t.z * m.x20))), (m.x31 + (((t.x * m.x01) + t2752) + (t.z * m.x21))), (m.x32 + (((t.x * m.x02) + (t.y * m.x12)) + (t.z * m.x22))), (m.x33 + (((t.x * m.x03) + (t.y * m.x13)) + (t.z * m.x23)))⟩

/-- extracted from the C++ template at T = Sym; 1 path(s) -/
def M44.setShearV {α : Type} [OfNat α 0] [OfNat α 1] (m : M44 α) (h : V3 α) : (M44 α) :=
  ⟨(1 : α), (0 : α), (0 : α), (0 : α), h.x, (1 : α), (0 : α), (0 : α), h.y, h.z, (1 : α), (0 : α), (0 : α), (0 : α), (0 : α), (1 : α)⟩

/-- extracted from the C++ template at T = Sym; 1 path(s) -/
def M44.setShear6 {α : Type} [OfNat α 0] [OfNat α 1] (m : M44 α) (h : Shear6 α) : (M44 α) :=
  ⟨(1 : α), h.yx, h.zx, (0 : α), h.xy, (1 : α), h.zy, (0 : α), h.xz, h.yz, (1 : α), (0 : α), (0 : α), (0 : α), (0 : α), (1 : α)⟩

/-- extracted from the C++ template at T = Sym; 1 path(s) -/
def M44.shearV {α : Type} [Add α] [Mul α] (m : M44 α) (h : V3 α) : (M44 α) :=
  ⟨m.x00, m.x01, m.x02, m.x03, (m.x10 + (h.x * m.x00)), (m.x11 + (h.x * m.x01)), (m.x12 + (h.x * m.x02)), (m.x13 + (h.x * m.x03)), (m.x20 + ((h.y * m.x00) + (h.z * m.x10))), (m.x21 + ((h.y * m.x01) + (h.z * m.x11))), (m.x22 + ((h.y * m.x02) + (h.z * m.x12))), (m.x23 + ((h.y * m.x03) + (h.z * m.x13))), m.x30, m.x31, m.x32, m.x33⟩

/-- extracted from the C++ template at T = Sym; 1 path(s) -/
def M44.shear6 {α : Type} [Add α] [Mul α] (m : M44 α) (h : Shear6 α) : (M44 α) :=
  ⟨((m.x00 + (h.yx * m.x10)) + (h.zx * m.x20)), ((m.x01 + (h.yx * m.x11)) + (h.zx * m.x21)), ((m.x02 + (h.yx * m.x12)) + (h.zx * m.x22)), ((m.x03 + (h.yx * m.x13)) + (h.zx * m.x23)), (((h.xy * m.x00) + m.x10) + (h.zy * m.x20)), (((h.xy * m.x01) + m.x11) + (h.zy * m.x21)), (((h.xy * m.x02) + m.x12) + (h.zy * m.x22)), (((h.xy * m.x03) + m.x13) + (h.zy * m.x23)), (((h.xz * m.x00) + (h.yz * m.x10)) + m.x20), (((h.xz * m.x01) + (h.yz * m.x11)) + m.x21), (((h.xz * m.x02) + (h.yz * m.x12)) + m.x22), (((h.xz * m.x03) + (h.yz * m.x13)) + m.x23), m.x30, m.x31, m.x32, m.x33⟩

/-- extracted from the C++ template at T = Sym; 1 path(s) -/
def M44.translateRet {α : Type} [Add α] [Mul α] (m : M44 α) (t : V3 α) : (M44 α) :=
  let t2752 := (t.y * m.x10)
  ⟨m.x00, m.x01, m.x02, m.x03, m.x10, m.x11, m.x12, m.x13, m.x20, m.x21, m.x22, m.x23, (m.x30 + (((t.x * m.x00) + t2752) + (t.z * m.x20))), (m.x31 + (((t.x * m.x01) + t2752) + (t.z * m.x21))), (m.x32 + (((t.x * m.x02) + (t.y * m.x12)) + (t.z * m.x22))), (m.x33 + (((t.x * m.x03) + (t.y * m.x13)) + (t.z * m.x23)))⟩

/-- extracted from the C++ template at T = Sym; 1 path(s) -/
def M33.setRotation {α : Type} [Neg α] [OfNat α 0] [OfNat α 1] (sin : α → α) (cos : α → α) (m : M33 α) (r : α) : (M33 α) :=
  let t2856 := (cos r)
  let t2857 := (sin r)
  ⟨t2856, t2857, (0 : α), (-t2857), t2856, (0 : α), (0 : α), (0 : α), (1 : α)⟩

/-- extracted from the C++ template at T = Sym; 1 path(s) -/
def M33.rotate {α : Type} [Add α] [Mul α] [Neg α] [OfNat α 0] [OfNat α 1] (sin : α → α) (cos : α → α) (m : M33 α) (r : α) : (M33 α) :=
  let t2856 := (cos r)
  let t2857 := (sin r)
  let t2858 := (-t2857)
  let t2859 := (m.x02 * (0 : α))
  let t2873 := (m.x12 * (0 : α))
  let t2887 := (m.x22 * (0 : α))
  ⟨(((m.x00 * t2856) + (m.x01 * t2858)) + t2859), (((m.x00 * t2857) + (m.x01 * t2856)) + t2859), (((m.x00 * (0 : α)) + (m.x01 * (0 : α))) + (m.x02 * (1 : α))), (((m.x10 * t2856) + (m.x11 * t2858)) + t2873), (((m.x10 * t2857) + (m.x11 * t2856)) + t2873), (((m.x10 * (0 : α)) + (m.x11 * (0 : α))) + (m.x12 * (1 : α))), (((m.x20 * t2856) + (m.x21 * t2858)) + t2887), (((m.x20 * t2857) + (m.x21 * t2856)) + t2887), (((m.x20 * (0 : α)) + (m.x21 * (0 : α))) + (m.x22 * (1 : α)))⟩

/-- extracted from the C++ template at T = Sym; 1 path(s) -/
def M33.setScaleS {α : Type} [OfNat α 0] [OfNat α 1] (m : M33 α) (s : α) : (M33 α) :=
  ⟨s, (0 : α), (0 : α), (0 : α), s, (0 : α), (0 : α), (0 : α), (1 : α)⟩

/-- extracted from the C++ template at T = Sym; 1 path(s) -/
def M33.setScaleV {α : Type} [OfNat α 0] [OfNat α 1] (m : M33 α) (s : V2 α) : (M33 α) :=
  ⟨s.x, (0 : α), (0 : α), (0 : α), s.y, (0 : α), (0 : α), (0 : α), (1 : α)⟩

/-- extracted from the C++ template at T = Sym; 1 path(s) -/
def M33.scale {α : Type} [Mul α] (m : M33 α) (s : V2 α) : (M33 α) :=
  ⟨(m.x00 * s.x), (m.x01 * s.x), (m.x02 * s.x), (m.x10 * s.y), (m.x11 * s.y), (m.x12 * s.y), m.x20, m.x21, m.x22⟩

/-- extracted from the C++ template at T = Sym; 1 path(s) -/
def M33.setTranslation {α : Type} [OfNat α 0] [OfNat α 1] (m : M33 α) (t : V2 α) : (M33 α) :=
  ⟨(1 : α), (0 : α), (0 : α), (0 : α), (1 : α), (0 : α), t.x, t.y, (1 : α)⟩

/-- extracted from the C++ template at T = Sym; 1 path(s) -/
def M33.translation {α : Type} (m : M33 α) : (V2 α) :=
  ⟨m.x20, m.x21⟩

/-- extracted from the C++ template at T = Sym; 1 path(s) -/
def M33.translate {α : Type} [Add α] [Mul α] (m : M33 α) (t : V2 α) : (M33 α) :=
  ⟨m.x00, m.x01, m.x02, m.x10, m.x11, m.x12, (m.x20 + ((t.x * m.x00) + (t.y * m.x10))), (m.x21 + ((t.x * m.x01) + (t.y * m.x11))), (m.x22 + ((t.x * m.x02) + (t.y * m.x12)))⟩

/-- extracted from the C++ template at T = Sym; 1 path(s) -/
def M33.setShearS {α : Type} [OfNat α 0] [OfNat α 1] (m : M33 α) (xy : α) : (M33 α) :=
  ⟨(1 : α), (0 : α), (0 : α), xy, (1 : α), (0 : α), (0 : α), (0 : α), (1 : α)⟩

/-- extracted from the C++ template at T = Sym; 1 path(s) -/
def M33.setShearV {α : Type} [OfNat α 0] [OfNat α 1] (m : M33 α) (h : V2 α) : (M33 α) :=
  ⟨(1 : α), h.y, (0 : α), h.x, (1 : α), (0 : α), (0 : α), (0 : α), (1 : α)⟩

/-- extracted from the C++ template at T = Sym; 1 path(s) -/
def M33.shearS {α : Type} [Add α] [Mul α] (m : M33 α) (xy : α) : (M33 α) :=
  ⟨m.x00, m.x01, m.x02, (m.x10 + (xy * m.x00)), (m.x11 + (xy * m.x01)), (m.x12 + (xy * m.x02)), m.x20, m.x21, m.x22⟩

/-- extracted from the C++ template at T = Sym; 1 path(s) -/
def M33.shearV {α : Type} [Add α] [Mul α] (m : M33 α) (h : V2 α) : (M33 α) :=
  ⟨(m.x00 + (h.y * m.x10)), (m.x01 + (h.y * m.x11)), (m.x02 + (h.y * m.x12)), (m.x10 + (h.x * m.x00)), (m.x11 + (h.x * m.x01)), (m.x12 + (h.x * m.x02)), m.x20, m.x21, m.x22⟩

/-- extracted from the C++ template at T = Sym; 1 path(s) -/
def M22.setRotation {α : Type} [Neg α] (sin : α → α) (cos : α → α) (m : M22 α) (r : α) : (M22 α) :=
  let t2856 := (cos r)
  let t2857 := (sin r)
  ⟨t2856, t2857, (-t2857), t2856⟩

/-- extracted from the C++ template at T = Sym; 1 path(s) -/
def M22.rotate {α : Type} [Add α] [Mul α] [Neg α] [OfNat α 0] (sin : α → α) (cos : α → α) (m : M22 α) (r : α) : (M22 α) :=
  let t2856 := (cos r)
  let t2857 := (sin r)
  let t2858 := (-t2857)
  ⟨(((0 : α) + (m.x00 * t2856)) + (m.x01 * t2858)), (((0 : α) + (m.x00 * t2857)) + (m.x01 * t2856)), (((0 : α) + (m.x10 * t2856)) + (m.x11 * t2858)), (((0 : α) + (m.x10 * t2857)) + (m.x11 * t2856))⟩

/-- extracted from the C++ template at T = Sym; 1 path(s) -/
def M22.setScaleS {α : Type} [OfNat α 0] (m : M22 α) (s : α) : (M22 α) :=
  ⟨s, (0 : α), (0 : α), s⟩

/-- extracted from the C++ template at T = Sym; 1 path(s) -/
def M22.setScaleV {α : Type} [OfNat α 0] (m : M22 α) (s : V2 α) : (M22 α) :=
  ⟨s.x, (0 : α), (0 : α), s.y⟩

/-- extracted from the C++ template at T = Sym; 1 path(s) -/
def M22.scale {α : Type} [Mul α] (m : M22 α) (s : V2 α) : (M22 α) :=
  ⟨(m.x00 * s.x), (m.x01 * s.x), (m.x10 * s.y), (m.x11 * s.y)⟩

end ImathVerif.Gen
