import ImathVerif.Spec.MatSpec
/-!
# Specifications for C09 — transform builders and frame builders

Imath matrices act on ROW vectors from the right (`p * M`); a 3-D point is the
homogeneous row `(x, y, z, 1)`, a 2-D point `(x, y, 1)`.

* plain 3-vector algebra (`dot`, `cross`, …) on `V3 α`;
* `LenSpec len`: what `Vec3::length()` is assumed to compute (C08 proves that the
  extracted `Gen.V3.length tmin sqrt` does) — `len v ^ 2 = v·v` and `0 ≤ len v`;
* `nrm len v`: `Vec3::normalized()` (zero vector when the length is zero);
* `IsRot R`: a 3×3 rotation — orthonormal rows and determinant +1 (right-handed);
* the coordinate-axis rotations in the row-vector convention;
* `alignZSpec`: the documented behaviour of `alignZAxisWithTargetDir`, fallbacks included.
-/
namespace ImathVerif.C09
open ImathVerif Matrix

section Vec
variable {α : Type}

def dot [Add α] [Mul α] (a b : V3 α) : α := a.x * b.x + a.y * b.y + a.z * b.z
def cross [Sub α] [Mul α] (a b : V3 α) : V3 α :=
  ⟨a.y * b.z - a.z * b.y, a.z * b.x - a.x * b.z, a.x * b.y - a.y * b.x⟩
def vadd [Add α] (a b : V3 α) : V3 α := ⟨a.x + b.x, a.y + b.y, a.z + b.z⟩
def vsub [Sub α] (a b : V3 α) : V3 α := ⟨a.x - b.x, a.y - b.y, a.z - b.z⟩
def vneg [Neg α] (a : V3 α) : V3 α := ⟨-a.x, -a.y, -a.z⟩
def smul [Mul α] (k : α) (a : V3 α) : V3 α := ⟨k * a.x, k * a.y, k * a.z⟩
def vzero [Zero α] : V3 α := ⟨0, 0, 0⟩

/-- what `Vec3::length()` computes (exact arithmetic): the non-negative root of `v·v` -/
def LenSpec [Field α] [LinearOrder α] (len : V3 α → α) : Prop :=
  ∀ v : V3 α, len v ^ 2 = dot v v ∧ 0 ≤ len v

/-- `Vec3::normalized()`: `l = length(); if (l == 0) return Vec3(0); return v / l` -/
def nrm [Div α] [Zero α] [DecidableEq α] (len : V3 α → α) (v : V3 α) : V3 α :=
  if len v = 0 then ⟨0, 0, 0⟩ else ⟨v.x / len v, v.y / len v, v.z / len v⟩

/-- the three given rows as a 3×3 matrix -/
def rows3 (a b c : V3 α) : Matrix (Fin 3) (Fin 3) α := !![a.x, a.y, a.z; b.x, b.y, b.z; c.x, c.y, c.z]

/-- upper-left 3×3 block (rotation/scale part) of a 4×4 matrix -/
def rot3 (m : M44 α) : Matrix (Fin 3) (Fin 3) α :=
  !![m.x00, m.x01, m.x02; m.x10, m.x11, m.x12; m.x20, m.x21, m.x22]
def row0 (m : M44 α) : V3 α := ⟨m.x00, m.x01, m.x02⟩
def row1 (m : M44 α) : V3 α := ⟨m.x10, m.x11, m.x12⟩
def row2 (m : M44 α) : V3 α := ⟨m.x20, m.x21, m.x22⟩
/-- translation row -/
def row3 (m : M44 α) : V3 α := ⟨m.x30, m.x31, m.x32⟩
/-- last column is `(0,0,0,1)`: the matrix is an affine transform -/
def IsAffine [Zero α] [One α] (m : M44 α) : Prop := m.x03 = 0 ∧ m.x13 = 0 ∧ m.x23 = 0 ∧ m.x33 = 1

/-- frame with axes `r0 r1 r2` (rows) and origin `p` -/
def frameM44 [Zero α] [One α] (r0 r1 r2 p : V3 α) : M44 α :=
  ⟨r0.x, r0.y, r0.z, 0, r1.x, r1.y, r1.z, 0, r2.x, r2.y, r2.z, 0, p.x, p.y, p.z, 1⟩

def M44.identity [Zero α] [One α] : M44 α := ⟨1, 0, 0, 0, 0, 1, 0, 0, 0, 0, 1, 0, 0, 0, 0, 1⟩

end Vec

/-- a 3-D rotation: orthonormal rows, right-handed -/
def IsRot {α : Type} [CommRing α] (R : Matrix (Fin 3) (Fin 3) α) : Prop := R * Rᵀ = 1 ∧ R.det = 1

/-- an orthonormal right-handed frame: affine, with a rotation as its 3×3 block -/
def IsFrame {α : Type} [CommRing α] (m : M44 α) : Prop := IsRot (rot3 m) ∧ IsAffine m

/-! decidability (used only to EVALUATE statements at `Rat` when the check searches for a failing input) -/
instance {α : Type} [CommRing α] [DecidableEq α] (R : Matrix (Fin 3) (Fin 3) α) : Decidable (IsRot R) := by
  unfold IsRot; infer_instance
instance {α : Type} [Zero α] [One α] [DecidableEq α] (m : M44 α) : Decidable (IsAffine m) := by
  unfold IsAffine; infer_instance
instance {α : Type} [CommRing α] [DecidableEq α] (m : M44 α) : Decidable (IsFrame m) := by
  unfold IsFrame; infer_instance

section Axis
variable {α : Type} [CommRing α]
/-- rotations about the coordinate axes by an angle with sine `s` and cosine `c`, row-vector convention
(`p * rotZ s c` turns `p` counter-clockwise about +z when seen from the tip of the axis) -/
def rotX (s c : α) : Matrix (Fin 4) (Fin 4) α := !![1, 0, 0, 0; 0, c, s, 0; 0, -s, c, 0; 0, 0, 0, 1]
def rotY (s c : α) : Matrix (Fin 4) (Fin 4) α := !![c, 0, -s, 0; 0, 1, 0, 0; s, 0, c, 0; 0, 0, 0, 1]
def rotZ (s c : α) : Matrix (Fin 4) (Fin 4) α := !![c, s, 0, 0; -s, c, 0, 0; 0, 0, 1, 0; 0, 0, 0, 1]

/-- Rodrigues' formula: `p` turned by the angle `(s, c)` about the UNIT axis `u` (right-hand rule) -/
def rodrigues (s c : α) (u p : V3 α) : V3 α :=
  vadd (vadd (smul c p) (smul ((1 - c) * dot u p) u)) (smul s (cross u p))
end Axis

/-- documented behaviour of `alignZAxisWithTargetDir (result, targetDir, upDir)`:
zero target → +z; zero up → +y; up ∥ target → `target × x̂`, or `target × ẑ` when that vanishes too;
rows = normalised `up × target`, `target × (up × target)`, `target`. -/
def alignZSpec {α : Type} [Field α] [DecidableEq α] (len : V3 α → α) (targetDir upDir : V3 α) : M44 α :=
  let t : V3 α := if len targetDir = 0 then ⟨0, 0, 1⟩ else targetDir
  let u1 : V3 α := if len upDir = 0 then ⟨0, 1, 0⟩ else upDir
  let u : V3 α :=
    if len (cross u1 t) = 0 then
      (if len (cross t ⟨1, 0, 0⟩) = 0 then cross t ⟨0, 0, 1⟩ else cross t ⟨1, 0, 0⟩)
    else u1
  let perp := cross u t
  let upd := cross t perp
  frameM44 (nrm len perp) (nrm len upd) (nrm len t) ⟨0, 0, 0⟩

end ImathVerif.C09
