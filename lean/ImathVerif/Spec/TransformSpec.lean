import ImathVerif.Spec.MatSpec
import Mathlib.Tactic.SplitIfs
/-!
# Specifications for C09 — transform builders and frame builders

Imath matrices act on ROW vectors from the right (`p * M`); a 3-D point is the
homogeneous row `(x, y, z, 1)`, a 2-D point `(x, y, 1)`.

* plain 3-vector algebra (`dot`, `cross`, …) on `V3 α`;
* `LenSpec len`: what `Vec3::length()` is assumed to compute (C08 proves that the
  extracted `Gen.V3.length tmin sqrt` does) — `len v ^ 2 = v·v` and `0 ≤ len v`;
* `nrm len v`: `Vec3::normalized()` (zero vector when the length is zero);
* `IsRot R`: a 3×3 rotation — orthonormal rows and determinant +1 (right-handed);
* the coordinate-axis rotations in the row-vector convention;
* `alignZSpec`: the documented behaviour of `alignZAxisWithTargetDir`, fallbacks included.
-/
namespace ImathVerif.C09
open ImathVerif Matrix

section Vec
variable {α : Type}

def dot [Add α] [Mul α] (a b : V3 α) : α := a.x * b.x + a.y * b.y + a.z * b.z
def cross [Sub α] [Mul α] (a b : V3 α) : V3 α :=
  ⟨a.y * b.z - a.z * b.y, a.z * b.x - a.x * b.z, a.x * b.y - a.y * b.x⟩
def vadd [Add α] (a b : V3 α) : V3 α := ⟨a.x + b.x, a.y + b.y, a.z + b.z⟩
def vsub [Sub α] (a b : V3 α) : V3 α := ⟨a.x - b.x, a.y - b.y, a.z - b.z⟩
def vneg [Neg α] (a : V3 α) : V3 α := ⟨-a.x, -a.y, -a.z⟩
def smul [Mul α] (k : α) (a : V3 α) : V3 α := ⟨k * a.x, k * a.y, k * a.z⟩
def vzero [Zero α] : V3 α := ⟨0, 0, 0⟩

/-- what `Vec3::length()` computes (exact arithmetic): the non-negative root of `v·v` -/
def LenSpec [Field α] [LinearOrder α] (len : V3 α → α) : Prop :=
  ∀ v : V3 α, len v ^ 2 = dot v v ∧ 0 ≤ len v

/-- `Vec3::normalized()`: `l = length(); if (l == 0) return Vec3(0); return v / l` -/
def nrm [Div α] [Zero α] [DecidableEq α] (len : V3 α → α) (v : V3 α) : V3 α :=
  if len v = 0 then ⟨0, 0, 0⟩ else ⟨v.x / len v, v.y / len v, v.z / len v⟩

/-- the three given rows as a 3×3 matrix -/
def rows3 (a b c : V3 α) : Matrix (Fin 3) (Fin 3) α := !![a.x, a.y, a.z; b.x, b.y, b.z; c.x, c.y, c.z]

/-- upper-left 3×3 block (rotation/scale part) of a 4×4 matrix -/
def rot3 (m : M44 α) : Matrix (Fin 3) (Fin 3) α :=
  !![m.x00, m.x01, m.x02; m.x10, m.x11, m.x12; m.x20, m.x21, m.x22]
def row0 (m : M44 α) : V3 α := ⟨m.x00, m.x01, m.x02⟩
def row1 (m : M44 α) : V3 α := ⟨m.x10, m.x11, m.x12⟩
def row2 (m : M44 α) : V3 α := ⟨m.x20, m.x21, m.x22⟩
/-- translation row -/
def row3 (m : M44 α) : V3 α := ⟨m.x30, m.x31, m.x32⟩
/-- last column is `(0,0,0,1)`: the matrix is an affine transform -/
def IsAffine [Zero α] [One α] (m : M44 α) : Prop := m.x03 = 0 ∧ m.x13 = 0 ∧ m.x23 = 0 ∧ m.x33 = 1

/-- frame with axes `r0 r1 r2` (rows) and origin `p` -/
def frameM44 [Zero α] [One α] (r0 r1 r2 p : V3 α) : M44 α :=
  ⟨r0.x, r0.y, r0.z, 0, r1.x, r1.y, r1.z, 0, r2.x, r2.y, r2.z, 0, p.x, p.y, p.z, 1⟩

def M44.identity [Zero α] [One α] : M44 α := ⟨1, 0, 0, 0, 0, 1, 0, 0, 0, 0, 1, 0, 0, 0, 0, 1⟩

end Vec

/-- a 3-D rotation: orthonormal rows, right-handed -/
def IsRot {α : Type} [CommRing α] (R : Matrix (Fin 3) (Fin 3) α) : Prop := R * Rᵀ = 1 ∧ R.det = 1

/-- an orthonormal right-handed frame: affine, with a rotation as its 3×3 block -/
def IsFrame {α : Type} [CommRing α] (m : M44 α) : Prop := IsRot (rot3 m) ∧ IsAffine m

/-! decidability (used only to EVALUATE statements at `Rat` when the check searches for a failing input) -/
instance {α : Type} [CommRing α] [DecidableEq α] (R : Matrix (Fin 3) (Fin 3) α) : Decidable (IsRot R) := by
  unfold IsRot; infer_instance
instance {α : Type} [Zero α] [One α] [DecidableEq α] (m : M44 α) : Decidable (IsAffine m) := by
  unfold IsAffine; infer_instance
instance {α : Type} [CommRing α] [DecidableEq α] (m : M44 α) : Decidable (IsFrame m) := by
  unfold IsFrame; infer_instance

section Axis
variable {α : Type} [CommRing α]
/-- rotations about the coordinate axes by an angle with sine `s` and cosine `c`, row-vector convention
(`p * rotZ s c` turns `p` counter-clockwise about +z when seen from the tip of the axis) -/
def rotX (s c : α) : Matrix (Fin 4) (Fin 4) α := !![1, 0, 0, 0; 0, c, s, 0; 0, -s, c, 0; 0, 0, 0, 1]
def rotY (s c : α) : Matrix (Fin 4) (Fin 4) α := !![c, 0, -s, 0; 0, 1, 0, 0; s, 0, c, 0; 0, 0, 0, 1]
def rotZ (s c : α) : Matrix (Fin 4) (Fin 4) α := !![c, s, 0, 0; -s, c, 0, 0; 0, 0, 1, 0; 0, 0, 0, 1]

/-- Rodrigues' formula: `p` turned by the angle `(s, c)` about the UNIT axis `u` (right-hand rule) -/
def rodrigues (s c : α) (u p : V3 α) : V3 α :=
  vadd (vadd (smul c p) (smul ((1 - c) * dot u p) u)) (smul s (cross u p))
end Axis

/-- rows of the axis/angle matrix `setAxisAngle` writes, for a UNIT axis `u` and an angle with sine `s`, cosine `c` -/
def aaRow0 {α : Type} [CommRing α] (s c : α) (u : V3 α) : V3 α :=
  ⟨u.x * u.x * (1 - c) + c, u.x * u.y * (1 - c) + u.z * s, u.x * u.z * (1 - c) - u.y * s⟩
def aaRow1 {α : Type} [CommRing α] (s c : α) (u : V3 α) : V3 α :=
  ⟨u.x * u.y * (1 - c) - u.z * s, u.y * u.y * (1 - c) + c, u.y * u.z * (1 - c) + u.x * s⟩
def aaRow2 {α : Type} [CommRing α] (s c : α) (u : V3 α) : V3 α :=
  ⟨u.x * u.z * (1 - c) + u.y * s, u.y * u.z * (1 - c) - u.x * s, u.z * u.z * (1 - c) + c⟩
/-- `Matrix44::setAxisAngle (axis, angle)` for an axis of non-zero length: the axis/angle matrix of the normalised axis -/
def axisAngleM44 {α : Type} [Field α] [DecidableEq α] (len : V3 α → α) (s c : α) (axis : V3 α) : M44 α :=
  frameM44 (aaRow0 s c (nrm len axis)) (aaRow1 s c (nrm len axis)) (aaRow2 s c (nrm len axis)) ⟨0, 0, 0⟩
/-- translation matrix (row-vector convention) -/
def transMat {α : Type} [Zero α] [One α] (v : V3 α) : Matrix (Fin 4) (Fin 4) α :=
  !![1, 0, 0, 0; 0, 1, 0, 0; 0, 0, 1, 0; v.x, v.y, v.z, 1]
/-- `Vec3::normalize()` (in place): unchanged when the length is zero -/
def nrmIP {α : Type} [Div α] [Zero α] [DecidableEq α] (len : V3 α → α) (v : V3 α) : V3 α :=
  if len v = 0 then v else ⟨v.x / len v, v.y / len v, v.z / len v⟩

/-- closes `extracted decision tree = hand-written spec` goals after both sides are unfolded -/
macro "tree_eq" : tactic =>
  `(tactic| (split_ifs <;> first | rfl | (simp only [*, if_true, if_false]; done) | (simp [*]; done) | (simp_all; done)))

/-- largest absolute component, as the code computes it: `std::max (std::max (std::abs x, std::abs y), std::abs z)` -/
def maxAbs {α : Type} [LT α] [DecidableLT α] [Neg α] [OfNat α 0] (v : V3 α) : α := smax (smax (sabs v.x) (sabs v.y)) (sabs v.z)
/-- `v /= maxAbs v`: the vector brought to unit scale (largest component ±1) — `alignZAxisWithTargetDir` does this to both arguments
since /repo 8e640b7, so that its quadratic / cubic cross products cannot overflow or underflow -/
def scaleMax {α : Type} [LT α] [DecidableLT α] [Neg α] [OfNat α 0] [Div α] (v : V3 α) : V3 α :=
  ⟨v.x / maxAbs v, v.y / maxAbs v, v.z / maxAbs v⟩

/-- documented behaviour of `alignZAxisWithTargetDir (result, targetDir, upDir)`:
zero target → +z; zero up → +y; both rescaled by their largest component; up ∥ target → `target × x̂`, or `target × ẑ` when that vanishes
too; rows = normalised `up × target`, `target × (up × target)`, `target`. -/
def alignZSpec {α : Type} [Field α] [LinearOrder α] (len : V3 α → α) (targetDir upDir : V3 α) : M44 α :=
  let t : V3 α := scaleMax (if len targetDir = 0 then ⟨0, 0, 1⟩ else targetDir)
  let u1 : V3 α := scaleMax (if len upDir = 0 then ⟨0, 1, 0⟩ else upDir)
  let u : V3 α :=
    if len (cross u1 t) = 0 then
      (if len (cross t ⟨1, 0, 0⟩) = 0 then cross t ⟨0, 0, 1⟩ else cross t ⟨1, 0, 0⟩)
    else u1
  let perp := cross u t
  let upd := cross t perp
  frameM44 (nrm len perp) (nrm len upd) (nrm len t) ⟨0, 0, 0⟩

/-! ## documented behaviour of the other frame builders (`len` stands for `Vec3::length`) -/
section FrameSpecs
variable {α : Type} [Field α] [LinearOrder α]

/-- `computeLocalFrame (p, xDir, normal)`: `x̂ = xDir^`, `ŷ = (normal × x̂)^`, `ẑ = (x̂ × ŷ)^` (in-place normalisations), origin `p` -/
def computeLocalFrameSpec (len : V3 α → α) (p xDir normal : V3 α) : M44 α :=
  let x := nrmIP len xDir
  let y := nrmIP len (cross normal x)
  let z := nrmIP len (cross x y)
  frameM44 x y z p

/-- the coordinate direction chosen by `firstFrame` when the three points are collinear: the axis along which the
tangent has its smallest component -/
def ffAxis (t : V3 α) : V3 α :=
  if sabs t.x < sabs t.y then (if sabs t.z < sabs t.x then ⟨0, 0, 1⟩ else ⟨1, 0, 0⟩)
  else (if sabs t.z < sabs t.y then ⟨0, 0, 1⟩ else ⟨0, 1, 0⟩)

/-- `firstFrame (pi, pj, pk)`: tangent `(pj − pi)^` (`domain_error` when `pi = pj`), normal `(t × (pk − pi))^` or, for collinear
points, `(t × ffAxis t)^`, binormal `t × n`, origin `pi` -/
def firstFrameSpec (len : V3 α → α) (pi pj pk : V3 α) : Except Exc (M44 α) :=
  let d := vsub pj pi
  if len d = 0 then .error Exc.domainError
  else
    let t : V3 α := ⟨d.x / len d, d.y / len d, d.z / len d⟩
    let n0 := nrmIP len (cross t (vsub pk pi))
    let n := if len n0 = 0 then nrmIP len (cross t (ffAxis t)) else n0
    .ok (frameM44 t n (cross t n) pi)

/-- the transform `nextFrame` multiplies onto the previous frame (from the right: applied AFTER `Mi`): translate by `−pi`, turn about
`ti^ × tj^` by `acos (clamp (ti^·tj^))`, translate by `pj` — or just translate by `pj − pi` when a tangent is zero, the tangents are
parallel, or the angle is zero -/
def nextFrameStep (len : V3 α → α) (sin cos acos : α → α) (pi pj ti tj : V3 α) : Matrix (Fin 4) (Fin 4) α :=
  let fi : V3 α := ⟨ti.x / len ti, ti.y / len ti, ti.z / len ti⟩
  let fj : V3 α := ⟨tj.x / len tj, tj.y / len tj, tj.z / len tj⟩
  let d0 := dot fi fj
  let d := if 1 < d0 then 1 else if d0 < -1 then -1 else d0
  if ¬ len ti = 0 ∧ ¬ len tj = 0 ∧ ¬ len (cross fi fj) = 0 ∧ ¬ acos d = 0 then
    transMat (vneg pi) * (axisAngleM44 len (sin (acos d)) (cos (acos d)) (cross fi fj)).toMat * transMat pj
  else transMat (vsub pj pi)

/-- the rotation `nextFrame` applies to the axes of the previous frame -/
def nextFrameRot (len : V3 α → α) (sin cos acos : α → α) (ti tj : V3 α) : Matrix (Fin 3) (Fin 3) α :=
  let fi : V3 α := ⟨ti.x / len ti, ti.y / len ti, ti.z / len ti⟩
  let fj : V3 α := ⟨tj.x / len tj, tj.y / len tj, tj.z / len tj⟩
  let d0 := dot fi fj
  let d := if 1 < d0 then 1 else if d0 < -1 then -1 else d0
  if ¬ len ti = 0 ∧ ¬ len tj = 0 ∧ ¬ len (cross fi fj) = 0 ∧ ¬ acos d = 0 then
    rot3 (axisAngleM44 len (sin (acos d)) (cos (acos d)) (cross fi fj))
  else 1

/-- what is assumed of `acos` (with `sin`, `cos`) for the alignment statement; real `arccos` satisfies it -/
def AcosSpec (sin cos acos : α → α) : Prop :=
  (∀ x, sin x ^ 2 + cos x ^ 2 = 1) ∧ cos 0 = 1 ∧ ∀ x, -1 ≤ x → x ≤ 1 → cos (acos x) = x ∧ 0 ≤ sin (acos x)

/-- the degrees→radians factor used by `addOffset`: the double nearest to π/180, as an exact rational -/
def degToRad : α := (5030569068109113 : α) / 288230376151711744

/-- Hamilton product (`Quat::operator*=`) -/
def qmul (a b : Quat α) : Quat α :=
  ⟨a.r * b.r - (a.v.x * b.v.x + a.v.y * b.v.y + a.v.z * b.v.z),
   ⟨a.r * b.v.x + a.v.x * b.r + (a.v.y * b.v.z - a.v.z * b.v.y),
    a.r * b.v.y + a.v.y * b.r + (a.v.z * b.v.x - a.v.x * b.v.z),
    a.r * b.v.z + a.v.z * b.r + (a.v.x * b.v.y - a.v.y * b.v.x)⟩⟩

/-- `Quat::setRotationInternal(f0, t0, q)`: `h0 = (f0 + t0).normalized(); q.r = f0 ^ h0; q.v = f0 % h0` -/
def qInternal (len : V3 α → α) (f0 t0 : V3 α) : Quat α :=
  ⟨dot f0 (nrm len (vadd f0 t0)), cross f0 (nrm len (vadd f0 t0))⟩

/-- the axis chosen by `Quat::setRotation` for opposite directions: `f0 ×` the coordinate axis along which `f0` is smallest -/
def qOppositeAxis (len : V3 α → α) (f0 : V3 α) : V3 α :=
  if f0.x * f0.x ≤ f0.y * f0.y ∧ f0.x * f0.x ≤ f0.z * f0.z then nrm len (cross f0 ⟨1, 0, 0⟩)
  else if f0.y * f0.y ≤ f0.z * f0.z then nrm len (cross f0 ⟨0, 1, 0⟩)
  else nrm len (cross f0 ⟨0, 0, 1⟩)

/-- `Quat::setRotation(from, to)` as documented in ImathQuat.h: angle ≤ π/2 — one half-way quaternion; larger angles — product of two
half rotations through `h0 = (f0 + t0)^`; `|f0 + t0|² ≤ (8 ε)²` (opposite to within the rounding of the two normalisations, in particular
exactly opposite) — half-turn about an axis perpendicular to `f0` -/
def quatSetRotationSpec (len : V3 α → α) (teps : α) (fromDir toDir : V3 α) : Quat α :=
  let f0 := nrm len fromDir
  let t0 := nrm len toDir
  if 0 ≤ dot f0 t0 then qInternal len f0 t0
  else
    let s := vadd f0 t0
    let h0 : V3 α := if (8 * teps) * (8 * teps) < dot s s then nrm len s else ⟨0, 0, 0⟩
    if dot h0 h0 = 0 then ⟨0, qOppositeAxis len f0⟩
    else qmul (qInternal len f0 h0) (qInternal len h0 t0)

/-- rows of `Quat::toMatrix44` -/
def qRow0 (q : Quat α) : V3 α := ⟨1 - 2 * (q.v.y * q.v.y + q.v.z * q.v.z), 2 * (q.v.x * q.v.y + q.v.z * q.r), 2 * (q.v.z * q.v.x - q.v.y * q.r)⟩
def qRow1 (q : Quat α) : V3 α := ⟨2 * (q.v.x * q.v.y - q.v.z * q.r), 1 - 2 * (q.v.z * q.v.z + q.v.x * q.v.x), 2 * (q.v.y * q.v.z + q.v.x * q.r)⟩
def qRow2 (q : Quat α) : V3 α := ⟨2 * (q.v.z * q.v.x + q.v.y * q.r), 2 * (q.v.y * q.v.z - q.v.x * q.r), 1 - 2 * (q.v.y * q.v.y + q.v.x * q.v.x)⟩
/-- `Quat::toMatrix44 ()` -/
def quatM44 (q : Quat α) : M44 α := frameM44 (qRow0 q) (qRow1 q) (qRow2 q) ⟨0, 0, 0⟩
/-- `rotationMatrix (from, to)` as documented -/
def rotationMatrixSpec (len : V3 α → α) (teps : α) (fromDir toDir : V3 α) : M44 α :=
  quatM44 (quatSetRotationSpec len teps fromDir toDir)

end FrameSpecs

end ImathVerif.C09
