import ImathVerif.Basic.Types
import Mathlib.Algebra.Order.Field.Basic
import Mathlib.Tactic.Ring
/-!
# Vocabulary of the geometric specifications (C15)

Plain 3-vector algebra on the `V3` structure (the element type is any field),
the predicates "point on a line / plane / sphere", and the specification of a
Euclidean length function.  Everything here is a one-line definition so that
the property theorems of `Props/C15.lean` can be read without the code.
-/
namespace ImathVerif.Geo
variable {α : Type} [Field α] [LinearOrder α]

def dot (a b : V3 α) : α := a.x * b.x + a.y * b.y + a.z * b.z
def cross (a b : V3 α) : V3 α :=
  ⟨a.y * b.z - a.z * b.y, a.z * b.x - a.x * b.z, a.x * b.y - a.y * b.x⟩
def add (a b : V3 α) : V3 α := ⟨a.x + b.x, a.y + b.y, a.z + b.z⟩
def sub (a b : V3 α) : V3 α := ⟨a.x - b.x, a.y - b.y, a.z - b.z⟩
def smul (k : α) (a : V3 α) : V3 α := ⟨k * a.x, k * a.y, k * a.z⟩
def neg (a : V3 α) : V3 α := ⟨-a.x, -a.y, -a.z⟩
def zero : V3 α := ⟨0, 0, 0⟩

/-! the same vocabulary for `V2` and `V4` (ImathVecAlgo.h is generic in the vector type) -/
def dot2 (a b : V2 α) : α := a.x * b.x + a.y * b.y
def add2 (a b : V2 α) : V2 α := ⟨a.x + b.x, a.y + b.y⟩
def sub2 (a b : V2 α) : V2 α := ⟨a.x - b.x, a.y - b.y⟩
def smul2 (k : α) (a : V2 α) : V2 α := ⟨k * a.x, k * a.y⟩
def zero2 : V2 α := ⟨0, 0⟩
def dist2v2 (a b : V2 α) : α := dot2 (sub2 a b) (sub2 a b)
def dot4 (a b : V4 α) : α := a.x * b.x + a.y * b.y + a.z * b.z + a.w * b.w
def add4 (a b : V4 α) : V4 α := ⟨a.x + b.x, a.y + b.y, a.z + b.z, a.w + b.w⟩
def sub4 (a b : V4 α) : V4 α := ⟨a.x - b.x, a.y - b.y, a.z - b.z, a.w - b.w⟩
def smul4 (k : α) (a : V4 α) : V4 α := ⟨k * a.x, k * a.y, k * a.z, k * a.w⟩
def zero4 : V4 α := ⟨0, 0, 0, 0⟩
def dist2v4 (a b : V4 α) : α := dot4 (sub4 a b) (sub4 a b)

/-- squared Euclidean distance of two points -/
def dist2 (a b : V3 α) : α := dot (sub a b) (sub a b)

/-- the point of the line at parameter `t` -/
def lineAt (l : Line3 α) (t : α) : V3 α := ⟨l.pos.x + l.dir.x * t, l.pos.y + l.dir.y * t, l.pos.z + l.dir.z * t⟩
/-- `p` is a point of the line `pos + t·dir` -/
def OnLine (l : Line3 α) (p : V3 α) : Prop := ∃ t, p = lineAt l t
/-- signed distance of `p` to the plane `normal·x = distance` (a true distance when the normal is a unit vector) -/
def signedDist (pl : Plane3 α) (p : V3 α) : α := dot pl.normal p - pl.distance
/-- `p` lies in the plane -/
def OnPlane (pl : Plane3 α) (p : V3 α) : Prop := signedDist pl p = 0
/-- `p` lies on the sphere -/
def OnSphere (s : Sphere3 α) (p : V3 α) : Prop := dist2 p s.center = s.radius * s.radius
/-- closed ball -/
def InBall (s : Sphere3 α) (p : V3 α) : Prop := dist2 p s.center ≤ s.radius * s.radius
/-- closed box -/
def InBox (b : Box3 α) (p : V3 α) : Prop :=
  b.min.x ≤ p.x ∧ p.x ≤ b.max.x ∧ b.min.y ≤ p.y ∧ p.y ≤ b.max.y ∧ b.min.z ≤ p.z ∧ p.z ≤ b.max.z

/-- `p = b₀ v₀ + b₁ v₁ + b₂ v₂` -/
def baryPoint (b v0 v1 v2 : V3 α) : V3 α := add (add (smul b.x v0) (smul b.y v1)) (smul b.z v2)
/-- `p` is a point of the closed triangle `v0 v1 v2` -/
def InTriangle (v0 v1 v2 p : V3 α) : Prop :=
  ∃ b : V3 α, 0 ≤ b.x ∧ 0 ≤ b.y ∧ 0 ≤ b.z ∧ b.x + b.y + b.z = 1 ∧ p = baryPoint b v0 v1 v2

/-- specification of a Euclidean length: non-negative, and its square is the sum of squares -/
def LenSpec (len : V3 α → α) : Prop := ∀ v, len v ^ 2 = dot v v ∧ 0 ≤ len v
def LenSpec2 (len : V2 α → α) : Prop := ∀ v, len v ^ 2 = dot2 v v ∧ 0 ≤ len v
def LenSpec4 (len : V4 α → α) : Prop := ∀ v, len v ^ 2 = dot4 v v ∧ 0 ≤ len v
/-- specification of a square root on the non-negative elements -/
def SqrtSpec (sqrt : α → α) : Prop := ∀ x, 0 ≤ x → sqrt x * sqrt x = x ∧ 0 ≤ sqrt x

/-- row-vector × 4×4 matrix with the homogeneous divide, as `Vec3 * Matrix44` (spec form) -/
def mulM44 (p : V3 α) (m : M44 α) : V3 α :=
  let w := p.x * m.x03 + p.y * m.x13 + p.z * m.x23 + m.x33
  ⟨(p.x * m.x00 + p.y * m.x10 + p.z * m.x20 + m.x30) / w,
   (p.x * m.x01 + p.y * m.x11 + p.z * m.x21 + m.x31) / w,
   (p.x * m.x02 + p.y * m.x12 + p.z * m.x22 + m.x32) / w⟩
/-- determinant of the upper-left 3×3 block (the linear part of an affine matrix) -/
def det3 (m : M44 α) : α :=
  m.x00 * (m.x11 * m.x22 - m.x12 * m.x21) - m.x01 * (m.x10 * m.x22 - m.x12 * m.x20) + m.x02 * (m.x10 * m.x21 - m.x11 * m.x20)
/-- last column `(0,0,0,1)ᵀ`: an affine matrix -/
def Affine (m : M44 α) : Prop := m.x03 = 0 ∧ m.x13 = 0 ∧ m.x23 = 0 ∧ m.x33 = 1

/-! projective matrices: the homogeneous `w`, the numerators of `Vec3 * Matrix44`, the full 4×4 determinant -/
/-- homogeneous `w` of `Vec3 * Matrix44` (`mulM44 p m = numM44 p m / wOf p m`) -/
def wOf (p : V3 α) (m : M44 α) : α := p.x * m.x03 + p.y * m.x13 + p.z * m.x23 + m.x33
/-- numerators of `Vec3 * Matrix44` before the homogeneous divide -/
def numM44 (p : V3 α) (m : M44 α) : V3 α :=
  ⟨p.x * m.x00 + p.y * m.x10 + p.z * m.x20 + m.x30, p.x * m.x01 + p.y * m.x11 + p.z * m.x21 + m.x31, p.x * m.x02 + p.y * m.x12 + p.z * m.x22 + m.x32⟩
/-- determinant of the full 4×4 matrix (Laplace expansion along the first row) -/
def det4 (m : M44 α) : α :=
  m.x00 * (m.x11 * (m.x22 * m.x33 - m.x23 * m.x32) - m.x12 * (m.x21 * m.x33 - m.x23 * m.x31) + m.x13 * (m.x21 * m.x32 - m.x22 * m.x31))
  - m.x01 * (m.x10 * (m.x22 * m.x33 - m.x23 * m.x32) - m.x12 * (m.x20 * m.x33 - m.x23 * m.x30) + m.x13 * (m.x20 * m.x32 - m.x22 * m.x30))
  + m.x02 * (m.x10 * (m.x21 * m.x33 - m.x23 * m.x31) - m.x11 * (m.x20 * m.x33 - m.x23 * m.x30) + m.x13 * (m.x20 * m.x31 - m.x21 * m.x30))
  - m.x03 * (m.x10 * (m.x21 * m.x32 - m.x22 * m.x31) - m.x11 * (m.x20 * m.x32 - m.x22 * m.x30) + m.x12 * (m.x20 * m.x31 - m.x21 * m.x30))
/-- the homogeneous `w` of the three points from which `plane * M` rebuilds the plane (`d·n`, `d·n + D×n`, `d·n + D`) does not vanish,
for every direction `D = eᵢ × n` the code CAN pick: a coordinate axis `eᵢ` whose `|eᵢ × n|` is maximal (the code takes one of those;
nothing is asked of the other axes) -/
def MulM44Defined (pl : Plane3 α) (m : M44 α) : Prop :=
  wOf (smul pl.distance pl.normal) m ≠ 0 ∧
  ∀ D, (D = cross ⟨1, 0, 0⟩ pl.normal ∨ D = cross ⟨0, 1, 0⟩ pl.normal ∨ D = cross ⟨0, 0, 1⟩ pl.normal) →
    (dot (cross ⟨1, 0, 0⟩ pl.normal) (cross ⟨1, 0, 0⟩ pl.normal) ≤ dot D D ∧ dot (cross ⟨0, 1, 0⟩ pl.normal) (cross ⟨0, 1, 0⟩ pl.normal) ≤ dot D D ∧
      dot (cross ⟨0, 0, 1⟩ pl.normal) (cross ⟨0, 0, 1⟩ pl.normal) ≤ dot D D) →
    wOf (add (smul pl.distance pl.normal) (cross D pl.normal)) m ≠ 0 ∧ wOf (add (smul pl.distance pl.normal) D) m ≠ 0

end ImathVerif.Geo
