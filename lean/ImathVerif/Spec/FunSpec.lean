/-
Specification vocabulary for C17 (core Lean only).

`fvalP p u` : value of the magnitude bits `u` of an IEEE binary format with `p`
              stored mantissa bits, in units of the smallest subnormal
              (binary32: p = 23, unit 2^-149; binary64: p = 52, unit 2^-1074);
              the all-ones-exponent pattern with zero mantissa gets the value
              2^emax+1 ("infinity is the next binade"), which is what makes
              `succ (MAX) = +inf` a +1 step.
`ordP sb u` : the order embedding of sign-magnitude patterns into `Int`
              (`sb` = the sign bit), ±0 ↦ 0.
`valP`      : signed value.
-/
namespace ImathVerif.Fun

/-- value of the magnitude bits `u` of an IEEE binary format with `p` stored
mantissa bits, in units of the smallest subnormal -/
def fvalP (p u : Nat) : Nat :=
  if u / 2 ^ p = 0 then u % 2 ^ p else (2 ^ p + u % 2 ^ p) * 2 ^ (u / 2 ^ p - 1)

/-- order embedding of sign-magnitude patterns into Int (`sb` = the sign bit); ±0 ↦ 0 -/
def ordP (sb u : Nat) : Int := if u < sb then (u : Int) else -((u - sb : Nat) : Int)
def ord32 (u : Nat) : Int := ordP 2147483648 u
def ord64 (u : Nat) : Int := ordP 9223372036854775808 u

/-- signed value, in units of the smallest subnormal -/
def valP (p sb u : Nat) : Int := if u < sb then (fvalP p u : Int) else -(fvalP p (u - sb) : Int)

def val32 (u : Nat) : Int := valP 23 2147483648 u
def val64 (u : Nat) : Int := valP 52 9223372036854775808 u

end ImathVerif.Fun
