import ImathVerif.Spec.HalfSpec
import Mathlib.Tactic.Ring
import Mathlib.Tactic.Linarith
import Mathlib.Tactic.Positivity
import Mathlib.Tactic.NormNum
import Mathlib.Tactic.FieldSimp
import Mathlib.Algebra.Order.Field.Basic
import Mathlib.Algebra.Order.Ring.Abs
import Mathlib.Algebra.Order.Field.Power
/-!
# IEEE-754 denotations into ℚ, and the bridge to the scaled-natural spec

`Spec/HalfSpec.lean` (core Lean, used by the structural proofs) denotes magnitudes as scaled
naturals: `hval m = value · 2^24`, `fval u = value · 2^149`.  This file states the textbook
definitions

  binary16:  (-1)^s · 2^(e-15)  · (1 + f/2^10)   (e ≠ 0),   (-1)^s · 2^(-14)  · f/2^10   (e = 0)
  binary32:  (-1)^s · 2^(e-127) · (1 + f/2^23)   (e ≠ 0),   (-1)^s · 2^(-126) · f/2^23   (e = 0)

over ℚ, proves that the scaled naturals are exactly these values times the scale
(`hval_eq_halfMagQ`, `fval_eq_floatMagQ`), and re-states round-to-nearest-even over ℚ with
`|·|` (`IsRNE16Q`), equivalent to `IsRNE16` (`isRNE16_iff_Q`).  A typo in `hval`/`fval`
would make these bridge theorems fail.
-/
namespace ImathVerif.Half

/-- value of binary16 magnitude bits `m` (exponent field `m / 1024`, fraction `m % 1024`).
For `m = 0x7c00` this is 2^16 (the "unbounded exponent" reading used for overflow). -/
def halfMagQ (m : Nat) : ℚ :=
  if m / 1024 = 0 then ((m % 1024 : Nat) : ℚ) / 1024 * (2 : ℚ) ^ (-14 : ℤ)
  else (1 + ((m % 1024 : Nat) : ℚ) / 1024) * (2 : ℚ) ^ (((m / 1024 : Nat) : ℤ) - 15)

/-- value of binary32 magnitude bits `u` (exponent field `u / 2^23`, fraction `u % 2^23`) -/
def floatMagQ (u : Nat) : ℚ :=
  if u / 8388608 = 0 then ((u % 8388608 : Nat) : ℚ) / 8388608 * (2 : ℚ) ^ (-126 : ℤ)
  else (1 + ((u % 8388608 : Nat) : ℚ) / 8388608) * (2 : ℚ) ^ (((u / 8388608 : Nat) : ℤ) - 127)

/-- signed value of a 16-bit pattern (finite patterns; infinities read as ±2^16) -/
def halfQ (h : Nat) : ℚ := (-1) ^ (h / 32768) * halfMagQ (h % 32768)
/-- signed value of a finite 32-bit pattern -/
def floatQ (v : Nat) : ℚ := (-1) ^ (v / 2147483648) * floatMagQ (v % 2147483648)

/-- `hval m` is the binary16 value times 2^24 -/
theorem hval_eq_halfMagQ (m : Nat) : (hval m : ℚ) = halfMagQ m * 2 ^ 24 := by
  unfold hval halfMagQ
  by_cases h : m / 1024 = 0
  · simp only [h, if_true]
    norm_num [zpow_neg]
    ring
  · simp only [h, if_false]
    obtain ⟨k, hk⟩ : ∃ k, m / 1024 = k + 1 := ⟨m / 1024 - 1, by omega⟩
    rw [hk]
    have e : (((k + 1 : Nat) : ℤ) - 15) = (k : ℤ) - 14 := by push_cast; ring
    rw [e, zpow_sub₀ (by norm_num : (2 : ℚ) ≠ 0), zpow_natCast]
    rw [show ((14 : ℤ)) = ((14 : ℕ) : ℤ) by norm_num, zpow_natCast]
    simp only [Nat.add_sub_cancel]
    push_cast
    field_simp
    ring

/-- `fval u` is the binary32 value times 2^149 -/
theorem fval_eq_floatMagQ (u : Nat) : (fval u : ℚ) = floatMagQ u * 2 ^ 149 := by
  unfold fval floatMagQ
  by_cases h : u / 8388608 = 0
  · simp only [h, if_true]
    norm_num [zpow_neg]
    ring
  · simp only [h, if_false]
    obtain ⟨k, hk⟩ : ∃ k, u / 8388608 = k + 1 := ⟨u / 8388608 - 1, by omega⟩
    rw [hk]
    have e : (((k + 1 : Nat) : ℤ) - 127) = (k : ℤ) - 126 := by push_cast; ring
    rw [e, zpow_sub₀ (by norm_num : (2 : ℚ) ≠ 0), zpow_natCast]
    rw [show ((126 : ℤ)) = ((126 : ℕ) : ℤ) by norm_num, zpow_natCast]
    simp only [Nat.add_sub_cancel]
    push_cast
    field_simp
    ring

/-- half magnitude on the float scale -/
theorem hval149_eq_halfMagQ (m : Nat) : (hval149 m : ℚ) = halfMagQ m * 2 ^ 149 := by
  unfold hval149
  push_cast
  rw [hval_eq_halfMagQ]
  ring

/-- the natural-number distance is the absolute difference -/
theorem dist_cast (a b : Nat) : (dist a b : ℚ) = |(a : ℚ) - (b : ℚ)| := by
  unfold dist
  rcases Nat.le_total a b with h | h
  · have : a - b = 0 := by omega
    rw [this, Nat.zero_add, Nat.cast_sub h, abs_sub_comm, abs_of_nonneg]
    exact sub_nonneg.mpr (by exact_mod_cast h)
  · have : b - a = 0 := by omega
    rw [this, Nat.add_zero, Nat.cast_sub h, abs_of_nonneg]
    exact sub_nonneg.mpr (by exact_mod_cast h)

/-- round-to-nearest-even over ℚ: `r` is a binary16 magnitude pattern whose value is at
least as close to `x` as that of every other pattern (2^16 for 0x7c00), and whenever another
pattern is equally close, `r` is the even one. -/
def IsRNE16Q (x : ℚ) (r : Nat) : Prop :=
  r ≤ 0x7c00 ∧ ∀ m, m ≤ 0x7c00 →
    |x - halfMagQ r| ≤ |x - halfMagQ m| ∧
    (|x - halfMagQ r| = |x - halfMagQ m| → m ≠ r → r % 2 = 0)

theorem dist_scaled (u r : Nat) :
    (dist (fval u) (hval149 r) : ℚ) = |floatMagQ u - halfMagQ r| * 2 ^ 149 := by
  rw [dist_cast, fval_eq_floatMagQ, hval149_eq_halfMagQ, ← sub_mul, abs_mul,
    abs_of_pos (by positivity : (0 : ℚ) < 2 ^ 149)]

/-- the scaled-natural RNE spec is the ℚ-valued one -/
theorem isRNE16_iff_Q (u r : Nat) : IsRNE16 (fval u) r ↔ IsRNE16Q (floatMagQ u) r := by
  have hp : (0 : ℚ) < 2 ^ 149 := by positivity
  have key : ∀ m, (dist (fval u) (hval149 r) ≤ dist (fval u) (hval149 m) ↔
        |floatMagQ u - halfMagQ r| ≤ |floatMagQ u - halfMagQ m|) ∧
      (dist (fval u) (hval149 r) = dist (fval u) (hval149 m) ↔
        |floatMagQ u - halfMagQ r| = |floatMagQ u - halfMagQ m|) := by
    intro m
    constructor
    · rw [← Nat.cast_le (α := ℚ), dist_scaled, dist_scaled]
      exact mul_le_mul_iff_of_pos_right hp
    · rw [← Nat.cast_inj (R := ℚ), dist_scaled, dist_scaled]
      exact mul_left_inj' (ne_of_gt hp)
  unfold IsRNE16 IsRNE16Q
  constructor
  · rintro ⟨h1, h2⟩
    refine ⟨h1, fun m hm => ?_⟩
    obtain ⟨a, b⟩ := h2 m hm
    exact ⟨(key m).1.1 a, fun e => b ((key m).2.2 e)⟩
  · rintro ⟨h1, h2⟩
    refine ⟨h1, fun m hm => ?_⟩
    obtain ⟨a, b⟩ := h2 m hm
    exact ⟨(key m).1.2 a, fun e => b ((key m).2.1 e)⟩

/-! anchors: the ℚ denotations at well-known patterns -/
example : halfMagQ 0x3c00 = 1 := by unfold halfMagQ; norm_num
example : halfMagQ 0x0001 = 1 / 2 ^ 24 := by unfold halfMagQ; norm_num
example : halfMagQ 0x0400 = 1 / 2 ^ 14 := by unfold halfMagQ; norm_num
example : halfMagQ 0x7bff = 65504 := by unfold halfMagQ; norm_num
example : halfMagQ 0x7c00 = 65536 := by unfold halfMagQ; norm_num
example : floatMagQ 0x3f800000 = 1 := by unfold floatMagQ; norm_num
example : floatMagQ 0x477ff000 = 65520 := by unfold floatMagQ; norm_num
example : floatMagQ 0x33000000 = 1 / 2 ^ 25 := by unfold floatMagQ; norm_num
example : floatMagQ 0x00000001 = 1 / 2 ^ 149 := by unfold floatMagQ; norm_num
example : halfQ 0xc000 = -2 := by unfold halfQ halfMagQ; norm_num
example : floatQ 0xc0000000 = -2 := by unfold floatQ floatMagQ; norm_num

end ImathVerif.Half
