import ImathVerif.Basic.Types
import Mathlib.LinearAlgebra.Matrix.Notation
import Mathlib.LinearAlgebra.Matrix.Determinant.Basic
/-
Interpretation of the Imath aggregates as Mathlib vectors and matrices.
Imath matrices are row-major and act on ROW vectors from the right (`v * M`).
-/
namespace ImathVerif
open Matrix

def V2.toVec {α : Type} (v : V2 α) : Fin 2 → α := ![v.x, v.y]
def V3.toVec {α : Type} (v : V3 α) : Fin 3 → α := ![v.x, v.y, v.z]
def V4.toVec {α : Type} (v : V4 α) : Fin 4 → α := ![v.x, v.y, v.z, v.w]

def M22.toMat {α : Type} (m : M22 α) : Matrix (Fin 2) (Fin 2) α :=
  !![m.x00, m.x01; m.x10, m.x11]
def M33.toMat {α : Type} (m : M33 α) : Matrix (Fin 3) (Fin 3) α :=
  !![m.x00, m.x01, m.x02; m.x10, m.x11, m.x12; m.x20, m.x21, m.x22]
def M44.toMat {α : Type} (m : M44 α) : Matrix (Fin 4) (Fin 4) α :=
  !![m.x00, m.x01, m.x02, m.x03; m.x10, m.x11, m.x12, m.x13;
     m.x20, m.x21, m.x22, m.x23; m.x30, m.x31, m.x32, m.x33]

/-- homogeneous extension of a 3-D point (append 1) and of a direction (append 0) -/
def V3.homog {α : Type} [One α] (v : V3 α) : Fin 4 → α := ![v.x, v.y, v.z, 1]
def V3.homogDir {α : Type} [Zero α] (v : V3 α) : Fin 4 → α := ![v.x, v.y, v.z, 0]
def V2.homog {α : Type} [One α] (v : V2 α) : Fin 3 → α := ![v.x, v.y, 1]
def V2.homogDir {α : Type} [Zero α] (v : V2 α) : Fin 3 → α := ![v.x, v.y, 0]

theorem M22.toMat_injective {α : Type} : Function.Injective (M22.toMat (α := α)) := by
  intro a b h
  cases a; cases b
  have := fun i j => congrFun (congrFun h i) j
  have h00 := this 0 0; have h01 := this 0 1; have h10 := this 1 0; have h11 := this 1 1
  simp [M22.toMat] at h00 h01 h10 h11
  simp [*]

/-- 4×4 determinant written out by expansion along the first row -/
theorem det_fin_four {R : Type} [CommRing R] (A : Matrix (Fin 4) (Fin 4) R) :
    A.det =
      A 0 0 * (A 1 1 * (A 2 2 * A 3 3 - A 2 3 * A 3 2) - A 1 2 * (A 2 1 * A 3 3 - A 2 3 * A 3 1)
                + A 1 3 * (A 2 1 * A 3 2 - A 2 2 * A 3 1))
      - A 0 1 * (A 1 0 * (A 2 2 * A 3 3 - A 2 3 * A 3 2) - A 1 2 * (A 2 0 * A 3 3 - A 2 3 * A 3 0)
                + A 1 3 * (A 2 0 * A 3 2 - A 2 2 * A 3 0))
      + A 0 2 * (A 1 0 * (A 2 1 * A 3 3 - A 2 3 * A 3 1) - A 1 1 * (A 2 0 * A 3 3 - A 2 3 * A 3 0)
                + A 1 3 * (A 2 0 * A 3 1 - A 2 1 * A 3 0))
      - A 0 3 * (A 1 0 * (A 2 1 * A 3 2 - A 2 2 * A 3 1) - A 1 1 * (A 2 0 * A 3 2 - A 2 2 * A 3 0)
                + A 1 2 * (A 2 0 * A 3 1 - A 2 1 * A 3 0)) := by
  rw [Matrix.det_succ_row_zero]
  simp only [Fin.sum_univ_four, Matrix.det_fin_three, Matrix.submatrix_apply, Fin.succAbove]
  simp [Fin.succ, Fin.castSucc, Fin.lt_def]
  ring

end ImathVerif
