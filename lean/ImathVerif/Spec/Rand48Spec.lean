import ImathVerif.Model.Rand48
/-!
Specification for C18.

* `lcg`: the POSIX rand48 recurrence `X' = (0x5DEECE66D * X + 0xB) mod 2^48`
  (IEEE Std 1003.1, drand48(): a = 0x5DEECE66D, c = 0xB, m = 2^48).
* POSIX outputs: nrand48/lrand48 return the high-order 31 bits of X' (`X' >>> 17`);
  erand48/drand48 return X' scaled to [0,1), i.e. `X' / 2^48`; srand48 sets the
  high-order 32 bits of X to the low-order 32 bits of the seed and the low-order
  16 bits to 0x330E.
* `dblVal1074` / `fltVal149`: the real number denoted by a finite non-negative
  binary64 / binary32 pattern, scaled by 2^1074 / 2^149 (an exact `Nat`).
* the one-line-per-call specification of call sequences (`sstep`, `srun`) on
  abstract 48-bit values.

Core Lean only.
-/
namespace ImathVerif.Rand48.Spec
open ImathVerif.Rand48

/-- the POSIX linear congruential step on a 48-bit value -/
def lcg (X : Nat) : Nat := (0x5DEECE66D * X + 0xB) % 281474976710656

/-- `n` LCG steps -/
def lcgIter : Nat → Nat → Nat
  | 0, X => X
  | n + 1, X => lcgIter n (lcg X)

/-- what nrand48/lrand48 return when the NEW value is `X'` -/
def nrandOut (X' : Nat) : Nat := X' >>> 17

/-- numerator over 2^52 of what Imath's erand48/drand48 return when the new value is `X'`:
the 48 bits of `X'` followed by a copy of its 4 most significant bits -/
def erandNum (X' : Nat) : Nat := 16 * X' + X' >>> 44

/-- srand48: `seed` is the 64-bit pattern of the `long` argument -/
def srandX (seed : Nat) : Nat := (seed % 4294967296) * 65536 + 0x330E

/-- Rand48::init: 48-bit value of the object's state after `init (seed)` -/
def r48InitX (seed : Nat) : Nat :=
  let t := (seed * 0xa5a573a5) % 18446744073709551616 ^^^ 0x5a5a5a5a
  t % 65536 + 65536 * ((t / 65536) % 65536) + 4294967296 * (t % 65536)

/-- value * 2^1074 of a finite, non-negative binary64 bit pattern -/
def dblVal1074 (b : Nat) : Nat :=
  let e := (b / 4503599627370496) % 2048
  let m := b % 4503599627370496
  if e = 0 then m else (4503599627370496 + m) * 2 ^ (e - 1)

/-- value * 2^149 of a finite, non-negative binary32 bit pattern -/
def fltVal149 (b : Nat) : Nat :=
  let e := (b / 8388608) % 256
  let m := b % 8388608
  if e = 0 then m else (8388608 + m) * 2 ^ (e - 1)

/-- finite non-negative binary64 pattern -/
def dblFinite (b : Nat) : Prop := b < 0x7ff0000000000000
/-- finite non-negative binary32 pattern -/
def fltFinite (b : Nat) : Prop := b < 0x7f800000

/-- abstract world: the 48-bit values of the caller's state and of the static state -/
structure SWorld where
  user : Nat
  stat : Nat
deriving DecidableEq, Repr

/-- abstraction function -/
def absW (w : World) : SWorld := { user := pack w.user, stat := pack w.stat }

/-- specification of one call: exactly one LCG step on the state the call works
on (none for the seeding calls), and the returned value as a function of the NEW value -/
def sstep (w : SWorld) : Op → Out × SWorld
  | .nrand48 => let X := lcg w.user; (.int (nrandOut X), { w with user := X })
  | .erand48 => let X := lcg w.user; (.dbl (dblOfFrac52 (erandNum X)), { w with user := X })
  | .lrand48 => let X := lcg w.stat; (.int (nrandOut X), { w with stat := X })
  | .drand48 => let X := lcg w.stat; (.dbl (dblOfFrac52 (erandNum X)), { w with stat := X })
  | .srand48 seed => (.none, { w with stat := srandX seed })
  | .r48init seed => (.none, { w with user := r48InitX seed })
  | .r48nextb => let X := lcg w.user; (.bool (nrandOut X % 2 = 1), { w with user := X })
  | .r48nexti => let X := lcg w.user; (.int (nrandOut X), { w with user := X })
  | .r48nextf => let X := lcg w.user; (.dbl (dblOfFrac52 (erandNum X)), { w with user := X })

def srunStep (acc : SWorld × List Out) (op : Op) : SWorld × List Out :=
  ((sstep acc.1 op).2, acc.2 ++ [(sstep acc.1 op).1])

def srun (ops : List Op) (w : SWorld) : SWorld × List Out := ops.foldl srunStep (w, [])

/-- does the call advance the caller's state / the static state? -/
def Op.onUser : Op → Bool
  | .nrand48 | .erand48 | .r48nextb | .r48nexti | .r48nextf => true
  | _ => false
def Op.onStat : Op → Bool
  | .lrand48 | .drand48 => true
  | _ => false
def Op.seeds : Op → Bool
  | .srand48 _ | .r48init _ => true
  | _ => false

/-- the call reads or writes the file-static `staticState` (lrand48, drand48, srand48); every other
entry point works on the caller's array / the `Rand48` object only -/
def Op.touchesStat : Op → Bool
  | .lrand48 | .drand48 | .srand48 _ => true
  | _ => false

/-- `Rand48` member call -/
def Op.isMember : Op → Bool
  | .r48init _ | .r48nextb | .r48nexti | .r48nextf => true
  | _ => false

/-- the values returned by the calls of one stream of a call sequence, in call order (`keep` selects the
stream, e.g. `fun op => !Op.touchesStat op` = the calls on the caller's array / `Rand48` object) -/
def outsOf (keep : Op → Bool) (ops : List Op) (w : World) : List Out :=
  (((run ops w).2.zip ops).filter (fun p => keep p.2)).map (·.1)

/-- TWO live caller-side objects (`unsigned short[3]` arrays / `Rand48` objects) `a`, `b` and the static state -/
structure World2 where
  a : St
  b : St
  stat : St
deriving DecidableEq, Repr

/-- a call tagged with the object it is made on (`false` = a, `true` = b; the tag is irrelevant for calls on the
static state): the one-object `step` applied to the selected object -/
def step2 (w : World2) (c : Bool × Op) : Out × World2 :=
  let r := step ⟨if c.1 then w.b else w.a, w.stat⟩ c.2
  (r.1, if c.1 then { w with b := r.2.user, stat := r.2.stat } else { w with a := r.2.user, stat := r.2.stat })

def run2 : List (Bool × Op) → World2 → World2 × List Out
  | [], w => (w, [])
  | c :: cs, w => ((run2 cs (step2 w c).2).1, (step2 w c).1 :: (run2 cs (step2 w c).2).2)

/-- the values returned by the calls made ON OBJECT `a` (not on `b`, not on the static state), in call order -/
def outsOfA (cs : List (Bool × Op)) (w : World2) : List Out :=
  (((run2 cs w).2.zip cs).filter (fun p => !p.2.1 && !Op.touchesStat p.2.2)).map (·.1)

/-- the 32-bit LCG of Rand32 -/
def lcg32 (x : Nat) : Nat := (1664525 * x + 1013904223) % 4294967296

end ImathVerif.Rand48.Spec
