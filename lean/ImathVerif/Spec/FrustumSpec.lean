import ImathVerif.Basic.Types
import Mathlib.Algebra.Order.Field.Basic
/-!
# Specification vocabulary for C16 (Frustum / FrustumTest)

Imath's camera looks down **−z**: a point in front of the camera has `p.z < 0` and its
depth is `−p.z`.  A frustum is given by six scalars `n f l r t b`
(near, far, left, right, top, bottom; the window `[l,r] × [b,t]` lies in the plane `z = −n`).
-/
namespace ImathVerif.FrustumSpec
open ImathVerif
variable {α : Type}

/-- value of the plane equation at `p`: `normal · p − distance` (`Plane3::distanceTo`) -/
def planeEval [Add α] [Mul α] [Sub α] (pl : Plane3 α) (p : V3 α) : α :=
  pl.normal.x * p.x + pl.normal.y * p.y + pl.normal.z * p.z - pl.distance

/-- squared Euclidean norm -/
def normSq [Add α] [Mul α] (v : V3 α) : α := v.x * v.x + v.y * v.y + v.z * v.z

/-- what `Vec3::length` has to satisfy: non-negative, squares to the sum of squares -/
def LenSpec [Add α] [Mul α] [LE α] [OfNat α 0] (len : V3 α → α) : Prop :=
  ∀ v : V3 α, 0 ≤ len v ∧ len v * len v = normSq v

/-- `lo` or `hi` -/
def sel (c : Bool) (lo hi : α) : α := if c then hi else lo

section Region
variable [Field α] [LinearOrder α]

/-- the closed perspective frustum: depth between near and far, and the central projection onto the
near plane lies in the window (written without division) -/
def regionPersp (n f l r t b : α) (p : V3 α) : Prop :=
  n ≤ -p.z ∧ -p.z ≤ f ∧ l * (-p.z) ≤ n * p.x ∧ n * p.x ≤ r * (-p.z) ∧ b * (-p.z) ≤ n * p.y ∧ n * p.y ≤ t * (-p.z)

/-- its interior -/
def interiorPersp (n f l r t b : α) (p : V3 α) : Prop :=
  n < -p.z ∧ -p.z < f ∧ l * (-p.z) < n * p.x ∧ n * p.x < r * (-p.z) ∧ b * (-p.z) < n * p.y ∧ n * p.y < t * (-p.z)

/-- the closed orthographic frustum (a box) -/
def regionOrtho (n f l r t b : α) (p : V3 α) : Prop :=
  n ≤ -p.z ∧ -p.z ≤ f ∧ l ≤ p.x ∧ p.x ≤ r ∧ b ≤ p.y ∧ p.y ≤ t

def interiorOrtho (n f l r t b : α) (p : V3 α) : Prop :=
  n < -p.z ∧ -p.z < f ∧ l < p.x ∧ p.x < r ∧ b < p.y ∧ p.y < t

/-- intersection of the non-positive half-spaces of six planes -/
def inAllPlanes (ps : Plane3 α × Plane3 α × Plane3 α × Plane3 α × Plane3 α × Plane3 α) (p : V3 α) : Prop :=
  planeEval ps.1 p ≤ 0 ∧ planeEval ps.2.1 p ≤ 0 ∧ planeEval ps.2.2.1 p ≤ 0 ∧ planeEval ps.2.2.2.1 p ≤ 0 ∧ planeEval ps.2.2.2.2.1 p ≤ 0 ∧
    planeEval ps.2.2.2.2.2 p ≤ 0

/-- strictly inside all six planes -/
def strictlyInAllPlanes (ps : Plane3 α × Plane3 α × Plane3 α × Plane3 α × Plane3 α × Plane3 α) (p : V3 α) : Prop :=
  planeEval ps.1 p < 0 ∧ planeEval ps.2.1 p < 0 ∧ planeEval ps.2.2.1 p < 0 ∧ planeEval ps.2.2.2.1 p < 0 ∧ planeEval ps.2.2.2.2.1 p < 0 ∧
    planeEval ps.2.2.2.2.2 p < 0

/-- closed ball -/
def sphereMem (s : Sphere3 α) (q : V3 α) : Prop :=
  (q.x - s.center.x) * (q.x - s.center.x) + (q.y - s.center.y) * (q.y - s.center.y) + (q.z - s.center.z) * (q.z - s.center.z)
    ≤ s.radius * s.radius

/-- closed axis-aligned box -/
def boxMem (bx : Box3 α) (q : V3 α) : Prop :=
  bx.min.x ≤ q.x ∧ q.x ≤ bx.max.x ∧ bx.min.y ≤ q.y ∧ q.y ≤ bx.max.y ∧ bx.min.z ≤ q.z ∧ q.z ≤ bx.max.z

end Region
end ImathVerif.FrustumSpec
