import ImathVerif.Basic.Types
/-
Specification of stream output (C04, last clause): rendering of an extracted
text (`List Seg`) for arbitrary printed forms of the elements, tokenisation on
whitespace / parentheses, and the generic theorem that a well-separated text
tokenises to exactly the elements' printed forms, in order.  Core Lean only.
-/
namespace ImathVerif.Show

def isSep (c : Char) : Bool := c == ' ' || c == '\n' || c == '\t' || c == '\r' || c == '(' || c == ')'

/-- tokenise: maximal runs of non-separator characters (`cur` = token being read) -/
def go : List Char → List Char → List (List Char)
  | [], cur => if cur = [] then [] else [cur]
  | c :: cs, cur =>
      if isSep c then (if cur = [] then go cs [] else cur :: go cs [])
      else go cs (cur ++ [c])

def tokens (cs : List Char) : List (List Char) := go cs []

/-- the text as printed: element `i` appears as `t i w flags prec`, right-adjusted in a
field of width `w` (padding with spaces, as `std::setw` does) -/
def render (t : Nat → Nat → Nat → Nat → List Char) : List Seg → List Char
  | [] => []
  | Seg.lit s :: r => s ++ render t r
  | Seg.tok i w f p :: r =>
      List.replicate (w - (t i w f p).length) ' ' ++ t i w f p ++ render t r

/-- the elements' printed forms in order of appearance -/
def elems (t : Nat → Nat → Nat → Nat → List Char) : List Seg → List (List Char)
  | [] => []
  | Seg.lit _ :: r => elems t r
  | Seg.tok i w f p :: r => t i w f p :: elems t r

/-- which input slots are printed, in order -/
def slots : List Seg → List Nat
  | [] => []
  | Seg.lit _ :: r => slots r
  | Seg.tok i _ _ _ :: r => i :: slots r

/-- well separated: every literal piece is non-empty and consists of separators only, and
no two element tokens are adjacent (`afterTok` = the previous piece was an element) -/
def SepOK : Bool → List Seg → Bool
  | _, [] => true
  | _, Seg.lit s :: r => s.all isSep && !s.isEmpty && SepOK false r
  | true, Seg.tok _ _ _ _ :: _ => false
  | false, Seg.tok _ _ _ _ :: r => SepOK true r

/-- a printed form is a proper token: non-empty, without whitespace or parentheses -/
def Hyg (tk : List Char) : Prop := tk ≠ [] ∧ ∀ c ∈ tk, isSep c = false

theorem go_seps (s rest cur : List Char) (hs : s.all isSep = true) (hne : s ≠ []) :
    go (s ++ rest) cur = (if cur = [] then [] else [cur]) ++ go rest [] := by
  induction s generalizing cur with
  | nil => exact absurd rfl hne
  | cons c cs ih =>
    simp only [List.all_cons, Bool.and_eq_true] at hs
    by_cases hcs : cs = []
    · subst hcs
      simp only [List.cons_append, List.nil_append, go, hs.1, if_true]
      by_cases hc : cur = [] <;> simp [hc]
    · have := ih [] hs.2 hcs
      simp only [List.cons_append, go, hs.1, if_true]
      by_cases hc : cur = []
      · simp [hc, this]
      · simp [hc, this]

theorem go_spaces (n : Nat) (rest : List Char) : go (List.replicate n ' ' ++ rest) [] = go rest [] := by
  induction n with
  | zero => simp
  | succ k ih => simp [List.replicate_succ, go, isSep, ih]

theorem go_tok (tk rest cur : List Char) (h : ∀ c ∈ tk, isSep c = false) :
    go (tk ++ rest) cur = go rest (cur ++ tk) := by
  induction tk generalizing cur with
  | nil => simp
  | cons c cs ih =>
    have hc : isSep c = false := h c (by simp)
    have := ih (cur ++ [c]) (fun d hd => h d (by simp [hd]))
    simp only [List.cons_append, go, hc, Bool.false_eq_true, if_false]
    rw [this]; simp

/-- main theorem: a well-separated text tokenises to the printed forms of its elements, in order -/
theorem go_render (t : Nat → Nat → Nat → Nat → List Char) (ht : ∀ i w f p, Hyg (t i w f p)) :
    ∀ (segs : List Seg) (afterTok : Bool) (cur : List Char),
      (afterTok = true ↔ cur ≠ []) → SepOK afterTok segs = true →
      go (render t segs) cur = (if cur = [] then [] else [cur]) ++ elems t segs := by
  intro segs
  induction segs with
  | nil => intro a cur _ _; simp [render, elems, go]
  | cons sg r ih =>
    intro a cur hcur hok
    cases sg with
    | lit s =>
      simp only [SepOK, Bool.and_eq_true, Bool.not_eq_true', List.isEmpty_eq_false_iff] at hok
      have := ih false [] (by simp) hok.2
      simp only [render, elems]
      rw [go_seps s _ cur hok.1.1 hok.1.2, this]; simp
    | tok i w f p =>
      cases a with
      | true => simp [SepOK] at hok
      | false =>
        have hc : cur = [] := by
          cases cur with
          | nil => rfl
          | cons c cs => exact absurd (hcur.mpr (by simp)) (by simp)
        subst hc
        simp only [SepOK] at hok
        have hh := ht i w f p
        have := ih true (t i w f p) (by simp [hh.1]) hok
        simp only [render, elems, List.append_assoc]
        rw [go_spaces, go_tok _ _ _ hh.2]
        simp only [List.nil_append, this, hh.1, if_false]
        simp

theorem tokens_render (t : Nat → Nat → Nat → Nat → List Char) (ht : ∀ i w f p, Hyg (t i w f p))
    (segs : List Seg) (hok : SepOK false segs = true) :
    tokens (render t segs) = elems t segs := by
  have := go_render t ht segs false [] (by simp) hok
  simpa [tokens] using this

end ImathVerif.Show

namespace ImathVerif.Show

/-- a text with formatting details (width, flags, precision) erased -/
inductive Piece where
  | lit (s : List Char)
  | el (i : Nat)
deriving DecidableEq, Repr

def piece : Seg → Piece
  | Seg.lit s => Piece.lit s
  | Seg.tok i _ _ _ => Piece.el i

/-- elements `start … start+n-1` separated by single spaces -/
def rowPieces : Nat → Nat → List Piece
  | _, 0 => []
  | start, 1 => [Piece.el start]
  | start, k + 2 => Piece.el start :: Piece.lit [' '] :: rowPieces (start + 1) (k + 1)

/-- canonical one-line layout `(e0 e1 … e(n-1))` of vectors, colours, shears, quaternions -/
def vecPieces (n : Nat) : List Piece := Piece.lit ['('] :: rowPieces 0 n ++ [Piece.lit [')']]

/-- rows `r … n-1` of an n×n matrix, one row per line, continuation lines indented by one space -/
def matRows (n : Nat) : Nat → Nat → List Piece
  | _, 0 => []
  | r, 1 => rowPieces (r * n) n ++ [Piece.lit [')', '\n']]
  | r, k + 2 => rowPieces (r * n) n ++ [Piece.lit ['\n', ' ']] ++ matRows n (r + 1) (k + 1)

/-- canonical layout of an n×n matrix (row-major) -/
def matPieces (n : Nat) : List Piece := Piece.lit ['('] :: matRows n 0 n

/-- the three facts established per type and stream state: canonical layout, well-separatedness
(so `tokens_render` applies) and slots in declaration order -/
def ShowOK (segs : List Seg) (layout : List Piece) (n : Nat) : Prop :=
  segs.map piece = layout ∧ SepOK false segs = true ∧ slots segs = List.range n

instance (segs : List Seg) (layout : List Piece) (n : Nat) : Decidable (ShowOK segs layout n) := by
  unfold ShowOK; infer_instance

/-- consequence used by the property: exactly one token per element, equal to its printed form -/
theorem showOK_tokens {segs : List Seg} {layout : List Piece} {n : Nat} (h : ShowOK segs layout n)
    (t : Nat → Nat → Nat → Nat → List Char) (ht : ∀ i w f p, Hyg (t i w f p)) :
    tokens (render t segs) = elems t segs ∧ (elems t segs).length = n := by
  refine ⟨tokens_render t ht segs h.2.1, ?_⟩
  have hl : ∀ s : List Seg, (elems t s).length = (slots s).length := by
    intro s; induction s with
    | nil => rfl
    | cons sg r ih => cases sg <;> simp [elems, slots, ih]
  rw [hl, h.2.2]; simp

end ImathVerif.Show
