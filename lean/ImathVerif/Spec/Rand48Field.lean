import ImathVerif.Basic.Types
import Mathlib.Algebra.Order.Field.Basic
import Mathlib.Data.Fin.VecNotation
import Mathlib.Algebra.BigOperators.Field
import Mathlib.Algebra.Order.BigOperators.Ring.Finset
/-!
Exact-arithmetic (ordered field) reading of the floating-point expressions in
src/Imath/ImathRandom.h that C18 talks about:

* `nextfRange a b t` : `rangeMin * (1 - f) + rangeMax * f`  (Rand32::nextf(a,b), Rand48::nextf(a,b), lines 183-187, 227-232)
* `solidSphereRand`, `hollowSphereRand`, `gaussRandLoop` : the three `do { .. } while (..)`
  loops (lines 234-292) with a fuel parameter; the generator is abstracted as a
  function `draw` from a generator state to (candidate, next state) — one pass
  of the `for (i < dimensions) v[i] = rand.nextf (-1, 1)` body.

`loopGen` is the same loop written over a ONE-ITERATION STEP `candidate → accept result | retry`; the steps
`Gen.C18.solidSphereN_iter / hollowSphereN_iter` are regenerated from ImathRandom.h on every run (harness/sym/ops_c18.h:
the real templates instantiated with a scripted generator), and Props/C18Samplers.lean proves that the hand loops
below are `loopGen` of those generated steps.

These are statements about the real-number semantics.  The floating-point
evaluation of the same expressions (one rounding per operation) is NOT modelled;
tools/props/c18.py measures it on the real code (residue).
-/
namespace ImathVerif.Rand48.Field

variable {K : Type*} [Field K] [LinearOrder K] [IsStrictOrderedRing K] {σ : Type*} {n : Nat}

/-- `rangeMin * (1 - f) + rangeMax * f` -/
def nextfRange (a b t : K) : K := a * (1 - t) + b * t

/-- `Vec::length2 ()` -/
def length2 (v : Fin n → K) : K := ∑ i, v i * v i

/-- solidSphereRand: `do { v = draw } while (v.length2 () > 1); return v;` -/
def solidSphereRand (draw : σ → (Fin n → K) × σ) : Nat → σ → Option ((Fin n → K) × σ)
  | 0, _ => none
  | fuel + 1, s =>
    let r := draw s
    if length2 r.1 > 1 then solidSphereRand draw fuel r.2 else some r

/-- hollowSphereRand: `do { v = draw; length = v.length (); } while (length > 1 || length == 0); return v / length;`
`len` stands for `Vec::length ()`. -/
def hollowSphereRand (len : (Fin n → K) → K) (draw : σ → (Fin n → K) × σ) :
    Nat → σ → Option ((Fin n → K) × σ)
  | 0, _ => none
  | fuel + 1, s =>
    let r := draw s
    let length := len r.1
    if length > 1 ∨ length = 0 then hollowSphereRand len draw fuel r.2
    else some (fun i => r.1 i / length, r.2)

/-- gaussRand's loop: `do { x = ..; y = ..; length2 = x*x + y*y; } while (length2 >= 1 || length2 == 0);`
returns the accepted `(x, y)` -/
def gaussRandLoop (draw : σ → (K × K) × σ) : Nat → σ → Option ((K × K) × σ)
  | 0, _ => none
  | fuel + 1, s =>
    let r := draw s
    let l2 := r.1.1 * r.1.1 + r.1.2 * r.1.2
    if l2 ≥ 1 ∨ l2 = 0 then gaussRandLoop draw fuel r.2 else some r

/-- `do { candidate = draw (); r = step candidate; } while (retry)` over a one-iteration step that answers
`.ok result` (loop condition false: return) or `.error Exc.outOfRange` (loop condition true: the scripted
generator of harness/sym/ops_c18.h was asked for a further candidate); any other error ends the run. -/
def loopGen {β γ : Type} (step : β → Except Exc γ) (draw : σ → β × σ) : Nat → σ → Option (γ × σ)
  | 0, _ => none
  | fuel + 1, s =>
    match step (draw s).1 with
    | .ok r => some (r, (draw s).2)
    | .error Exc.outOfRange => loopGen step draw fuel (draw s).2
    | .error _ => none

/-- `Vec2/3/4` as coordinate functions (the hand models are dimension-generic over `Fin n → K`) -/
def fn2 {K : Type} (v : V2 K) : Fin 2 → K := ![v.x, v.y]
def fn3 {K : Type} (v : V3 K) : Fin 3 → K := ![v.x, v.y, v.z]
def fn4 {K : Type} (v : V4 K) : Fin 4 → K := ![v.x, v.y, v.z, v.w]
def of2 {K : Type} (u : Fin 2 → K) : V2 K := ⟨u 0, u 1⟩
def of3 {K : Type} (u : Fin 3 → K) : V3 K := ⟨u 0, u 1, u 2⟩
def of4 {K : Type} (u : Fin 4 → K) : V4 K := ⟨u 0, u 1, u 2, u 3⟩

end ImathVerif.Rand48.Field
