import ImathVerif.Model.Half
/-
Specification of IEEE-754 binary16 / binary32 denotations as scaled naturals,
and of round-to-nearest-even.  Core Lean only.

`hval m`  : value of the half magnitude bits `m` (0 ≤ m ≤ 0x7c00), times 2^24;
            the pattern 0x7c00 stands for 2^16 (IEEE's "unbounded exponent"
            convention, which is what places the overflow threshold at 65520).
`fval u`  : value of finite float magnitude bits `u < 0x7f800000`, times 2^149.
-/
namespace ImathVerif.Half

def hval (m : Nat) : Nat :=
  if m / 1024 = 0 then m % 1024 else (1024 + m % 1024) * 2 ^ (m / 1024 - 1)

def fval (u : Nat) : Nat :=
  if u / 8388608 = 0 then u % 8388608 else (8388608 + u % 8388608) * 2 ^ (u / 8388608 - 1)

/-- half magnitude value on the float scale 2^149 -/
def hval149 (m : Nat) : Nat := hval m * 2 ^ 125

def dist (a b : Nat) : Nat := (a - b) + (b - a)

/-- `r` is the round-to-nearest-even binary16 magnitude of the real `X / 2^149`:
nearest among all finite magnitudes and 2^16, ties to the even significand. -/
def IsRNE16 (X r : Nat) : Prop :=
  r ≤ 0x7c00 ∧ ∀ m, m ≤ 0x7c00 →
    dist X (hval149 r) ≤ dist X (hval149 m) ∧
    (dist X (hval149 r) = dist X (hval149 m) → m ≠ r → r % 2 = 0)

end ImathVerif.Half
