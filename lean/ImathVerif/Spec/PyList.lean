/-!
# Specification: Python sequence semantics on `List α` (C19)

Written from the Python language reference (§ "Sequence Types", notes on
`s[i]`, `s[i:j]`, `s[i:j:k]`) — not from CPython's C code, which is what the
MODEL mirrors (`Model/FixedArray.lean: sliceUnpack/sliceAdjust`).  Both are
additionally validated against CPython itself at small scope by the check.

Masks have no list counterpart in Python; their specification is the obvious
one: the elements at the positions where the mask is non-zero.
-/
namespace ImathVerif.PyList

variable {α : Type}

/-- `l[i]` for an int `i`; `none` is `IndexError` -/
def getitem (l : List α) (i : Int) : Option α :=
  if 0 ≤ i then l[i.toNat]?
  else if -(l.length : Int) ≤ i then l[(i + l.length).toNat]?
  else none

/-- bound of a slice with positive step: omitted -> `dflt`; negative -> `+ n`, at least 0; clamped to `n` -/
def boundUp (n : Nat) (x : Option Int) (dflt : Nat) : Nat :=
  match x with
  | none => dflt
  | some x => if x < 0 then (x + n).toNat else min x.toNat n

/-- bound of a slice with negative step: omitted -> `dflt`; negative -> `+ n`, at least -1; clamped to `n - 1` -/
def boundDown (n : Nat) (x : Option Int) (dflt : Int) : Int :=
  match x with
  | none => dflt
  | some x => if x < 0 then max (x + n) (-1) else min x ((n : Int) - 1)

/-- `i, i+k, i+2k, ...` while `< j` (recursion on the slice range; `fuel` bounds the number of items) -/
def walkUp (k j : Nat) : Nat → Nat → List Nat
  | 0, _ => []
  | fuel+1, i => if i < j then i :: walkUp k j fuel (i + k) else []

/-- `i, i-k, i-2k, ...` while `> j` (`j` may be -1) -/
def walkDown (k : Nat) (j : Int) : Nat → Int → List Nat
  | 0, _ => []
  | fuel+1, i => if j < i then i.toNat :: walkDown k j fuel (i - k) else []

/-- the indices `s[start:stop:step]` selects on a sequence of length `n`; `none` is `ValueError` (step 0) -/
def sliceIndices (n : Nat) (start stop step : Option Int) : Option (List Nat) :=
  let k := step.getD 1
  if k = 0 then none
  else if 0 < k then some (walkUp k.toNat (boundUp n stop n) n (boundUp n start 0))
  else some (walkDown (-k).toNat (boundDown n stop (-1)) n (boundDown n start ((n : Int) - 1)))

/-- the elements at the given positions -/
def pick (l : List α) (idx : List Nat) : List α := idx.filterMap (fun i => l[i]?)

/-- `l[start:stop:step]` -/
def getslice (l : List α) (start stop step : Option Int) : Option (List α) :=
  (sliceIndices l.length start stop step).map (pick l)

/-- `for i in idx: l[i] = x` -/
def setEach (l : List α) (idx : List Nat) (x : α) : List α := idx.foldl (fun l i => l.set i x) l

/-- `for i, x in zip(idx, data): l[i] = x` -/
def setZip (l : List α) (idx : List Nat) (data : List α) : List α :=
  (idx.zip data).foldl (fun l p => l.set p.1 p.2) l

/-- `l[start:stop:step] = [x]*k` (what PyImath's `a[slice] = scalar` means) -/
def setsliceScalar (l : List α) (start stop step : Option Int) (x : α) : Option (List α) :=
  (sliceIndices l.length start stop step).map (fun idx => setEach l idx x)

/-- `l[start:stop:step] = data`; extended slices require equal lengths (PyImath requires it always) -/
def setsliceVector (l : List α) (start stop step : Option Int) (data : List α) : Option (List α) :=
  match sliceIndices l.length start stop step with
  | none => none
  | some idx => if idx.length = data.length then some (setZip l idx data) else none

/-- positions where the mask is non-zero -/
def maskPositions (mask : List Int) : List Nat :=
  (List.range mask.length).filter (fun i => mask[i]! != 0)

/-- `[x for x, m in zip(l, mask) if m]` -/
def select (l : List α) (mask : List Int) : List α := pick l (maskPositions mask)

/-- `l[i] = x` wherever `mask[i]` -/
def setMaskScalar (l : List α) (mask : List Int) (x : α) : List α := setEach l (maskPositions mask) x

/-- `l[i] = d[i]` wherever `mask[i]` -/
def setMaskSame (l : List α) (mask : List Int) (d : List α) : List α :=
  setZip l (maskPositions mask) (pick d (maskPositions mask))

/-- the selected positions receive `d[0], d[1], ...` in order -/
def setMaskPacked (l : List α) (mask : List Int) (d : List α) : List α := setZip l (maskPositions mask) d

/-- `[a if c else b for c, a, b in zip(choice, l, other)]` -/
def ifelse (choice : List Int) (l other : List α) : List α :=
  (List.zip choice (List.zip l other)).map (fun p => if p.1 != 0 then p.2.1 else p.2.2)

end ImathVerif.PyList
