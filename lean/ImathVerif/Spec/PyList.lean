/-!
# Specification: Python sequence semantics on `List α` (C19)

Written from the Python language reference (§ "Sequence Types", notes on
`s[i]`, `s[i:j]`, `s[i:j:k]`) — not from CPython's C code, which is what the
MODEL mirrors (`Model/FixedArray.lean: sliceUnpack/sliceAdjust`).  Both are
additionally validated against CPython itself at small scope by the check.

Masks have no list counterpart in Python; their specification is the obvious
one: the elements at the positions where the mask is non-zero.
-/
namespace ImathVerif.PyList

variable {α : Type}

/-- `l[i]` for an int `i`; `none` is `IndexError` -/
def getitem (l : List α) (i : Int) : Option α :=
  if 0 ≤ i then l[i.toNat]?
  else if -(l.length : Int) ≤ i then l[(i + l.length).toNat]?
  else none

/-- bound of a slice with positive step: omitted -> `dflt`; negative -> `+ n`, at least 0; clamped to `n` -/
def boundUp (n : Nat) (x : Option Int) (dflt : Nat) : Nat :=
  match x with
  | none => dflt
  | some x => if x < 0 then (x + n).toNat else min x.toNat n

/-- bound of a slice with negative step: omitted -> `dflt`; negative -> `+ n`, at least -1; clamped to `n - 1` -/
def boundDown (n : Nat) (x : Option Int) (dflt : Int) : Int :=
  match x with
  | none => dflt
  | some x => if x < 0 then max (x + n) (-1) else min x ((n : Int) - 1)

/-- `i, i+k, i+2k, ...` while `< j` (recursion on the slice range; `fuel` bounds the number of items) -/
def walkUp (k j : Nat) : Nat → Nat → List Nat
  | 0, _ => []
  | fuel+1, i => if i < j then i :: walkUp k j fuel (i + k) else []

/-- `i, i-k, i-2k, ...` while `> j` (`j` may be -1) -/
def walkDown (k : Nat) (j : Int) : Nat → Int → List Nat
  | 0, _ => []
  | fuel+1, i => if j < i then i.toNat :: walkDown k j fuel (i - k) else []

/-- the indices `s[start:stop:step]` selects on a sequence of length `n`; `none` is `ValueError` (step 0) -/
def sliceIndices (n : Nat) (start stop step : Option Int) : Option (List Nat) :=
  let k := step.getD 1
  if k = 0 then none
  else if 0 < k then some (walkUp k.toNat (boundUp n stop n) n (boundUp n start 0))
  else some (walkDown (-k).toNat (boundDown n stop (-1)) n (boundDown n start ((n : Int) - 1)))

/-- the elements at the given positions -/
def pick (l : List α) (idx : List Nat) : List α := idx.filterMap (fun i => l[i]?)

/-- `l[start:stop:step]` -/
def getslice (l : List α) (start stop step : Option Int) : Option (List α) :=
  (sliceIndices l.length start stop step).map (pick l)

/-- `for i in idx: l[i] = x` -/
def setEach (l : List α) (idx : List Nat) (x : α) : List α := idx.foldl (fun l i => l.set i x) l

/-- `for i, x in zip(idx, data): l[i] = x` -/
def setZip (l : List α) (idx : List Nat) (data : List α) : List α :=
  (idx.zip data).foldl (fun l p => l.set p.1 p.2) l

/-- `l[start:stop:step] = [x]*k` (what PyImath's `a[slice] = scalar` means) -/
def setsliceScalar (l : List α) (start stop step : Option Int) (x : α) : Option (List α) :=
  (sliceIndices l.length start stop step).map (fun idx => setEach l idx x)

/-- `l[start:stop:step] = data`; extended slices require equal lengths (PyImath requires it always) -/
def setsliceVector (l : List α) (start stop step : Option Int) (data : List α) : Option (List α) :=
  match sliceIndices l.length start stop step with
  | none => none
  | some idx => if idx.length = data.length then some (setZip l idx data) else none

/-- positions where the mask is non-zero -/
def maskPositions (mask : List Int) : List Nat :=
  (List.range mask.length).filter (fun i => mask[i]! != 0)

/-- `[x for x, m in zip(l, mask) if m]` -/
def select (l : List α) (mask : List Int) : List α := pick l (maskPositions mask)

/-- `l[i] = x` wherever `mask[i]` -/
def setMaskScalar (l : List α) (mask : List Int) (x : α) : List α := setEach l (maskPositions mask) x

/-- `l[i] = d[i]` wherever `mask[i]` -/
def setMaskSame (l : List α) (mask : List Int) (d : List α) : List α :=
  setZip l (maskPositions mask) (pick d (maskPositions mask))

/-- the selected positions receive `d[0], d[1], ...` in order -/
def setMaskPacked (l : List α) (mask : List Int) (d : List α) : List α := setZip l (maskPositions mask) d

/-- `[a if c else b for c, a, b in zip(choice, l, other)]` -/
def ifelse (choice : List Int) (l other : List α) : List α :=
  (List.zip choice (List.zip l other)).map (fun p => if p.1 != 0 then p.2.1 else p.2.2)


/-! ## nested lists (FixedArray2D as `nested[j][i]`, FixedMatrix / FixedVArray as `nested[i][j]`) -/

/-- `L[o][i] = x` -/
def set2 (L : List (List α)) (o i : Nat) (x : α) : List (List α) := L.set o ((L.getD o []).set i x)

/-- `for b, o in enumerate(outer): for a, i in enumerate(inner): L[o][i] = val b a` (outer loop first) -/
def assign2D (L : List (List α)) (outer inner : List Nat) (val : Nat → Nat → α) : List (List α) :=
  (List.range outer.length).foldl (fun L b =>
    (List.range inner.length).foldl (fun L a => set2 L (outer.getD b 0) (inner.getD a 0) (val b a)) L) L

/-- the same assignments with the INNER index list in the outer loop (the order `setitem_vector` of FixedArray2D uses):
    `for a, i in enumerate(inner): for b, o in enumerate(outer): L[o][i] = val b a` -/
def assign2DInnerFirst (L : List (List α)) (outer inner : List Nat) (val : Nat → Nat → α) : List (List α) :=
  (List.range inner.length).foldl (fun L a =>
    (List.range outer.length).foldl (fun L b => set2 L (outer.getD b 0) (inner.getD a 0) (val b a)) L) L

/-- `for o in range(no): for i in range(ni): if M[o][i]: L[o][i] = val o i` -/
def assignMask2D (L : List (List α)) (M : List (List Int)) (no ni : Nat) (val : Nat → Nat → α) : List (List α) :=
  (List.range no).foldl (fun L o =>
    (List.range ni).foldl (fun L i => if ((M.getD o []).getD i 0) != 0 then set2 L o i (val o i) else L) L) L


/-! ## in-place modification of selected items (FixedVArray sizes) -/

/-- `L[p] = f(L[p])` (nothing when `p` is out of range) -/
def modifyAt (L : List α) (p : Nat) (f : α → α) : List α :=
  match L[p]? with
  | some r => L.set p (f r)
  | none => L

/-- `for p in pos: L[p] = f(L[p])` -/
def modifyEach (L : List α) (pos : List Nat) (f : α → α) : List α := pos.foldl (fun L p => modifyAt L p f) L

/-- `for p, k in zip(pos, ks): L[p] = f(k, L[p])` -/
def modifyZip {β : Type} (L : List α) (pos : List Nat) (ks : List β) (f : β → α → α) : List α :=
  (pos.zip ks).foldl (fun L q => modifyAt L q.1 (f q.2)) L

/-- `del row[k:]; row.extend([0] * (k - len(row)))` — what `va.size[i] = k` does to a row -/
def resize (row : List Int) (k : Nat) : List Int := (row ++ List.replicate (k - row.length) 0).take k

end ImathVerif.PyList
