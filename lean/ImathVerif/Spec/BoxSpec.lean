import ImathVerif.Basic.Types
import Mathlib.Order.Defs.LinearOrder
/-!
# Specification of Box / Interval as closed axis-aligned point sets (C13)

A box `b` denotes the set `{p | ∀ axis, b.min ≤ p ≤ b.max}` (`Mem`).  Everything
else is derived from that set: emptiness, inclusion, "least box containing".
The definitions only need `≤` / `<`, so the theorems hold over any linear order
(covering the integer element types as well as float/double seen as a subset of ℚ).
-/
namespace ImathVerif
variable {α : Type}

section order
variable [LE α] [LT α]

/-- closed interval membership -/
def Interval.Mem (p : α) (b : Interval α) : Prop := b.min ≤ p ∧ p ≤ b.max

def Box2.Mem (p : V2 α) (b : Box2 α) : Prop :=
  (b.min.x ≤ p.x ∧ p.x ≤ b.max.x) ∧ (b.min.y ≤ p.y ∧ p.y ≤ b.max.y)

def Box3.Mem (p : V3 α) (b : Box3 α) : Prop :=
  (b.min.x ≤ p.x ∧ p.x ≤ b.max.x) ∧ (b.min.y ≤ p.y ∧ p.y ≤ b.max.y) ∧ (b.min.z ≤ p.z ∧ p.z ≤ b.max.z)

def Box4.Mem (p : V4 α) (b : Box4 α) : Prop :=
  (b.min.x ≤ p.x ∧ p.x ≤ b.max.x) ∧ (b.min.y ≤ p.y ∧ p.y ≤ b.max.y) ∧
  (b.min.z ≤ p.z ∧ p.z ≤ b.max.z) ∧ (b.min.w ≤ p.w ∧ p.w ≤ b.max.w)

/-- set inclusion of the denoted point sets -/
def Interval.Subset (a c : Interval α) : Prop := ∀ p, Interval.Mem p a → Interval.Mem p c
def Box2.Subset (a c : Box2 α) : Prop := ∀ p, Box2.Mem p a → Box2.Mem p c
def Box3.Subset (a c : Box3 α) : Prop := ∀ p, Box3.Mem p a → Box3.Mem p c
def Box4.Subset (a c : Box4 α) : Prop := ∀ p, Box4.Mem p a → Box4.Mem p c

/-- the denoted set is empty -/
def Interval.IsEmptySet (b : Interval α) : Prop := ∀ p, ¬ Interval.Mem p b
def Box2.IsEmptySet (b : Box2 α) : Prop := ∀ p, ¬ Box2.Mem p b
def Box3.IsEmptySet (b : Box3 α) : Prop := ∀ p, ¬ Box3.Mem p b
def Box4.IsEmptySet (b : Box4 α) : Prop := ∀ p, ¬ Box4.Mem p b

/-- some axis is inverted (`max < min`): what `isEmpty()` tests -/
def Interval.Inverted (b : Interval α) : Prop := b.max < b.min
def Box2.Inverted (b : Box2 α) : Prop := b.max.x < b.min.x ∨ b.max.y < b.min.y
def Box3.Inverted (b : Box3 α) : Prop := b.max.x < b.min.x ∨ b.max.y < b.min.y ∨ b.max.z < b.min.z
def Box4.Inverted (b : Box4 α) : Prop :=
  b.max.x < b.min.x ∨ b.max.y < b.min.y ∨ b.max.z < b.min.z ∨ b.max.w < b.min.w

/-- surface of a 3-D box: a point of the box lying on one of the six face planes -/
def Box3.OnSurface (q : V3 α) (b : Box3 α) : Prop :=
  Box3.Mem q b ∧ (q.x = b.min.x ∨ q.x = b.max.x ∨ q.y = b.min.y ∨ q.y = b.max.y ∨ q.z = b.min.z ∨ q.z = b.max.z)

end order

/-- The canonical empty box of `makeEmpty()` / the default constructor: `min = tmax`, `max = tlowest`. -/
def Interval.canonEmpty (tmax tlowest : α) : Interval α := ⟨tmax, tlowest⟩
def Box2.canonEmpty (tmax tlowest : α) : Box2 α := ⟨⟨tmax, tmax⟩, ⟨tlowest, tlowest⟩⟩
def Box3.canonEmpty (tmax tlowest : α) : Box3 α := ⟨⟨tmax, tmax, tmax⟩, ⟨tlowest, tlowest, tlowest⟩⟩
def Box4.canonEmpty (tmax tlowest : α) : Box4 α := ⟨⟨tmax, tmax, tmax, tmax⟩, ⟨tlowest, tlowest, tlowest, tlowest⟩⟩

/-- The infinite box of `makeInfinite()`: `min = tlowest`, `max = tmax`. -/
def Interval.canonInfinite (tmax tlowest : α) : Interval α := ⟨tlowest, tmax⟩
def Box2.canonInfinite (tmax tlowest : α) : Box2 α := ⟨⟨tlowest, tlowest⟩, ⟨tmax, tmax⟩⟩
def Box3.canonInfinite (tmax tlowest : α) : Box3 α := ⟨⟨tlowest, tlowest, tlowest⟩, ⟨tmax, tmax, tmax⟩⟩
def Box4.canonInfinite (tmax tlowest : α) : Box4 α := ⟨⟨tlowest, tlowest, tlowest, tlowest⟩, ⟨tmax, tmax, tmax, tmax⟩⟩

/-- Boxes that can arise from the API by construction from the empty box: non-inverted on every
axis, or the canonical empty box.  (A user may also store an arbitrary inverted `min/max` pair in the
public members; such a box denotes the empty set but `extendBy` does not treat it as one.) -/
def Interval.Canon [LT α] (tmax tlowest : α) (b : Interval α) : Prop :=
  ¬ Interval.Inverted b ∨ b = Interval.canonEmpty tmax tlowest
def Box2.Canon [LT α] (tmax tlowest : α) (b : Box2 α) : Prop :=
  ¬ Box2.Inverted b ∨ b = Box2.canonEmpty tmax tlowest
def Box3.Canon [LT α] (tmax tlowest : α) (b : Box3 α) : Prop :=
  ¬ Box3.Inverted b ∨ b = Box3.canonEmpty tmax tlowest
def Box4.Canon [LT α] (tmax tlowest : α) (b : Box4 α) : Prop :=
  ¬ Box4.Inverted b ∨ b = Box4.canonEmpty tmax tlowest

/-- an argument of an `extendBy` call: a point or a box -/
inductive Interval.Arg (α : Type) where
  | pt (p : α)
  | bx (o : Interval α)
inductive Box2.Arg (α : Type) where
  | pt (p : V2 α)
  | bx (o : Box2 α)
inductive Box3.Arg (α : Type) where
  | pt (p : V3 α)
  | bx (o : Box3 α)
inductive Box4.Arg (α : Type) where
  | pt (p : V4 α)
  | bx (o : Box4 α)

/-- the argument's point set is included in `c` -/
def Interval.Arg.Within [LE α] (c : Interval α) : Interval.Arg α → Prop
  | .pt p => Interval.Mem p c
  | .bx o => Interval.Subset o c
def Box2.Arg.Within [LE α] (c : Box2 α) : Box2.Arg α → Prop
  | .pt p => Box2.Mem p c
  | .bx o => Box2.Subset o c
def Box3.Arg.Within [LE α] (c : Box3 α) : Box3.Arg α → Prop
  | .pt p => Box3.Mem p c
  | .bx o => Box3.Subset o c
def Box4.Arg.Within [LE α] (c : Box4 α) : Box4.Arg α → Prop
  | .pt p => Box4.Mem p c
  | .bx o => Box4.Subset o c

/-- box arguments must themselves be API-reachable boxes -/
def Interval.Arg.Ok [LT α] (tmax tlowest : α) : Interval.Arg α → Prop
  | .pt _ => True
  | .bx o => Interval.Canon tmax tlowest o
def Box2.Arg.Ok [LT α] (tmax tlowest : α) : Box2.Arg α → Prop
  | .pt _ => True
  | .bx o => Box2.Canon tmax tlowest o
def Box3.Arg.Ok [LT α] (tmax tlowest : α) : Box3.Arg α → Prop
  | .pt _ => True
  | .bx o => Box3.Canon tmax tlowest o
def Box4.Arg.Ok [LT α] (tmax tlowest : α) : Box4.Arg α → Prop
  | .pt _ => True
  | .bx o => Box4.Canon tmax tlowest o

/-! ### range-relative variants (audit C13 W1)

Over an ordered FIELD no element `tmax` bounds every value, so `∀ x, tlowest ≤ x ∧ x ≤ tmax` is unsatisfiable there; what the
`extendBy` chain really needs is only that the coordinates actually added lie within the type bounds. -/

/-- every coordinate of `p` lies within the type bounds -/
def V3.InRange [LE α] (tmax tlowest : α) (p : V3 α) : Prop :=
  (tlowest ≤ p.x ∧ p.x ≤ tmax) ∧ (tlowest ≤ p.y ∧ p.y ≤ tmax) ∧ (tlowest ≤ p.z ∧ p.z ≤ tmax)

/-- API-reachable box whose stored coordinates lie within the type bounds: non-inverted with `min`, `max` in range,
or the canonical empty box -/
def Box3.CanonR [LE α] [LT α] (tmax tlowest : α) (b : Box3 α) : Prop :=
  (¬ Box3.Inverted b ∧ V3.InRange tmax tlowest b.min ∧ V3.InRange tmax tlowest b.max) ∨ b = Box3.canonEmpty tmax tlowest

/-- arguments of `extendBy` whose coordinates lie within the type bounds -/
def Box3.Arg.OkR [LE α] [LT α] (tmax tlowest : α) : Box3.Arg α → Prop
  | .pt p => V3.InRange tmax tlowest p
  | .bx o => Box3.CanonR tmax tlowest o

end ImathVerif
