import ImathVerif.Spec.MatSpec
/-
Vocabulary for C06 (matrix inversion): the affine test of `Matrix33/44::inverse`
(last column `(0,…,0,1)`) and the linear block whose cofactors the affine arms guard.
-/
namespace ImathVerif

/-- `!(x[0][2] != 0 || x[1][2] != 0 || x[2][2] != 1)` -/
def M33.IsAffine {α : Type} [OfNat α 0] [OfNat α 1] (a : M33 α) : Prop := a.x02 = 0 ∧ a.x12 = 0 ∧ a.x22 = 1
/-- `!(x[0][3] != 0 || x[1][3] != 0 || x[2][3] != 0 || x[3][3] != 1)` -/
def M44.IsAffine {α : Type} [OfNat α 0] [OfNat α 1] (a : M44 α) : Prop :=
  a.x03 = 0 ∧ a.x13 = 0 ∧ a.x23 = 0 ∧ a.x33 = 1

/-- upper-left 2×2 block of a 3×3 matrix (the linear part of a 2-D affine transform) -/
def M33.linear {α : Type} (a : M33 α) : M22 α := ⟨a.x00, a.x01, a.x10, a.x11⟩
/-- upper-left 3×3 block of a 4×4 matrix (the linear part of a 3-D affine transform) -/
def M44.linear {α : Type} (a : M44 α) : M33 α :=
  ⟨a.x00, a.x01, a.x02, a.x10, a.x11, a.x12, a.x20, a.x21, a.x22⟩

end ImathVerif
