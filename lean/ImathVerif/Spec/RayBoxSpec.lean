import ImathVerif.Model.RayBox
import Mathlib.Algebra.Order.Field.Basic
import Mathlib.Algebra.Order.AbsoluteValue.Basic

/-!
# Specification vocabulary for C14 (ray/line vs. box)

Geometric meaning, independent of the code: closed boxes as point sets, the
point of a line at a parameter, the surface of a box, and the hypotheses under
which the overflow guards of the implementation are inactive.
-/
namespace ImathVerif.RayBox

variable {α : Type} [Field α] [LinearOrder α] [IsStrictOrderedRing α]

/-- `p ∈ b`: the closed box `[min.x,max.x] × [min.y,max.y] × [min.z,max.z]`. -/
def mem (p : V3 α) (b : Box3 α) : Prop :=
  (b.min.x ≤ p.x ∧ p.x ≤ b.max.x) ∧ (b.min.y ≤ p.y ∧ p.y ≤ b.max.y) ∧ (b.min.z ≤ p.z ∧ p.z ≤ b.max.z)

/-- A box is empty iff `max < min` on some axis (`Box::isEmpty`). -/
def Box3.Empty (b : Box3 α) : Prop :=
  b.max.x < b.min.x ∨ b.max.y < b.min.y ∨ b.max.z < b.min.z

/-- `Line3::operator()(t) = pos + dir * t`. -/
def pointAt (r : Line3 α) (t : α) : V3 α :=
  ⟨r.pos.x + t * r.dir.x, r.pos.y + t * r.dir.y, r.pos.z + t * r.dir.z⟩

/-- On the surface: some coordinate equals the corresponding face value. -/
def onSurface (p : V3 α) (b : Box3 α) : Prop :=
  p.x = b.min.x ∨ p.x = b.max.x ∨ p.y = b.min.y ∨ p.y = b.max.y ∨ p.z = b.min.z ∨ p.z = b.max.z

/-- The guard of the implementation as written for one axis (both sign blocks
of `findEntryAndExitPoints`; it implies the one-sided guards of `intersects`):
`|dir| > 1  ||  (|max - pos| < TMAX*|dir| && |min - pos| < TMAX*|dir|)`.
It is false for `dir = 0`. -/
def CodeGuard (T p d lo hi : α) : Prop :=
  1 < |d| ∨ (|hi - p| < T * |d| ∧ |lo - p| < T * |d|)

/-- The guard with its second disjunct only: both quotients `(face - pos)/dir`
have magnitude `< TMAX` (no quotient overflows).  In floating point the first
disjunct `|dir| > 1` implies this whenever the differences `face - pos` are
themselves representable (`≤ TMAX`): `strictGuard_of_codeGuard`. -/
def StrictGuard (T p d lo hi : α) : Prop :=
  |hi - p| < T * |d| ∧ |lo - p| < T * |d|

/-- Hypothesis of the exactness theorems for one axis: the direction component
is zero or the quotients do not overflow (so no `TMAX` substitution happens). -/
def AxisOK (T p d lo hi : α) : Prop := d = 0 ∨ StrictGuard T p d lo hi

/-- All three axes are `AxisOK`. -/
def GuardsOK (T : α) (r : Line3 α) (b : Box3 α) : Prop :=
  AxisOK T r.pos.x r.dir.x b.min.x b.max.x ∧
  AxisOK T r.pos.y r.dir.y b.min.y b.max.y ∧
  AxisOK T r.pos.z r.dir.z b.min.z b.max.z

/-- Weaker: on every axis the direction is zero or the guard *as written* passes. -/
def CodeGuardsOK (T : α) (r : Line3 α) (b : Box3 α) : Prop :=
  (r.dir.x = 0 ∨ CodeGuard T r.pos.x r.dir.x b.min.x b.max.x) ∧
  (r.dir.y = 0 ∨ CodeGuard T r.pos.y r.dir.y b.min.y b.max.y) ∧
  (r.dir.z = 0 ∨ CodeGuard T r.pos.z r.dir.z b.min.z b.max.z)

end ImathVerif.RayBox
