import ImathVerif.Model.RayBox
import Mathlib.Algebra.Order.Field.Basic
import Mathlib.Algebra.Order.AbsoluteValue.Basic

/-!
# Specification vocabulary for C14 (ray/line vs. box)

Geometric meaning, independent of the code: closed boxes as point sets, the
point of a line at a parameter, the surface of a box, and the hypotheses under
which the overflow guards of the implementation are inactive.
-/
namespace ImathVerif.RayBox

variable {α : Type} [Field α] [LinearOrder α] [IsStrictOrderedRing α]

/-- `p ∈ b`: the closed box `[min.x,max.x] × [min.y,max.y] × [min.z,max.z]`. -/
def mem (p : V3 α) (b : Box3 α) : Prop :=
  (b.min.x ≤ p.x ∧ p.x ≤ b.max.x) ∧ (b.min.y ≤ p.y ∧ p.y ≤ b.max.y) ∧ (b.min.z ≤ p.z ∧ p.z ≤ b.max.z)

/-- A box is empty iff `max < min` on some axis (`Box::isEmpty`). -/
def Box3.Empty (b : Box3 α) : Prop :=
  b.max.x < b.min.x ∨ b.max.y < b.min.y ∨ b.max.z < b.min.z

/-- `Line3::operator()(t) = pos + dir * t`. -/
def pointAt (r : Line3 α) (t : α) : V3 α :=
  ⟨r.pos.x + t * r.dir.x, r.pos.y + t * r.dir.y, r.pos.z + t * r.dir.z⟩

/-- On the surface: some coordinate equals the corresponding face value. -/
def onSurface (p : V3 α) (b : Box3 α) : Prop :=
  p.x = b.min.x ∨ p.x = b.max.x ∨ p.y = b.min.y ∨ p.y = b.max.y ∨ p.z = b.min.z ∨ p.z = b.max.z

/-- The guard of the implementation as written for one axis (both sign blocks
of `findEntryAndExitPoints`; it implies the one-sided guards of `intersects`):
`|dir| > 1  ||  (|max - pos| < TMAX*|dir| && |min - pos| < TMAX*|dir|)`.
It is false for `dir = 0`. -/
def CodeGuard (T p d lo hi : α) : Prop :=
  1 < |d| ∨ (|hi - p| < T * |d| ∧ |lo - p| < T * |d|)

/-- The guard with its second disjunct only: both quotients `(face - pos)/dir`
have magnitude `< TMAX` (no quotient overflows).  In floating point the first
disjunct `|dir| > 1` implies this whenever the differences `face - pos` are
themselves representable (`≤ TMAX`): `strictGuard_of_codeGuard`. -/
def StrictGuard (T p d lo hi : α) : Prop :=
  |hi - p| < T * |d| ∧ |lo - p| < T * |d|

/-- Hypothesis of the exactness theorems for one axis: the direction component
is zero or the quotients do not overflow (so no `TMAX` substitution happens). -/
def AxisOK (T p d lo hi : α) : Prop := d = 0 ∨ StrictGuard T p d lo hi

/-- All three axes are `AxisOK`. -/
def GuardsOK (T : α) (r : Line3 α) (b : Box3 α) : Prop :=
  AxisOK T r.pos.x r.dir.x b.min.x b.max.x ∧
  AxisOK T r.pos.y r.dir.y b.min.y b.max.y ∧
  AxisOK T r.pos.z r.dir.z b.min.z b.max.z

/-- Weaker: on every axis the direction is zero or the guard *as written* passes. -/
def CodeGuardsOK (T : α) (r : Line3 α) (b : Box3 α) : Prop :=
  (r.dir.x = 0 ∨ CodeGuard T r.pos.x r.dir.x b.min.x b.max.x) ∧
  (r.dir.y = 0 ∨ CodeGuard T r.pos.y r.dir.y b.min.y b.max.y) ∧
  (r.dir.z = 0 ∨ CodeGuard T r.pos.z r.dir.z b.min.z b.max.z)

/-! ## What the code decides when a guard FAILS (vocabulary of the `_guardpath` theorems)

The right-hand sides of `findEntryAndExitPoints_guardpath` / `intersects_guardpath`
(`Props/C14.lean`) are stated with the predicates below.  `inSlab` and `feEff` are
geometric; `isEff` is by necessity a re-spelling of what one `intersects` block does
with a failing guard (front parameter replaced by `T`, back bound dropped) — the
geometric content of that theorem is carried by `intersects_never_misses`,
`intersects_iff_window` and `intersects_false_hit_only_if`. -/

/-- `t` is a parameter of the line inside the slab `[lo, hi]` of one axis. -/
def inSlab (p d lo hi t : α) : Prop := lo ≤ p + t * d ∧ p + t * d ≤ hi

/-- What one axis block of `findEntryAndExitPoints` contributes to the
parameter set: the exact slab when the guard passes; when it fails the block
treats the direction component as zero. -/
def feEff (T p d lo hi t : α) : Prop :=
  (CodeGuard T p d lo hi → inSlab p d lo hi t) ∧ (¬ CodeGuard T p d lo hi → lo ≤ p ∧ p ≤ hi)

/-- Effective parameter set of the three axis blocks of `findEntryAndExitPoints`. -/
def feEff3 (T : α) (r : Line3 α) (b : Box3 α) (t : α) : Prop :=
  feEff T r.pos.x r.dir.x b.min.x b.max.x t ∧ feEff T r.pos.y r.dir.y b.min.y b.max.y t ∧
  feEff T r.pos.z r.dir.z b.min.z b.max.z t

/-- What one axis block of `intersects` contributes, exactly as coded (including
the `TMAX` substitution for the front parameter and the skipped back update
when a guard fails). -/
def isEff (T p d lo hi t : α) : Prop :=
  (0 < d → p ≤ hi ∧ ((d > 1 ∨ hi - p < T * d) → t ≤ (hi - p) / d) ∧
            (p ≤ lo → (if d > 1 ∨ lo - p < T * d then (lo - p) / d else T) ≤ t)) ∧
  (d < 0 → lo ≤ p ∧ ((d < -1 ∨ lo - p > T * d) → t ≤ (lo - p) / d) ∧
            (hi ≤ p → (if d < -1 ∨ hi - p > T * d then (hi - p) / d else T) ≤ t)) ∧
  (d = 0 → lo ≤ p ∧ p ≤ hi)

/-- Effective parameter set of the three axis blocks of `intersects`. -/
def isEff3 (T : α) (r : Line3 α) (b : Box3 α) (t : α) : Prop :=
  isEff T r.pos.x r.dir.x b.min.x b.max.x t ∧ isEff T r.pos.y r.dir.y b.min.y b.max.y t ∧
  isEff T r.pos.z r.dir.z b.min.z b.max.z t

end ImathVerif.RayBox
