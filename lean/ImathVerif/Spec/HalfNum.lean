import ImathVerif.Model.Half
import ImathVerif.Spec.HalfSpec
/-
Specification vocabulary for C03 (half as a numeric type), core Lean only.

Values are the scaled naturals of Spec/HalfSpec.lean: `hval m` is the value of
the 15 magnitude bits `m` times 2^24, so 2^-24 (smallest subnormal) ↦ 1,
2^-14 (smallest normal) ↦ 1024, 1.0 ↦ 2^24, 65504 ↦ 65504·2^24 and the
infinity pattern 0x7c00 ↦ 2^16·2^24 = 2^40; NaN patterns land above 2^40.

The per-pattern statements are `Prop`s with derived `Decidable` instances; the
Boolean predicates of Props/C03Preds.lean are `decide` of them and are checked
for all 2^16 patterns by kernel enumeration.
-/
namespace ImathVerif.Half

/-- magnitude bits (sign removed) -/
def mag (h : Nat) : Nat := h % 32768

/-- signed value of a half pattern times 2^24 (`-0 ↦ 0`) -/
def sval (h : Nat) : Int :=
  if h / 32768 % 2 = 1 then - ((hval (mag h) : Nat) : Int) else ((hval (mag h) : Nat) : Int)

/-- one unit in the last place of the binade of magnitude `m`, on the `hval` scale -/
def ulp (m : Nat) : Nat := 2 ^ (max 1 (m / 1024) - 1)

/-- binary32 fields -/
def f32exp (u : Nat) : Nat := (u / 8388608) % 256
def f32man (u : Nat) : Nat := u % 8388608

def b2n (b : Bool) : Nat := if b then 1 else 0

/-! ### unary minus -/

def NegSpec (h : Nat) : Prop :=
  neg h < 65536 ∧ mag (neg h) = mag h ∧ neg h / 32768 + h / 32768 = 1 ∧ neg (neg h) = h

instance (h : Nat) : Decidable (NegSpec h) := by unfold NegSpec; infer_instance

/-! ### classification -/

def ClassSpec (h : Nat) : Prop :=
  b2n (isZero h) + b2n (isNormalized h) + b2n (isDenormalized h) + b2n (isInfinity h) + b2n (isNan h) = 1 ∧
  (isFinite h = true ↔ (isZero h = true ∨ isNormalized h = true ∨ isDenormalized h = true)) ∧
  (isNegative h = true ↔ h / 32768 = 1) ∧
  (isZero h = true ↔ hval (mag h) = 0) ∧
  (isNormalized h = true ↔ (1024 ≤ hval (mag h) ∧ hval (mag h) ≤ 65504 * 2 ^ 24)) ∧
  (isDenormalized h = true ↔ (0 < hval (mag h) ∧ hval (mag h) < 1024)) ∧
  (isInfinity h = true ↔ hval (mag h) = 65536 * 2 ^ 24) ∧
  (isNan h = true ↔ 65536 * 2 ^ 24 < hval (mag h))

instance (h : Nat) : Decidable (ClassSpec h) := by unfold ClassSpec; infer_instance

/-- agreement with the binary32 class of `float (h)` -/
def Class32Spec (h : Nat) : Prop :=
  (isZero h = true ↔ (f32exp (h2f h) = 0 ∧ f32man (h2f h) = 0)) ∧
  ¬ (f32exp (h2f h) = 0 ∧ f32man (h2f h) ≠ 0) ∧
  ((isNormalized h = true ∨ isDenormalized h = true) ↔ (1 ≤ f32exp (h2f h) ∧ f32exp (h2f h) ≤ 254)) ∧
  (isInfinity h = true ↔ (f32exp (h2f h) = 255 ∧ f32man (h2f h) = 0)) ∧
  (isNan h = true ↔ (f32exp (h2f h) = 255 ∧ f32man (h2f h) ≠ 0)) ∧
  (isNegative h = true ↔ h2f h / 2147483648 = 1)

instance (h : Nat) : Decidable (Class32Spec h) := by unfold Class32Spec; infer_instance

/-! ### extremes of the format (for numeric_limits) -/

def OrderSpec (h : Nat) : Prop :=
  (isFinite h = true → hval (mag h) ≤ hval 0x7bff) ∧
  (isNormalized h = true → hval 0x0400 ≤ hval (mag h)) ∧
  (isZero h = false → hval 0x0001 ≤ hval (mag h)) ∧
  (hval 0x3c00 < hval (mag h) → hval 0x3c01 ≤ hval (mag h)) ∧
  hval (mag h) ≠ 2049 * 2 ^ 24 ∧
  (isFinite h = true → (sval 0xfbff ≤ sval h ∧ sval h ≤ sval 0x7bff))

instance (h : Nat) : Decidable (OrderSpec h) := by unfold OrderSpec; infer_instance

/-- successor steps: values and binary32 images are strictly increasing in the
magnitude bits; the sign bit of `h2f` is the sign bit of `h` -/
def StepSpec (h : Nat) : Prop :=
  (mag h < 0x7fff → (hval (mag h) < hval (mag h + 1) ∧ h2f (mag h) < h2f (mag h + 1))) ∧
  h2f (mag h) < 2147483648 ∧
  h2f h = h2f (mag h) + 2147483648 * (h / 32768)

instance (h : Nat) : Decidable (StepSpec h) := by unfold StepSpec; infer_instance

/-! ### half::round(n) -/

/-- the n-bit rounding unit in magnitude-bit space: 2^(10-n) -/
def runit (n : Nat) : Nat := 2 ^ (10 - n)

/-- round-half-up candidate: nearest multiple of `runit n` to the magnitude
bits, halves going up (what `e >>= 9-n; e += e & 1; e <<= 9-n` computes) -/
def rcand (n m : Nat) : Nat :=
  (m / runit n + (if 2 * (m % runit n) ≥ runit n then 1 else 0)) * runit n

/-- truncation of the magnitude bits to a multiple of `runit n` -/
def rtrunc (n m : Nat) : Nat := m / runit n * runit n

def RoundSpec (n h : Nat) : Prop :=
  roundN n h < 65536 ∧
  roundN n h / 32768 = h / 32768 ∧
  mag (roundN n h) % runit n = 0 ∧
  mag (roundN n h) = (if rcand n (mag h) ≥ 0x7c00 then rtrunc n (mag h) else rcand n (mag h)) ∧
  (isNan h = false →
    (isFinite h = true → isFinite (roundN n h) = true) ∧
    (isInfinity h = true → roundN n h = h) ∧
    (if rcand n (mag h) ≥ 0x7c00 then
        -- truncating branch: toward zero, by less than one unit of the n-th significand bit
        mag (roundN n h) ≤ mag h ∧ hval (mag h) - hval (mag (roundN n h)) < runit n * ulp (mag h)
      else
        -- rounding branch: within half a unit of the n-th significand bit
        2 * dist (hval (mag (roundN n h))) (hval (mag h)) ≤ runit n * ulp (mag h)) ∧
    -- the truncating branch is taken exactly when rounding UP would reach 0x7c00
    (isFinite h = true → (rcand n (mag h) ≥ 0x7c00 ↔
        (2 * (mag h % runit n) ≥ runit n ∧ rtrunc n (mag h) + runit n ≥ 0x7c00)))) ∧
  -- NaN inputs: the payload is truncated (the result is an infinity when the
  -- surviving top n payload bits are all zero)
  (isNan h = true → roundN n h = h - h % runit n)

instance (n h : Nat) : Decidable (RoundSpec n h) := by unfold RoundSpec; infer_instance

end ImathVerif.Half
