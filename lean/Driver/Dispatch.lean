import ImathVerif.Model.Dispatch
import ImathVerif.Gen.C13Box
/-!
Line-protocol driver for the dispatch model (C20).  One case per stdin line,
whitespace-separated tokens:

  vec  <op> <bits> <H> <h_0> .. <h_{H-1}>  <ret:ACC>  <n> <ARG>*n  <m> <MEAS>*m  <POOL>
  mask <op> <bits> <H> <h_0> .. <h_{H-1}>  <self:ACC> <selfLen> <selfUnmasked|-1> <arg:ACC> <argLen>  <POOL>

  ACC  = d <base> <stride> | m <base> <stride> <k> <idx_0> .. <idx_{k-1}>
  ARG  = a ACC | c <int>
  MEAS = <len> <0|1>                      (measure_argument: length, vectorised?)
  POOL = <installed 0|1> <inWorker 0|1> <k> (<start> <stop> <tid>)*k

  box  <n> <p_0> .. <p_{n-1}>  <e | b <lo> <hi>>  <POOL>
       `boxExtendBy hull none` (Box.extendBy(array), one coordinate): n points, the initial box (e = empty);
       output `e` or `<lo> <hi>`

  boxn <dim 2|3> <bits> <L> <p_0> .. <p_{L*dim-1}>  <e | b <lo_0> .. <lo_{dim-1}> <hi_0> .. <hi_{dim-1}>>  <POOL>
       `boxExtendBy2 Gen.Box<dim>.extendByPoint Gen.Box<dim>.extendByBox (Gen.Box<dim>.default tmax tlowest)`:
       the two-function reduction of PyImathBox.cpp at the definitions GENERATED from ImathBox.h, scalar type
       Int with tmax = 2^(bits-1)-1, tlowest = -2^(bits-1).  L points, row-major (point p has coordinates
       p*dim .. p*dim+dim-1); initial box `e` = `Gen.Box<dim>.default tmax tlowest` (Box()).
       output `<min_0> .. <min_{dim-1}> <max_0> .. <max_{dim-1}>` (numbers always, also for an empty result)

`vec` runs `applyVectorized`, `mask` runs `applyMaskable` (the in-place operators).
op on two's-complement integers of <bits> bits, selected by the NUMBER of operands of the task:
  2 operands: add|sub|mul|rsub (wrapped to <bits> bits), lt|le|gt|ge|eq|ne (result 1/0, no wrap)
  1 operand : neg (wrapped)
  3 operands: clamp on [a, l, h] = `ImathVerif.sclamp a l h` = (a < l) ? l : ((h < a) ? h : a)   (Imath::clamp)
Output: `<ok|raise> <usedPool 0|1> <h_0'> .. <h_{H-1}'>`.
-/
open ImathVerif.Dispatch
open ImathVerif

def wrap (bits : Nat) (x : Int) : Int :=
  let m : Int := (2 : Int) ^ bits
  let r := x % m
  if r ≥ m / 2 then r - m else r

def b2i (b : Bool) : Int := if b then 1 else 0

def opOf (name : String) (bits : Nat) : List Int → Int
  | [a, b] =>
    match name with
    | "add" => wrap bits (a + b)
    | "sub" => wrap bits (a - b)
    | "rsub" => wrap bits (b - a)
    | "mul" => wrap bits (a * b)
    | "lt" => b2i (decide (a < b))
    | "le" => b2i (decide (a ≤ b))
    | "gt" => b2i (decide (a > b))
    | "ge" => b2i (decide (a ≥ b))
    | "eq" => b2i (decide (a = b))
    | "ne" => b2i (decide (a ≠ b))
    | _ => 0
  | [a] => if name == "neg" then wrap bits (-a) else a
  | [a, l, h] => if name == "clamp" then sclamp a l h else 0
  | _ => 0

structure P where
  toks : Array String
  pos : Nat := 0

abbrev PM := StateT P (Except String)

def tok : PM String := do
  let s ← get
  if h : s.pos < s.toks.size then
    set { s with pos := s.pos + 1 }
    return s.toks[s.pos]
  else throw "unexpected end of line"

def nat : PM Nat := do
  let t ← tok
  match t.toNat? with
  | some n => return n
  | none => throw s!"not a natural: {t}"

def int : PM Int := do
  let t ← tok
  match t.toInt? with
  | some n => return n
  | none => throw s!"not an integer: {t}"

def many {α : Type} (n : Nat) (p : PM α) : PM (List α) := do
  let mut out : Array α := #[]
  for _ in [0:n] do
    out := out.push (← p)
  return out.toList

def acc : PM Access := do
  let k ← tok
  let b ← nat
  let s ← nat
  if k == "d" then return .direct b s
  else if k == "m" then
    let n ← nat
    let idx ← many n nat
    return .masked b s idx
  else throw s!"bad accessor kind {k}"

def arg : PM (Arg Int) := do
  let k ← tok
  if k == "a" then return .arr (← acc)
  else if k == "c" then return .const (← int)
  else throw s!"bad arg kind {k}"

def pool : PM (Option Pool) := do
  let inst ← nat
  let inw ← nat
  let k ← nat
  let rs ← many k (do let s ← nat; let e ← nat; let t ← nat; return (⟨s, e, t⟩ : Range))
  if inst == 0 then return none
  -- the scripted pool reports workers() = max tid + 1 (worker ids may repeat in the script)
  let w := rs.foldl (fun m r => max m (r.tid + 1)) 1
  return some { workers := w, script := fun _ => rs, inWorkerThread := inw != 0 }

def heapOf (vals : Array Int) : Heap Int := ⟨fun a => vals.getD a 0⟩

def render (ok : Bool) (used : Bool) (H : Nat) (h : Heap Int) : String :=
  let cells := (List.range H).map fun a => toString (h.get a)
  String.intercalate " " ((if ok then "ok" else "raise") :: (if used then "1" else "0") :: cells)

def runBox : PM String := do
  let n ← nat
  let pts ← many n int
  let arr := pts.toArray
  let k ← tok
  let box : IBox ← if k == "e" then pure none else do
    let lo ← int
    let hi ← int
    pure (some (lo, hi))
  let pl ← pool
  let r := boxExtendBy hull none pl (fun p => let v := arr.getD p 0; some (v, v)) n box
  return match r with
    | none => "e"
    | some (lo, hi) => s!"{lo} {hi}"

/-- `boxn`: the two-function reduction at the generated `Box<dim>::extendBy` overloads -/
def runBoxN : PM String := do
  let dim ← nat
  let bits ← nat
  let L ← nat
  let cs ← many (L * dim) int
  let arr := cs.toArray
  let tmax : Int := (2 : Int) ^ (bits - 1) - 1
  let tlowest : Int := -((2 : Int) ^ (bits - 1))
  let k ← tok
  let ini : Option (Array Int × Array Int) ← if k == "e" then pure none else do
    let lo ← many dim int
    let hi ← many dim int
    pure (some (lo.toArray, hi.toArray))
  let pl ← pool
  if dim == 2 then
    let pts : Nat → V2 Int := fun p => ⟨arr.getD (p * 2) 0, arr.getD (p * 2 + 1) 0⟩
    let box : Box2 Int := match ini with
      | none => Gen.Box2.default tmax tlowest
      | some (lo, hi) => ⟨⟨lo.getD 0 0, lo.getD 1 0⟩, ⟨hi.getD 0 0, hi.getD 1 0⟩⟩
    let r := boxExtendBy2 Gen.Box2.extendByPoint Gen.Box2.extendByBox (Gen.Box2.default tmax tlowest) pl pts L box
    return s!"{r.min.x} {r.min.y} {r.max.x} {r.max.y}"
  else if dim == 3 then
    let pts : Nat → V3 Int := fun p => ⟨arr.getD (p * 3) 0, arr.getD (p * 3 + 1) 0, arr.getD (p * 3 + 2) 0⟩
    let box : Box3 Int := match ini with
      | none => Gen.Box3.default tmax tlowest
      | some (lo, hi) => ⟨⟨lo.getD 0 0, lo.getD 1 0, lo.getD 2 0⟩, ⟨hi.getD 0 0, hi.getD 1 0, hi.getD 2 0⟩⟩
    let r := boxExtendBy2 Gen.Box3.extendByPoint Gen.Box3.extendByBox (Gen.Box3.default tmax tlowest) pl pts L box
    return s!"{r.min.x} {r.min.y} {r.min.z} {r.max.x} {r.max.y} {r.max.z}"
  else throw s!"boxn: dimension {dim} not supported"

def runCase : PM String := do
  let cmd ← tok
  if cmd == "box" then return (← runBox)
  if cmd == "boxn" then return (← runBoxN)
  let opn ← tok
  let bits ← nat
  let H ← nat
  let vals ← many H int
  let h0 := heapOf vals.toArray
  if cmd == "vec" then
    let ret ← acc
    let n ← nat
    let args ← many n arg
    let m ← nat
    let ms ← many m (do let l ← nat; let v ← nat; return ((l, v != 0) : Measure))
    let pl ← pool
    let (h, ok) := applyVectorized pl ms (fun _ => { ret := ret, args := args, op := opOf opn bits }) h0
    let used := match measureArguments ms with
      | some len => ok && usesPool pl len
      | none => false
    return render ok used H h
  else if cmd == "mask" then
    let self ← acc
    let selfLen ← nat
    let su ← int
    let a ← acc
    let argLen ← nat
    let pl ← pool
    let selfUnmasked : Option Nat := if su < 0 then none else some su.toNat
    let (h, ok) := applyMaskable pl self selfLen selfUnmasked a argLen (opOf opn bits) h0
    let used := match matchDimension selfLen selfUnmasked argLen false with
      | some len => ok && usesPool pl len
      | none => false
    return render ok used H h
  else throw s!"unknown command {cmd}"

partial def loop (stdin : IO.FS.Stream) (stdout : IO.FS.Stream) : IO Unit := do
  let line ← stdin.getLine
  if line.isEmpty then return
  let line := line.map fun c => if c == '\n' || c == '\r' || c == '\t' then ' ' else c
  let toks := (line.splitOn " ").filter (fun t => !t.isEmpty)
  if !toks.isEmpty then
    match (runCase.run { toks := toks.toArray }) with
    | .ok (s, _) => stdout.putStrLn s
    | .error e => stdout.putStrLn s!"error {e}"
  loop stdin stdout

def main : IO Unit := do
  let stdin ← IO.getStdin
  let stdout ← IO.getStdout
  loop stdin stdout
