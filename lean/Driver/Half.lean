import ImathVerif.Model.Half
/-!
Line-protocol driver for the half model (C01/C02/C03).

  f2h_blocks <lo> <hi>   one line per block b in [lo,hi): hash of f2h over floats b*2^16 .. b*2^16+65535
  h2f_all                 65,536 lines: h2f h (hex)
  gen_all                 65,536 lines: h2fGen h (hex)
  f2h <hex>..             f2h of each argument
  round_all <n>           65,536 lines: roundN n h
  class_all               65,536 lines: 7 classification bits + neg
-/
open ImathVerif.Half

def hex (n : Nat) : String := String.ofList (Nat.toDigits 16 n)

def blockHash (b : Nat) : UInt64 := Id.run do
  let mut h : UInt64 := 1469598103934665603
  let base := b * 65536
  for i in [0:65536] do
    h := (h ^^^ (f2h (base + i)).toUInt64) * 1099511628211
  return h

def parseHex (s : String) : Nat :=
  s.foldl (fun a c =>
    let d := if c.isDigit then c.toNat - 48 else if 'a' ≤ c ∧ c ≤ 'f' then c.toNat - 87
             else if 'A' ≤ c ∧ c ≤ 'F' then c.toNat - 55 else 0
    a * 16 + d) 0

def classBits (h : Nat) : Nat :=
  (if isFinite h then 1 else 0) + (if isNormalized h then 2 else 0) + (if isDenormalized h then 4 else 0) +
  (if isZero h then 8 else 0) + (if isNan h then 16 else 0) + (if isInfinity h then 32 else 0) +
  (if isNegative h then 64 else 0)

def main (args : List String) : IO Unit := do
  let out ← IO.getStdout
  match args with
  | ["f2h_blocks", lo, hi] =>
    let lo := lo.toNat!; let hi := hi.toNat!
    let nt := 16
    let tasks ← (List.range nt).mapM fun t => IO.asTask (prio := .dedicated) do
      let mut acc : Array UInt64 := #[]
      let mut blk := lo + t
      while blk < hi do
        acc := acc.push (blockHash blk)
        blk := blk + nt
      return acc
    let mut arrs : Array (Array UInt64) := #[]
    for t in tasks do
      match t.get with
      | .ok arr => arrs := arrs.push arr
      | .error e => throw e
    for i in [0:hi - lo] do
      out.putStrLn (hex (arrs[i % nt]!)[i / nt]!.toNat)
  | ["h2f_all"] => for h in [0:65536] do out.putStrLn (hex (h2f h))
  | ["gen_all"] => for h in [0:65536] do out.putStrLn (hex (h2fGen h))
  | ["round_all", n] => for h in [0:65536] do out.putStrLn (hex (roundN n.toNat! h))
  | ["class_all"] => for h in [0:65536] do out.putStrLn s!"{classBits h} {hex (neg h)}"
  | ["f2h_range", lo, hi] => for x in [lo.toNat!:hi.toNat!] do out.putStrLn (hex (f2h x))
  | "f2h" :: xs => for x in xs do out.putStrLn (hex (f2h (parseHex x)))
  | "h2f" :: xs => for x in xs do out.putStrLn (hex (h2f (parseHex x)))
  | _ => IO.eprintln "usage: drv_half f2h_blocks lo hi | h2f_all | gen_all | round_all n | class_all | f2h hex.. | h2f hex.."
