import ImathVerif.Model.Half
import ImathVerif.Model.HalfFunction
/-!
Line-protocol driver for the half model (C01/C02/C03).

  f2h_blocks <lo> <hi> [canon]  one line per block b in [lo,hi): hash of f2h over floats b*2^16 .. b*2^16+65535
                                (canon = 1: NaN results are first mapped to sign|0x7e00)
  f2h_range <lo> <hi> [canon]   f2h of every float pattern in [lo,hi)
  f2hx_blocks <lo> <hi>         the same for the FP-exceptions variant f2hExc: hash over result ||| raised<<<16
  f2hx_list <block>..           those hashes for an explicit list of blocks
  f2hx_range <lo> <hi>          result ||| raised<<<16 of every float pattern in [lo,hi)
  h2f_all                       65,536 lines: h2f h (hex)
  gen_all                       65,536 lines: h2fGen h (hex)
  f2h <hex>.. / h2f <hex>..     single conversions
  round_all <n>                 65,536 lines: roundN n h
  class_all                     65,536 lines: 7 classification bits + neg
  classf_all                    65,536 lines: the same + binary32 class of `h2f h` (0 zero, 1 normal, 2 subnormal,
                                3 infinite, 4 nan) + its sign bit   (C03: against std::fpclassify / std::signbit)
  lut <f> <dmin> <dmax>         65,536 lines: halfFunction table, f in id|neg|round3, domain as half bit patterns (hex),
                                default, +inf, -inf, nan values 0x10000..0x10003
  lutv <f> <dmin> <dmax> <dflt> <pinf> <ninf> <nan>   the same with the four designated values given (hex)
  arith_eval                    stdin lines "h <a> <b>" (half rhs) or "f <a> <floatbits>" -> "<a+=b> <a-=b> <a*=b> <a/=b>"
  arith_list                    stdin line 1: half patterns, line 2: float patterns; per a: "<hash over half rhs> <hash over float rhs>"
  arith_blocks <lo> <hi>        per a in [lo,hi): hash over all 65,536 half right-hand sides x 4 operators

Arithmetic is the property's own right-hand side `half (float (a) op float (b))`:
`f2h ((Float32.ofBits (h2f a) op Float32.ofBits (h2f b)).toBits)`.  Lean's
`Float32.toBits` maps every NaN to 0x7fc00000, so NaN results read 0x7e00 here.
-/
open ImathVerif.Half ImathVerif.HalfFunction

def hex (n : Nat) : String := String.ofList (Nat.toDigits 16 n)

-- `canon16` (NaN results -> sign|0x7e00, the F16C comparison of C02) lives in Model/Half.lean

/-- hash over (result ||| raised <<< 16) of the FP-exceptions variant `f2hExc` -/
def blockHashX (b : Nat) : UInt64 := Id.run do
  let mut h : UInt64 := 1469598103934665603
  let base := b * 65536
  for i in [0:65536] do
    let (r, x) := f2hExc (base + i)
    h := (h ^^^ (r + x * 65536).toUInt64) * 1099511628211
  return h

def blockHash (canon : Bool) (b : Nat) : UInt64 := Id.run do
  let mut h : UInt64 := 1469598103934665603
  let base := b * 65536
  for i in [0:65536] do
    let r := f2h (base + i)
    let r := if canon then canon16 r else r
    h := (h ^^^ r.toUInt64) * 1099511628211
  return h

def parseHex (s : String) : Nat :=
  s.foldl (fun a c =>
    let d := if c.isDigit then c.toNat - 48 else if 'a' ≤ c ∧ c ≤ 'f' then c.toNat - 87
             else if 'A' ≤ c ∧ c ≤ 'F' then c.toNat - 55 else 0
    a * 16 + d) 0

def classBits (h : Nat) : Nat :=
  (if isFinite h then 1 else 0) + (if isNormalized h then 2 else 0) + (if isDenormalized h then 4 else 0) +
  (if isZero h then 8 else 0) + (if isNan h then 16 else 0) + (if isInfinity h then 32 else 0) +
  (if isNegative h then 64 else 0)

/-- run `job blk` for blk in [lo,hi) on 16 dedicated tasks; results in block order -/
def parBlocks (lo hi : Nat) (job : Nat → UInt64) : IO (Array UInt64) := do
  let nt := 16
  let tasks ← (List.range nt).mapM fun t => IO.asTask (prio := .dedicated) do
    let mut acc : Array UInt64 := #[]
    let mut blk := lo + t
    while blk < hi do
      acc := acc.push (job blk)
      blk := blk + nt
    return acc
  let mut arrs : Array (Array UInt64) := #[]
  for t in tasks do
    match t.get with
    | .ok arr => arrs := arrs.push arr
    | .error e => throw e
  let mut res : Array UInt64 := #[]
  for i in [0:hi - lo] do
    res := res.push (arrs[i % nt]!)[i / nt]!
  return res

/-! ### compound arithmetic: half (float (a) op float-rhs) -/

@[inline] def fop (op : Nat) (x y : Float32) : Float32 :=
  match op with
  | 0 => x + y
  | 1 => x - y
  | 2 => x * y
  | _ => x / y

/-- `a op= rhs` where `fa`, `fb` are the binary32 patterns of `float (a)` and of the right-hand side -/
@[inline] def arithF (op : Nat) (fa fb : UInt32) : Nat :=
  f2h (fop op (Float32.ofBits fa) (Float32.ofBits fb)).toBits.toNat

def h2fTable : Array UInt32 := (Array.range 65536).map fun h => (h2f h).toUInt32

def arithRowHash (tbl : Array UInt32) (a : Nat) (rhs : Array UInt32) : UInt64 := Id.run do
  let mut h : UInt64 := 1469598103934665603
  let fa := tbl[a]!
  for fb in rhs do
    for op in [0:4] do
      h := (h ^^^ (arithF op fa fb).toUInt64) * 1099511628211
  return h

def lutParams (fname : String) (dmin dmax : Nat) : Params Nat :=
  { f := match fname with
      | "neg" => neg
      | "round3" => roundN 3
      | _ => id,
    domainMin := dmin, domainMax := dmax,
    defaultValue := 0x10000, posInfValue := 0x10001, negInfValue := 0x10002, nanValue := 0x10003 }

/-- whitespace-separated tokens (spaces, tabs, CR/LF) -/
def words (s : String) : List String :=
  let step := fun (st : List String × List Char) (c : Char) =>
    if c == ' ' || c == '\n' || c == '\r' || c == '\t' then
      (if st.2.isEmpty then st.1 else String.ofList st.2.reverse :: st.1, [])
    else (st.1, c :: st.2)
  let st := s.toList.foldl step ([], [])
  (if st.2.isEmpty then st.1 else String.ofList st.2.reverse :: st.1).reverse

partial def readLines (h : IO.FS.Stream) (acc : Array String) : IO (Array String) := do
  let l ← h.getLine
  if l.isEmpty then return acc else readLines h (acc.push l)

def main (args : List String) : IO Unit := do
  let out ← IO.getStdout
  match args with
  | "f2h_blocks" :: lo :: hi :: rest =>
    let canon := rest == ["1"]
    let res ← parBlocks lo.toNat! hi.toNat! (blockHash canon)
    for r in res do out.putStrLn (hex r.toNat)
  | "f2h_range" :: lo :: hi :: rest =>
    let canon := rest == ["1"]
    for x in [lo.toNat!:hi.toNat!] do
      let r := f2h x
      out.putStrLn (hex (if canon then canon16 r else r))
  | ["f2hx_blocks", lo, hi] =>
    let res ← parBlocks lo.toNat! hi.toNat! blockHashX
    for r in res do out.putStrLn (hex r.toNat)
  | "f2hx_list" :: bs =>
    let arr := (bs.map String.toNat!).toArray
    let res ← parBlocks 0 arr.size fun i => blockHashX arr[i]!
    for r in res do out.putStrLn (hex r.toNat)
  | ["f2hx_range", lo, hi] =>
    for x in [lo.toNat!:hi.toNat!] do
      let (r, e) := f2hExc x
      out.putStrLn (hex (r + e * 65536))
  | ["h2f_all"] => for h in [0:65536] do out.putStrLn (hex (h2f h))
  | ["gen_all"] => for h in [0:65536] do out.putStrLn (hex (h2fGen h))
  | ["round_all", n] => for h in [0:65536] do out.putStrLn (hex (roundN n.toNat! h))
  | ["class_all"] => for h in [0:65536] do out.putStrLn s!"{classBits h} {hex (neg h)}"
  | ["classf_all"] =>
    for h in [0:65536] do
      out.putStrLn s!"{classBits h} {hex (neg h)} {fpClass32 (h2f h)} {h2f h / 2147483648 % 2}"
  | "f2h" :: xs => for x in xs do out.putStrLn (hex (f2h (parseHex x)))
  | "h2f" :: xs => for x in xs do out.putStrLn (hex (h2f (parseHex x)))
  | ["lut", fname, dmin, dmax] =>
    let p := lutParams fname (parseHex dmin) (parseHex dmax)
    let tbl := lutFill p          -- the constructor runs once; `apply p h` is the read `tbl[h]!`
    for h in [0:65536] do out.putStrLn (hex tbl[h]!)
  | ["lutv", fname, dmin, dmax, d, pi, ni, q] =>
    let p := { lutParams fname (parseHex dmin) (parseHex dmax) with
               defaultValue := parseHex d, posInfValue := parseHex pi, negInfValue := parseHex ni, nanValue := parseHex q }
    let tbl := lutFill p
    for h in [0:65536] do out.putStrLn (hex tbl[h]!)
  | ["arith_eval"] =>
    let lines ← readLines (← IO.getStdin) #[]
    let tbl := h2fTable
    for l in lines do
      match words l with
      | [k, a, b] =>
        let fa := tbl[parseHex a]!
        let fb := if k == "h" then tbl[parseHex b]! else (parseHex b).toUInt32
        out.putStrLn (" ".intercalate ((List.range 4).map fun op => hex (arithF op fa fb)))
      | _ => pure ()
  | ["arith_list"] =>
    let lines ← readLines (← IO.getStdin) #[]
    let tbl := h2fTable
    let hs := ((words lines[0]!).map parseHex).toArray
    let fs := ((words lines[1]!).map fun s => (parseHex s).toUInt32).toArray
    let hrhs := hs.map fun b => tbl[b]!
    let r1 ← parBlocks 0 hs.size fun i => arithRowHash tbl hs[i]! hrhs
    let r2 ← parBlocks 0 hs.size fun i => arithRowHash tbl hs[i]! fs
    for i in [0:hs.size] do out.putStrLn s!"{hex r1[i]!.toNat} {hex r2[i]!.toNat}"
  | ["arith_blocks", lo, hi] =>
    let tbl := h2fTable
    let res ← parBlocks lo.toNat! hi.toNat! fun a => arithRowHash tbl a tbl
    for r in res do out.putStrLn (hex r.toNat)
  | _ => IO.eprintln "usage: drv_half f2h_blocks lo hi [canon] | f2h_range lo hi [canon] | h2f_all | gen_all | round_all n | class_all | lut f dmin dmax | arith_eval | arith_list | arith_blocks lo hi | f2h hex.. | h2f hex.."
