import ImathVerif.Model.Rand48
/-!
Line-protocol driver for the rand48 / Rand32 / Rand48 model (C18).  The C++
harness harness/corr/rand48_corr.cpp prints the same lines from the real code.

  sweep <seed> <nblocks>        one line per block of 65,536 states: FNV hash over
                                (nrand48 value, successor, erand48 result bits, successor)
                                of states derived from splitmix64(seed, index)
  dump <seed> <lo> <hi>         the same evaluations one per line, for indices lo..hi-1
  sweepc <seed> <nblocks>       per block of 65,536 seeds: hash over the first outputs of
                                Rand48(seed){nexti,nextb,nextf,nexti} and Rand32(seed){nexti,nextb,nextf,nexti}
  dumpc <seed> <lo> <hi>        the same one per line
  seq                           stdin: one call sequence per line (see `runLine`)
-/
open ImathVerif.Rand48

def hex (n : Nat) : String := String.ofList (Nat.toDigits 16 n)

def parseHex (s : String) : Nat :=
  s.foldl (fun a c =>
    let d := if c.isDigit then c.toNat - 48 else if 'a' ≤ c ∧ c ≤ 'f' then c.toNat - 87
             else if 'A' ≤ c ∧ c ≤ 'F' then c.toNat - 55 else 0
    a * 16 + d) 0

/-- splitmix64 of `seed + (i+1) * golden` (input generator shared with the harness; not part of the model) -/
def mix (seed i : Nat) : UInt64 :=
  let z : UInt64 := UInt64.ofNat seed + (UInt64.ofNat i + 1) * 0x9E3779B97F4A7C15
  let z := (z ^^^ (z >>> 30)) * 0xBF58476D1CE4E5B9
  let z := (z ^^^ (z >>> 27)) * 0x94D049BB133111EB
  z ^^^ (z >>> 31)

def stateOf (x : UInt64) : St :=
  let n := x.toNat
  { s0 := n % 65536, s1 := (n / 65536) % 65536, s2 := (n / 4294967296) % 65536 }

@[inline] def fnv (h : UInt64) (v : Nat) : UInt64 := (h ^^^ UInt64.ofNat v) * 1099511628211

def evalState (s : St) : Nat × St × Nat × St :=
  let (r, a) := nrand48 s
  let (e, b) := erand48 s
  (r, a, e, b)

def sweepBlock (seed b : Nat) : UInt64 := Id.run do
  let mut h : UInt64 := 1469598103934665603
  let base := b * 65536
  for i in [0:65536] do
    let (r, a, e, bb) := evalState (stateOf (mix seed (base + i)))
    h := fnv h r; h := fnv h (pack a); h := fnv h e; h := fnv h (pack bb)
  return h

/-- first outputs of the two classes for one seed -/
def evalSeed (seed : Nat) : List Nat :=
  let w : World := { user := r48Init seed, stat := staticInit }
  let o48 := (run [.r48nexti, .r48nextb, .r48nextf, .r48nexti] w).2
  let o32 := (run32 [.nexti, .nextb, .nextf, .nexti] (r32Init seed)).2
  (o48 ++ o32).map fun
    | .int n => n | .dbl b => b | .flt b => b | .bool b => (if b then 1 else 0) | .none => 0

def sweepcBlock (seed b : Nat) : UInt64 := Id.run do
  let mut h : UInt64 := 1469598103934665603
  let base := b * 65536
  for i in [0:65536] do
    for v in evalSeed (mix seed (base + i)).toNat do
      h := fnv h v
  return h

def parallelBlocks (f : Nat → UInt64) (nb : Nat) : IO (Array UInt64) := do
  let nt := 16
  let tasks ← (List.range nt).mapM fun t => IO.asTask (prio := .dedicated) do
    let mut acc : Array UInt64 := #[]
    let mut blk := t
    while blk < nb do
      acc := acc.push (f blk)
      blk := blk + nt
    return acc
  let mut arrs : Array (Array UInt64) := #[]
  for t in tasks do
    match t.get with
    | .ok arr => arrs := arrs.push arr
    | .error e => throw e
  let mut res : Array UInt64 := #[]
  for i in [0:nb] do
    res := res.push (arrs[i % nt]!)[i / nt]!
  return res

def outStr : Out → String
  | .int n => s!"i {hex n}"
  | .dbl b => s!"d {hex b}"
  | .flt b => s!"f {hex b}"
  | .bool b => s!"b {if b then 1 else 0}"
  | .none => "v"

/-- tokens of a 48-bit line: n e l d S<hex> I<hex> b i f -/
def parseOp (t : String) : Option Op :=
  match t.toList with
  | ['n'] => some .nrand48 | ['e'] => some .erand48 | ['l'] => some .lrand48 | ['d'] => some .drand48
  | ['b'] => some .r48nextb | ['i'] => some .r48nexti | ['f'] => some .r48nextf
  | 'S' :: r => some (.srand48 (parseHex (String.ofList r)))
  | 'I' :: r => some (.r48init (parseHex (String.ofList r)))
  | _ => none

def parseOp32 (t : String) : Option Op32 :=
  match t.toList with
  | ['b'] => some .nextb | ['i'] => some .nexti | ['f'] => some .nextf
  | 'I' :: r => some (.init (parseHex (String.ofList r)))
  | _ => none

/-- one input line.
  `W <s0> <s1> <s2> <ops..>`   caller's array set to the limbs (hex), ops run with the
                               persistent static state; prints one line per call and `= s0 s1 s2` at the end
  `R <seed> <ops..>`           Rand32 object constructed from seed (hex); one line per call
returns the new static state -/
def runLine (out : IO.FS.Stream) (stat : St) (line : String) : IO St := do
  let toks := (line.splitOn " ").filter (· ≠ "")
  match toks with
  | "W" :: a :: b :: c :: ops =>
    let w : World := { user := { s0 := parseHex a, s1 := parseHex b, s2 := parseHex c }, stat := stat }
    let (w', outs) := run (ops.filterMap parseOp) w
    for o in outs do out.putStrLn (outStr o)
    out.putStrLn s!"= {hex w'.user.s0} {hex w'.user.s1} {hex w'.user.s2}"
    return w'.stat
  | "R" :: seed :: ops =>
    let (_, outs) := run32 (ops.filterMap parseOp32) (r32Init (parseHex seed))
    for o in outs do out.putStrLn (outStr o)
    out.putStrLn "="
    return stat
  | _ => return stat

def main (args : List String) : IO Unit := do
  let out ← IO.getStdout
  match args with
  | ["sweep", seed, nb] =>
    let seed := seed.toNat!
    for h in ← parallelBlocks (sweepBlock seed) nb.toNat! do out.putStrLn (hex h.toNat)
  | ["sweepc", seed, nb] =>
    let seed := seed.toNat!
    for h in ← parallelBlocks (sweepcBlock seed) nb.toNat! do out.putStrLn (hex h.toNat)
  | ["dump", seed, lo, hi] =>
    let seed := seed.toNat!
    for i in [lo.toNat!:hi.toNat!] do
      let s := stateOf (mix seed i)
      let (r, a, e, b) := evalState s
      out.putStrLn s!"{i} {hex s.s0} {hex s.s1} {hex s.s2} n {hex r} {hex (pack a)} e {hex e} {hex (pack b)}"
  | ["dumpc", seed, lo, hi] =>
    let seed := seed.toNat!
    for i in [lo.toNat!:hi.toNat!] do
      let sd := (mix seed i).toNat
      out.putStrLn (s!"{i} {hex sd}" ++ String.join ((evalSeed sd).map fun v => " " ++ hex v))
  | ["seq"] =>
    let stdin ← IO.getStdin
    let mut stat := staticInit
    repeat
      let line ← stdin.getLine
      if line.isEmpty then break
      stat ← runLine out stat ((line.replace "\n" "").replace "\r" "")
  | _ => IO.eprintln "usage: drv_rand48 sweep seed nblocks | dump seed lo hi | sweepc seed nblocks | dumpc seed lo hi | seq"
