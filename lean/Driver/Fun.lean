import ImathVerif.Model.Fun
import ImathVerif.Model.Roots
import ImathVerif.Model.ColorAlgo
/-!
Line-protocol driver for the C17 models (ImathFun / ImathRoots / ImathColorAlgo).
Executes the *models* at `Float32` / `Float` / `Int` / `Nat`; prints the same
canonical lines as harness/corr/fun_corr.cpp prints for the real code.

  drv_fun f32_blocks <op> <lo> <hi>   one FNV hash per block of 2^16 float patterns
                                       op: floor ceil trunc finitef succf predf
  drv_fun f32_range <op> <lo> <hi>    one result per pattern in [lo,hi)
  drv_fun lines                        read command lines from stdin, one output line each:
     f32 <op> <hex>            f64 <op> <hex>          (floor ceil trunc finite succ pred)
     int <x> <y>               -> divs mods divp modp   (wrap/trap model; T = trap)
     ints <x> <y>              -> divs mods divp modp of the unbounded model + noOverflow flags
     sf <a> <b> <t> / sd ...   scalar utilities at float / double (hex patterns)
     rq / rl / rn / rc <d|f> coefficients (hex)        roots: count, branch, roots
     h2r3 h2r4 r2h3 r2h4 <hex doubles>                 colour at double
     ih2r3 ih2r4 ir2h3 ir2h4 <T> <mode> ints           integer wrappers (T: uc s us i ui; mode f|d)
     p2r3f p2r4f rt3f rt4f rt3d rt4d <packed hex>      packed colours
     r2p3f r2p4f <float hex..>                         rgb2packed at float
     p2r4i <T> <packed hex> ; r2p4i <T> ints           packed, integer element types (p2r3i / r2p3i: Vec3)
     f64m / f32m <op> <hex>    floor ceil trunc with machine-int intermediates: wrapped value + no-overflow flag
     fh2r3 fh2r4 fr2h3 fr2h4 <f|d> <hex ..>            the floating-element arms of the templated wrappers
     ul <a> <b> <t float hex>  ulerp / lerp at unsigned int, Q = float
-/
open ImathVerif

def hex (n : Nat) : String := String.ofList (Nat.toDigits 16 n)

def parseHex (s : String) : Nat :=
  s.foldl (fun a c =>
    let d := if c.isDigit then c.toNat - 48 else if 'a' ≤ c ∧ c ≤ 'f' then c.toNat - 87
             else if 'A' ≤ c ∧ c ≤ 'F' then c.toNat - 55 else 0
    a * 16 + d) 0

def parseInt (s : String) : Int :=
  if s.startsWith "-" then -((s.drop 1).toNat! : Int) else (s.toNat! : Int)

/-! ### scalar instances for execution -/
instance : IntCast Float32 := ⟨fun i => (Int32.ofInt i).toFloat32⟩
instance : IntCast Float := ⟨fun i => (Int64.ofInt i).toFloat⟩
instance : NatCast Float32 := ⟨fun n => (UInt32.ofNat n).toFloat32⟩
instance : NatCast Float := ⟨fun n => (UInt64.ofNat n).toFloat⟩

/-- `int (x)` as cvttss2si does it for |x| < 2^31 (the driver never calls it outside) -/
@[inline] def toIntF32 (x : Float32) : Int := x.toInt32.toInt
@[inline] def toIntF64 (x : Float) : Int := x.toInt32.toInt

@[inline] def inRange32 (u : UInt32) : Bool := (u &&& 0x7fffffff) < 0x4f000000
@[inline] def inRange64 (u : UInt64) : Bool := (u &&& 0x7fffffffffffffff) < 0x41e0000000000000

def i32bits (i : Int) : UInt32 := (Int32.ofInt i).toUInt32

/-- result of a float op on pattern `u`, as a 32-bit word (sentinel outside the claimed domain) -/
@[inline] def f32op (op : Nat) (u : UInt32) : UInt32 :=
  match op with
  | 0 => if inRange32 u then i32bits (Fun.floor toIntF32 (Float32.ofBits u)) else 0x80000000
  | 1 => if inRange32 u then i32bits (Fun.ceil toIntF32 (Float32.ofBits u)) else 0x80000000
  | 2 => if inRange32 u then i32bits (Fun.trunc toIntF32 (Float32.ofBits u)) else 0x80000000
  | 3 => if Fun.finitef u.toNat then 1 else 0
  | 4 => UInt32.ofNat (Fun.succf u.toNat)
  | _ => UInt32.ofNat (Fun.predf u.toNat)

def opCode (s : String) : Nat :=
  match s with
  | "floor" => 0 | "ceil" => 1 | "trunc" => 2 | "finitef" => 3 | "finite" => 3
  | "succf" => 4 | "succ" => 4 | _ => 5

def blockHash (op : Nat) (b : Nat) : UInt64 := Id.run do
  let mut h : UInt64 := 1469598103934665603
  let base : UInt32 := UInt32.ofNat (b * 65536)
  for i in [0:65536] do
    h := (h ^^^ (f32op op (base + UInt32.ofNat i)).toUInt64) * 1099511628211
  return h

def f64op (op : Nat) (u : UInt64) : String :=
  match op with
  | 0 => if inRange64 u then toString (Fun.floor toIntF64 (Float.ofBits u)) else "x"
  | 1 => if inRange64 u then toString (Fun.ceil toIntF64 (Float.ofBits u)) else "x"
  | 2 => if inRange64 u then toString (Fun.trunc toIntF64 (Float.ofBits u)) else "x"
  | 3 => if Fun.finited u.toNat then "1" else "0"
  | 4 => hex (Fun.succd u.toNat)
  | _ => hex (Fun.predd u.toNat)

def f32opStr (op : Nat) (u : UInt32) : String :=
  if op ≤ 2 then (if inRange32 u then toString (Int32.ofNat (f32op op u).toNat |>.toInt) else "x")
  else hex (f32op op u).toNat

/-! ### integer division -/
def optStr : Option Int → String
  | some i => toString i
  | none => "T"

def b01 (b : Bool) : String := if b then "1" else "0"

/-! ### scalar utilities -/
def fmaxF32 : Float32 := Float32.ofBits 0x7f7fffff
def fmaxF64 : Float := Float.ofBits 0x7fefffffffffffff

def scalF32 (a b t : Float32) : String :=
  let h (x : Float32) := hex x.toBits.toNat
  s!"{h (Fun.abs a)} {Fun.sign a} {h (Fun.lerp a b t)} {h (Fun.ulerp a b t)} {h (Fun.lerpfactor fmaxF32 t a b)} " ++
  s!"{h (Fun.clamp t a b)} {Fun.cmp a b} {Fun.cmpt a b t} {b01 (Fun.iszero a t)} {b01 (Fun.equal a b t)} " ++
  s!"{b01 (Fun.equalWithAbsError a b t)} {b01 (Fun.equalWithRelError a b t)} " ++
  s!"{b01 (decide (Fun.lerpfactorGuard fmaxF32 t a b))}"

def scalF64 (a b t : Float) : String :=
  let h (x : Float) := hex x.toBits.toNat
  s!"{h (Fun.abs a)} {Fun.sign a} {h (Fun.lerp a b t)} {h (Fun.ulerp a b t)} {h (Fun.lerpfactor fmaxF64 t a b)} " ++
  s!"{h (Fun.clamp t a b)} {Fun.cmp a b} {Fun.cmpt a b t} {b01 (Fun.iszero a t)} {b01 (Fun.equal a b t)} " ++
  s!"{b01 (Fun.equalWithAbsError a b t)} {b01 (Fun.equalWithRelError a b t)} " ++
  s!"{b01 (decide (Fun.lerpfactorGuard fmaxF64 t a b))}"

/-! ### roots -/
def cs64 (a : Float) : Float := if a.toBits >>> 63 == 1 then -1 else 1
def cs32 (a : Float32) : Float32 := if a.toBits >>> 31 == 1 then -1 else 1

/-- complex square root / power: textbook polar forms (NOT bit-identical to libstdc++/glibc;
the complex branch is compared by count and residual, not bit for bit) -/
def csqrt64 (z : Float × Float) : Float × Float :=
  if z.2 == 0 then (if z.1 < 0 then (0, Float.sqrt (-z.1)) else (Float.sqrt z.1, 0))
  else
    let m := Float.sqrt (z.1 * z.1 + z.2 * z.2)
    let re := Float.sqrt ((m + z.1) / 2)
    let im := Float.sqrt ((m - z.1) / 2)
    (re, if z.2 < 0 then -im else im)
def cpow64 (z : Float × Float) (y : Float) : Float × Float :=
  if z.2 == 0 && z.1 > 0 then (Float.pow z.1 y, 0)
  else
    let m := Float.sqrt (z.1 * z.1 + z.2 * z.2)
    let th := Float.atan2 z.2 z.1
    let rho := Float.exp (y * Float.log m)
    (rho * Float.cos (y * th), rho * Float.sin (y * th))
def csqrt32 (z : Float32 × Float32) : Float32 × Float32 :=
  let r := csqrt64 (z.1.toFloat, z.2.toFloat); (r.1.toFloat32, r.2.toFloat32)
def cpow32 (z : Float32 × Float32) (y : Float32) : Float32 × Float32 :=
  let r := cpow64 (z.1.toFloat, z.2.toFloat) y.toFloat; (r.1.toFloat32, r.2.toFloat32)

def F64 : Roots.CubicFns Float :=
  ⟨Float.sqrt, cs64, Float.pow, csqrt64, cpow64, Float.ofBits 0x3ffbb67ae8584caa⟩
def F32 : Roots.CubicFns Float32 :=
  ⟨Float32.sqrt, cs32, Float32.pow, csqrt32, cpow32, Float32.ofBits 0x3fddb3d7⟩

def rootsStr64 (r : Int × List Float) (br : Nat) : String :=
  s!"{r.1} {br}" ++ String.join (r.2.map fun x => " " ++ hex x.toBits.toNat)
def rootsStr32 (r : Int × List Float32) (br : Nat) : String :=
  s!"{r.1} {br}" ++ String.join (r.2.map fun x => " " ++ hex x.toBits.toNat)

/-! ### colour -/
open ColorAlgo in
def v3s (v : V3 Float) : String := s!"{hex v.x.toBits.toNat} {hex v.y.toBits.toNat} {hex v.z.toBits.toNat}"
open ColorAlgo in
def c4s (v : C4 Float) : String :=
  s!"{hex v.r.toBits.toNat} {hex v.g.toBits.toNat} {hex v.b.toBits.toNat} {hex v.a.toBits.toNat}"

/-- `int (std::floor (hue))` -/
def floorInt64 (x : Float) : Int := (Float.floor x).toInt32.toInt

structure TInfo where
  max : Nat
  bits : Nat
  signed : Bool

def tinfo (s : String) : TInfo :=
  match s with
  | "uc" => ⟨255, 8, false⟩
  | "s" => ⟨32767, 16, true⟩
  | "us" => ⟨65535, 16, false⟩
  | "i" => ⟨2147483647, 32, true⟩
  | _ => ⟨4294967295, 32, false⟩

/-- conversion of an in-range integer to `T` (wrap) -/
def wrapT (t : TInfo) (i : Int) : Int :=
  let m : Int := (2 : Int) ^ t.bits
  let r := i % m
  if t.signed && r ≥ m / 2 then r - m else r

/-- `x / double (max)` -/
def scaleInD (t : TInfo) (n : Int) : Float := (Int64.ofInt n).toFloat / (UInt64.ofNat t.max).toFloat
/-- `x / float (max)` widened to double (integral promotion of `x`, then float division) -/
def scaleInF (t : TInfo) (n : Int) : Float :=
  ((Int64.ofInt n).toFloat32 / (UInt64.ofNat t.max).toFloat32).toFloat
/-- `(T) (c * max)` -/
def scaleOut (t : TInfo) (c : Float) : Int := wrapT t (c * (UInt64.ofNat t.max).toFloat).toInt64.toInt
def scaleIn (t : TInfo) (mode : String) : Int → Float := if mode == "f" then scaleInF t else scaleInD t

def toU32F32 (x : Float32) : Nat := x.toUInt32.toNat
def toU32F64 (x : Float) : Nat := x.toUInt32.toNat

open ColorAlgo in
def v3f32s (v : V3 Float32) : String := s!"{hex v.x.toBits.toNat} {hex v.y.toBits.toNat} {hex v.z.toBits.toNat}"
open ColorAlgo in
def c4f32s (v : C4 Float32) : String :=
  s!"{hex v.r.toBits.toNat} {hex v.g.toBits.toNat} {hex v.b.toBits.toNat} {hex v.a.toBits.toNat}"

def fd (s : String) : Float := Float.ofBits (UInt64.ofNat (parseHex s))
def ff (s : String) : Float32 := Float32.ofBits (UInt32.ofNat (parseHex s))

open ColorAlgo Roots in
def handle (ws : List String) : String :=
  match ws with
  | ["f32", op, x] => f32opStr (opCode op) (UInt32.ofNat (parseHex x))
  | ["f64", op, x] => f64op (opCode op) (UInt64.ofNat (parseHex x))
  | ["f64m", op, x] =>
    -- machine-int model: the wrapped 32-bit result and "no int intermediate overflows"
    let u := UInt64.ofNat (parseHex x)
    if !inRange64 u then "x" else
    let d := Float.ofBits u
    match opCode op with
    | 0 => s!"{Fun.floor32 toIntF64 d} {b01 (Fun.noOverflow (Fun.floorSteps toIntF64 d))}"
    | 1 => s!"{Fun.ceil32 toIntF64 d} {b01 (Fun.noOverflow (Fun.ceilSteps toIntF64 d))}"
    | _ => s!"{Fun.trunc32 toIntF64 d} {b01 (Fun.noOverflow (Fun.truncSteps toIntF64 d))}"
  | ["f32m", op, x] =>
    let u := UInt32.ofNat (parseHex x)
    if !inRange32 u then "x" else
    let d := Float32.ofBits u
    match opCode op with
    | 0 => s!"{Fun.floor32 toIntF32 d} {b01 (Fun.noOverflow (Fun.floorSteps toIntF32 d))}"
    | 1 => s!"{Fun.ceil32 toIntF32 d} {b01 (Fun.noOverflow (Fun.ceilSteps toIntF32 d))}"
    | _ => s!"{Fun.trunc32 toIntF32 d} {b01 (Fun.noOverflow (Fun.truncSteps toIntF32 d))}"
  | ["ul", a, b, t] =>
    let cast (n : Nat) : Float32 := (UInt32.ofNat n).toFloat32
    let a := a.toNat!; let b := b.toNat!; let t := ff t
    s!"{(Fun.ulerpU cast a b t).toUInt32.toNat} {(Fun.lerp (cast a) (cast b) t).toUInt32.toNat}"
  | ["int", x, y] =>
    let x := parseInt x; let y := parseInt y
    s!"{optStr (Fun.divs32 x y)} {optStr (Fun.mods32 x y)} {optStr (Fun.divp32 x y)} {optStr (Fun.modp32 x y)}"
  | ["ints", x, y] =>
    let x := parseInt x; let y := parseInt y
    s!"{Fun.divs x y} {Fun.mods x y} {Fun.divp x y} {Fun.modp x y} " ++
    s!"{b01 (Fun.noOverflow (Fun.divsSteps x y))}{b01 (Fun.noOverflow (Fun.modsSteps x y))}" ++
    s!"{b01 (Fun.noOverflow (Fun.divpSteps x y))}{b01 (Fun.noOverflow (Fun.modpSteps x y))}" ++
    s!"{b01 (Fun.noOverflow (Fun.divpNegations x y))}"
  | ["sf", a, b, t] => scalF32 (ff a) (ff b) (ff t)
  | ["sd", a, b, t] => scalF64 (fd a) (fd b) (fd t)
  | ["rl", "d", a, b] => rootsStr64 (solveLinear (fd a) (fd b)) 9
  | ["rl", "f", a, b] => rootsStr32 (solveLinear (ff a) (ff b)) 9
  | ["rq", "d", a, b, c] => rootsStr64 (solveQuadratic Float.sqrt (fd a) (fd b) (fd c)) 9
  | ["rq", "f", a, b, c] => rootsStr32 (solveQuadratic Float32.sqrt (ff a) (ff b) (ff c)) 9
  | ["rn", "d", r, s, t] => rootsStr64 (solveNormalizedCubic F64 (fd r) (fd s) (fd t)) (cubicBranch (fd r) (fd s) (fd t))
  | ["rn", "f", r, s, t] => rootsStr32 (solveNormalizedCubic F32 (ff r) (ff s) (ff t)) (cubicBranch (ff r) (ff s) (ff t))
  | ["rc", "d", a, b, c, d] =>
    let br := if fd a == 0 then 9 else cubicBranch (fd b / fd a) (fd c / fd a) (fd d / fd a)
    rootsStr64 (solveCubic F64 (fd a) (fd b) (fd c) (fd d)) br
  | ["rc", "f", a, b, c, d] =>
    let br := if ff a == 0 then 9 else cubicBranch (ff b / ff a) (ff c / ff a) (ff d / ff a)
    rootsStr32 (solveCubic F32 (ff a) (ff b) (ff c) (ff d)) br
  | ["h2r3", x, y, z] => v3s (hsv2rgbV3 floorInt64 ⟨fd x, fd y, fd z⟩)
  | ["h2r4", r, g, b, a] => c4s (hsv2rgbC4 floorInt64 ⟨fd r, fd g, fd b, fd a⟩)
  | ["r2h3", x, y, z] => v3s (rgb2hsvV3 ⟨fd x, fd y, fd z⟩)
  | ["r2h4", r, g, b, a] => c4s (rgb2hsvC4 ⟨fd r, fd g, fd b, fd a⟩)
  | ["fh2r3", "d", x, y, z] => v3s (hsv2rgbV3F floorInt64 ⟨fd x, fd y, fd z⟩)
  | ["fr2h3", "d", x, y, z] => v3s (rgb2hsvV3F ⟨fd x, fd y, fd z⟩)
  | ["fh2r4", "d", r, g, b, a] => c4s (hsv2rgbC4F floorInt64 ⟨fd r, fd g, fd b, fd a⟩)
  | ["fr2h4", "d", r, g, b, a] => c4s (rgb2hsvC4F ⟨fd r, fd g, fd b, fd a⟩)
  | ["fh2r3", "f", x, y, z] =>
    let v := hsv2rgbV3F floorInt64 ⟨(ff x).toFloat, (ff y).toFloat, (ff z).toFloat⟩
    v3f32s ⟨v.x.toFloat32, v.y.toFloat32, v.z.toFloat32⟩
  | ["fr2h3", "f", x, y, z] =>
    let v := rgb2hsvV3F ⟨(ff x).toFloat, (ff y).toFloat, (ff z).toFloat⟩
    v3f32s ⟨v.x.toFloat32, v.y.toFloat32, v.z.toFloat32⟩
  | ["fh2r4", "f", r, g, b, a] =>
    let v := hsv2rgbC4F floorInt64 ⟨(ff r).toFloat, (ff g).toFloat, (ff b).toFloat, (ff a).toFloat⟩
    c4f32s ⟨v.r.toFloat32, v.g.toFloat32, v.b.toFloat32, v.a.toFloat32⟩
  | ["fr2h4", "f", r, g, b, a] =>
    let v := rgb2hsvC4F ⟨(ff r).toFloat, (ff g).toFloat, (ff b).toFloat, (ff a).toFloat⟩
    c4f32s ⟨v.r.toFloat32, v.g.toFloat32, v.b.toFloat32, v.a.toFloat32⟩
  | ["p2r3d", p] => v3s (packed2rgbV3 (α := Float) (parseHex p))
  | ["p2r4d", p] => c4s (packed2rgbC4 (α := Float) (parseHex p))
  | ["p2r3i", t, p] =>
    let ti := tinfo t
    let v := packed2rgbV3I ti.max (fun n => wrapT ti n) (parseHex p)
    s!"{v.x} {v.y} {v.z}"
  | ["r2p3i", t, x, y, z] =>
    let ti := tinfo t
    let si (n : Int) : Float32 := (Int64.ofInt n).toFloat32 / (UInt64.ofNat ti.max).toFloat32
    hex (rgb2packedV3I si toU32F32 ⟨parseInt x, parseInt y, parseInt z⟩)
  | ["ih2r3", t, mode, x, y, z] =>
    let ti := tinfo t
    let v := hsv2rgbV3I floorInt64 (scaleIn ti mode) (scaleOut ti) ⟨parseInt x, parseInt y, parseInt z⟩
    s!"{v.x} {v.y} {v.z}"
  | ["ir2h3", t, mode, x, y, z] =>
    let ti := tinfo t
    let v := rgb2hsvV3I (scaleIn ti mode) (scaleOut ti) ⟨parseInt x, parseInt y, parseInt z⟩
    s!"{v.x} {v.y} {v.z}"
  | ["ih2r4", t, mode, r, g, b, a] =>
    let ti := tinfo t
    let v := hsv2rgbC4I floorInt64 (scaleIn ti mode) (scaleOut ti) ⟨parseInt r, parseInt g, parseInt b, parseInt a⟩
    s!"{v.r} {v.g} {v.b} {v.a}"
  | ["ir2h4", t, mode, r, g, b, a] =>
    let ti := tinfo t
    let v := rgb2hsvC4I (scaleIn ti mode) (scaleOut ti) ⟨parseInt r, parseInt g, parseInt b, parseInt a⟩
    s!"{v.r} {v.g} {v.b} {v.a}"
  | ["p2r3f", p] => v3f32s (packed2rgbV3 (α := Float32) (parseHex p))
  | ["p2r4f", p] => c4f32s (packed2rgbC4 (α := Float32) (parseHex p))
  | ["rt3f", p] => hex (rgb2packedV3 toU32F32 (packed2rgbV3 (α := Float32) (parseHex p)))
  | ["rt4f", p] => hex (rgb2packedC4 toU32F32 (packed2rgbC4 (α := Float32) (parseHex p)))
  | ["rt3d", p] => hex (rgb2packedV3 toU32F64 (packed2rgbV3 (α := Float) (parseHex p)))
  | ["rt4d", p] => hex (rgb2packedC4 toU32F64 (packed2rgbC4 (α := Float) (parseHex p)))
  | ["r2p3f", x, y, z] => hex (rgb2packedV3 toU32F32 (⟨ff x, ff y, ff z⟩ : V3 Float32))
  | ["r2p4f", r, g, b, a] => hex (rgb2packedC4 toU32F32 (⟨ff r, ff g, ff b, ff a⟩ : C4 Float32))
  | ["p2r4i", t, p] =>
    let ti := tinfo t
    let v := packed2rgbC4I ti.max (fun n => wrapT ti n) (parseHex p)
    s!"{v.r} {v.g} {v.b} {v.a}"
  | ["r2p4i", t, r, g, b, a] =>
    let ti := tinfo t
    let si (n : Int) : Float32 := (Int64.ofInt n).toFloat32 / (UInt64.ofNat ti.max).toFloat32
    hex (rgb2packedC4I si toU32F32 ⟨parseInt r, parseInt g, parseInt b, parseInt a⟩)
  | _ => "?"

partial def lineLoop (inp : IO.FS.Stream) (out : IO.FS.Stream) : IO Unit := do
  let l ← inp.getLine
  if l.isEmpty then return ()
  let ws := (l.trimAscii.toString.splitOn " ").filter (· ≠ "")
  if !ws.isEmpty then out.putStrLn (handle ws)
  lineLoop inp out

def main (args : List String) : IO Unit := do
  let out ← IO.getStdout
  match args with
  | ["f32_blocks", op, lo, hi] =>
    let op := opCode op; let lo := lo.toNat!; let hi := hi.toNat!
    let nt := 16
    let tasks ← (List.range nt).mapM fun t => IO.asTask (prio := .dedicated) do
      let mut acc : Array UInt64 := #[]
      let mut blk := lo + t
      while blk < hi do
        acc := acc.push (blockHash op blk)
        blk := blk + nt
      return acc
    let mut arrs : Array (Array UInt64) := #[]
    for t in tasks do
      match t.get with
      | .ok arr => arrs := arrs.push arr
      | .error e => throw e
    for i in [0:hi - lo] do
      out.putStrLn (hex (arrs[i % nt]!)[i / nt]!.toNat)
  | ["f32_range", op, lo, hi] =>
    let op := opCode op
    for u in [lo.toNat!:hi.toNat!] do out.putStrLn (f32opStr op (UInt32.ofNat u))
  | ["lines"] => lineLoop (← IO.getStdin) out
  | _ => IO.eprintln "usage: drv_fun f32_blocks op lo hi | f32_range op lo hi | lines"
