import ImathVerif.Model.FixedArray
import ImathVerif.Model.FixedArray2D
import ImathVerif.Model.FixedVArray
import ImathVerif.Model.StringTable
import ImathVerif.Model.BufferProtocol
import ImathVerif.Model.FixedArrayWitness
import ImathVerif.Spec.PyList
/-!
Line-protocol driver for the PyImath array models (C19).

  drv_fixedarray [maskedAccessThrows] [convertDense] [sliceEmptyBackward] [ifelseConstRead] [maskOnMaskedHonoured]
                 [componentKeepsMask] [sizeHelperOverloads]          (each 0|1; default 0 = the code as written)

stdin: one op per line, stdout: one canonical line per op.

`<res>;<dump>` with `<res>` = `ok` | `int n` | `new id` | `str s` | `err <PyClass>:<kind>`;
`<dump>` = every live 1-D array as `w[...]`/`r[...]` (`oob` when reading it leaves its buffer),
then ` | ` 2-D arrays `LXxLY[...]` (j-major), then ` | ` matrices `RxC[...]` when any exist.

1-D (`Model/FixedArray.lean`):
  reset | alloc 1,2,3 | alloc - | alloci 1,0,1 | len v | getitem v i | getslice v IDX | getmask v m | copy v | convert v
  setscalar v IDX x | setscalarmask v m x | setvector v IDX d | setvectormask v m d
  ifelses v c x | ifelsev v c o | ro v | iadds v x | iaddv v d
  allocw w c00,c01,..  (array of w-component elements, cell by cell) | comp v k  (component array `.x/.y/...`)
  elemset v i k x  (`e = a[i]; e.<component k> = x`) | allocfill x n  (`IntArray(x, n)`) | settuple / setlist v i c0,c1,..
  copyc v | copyd v  (`copy.copy`, `copy.deepcopy`) | convert v <Target> | d2 convert v <T> | d2 settuple v i j x <tuple length>
  IDX = i:<int> | s:<start>:<stop>:<step>   (N = None)
slice normalisation alone (PySlice_GetIndicesEx):
  slice len start stop step            -> `ok start stop step slicelength [positions]` | `err ...`
  specslice len start stop step        -> `[indices]` of the SPECIFICATION `PyList.sliceIndices` | `none`
  specgetitem len i                    -> position `PyList.getitem` selects on `[0..len-1]` | `none`
  witnesses                            -> the witness programs of `Model/FixedArrayWitness.lean`, `# name` + op lines
2-D (`Model/FixedArray2D.lean`):
  d2 alloc lx ly vals | d2 item v i j | d2 getslice v IDX IDY | d2 setscalar v IDX IDY x | d2 setvector v IDX IDY d
  d2 set1d v IDX IDY d1 | d2 getmask v m | d2 setscalarmask v m x | d2 setvectormask v m d | d2 alloci lx ly vals
  d2 fill x lx ly | d2 copy v | d2 len v | d2 set1dmask v m d1 | d2 ifelses v c x | d2 ifelsev v c o
matrix:
  m alloc r c vals | m len v | m row v i | m getslice v IDX | m setscalar v IDX x | m setvector v IDX d1 | m setmatrix v IDX dm
variable arrays (`Model/FixedVArray.lean`; dump: ` # ` then every live VArray as `w[[..],[..]]`):
  v new n | v newfill x n | v newsizes m1 x | v copy a | v len a | v row a i | v setelem a i j x | v getslice a IDX
  v getmask a m1 | v setrow a IDX d1 | v setrowmask a m1 d1 | v setvec a IDX b | v setvecmask a m1 b | v ro a
  v size a i | v sizeslice a IDX | v sizemask a m1 | v setsize a IDX k | v setsizemask a m1 k | v setsizevec a IDX d1
  v setsizevecmask a m1 d1                (m1 / d1: ids of 1-D IntArrays, b: id of a VArray)
string array (`Model/StringTable.lean`):   st new n s | st set i s | st get i      (dump: the strings)
several string arrays, each with its own table (`Model/StringTable.lean`; output `<res>;` every array as w[..]/r[..]):
  sa new n s | sa default n | sa len a | sa ro a | sa get a i | sa set a IDX s | sa setmask a bits s | sa setvec a IDX b
  sa setvecmask a bits b | sa getslice a IDX | sa eq a b | sa ne a b | sa eqs a s | sa nes a s        (bits: 1,0,1)
buffer protocol (`Model/BufferProtocol.lean`):
  buf get <fromShape> atomic width dims length stride
  buf export <fromShape> atomic width dims length stride off <mem hex|->   -> `ok <hex of what a consumer of the exported view reads>`
  buf from <checks> <copy 0 memcpy|1 requireContiguous|2 logical> atomic width dims sizeofT fmt srcfmt srcitemsize
           <shape csv|-> <strides csv|-> <off> <len> <mem hex|->     -> `ok alloc=N bytes=<hex>` | `err <kind>`
-/
open ImathVerif.FixedArray ImathVerif.FixedArray2D ImathVerif.FixedVArray

def parseInt (s : String) : Int :=
  if s.startsWith "-" then - (Int.ofNat (s.drop 1).toNat!) else Int.ofNat s.toNat!

def parseOpt (s : String) : Option Int := if s == "N" then none else some (parseInt s)

def parseIdx (s : String) : PyIdx :=
  match s.splitOn ":" with
  | ["i", i] => .int (parseInt i)
  | ["s", a, b, c] => .slice (parseOpt a) (parseOpt b) (parseOpt c)
  | _ => .int 0

def parseVals (s : String) : List Int :=
  if s == "-" then [] else (s.splitOn ",").map parseInt

def showInts (l : List Int) : String := "[" ++ ",".intercalate (l.map toString) ++ "]"

def showErr (e : Err) : String := "err " ++ e.pyClass ++ ":" ++ e.name

def showRes : Res → String
  | .ok .none => "ok"
  | .ok (.int x) => s!"int {x}"
  | .ok (.newView i) => s!"new {i}"
  | .error e => showErr e

def dumpView (h : Heap) (v : View) : String :=
  (if v.writable then "w" else "r") ++
  match v.readAll h v.length with
  | .ok l => showInts l
  | .error _ => "oob"

def dump2D (h : Heap) (v : View2D) : String :=
  s!"{v.lenX}x{v.lenY}" ++
  match mapE (fun p => v.get h p.1 p.2) (pairsJI v.lenX v.lenY) with
  | .ok l => showInts l
  | .error _ => "oob"

def dumpMat (h : Heap) (m : MatView) : String :=
  s!"{m.rows}x{m.cols}" ++
  match mapE (fun p => m.get h p.1 p.2) (pairsIJ m.rows m.cols) with
  | .ok l => showInts l
  | .error _ => "oob"

def dumpV (h : VHeap) (v : VView) : String :=
  (if v.writable then "w" else "r") ++
  match v.readAll h with
  | .ok rows => "[" ++ ",".intercalate (rows.map showInts) ++ "]"
  | .error _ => "oob"

structure DState where
  s : State := State.empty
  env2 : List View2D := []
  envM : List MatView := []
  vh : VHeap := []
  envV : List VView := []
  sas : List (ImathVerif.StringTable.ArrState × Bool) := []     -- string arrays (`sa` ops) with their `_writable`
  sasW : List (ImathVerif.StringTable.ArrState × Bool) := []    -- the same for WstringArray (`saw` ops)
  str : ImathVerif.StringTable.ArrState := ImathVerif.StringTable.ArrState.empty

def DState.dump (d : DState) : String :=
  " ".intercalate (d.s.env.map (dumpView d.s.heap)) ++
  (if d.env2.isEmpty then "" else " | " ++ " ".intercalate (d.env2.map (dump2D d.s.heap))) ++
  (if d.envM.isEmpty then "" else " | " ++ " ".intercalate (d.envM.map (dumpMat d.s.heap))) ++
  (if d.envV.isEmpty then "" else " # " ++ " ".intercalate (d.envV.map (dumpV d.vh)))

def parseOp (t : List String) : Option Op :=
  match t with
  | ["alloc", v] => some (.alloc (parseVals v))
  | ["allocfill", x, n] => some (.alloc (List.replicate n.toNat! (parseInt x)))   -- `IntArray(x, n)`: the fill constructor
  | ["allocc", v] => some (.alloc (parseVals v))     -- an array of the COMPONENT type of the vector class under test
  | ["alloci", v] => some (.alloc (parseVals v))     -- an IntArray (mask / choice) whatever the element type under test
  | ["len", v] => some (.len v.toNat!)
  | ["getitem", v, i] => some (.getitem v.toNat! (parseInt i))
  | ["getslice", v, i] => some (.getslice v.toNat! (parseIdx i))
  | ["getmask", v, m] => some (.getmask v.toNat! m.toNat!)
  | ["copy", v] => some (.copy v.toNat!)
  | ["copyc", v] => some (.copy v.toNat!)          -- `copy.copy(a)`: `__copy__` wraps the copy constructor
  | ["copyd", v] => some (.copy v.toNat!)          -- `copy.deepcopy(a)`: `__deepcopy__` wraps the SAME copy constructor (shares storage)
  | ["convert", v] => some (.convert v.toNat!)
  | ["convert", v, _] => some (.convert v.toNat!)  -- converting constructor to a NAMED target class (same template)
  | ["setscalar", v, i, x] => some (.setScalar v.toNat! (parseIdx i) (parseInt x))
  | ["setscalarmask", v, m, x] => some (.setScalarMask v.toNat! m.toNat! (parseInt x))
  | ["setvector", v, i, d] => some (.setVector v.toNat! (parseIdx i) d.toNat!)
  | ["setvectormask", v, m, d] => some (.setVectorMask v.toNat! m.toNat! d.toNat!)
  | ["ifelses", v, c, x] => some (.ifelseScalar v.toNat! c.toNat! (parseInt x))
  | ["ifelsev", v, c, o] => some (.ifelseVector v.toNat! c.toNat! o.toNat!)
  | ["ro", v] => some (.makeReadOnly v.toNat!)
  | ["iadds", v, x] => some (.iaddScalar v.toNat! (parseInt x))
  | ["iaddv", v, d] => some (.iaddVector v.toNat! d.toNat!)
  | ["allocw", w, cells] => some (.allocWide w.toNat! (parseVals cells))
  | ["comp", v, k] => some (.comp v.toNat! k.toNat!)
  | _ => none

def handleSlice (cfg : Cfg) (t : List String) : String :=
  match t with
  | [len, a, b, c] =>
    match extractSliceIndices len.toNat! (.slice (parseOpt a) (parseOpt b) (parseOpt c)) (-1) cfg.minStart with
    | .ok s => s!"ok {s.start} {s.stop} {s.step} {s.slicelength} {showInts ((List.range s.slicelength).map (fun i => Int.ofNat (s.at i)))}"
    | .error e => showErr e
  | _ => "bad"

def handleSpecSlice (t : List String) : String :=
  match t with
  | [len, a, b, c] =>
    match ImathVerif.PyList.sliceIndices len.toNat! (parseOpt a) (parseOpt b) (parseOpt c) with
    | some l => showInts (l.map (fun (i : Nat) => (Int.ofNat i)))
    | none => "none"
  | _ => "bad"

def handleSpecGetitem (t : List String) : String :=
  match t with
  | [len, i] =>
    match ImathVerif.PyList.getitem (List.range len.toNat!) (parseInt i) with
    | some k => toString k
    | none => "none"
  | _ => "bad"

def withHeap (d : DState) (r : Except Err Heap) : DState × String :=
  match r with
  | .ok h => ({ d with s := ⟨h, d.s.env⟩ }, "ok")
  | .error e => (d, showErr e)

def v2 (d : DState) (s : String) : Except Err View2D :=
  match d.env2[s.toNat!]? with | some v => .ok v | none => .error .badRef
def vM (d : DState) (s : String) : Except Err MatView :=
  match d.envM[s.toNat!]? with | some v => .ok v | none => .error .badRef
def v1 (d : DState) (s : String) : Except Err View := d.s.view s.toNat!

def new2 (d : DState) (r : Except Err (Heap × View2D)) : DState × String :=
  match r with
  | .ok (h, v) => ({ d with s := ⟨h, d.s.env⟩, env2 := d.env2 ++ [v] }, s!"new {d.env2.length}")
  | .error e => (d, showErr e)
def newM (d : DState) (r : Except Err (Heap × MatView)) : DState × String :=
  match r with
  | .ok (h, v) => ({ d with s := ⟨h, d.s.env⟩, envM := d.envM ++ [v] }, s!"new {d.envM.length}")
  | .error e => (d, showErr e)

partial def handle2D (d : DState) (t : List String) : DState × String :=
  let h := d.s.heap
  match t with
  | ["alloc", lx, ly, vals] => new2 d (.ok (alloc2D h lx.toNat! ly.toNat! (parseVals vals)))
  | ["alloci", lx, ly, vals] => new2 d (.ok (alloc2D h lx.toNat! ly.toNat! (parseVals vals)))   -- an IntArray2D (mask / choice)
  | ["fill", x, lx, ly] => new2 d (.ok (alloc2D h lx.toNat! ly.toNat! (List.replicate (lx.toNat! * ly.toNat!) (parseInt x))))
  | ["copyc", v] => handle2D d ["copy", v]      -- `copy.copy(a)` / `copy.deepcopy(a)` of the 2-D colour arrays: the copy constructor
  | ["copyd", v] => handle2D d ["copy", v]
  | ["copy", v] =>        -- `IntArray2D(a)`: the copy constructor, another handle on the same data
    match v2 d v with
    | .ok a => ({ d with env2 := d.env2 ++ [a] }, s!"new {d.env2.length}")
    | .error e => (d, showErr e)
  | ["len", v] =>
    match v2 d v with
    | .ok a => (d, s!"int {a.totalLen}")
    | .error e => (d, showErr e)
  | ["convert", v, _] =>      -- `FloatArray2D(IntArray2D)` ...: the converting constructors, a fresh dense copy
    new2 d ((v2 d v).bind (fun a =>
      (mapE (fun p => a.get h p.1 p.2) (pairsJI a.lenX a.lenY)).bind (fun vals => .ok (alloc2D h a.lenX a.lenY vals))))
  | ["settuple", v, i, j, x, n] =>     -- `c[(i, j)] = (r, g, b, a)` of the 2-D colour arrays; `n` = tuple length sent
    if n != "4" then (d, "err ValueError:tupleLen") else
    withHeap d ((v2 d v).bind (fun a => setitemScalar2D h a (.int (parseInt i)) (.int (parseInt j)) (parseInt x)))
  | ["set1dmask", v, m, dd] =>
    withHeap d ((v2 d v).bind (fun a => (v2 d m).bind (fun b => (v1 d dd).bind (fun c => setitemArray1DMask h a b c))))
  | ["ifelses", v, c, x] => new2 d ((v2 d v).bind (fun a => (v2 d c).bind (fun b => ifelseScalar2D h a b (parseInt x))))
  | ["ifelsev", v, c, o] =>
    new2 d ((v2 d v).bind (fun a => (v2 d c).bind (fun b => (v2 d o).bind (fun e => ifelseVector2D h a b e))))
  | ["item", v, i, j] =>
    match (v2 d v).bind (fun a => item h a (parseInt i) (parseInt j)) with
    | .ok x => (d, s!"int {x}") | .error e => (d, showErr e)
  | ["getslice", v, ix, iy] => new2 d ((v2 d v).bind (fun a => getslice2D h a (parseIdx ix) (parseIdx iy)))
  | ["setscalar", v, ix, iy, x] =>
    withHeap d ((v2 d v).bind (fun a => setitemScalar2D h a (parseIdx ix) (parseIdx iy) (parseInt x)))
  | ["setvector", v, ix, iy, dd] =>
    withHeap d ((v2 d v).bind (fun a => (v2 d dd).bind (fun b => setitemVector2D h a (parseIdx ix) (parseIdx iy) b)))
  | ["set1d", v, ix, iy, dd] =>
    withHeap d ((v2 d v).bind (fun a => (v1 d dd).bind (fun b => setitemArray1D h a (parseIdx ix) (parseIdx iy) b)))
  | ["getmask", v, m] => new2 d ((v2 d v).bind (fun a => (v2 d m).bind (fun b => getsliceMask2D h a b)))
  | ["setscalarmask", v, m, x] =>
    withHeap d ((v2 d v).bind (fun a => (v2 d m).bind (fun b => setitemScalarMask2D h a b (parseInt x))))
  | ["setvectormask", v, m, dd] =>
    withHeap d ((v2 d v).bind (fun a => (v2 d m).bind (fun b => (v2 d dd).bind (fun c => setitemVectorMask2D h a b c))))
  | _ => (d, "bad")

def handleMat (d : DState) (t : List String) : DState × String :=
  let h := d.s.heap
  match t with
  | ["alloc", r, c, vals] => newM d (.ok (allocMat h r.toNat! c.toNat! (parseVals vals)))
  | ["len", v] =>
    match vM d v with
    | .ok m => (d, s!"int {m.rows}")
    | .error e => (d, showErr e)
  | ["row", v, i] =>
    match (vM d v).bind (fun m => matRow m (parseInt i)) with
    | .ok row => ({ d with s := ⟨h, d.s.env ++ [row]⟩ }, s!"new {d.s.env.length}")
    | .error e => (d, showErr e)
  | ["getslice", v, ix] => newM d ((vM d v).bind (fun m => getsliceMat h m (parseIdx ix)))
  | ["setscalar", v, ix, x] => withHeap d ((vM d v).bind (fun m => setitemScalarMat h m (parseIdx ix) (parseInt x)))
  | ["setvector", v, ix, dd] =>
    withHeap d ((vM d v).bind (fun m => (v1 d dd).bind (fun b => setitemVectorMat h m (parseIdx ix) b)))
  | ["setmatrix", v, ix, dd] =>
    withHeap d ((vM d v).bind (fun m => (vM d dd).bind (fun b => setitemMatrixMat h m (parseIdx ix) b)))
  | _ => (d, "bad")

open ImathVerif.StringTable in
def handleStr (d : DState) (t : List String) : DState × String :=
  let dumpS (a : ArrState) : String :=
    "[" ++ ",".intercalate ((List.range a.idx.length).map (fun i => (getitemString a i).getD "?")) ++ "]"
  match t with
  | ["new", n, s] =>
    match createUniform s n.toNat! with
    | some a => ({ d with str := a }, "ok;" ++ dumpS a)
    | none => (d, "err")
  | ["set", i, s] =>
    match canonicalIndex d.str.idx.length (parseInt i) with       -- setitem_string_scalar: extract_slice_indices
    | .error _ => (d, "err;" ++ dumpS d.str)
    | .ok k =>
      match setitemString d.str k s with
      | some a => ({ d with str := a }, "ok;" ++ dumpS a)
      | none => (d, "err;" ++ dumpS d.str)
  | ["get", i] =>
    match canonicalIndex d.str.idx.length (parseInt i) with       -- getitem_string: canonical_index
    | .error _ => (d, "err;" ++ dumpS d.str)
    | .ok k =>
      match getitemString d.str k with
      | some s => (d, "str " ++ s ++ ";" ++ dumpS d.str)
      | none => (d, "err;" ++ dumpS d.str)
  | _ => (d, "bad")

def hexVal (c : Char) : Nat :=
  if c.isDigit then c.toNat - '0'.toNat else if 'a' ≤ c ∧ c ≤ 'f' then c.toNat - 'a'.toNat + 10 else 0

def parseHex : List Char → List Nat
  | a :: b :: rest => (hexVal a * 16 + hexVal b) :: parseHex rest
  | _ => []

def hexDigit (n : Nat) : Char := if n < 10 then Char.ofNat ('0'.toNat + n) else Char.ofNat ('a'.toNat + n - 10)

def showHex (l : List Nat) : String :=
  String.ofList (l.flatMap (fun b => [hexDigit (b / 16 % 16), hexDigit (b % 16)]))

open ImathVerif.StringTable in
/-- several string arrays, each with its own table: `sa <op> ...` (output `<res>;<every array as w[..]/r[..]>`) -/
def handleSA (cfg : Cfg) (d : DState) (t : List String) : DState × String :=
  let dumpA (p : ArrState × Bool) : String :=
    (if p.2 then "w" else "r") ++ "[" ++
      ",".intercalate ((List.range p.1.idx.length).map (fun i => (getitemString p.1 i).getD "?")) ++ "]"
  let dump (l : List (ArrState × Bool)) : String := " ".intercalate (l.map dumpA)
  let fin (d' : DState) (r : String) : DState × String := (d', r ++ ";" ++ dump d'.sas)
  let arr (s : String) : Except Err (ArrState × Bool) :=
    match d.sas[s.toNat!]? with | some a => .ok a | none => .error .badRef
  let positions (n : Nat) (ix : String) : Except Err (List Nat) :=
    match extractSliceIndices n (parseIdx ix) (-1) cfg.minStart with
    | .ok s => .ok ((List.range s.slicelength).map s.at)
    | .error e => .error e
  let put (k : String) (r : Option ArrState) : DState × String :=
    match r with
    | some a' => fin { d with sas := d.sas.set k.toNat! (a', true) } "ok"
    | none => fin d "err model:tableFull"
  let bools (l : List Bool) : String := showInts (l.map (fun b => if b then 1 else 0))
  match t with
  | ["new", n, s] =>
    match createUniform s n.toNat! with
    | some a => fin { d with sas := d.sas ++ [(a, true)] } s!"new {d.sas.length}"
    | none => fin d "err model:tableFull"
  | ["default", n] =>
    match createUniform "" n.toNat! with
    | some a => fin { d with sas := d.sas ++ [(a, true)] } s!"new {d.sas.length}"
    | none => fin d "err model:tableFull"
  | ["len", a] => match arr a with
    | .ok p => fin d s!"int {p.1.idx.length}"
    | .error e => fin d (showErr e)
  | ["ro", a] => match arr a with
    | .ok p => fin { d with sas := d.sas.set a.toNat! (p.1, false) } "ok"
    | .error e => fin d (showErr e)
  | ["get", a, i] => match arr a with
    | .error e => fin d (showErr e)
    | .ok p =>
      match canonicalIndex p.1.idx.length (parseInt i) with
      | .error e => fin d (showErr e)
      | .ok k => fin d ("str " ++ (getitemString p.1 k).getD "?")
  | ["set", a, ix, s] => match arr a with
    | .error e => fin d (showErr e)
    | .ok p =>
      if !p.2 then fin d (showErr .readOnly) else
      match positions p.1.idx.length ix with
      | .error e => fin d (showErr e)
      | .ok pos => put a (setPositions p.1 pos s)
  | ["setmask", a, bits, s] => match arr a with
    | .error e => fin d (showErr e)
    | .ok p =>
      let b := parseVals bits
      if !p.2 then fin d (showErr .readOnly) else
      if b.length ≠ p.1.idx.length then fin d (showErr .dimMismatch) else
      put a (setPositions p.1 (maskIndices b) s)
  | ["setvec", a, ix, bb] => match arr a, arr bb with
    | .error e, _ => fin d (showErr e)
    | _, .error e => fin d (showErr e)
    | .ok p, .ok q =>
      if !p.2 then fin d (showErr .readOnly) else
      match positions p.1.idx.length ix with
      | .error e => fin d (showErr e)
      | .ok pos =>
        if q.1.idx.length ≠ pos.length then fin d (showErr .srcDimMismatch) else
        let rd : Nat → ArrState → Option String :=
          if a.toNat! == bb.toNat! then (fun i cur => getitemString cur i) else (fun i _ => getitemString q.1 i)
        put a (setFromArray p.1 rd (pos.zip (List.range pos.length)))
  | ["setvecmask", a, bits, bb] => match arr a, arr bb with
    | .error e, _ => fin d (showErr e)
    | _, .error e => fin d (showErr e)
    | .ok p, .ok q =>
      let b := parseVals bits
      if !p.2 then fin d (showErr .readOnly) else
      if b.length ≠ p.1.idx.length then fin d (showErr .dimMismatch) else
      let pos := maskIndices b
      let rd : Nat → ArrState → Option String :=
        if a.toNat! == bb.toNat! then (fun i cur => getitemString cur i) else (fun i _ => getitemString q.1 i)
      if q.1.idx.length = p.1.idx.length then put a (setFromArray p.1 rd (pos.zip pos))
      else if q.1.idx.length ≠ pos.length then fin d (showErr .srcDimMismatch)
      else put a (setFromArray p.1 rd (pos.zip (List.range pos.length)))
  | ["getslice", a, ix] => match arr a with
    | .error e => fin d (showErr e)
    | .ok p =>
      match positions p.1.idx.length ix with
      | .error e => fin d (showErr e)
      | .ok pos =>
        match getSliceString p.1 pos with
        | some r => fin { d with sas := d.sas ++ [(r, true)] } s!"new {d.sas.length}"
        | none => fin d "err model:lookup"
  | [op, a, bb] =>
    if op == "eq" || op == "ne" then
      match arr a, arr bb with
      | .error e, _ => fin d (showErr e)
      | _, .error e => fin d (showErr e)
      | .ok p, .ok q =>
        if p.1.idx.length ≠ q.1.idx.length then fin d (showErr .dimMismatch) else
        match eqArrays p.1 q.1 with
        | some l => fin d ("ints " ++ bools (if op == "eq" then l else l.map (!·)))
        | none => fin d "err model:lookup"
    else if op == "eqs" || op == "nes" then
      match arr a with
      | .error e => fin d (showErr e)
      | .ok p => fin d ("ints " ++ bools (if op == "eqs" then eqString p.1 bb else (eqString p.1 bb).map (!·)))
    else fin d "bad"
  | _ => fin d "bad"

open ImathVerif.BufferProtocol in
def handleBuf (t : List String) : String :=
  let showNats (l : List Nat) : String := "(" ++ ",".intercalate (l.map toString) ++ ")"
  let nats (s : String) : List Nat := if s == "-" then [] else (s.splitOn ",").map String.toNat!
  let ints (s : String) : List Int := if s == "-" then [] else (s.splitOn ",").map parseInt
  match t with
  | ["get", fs, a, w, dm, len, st] =>
    let ty : ElemTy := ⟨a.toNat!, w.toNat!, dm.toNat!, 0, 'x'⟩
    let b := getbuffer ⟨fs == "1", false, .memcpy⟩ ty len.toNat! st.toNat!
    s!"len={b.len} itemsize={b.itemsize} ndim={b.ndim} shape={showNats b.shape} strides={showNats b.strides}"
  | ["export", fs, a, w, dm, len, st, off, mem] =>
    let ty : ElemTy := ⟨a.toNat!, w.toNat!, dm.toNat!, 0, 'x'⟩
    match exportBytes ⟨fs == "1", false, .memcpy⟩ ty len.toNat! st.toNat! (if mem == "-" then [] else parseHex mem.toList) off.toNat! with
    | some bytes => s!"ok {showHex bytes}"
    | none => "err outside"
  | ["from", ck, mode, a, w, dm, sz, fmt, sfmt, sitem, shape, strides, off, len, mem] =>
    let ty : ElemTy := ⟨a.toNat!, w.toNat!, dm.toNat!, sz.toNat!, fmt.front⟩
    let src : Src := ⟨if sfmt == "NULL" then [] else sfmt.toList, sitem.toNat!, nats shape, ints strides,
                      if mem == "-" then [] else parseHex mem.toList, off.toNat!, len.toNat!⟩
    let cm : CopyMode := if mode == "2" then .logical else if mode == "1" then .requireContiguous else .memcpy
    match fromBuffer ⟨false, ck == "1", cm⟩ ty src with
    | .ok bytes => s!"ok alloc={bytes.length} bytes={showHex bytes}"
    | .error .unsupportedType => "err unsupportedType"
    | .error .mismatch => "err mismatch"
    | .error .notContiguous => "err notContiguous"
    | .error .oob => "err oob"
    | .error .oobRead => "err oobRead"
  | _ => "bad"

/-- `FixedVArray` (`Model/FixedVArray.lean`): `v <op> ...` -/
def handleV (so : Bool) (d : DState) (t : List String) : DState × String :=
  let vv (s : String) : Except Err VView := match d.envV[s.toNat!]? with | some v => .ok v | none => .error .badRef
  let ints (s : String) : Except Err (List Int) := (v1 d s).bind (fun a => a.readAll d.s.heap a.length)
  let newV (r : Except Err (VHeap × VView)) : DState × String :=
    match r with
    | .ok (h, v) => ({ d with vh := h, envV := d.envV ++ [v] }, s!"new {d.envV.length}")
    | .error e => (d, showErr e)
  let wres (r : Except Err WRes) : DState × String :=
    match r with
    | .ok (h, none) => ({ d with vh := h }, "ok")
    | .ok (h, some e) => ({ d with vh := h }, showErr e)
    | .error e => (d, showErr e)
  let new1 (r : Except Err (List Int)) : DState × String :=
    match r with
    | .ok vals =>
      let (h, f) := alloc d.s.heap vals
      ({ d with s := ⟨h, d.s.env ++ [f]⟩ }, s!"new {d.s.env.length}")
    | .error e => (d, showErr e)
  match t with
  | ["new", n] => newV (.ok (allocV d.vh (List.replicate n.toNat! [])))
  | ["newfill", x, n] => newV (.ok (allocV d.vh (List.replicate n.toNat! [parseInt x])))
  | ["newsizes", m, x] => newV ((ints m).bind (fun sz => newSizes d.vh sz (parseInt x)))
  | ["copy", a] => match vv a with
    | .ok v => ({ d with envV := d.envV ++ [v] }, s!"new {d.envV.length}")
    | .error e => (d, showErr e)
  | ["len", a] => match vv a with
    | .ok v => (d, s!"int {v.length}")
    | .error e => (d, showErr e)
  | ["row", a, i] => match (vv a).bind (fun v => getRow d.vh v (parseInt i)) with
    | .ok r => (d, "row " ++ showInts r)
    | .error e => (d, showErr e)
  | ["setelem", a, i, j, x] =>
    wres ((vv a).bind (fun v => match setElem d.vh v (parseInt i) (parseInt j) (parseInt x) with
                               | .ok h => .ok (h, none) | .error e => .ok (d.vh, some e)))
  | ["getslice", a, ix] => newV ((vv a).bind (fun v => getsliceV d.vh v (parseIdx ix)))
  | ["getmask", a, m] => match (vv a).bind (fun v => (ints m).bind (fun b => getmaskV v b)) with
    | .ok f => ({ d with envV := d.envV ++ [f] }, s!"new {d.envV.length}")
    | .error e => (d, showErr e)
  | ["setrow", a, ix, dd] => wres ((vv a).bind (fun v => (ints dd).bind (fun r => .ok (setRow d.vh v (parseIdx ix) r))))
  | ["setrowmask", a, m, dd] =>
    wres ((vv a).bind (fun v => (ints m).bind (fun b => (ints dd).bind (fun r => .ok (setRowMask d.vh v b r)))))
  | ["setvec", a, ix, b] => wres ((vv a).bind (fun v => (vv b).bind (fun w => .ok (setVec d.vh v (parseIdx ix) w))))
  | ["setvecmask", a, m, b] =>
    wres ((vv a).bind (fun v => (ints m).bind (fun bb => (vv b).bind (fun w => .ok (setVecMask d.vh v bb w)))))
  | ["ro", a] => match vv a with
    | .ok v => ({ d with envV := d.envV.set a.toNat! { v with writable := false } }, "ok")
    | .error e => (d, showErr e)
  | ["size", a, i] =>
    if so then
      match (vv a).bind (fun v => sizeGet d.vh v (parseInt i)) with
      | .ok k => (d, s!"int {k}")
      | .error e => (d, showErr e)
    else
      -- as registered: `getitem_slice (PyObject*)` is tried first and accepts the int: a 1-element IntArray
      match (vv a).bind (fun v => sizeSlice d.vh v (.int (parseInt i))) with
      | .ok l => (d, "arr " ++ showInts l)
      | .error e => (d, showErr e)
  | ["sizeslice", a, ix] => new1 ((vv a).bind (fun v => sizeSlice d.vh v (parseIdx ix)))
  | ["sizemask", a, m] =>
    if so then new1 ((vv a).bind (fun v => (ints m).bind (fun b => sizeMask d.vh v b)))
    else
      -- as registered: `getitem_slice (PyObject*)` is tried first: "Object is not a slice"
      match (vv a).bind (fun _ => ints m) with
      | .ok _ => (d, "err TypeError:notASlice")
      | .error e => (d, showErr e)
  | ["setsize", a, ix, k] => wres ((vv a).bind (fun v => .ok (setSize d.vh v (parseIdx ix) k.toNat!)))
  | ["setsizemask", a, m, k] => wres ((vv a).bind (fun v => (ints m).bind (fun b => .ok (setSizeMask d.vh v b k.toNat!))))
  | ["setsizevec", a, ix, dd] =>
    wres ((vv a).bind (fun v => (ints dd).bind (fun r => .ok (setSizeVec d.vh v (parseIdx ix) r))))
  | ["setsizevecmask", a, m, dd] =>
    wres ((vv a).bind (fun v => (ints m).bind (fun b => (ints dd).bind (fun r => .ok (setSizeVecMask d.vh v b r)))))
  | _ => (d, "bad")

/-- component arrays (outside `Op`, like matrix rows): `allocw w cells`, `comp v k` -/
partial def handleComp (km : Bool) (d : DState) (t : List String) : DState × String :=
  match t with
  | ["elemset", v, i, k, x] =>
    -- `e = a[i]; e.<component k> = x`: the element of a WRITABLE class-typed array is handed out by reference (the write
    -- lands in the array), that of a read-only array by value (the write is lost, nothing raises)
    match v1 d v with
    | .error e => (d, showErr e)
    | .ok a =>
      match canonicalIndex a.length (parseInt i) with
      | .error e => (d, showErr e)
      | .ok q =>
        if !a.writable then (d, "ok") else
        match (a.elemIndex q).bind (fun r => d.s.heap.wr a.buf (a.pos r + k.toNat!) (parseInt x)) with
        | .ok h' => ({ d with s := ⟨h', d.s.env⟩ }, "ok")
        | .error e => (d, showErr e)
  | ["settuple", v, i, cells] =>
    -- `a[i] = (c0, c1, ..)` (`setItemTuple` of the vector / box array classes; also `setlist` for the V2 classes): the tuple
    -- length is tested first, then `canonical_index`, then the non-const `operator[]` (read-only test, mask-aware)
    match v1 d v with
    | .error e => (d, showErr e)
    | .ok a =>
      let vals := parseVals cells
      if vals.length ≠ a.stride then (d, "err ValueError:tupleLen") else
      match canonicalIndex a.length (match parseIdx i with | .int k => k | _ => 0) with
      | .error e => (d, showErr e)
      | .ok q =>
        if !a.writable then (d, showErr .readOnly) else
        match (a.elemIndex q).bind (fun r =>
            (List.range vals.length).foldl (fun acc k => acc.bind (fun hh => hh.wr a.buf (a.pos r + k) (vals.getD k 0)))
              (.ok d.s.heap)) with
        | .ok h' => ({ d with s := ⟨h', d.s.env⟩ }, "ok")
        | .error e => (d, showErr e)
  | ["setlist", v, i, cells] => handleComp km d ["settuple", v, i, cells]
  | _ => (d, "bad")

partial def loop (cfg : Cfg) (km so : Bool) (stdin stdout : IO.FS.Stream) (d : DState) : IO Unit := do
  stdout.flush
  let line ← stdin.getLine
  if line.isEmpty then return
  let t := (line.trimAscii.toString.splitOn " ").filter (· ≠ "")
  match t with
  | [] => loop cfg km so stdin stdout d
  | ["reset"] => stdout.putStrLn "reset"; loop cfg km so stdin stdout {}
  | "slice" :: rest => stdout.putStrLn (handleSlice cfg rest); loop cfg km so stdin stdout d
  | "specslice" :: rest => stdout.putStrLn (handleSpecSlice rest); loop cfg km so stdin stdout d
  | "specgetitem" :: rest => stdout.putStrLn (handleSpecGetitem rest); loop cfg km so stdin stdout d
  | ["witnesses"] =>
    for (name, ops) in witnesses do
      stdout.putStrLn ("# " ++ name)
      for op in ops do stdout.putStrLn op.line
    stdout.putStrLn "# varray-size-overloads"
    for l in witnessVSizeLines do stdout.putStrLn l
    loop cfg km so stdin stdout d
  | "elemset" :: _ | "settuple" :: _ | "setlist" :: _ =>
    let (d', out) := handleComp km d t
    stdout.putStrLn (out ++ ";" ++ d'.dump); loop cfg km so stdin stdout d'
  | "v" :: rest =>
    let (d', out) := handleV so d rest
    stdout.putStrLn (out ++ ";" ++ d'.dump); loop cfg km so stdin stdout d'
  | "d2" :: rest =>
    let (d', out) := handle2D d rest
    stdout.putStrLn (out ++ ";" ++ d'.dump); loop cfg km so stdin stdout d'
  | "m" :: rest =>
    let (d', out) := handleMat d rest
    stdout.putStrLn (out ++ ";" ++ d'.dump); loop cfg km so stdin stdout d'
  | "saw" :: rest =>     -- WstringArray: the same model
    let (d', out) := handleSA cfg { d with sas := d.sasW } rest
    stdout.putStrLn out; loop cfg km so stdin stdout { d with sasW := d'.sas }
  | "sa" :: rest =>
    let (d', out) := handleSA cfg d rest
    stdout.putStrLn out; loop cfg km so stdin stdout d'
  | "st" :: rest =>
    let (d', out) := handleStr d rest
    stdout.putStrLn out; loop cfg km so stdin stdout d'
  | "buf" :: rest => stdout.putStrLn (handleBuf rest); loop cfg km so stdin stdout d
  | _ =>
    match parseOp t with
    | none => stdout.putStrLn "bad"; loop cfg km so stdin stdout d
    | some op =>
      let (s', r) := step cfg d.s op
      let d' := { d with s := s' }
      stdout.putStrLn (showRes r ++ ";" ++ d'.dump)
      loop cfg km so stdin stdout d'

def main (args : List String) : IO Unit := do
  let flag (i : Nat) : Bool := (args[i]? |>.getD "0") == "1"
  let cfg : Cfg := ⟨flag 0, flag 1, flag 2, flag 3, flag 4, flag 5⟩
  let stdin ← IO.getStdin
  let stdout ← IO.getStdout
  loop cfg (flag 5) (flag 6) stdin stdout {}
