import ImathVerif.Model.FixedArray
import ImathVerif.Model.FixedArray2D
import ImathVerif.Model.StringTable
import ImathVerif.Model.BufferProtocol
import ImathVerif.Model.FixedArrayWitness
import ImathVerif.Spec.PyList
/-!
Line-protocol driver for the PyImath array models (C19).

  drv_fixedarray [maskedAccessThrows] [convertDense] [sliceEmptyBackward] [ifelseConstRead] [maskOnMaskedHonoured]
                 (each 0|1; default 0 = the code as written)

stdin: one op per line, stdout: one canonical line per op.

`<res>;<dump>` with `<res>` = `ok` | `int n` | `new id` | `str s` | `err <PyClass>:<kind>`;
`<dump>` = every live 1-D array as `w[...]`/`r[...]` (`oob` when reading it leaves its buffer),
then ` | ` 2-D arrays `LXxLY[...]` (j-major), then ` | ` matrices `RxC[...]` when any exist.

1-D (`Model/FixedArray.lean`):
  reset | alloc 1,2,3 | alloc - | alloci 1,0,1 | len v | getitem v i | getslice v IDX | getmask v m | copy v | convert v
  setscalar v IDX x | setscalarmask v m x | setvector v IDX d | setvectormask v m d
  ifelses v c x | ifelsev v c o | ro v | iadds v x | iaddv v d
  IDX = i:<int> | s:<start>:<stop>:<step>   (N = None)
slice normalisation alone (PySlice_GetIndicesEx):
  slice len start stop step            -> `ok start stop step slicelength [positions]` | `err ...`
  specslice len start stop step        -> `[indices]` of the SPECIFICATION `PyList.sliceIndices` | `none`
  specgetitem len i                    -> position `PyList.getitem` selects on `[0..len-1]` | `none`
  witnesses                            -> the witness programs of `Model/FixedArrayWitness.lean`, `# name` + op lines
2-D (`Model/FixedArray2D.lean`):
  d2 alloc lx ly vals | d2 item v i j | d2 getslice v IDX IDY | d2 setscalar v IDX IDY x | d2 setvector v IDX IDY d
  d2 set1d v IDX IDY d1 | d2 getmask v m | d2 setscalarmask v m x | d2 setvectormask v m d
matrix:
  m alloc r c vals | m row v i | m getslice v IDX | m setscalar v IDX x | m setvector v IDX d1 | m setmatrix v IDX dm
string array (`Model/StringTable.lean`):   st new n s | st set i s | st get i      (dump: the strings)
buffer protocol (`Model/BufferProtocol.lean`):
  buf get <fromShape> atomic width dims length stride
  buf from <checks> atomic width dims sizeofT fmt srcfmt srcitemsize shape0 nbytes
-/
open ImathVerif.FixedArray ImathVerif.FixedArray2D

def parseInt (s : String) : Int :=
  if s.startsWith "-" then - (Int.ofNat (s.drop 1).toNat!) else Int.ofNat s.toNat!

def parseOpt (s : String) : Option Int := if s == "N" then none else some (parseInt s)

def parseIdx (s : String) : PyIdx :=
  match s.splitOn ":" with
  | ["i", i] => .int (parseInt i)
  | ["s", a, b, c] => .slice (parseOpt a) (parseOpt b) (parseOpt c)
  | _ => .int 0

def parseVals (s : String) : List Int :=
  if s == "-" then [] else (s.splitOn ",").map parseInt

def showInts (l : List Int) : String := "[" ++ ",".intercalate (l.map toString) ++ "]"

def showErr (e : Err) : String := "err " ++ e.pyClass ++ ":" ++ e.name

def showRes : Res → String
  | .ok .none => "ok"
  | .ok (.int x) => s!"int {x}"
  | .ok (.newView i) => s!"new {i}"
  | .error e => showErr e

def dumpView (h : Heap) (v : View) : String :=
  (if v.writable then "w" else "r") ++
  match v.readAll h v.length with
  | .ok l => showInts l
  | .error _ => "oob"

def dump2D (h : Heap) (v : View2D) : String :=
  s!"{v.lenX}x{v.lenY}" ++
  match mapE (fun p => v.get h p.1 p.2) (pairsJI v.lenX v.lenY) with
  | .ok l => showInts l
  | .error _ => "oob"

def dumpMat (h : Heap) (m : MatView) : String :=
  s!"{m.rows}x{m.cols}" ++
  match mapE (fun p => m.get h p.1 p.2) (pairsIJ m.rows m.cols) with
  | .ok l => showInts l
  | .error _ => "oob"

structure DState where
  s : State := State.empty
  env2 : List View2D := []
  envM : List MatView := []
  str : ImathVerif.StringTable.ArrState := ImathVerif.StringTable.ArrState.empty

def DState.dump (d : DState) : String :=
  " ".intercalate (d.s.env.map (dumpView d.s.heap)) ++
  (if d.env2.isEmpty then "" else " | " ++ " ".intercalate (d.env2.map (dump2D d.s.heap))) ++
  (if d.envM.isEmpty then "" else " | " ++ " ".intercalate (d.envM.map (dumpMat d.s.heap)))

def parseOp (t : List String) : Option Op :=
  match t with
  | ["alloc", v] => some (.alloc (parseVals v))
  | ["alloci", v] => some (.alloc (parseVals v))     -- an IntArray (mask / choice) whatever the element type under test
  | ["len", v] => some (.len v.toNat!)
  | ["getitem", v, i] => some (.getitem v.toNat! (parseInt i))
  | ["getslice", v, i] => some (.getslice v.toNat! (parseIdx i))
  | ["getmask", v, m] => some (.getmask v.toNat! m.toNat!)
  | ["copy", v] => some (.copy v.toNat!)
  | ["convert", v] => some (.convert v.toNat!)
  | ["setscalar", v, i, x] => some (.setScalar v.toNat! (parseIdx i) (parseInt x))
  | ["setscalarmask", v, m, x] => some (.setScalarMask v.toNat! m.toNat! (parseInt x))
  | ["setvector", v, i, d] => some (.setVector v.toNat! (parseIdx i) d.toNat!)
  | ["setvectormask", v, m, d] => some (.setVectorMask v.toNat! m.toNat! d.toNat!)
  | ["ifelses", v, c, x] => some (.ifelseScalar v.toNat! c.toNat! (parseInt x))
  | ["ifelsev", v, c, o] => some (.ifelseVector v.toNat! c.toNat! o.toNat!)
  | ["ro", v] => some (.makeReadOnly v.toNat!)
  | ["iadds", v, x] => some (.iaddScalar v.toNat! (parseInt x))
  | ["iaddv", v, d] => some (.iaddVector v.toNat! d.toNat!)
  | _ => none

def handleSlice (cfg : Cfg) (t : List String) : String :=
  match t with
  | [len, a, b, c] =>
    match extractSliceIndices len.toNat! (.slice (parseOpt a) (parseOpt b) (parseOpt c)) (-1) cfg.minStart with
    | .ok s => s!"ok {s.start} {s.stop} {s.step} {s.slicelength} {showInts ((List.range s.slicelength).map (fun i => Int.ofNat (s.at i)))}"
    | .error e => showErr e
  | _ => "bad"

def handleSpecSlice (t : List String) : String :=
  match t with
  | [len, a, b, c] =>
    match ImathVerif.PyList.sliceIndices len.toNat! (parseOpt a) (parseOpt b) (parseOpt c) with
    | some l => showInts (l.map (fun (i : Nat) => (Int.ofNat i)))
    | none => "none"
  | _ => "bad"

def handleSpecGetitem (t : List String) : String :=
  match t with
  | [len, i] =>
    match ImathVerif.PyList.getitem (List.range len.toNat!) (parseInt i) with
    | some k => toString k
    | none => "none"
  | _ => "bad"

def withHeap (d : DState) (r : Except Err Heap) : DState × String :=
  match r with
  | .ok h => ({ d with s := ⟨h, d.s.env⟩ }, "ok")
  | .error e => (d, showErr e)

def v2 (d : DState) (s : String) : Except Err View2D :=
  match d.env2[s.toNat!]? with | some v => .ok v | none => .error .badRef
def vM (d : DState) (s : String) : Except Err MatView :=
  match d.envM[s.toNat!]? with | some v => .ok v | none => .error .badRef
def v1 (d : DState) (s : String) : Except Err View := d.s.view s.toNat!

def new2 (d : DState) (r : Except Err (Heap × View2D)) : DState × String :=
  match r with
  | .ok (h, v) => ({ d with s := ⟨h, d.s.env⟩, env2 := d.env2 ++ [v] }, s!"new {d.env2.length}")
  | .error e => (d, showErr e)
def newM (d : DState) (r : Except Err (Heap × MatView)) : DState × String :=
  match r with
  | .ok (h, v) => ({ d with s := ⟨h, d.s.env⟩, envM := d.envM ++ [v] }, s!"new {d.envM.length}")
  | .error e => (d, showErr e)

def handle2D (d : DState) (t : List String) : DState × String :=
  let h := d.s.heap
  match t with
  | ["alloc", lx, ly, vals] => new2 d (.ok (alloc2D h lx.toNat! ly.toNat! (parseVals vals)))
  | ["item", v, i, j] =>
    match (v2 d v).bind (fun a => item h a (parseInt i) (parseInt j)) with
    | .ok x => (d, s!"int {x}") | .error e => (d, showErr e)
  | ["getslice", v, ix, iy] => new2 d ((v2 d v).bind (fun a => getslice2D h a (parseIdx ix) (parseIdx iy)))
  | ["setscalar", v, ix, iy, x] =>
    withHeap d ((v2 d v).bind (fun a => setitemScalar2D h a (parseIdx ix) (parseIdx iy) (parseInt x)))
  | ["setvector", v, ix, iy, dd] =>
    withHeap d ((v2 d v).bind (fun a => (v2 d dd).bind (fun b => setitemVector2D h a (parseIdx ix) (parseIdx iy) b)))
  | ["set1d", v, ix, iy, dd] =>
    withHeap d ((v2 d v).bind (fun a => (v1 d dd).bind (fun b => setitemArray1D h a (parseIdx ix) (parseIdx iy) b)))
  | ["getmask", v, m] => new2 d ((v2 d v).bind (fun a => (v2 d m).bind (fun b => getsliceMask2D h a b)))
  | ["setscalarmask", v, m, x] =>
    withHeap d ((v2 d v).bind (fun a => (v2 d m).bind (fun b => setitemScalarMask2D h a b (parseInt x))))
  | ["setvectormask", v, m, dd] =>
    withHeap d ((v2 d v).bind (fun a => (v2 d m).bind (fun b => (v2 d dd).bind (fun c => setitemVectorMask2D h a b c))))
  | _ => (d, "bad")

def handleMat (d : DState) (t : List String) : DState × String :=
  let h := d.s.heap
  match t with
  | ["alloc", r, c, vals] => newM d (.ok (allocMat h r.toNat! c.toNat! (parseVals vals)))
  | ["row", v, i] =>
    match (vM d v).bind (fun m => matRow m (parseInt i)) with
    | .ok row => ({ d with s := ⟨h, d.s.env ++ [row]⟩ }, s!"new {d.s.env.length}")
    | .error e => (d, showErr e)
  | ["getslice", v, ix] => newM d ((vM d v).bind (fun m => getsliceMat h m (parseIdx ix)))
  | ["setscalar", v, ix, x] => withHeap d ((vM d v).bind (fun m => setitemScalarMat h m (parseIdx ix) (parseInt x)))
  | ["setvector", v, ix, dd] =>
    withHeap d ((vM d v).bind (fun m => (v1 d dd).bind (fun b => setitemVectorMat h m (parseIdx ix) b)))
  | ["setmatrix", v, ix, dd] =>
    withHeap d ((vM d v).bind (fun m => (vM d dd).bind (fun b => setitemMatrixMat h m (parseIdx ix) b)))
  | _ => (d, "bad")

open ImathVerif.StringTable in
def handleStr (d : DState) (t : List String) : DState × String :=
  let dumpS (a : ArrState) : String :=
    "[" ++ ",".intercalate ((List.range a.idx.length).map (fun i => (getitemString a i).getD "?")) ++ "]"
  match t with
  | ["new", n, s] =>
    match createUniform s n.toNat! with
    | some a => ({ d with str := a }, "ok;" ++ dumpS a)
    | none => (d, "err")
  | ["set", i, s] =>
    match canonicalIndex d.str.idx.length (parseInt i) with       -- setitem_string_scalar: extract_slice_indices
    | .error _ => (d, "err;" ++ dumpS d.str)
    | .ok k =>
      match setitemString d.str k s with
      | some a => ({ d with str := a }, "ok;" ++ dumpS a)
      | none => (d, "err;" ++ dumpS d.str)
  | ["get", i] =>
    match canonicalIndex d.str.idx.length (parseInt i) with       -- getitem_string: canonical_index
    | .error _ => (d, "err;" ++ dumpS d.str)
    | .ok k =>
      match getitemString d.str k with
      | some s => (d, "str " ++ s ++ ";" ++ dumpS d.str)
      | none => (d, "err;" ++ dumpS d.str)
  | _ => (d, "bad")

open ImathVerif.BufferProtocol in
def handleBuf (t : List String) : String :=
  let showNats (l : List Nat) : String := "(" ++ ",".intercalate (l.map toString) ++ ")"
  match t with
  | ["get", fs, a, w, dm, len, st] =>
    let ty : ElemTy := ⟨a.toNat!, w.toNat!, dm.toNat!, 0, 'x'⟩
    let b := getbuffer ⟨fs == "1", false⟩ ty len.toNat! st.toNat!
    s!"len={b.len} itemsize={b.itemsize} ndim={b.ndim} shape={showNats b.shape} strides={showNats b.strides}"
  | ["from", ck, a, w, dm, sz, fmt, sfmt, sitem, shape0, nbytes] =>
    let ty : ElemTy := ⟨a.toNat!, w.toNat!, dm.toNat!, sz.toNat!, fmt.front⟩
    let src : Src := ⟨if sfmt == "NULL" then [] else sfmt.toList, sitem.toNat!, shape0.toNat!, List.replicate nbytes.toNat! 1⟩
    match fromBuffer ⟨false, ck == "1"⟩ ty src with
    | .ok bytes => s!"ok alloc={bytes.length}"
    | .error .unsupportedType => "err unsupportedType"
    | .error .mismatch => "err mismatch"
    | .error .oob => "err oob"
  | _ => "bad"

partial def loop (cfg : Cfg) (stdin stdout : IO.FS.Stream) (d : DState) : IO Unit := do
  stdout.flush
  let line ← stdin.getLine
  if line.isEmpty then return
  let t := (line.trimAscii.toString.splitOn " ").filter (· ≠ "")
  match t with
  | [] => loop cfg stdin stdout d
  | ["reset"] => stdout.putStrLn "reset"; loop cfg stdin stdout {}
  | "slice" :: rest => stdout.putStrLn (handleSlice cfg rest); loop cfg stdin stdout d
  | "specslice" :: rest => stdout.putStrLn (handleSpecSlice rest); loop cfg stdin stdout d
  | "specgetitem" :: rest => stdout.putStrLn (handleSpecGetitem rest); loop cfg stdin stdout d
  | ["witnesses"] =>
    for (name, ops) in witnesses do
      stdout.putStrLn ("# " ++ name)
      for op in ops do stdout.putStrLn op.line
    loop cfg stdin stdout d
  | "d2" :: rest =>
    let (d', out) := handle2D d rest
    stdout.putStrLn (out ++ ";" ++ d'.dump); loop cfg stdin stdout d'
  | "m" :: rest =>
    let (d', out) := handleMat d rest
    stdout.putStrLn (out ++ ";" ++ d'.dump); loop cfg stdin stdout d'
  | "st" :: rest =>
    let (d', out) := handleStr d rest
    stdout.putStrLn out; loop cfg stdin stdout d'
  | "buf" :: rest => stdout.putStrLn (handleBuf rest); loop cfg stdin stdout d
  | _ =>
    match parseOp t with
    | none => stdout.putStrLn "bad"; loop cfg stdin stdout d
    | some op =>
      let (s', r) := step cfg d.s op
      let d' := { d with s := s' }
      stdout.putStrLn (showRes r ++ ";" ++ d'.dump)
      loop cfg stdin stdout d'

def main (args : List String) : IO Unit := do
  let flag (i : Nat) : Bool := (args[i]? |>.getD "0") == "1"
  let cfg : Cfg := ⟨flag 0, flag 1, flag 2, flag 3, flag 4⟩
  let stdin ← IO.getStdin
  let stdout ← IO.getStdout
  loop cfg stdin stdout {}
