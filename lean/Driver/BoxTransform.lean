import ImathVerif.Model.BoxTransform
/-!
Line-protocol driver for C13 (box transforms).  Core `Rat` only.

stdin: the "T" lines printed by `harness/corr/c13_corr.cpp transform`:

    T <overload 0..3> <d|f> <exact 0|1> <box: 6> <matrix: 16, row-major> <old result: 6> | <real output: 6>

numbers are `x<16 hex digits>` (bit pattern of a double; float values widened exactly).
Overloads: 0 `transform(box,m)`, 1 `transform(box,m,result)`, 2 `affineTransform(box,m)`,
3 `affineTransform(box,m,result)`.  For every line with `exact = 1` (all arithmetic the code performs is
exact on that input) the MODEL (`Model/BoxTransform.lean`) is evaluated at exact rationals with the type
bounds of the element type, and compared with the real output EXACTLY.

stdout: `DIFF <line-number> <overload> model=<6 rationals> real=<6 rationals>` (first 20) and
`MODEL lines=<n> compared=<n> diffs=<n> ovl0..3=<n> empty=<n> infinite=<n> affine=<n> projective=<n> single0..3=<n>`
(`single<i>`: compared cases in which term i of the affine test `m[0][3]==0 && m[1][3]==0 && m[2][3]==0 && m[3][3]==1` is the only failing term).

`case <overload> <d|f> <28 numbers: box, matrix, old result>` (argv; numbers `n`, `n/d` or `x<hex>`) prints the model's result.
-/
open ImathVerif ImathVerif.BoxTransform

abbrev Q := Rat

def tmaxDouble : Q := mkRat ((2^53 - 1) * 2^971) 1
def tmaxFloat : Q := mkRat ((2^24 - 1) * 2^104) 1

def parseHex (s : String) : Nat :=
  s.foldl (fun a c =>
    let d := if c.isDigit then c.toNat - 48 else if 'a' ≤ c ∧ c ≤ 'f' then c.toNat - 87
             else if 'A' ≤ c ∧ c ≤ 'F' then c.toNat - 55 else 0
    a * 16 + d) 0

/-- exact value of a finite IEEE binary64 bit pattern -/
def doubleBitsToQ (u : Nat) : Q :=
  let sign : Nat := u / 2^63
  let e : Nat := (u / 2^52) % 2048
  let m : Nat := u % 2^52
  let mag : Q :=
    if e == 0 then mkRat m (2^1074)
    else if e ≥ 1075 then mkRat ((2^52 + m) * 2^(e - 1075)) 1
    else mkRat (2^52 + m) (2^(1075 - e))
  if sign == 1 then -mag else mag

def isFiniteBits (u : Nat) : Bool := (u / 2^52) % 2048 != 2047

def parseQ (s : String) : Q :=
  if s.startsWith "x" then doubleBitsToQ (parseHex ((s.drop 1).toString))
  else match s.splitOn "/" with
    | [a, b] => mkRat a.toInt! b.toNat!
    | _ => mkRat s.toInt! 1

def finiteTok (s : String) : Bool :=
  if s.startsWith "x" then isFiniteBits (parseHex ((s.drop 1).toString)) else true

def qStr (q : Q) : String := if q.den == 1 then s!"{q.num}" else s!"{q.num}/{q.den}"

def boxOf (a : Array Q) (o : Nat) : Box3 Q := ⟨⟨a[o]!, a[o+1]!, a[o+2]!⟩, ⟨a[o+3]!, a[o+4]!, a[o+5]!⟩⟩
def matOf (a : Array Q) (o : Nat) : M44 Q :=
  ⟨a[o]!, a[o+1]!, a[o+2]!, a[o+3]!, a[o+4]!, a[o+5]!, a[o+6]!, a[o+7]!,
   a[o+8]!, a[o+9]!, a[o+10]!, a[o+11]!, a[o+12]!, a[o+13]!, a[o+14]!, a[o+15]!⟩
def boxList (b : Box3 Q) : List Q := [b.min.x, b.min.y, b.min.z, b.max.x, b.max.y, b.max.z]
def boxStr (b : Box3 Q) : String := " ".intercalate ((boxList b).map qStr)

def runModel (ovl : Nat) (tmax : Q) (b : Box3 Q) (m : M44 Q) (r : Box3 Q) : Box3 Q :=
  match ovl with
  | 0 => transform tmax (-tmax) b m
  | 1 => transformOut tmax (-tmax) b m r
  | 2 => affineTransform tmax (-tmax) b m
  | _ => affineTransformOut tmax (-tmax) b m r

structure Stats where
  lines : Nat := 0
  compared : Nat := 0
  diffs : Nat := 0
  ovl : Array Nat := #[0, 0, 0, 0]
  empty : Nat := 0
  infinite : Nat := 0
  affine : Nat := 0
  projective : Nat := 0
  /-- exact, non-empty, non-infinite cases in which term i of the affine test is the ONLY failing term -/
  single : Array Nat := #[0, 0, 0, 0]

partial def loop (h : IO.FS.Stream) (out : IO.FS.Stream) (st : Stats) (ln : Nat) : IO Stats := do
  let line ← h.getLine
  if line.isEmpty then return st
  let ws := (line.trimAscii.toString.splitOn " ").filter (· ≠ "")
  if ws.length != 39 || ws[0]! != "T" then loop h out st (ln + 1)
  else
    let ovl := ws[1]!.toNat!
    let tmax := if ws[2]! == "f" then tmaxFloat else tmaxDouble
    let exact := ws[3]! == "1"
    let toks := (ws.drop 4).filter (· ≠ "|")
    let st := { st with lines := st.lines + 1 }
    if !exact || !(toks.all finiteTok) then loop h out st (ln + 1)
    else
      let a := (toks.map parseQ).toArray
      let b := boxOf a 0
      let m := matOf a 6
      let r := boxOf a 22
      let real := boxOf a 28
      let model := runModel ovl tmax b m r
      let eoi := emptyOrInfinite tmax (-tmax) b
      let terms := #[decide (m.x03 = 0), decide (m.x13 = 0), decide (m.x23 = 0), decide (m.x33 = 1)]
      let nfail := (terms.filter (! ·)).size
      let st := if !eoi && nfail == 1 then
          { st with single := (List.range 4).foldl (fun a i => if !terms[i]! then a.modify i (· + 1) else a) st.single }
        else st
      let st := { st with compared := st.compared + 1, ovl := st.ovl.modify ovl (· + 1),
                          empty := st.empty + (if Gen.Box3.isEmpty b then 1 else 0),
                          infinite := st.infinite + (if Gen.Box3.isInfinite tmax (-tmax) b then 1 else 0),
                          affine := st.affine + (if !eoi && isAffine m then 1 else 0),
                          projective := st.projective + (if !eoi && !isAffine m then 1 else 0) }
      if boxList model == boxList real then loop h out st (ln + 1)
      else
        let matStr := " ".intercalate (((ws.drop 10).take 16).map (fun t => qStr (parseQ t)))
        if st.diffs < 20 then
          out.putStrLn s!"DIFF {ln} ovl={ovl} ty={ws[2]!} box={boxStr b} m(row-major)={matStr} old={boxStr r} model={boxStr model} real={boxStr real} line={line.trimAscii.toString}"
        loop h out { st with diffs := st.diffs + 1 } (ln + 1)

def main (args : List String) : IO Unit := do
  let out ← IO.getStdout
  match args with
  | "case" :: ovl :: ty :: vs =>
    let a := (vs.map parseQ).toArray
    if a.size != 28 then IO.eprintln "case: need overload, d|f and 28 numbers (box 6, matrix 16, old result 6)"
    else
      let tmax := if ty == "f" then tmaxFloat else tmaxDouble
      out.putStrLn s!"M {boxStr (runModel ovl.toNat! tmax (boxOf a 0) (matOf a 6) (boxOf a 22))}"
  | _ =>
    let h ← IO.getStdin
    let st ← loop h out {} 1
    out.putStrLn s!"MODEL lines={st.lines} compared={st.compared} diffs={st.diffs} ovl0={st.ovl[0]!} ovl1={st.ovl[1]!} ovl2={st.ovl[2]!} ovl3={st.ovl[3]!} empty={st.empty} infinite={st.infinite} affine={st.affine} projective={st.projective} single0={st.single[0]!} single1={st.single[1]!} single2={st.single[2]!} single3={st.single[3]!}"
