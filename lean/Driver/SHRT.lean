import ImathVerif.Model.SHRT
import ImathVerif.Model.Jacobi
/-!
Line-protocol driver for C12: evaluates the hand models `Model/SHRT.lean` and `Model/Jacobi.lean` at `Float`
(IEEE binary64, same operation order as the C++ ⇒ bit-for-bit comparison with the real code,
harness/corr/c12_corr.cpp).  Reads one case per line on stdin, prints one result line per case.

  ear33 <9 hex>                 2-D extractAndRemoveScalingAndShear   -> `1 <9 m> <2 scl> <1 shr>` | `0`
  ear44 <16 hex>                3-D                                   -> `1 <16 m> <3 scl> <3 shr>` | `0`
  len2 <2 hex> / len3 <3 hex>   Vec2/Vec3::length                     -> `<hex>`
  jstep3 j k <tol> <27 hex>     ONE twoSidedJacobiRotation on (A,U,V) -> `<changed> <27 hex>`
  jstep4 j k <tol> <48 hex>
  estep3 j k <tol> <9 A><9 V><3 Z>   ONE jacobiRotation (eigen solver) -> `<changed> <21 hex>`
  estep4 j k <tol> <16 A><16 V><4 Z>
  svd3 <force> <tol> <9 hex>    whole jacobiSVD 3×3 (driver-level loop around the modelled step + post-passes) -> `<9 U><3 S><9 V>`
  svd4 <force> <tol> <16 hex>
  eig3 <tol> <9 hex> / eig4     whole jacobiEigenSolver               -> `<A><S><V>`
  idx <n> <n hex>               maxEigenVector / minEigenVector index  -> `<max> <min>`
Numbers are 16 hex digits of the bit pattern; NaN prints as `nan`.

A line that starts with the word `f32` is evaluated at `Float32` (IEEE binary32; numbers are 8 hex digits): the SAME generic
model definitions instantiated at the other element type, compared with the `float` instantiations of the real code
(harness/corr/c12_corr.cpp compiled with -DC12_FLOAT).  Everything below is generic in the element type `F`; the two
instantiations are `fmt64` / `fmt32`.
-/
open ImathVerif ImathVerif.SHRT ImathVerif.Jacobi

/-- what distinguishes the two element types: text format, square root, `numeric_limits<T>::max ()` / `min ()` -/
structure Fmt (F : Type) where
  pf : String → F
  fstr : F → String
  sqrt : F → F
  tmax : F
  tmin : F

def hexDigit (n : Nat) : Char := if n < 10 then Char.ofNat (48 + n) else Char.ofNat (87 + n)
def hex64 (u : UInt64) : String :=
  String.mk ((List.range 16).map fun i => hexDigit ((u.toNat >>> (4 * (15 - i))) % 16))
def hex32 (u : UInt32) : String :=
  String.mk ((List.range 8).map fun i => hexDigit ((u.toNat >>> (4 * (7 - i))) % 16))
def parseHex (s : String) : UInt64 :=
  s.foldl (fun acc c =>
    let d := if c.toNat ≥ 97 then c.toNat - 87 else if c.toNat ≥ 65 then c.toNat - 55 else c.toNat - 48
    acc * 16 + UInt64.ofNat d) 0
def fmt64 : Fmt Float :=
  ⟨fun s => Float.ofBits (parseHex s), fun x => if x != x then "nan" else hex64 x.toBits, Float.sqrt,
   Float.ofBits 0x7fefffffffffffff, Float.ofBits 0x0010000000000000⟩
def fmt32 : Fmt Float32 :=
  ⟨fun s => Float32.ofBits (parseHex s).toUInt32, fun x => if x != x then "nan" else hex32 x.toBits, Float32.sqrt,
   Float32.ofBits 0x7f7fffff, Float32.ofBits 0x00800000⟩

section generic
variable {F : Type} [Add F] [Sub F] [Mul F] [Div F] [Neg F] [LT F] [LE F] [DecidableLT F] [DecidableLE F] [BEq F]
  [OfNat F 0] [OfNat F 1] [OfNat F 2] [Inhabited F]

def strs (fm : Fmt F) (xs : List F) : String := " ".intercalate (xs.map fm.fstr)

def m33L (m : M33 F) : List F := [m.x00, m.x01, m.x02, m.x10, m.x11, m.x12, m.x20, m.x21, m.x22]
def m44L (m : M44 F) : List F :=
  [m.x00, m.x01, m.x02, m.x03, m.x10, m.x11, m.x12, m.x13, m.x20, m.x21, m.x22, m.x23, m.x30, m.x31, m.x32, m.x33]
def m33Of (a : Array F) (o : Nat) : M33 F :=
  ⟨a[o]!, a[o+1]!, a[o+2]!, a[o+3]!, a[o+4]!, a[o+5]!, a[o+6]!, a[o+7]!, a[o+8]!⟩
def m44Of (a : Array F) (o : Nat) : M44 F :=
  ⟨a[o]!, a[o+1]!, a[o+2]!, a[o+3]!, a[o+4]!, a[o+5]!, a[o+6]!, a[o+7]!, a[o+8]!, a[o+9]!, a[o+10]!, a[o+11]!,
   a[o+12]!, a[o+13]!, a[o+14]!, a[o+15]!⟩

/-- materialise a function matrix into an array (so that closures do not pile up between steps; `noinline`
keeps the compiler from fusing the projections back into the closure) -/
@[noinline] def matArr (n : Nat) (f : Mat F) : Array F :=
  (Array.range (n * n)).map fun t => f (t / n) (t % n)
@[noinline] def vecArr (n : Nat) (f : Nat → F) : Array F := (Array.range n).map f
@[noinline] def matOfArr (n : Nat) (a : Array F) : Mat F := fun i j => if i < n ∧ j < n then a[n * i + j]! else 0
@[noinline] def vecOfArr (a : Array F) : Nat → F := fun i => a[i]!
def matL (n : Nat) (f : Mat F) : List F := if n == 3 then m33L (M33.ofFn f) else m44L (M44.ofFn f)
def vecL (n : Nat) (f : Nat → F) : List F := (List.range n).map f
def ident : Mat F := fun i j => if i = j then 1 else 0

def pairs (n : Nat) : List (Nat × Nat) :=
  if n == 3 then [(0, 1), (0, 2), (1, 2)] else [(0, 1), (0, 2), (0, 3), (1, 2), (1, 3), (2, 3)]

/-- `maxOffDiag`: `result = std::max (result, std::abs (A[i][j]))` over i ≠ j, row-major -/
def maxOffDiag (n : Nat) (A : Mat F) : F :=
  (List.range n).foldl (fun r i => (List.range n).foldl (fun r j => if i != j then smax r (sabs (A i j)) else r) r) 0
/-- `maxOffDiagSymm`: upper triangle only -/
def maxOffDiagSymm (n : Nat) (A : Mat F) : F :=
  (List.range n).foldl (fun r i => (List.range n).foldl (fun r j => if i < j then smax r (sabs (A i j)) else r) r) 0

def det3 (m : Mat F) : F :=
  m 0 0 * (m 1 1 * m 2 2 - m 1 2 * m 2 1) + m 0 1 * (m 1 2 * m 2 0 - m 1 0 * m 2 2) + m 0 2 * (m 1 0 * m 2 1 - m 1 1 * m 2 0)

/-- iteration state as DATA (arrays): a function-valued state would be re-evaluated at every access -/
structure SVDArr (F : Type) where
  A : Array F
  U : Array F
  V : Array F

/-- one sweep of twoSidedJacobiSVD; returns (changed, state) -/
def svdSweep (fm : Fmt F) (n : Nat) (tol : F) (st : SVDArr F) : Bool × SVDArr F :=
  (pairs n).foldl (fun (acc : Bool × SVDArr F) jk =>
    let r := twoSidedJacobiRotation tol fm.sqrt jk.1 jk.2
      ⟨matOfArr n acc.2.A, matOfArr n acc.2.U, matOfArr n acc.2.V⟩
    (r.1 || acc.1, ⟨matArr n r.2.A, matArr n r.2.U, matArr n r.2.V⟩)) (false, st)

/-- `do { sweep; if (!changed) break; } while (maxOffDiag (A) > absTol && numIter < maxIter)` -/
def svdLoop (fm : Fmt F) (n : Nat) (tol absTol : F) : Nat → Nat → SVDArr F → SVDArr F
  | 0, _, st => st
  | fuel + 1, numIter, st =>
    let numIter := numIter + 1
    let r := svdSweep fm n tol st
    if !r.1 then r.2
    else if absTol < maxOffDiag n (matOfArr n r.2.A) && numIter < 20 then svdLoop fm n tol absTol fuel numIter r.2 else r.2

/-- whole `twoSidedJacobiSVD`.  The determinants of `forcePositiveDeterminant` are inputs: the harness passes the values
`U.determinant ()`, `V.determinant ()` that the real code computes on the result of the run without the flag (the same
`U`, `V` at that point of the code), so that no second determinant routine has to be modelled here. -/
def svdFull (fm : Fmt F) (n : Nat) (force : Bool) (detU detV : F) (tol : F) (A : Mat F) : USV F :=
  let absTol := tol * maxOffDiag n A
  let st0 : SVDArr F := ⟨matArr n A, matArr n ident, matArr n ident⟩
  let st := if absTol != 0 then svdLoop fm n tol absTol 21 0 st0 else st0
  let t : USV F := ⟨matOfArr n st.U, vecOfArr (vecArr n fun i => matOfArr n st.A i i), matOfArr n st.V⟩
  let t := if n == 3 then post3 t else post4 t
  let t : USV F := ⟨matOfArr n (matArr n t.U), vecOfArr (vecArr n t.S), matOfArr n (matArr n t.V)⟩
  if force then forcePos (n - 1) detU detV t else t

structure EigArr (F : Type) where
  A : Array F
  S : Array F
  V : Array F

def eigSweep (fm : Fmt F) (n : Nat) (tol : F) (st : EigArr F) : Bool × Array F × Array F × Array F :=
  -- (changed, A, V, Z)
  (pairs n).foldl (fun (acc : Bool × Array F × Array F × Array F) jk =>
    let r := jacobiRotation tol fm.sqrt n jk.1 jk.2 ⟨matOfArr n acc.2.1, matOfArr n acc.2.2.1, vecOfArr acc.2.2.2⟩
    (r.1 || acc.1, matArr n r.2.A, matArr n r.2.V, vecArr n r.2.Z)) (false, st.A, st.V, vecArr n fun _ => 0)

/-- jacobiEigenSolver: state (A, S, V) -/
def eigLoop (fm : Fmt F) (n : Nat) (tol absTol : F) : Nat → Nat → EigArr F → EigArr F
  | 0, _, st => st
  | fuel + 1, numIter, st =>
    let numIter := numIter + 1
    let r := eigSweep fm n tol st
    -- for i: A[i][i] = S[i] += Z[i]
    let S' := vecArr n fun i => st.S[i]! + r.2.2.2[i]!
    let A' := matArr n fun i j => if i = j ∧ i < n then S'[i]! else matOfArr n r.2.1 i j
    let st' : EigArr F := ⟨A', S', r.2.2.1⟩
    if !r.1 then st'
    else if absTol < maxOffDiagSymm n (matOfArr n A') && numIter < 20 then eigLoop fm n tol absTol fuel numIter st' else st'

def eigFull (fm : Fmt F) (n : Nat) (tol : F) (A : Mat F) : EigArr F :=
  let st0 : EigArr F := ⟨matArr n A, vecArr n fun i => A i i, matArr n ident⟩
  let absTol := tol * maxOffDiagSymm n A
  if absTol != 0 then eigLoop fm n tol absTol 21 0 st0 else st0

def ear33Line (fm : Fmt F) (a : Array F) : String :=
  match ear33 fm.tmax (lengthV2 fm.tmin fm.tmax fm.sqrt) (m33Of a 0) with
  | none => "0"
  | some r => "1 " ++ strs fm (m33L r.m ++ [r.scl.x, r.scl.y, r.shr])
def ear44Line (fm : Fmt F) (a : Array F) : String :=
  match ear44 fm.tmax (lengthV3 fm.tmin fm.tmax fm.sqrt) (m44Of a 0) with
  | none => "0"
  | some r => "1 " ++ strs fm (m44L r.m ++ [r.scl.x, r.scl.y, r.scl.z, r.shr.x, r.shr.y, r.shr.z])

def bstr (b : Bool) : String := if b then "1" else "0"

def handle (fm : Fmt F) (ws : List String) : String :=
  match ws with
  | "ear33" :: rest => ear33Line fm (rest.map fm.pf).toArray
  | "ear44" :: rest => ear44Line fm (rest.map fm.pf).toArray
  | ["len2", x, y] => fm.fstr (lengthV2 fm.tmin fm.tmax fm.sqrt ⟨fm.pf x, fm.pf y⟩)
  | ["len3", x, y, z] => fm.fstr (lengthV3 fm.tmin fm.tmax fm.sqrt ⟨fm.pf x, fm.pf y, fm.pf z⟩)
  | "jstep3" :: j :: k :: tol :: rest =>
    let a := (rest.map fm.pf).toArray
    let r := twoSidedJacobiRotation (fm.pf tol) fm.sqrt j.toNat! k.toNat!
      ⟨M33.toFn (m33Of a 0), M33.toFn (m33Of a 9), M33.toFn (m33Of a 18)⟩
    bstr r.1 ++ " " ++ strs fm (matL 3 r.2.A ++ matL 3 r.2.U ++ matL 3 r.2.V)
  | "jstep4" :: j :: k :: tol :: rest =>
    let a := (rest.map fm.pf).toArray
    let r := twoSidedJacobiRotation (fm.pf tol) fm.sqrt j.toNat! k.toNat!
      ⟨M44.toFn (m44Of a 0), M44.toFn (m44Of a 16), M44.toFn (m44Of a 32)⟩
    bstr r.1 ++ " " ++ strs fm (matL 4 r.2.A ++ matL 4 r.2.U ++ matL 4 r.2.V)
  | "estep3" :: j :: k :: tol :: rest =>
    let a := (rest.map fm.pf).toArray
    let r := jacobiRotation (fm.pf tol) fm.sqrt 3 j.toNat! k.toNat!
      ⟨M33.toFn (m33Of a 0), M33.toFn (m33Of a 9), V3.toFn ⟨a[18]!, a[19]!, a[20]!⟩⟩
    bstr r.1 ++ " " ++ strs fm (matL 3 r.2.A ++ matL 3 r.2.V ++ vecL 3 r.2.Z)
  | "estep4" :: j :: k :: tol :: rest =>
    let a := (rest.map fm.pf).toArray
    let r := jacobiRotation (fm.pf tol) fm.sqrt 4 j.toNat! k.toNat!
      ⟨M44.toFn (m44Of a 0), M44.toFn (m44Of a 16), V4.toFn ⟨a[32]!, a[33]!, a[34]!, a[35]!⟩⟩
    bstr r.1 ++ " " ++ strs fm (matL 4 r.2.A ++ matL 4 r.2.V ++ vecL 4 r.2.Z)
  | "svd3" :: force :: su :: sv :: tol :: rest =>
    let a := (rest.map fm.pf).toArray
    let t := svdFull fm 3 (force == "1") (fm.pf su) (fm.pf sv) (fm.pf tol) (M33.toFn (m33Of a 0))
    strs fm (matL 3 t.U ++ vecL 3 t.S ++ matL 3 t.V)
  | "svd4" :: force :: su :: sv :: tol :: rest =>
    let a := (rest.map fm.pf).toArray
    let t := svdFull fm 4 (force == "1") (fm.pf su) (fm.pf sv) (fm.pf tol) (M44.toFn (m44Of a 0))
    strs fm (matL 4 t.U ++ vecL 4 t.S ++ matL 4 t.V)
  | "eig3" :: tol :: rest =>
    let a := (rest.map fm.pf).toArray
    let r := eigFull fm 3 (fm.pf tol) (M33.toFn (m33Of a 0))
    strs fm (r.A.toList ++ r.S.toList ++ r.V.toList)
  | "eig4" :: tol :: rest =>
    let a := (rest.map fm.pf).toArray
    let r := eigFull fm 4 (fm.pf tol) (M44.toFn (m44Of a 0))
    strs fm (r.A.toList ++ r.S.toList ++ r.V.toList)
  | "idx" :: n :: rest =>
    let a := (rest.map fm.pf).toArray
    let S : Nat → F := fun i => a[i]!
    s!"{maxIdx n.toNat! S} {minIdx n.toNat! S}"
  | _ => "?"

end generic

partial def loop (h : IO.FS.Stream) (out : IO.FS.Stream) : IO Unit := do
  let line ← h.getLine
  if line.isEmpty then return ()
  let ws := (line.trimRight.splitOn " ").filter (· ≠ "")
  match ws with
  | [] => pure ()
  | "f32" :: rest => out.putStrLn (handle fmt32 rest)
  | _ => out.putStrLn (handle fmt64 ws)
  loop h out

def main : IO Unit := do
  let stdin ← IO.getStdin
  let stdout ← IO.getStdout
  loop stdin stdout
