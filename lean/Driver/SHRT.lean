import ImathVerif.Model.SHRT
import ImathVerif.Model.Jacobi
/-!
Line-protocol driver for C12: evaluates the hand models `Model/SHRT.lean` and `Model/Jacobi.lean` at `Float`
(IEEE binary64, same operation order as the C++ ⇒ bit-for-bit comparison with the real code,
harness/corr/c12_corr.cpp).  Reads one case per line on stdin, prints one result line per case.

  ear33 <9 hex>                 2-D extractAndRemoveScalingAndShear   -> `1 <9 m> <2 scl> <1 shr>` | `0`
  ear44 <16 hex>                3-D                                   -> `1 <16 m> <3 scl> <3 shr>` | `0`
  len2 <2 hex> / len3 <3 hex>   Vec2/Vec3::length                     -> `<hex>`
  jstep3 j k <tol> <27 hex>     ONE twoSidedJacobiRotation on (A,U,V) -> `<changed> <27 hex>`
  jstep4 j k <tol> <48 hex>
  estep3 j k <tol> <9 A><9 V><3 Z>   ONE jacobiRotation (eigen solver) -> `<changed> <21 hex>`
  estep4 j k <tol> <16 A><16 V><4 Z>
  svd3 <force> <tol> <9 hex>    whole jacobiSVD 3×3 (driver-level loop around the modelled step + post-passes) -> `<9 U><3 S><9 V>`
  svd4 <force> <tol> <16 hex>
  eig3 <tol> <9 hex> / eig4     whole jacobiEigenSolver               -> `<A><S><V>`
  idx <n> <n hex>               maxEigenVector / minEigenVector index  -> `<max> <min>`
Numbers are 16 hex digits of the bit pattern; NaN prints as `nan`.

A line that starts with the word `f32` is evaluated at `Float32` (IEEE binary32; numbers are 8 hex digits): the SAME generic
model definitions instantiated at the other element type, compared with the `float` instantiations of the real code
(harness/corr/c12_corr.cpp compiled with -DC12_FLOAT).  Everything below is generic in the element type `F`; the two
instantiations are `fmt64` / `fmt32`.
-/
open ImathVerif ImathVerif.SHRT ImathVerif.Jacobi

/-- what distinguishes the two element types: text format, square root, `numeric_limits<T>::max ()` / `min ()` -/
structure Fmt (F : Type) where
  pf : String → F
  fstr : F → String
  sqrt : F → F
  tmax : F
  tmin : F

def hexDigit (n : Nat) : Char := if n < 10 then Char.ofNat (48 + n) else Char.ofNat (87 + n)
def hex64 (u : UInt64) : String :=
  String.mk ((List.range 16).map fun i => hexDigit ((u.toNat >>> (4 * (15 - i))) % 16))
def hex32 (u : UInt32) : String :=
  String.mk ((List.range 8).map fun i => hexDigit ((u.toNat >>> (4 * (7 - i))) % 16))
def parseHex (s : String) : UInt64 :=
  s.foldl (fun acc c =>
    let d := if c.toNat ≥ 97 then c.toNat - 87 else if c.toNat ≥ 65 then c.toNat - 55 else c.toNat - 48
    acc * 16 + UInt64.ofNat d) 0
def fmt64 : Fmt Float :=
  ⟨fun s => Float.ofBits (parseHex s), fun x => if x != x then "nan" else hex64 x.toBits, Float.sqrt,
   Float.ofBits 0x7fefffffffffffff, Float.ofBits 0x0010000000000000⟩
def fmt32 : Fmt Float32 :=
  ⟨fun s => Float32.ofBits (parseHex s).toUInt32, fun x => if x != x then "nan" else hex32 x.toBits, Float32.sqrt,
   Float32.ofBits 0x7f7fffff, Float32.ofBits 0x00800000⟩

section generic
variable {F : Type} [Add F] [Sub F] [Mul F] [Div F] [Neg F] [LT F] [LE F] [DecidableLT F] [DecidableLE F] [BEq F]
  [OfNat F 0] [OfNat F 1] [OfNat F 2] [Inhabited F]

def strs (fm : Fmt F) (xs : List F) : String := " ".intercalate (xs.map fm.fstr)

def m33L (m : M33 F) : List F := [m.x00, m.x01, m.x02, m.x10, m.x11, m.x12, m.x20, m.x21, m.x22]
def m44L (m : M44 F) : List F :=
  [m.x00, m.x01, m.x02, m.x03, m.x10, m.x11, m.x12, m.x13, m.x20, m.x21, m.x22, m.x23, m.x30, m.x31, m.x32, m.x33]
def m33Of (a : Array F) (o : Nat) : M33 F :=
  ⟨a[o]!, a[o+1]!, a[o+2]!, a[o+3]!, a[o+4]!, a[o+5]!, a[o+6]!, a[o+7]!, a[o+8]!⟩
def m44Of (a : Array F) (o : Nat) : M44 F :=
  ⟨a[o]!, a[o+1]!, a[o+2]!, a[o+3]!, a[o+4]!, a[o+5]!, a[o+6]!, a[o+7]!, a[o+8]!, a[o+9]!, a[o+10]!, a[o+11]!,
   a[o+12]!, a[o+13]!, a[o+14]!, a[o+15]!⟩

def matL (n : Nat) (f : Mat F) : List F := if n == 3 then m33L (M33.ofFn f) else m44L (M44.ofFn f)
def vecL (n : Nat) (f : Nat → F) : List F := (List.range n).map f

/-! The solver loops are NOT written here: `svdFull` / `eigFull` below are `Model/Jacobi.lean`'s definitions (section `loops`), the
ones the theorems of Lemmas/C12Loops.lean are about. -/

def ear33Line (fm : Fmt F) (a : Array F) : String :=
  match ear33 fm.tmax (lengthV2 fm.tmin fm.tmax fm.sqrt) (m33Of a 0) with
  | none => "0"
  | some r => "1 " ++ strs fm (m33L r.m ++ [r.scl.x, r.scl.y, r.shr])
def ear44Line (fm : Fmt F) (a : Array F) : String :=
  match ear44 fm.tmax (lengthV3 fm.tmin fm.tmax fm.sqrt) (m44Of a 0) with
  | none => "0"
  | some r => "1 " ++ strs fm (m44L r.m ++ [r.scl.x, r.scl.y, r.scl.z, r.shr.x, r.shr.y, r.shr.z])

def bstr (b : Bool) : String := if b then "1" else "0"

def handle (fm : Fmt F) (ws : List String) : String :=
  match ws with
  | "ear33" :: rest => ear33Line fm (rest.map fm.pf).toArray
  | "ear44" :: rest => ear44Line fm (rest.map fm.pf).toArray
  | ["len2", x, y] => fm.fstr (lengthV2 fm.tmin fm.tmax fm.sqrt ⟨fm.pf x, fm.pf y⟩)
  | ["len3", x, y, z] => fm.fstr (lengthV3 fm.tmin fm.tmax fm.sqrt ⟨fm.pf x, fm.pf y, fm.pf z⟩)
  | "jstep3" :: j :: k :: tol :: rest =>
    let a := (rest.map fm.pf).toArray
    let r := twoSidedJacobiRotation (fm.pf tol) fm.sqrt j.toNat! k.toNat!
      ⟨M33.toFn (m33Of a 0), M33.toFn (m33Of a 9), M33.toFn (m33Of a 18)⟩
    bstr r.1 ++ " " ++ strs fm (matL 3 r.2.A ++ matL 3 r.2.U ++ matL 3 r.2.V)
  | "jstep4" :: j :: k :: tol :: rest =>
    let a := (rest.map fm.pf).toArray
    let r := twoSidedJacobiRotation (fm.pf tol) fm.sqrt j.toNat! k.toNat!
      ⟨M44.toFn (m44Of a 0), M44.toFn (m44Of a 16), M44.toFn (m44Of a 32)⟩
    bstr r.1 ++ " " ++ strs fm (matL 4 r.2.A ++ matL 4 r.2.U ++ matL 4 r.2.V)
  | "estep3" :: j :: k :: tol :: rest =>
    let a := (rest.map fm.pf).toArray
    let r := jacobiRotation (fm.pf tol) fm.sqrt 3 j.toNat! k.toNat!
      ⟨M33.toFn (m33Of a 0), M33.toFn (m33Of a 9), V3.toFn ⟨a[18]!, a[19]!, a[20]!⟩⟩
    bstr r.1 ++ " " ++ strs fm (matL 3 r.2.A ++ matL 3 r.2.V ++ vecL 3 r.2.Z)
  | "estep4" :: j :: k :: tol :: rest =>
    let a := (rest.map fm.pf).toArray
    let r := jacobiRotation (fm.pf tol) fm.sqrt 4 j.toNat! k.toNat!
      ⟨M44.toFn (m44Of a 0), M44.toFn (m44Of a 16), V4.toFn ⟨a[32]!, a[33]!, a[34]!, a[35]!⟩⟩
    bstr r.1 ++ " " ++ strs fm (matL 4 r.2.A ++ matL 4 r.2.V ++ vecL 4 r.2.Z)
  | "svd3" :: force :: su :: sv :: tol :: rest =>
    let a := (rest.map fm.pf).toArray
    let t := svdFull 3 (force == "1") (fm.pf su) (fm.pf sv) (fm.pf tol) fm.sqrt (M33.toFn (m33Of a 0))
    strs fm (matL 3 t.U ++ vecL 3 t.S ++ matL 3 t.V)
  | "svd4" :: force :: su :: sv :: tol :: rest =>
    let a := (rest.map fm.pf).toArray
    let t := svdFull 4 (force == "1") (fm.pf su) (fm.pf sv) (fm.pf tol) fm.sqrt (M44.toFn (m44Of a 0))
    strs fm (matL 4 t.U ++ vecL 4 t.S ++ matL 4 t.V)
  | "eig3" :: tol :: rest =>
    let a := (rest.map fm.pf).toArray
    let r := eigFull 3 (fm.pf tol) fm.sqrt (M33.toFn (m33Of a 0))
    strs fm (matL 3 r.A ++ vecL 3 r.S ++ matL 3 r.V)
  | "eig4" :: tol :: rest =>
    let a := (rest.map fm.pf).toArray
    let r := eigFull 4 (fm.pf tol) fm.sqrt (M44.toFn (m44Of a 0))
    strs fm (matL 4 r.A ++ vecL 4 r.S ++ matL 4 r.V)
  | "idx" :: n :: rest =>
    let a := (rest.map fm.pf).toArray
    let S : Nat → F := fun i => a[i]!
    s!"{maxIdx n.toNat! S} {minIdx n.toNat! S}"
  | _ => "?"

end generic

partial def loop (h : IO.FS.Stream) (out : IO.FS.Stream) : IO Unit := do
  let line ← h.getLine
  if line.isEmpty then return ()
  let ws := (line.trimRight.splitOn " ").filter (· ≠ "")
  match ws with
  | [] => pure ()
  | "f32" :: rest => out.putStrLn (handle fmt32 rest)
  | _ => out.putStrLn (handle fmt64 ws)
  loop h out

def main : IO Unit := do
  let stdin ← IO.getStdin
  let stdout ← IO.getStdout
  loop stdin stdout
