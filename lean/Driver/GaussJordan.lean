import ImathVerif.Model.GaussJordan
/-!
Line-protocol driver for C06 (Gauss-Jordan inversion, H-route).  Core Lean only.

stdin: one case per line   `<tag> <3|4> <d|f> <n*n hex bit patterns, row-major>`
stdout: one line per case  `<tag> <n><ty> exc=<ok|invalidArgument> <n*n hex bit patterns of M.gjInverse(), NaN as `nan`> qeq=<1|0|x> exit=<f<i>|b<i>|-> swap=<stages|->`

The model (`ImathVerif.M33.gjInverse`, `M44.gjInverse`, and the throwing `…Exc` forms — the very
definitions the theorems are about) is evaluated at `Float` (binary64) or `Float32`; Lean's float
operations compile to the same SSE2 instructions as the C++ built with `-O1 -ffp-contract=off`, and the
model keeps the operand order of the code, so the lines must agree with the real code BIT FOR BIT.
`qeq=1` says that the same model evaluated in exact rational arithmetic (`Rat`) on the exact values of
the inputs gives exactly the values of the floating-point result (and the same singular/regular
outcome), i.e. no operation rounded; `x` = some input is not finite.
`exit=` names the loop iteration at which the floating-point run of the model left through a zero pivot
(`f<i>`: forward stage `i`, `b<i>`: backward stage `i`, `-`: none) and `swap=` the forward stages at which
rows were exchanged (generator-reach accounting in tools/props/c06.py; the run is bit-identical to the real code).
For tags beginning with `x` or `y` (the exhaustive small-integer 3×3 families) a field
` rat=<ok|invalidArgument>:<n*n reduced fractions>` follows: the model evaluated over `Rat`, compared by the check with
`det⁻¹ • adjugate` computed in exact integers by the harness.
-/
open ImathVerif

def parseHex (s : String) : Nat :=
  s.foldl (fun a c =>
    let d := if c.isDigit then c.toNat - 48 else if 'a' ≤ c ∧ c ≤ 'f' then c.toNat - 87
             else if 'A' ≤ c ∧ c ≤ 'F' then c.toNat - 55 else 0
    a * 16 + d) 0

def hexDigits (n : Nat) (width : Nat) : String :=
  let ds := (Nat.toDigits 16 n)
  String.ofList (List.replicate (width - ds.length) '0' ++ ds)

/-- exact value of a finite IEEE bit pattern with `eb` exponent bits and `mb` mantissa bits -/
def bitsToQ (eb mb : Nat) (u : Nat) : Option Rat :=
  let sign := u / 2 ^ (eb + mb)
  let e := (u / 2 ^ mb) % 2 ^ eb
  let m := u % 2 ^ mb
  let bias := 2 ^ (eb - 1) - 1
  if e == 2 ^ eb - 1 then none
  else
    let mag : Rat :=
      if e == 0 then mkRat m (2 ^ (bias - 1 + mb))
      else if e ≥ bias + mb then mkRat ((2 ^ mb + m) * 2 ^ (e - bias - mb)) 1
      else mkRat (2 ^ mb + m) (2 ^ (bias + mb - e))
    some (if sign == 1 then -mag else mag)

def m33OfArr {α : Type} [Inhabited α] (a : Array α) : M33 α :=
  ⟨a[0]!, a[1]!, a[2]!, a[3]!, a[4]!, a[5]!, a[6]!, a[7]!, a[8]!⟩
def m33ToArr {α : Type} (m : M33 α) : Array α :=
  #[m.x00, m.x01, m.x02, m.x10, m.x11, m.x12, m.x20, m.x21, m.x22]
def m44OfArr {α : Type} [Inhabited α] (a : Array α) : M44 α :=
  ⟨a[0]!, a[1]!, a[2]!, a[3]!, a[4]!, a[5]!, a[6]!, a[7]!, a[8]!, a[9]!, a[10]!, a[11]!, a[12]!, a[13]!, a[14]!, a[15]!⟩
def m44ToArr {α : Type} (m : M44 α) : Array α :=
  #[m.x00, m.x01, m.x02, m.x03, m.x10, m.x11, m.x12, m.x13, m.x20, m.x21, m.x22, m.x23, m.x30, m.x31, m.x32, m.x33]

/-- where the run leaves through a zero pivot, and the forward stages with a row exchange (same `forwardStep` /
`backwardStep` / `pivotSearch` as `gjCore`) -/
def gjTrace {α : Type} [Sub α] [Mul α] [Div α] [Neg α] [LT α] [DecidableLT α] [BEq α] [OfNat α 0] [OfNat α 1]
    {n : Nat} (m : GJ.Mat n α) : String :=
  let fw := (GJ.fwdIdx n).foldl
    (fun (acc : Option (GJ.Mat n α × GJ.Mat n α) × String × String) i =>
      match acc.1 with
      | none => acc
      | some st =>
        match GJ.forwardStep st i with
        | none => (none, s!"f{i.val}", acc.2.2)
        | some st' => (some st', acc.2.1, if (GJ.pivotSearch st.2 i).1 = i then acc.2.2 else acc.2.2 ++ toString i.val))
    (some (GJ.Mat.identity, m), "-", "")
  let bw := (GJ.bwdIdx n).foldl
    (fun (acc : Option (GJ.Mat n α × GJ.Mat n α) × String) i =>
      match acc.1 with
      | none => acc
      | some st =>
        match GJ.backwardStep st i with
        | none => (none, s!"b{i.val}")
        | some st' => (some st', acc.2))
    (fw.1, fw.2.1)
  s!"exit={bw.2} swap={if fw.2.2 == "" then "-" else fw.2.2}"

def traceAt {α : Type} [Inhabited α] [Sub α] [Mul α] [Div α] [Neg α] [LT α] [DecidableLT α] [BEq α] [OfNat α 0] [OfNat α 1]
    (n : Nat) (a : Array α) : String :=
  if n == 3 then gjTrace (m33OfArr a).toGJ else gjTrace (m44OfArr a).toGJ

/-- run the model at scalar `α`: (throwing form is `.ok`, values of the non-throwing form) -/
def runAt {α : Type} [Inhabited α] [Sub α] [Mul α] [Div α] [Neg α] [LT α] [DecidableLT α] [BEq α] [OfNat α 0] [OfNat α 1]
    (n : Nat) (a : Array α) : Bool × Array α :=
  if n == 3 then
    let m := m33OfArr a
    ((match m.gjInverseExc with | .ok _ => true | .error _ => false), m33ToArr m.gjInverse)
  else
    let m := m44OfArr a
    ((match m.gjInverseExc with | .ok _ => true | .error _ => false), m44ToArr m.gjInverse)

instance : Inhabited Rat := ⟨0⟩

def allSome {β : Type} (a : Array (Option β)) : Option (Array β) :=
  a.foldl (fun acc x => match acc, x with | some r, some v => some (r.push v) | _, _ => none) (some #[])

def processLine (line : String) : Option String :=
  let ws := (((line.replace "\n" "").replace "\r" "").splitOn " ").filter (· ≠ "")
  match ws with
  | tag :: ns :: ty :: hs =>
    let n := ns.toNat!
    if hs.length != n * n then some s!"{tag} bad-arity" else
    let bits := (hs.map parseHex).toArray
    let (okF, outHex, outQ, tr) : Bool × Array String × Array (Option Rat) × String :=
      if ty == "d" then
        let fa := bits.map fun b => Float.ofBits b.toUInt64
        let (ok, r) := runAt n fa
        (ok, r.map (fun x => if x.isNaN then "nan" else hexDigits x.toBits.toNat 16), r.map (fun x => bitsToQ 11 52 x.toBits.toNat), traceAt n fa)
      else
        let fa := bits.map fun b => Float32.ofBits b.toUInt32
        let (ok, r) := runAt n fa
        (ok, r.map (fun x => if x.isNaN then "nan" else hexDigits x.toBits.toNat 8), r.map (fun x => bitsToQ 8 23 x.toBits.toNat), traceAt n fa)
    let inQ := allSome (bits.map fun b => if ty == "d" then bitsToQ 11 52 b else bitsToQ 8 23 b)
    let (qeq, rat) : String × String :=
      match inQ with
      | none => ("x", "-")
      | some q =>
        let (okQ, rQ) := runAt n q
        (match allSome outQ with
         | none => "0"
         | some fq => if okQ == okF && rQ == fq then "1" else "0",
         s!"{if okQ then "ok" else "invalidArgument"}:{",".intercalate (rQ.toList.map toString)}")
    -- exhaustive small-integer families (tags x…, y…): also print the result of the model in exact rational arithmetic
    let ratOut := if tag.startsWith "x" || tag.startsWith "y" then s!" rat={rat}" else ""
    some s!"{tag} {n}{ty} exc={if okF then "ok" else "invalidArgument"} {" ".intercalate outHex.toList} qeq={qeq} {tr}{ratOut}"
  | _ => none

partial def loop (h : IO.FS.Stream) (out : IO.FS.Stream) : IO Unit := do
  let line ← h.getLine
  if line.isEmpty then return
  match processLine line with
  | some s => out.putStrLn s
  | none => pure ()
  loop h out

def main (_ : List String) : IO Unit := do
  let h ← IO.getStdin
  let out ← IO.getStdout
  loop h out
