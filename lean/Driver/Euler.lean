import ImathVerif.Model.EulerOrder
import ImathVerif.Gen.EulerOrder
/-!
Line-protocol driver for the C11 hand models (Model/EulerOrder.lean).

  drv_euler order <lo> <hi>
      one line per bit pattern p in [lo,hi):
      `p legal order(setOrder p) frameStatic initialRepeated parityEven initialAxis i j k mi mj mk`
      (the same line harness/corr/c11_corr.cpp prints from the real code)
  drv_euler anglemod          (stdin)
      lines `<d|f> <x bits> <pi bits> <result float bits>` (hex): x and pi = static_cast<T> (M_PI)
      as bit patterns of T (d = double, f = float), result = bits of the `float` the real
      `Euler<T>::angleMod (x)` returned.  The model is evaluated in exact rational arithmetic;
      output `OK <branch>` when |model − result| ≤ 2^-22 (one single-precision ulp at π:
      "to single precision"), the result is within 2^-22 of [−π_T, π_T] and the difference
      model − x is an exact integer multiple of 2·π_T; `BAD …` otherwise.
-/
open ImathVerif.Model.Euler

def parseHex (s : String) : Nat :=
  s.foldl (fun a c =>
    let d := if c.isDigit then c.toNat - 48 else if 'a' ≤ c ∧ c ≤ 'f' then c.toNat - 87
             else if 'A' ≤ c ∧ c ≤ 'F' then c.toNat - 55 else 0
    a * 16 + d) 0

def b2n (b : Bool) : Nat := if b then 1 else 0

/-- value of a finite IEEE pattern with `eb` exponent bits and `mb` mantissa bits -/
def ieeeVal (eb mb : Nat) (u : Nat) : Option Rat :=
  let sign := u / 2 ^ (eb + mb) % 2
  let e := u / 2 ^ mb % 2 ^ eb
  let m := u % 2 ^ mb
  let bias : Int := 2 ^ (eb - 1) - 1
  if e = 2 ^ eb - 1 then none else
  let mag : Rat :=
    if e = 0 then (m : Rat) * pow2 (1 - bias - mb)
    else ((2 ^ mb + m : Nat) : Rat) * pow2 ((e : Int) - bias - mb)
  some (if sign = 1 then -mag else mag)
where
  pow2 (k : Int) : Rat := if k ≥ 0 then ((2 ^ k.toNat : Nat) : Rat) else 1 / ((2 ^ (-k).toNat : Nat) : Rat)

def f64Val := ieeeVal 11 52
def f32Val := ieeeVal 8 23

def rabs (q : Rat) : Rat := if q < 0 then -q else q

def orderLine (p : Nat) : String :=
  let e := setOrder p
  let (i, j, k) := angleOrder e
  let (mi, mj, mk) := angleMapping e
  s!"{p} {b2n (legal ImathVerif.Gen.EulerOrder.Legal p)} {order e} {b2n e.frameStatic} {b2n e.initialRepeated} {b2n e.parityEven} {e.initialAxis} {i} {j} {k} {mi} {mj} {mk}"

def angleModLine (l : String) : String :=
  match l.splitOn " " with
  | [ty, xs, ps, rs] =>
    let dec := if ty = "d" then f64Val else f32Val
    match dec (parseHex xs), dec (parseHex ps), f32Val (parseHex rs) with
    | some x, some pi, some r =>
      let m := angleMod (α := Rat) ratTrunc pi x
      let tol : Rat := 1 / 4194304
      let fm := fmod (α := Rat) ratTrunc x (2 * pi)
      let branch := if fm < -pi then 1 else if pi < fm then 2 else 0
      let kq := (m - x) / (2 * pi)
      let congr : Bool := kq.den == 1
      let inRange : Bool := decide (-pi ≤ m ∧ m ≤ pi)
      let near : Bool := decide (rabs (m - r) ≤ tol)
      let rRange : Bool := decide (-pi - tol ≤ r ∧ r ≤ pi + tol)
      if congr && inRange && near && rRange then s!"OK {branch}"
      else s!"BAD congr={congr} inRange={inRange} near={near} rRange={rRange} branch={branch}"
    | _, _, _ => "SKIP nonfinite"
  | _ => "SKIP parse"

partial def loop (h : IO.FS.Stream) (out : IO.FS.Stream) : IO Unit := do
  let l ← h.getLine
  if l.isEmpty then return
  let l := (l.replace "\n" "").replace "\r" ""
  if !l.isEmpty then out.putStrLn (angleModLine l)
  loop h out

def main (args : List String) : IO Unit := do
  let out ← IO.getStdout
  match args with
  | ["order", lo, hi] =>
    let lo := lo.toNat!
    let hi := hi.toNat!
    let mut buf := ""
    for p in [lo:hi] do
      buf := buf ++ orderLine p ++ "\n"
      if buf.length > 60000 then
        out.putStr buf
        buf := ""
    out.putStr buf
  | ["anglemod"] =>
    let inp ← IO.getStdin
    loop inp out
  | _ => IO.eprintln "usage: drv_euler order <lo> <hi> | anglemod"
