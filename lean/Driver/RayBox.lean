import ImathVerif.Model.RayBox
import ImathVerif.Model.RayBoxOracle
/-!
Line-protocol driver for C14 (ray/line vs. box).  Core `Rat` only.

It evaluates (a) the MODEL (`Model/RayBox.lean`, the transcription of the C++)
and (b) the SPEC, an independent oracle (`Model/RayBoxOracle.lean`, proved correct in
`Props/C14.lean`): per axis the exact parameter interval of the slab, intersected
over the three axes (and with `t ≥ 0` for the ray), from which hit/miss and the
entry/exit/first-contact points are read off.  The oracle shares no code with the model.

  lattice <pairs> <ox> <oy> <oz> <sh> [<lo> <hi>]
        boxes = pairs^3 (pairs "a:b,c:d,.." = per-axis (min,max)), origins in
        [-2,2]^3, directions in [-2,2]^3 \ {0}; box and origin are translated by
        (ox,oy,oz) and scaled by 2^sh (exact in binary floating point).
        One line per box: `<box> <fullModel> <specOracle> <nFeHit> <nIsHit> <nModelVsSpec> <tieModel>`
        (tie = what the property specifies: booleans always, points only when the result is true)
  lines <pairs> <ox> <oy> <oz> <sh> <box>     per-case text of one box (model and spec)
  case  <T> <12 numbers>                         one case; numbers are `n/d`, `n` or `x<16 hex digits of a double>`
  sweep                                       float guard sweep oracle + model@Float tie, blocks read from stdin (see below)
  fcases <d|f>                                model executed at Float / Float32 on cases read from stdin
                                              (one per line: 12 `x<hex double bits>`: box min, box max, pos, dir)
  small <T> <boxes> <posvals> <dirvals>       guard lattice at a SMALL `T` (all 18 guard-fail arms reached exactly, see below)
  smalllines <T> <boxes> <posvals> <dirvals> <blk>   per-case text of one block
  nd <boxes> <R> <ox> <oy> <oz>               non-dyadic direction lattice, model at Float/Float32 bit for bit (see below)
  ndlines <boxes> <R> <ox> <oy> <oz> <blk> <d|f>   per-case text of one block
-/
open ImathVerif.RayBox

abbrev Q := Rat

def tmaxDouble : Q := mkRat ((2^53 - 1) * 2^971) 1
def tmaxFloat : Q := mkRat ((2^24 - 1) * 2^104) 1

def sentinelE : V3 Q := ⟨1001, 1002, 1003⟩
def sentinelX : V3 Q := ⟨2001, 2002, 2003⟩
def sentinelI : V3 Q := ⟨3001, 3002, 3003⟩

/-! ## The oracle (independent of the model)

`Ival`, `slab`, `Ival.inter`, `oInter`, `lineIval`, `rayIval`, `oracleLine`, `oracleRay`, `ptAt`, `SpecOut`, `spec`
are the generic definitions of `Model/RayBoxOracle.lean`, executed here at `Rat`.  They are PROVED correct in
`Props/C14.lean` (`oracleLine_iff`, `oracleRay_iff`, `spec_entry`, `spec_exit`, `spec_ip`). -/

/-! ## Hashing / printing -/

@[inline] def mix (h : UInt64) (v : UInt64) : UInt64 := (h ^^^ v) * 1099511628211

@[inline] def mixQ (h : UInt64) (q : Q) : UInt64 :=
  mix (mix h q.num.toInt64.toUInt64) q.den.toUInt64

@[inline] def mixV (h : UInt64) (v : V3 Q) : UInt64 := mixQ (mixQ (mixQ h v.x) v.y) v.z

@[inline] def mixB (h : UInt64) (b : Bool) : UInt64 := mix h (if b then 1 else 0)

structure ModelOut where
  feHit : Bool
  entry : V3 Q
  exit : V3 Q
  isHit : Bool
  ip : V3 Q
  isBool : Bool

def runModel (T : Q) (r : Line3 Q) (b : Box3 Q) : ModelOut :=
  let fe := findEntryAndExitPoints T r b sentinelE sentinelX
  let is := intersects T b r sentinelI
  ⟨fe.1, fe.2.1, fe.2.2, is.1, is.2, intersectsBool T b r sentinelI⟩

def fullHash (h : UInt64) (m : ModelOut) : UInt64 :=
  mixB (mixV (mixB (mixV (mixV (mixB h m.feHit) m.entry) m.exit) m.isHit) m.ip) m.isBool

/-- hash of what the SPEC determines: the two booleans and, where defined, the points -/
def specHashOf (h : UInt64) (feHit : Bool) (en ex : Option (V3 Q)) (isHit : Bool) (ip : Option (V3 Q)) : UInt64 :=
  let h := mixB h feHit
  let h := match en with | some v => mixV h v | none => h
  let h := match ex with | some v => mixV h v | none => h
  let h := mixB h isHit
  match ip with | some v => mixV h v | none => h

def specHash (h : UInt64) (s : SpecOut Q) : UInt64 := specHashOf h s.feHit s.entry s.exit s.isHit s.ip

/-- the model's outputs restricted to what the spec determines (points only when hit; on the lattice dir ≠ 0) -/
def modelSpecHash (h : UInt64) (m : ModelOut) : UInt64 :=
  specHashOf h m.feHit (if m.feHit then some m.entry else none) (if m.feHit then some m.exit else none)
    m.isHit (if m.isHit then some m.ip else none)

/-- number of trailing zero bits (n > 0) -/
partial def tz (n : Nat) (k : Nat := 0) : Nat := if n == 0 || n % 2 == 1 then k else tz (n / 2) (k + 1)

/-- `num/den`; dyadic values with long digit strings (denormal / huge floats) as `m*2^e` -/
def qStr (q : Q) : String :=
  if q.num.natAbs < 10^15 && q.den < 10^15 then s!"{q.num}/{q.den}"
  else if q.den == 1 then
    let k := tz q.num.natAbs
    s!"{q.num / (2^k : Nat)}*2^{k}"
  else if q.den == 2 ^ (tz q.den) then s!"{q.num}*2^-{tz q.den}"
  else s!"{q.num}/{q.den}"
def vStr (v : V3 Q) : String := s!"{qStr v.x},{qStr v.y},{qStr v.z}"
def oStr (v : Option (V3 Q)) : String := match v with | some v => vStr v | none => "-"
def bStr (b : Bool) : String := if b then "1" else "0"

def modelLine (m : ModelOut) : String :=
  s!"fe={bStr m.feHit} entry={vStr m.entry} exit={vStr m.exit} is={bStr m.isHit} ip={vStr m.ip} isb={bStr m.isBool}"

def specLine (s : SpecOut Q) : String :=
  s!"fe={bStr s.feHit} entry={oStr s.entry} exit={oStr s.exit} is={bStr s.isHit} ip={oStr s.ip}"

/-! ## Lattice -/

def parsePairs (s : String) : Array (Int × Int) :=
  (s.splitOn ",").toArray.map fun p =>
    match p.splitOn ":" with
    | [a, b] => (a.toInt!, b.toInt!)
    | _ => (0, 0)

structure Lat where
  pairs : Array (Int × Int)
  ox : Int
  oy : Int
  oz : Int
  sh : Int

def Lat.sc (L : Lat) (v : Int) (o : Int) : Q :=
  let w := v + o
  if L.sh ≥ 0 then mkRat (w * 2 ^ L.sh.toNat) 1 else mkRat w (2 ^ (-L.sh).toNat)

def Lat.box (L : Lat) (bi : Nat) : Box3 Q :=
  let n := L.pairs.size
  let px := L.pairs[bi / (n * n)]!
  let py := L.pairs[(bi / n) % n]!
  let pz := L.pairs[bi % n]!
  ⟨⟨L.sc px.1 L.ox, L.sc py.1 L.oy, L.sc pz.1 L.oz⟩, ⟨L.sc px.2 L.ox, L.sc py.2 L.oy, L.sc pz.2 L.oz⟩⟩

/-- case `ci` of a box: origin index (125) × direction index (125, the zero direction skipped by the caller) -/
def Lat.ray (L : Lat) (ci : Nat) : Line3 Q :=
  let pi := ci / 125
  let di := ci % 125
  let c (k : Nat) : Int := (Int.ofNat k) - 2
  ⟨⟨L.sc (c (pi / 25)) L.ox, L.sc (c ((pi / 5) % 5)) L.oy, L.sc (c (pi % 5)) L.oz⟩,
   ⟨mkRat (c (di / 25)) 1, mkRat (c ((di / 5) % 5)) 1, mkRat (c (di % 5)) 1⟩⟩

def zeroDir (ci : Nat) : Bool := ci % 125 == 62

structure BoxSummary where
  full : UInt64
  spec : UInt64
  nFe : Nat
  nIs : Nat
  nDiff : Nat
  tie : UInt64
deriving Inhabited

def Lat.runBox (L : Lat) (T : Q) (bi : Nat) : BoxSummary := Id.run do
  let b := L.box bi
  let mut hf : UInt64 := 1469598103934665603
  let mut hs : UInt64 := 1469598103934665603
  let mut ht : UInt64 := 1469598103934665603
  let mut nFe := 0
  let mut nIs := 0
  let mut nDiff := 0
  for ci in [0:15625] do
    if zeroDir ci then continue
    let r := L.ray ci
    let m := runModel T r b
    let s := spec r b
    hf := fullHash hf m
    hs := specHash hs s
    ht := mixB (modelSpecHash ht m) m.isBool
    if m.feHit then nFe := nFe + 1
    if m.isHit then nIs := nIs + 1
    if modelSpecHash 7 m != specHash 7 s then nDiff := nDiff + 1
  return ⟨hf, hs, nFe, nIs, nDiff, ht⟩

def parseLat (pairs ox oy oz sh : String) : Lat :=
  ⟨parsePairs pairs, ox.toInt!, oy.toInt!, oz.toInt!, sh.toInt!⟩

/-! ## Number parsing (`n/d`, `n`, `x<hex double bits>`) -/

def parseHex (s : String) : Nat :=
  s.foldl (fun a c =>
    let d := if c.isDigit then c.toNat - 48 else if 'a' ≤ c ∧ c ≤ 'f' then c.toNat - 87
             else if 'A' ≤ c ∧ c ≤ 'F' then c.toNat - 55 else 0
    a * 16 + d) 0

/-- exact value of a finite IEEE binary64 bit pattern -/
def doubleBitsToQ (u : Nat) : Q :=
  let sign : Nat := u / 2^63
  let e : Nat := (u / 2^52) % 2048
  let m : Nat := u % 2^52
  let mag : Q :=
    if e == 0 then mkRat m (2^1074)
    else if e ≥ 1075 then mkRat ((2^52 + m) * 2^(e - 1075)) 1
    else mkRat (2^52 + m) (2^(1075 - e))
  if sign == 1 then -mag else mag

def parseQ (s : String) : Q :=
  if s.startsWith "x" then doubleBitsToQ (parseHex ((s.drop 1).toString))
  else if (s.splitOn "*2^").length == 2 then
    let m := ((s.splitOn "*2^").getD 0 "0").toInt!
    let e := ((s.splitOn "*2^").getD 1 "0").toInt!
    if e ≥ 0 then mkRat (m * 2 ^ e.toNat) 1 else mkRat m (2 ^ (-e).toNat)
  else match s.splitOn "/" with
    | [a, b] => mkRat a.toInt! b.toNat!
    | _ => mkRat s.toInt! 1

/-! ## The model executed in FLOATING POINT (used by the guard sweep tie and by the `nd` lattice)

`Float` / `Float32` operations are the IEEE operations of the machine, the same the C++
harness executes (`-ffp-contract=off`, no fast-math); comparisons with NaN are false on both
sides; infinities arise and propagate identically.  So running the MODEL at `Float` on the
sweep's extreme inputs and comparing bit for bit ties every branch arm of the model —
including the 18 guard-FAIL arms no integer lattice reaches with `T = DBL_MAX` — to the code. -/

def tmaxF : Float := Float.ofBits 0x7fefffffffffffff
def tmaxF32 : Float32 := Float32.ofBits 0x7f7fffff

structure GOut where
  feHit : Bool
  e : Array UInt64
  x : Array UInt64
  isHit : Bool
  ip : Array UInt64
  isb : Bool

section
variable {α : Type} [Add α] [Sub α] [Mul α] [Div α] [Neg α] [LT α] [LE α]
  [DecidableLT α] [DecidableLE α] [OfNat α 0] [OfNat α 1]

/-- the model on 12 scalars (box min, box max, pos, dir); out-parameters start from the harness' sentinels -/
@[specialize] def runGv (T : α) (ofI : Int → α) (bits : α → UInt64)
    (b0 b1 b2 b3 b4 b5 p0 p1 p2 d0 d1 d2 : α) : GOut :=
  let b : Box3 α := ⟨⟨b0, b1, b2⟩, ⟨b3, b4, b5⟩⟩
  let r : Line3 α := ⟨⟨p0, p1, p2⟩, ⟨d0, d1, d2⟩⟩
  let fe := findEntryAndExitPoints T r b ⟨ofI 1001, ofI 1002, ofI 1003⟩ ⟨ofI 2001, ofI 2002, ofI 2003⟩
  let is := intersects T b r ⟨ofI 3001, ofI 3002, ofI 3003⟩
  let isb := intersectsBool T b r ⟨ofI 3001, ofI 3002, ofI 3003⟩
  let vb (p : V3 α) : Array UInt64 := #[bits p.x, bits p.y, bits p.z]
  ⟨fe.1, vb fe.2.1, vb fe.2.2, is.1, vb is.2, isb⟩

@[specialize] def runG (T : α) (ofI : Int → α) (bits : α → UInt64) (v : Array Int) : GOut :=
  let b : Box3 α := ⟨⟨ofI v[0]!, ofI v[1]!, ofI v[2]!⟩, ⟨ofI v[3]!, ofI v[4]!, ofI v[5]!⟩⟩
  let r : Line3 α := ⟨⟨ofI v[6]!, ofI v[7]!, ofI v[8]!⟩, ⟨ofI v[9]!, ofI v[10]!, ofI v[11]!⟩⟩
  let fe := findEntryAndExitPoints T r b ⟨ofI 1001, ofI 1002, ofI 1003⟩ ⟨ofI 2001, ofI 2002, ofI 2003⟩
  let is := intersects T b r ⟨ofI 3001, ofI 3002, ofI 3003⟩
  let isb := intersectsBool T b r ⟨ofI 3001, ofI 3002, ofI 3003⟩
  let vb (p : V3 α) : Array UInt64 := #[bits p.x, bits p.y, bits p.z]
  ⟨fe.1, vb fe.2.1, vb fe.2.2, is.1, vb is.2, isb⟩
end

/-! ### Which arms a case executes (instrumentation, generic scalar)

Replicates the model's branch conditions with the model's own operations, so that it can be evaluated at `Rat`
(small-T lattice) and at `Float` / `Float32` (guard sweep: IEEE level, overflowing `face − pos` included).
Indices: 0-5 `fe` axis × {`dir<0` fallback returns false, falls through}; 6-17 `intersects` axis × sign ×
{back update skipped, front parameter := T}; 18-20 `fe` guard true through `|dir| > 1` ALONE; 21-23 `fe` `dir >= 0`
fallback with `dir > 0`; 24-29 `fe` block reached with a NON-FINITE `face − pos` (axis × sign of dir);
30-35 `intersects` block reached with a non-finite `face − pos` (axis × sign). -/
section
variable {α : Type} [Add α] [Sub α] [Mul α] [Div α] [Neg α] [LT α] [LE α]
  [DecidableLT α] [DecidableLE α] [OfNat α 0] [OfNat α 1]

@[specialize] def armsG (T : α) (r : Line3 α) (b : Box3 α) (nonFinite : α → Bool) (h : Array Nat) : Array Nat := Id.run do
  if b.isEmpty then return h
  let mut h := h
  let ax (a : Nat) : α × α × α × α :=
    if a == 0 then (r.pos.x, r.dir.x, b.min.x, b.max.x) else if a == 1 then (r.pos.y, r.dir.y, b.min.y, b.max.y)
    else (r.pos.z, r.dir.z, b.min.z, b.max.z)
  -- findEntryAndExitPoints
  let mut live := true
  for a in [0:3] do
    if live then
      let (p, d, lo, hi) := ax a
      let second : Bool :=
        if d >= 0 then decide (iabs (hi - p) < T * d ∧ iabs (lo - p) < T * d)
        else decide (iabs (lo - p) < -T * d ∧ iabs (hi - p) < -T * d)
      let g : Bool := (if d >= 0 then decide (d > 1) else decide (d < -1)) || second
      let out : Bool := decide (p < lo) || decide (p > hi)
      if (nonFinite (hi - p) || nonFinite (lo - p)) then
        if d > 0 then h := h.modify (24 + 2 * a) (· + 1)
        if d < 0 then h := h.modify (24 + 2 * a + 1) (· + 1)
      if !g then
        if d < 0 then h := h.modify (2 * a + (if out then 0 else 1)) (· + 1)
        if d > 0 then h := h.modify (21 + a) (· + 1)
        if out then live := false
      else if !second then h := h.modify (18 + a) (· + 1)
  -- intersects (blocks run only for an origin outside the box)
  if b.containsPt r.pos then return h
  live := true
  for a in [0:3] do
    if live then
      let (p, d, lo, hi) := ax a
      if d > 0 then
        if p > hi then live := false
        else
          if nonFinite (hi - p) || nonFinite (lo - p) then h := h.modify (30 + 2 * a) (· + 1)
          if !(decide (d > 1) || decide (hi - p < T * d)) then h := h.modify (6 + 4 * a) (· + 1)
          if decide (p <= lo) && !(decide (d > 1) || decide (lo - p < T * d)) then h := h.modify (6 + 4 * a + 1) (· + 1)
      else if d < 0 then
        if p < lo then live := false
        else
          if nonFinite (hi - p) || nonFinite (lo - p) then h := h.modify (30 + 2 * a + 1) (· + 1)
          if !(decide (d < -1) || decide (lo - p > T * d)) then h := h.modify (6 + 4 * a + 2) (· + 1)
          if decide (p >= hi) && !(decide (d < -1) || decide (hi - p > T * d)) then h := h.modify (6 + 4 * a + 3) (· + 1)
      else if decide (p < lo) || decide (p > hi) then live := false
  return h
end

def NARMS : Nat := 36

def armsF64b (v : Array UInt64) (h : Array Nat) : Array Nat :=
  let f (i : Nat) : Float := Float.ofBits v[i]!
  armsG tmaxF ⟨⟨f 6, f 7, f 8⟩, ⟨f 9, f 10, f 11⟩⟩ ⟨⟨f 0, f 1, f 2⟩, ⟨f 3, f 4, f 5⟩⟩ (fun x => x.isInf || x.isNaN) h
def armsF32b (v : Array UInt64) (h : Array Nat) : Array Nat :=
  let f (i : Nat) : Float32 := (Float.ofBits v[i]!).toFloat32
  armsG tmaxF32 ⟨⟨f 6, f 7, f 8⟩, ⟨f 9, f 10, f 11⟩⟩ ⟨⟨f 0, f 1, f 2⟩, ⟨f 3, f 4, f 5⟩⟩ (fun x => x.isInf || x.isNaN) h

def runF64 (v : Array Int) : GOut := runG tmaxF (fun i => Float.ofInt i) Float.toBits v
def runF32 (v : Array Int) : GOut :=
  runG tmaxF32 (fun i => (Float.ofInt i).toFloat32) (fun x => x.toFloat.toBits) v

/-- bit pattern with every NaN mapped to one canonical pattern (payload / sign of a NaN are not specified) -/
def bitsC (x : Float) : UInt64 := if x.isNaN then 0x7ff8000000000000 else x.toBits

/-- the model at binary64 / binary32 on inputs given as double bit patterns (binary32 inputs arrive widened, exactly) -/
def runF64b (v : Array UInt64) : GOut :=
  let f (i : Nat) : Float := Float.ofBits v[i]!
  runGv tmaxF (fun i => Float.ofInt i) bitsC (f 0) (f 1) (f 2) (f 3) (f 4) (f 5) (f 6) (f 7) (f 8) (f 9) (f 10) (f 11)
def runF32b (v : Array UInt64) : GOut :=
  let f (i : Nat) : Float32 := (Float.ofBits v[i]!).toFloat32
  runGv tmaxF32 (fun i => (Float.ofInt i).toFloat32) (fun x => bitsC x.toFloat)
    (f 0) (f 1) (f 2) (f 3) (f 4) (f 5) (f 6) (f 7) (f 8) (f 9) (f 10) (f 11)

def tieBits (h : UInt64) (o : GOut) : UInt64 :=
  let h := mixB h o.feHit
  let h := if o.feHit then (o.e ++ o.x).foldl mix h else h
  let h := mixB h o.isHit
  let h := if o.isHit then o.ip.foldl mix h else h
  mixB h o.isb

def hx (u : UInt64) : String := String.ofList (Nat.toDigits 16 u.toNat)
def gLine (o : GOut) : String :=
  let pv (a : Array UInt64) : String := ",".intercalate (a.toList.map hx)
  s!"fe={bStr o.feHit} entry={if o.feHit then pv o.e else "-"} exit={if o.feHit then pv o.x else "-"} is={bStr o.isHit} ip={if o.isHit then pv o.ip else "-"} isb={bStr o.isb}"

/-! ## Float guard sweep oracle

stdin, per block:
```
T <num>            eta <num>
box <6 nums: min xyz, max xyz>
px <nums>   py <nums>   pz <nums>   dx <nums>   dy <nums>   dz <nums>
impl <one char per case: '0' + feHit + 2*isHit + 4*(2-argument wrapper differs)>   (cases: px × py × pz × dx × dy × dz, the ZERO direction included)
pts  <one char per case: '0' + e + 4*x + 16*ip>   2-bit codes computed by the harness for entry / exit (when fe is true) and ip
                                                 (when is is true): 0 in the box and on a face (ip: == pos when the origin is inside),
                                                 1 never written (still the sentinel), 2 a NaN coordinate, 3 outside the box / on no face
tie  <one hash per (px,py) chunk>                 results + bit patterns of the points when true, of the real code
end
```
(a) For each case the oracle decides the exact answer on the box eroded and dilated
per axis by `eta * max(|min|,|max|,|pos|)`; only ROBUST answers (the same on both)
are compared with the implementation.  (b) The point codes are classified by cause.
(c) The MODEL is executed at Float (prec 53) / Float32 (prec 24) on the same bit patterns and
its chunk hashes are compared with `tie`.  Output: counters, per-block class counts
(`blockcount`), chunks whose tie differs (`tiemismatch <block index> <chunk>`), and the first
flips of each category.
-/

def qabs (q : Q) : Q := if q < 0 then -q else q

def grow (b : Box3 Q) (p : V3 Q) (eta : Q) : Box3 Q :=
  let m (lo hi p : Q) : Q := eta * max (max (qabs lo) (qabs hi)) (qabs p)
  let mx := m b.min.x b.max.x p.x
  let my := m b.min.y b.max.y p.y
  let mz := m b.min.z b.max.z p.z
  ⟨⟨b.min.x - mx, b.min.y - my, b.min.z - mz⟩, ⟨b.max.x + mx, b.max.y + my, b.max.z + mz⟩⟩

/-- does the interval contain a parameter of magnitude ≤ T -/
def ivalMeetsWindow (i : Ival Q) (T : Q) : Bool :=
  (i.loInf || i.lo ≤ T) && (i.hiInf || -T ≤ i.hi)

/-- the guard as written, evaluated exactly (statistics and flip classification only) -/
def codeGuard (T p d lo hi : Q) : Bool :=
  1 < qabs d || (qabs (hi - p) < T * qabs d && qabs (lo - p) < T * qabs d)

structure SweepAcc where
  cases : Nat := 0
  lineHit : Nat := 0
  rayHit : Nat := 0
  robustLine : Nat := 0
  robustRay : Nat := 0
  guardFailAxes : Nat := 0      -- non-zero direction components failing the written guard
  casesWithGuardFail : Nat := 0
  feGuardInside : Nat := 0      -- fe: guard fails, pos inside the slab (axis ignored)
  feGuardOutside : Nat := 0     -- fe: guard fails, pos outside the slab (return false)
  isFrontSubst : Nat := 0       -- intersects: front parameter replaced by TMAX
  isBackSkip : Nat := 0         -- intersects: back parameter not recorded
  wrapperDiffers : Nat := 0     -- intersects(box,ray) != intersects(box,ray,ip)
  feTrue : Nat := 0             -- implementation results that are true (their points were classified by the harness)
  isTrueOutside : Nat := 0
  zeroDirCases : Nat := 0
  arms : Array Nat := Array.replicate 36 0     -- per-arm hit counts at IEEE level (see `armsG`)
  counts : List (String × Nat) := []
  examples : List String := []

def SweepAcc.bump (a : SweepAcc) (cat : String) (ex : Unit → String) : SweepAcc :=
  match a.counts.find? (·.1 == cat) with
  | some (_, n) =>
    let ex' := if n < 3 then a.examples ++ [s!"flip {cat} {ex ()}"] else a.examples
    { a with counts := a.counts.map (fun (c, k) => if c == cat then (c, k + 1) else (c, k)), examples := ex' }
  | none => { a with counts := a.counts ++ [(cat, 1)], examples := a.examples ++ [s!"flip {cat} {ex ()}"] }

def SweepAcc.merge (a b : SweepAcc) : SweepAcc := Id.run do
  let mut cs := a.counts
  for (c, n) in b.counts do
    match cs.find? (·.1 == c) with
    | some _ => cs := cs.map (fun (c', k) => if c' == c then (c', k + n) else (c', k))
    | none => cs := cs ++ [(c, n)]
  return { cases := a.cases + b.cases, lineHit := a.lineHit + b.lineHit, rayHit := a.rayHit + b.rayHit,
           robustLine := a.robustLine + b.robustLine, robustRay := a.robustRay + b.robustRay,
           guardFailAxes := a.guardFailAxes + b.guardFailAxes,
           casesWithGuardFail := a.casesWithGuardFail + b.casesWithGuardFail,
           feGuardInside := a.feGuardInside + b.feGuardInside, feGuardOutside := a.feGuardOutside + b.feGuardOutside,
           isFrontSubst := a.isFrontSubst + b.isFrontSubst, isBackSkip := a.isBackSkip + b.isBackSkip,
           wrapperDiffers := a.wrapperDiffers + b.wrapperDiffers, feTrue := a.feTrue + b.feTrue,
           isTrueOutside := a.isTrueOutside + b.isTrueOutside, zeroDirCases := a.zeroDirCases + b.zeroDirCases,
           arms := (Array.range 36).map (fun k => a.arms.getD k 0 + b.arms.getD k 0),
           counts := cs,
           examples := Id.run do
             -- keep at most 3 examples per (category, block tag)
             let mut ex := a.examples
             for e in b.examples do
               let ws := e.splitOn " "
               let cat := ws.getD 1 ""
               let tag := ws.getD 2 ""
               if (ex.filter (fun x => let xs := x.splitOn " "; xs.getD 1 "" == cat && xs.getD 2 "" == tag)).length < 3 then
                 ex := ex ++ [e]
             return ex }

structure SweepBlock where
  T : Q
  eta : Q
  box : Box3 Q
  px : Array Q
  py : Array Q
  pz : Array Q
  dx : Array Q
  dy : Array Q
  dz : Array Q
  impl : String
  tag : String
  prec : Nat := 53
  pts : String := ""                 -- per case: '0' + e + 4*x + 16*ip, 2-bit codes 0 ok, 1 never written, 2 NaN, 3 outside box / off every face
  ties : Array UInt64 := #[]         -- per (px,py) chunk: hash of results + points-when-true (bit patterns) of the real code
  bits : Array (Array UInt64) := #[#[], #[], #[], #[], #[], #[], #[]]   -- raw double bit patterns: box, px, py, pz, dx, dy, dz

def axisStats (T p d lo hi : Q) (outside : Bool) (a : SweepAcc) : SweepAcc :=
  if d == 0 || codeGuard T p d lo hi then a
  else
    let a := { a with guardFailAxes := a.guardFailAxes + 1 }
    let a := if lo ≤ p && p ≤ hi then { a with feGuardInside := a.feGuardInside + 1 }
             else { a with feGuardOutside := a.feGuardOutside + 1 }
    -- intersects (only reached when the origin is outside the box)
    if !outside then a else
    let front := if d > 0 then p ≤ lo && !(d > 1 || lo - p < T * d) else p ≥ hi && !(d < -1 || hi - p > T * d)
    let back := if d > 0 then p ≤ hi && !(d > 1 || hi - p < T * d) else p ≥ lo && !(d < -1 || lo - p > T * d)
    let a := if front then { a with isFrontSubst := a.isFrontSubst + 1 } else a
    if back then { a with isBackSkip := a.isBackSkip + 1 } else a

def sweepCase (B : SweepBlock) (r : Line3 Q) (implFe implIs wrapDiff : Bool) (pc : Nat) (a : SweepAcc) : SweepAcc :=
  let b := B.box
  let T := B.T
  let empty := b.max.x < b.min.x || b.max.y < b.min.y || b.max.z < b.min.z
  let inside := b.min.x ≤ r.pos.x && r.pos.x ≤ b.max.x && b.min.y ≤ r.pos.y && r.pos.y ≤ b.max.y &&
                b.min.z ≤ r.pos.z && r.pos.z ≤ b.max.z
  let a := { a with cases := a.cases + 1, wrapperDiffers := a.wrapperDiffers + (if wrapDiff then 1 else 0),
                    feTrue := a.feTrue + (if implFe then 1 else 0),
                    isTrueOutside := a.isTrueOutside + (if implIs && !inside then 1 else 0) }
  let gf0 := a.guardFailAxes
  let a := if empty then a else
    axisStats T r.pos.z r.dir.z b.min.z b.max.z (!inside)
      (axisStats T r.pos.y r.dir.y b.min.y b.max.y (!inside)
        (axisStats T r.pos.x r.dir.x b.min.x b.max.x (!inside) a))
  let gfail := a.guardFailAxes > gf0
  let a := if gfail then { a with casesWithGuardFail := a.casesWithGuardFail + 1 } else a
  let exact := lineIval r b
  let exactR := rayIval r b
  let a := if exact.isSome then { a with lineHit := a.lineHit + 1 } else a
  let a := if exactR.isSome then { a with rayHit := a.rayHit + 1 } else a
  let big := grow b r.pos B.eta
  let small := grow b r.pos (-B.eta)
  let lBig := lineIval r big
  let lSmall := lineIval r small
  let rBig := rayIval r big
  let rSmall := rayIval r small
  let T' := B.T
  -- classification of the CAUSE of a flip (narrow classes; a new kind of flip gets a new name)
  let thr := T' + T' / mkRat (2 * (2 ^ B.prec - 1)) 1            -- |x| ≥ thr rounds to infinity
  let slack : Q := 1 - mkRat 1 (2 ^ 20)                           -- `|d| < T|dir|` within rounding of equality counts as failing
  let far (p lo hi : Q) : Q := max (qabs (hi - p)) (qabs (lo - p))
  let nz (d : Q) : Bool := !(d == 0)
  let failS (p d lo hi : Q) : Bool :=
    nz d && !(1 < qabs d || (qabs (hi - p) < T' * qabs d * slack && qabs (lo - p) < T' * qabs d * slack))
  let tiny (d : Q) : Bool := nz d && T' * qabs d < 1
  let ovfA (p d lo hi : Q) : Bool := nz d && far p lo hi ≥ thr
  -- a failing axis is face-caused when |face - pos| is of the order of TMAX and the direction is not tiny;
  -- otherwise it fails because the quotient by the (small) direction component overflows: dir-caused
  let faceA (p d lo hi : Q) : Bool := failS p d lo hi && far p lo hi * 2 ≥ T' && !tiny d
  let allTinyA (p d lo hi : Q) : Bool := !nz d || (failS p d lo hi && !faceA p d lo hi)
  let px := r.pos.x; let py := r.pos.y; let pz := r.pos.z
  let dx := r.dir.x; let dy := r.dir.y; let dz := r.dir.z
  let ovf := ovfA px dx b.min.x b.max.x || ovfA py dy b.min.y b.max.y || ovfA pz dz b.min.z b.max.z
  let allTiny := allTinyA px dx b.min.x b.max.x && allTinyA py dy b.min.y b.max.y && allTinyA pz dz b.min.z b.max.z
  let face := faceA px dx b.min.x b.max.x || faceA py dy b.min.y b.max.y || faceA pz dz b.min.z b.max.z
  let anyFail := failS px dx b.min.x b.max.x || failS py dy b.min.y b.max.y || failS pz dz b.min.z b.max.z
  let zeroD := !nz dx && !nz dy && !nz dz
  let a := if zeroD then { a with zeroDirCases := a.zeroDirCases + 1 } else a
  let gtag := if zeroD then "zero-direction" else if allTiny then "all-components-fail-guard" else if ovf then "face-minus-pos-overflows"
              else if face then "box-face-at-TMAX" else if anyFail then "other-guardpath" else "other-noguard"
  -- is some EXACT hit parameter representable (|t| ≤ TMAX)?  (not used for the overflow class)
  let wtag (i : Option (Ival Q)) : String :=
    if gtag == "face-minus-pos-overflows" then "" else
    match i with
    | some i => if ivalMeetsWindow i T then ":t-le-TMAX" else ":t-gt-TMAX"
    | none => ""
  let desc : Unit → String := fun _ =>
    s!"{B.tag} box={vStr b.min};{vStr b.max} pos={vStr r.pos} dir={vStr r.dir} implFe={bStr implFe} implIs={bStr implIs} exactLine={bStr exact.isSome} exactRay={bStr exactR.isSome}"
  -- reported points (codes computed by the harness on the real outputs)
  let reason (c : Nat) : String := if c == 1 then "never-written" else if c == 2 then "nan-coordinate" else "outside-box-or-off-surface"
  let pdesc : Unit → String := fun _ => s!"{desc ()} pointcodes(entry,exit,ip)={pc % 4},{pc / 4 % 4},{pc / 16 % 4}"
  let a := if pc % 4 != 0 then a.bump s!"reported-points:findEntryAndExitPoints:entry-{reason (pc % 4)}:{gtag}" pdesc else a
  let a := if pc / 4 % 4 != 0 then a.bump s!"reported-points:findEntryAndExitPoints:exit-{reason (pc / 4 % 4)}:{gtag}" pdesc else a
  let a := if pc / 16 % 4 != 0 then a.bump s!"reported-points:intersects:ip-{reason (pc / 16 % 4)}:{gtag}" pdesc else a
  -- line
  let a :=
    match lSmall with
    | some _ =>
      let a := { a with robustLine := a.robustLine + 1 }
      if implFe then a
      else a.bump s!"findEntryAndExitPoints:hit-to-miss:{gtag}{wtag exact}" desc
    | none =>
      if lBig.isNone then
        let a := { a with robustLine := a.robustLine + 1 }
        if implFe then a.bump s!"findEntryAndExitPoints:miss-to-hit:{gtag}" desc else a
      else a
  -- ray
  match rSmall with
  | some _ =>
    let a := { a with robustRay := a.robustRay + 1 }
    if implIs then a
    else a.bump s!"intersects:hit-to-miss:{gtag}{wtag exactR}" desc
  | none =>
    if rBig.isNone then
      let a := { a with robustRay := a.robustRay + 1 }
      if implIs then a.bump s!"intersects:miss-to-hit:{gtag}" desc else a
    else a

/-- One block.  Returns the accumulated statistics and the (px,py) chunks whose model@Float tie
hash differs from the implementation's. -/
def sweepBlock (B : SweepBlock) : IO (SweepAcc × List Nat) := do
  -- case order: px, py, pz, dx, dy, dz lexicographic
  let impl := B.impl.toList.toArray
  let pts := B.pts.toList.toArray
  let npz := B.pz.size
  let npy := B.py.size
  let ndir := B.dx.size * B.dy.size * B.dz.size
  let perPy := npz * ndir
  let perPx := npy * perPy
  let f32 := B.prec == 24
  let bb := B.bits[0]!
  let tasks ← (List.range (B.px.size * npy)).mapM fun ixy => IO.asTask (prio := .dedicated) do
    let ix := ixy / npy
    let iy := ixy % npy
    let mut a : SweepAcc := {}
    let mut k := ix * perPx + iy * perPy
    let mut th : UInt64 := 1469598103934665603
    for iz in [0:npz] do
      for jx in [0:B.dx.size] do
        for jy in [0:B.dy.size] do
          for jz in [0:B.dz.size] do
            let c := (impl[k]!).toNat - 48
            let pc := (pts.getD k '0').toNat - 48
            k := k + 1
            a := sweepCase B ⟨⟨B.px[ix]!, B.py[iy]!, B.pz[iz]!⟩, ⟨B.dx[jx]!, B.dy[jy]!, B.dz[jz]!⟩⟩
                   (c % 2 == 1) (c / 2 % 2 == 1) (c / 4 % 2 == 1) pc a
            if bb.size == 6 then
              let v : Array UInt64 := #[bb[0]!, bb[1]!, bb[2]!, bb[3]!, bb[4]!, bb[5]!,
                (B.bits[1]!)[ix]!, (B.bits[2]!)[iy]!, (B.bits[3]!)[iz]!,
                (B.bits[4]!)[jx]!, (B.bits[5]!)[jy]!, (B.bits[6]!)[jz]!]
              th := tieBits th (if f32 then runF32b v else runF64b v)
              a := { a with arms := if f32 then armsF32b v a.arms else armsF64b v a.arms }
    return (a, th)
  let mut acc : SweepAcc := {}
  let mut bad : List Nat := []
  let mut ixy := 0
  for t in tasks do
    match t.get with
    | .ok (a, th) =>
      acc := acc.merge a
      if B.ties.getD ixy 0 != th then bad := bad ++ [ixy]
    | .error e => throw e
    ixy := ixy + 1
  if acc.cases != impl.size then
    IO.eprintln s!"sweep: case count mismatch: enumerated {acc.cases}, impl string {impl.size}"
  return (acc, bad)

def nums (ws : List String) : Array Q := (ws.map parseQ).toArray

def numBits (ws : List String) : Array UInt64 :=
  (ws.map fun w => if w.startsWith "x" then (parseHex ((w.drop 1).toString)).toUInt64 else 0).toArray

partial def fcasesLoop (h out : IO.FS.Stream) (f32 : Bool) : IO Unit := do
  let line ← h.getLine
  if line.isEmpty then return
  let ws := (((line.replace "\n" "").replace "\r" "").splitOn " ").filter (· ≠ "")
  if ws.length == 12 then
    let v := numBits ws
    out.putStrLn s!"M {gLine (if f32 then runF32b v else runF64b v)}"
  fcasesLoop h out f32

structure SweepOut where
  acc : SweepAcc := {}
  nblocks : Nat := 0
  lines : Array String := #[]     -- `blockcount <tag> <cat> <n>` and `tiemismatch <tag> <block index> <chunk>`
  tieChunks : Nat := 0
  tieBad : Nat := 0

partial def readSweep (h : IO.FS.Stream) (B : SweepBlock) (o : SweepOut) : IO SweepOut := do
  let line ← h.getLine
  if line.isEmpty then return o
  let ws := (((line.replace "\n" "").replace "\r" "").splitOn " ").filter (· ≠ "")
  match ws with
  | "T" :: v :: _ => readSweep h { B with T := parseQ v } o
  | "eta" :: v :: _ => readSweep h { B with eta := parseQ v } o
  | "tag" :: v :: _ => readSweep h { B with tag := v } o
  | "prec" :: v :: _ => readSweep h { B with prec := v.toNat! } o
  | "box" :: vs =>
    let a := nums vs
    readSweep h { B with box := ⟨⟨a[0]!, a[1]!, a[2]!⟩, ⟨a[3]!, a[4]!, a[5]!⟩⟩, bits := B.bits.set! 0 (numBits vs) } o
  | "px" :: vs => readSweep h { B with px := nums vs, bits := B.bits.set! 1 (numBits vs) } o
  | "py" :: vs => readSweep h { B with py := nums vs, bits := B.bits.set! 2 (numBits vs) } o
  | "pz" :: vs => readSweep h { B with pz := nums vs, bits := B.bits.set! 3 (numBits vs) } o
  | "dx" :: vs => readSweep h { B with dx := nums vs, bits := B.bits.set! 4 (numBits vs) } o
  | "dy" :: vs => readSweep h { B with dy := nums vs, bits := B.bits.set! 5 (numBits vs) } o
  | "dz" :: vs => readSweep h { B with dz := nums vs, bits := B.bits.set! 6 (numBits vs) } o
  | "impl" :: v :: _ => readSweep h { B with impl := v } o
  | "pts" :: v :: _ => readSweep h { B with pts := v } o
  | "tie" :: vs => readSweep h { B with ties := (vs.map fun w => w.toNat!.toUInt64).toArray } o
  | "end" :: _ =>
    let (a, bad) ← sweepBlock B
    let mut ls := o.lines
    for (c, n) in a.counts do ls := ls.push s!"blockcount {B.tag} {c} {n}"
    for ixy in bad do ls := ls.push s!"tiemismatch {B.tag} {o.nblocks} {ixy}"
    readSweep h { B with pts := "", ties := #[] }
      { acc := o.acc.merge a, nblocks := o.nblocks + 1, lines := ls,
        tieChunks := o.tieChunks + B.px.size * B.py.size, tieBad := o.tieBad + bad.length }
  | _ => readSweep h B o

/-! ## Non-dyadic direction lattice (`nd`): model evaluated in FLOATING POINT

Directions with components in {0, ±1, ±3, ±5, ±7}: quotients are no longer exactly
representable.  (a) hit/miss of the real code must still equal the exact oracle:
every parameter is the correctly rounded quotient of two small integers, so equal
rationals give equal floats and distinct ones keep their order.  (b) The model is
executed at `Float` / `Float32` — same operations in the same order as the C++ —
and compared BIT FOR BIT (results always, points when the result is true), so an
algebraically neutral rewrite such as `d * (1/dir)` for `d / dir` changes bits.
-/

def ndVals : Array Int := #[0, 1, -1, 3, -3, 5, -5, 7, -7]

structure ND where
  boxes : Array (Array Int)   -- 6 ints each
  R : Nat
  ox : Int
  oy : Int
  oz : Int

def parseND (boxes r ox oy oz : String) : ND :=
  ⟨(boxes.splitOn ";").toArray.map (fun b => (b.splitOn ",").toArray.map String.toInt!), r.toNat!, ox.toInt!, oy.toInt!, oz.toInt!⟩

def ND.side (n : ND) : Nat := 2 * n.R + 1
def ND.nBlocks (n : ND) : Nat := n.boxes.size * n.side
def ND.perBlock (n : ND) : Nat := n.side * n.side * 729

/-- integer coordinates of case `ci` of block `blk`: (box min, box max, pos, dir); `none` for the zero direction -/
def ND.case (n : ND) (blk ci : Nat) : Option (Array Int) :=
  let bi := blk / n.side
  let ix := blk % n.side
  let di := ci % 729
  if di == 0 then none else
  let pi := ci / 729
  let iy := pi / n.side
  let iz := pi % n.side
  let b := n.boxes[bi]!
  let c (k : Nat) : Int := Int.ofNat k - Int.ofNat n.R
  some #[b[0]! + n.ox, b[1]! + n.oy, b[2]! + n.oz, b[3]! + n.ox, b[4]! + n.oy, b[5]! + n.oz,
         c ix + n.ox, c iy + n.oy, c iz + n.oz,
         ndVals[di / 81]!, ndVals[(di / 9) % 9]!, ndVals[di % 9]!]

def ndRat (v : Array Int) : Line3 Q × Box3 Q :=
  let q (i : Nat) : Q := mkRat v[i]! 1
  (⟨⟨q 6, q 7, q 8⟩, ⟨q 9, q 10, q 11⟩⟩, ⟨⟨q 0, q 1, q 2⟩, ⟨q 3, q 4, q 5⟩⟩)

structure NDSum where
  tie64 : UInt64
  tie32 : UInt64
  bools : UInt64
  nFe : Nat
  nIs : Nat
  nGraze : Nat      -- line hits with a single-parameter interval (edge / corner touch, flat boxes)
  res64 : Nat := 0  -- max distance of a reported point (model@Float = impl bit for bit) from the EXACT point, in 1/1000 of
  res32 : Nat := 0  --   eps * max(1, |box|, |pos|)   (eps = 2^-52 resp. 2^-23)
  nPts : Nat := 0   -- points measured
deriving Inhabited

/-- largest coordinate distance between a point given as double bit patterns and an exact point -/
def ptErr (a : Array UInt64) (p : V3 Q) : Q :=
  let c (i : Nat) (q : Q) : Q := qabs (doubleBitsToQ (a[i]!).toNat - q)
  max (c 0 p.x) (max (c 1 p.y) (c 2 p.z))

/-- "on the ray to within rounding": distance of entry / exit / ip of a floating-point run from the exact
entry / exit / first-contact point of the oracle (when both say hit) -/
def ndResidue (o : GOut) (s : SpecOut Q) : Q × Nat :=
  let (e1, n1) := match o.feHit, s.entry with | true, some p => (ptErr o.e p, 1) | _, _ => (0, 0)
  let (e2, n2) := match o.feHit, s.exit with | true, some p => (ptErr o.x p, 1) | _, _ => (0, 0)
  let (e3, n3) := match o.isHit, s.ip with | true, some p => (ptErr o.ip p, 1) | _, _ => (0, 0)
  (max e1 (max e2 e3), n1 + n2 + n3)

def ND.runBlock (n : ND) (blk : Nat) : NDSum := Id.run do
  let mut t64 : UInt64 := 1469598103934665603
  let mut t32 : UInt64 := 1469598103934665603
  let mut hb : UInt64 := 1469598103934665603
  let mut nFe := 0
  let mut nIs := 0
  let mut nG := 0
  let mut r64 : Q := 0
  let mut r32 : Q := 0
  let mut nP := 0
  for ci in [0:n.perBlock] do
    match n.case blk ci with
    | none => pure ()
    | some v =>
      let o64 := runF64 v
      let o32 := runF32 v
      t64 := tieBits t64 o64
      t32 := tieBits t32 o32
      let (r, b) := ndRat v
      let l := lineIval r b
      let y := rayIval r b
      hb := mixB (mixB hb l.isSome) y.isSome
      if l.isSome then nFe := nFe + 1
      if y.isSome then nIs := nIs + 1
      match l with
      | some i => if !i.loInf && !i.hiInf && i.lo == i.hi then nG := nG + 1
      | none => pure ()
      if l.isSome then
        let sp := spec r b
        let scale : Q := (List.range 9).foldl (fun m i => max m (qabs (mkRat v[i]! 1))) 1
        let (e64, k) := ndResidue o64 sp
        let (e32, _) := ndResidue o32 sp
        r64 := max r64 (e64 / scale)
        r32 := max r32 (e32 / scale)
        nP := nP + k
  return ⟨t64, t32, hb, nFe, nIs, nG, (r64 * mkRat (1000 * 2^52) 1).floor.toNat, (r32 * mkRat (1000 * 2^23) 1).floor.toNat, nP⟩

/-! ## Guard lattice at a SMALL `T` (`small`)

With `T = DBL_MAX` no exactly representable lattice makes a guard fail.  The harness therefore also
instantiates the REAL templates at a wrapper scalar `Small` whose `numeric_limits<Small>::max()` is a
small number (4): on a dyadic lattice with direction components in {0, ±1/8, ±1/2, ±1, ±2} and
coordinates of magnitude ≤ 6 every guard-fail arm is reached, all arithmetic is exact, and the
outputs are compared EXACTLY with the model over `Rat` at the same `T`.  In addition the model is
compared with an executable form of the `_guardpath` theorems written with the interval oracle
(`feGuardOracle`, `isGuardOracle`), and — where every non-zero component passes its guard as
written — with the plain geometric oracle restricted to parameters `|t| ≤ T` (`_iff_window`). -/

structure Small where
  T : Q
  boxes : Array (Array Q)
  pv : Array Q
  dv : Array Q

def parseSmall (t boxes pv dv : String) : Small :=
  ⟨parseQ t, (boxes.splitOn ";").toArray.map (fun b => (b.splitOn ",").toArray.map parseQ),
   (pv.splitOn ",").toArray.map parseQ, (dv.splitOn ",").toArray.map parseQ⟩

def Small.nBlocks (n : Small) : Nat := n.boxes.size * n.pv.size
def Small.perBlock (n : Small) : Nat := n.pv.size * n.pv.size * n.dv.size * n.dv.size * n.dv.size

def Small.case (n : Small) (blk ci : Nat) : Line3 Q × Box3 Q :=
  let np := n.pv.size
  let nd := n.dv.size
  let b := n.boxes[blk / np]!
  let ix := blk % np
  let jz := ci % nd
  let jy := (ci / nd) % nd
  let jx := (ci / (nd * nd)) % nd
  let iz := (ci / (nd * nd * nd)) % np
  let iy := ci / (nd * nd * nd * np)
  (⟨⟨n.pv[ix]!, n.pv[iy]!, n.pv[iz]!⟩, ⟨n.dv[jx]!, n.dv[jy]!, n.dv[jz]!⟩⟩, ⟨⟨b[0]!, b[1]!, b[2]!⟩, ⟨b[3]!, b[4]!, b[5]!⟩⟩)

/-- parameter set one block of `findEntryAndExitPoints` contributes (`feEff`): the slab if the guard as written
passes, else everything / nothing according to whether the origin coordinate is inside the slab -/
def feEffSet (T p d lo hi : Q) : Option (Ival Q) :=
  if codeGuard T p d lo hi then slab p d lo hi
  else if lo ≤ p && p ≤ hi then some Ival.all else none

def boxEmpty (b : Box3 Q) : Bool := b.max.x < b.min.x || b.max.y < b.min.y || b.max.z < b.min.z
def boxHas (b : Box3 Q) (p : V3 Q) : Bool :=
  b.min.x ≤ p.x && p.x ≤ b.max.x && b.min.y ≤ p.y && p.y ≤ b.max.y && b.min.z ≤ p.z && p.z ≤ b.max.z

def feGuardOracle (T : Q) (r : Line3 Q) (b : Box3 Q) : Bool :=
  if boxEmpty b then false else
  (oInter (oInter (oInter (feEffSet T r.pos.x r.dir.x b.min.x b.max.x) (feEffSet T r.pos.y r.dir.y b.min.y b.max.y))
    (feEffSet T r.pos.z r.dir.z b.min.z b.max.z)) (some ⟨false, -T, false, T⟩)).isSome

/-- parameter set one block of `intersects` contributes (`isEff`): upper end the back quotient unless its guard
fails (then none), lower end — only when the origin is before the front face — the front quotient or `T` -/
def isEffSet (T p d lo hi : Q) : Option (Ival Q) :=
  if d > 0 then
    if p > hi then none else
    let up : Ival Q := if d > 1 || hi - p < T * d then ⟨true, 0, false, (hi - p) / d⟩ else Ival.all
    let low : Ival Q := if p ≤ lo then ⟨false, (if d > 1 || lo - p < T * d then (lo - p) / d else T), true, 0⟩ else Ival.all
    low.inter up
  else if d < 0 then
    if p < lo then none else
    let up : Ival Q := if d < -1 || lo - p > T * d then ⟨true, 0, false, (lo - p) / d⟩ else Ival.all
    let low : Ival Q := if p ≥ hi then ⟨false, (if d < -1 || hi - p > T * d then (hi - p) / d else T), true, 0⟩ else Ival.all
    low.inter up
  else if lo ≤ p && p ≤ hi then some Ival.all else none

def isGuardOracle (T : Q) (r : Line3 Q) (b : Box3 Q) : Bool :=
  if boxEmpty b then false else if boxHas b r.pos then true else
  (oInter (oInter (oInter (isEffSet T r.pos.x r.dir.x b.min.x b.max.x) (isEffSet T r.pos.y r.dir.y b.min.y b.max.y))
    (isEffSet T r.pos.z r.dir.z b.min.z b.max.z)) (some ⟨false, 0, false, T⟩)).isSome

def codeGuardsOK (T : Q) (r : Line3 Q) (b : Box3 Q) : Bool :=
  (r.dir.x == 0 || codeGuard T r.pos.x r.dir.x b.min.x b.max.x) &&
  (r.dir.y == 0 || codeGuard T r.pos.y r.dir.y b.min.y b.max.y) &&
  (r.dir.z == 0 || codeGuard T r.pos.z r.dir.z b.min.z b.max.z)

structure SmallSum where
  tie : UInt64
  nFe : Nat
  nIs : Nat
  nGuardDiff : Nat     -- model vs executable `_guardpath`
  nWindowDiff : Nat    -- model vs geometric oracle restricted to |t| ≤ T, on cases where every guard as written passes
  nWindow : Nat        -- number of such cases
  nUnwritten : Nat     -- fe true with entry and exit still the sentinels
  arms : Array Nat
deriving Inhabited

def Small.runBlock (n : Small) (blk : Nat) : SmallSum := Id.run do
  let mut ht : UInt64 := 1469598103934665603
  let mut nFe := 0
  let mut nIs := 0
  let mut nG := 0
  let mut nW := 0
  let mut nWc := 0
  let mut nU := 0
  let mut arms : Array Nat := Array.replicate NARMS 0
  for ci in [0:n.perBlock] do
    let (r, b) := n.case blk ci
    let m := runModel n.T r b
    ht := mixB (modelSpecHash ht m) m.isBool
    if m.feHit then nFe := nFe + 1
    if m.isHit then nIs := nIs + 1
    if m.feHit != feGuardOracle n.T r b || m.isHit != isGuardOracle n.T r b then nG := nG + 1
    if !boxEmpty b && codeGuardsOK n.T r b then
      nWc := nWc + 1
      let l := lineIval r b
      let wl := (oInter l (some ⟨false, -n.T, false, n.T⟩)).isSome
      let wr := (oInter l (some ⟨false, 0, false, n.T⟩)).isSome
      if m.feHit != wl || m.isHit != wr then nW := nW + 1
    if m.feHit && m.entry == sentinelE && m.exit == sentinelX then nU := nU + 1
    arms := armsG n.T r b (fun _ => false) arms
  return ⟨ht, nFe, nIs, nG, nW, nWc, nU, arms⟩

def runTasksG {β : Type} [Inhabited β] (nt : Nat) (lo hi : Nat) (f : Nat → β) : IO (Array β) := do
  let tasks ← (List.range nt).mapM fun t => IO.asTask (prio := .dedicated) do
    let mut acc : Array β := #[]
    let mut i := lo + t
    while i < hi do
      acc := acc.push (f i)
      i := i + nt
    return acc
  let mut arrs : Array (Array β) := #[]
  for t in tasks do
    match t.get with
    | .ok a => arrs := arrs.push a
    | .error e => throw e
  let mut out : Array β := #[]
  for i in [0:hi - lo] do
    out := out.push (arrs[i % nt]!)[i / nt]!
  return out

/-! ## main -/

def runTasks (nt : Nat) (lo hi : Nat) (f : Nat → BoxSummary) : IO (Array BoxSummary) := do
  let tasks ← (List.range nt).mapM fun t => IO.asTask (prio := .dedicated) do
    let mut acc : Array BoxSummary := #[]
    let mut i := lo + t
    while i < hi do
      acc := acc.push (f i)
      i := i + nt
    return acc
  let mut arrs : Array (Array BoxSummary) := #[]
  for t in tasks do
    match t.get with
    | .ok a => arrs := arrs.push a
    | .error e => throw e
  let mut out : Array BoxSummary := #[]
  for i in [0:hi - lo] do
    out := out.push (arrs[i % nt]!)[i / nt]!
  return out

def main (args : List String) : IO Unit := do
  let out ← IO.getStdout
  match args with
  | "lattice" :: pairs :: ox :: oy :: oz :: sh :: rest =>
    let L := parseLat pairs ox oy oz sh
    let n := L.pairs.size
    let (lo, hi) := match rest with
      | [a, b] => (a.toNat!, b.toNat!)
      | _ => (0, n * n * n)
    let res ← runTasks 16 lo hi (fun bi => L.runBox tmaxDouble bi)
    for i in [0:hi - lo] do
      let s := res[i]!
      out.putStrLn s!"{lo + i} {s.full.toNat} {s.spec.toNat} {s.nFe} {s.nIs} {s.nDiff} {s.tie.toNat}"
  | ["lines", pairs, ox, oy, oz, sh, bi] =>
    let L := parseLat pairs ox oy oz sh
    let b := L.box bi.toNat!
    for ci in [0:15625] do
      if zeroDir ci then continue
      let r := L.ray ci
      let m := runModel tmaxDouble r b
      let s := spec r b
      out.putStrLn s!"{ci} box={vStr b.min};{vStr b.max} pos={vStr r.pos} dir={vStr r.dir} | M {modelLine m} | S {specLine s}"
  | "case" :: t :: vs =>
    let a := nums vs
    if a.size != 12 then IO.eprintln "case: need T and 12 numbers (box min, box max, pos, dir)"
    else
      let T := if t == "double" then tmaxDouble else if t == "float" then tmaxFloat else parseQ t
      let b : Box3 Q := ⟨⟨a[0]!, a[1]!, a[2]!⟩, ⟨a[3]!, a[4]!, a[5]!⟩⟩
      let r : Line3 Q := ⟨⟨a[6]!, a[7]!, a[8]!⟩, ⟨a[9]!, a[10]!, a[11]!⟩⟩
      out.putStrLn s!"M {modelLine (runModel T r b)}"
      out.putStrLn s!"S {specLine (spec r b)}"
  | ["nd", boxes, r, ox, oy, oz] =>
    let n := parseND boxes r ox oy oz
    let res ← runTasksG 16 0 n.nBlocks (fun blk => n.runBlock blk)
    for i in [0:n.nBlocks] do
      let s := res[i]!
      out.putStrLn s!"{i} {s.tie64.toNat} {s.tie32.toNat} {s.bools.toNat} {s.nFe} {s.nIs} {s.nGraze} {s.res64} {s.res32} {s.nPts}"
  | ["ndlines", boxes, r, ox, oy, oz, blk, ft] =>
    let n := parseND boxes r ox oy oz
    for ci in [0:n.perBlock] do
      match n.case blk.toNat! ci with
      | none => pure ()
      | some v =>
        let o := if ft == "f" then runF32 v else runF64 v
        let (rr, b) := ndRat v
        out.putStrLn s!"{ci} in={" ".intercalate (v.toList.map toString)} | M {gLine o} | S fe={bStr (oracleLine rr b)} is={bStr (oracleRay rr b)}"
  | ["small", t, boxes, pv, dv] =>
    let n := parseSmall t boxes pv dv
    let res ← runTasksG 16 0 n.nBlocks (fun blk => n.runBlock blk)
    for i in [0:n.nBlocks] do
      let s := res[i]!
      out.putStrLn s!"{i} {s.tie.toNat} {s.nFe} {s.nIs} {s.nGuardDiff} {s.nWindowDiff} {s.nWindow} {s.nUnwritten} {" ".intercalate (s.arms.toList.map toString)}"
  | ["smalllines", t, boxes, pv, dv, blk] =>
    let n := parseSmall t boxes pv dv
    for ci in [0:n.perBlock] do
      let (r, b) := n.case blk.toNat! ci
      let m := runModel n.T r b
      let ok := codeGuardsOK n.T r b && !boxEmpty b
      let l := lineIval r b
      let w := if ok then s!"fe={bStr (oInter l (some ⟨false, -n.T, false, n.T⟩)).isSome} is={bStr (oInter l (some ⟨false, 0, false, n.T⟩)).isSome}" else "-"
      out.putStrLn s!"{ci} box={vStr b.min};{vStr b.max} pos={vStr r.pos} dir={vStr r.dir} | M {modelLine m} | G fe={bStr (feGuardOracle n.T r b)} is={bStr (isGuardOracle n.T r b)} | W {w}"
  | ["sweep"] =>
    let h ← IO.getStdin
    let B0 : SweepBlock := { T := tmaxDouble, eta := mkRat 1 1000000000, box := ⟨⟨0,0,0⟩,⟨0,0,0⟩⟩, px := #[], py := #[], pz := #[],
                             dx := #[], dy := #[], dz := #[], impl := "", tag := "-" }
    let o ← readSweep h B0 {}
    let a := o.acc
    out.putStrLn s!"cases {a.cases}"
    out.putStrLn s!"blocks {o.nblocks}"
    out.putStrLn s!"lineHit {a.lineHit}"
    out.putStrLn s!"rayHit {a.rayHit}"
    out.putStrLn s!"robustLine {a.robustLine}"
    out.putStrLn s!"robustRay {a.robustRay}"
    out.putStrLn s!"guardFailAxes {a.guardFailAxes}"
    out.putStrLn s!"casesWithGuardFail {a.casesWithGuardFail}"
    out.putStrLn s!"feGuardInside {a.feGuardInside}"
    out.putStrLn s!"feGuardOutside {a.feGuardOutside}"
    out.putStrLn s!"isFrontSubst {a.isFrontSubst}"
    out.putStrLn s!"isBackSkip {a.isBackSkip}"
    out.putStrLn s!"wrapperDiffers {a.wrapperDiffers}"
    out.putStrLn s!"feTrue {a.feTrue}"
    out.putStrLn s!"isTrueOutside {a.isTrueOutside}"
    out.putStrLn s!"zeroDirCases {a.zeroDirCases}"
    out.putStrLn s!"tieChunks {o.tieChunks}"
    out.putStrLn s!"tieBad {o.tieBad}"
    out.putStrLn s!"arms {" ".intercalate (a.arms.toList.map toString)}"
    for (c, n) in a.counts do out.putStrLn s!"count {c} {n}"
    for l in o.lines do out.putStrLn l
    for e in a.examples do out.putStrLn e
  | ["fcases", ft] =>
    let h ← IO.getStdin
    fcasesLoop h out (ft == "f")
  | _ => IO.eprintln "usage: drv_raybox lattice|lines|case|sweep ..."
