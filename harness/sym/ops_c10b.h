// C10 (second extractor): squad and spline, with slerp and intermediate as OPAQUE calls of the definitions
// extracted by sym_c10.cpp (Gen/C10Quat.lean: `C10.Quat.slerp`, `C10.Quat.intermediate`).  Without this, squad has
// 16^3 paths and spline 96^2 * 16^3.  Module "C10Interp".
#define IN(Ty, n) auto n = c.template in<Ty<T>> (#n)
EXTRACT ("C10Interp", q_squad, "C10.Quat.squad", { IN (Quat, q1); IN (Quat, qa); IN (Quat, qb); IN (Quat, q2); T t = c.inS ("t"); c.out (squad (q1, qa, qb, q2, t)); })
EXTRACT ("C10Interp", q_spline, "C10.Quat.spline", { IN (Quat, q0); IN (Quat, q1); IN (Quat, q2); IN (Quat, q3); T t = c.inS ("t"); c.out (spline (q0, q1, q2, q3, t)); })
