// C17 extractor: the scalar one-liners of ImathFun.h / ImathMath.h and the solvers of ImathRoots.h
// (modules C17Fun, C17Roots; see ops_c17.h).
//
// `std::copysign (T, T)`, `std::sqrt (std::complex<T>)` and `std::pow (std::complex<T>, T)` have no symbolic
// counterpart: they are uninterpreted PARAMETERS `copysign : α → α → α`, `csqrt : α → α → α × α`,
// `cpow : α → α → α → α × α` of the emitted definitions (the theorems state, as hypotheses, what the library
// function returns at the arguments the code passes).  Everything else `std::complex<Sym>` does (+ - * /, unary
// minus, real ()) is libstdc++'s generic `std::complex<_Tp>` template executed on symbolic components: the
// textbook formulas.  The overloads must be visible BEFORE ImathRoots.h is parsed (qualified `std::` calls inside
// a template are bound to the declarations visible at its definition).
#include "sym.h"
#include <complex>
namespace symns
{
inline const Node* callNode (const std::string& name, std::vector<const Node*> k) { return pool ().mk (CALL, k, name); }
inline std::complex<Sym> pairOf (const Node* call)
{
    return std::complex<Sym> (Sym (pool ().mk (PROJ, {call}, "1", 0.0)), Sym (pool ().mk (PROJ, {call}, "2", 1.0)));
}
} // namespace symns
namespace std
{
inline symns::Sym copysign (symns::Sym a, symns::Sym b) { return symns::Sym (symns::callNode ("copysign", {a.n, b.n})); }
inline complex<symns::Sym> sqrt (const complex<symns::Sym>& z) { return symns::pairOf (symns::callNode ("csqrt", {z.real ().n, z.imag ().n})); }
inline complex<symns::Sym> pow (const complex<symns::Sym>& z, const symns::Sym& y)
{
    return symns::pairOf (symns::callNode ("cpow", {z.real ().n, z.imag ().n, y.n}));
}
} // namespace std
#include "shapes.h"
#include "main.h"
#include <ImathFun.h>
#include <ImathMath.h>
#include <ImathRoots.h>

namespace symns
{
static FnRecord* paramRecord (const char* name, std::initializer_list<const char*> args)
{
    FnRecord* r = new FnRecord;
    r->name   = name;
    r->status = "param";
    for (auto* a : args) r->params.push_back (Param{a, nullptr, std::vector<const Node*> (1, nullptr)});
    fnIndex ()[name] = r;
    return r;
}
static int regC17Params = [] {
    paramRecord ("copysign", {"x", "y"});
    paramRecord ("csqrt", {"re", "im"});
    paramRecord ("cpow", {"re", "im", "y"});
    paramFns ()["copysign"] = "α → α → α";
    paramFns ()["csqrt"]    = "α → α → α × α";
    paramFns ()["cpow"]     = "α → α → α → α × α";
    natives ()["copysign"]  = Native{[] (const std::vector<double>& a) { return std::vector<double>{std::copysign (a[0], a[1])}; },
                                    [] (const std::vector<float>& a) { return std::vector<float>{std::copysign (a[0], a[1])}; }};
    natives ()["csqrt"]     = Native{[] (const std::vector<double>& a) { auto r = std::sqrt (std::complex<double> (a[0], a[1])); return std::vector<double>{r.real (), r.imag ()}; },
                                 [] (const std::vector<float>& a) { auto r = std::sqrt (std::complex<float> (a[0], a[1])); return std::vector<float>{r.real (), r.imag ()}; }};
    natives ()["cpow"]      = Native{[] (const std::vector<double>& a) { auto r = std::pow (std::complex<double> (a[0], a[1]), a[2]); return std::vector<double>{r.real (), r.imag ()}; },
                                [] (const std::vector<float>& a) { auto r = std::pow (std::complex<float> (a[0], a[1]), a[2]); return std::vector<float>{r.real (), r.imag ()}; }};
    return 0;
}();
} // namespace symns

using namespace IMATH_INTERNAL_NAMESPACE;
#include "ops_c17.h"
int main (int argc, char** argv) { return symns::sym_main (argc, argv); }
