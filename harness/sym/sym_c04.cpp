#include "sym.h"
#include <half.h>
#include "shapes.h"
#include "main.h"
using namespace IMATH_INTERNAL_NAMESPACE;
#include "ops_c04.h"
int main (int argc, char** argv) { return symns::sym_main (argc, argv); }
