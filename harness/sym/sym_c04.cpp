#include "sym.h"
#include <half.h>
#include "shapes.h"
#include "main.h"
using namespace IMATH_INTERNAL_NAMESPACE;
#include "ops_c04.h"

// ---------------------------------------------------------------------------------------------------
// `showcheck <seed>`: the last clause of C04 run end to end on the REAL element types (no Sym involved):
// for every aggregate type x {short, int, int64, half, float, double} x three stream states, a value with
// pairwise distinct components is printed through the real operator<<; the text is tokenised on whitespace and
// parentheses (the same separators as Spec/ShowSpec.lean `isSep`) and must give exactly one token per component,
// in declaration order (matrices row-major), each equal to what `os << component` prints in the stream state in
// force when that component is printed: for vectors, colours, shears and quaternions that is the caller's state
// (checked: the extracted text records no change of flags / precision), for matrices the caller's state as modified
// by the matrix operator (scientific unless fixed, showpoint) -- the flags and precision recorded per element in the
// extracted text `Gen.<Ty>.show*`, i.e. exactly the `t i w flags prec` of Show.showOK_tokens.  Also checked: every component's printed form is a proper token (the hypothesis `Hyg` of
// Show.showOK_tokens: non-empty, no separator character), one pair of parentheses, vectors on one line with
// single spaces, matrices one row per line, and the caller's stream state is restored.
// unsigned char is reported separately (it prints raw characters: outside the property's "non-character" claim).
namespace showcheck
{
static long cases = 0, fails = 0, tokensSeen = 0, ucharCases = 0, ucharNonHyg = 0;
static bool isSep (char ch) { return ch == ' ' || ch == '\n' || ch == '\t' || ch == '\r' || ch == '(' || ch == ')'; }
static std::vector<std::string> tokens (const std::string& s)
{
    std::vector<std::string> out;
    std::string cur;
    for (char ch : s)
    {
        if (isSep (ch)) { if (!cur.empty ()) out.push_back (cur); cur.clear (); }
        else cur += ch;
    }
    if (!cur.empty ()) out.push_back (cur);
    return out;
}
static void setState (std::ostream& os, int st)
{
    if (st == 1) os << std::fixed << std::setprecision (3);
    if (st == 2) os << std::scientific << std::setprecision (9);
}
static std::string esc (const std::string& s)
{
    std::string o;
    for (unsigned char ch : s) { if (ch == '\n') o += "\\n"; else if (ch < 32 || ch > 126) { char b[8]; snprintf (b, 8, "\\x%02x", ch); o += b; } else o += (char) ch; }
    return o;
}
template <class T> static T pick (std::mt19937_64& g, int i, int variant)
{
    // pairwise distinct components: distinct integer parts i+1, sign / fraction / magnitude varied
    if (std::numeric_limits<T>::is_integer)
    {
        long v = (long) (i + 1) * (variant == 2 ? 1009 : variant == 1 ? 13 : 1) + (variant ? (long) (g () % 7) : 0);
        if (sizeof (T) == 1) return (T) (33 + (v % 90)); // printable for the uchar report
        if (sizeof (T) == 2) v %= 30000;
        return (T) ((std::numeric_limits<T>::is_signed && (g () & 1) && variant) ? -v : v);
    }
    static const double scale[] = {1.0, 0.001, 1000.0, 1e-7, 12345.678};
    double v = (double) (i + 1) + (variant ? 0.0625 * (double) (g () % 16) : 0.0);
    v *= scale[variant ? g () % 5 : 0];
    if (variant && (g () & 1)) v = -v;
    if (variant == 3 && i == 0) v = std::numeric_limits<double>::infinity ();
    if (variant == 3 && i == 1) v = -0.0;
    return symns::fromDouble<T> (v);
}
// per extracted show entry: (slot, flags, precision) of every element token, in order of appearance
static std::map<std::string, std::vector<symns::TextSeg>>& recorded () { static std::map<std::string, std::vector<symns::TextSeg>> m; return m; }
static void loadRecorded ()
{
    for (auto& e : symns::entries ())
    {
        if (e.module != "C04Show" || e.name.find (".show") == std::string::npos || e.name.find ("Keeps") != std::string::npos) continue;
        symns::FnRecord* r = symns::explore (e);
        std::vector<symns::TextSeg> toks;
        if (r->status == "ok" && r->paths.size () == 1 && r->paths[0].leaf.strs.size () == 1)
            for (auto& t : symns::parseText (r->paths[0].leaf.strs[0]))
                if (t.tok)
                {
                    long k = 0, slot = -1;
                    for (auto& p : r->params) for (auto* v : p.vars) { if (v->id == t.node) slot = k; ++k; }
                    t.node = (int) slot;
                    toks.push_back (t);
                }
        recorded ()[e.name] = toks;
    }
}
template <class G, class T> static void one (const char* ty, const char* lean, const char* el, int rows, std::mt19937_64& g, int st, int variant, bool isChar)
{
    G                a{};
    std::vector<T*> ptrs;
    symns::Agg<G>::flat (a, ptrs);
    for (size_t i = 0; i < ptrs.size (); ++i) *ptrs[i] = pick<T> (g, (int) i, variant);
    std::ostringstream os;
    setState (os, st);
    auto fl = os.flags (); auto pr = os.precision (); auto fi = os.fill ();
    os << a;
    bool        kept = os.flags () == fl && os.precision () == pr && os.fill () == fi;
    std::string text = os.str ();
    std::vector<std::string> want;
    bool hyg = true, stateOK = true, matState = true;
    const auto& rec = recorded ()[std::string (lean) + (st == 0 ? ".show" : st == 1 ? ".showFixed" : ".showSci")];
    if (rec.size () != ptrs.size ()) stateOK = false;
    for (size_t i = 0; i < ptrs.size (); ++i)
    {
        std::ostringstream o;
        setState (o, st);
        if (i < rec.size ())
        {
            // one-line types: the element is printed in the caller's state; matrices: in the state the operator sets
            if (rows == 1 && ((std::ios_base::fmtflags) rec[i].flags != o.flags () || rec[i].prec != (long) o.precision ())) stateOK = false;
            if (rec[i].node != (long) i) stateOK = false;
            if (rows > 1)
            {
                // WHICH state the matrix operators print their elements in (ImathMatrix.h operator<<): the caller's flags with showpoint added, and
                // scientific added unless the caller's stream is fixed; precision unchanged; field width precision + 5 (fixed) or + 8
                const auto ff = std::ios_base::floatfield;
                auto want = o.flags () | std::ios_base::showpoint;
                if (!(o.flags () & std::ios_base::fixed)) want |= std::ios_base::scientific;
                long ww = (long) o.precision () + ((o.flags () & std::ios_base::fixed) ? 5 : 8);
                (void) ff;
                if ((std::ios_base::fmtflags) rec[i].flags != want || rec[i].prec != (long) o.precision () || rec[i].w != ww) matState = false;
            }
            o.flags ((std::ios_base::fmtflags) rec[i].flags);
            o.precision (rec[i].prec);
        }
        o << *ptrs[i];
        want.push_back (o.str ());
        if (o.str ().empty ()) hyg = false;
        for (char ch : o.str ()) if (isSep (ch)) hyg = false;
    }
    if (isChar) { ++ucharCases; if (!hyg) ++ucharNonHyg; return; }
    ++cases;
    auto got = tokens (text);
    tokensSeen += (long) got.size ();
    std::string why;
    if (!stateOK) why = "the extracted text does not print slot i as the i-th element in the caller's stream state (vectors) / has the wrong number of elements";
    else if (!matState) why = "a matrix element is not printed with the caller's flags + showpoint (+ scientific unless fixed), unchanged precision, width precision + 5 / + 8";
    else if (!hyg) why = "a component's own printed form is not a proper token";
    else if (got != want) why = got.size () != want.size () ? "token count differs from the number of components" : "a token differs from the component's own printed form";
    else if (!kept) why = "the stream's flags / precision / fill / width are not restored";
    else
    {
        // layout: one pair of parentheses, `rows` lines of components, single spaces between vector components
        long open = 0, close = 0, nl = 0;
        for (char ch : text) { open += ch == '('; close += ch == ')'; nl += ch == '\n'; }
        if (open != 1 || close != 1 || text.empty () || text[0] != '(') why = "not exactly one pair of parentheses";
        else if (rows == 1)
        {
            std::string exp = "(";
            for (size_t i = 0; i < want.size (); ++i) exp += (i ? " " : "") + want[i];
            if (text != exp + ")") why = "vector layout is not `(c0 c1 ... cN)` with single spaces";
        }
        else if (nl != rows) why = "matrix does not print one row per line";
        else
        {
            // every line holds exactly `rows` tokens
            std::istringstream is (text);
            std::string ln;
            while (std::getline (is, ln)) if ((long) tokens (ln).size () != rows) why = "a matrix line does not hold exactly one row";
        }
    }
    if (!why.empty ())
    {
        ++fails;
        std::string w;
        for (auto& x : want) w += "[" + esc (x) + "]";
        std::string t;
        for (auto& x : got) t += "[" + esc (x) + "]";
        printf ("SHOW-FAIL %s<%s> state=%d :: %s :: text=%s :: tokens=%s :: components_printed_alone=%s\n", ty, el, st, why.c_str (), esc (text).c_str (), t.c_str (), w.c_str ());
    }
}
template <class T> static void all (const char* el, std::mt19937_64& g, bool isChar = false)
{
    for (int st = 0; st < 3; ++st)
        for (int variant = 0; variant < 4; ++variant)
        {
            one<Vec2<T>, T> ("Vec2", "V2", el, 1, g, st, variant, isChar); one<Vec3<T>, T> ("Vec3", "V3", el, 1, g, st, variant, isChar);
            one<Vec4<T>, T> ("Vec4", "V4", el, 1, g, st, variant, isChar); one<Color3<T>, T> ("Color3", "C3", el, 1, g, st, variant, isChar);
            one<Color4<T>, T> ("Color4", "C4", el, 1, g, st, variant, isChar); one<Shear6<T>, T> ("Shear6", "Shear6", el, 1, g, st, variant, isChar);
            one<Quat<T>, T> ("Quat", "Quat", el, 1, g, st, variant, isChar); one<Matrix22<T>, T> ("Matrix22", "M22", el, 2, g, st, variant, isChar);
            one<Matrix33<T>, T> ("Matrix33", "M33", el, 3, g, st, variant, isChar); one<Matrix44<T>, T> ("Matrix44", "M44", el, 4, g, st, variant, isChar);
        }
}
static int run (unsigned long seed)
{
    std::mt19937_64 g (seed);
    loadRecorded ();
    all<short> ("short", g); all<int> ("int", g); all<int64_t> ("int64", g); all<half> ("half", g); all<float> ("float", g); all<double> ("double", g);
    all<unsigned char> ("uchar", g, true);
    printf ("SHOWCHECK cases=%ld tokens=%ld failures=%ld uchar_cases=%ld uchar_with_non_token_components=%ld\n", cases, tokensSeen, fails, ucharCases, ucharNonHyg);
    return fails ? 1 : 0;
}
}

int main (int argc, char** argv)
{
    std::string mode = argc > 1 ? argv[1] : "list";
    if (mode == "showcheck") return showcheck::run (argc > 2 ? strtoul (argv[2], 0, 10) : 1);
    int rc = symns::sym_main (argc, argv);
    if (mode == "tv")
    {
        // hit counts of the special generators (equalWith*, division, conversions): one line, parsed by tools/props/c04.py
        for (auto& kv : symns::eqerrLeafCount ())
        {
            ++symns::c04stats ()["eqerr.entries"];
            if (symns::eqerrLeaves ()[kv.first].size () == kv.second) ++symns::c04stats ()["eqerr.entries_with_every_leaf_reached"];
            else printf ("C04-EQERR-LEAVES %s reached=%zu of=%zu\n", kv.first.c_str (), symns::eqerrLeaves ()[kv.first].size (), kv.second);
        }
        printf ("C04STATS");
        for (auto& kv : symns::c04stats ()) printf (" %s=%ld", kv.first.c_str (), kv.second);
        printf ("\n");
        if (const char* f = getenv ("C04_STATS_FILE"))
            if (FILE* fp = fopen (f, "w"))
            {
                for (auto& kv : symns::c04stats ()) fprintf (fp, "%s=%ld\n", kv.first.c_str (), kv.second);
                fclose (fp);
            }
    }
    return rc;
}
