// C10 extractor: quaternion / matrix / axis-angle rotations (modules C10Quat, C10Algo).
#include "sym.h"
#include "c10frac.h" // FracS: Vec3::length at exact fractions (rattv), before any Imath header
#include "shapes.h"
#include "main.h"
#include "c10extra.h"
#include <ImathMatrixAlgo.h>
OPAQUE_LENGTH (Vec3, "V3", 3)
// the REAL Vec3::length at exact fractions with the fixed stubs (c10frac.h): the entries that call it (exp, angle, axis,
// setAxisAngle, normalized, setRotationInternal, intermediate, M44.setAxisAngle) are then covered by troute.lean_tv instead of skipped
static std::vector<symns::Frac> fracLength3 (const std::vector<symns::Frac>& a)
{
    return symns::fracRun ([&] {
        IMATH_INTERNAL_NAMESPACE::Vec3<symns::FracS> v (a[0], a[1], a[2]);
        return std::vector<symns::FracS>{v.length ()};
    });
}
static int native_c10_q = (symns::natives ()["V3.length"].q = &fracLength3, 0);
using namespace IMATH_INTERNAL_NAMESPACE;
#include "c10priv.h"
C10_STEAL (symns::Sym)
C10_STEAL (double)
C10_STEAL (float)
#include "ops_c10.h"
int main (int argc, char** argv)
{
    int rc = symns::sym_main (argc, argv);
    // intermediate (96 paths) never survives the generic rattv generator: hand-picked sparse keys, see c10extra.h
    if (argc > 1 && std::string (argv[1]) == "rattv") symns::c10ExtraRatCases ("C10.Quat.intermediate", 3, false, argc > 2 ? strtoul (argv[2], 0, 10) : 1, argc > 3 ? atoi (argv[3]) : 3);
    return rc;
}
