// C10 extractor: quaternion / matrix / axis-angle rotations (modules C10Quat, C10Algo).
#include "sym.h"
#include "shapes.h"
#include "main.h"
#include <ImathMatrixAlgo.h>
OPAQUE_LENGTH (Vec3, "V3", 3)
using namespace IMATH_INTERNAL_NAMESPACE;
#include "c10priv.h"
C10_STEAL (symns::Sym)
C10_STEAL (double)
C10_STEAL (float)
#include "ops_c10.h"
int main (int argc, char** argv) { return symns::sym_main (argc, argv); }
