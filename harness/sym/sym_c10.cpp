// C10 extractor: quaternion / matrix / axis-angle rotations (modules C10Quat, C10Algo).
#include "sym.h"
#include "c10frac.h" // FracS: Vec3::length at exact fractions (rattv), before any Imath header
#include "shapes.h"
#include "main.h"
#include "c10extra.h"
#include <ImathMatrixAlgo.h>
OPAQUE_LENGTH (Vec3, "V3", 3)
// the REAL Vec3::length at exact fractions with the fixed stubs (c10frac.h): the entries that call it (exp, angle, axis,
// setAxisAngle, normalized, setRotationInternal, intermediate, M44.setAxisAngle) are then covered by troute.lean_tv instead of skipped
static std::vector<symns::Frac> fracLength3 (const std::vector<symns::Frac>& a)
{
    return symns::fracRun ([&] {
        IMATH_INTERNAL_NAMESPACE::Vec3<symns::FracS> v (a[0], a[1], a[2]);
        return std::vector<symns::FracS>{v.length ()};
    });
}
static int native_c10_q = (symns::natives ()["V3.length"].q = &fracLength3, 0);
using namespace IMATH_INTERNAL_NAMESPACE;
#include "c10priv.h"
C10_STEAL (symns::Sym)
C10_STEAL (double)
C10_STEAL (float)
#include "ops_c10.h"
// Directed translator validation for the branching interpolation / log / exp trees (audit r2 N4): generic TV inputs rarely make
// theta^2 < epsilon, hit r == 1 exactly or a zero-length combination, so the tiny-angle leaves were never compared with the real
// code bit for bit.  Inputs are built for those leaves: q2 = q1 * (rotation by theta), theta in {0 exactly, 1e-9, 1e-5, 1e-3, generic,
// ~pi, exactly -q1}, t in {0, 1e-9, 1/2, 1, 1 - 1e-9, 2, -0.1, 1e5}; keys of `intermediate` equal / within 1e-9 / mirrored about q1 /
// generic / zero; log at r = 1, r > 1, r = -1, generic; exp at v = 0, denormal, tiny, generic, |v| >= 1.
// Prints  TVDIR <entry> evals= failures= leaves_hit= paths=  (tools/props/c10.py obliges a floor per tree).
namespace c10dir
{
using namespace symns;
typedef std::mt19937_64 Rng;
static double U (Rng& g) { return std::uniform_real_distribution<double> (-1.0, 1.0) (g); }
struct Q { double r, x, y, z; };
static Q qmul (const Q& a, const Q& b) { return Q{a.r * b.r - (a.x * b.x + a.y * b.y + a.z * b.z), a.r * b.x + b.r * a.x + (a.y * b.z - a.z * b.y), a.r * b.y + b.r * a.y + (a.z * b.x - a.x * b.z), a.r * b.z + b.r * a.z + (a.x * b.y - a.y * b.x)}; }
static Q qnorm (Q a) { double l = std::sqrt (a.r * a.r + a.x * a.x + a.y * a.y + a.z * a.z); return l > 0 ? Q{a.r / l, a.x / l, a.y / l, a.z / l} : a; }
static Q unitQ (Rng& g)
{
    switch (g () % 6)
    {
        case 0: return Q{1, 0, 0, 0};
        case 1: return Q{0, 1, 0, 0};
        case 2: return Q{-1, 0, 0, 0};
        case 3: return qnorm (Q{1, 1e-9 * U (g), 1e-9 * U (g), 1e-9 * U (g)});
        default: return qnorm (Q{U (g), U (g), U (g), U (g)});
    }
}
static Q rot (Rng& g, double th)
{
    Q d = qnorm (Q{0, U (g), U (g), U (g)});
    return Q{std::cos (th), d.x * std::sin (th), d.y * std::sin (th), d.z * std::sin (th)};
}
static double theta (Rng& g)
{
    // around sqrt (epsilon) of both element types (float 3.45e-4, double 1.49e-8): a tiny with 2a / 1.1a not tiny, a not tiny with a/2 tiny
    static const double th[] = {0, 1e-9, 1e-5, 1e-3, 3e-4, 0.7, 2.0, 3.14159, 1e-12, 1.5707963267948966, 3.3e-4, 5e-4, 1.4e-8, 2e-8, 1e-8, 3.0};
    return th[g () % 16];
}
static double param (Rng& g)
{
    static const double ts[] = {0, 1e-9, 0.5, 1, 1 - 1e-9, 2, -0.1, 1e5, 1e-4, 0.25, -1e5, 1.1};
    return ts[g () % 12];
}
template <class T> static void push (std::vector<T>& in, const Q& q) { in.push_back ((T) q.r); in.push_back ((T) q.x); in.push_back ((T) q.y); in.push_back ((T) q.z); }
// second quaternion relative to the first: equal (bitwise), step theta, exactly antipodal, zero
static Q second (Rng& g, const Q& q1)
{
    switch (g () % 8)
    {
        case 0: return q1;
        case 1: return Q{-q1.r, -q1.x, -q1.y, -q1.z};
        case 2: return Q{0, 0, 0, 0};
        default: return qnorm (qmul (q1, rot (g, theta (g))));
    }
}
template <class T> struct Gen
{
    static std::vector<T> slerp (Rng& g, bool same)
    {
        std::vector<T> in;
        Q q1 = (g () % 9 == 0) ? Q{0, 0, 0, 0} : unitQ (g);
        push (in, q1);
        Q q2 = second (g, q1);
        if (!same) push (in, q2);
        double t = param (g);
        // zero-length combination on the mixed leaves: q1 = 0 with t = 0, q2 = 0 with t = 1
        if (!same && q1.r == 0 && q1.x == 0 && q1.y == 0 && q1.z == 0 && g () % 2) t = 0;
        if (!same && q2.r == 0 && q2.x == 0 && q2.y == 0 && q2.z == 0 && g () % 2) t = 1;
        in.push_back ((T) t);
        return in;
    }
    static std::vector<T> intermediate (Rng& g)
    {
        std::vector<T> in;
        Q q1 = (g () % 12 == 0) ? Q{0, 0, 0, 0} : unitQ (g);
        Q q0, q2;
        switch (g () % 6)
        {
            case 0: q0 = q1; q2 = q1; if (g () % 2) { Q d = rot (g, 3.0); q0 = q2 = qmul (q1, d); } break; // both logs at theta == 0, exp at 0 / both steps ~pi the same way: |P| >= 1
            case 1: { Q d = rot (g, theta (g)); q0 = qmul (q1, d); q2 = qmul (q1, Q{d.r, -d.x, -d.y, -d.z}); } break; // mirrored: the logs cancel
            case 2: q0 = q1; q2 = second (g, q1); break;
            case 3: q0 = second (g, q1); q2 = q1; break;
            default: q0 = second (g, q1); q2 = second (g, q1); break;
        }
        push (in, q0); push (in, q1); push (in, q2);
        return in;
    }
    static std::vector<T> log (Rng& g)
    {
        std::vector<T> in;
        switch (g () % 7)
        {
            case 0: push (in, Q{1, U (g), U (g), U (g)}); break;        // r == 1 exactly (theta == 0), any v
            case 1: push (in, Q{1.5, U (g), 0, 0}); break;              // r > 1: min (r, 1)
            case 2: push (in, Q{-1, 1e-9 * U (g), 0, 0}); break;        // theta = pi (rounded)
            case 3: push (in, Q{0, 1, 0, 0}); break;                    // |sin theta| == 1
            case 4: push (in, qnorm (Q{1, 1e-5 * U (g), 1e-5 * U (g), 0})); break;
            default: push (in, unitQ (g)); break;
        }
        return in;
    }
    static std::vector<T> exp (Rng& g)
    {
        std::vector<T> in;
        double sc;
        switch (g () % 7)
        {
            case 0: sc = 0; break;
            case 1: sc = (double) std::numeric_limits<T>::denorm_min () * 3; break;
            case 2: sc = (double) std::numeric_limits<T>::min () * 0.75; break;   // squares underflow: lengthTiny
            case 3: sc = 1e-9; break;
            case 4: sc = 2.5; break;                                               // |theta| >= 1
            default: sc = 0.8; break;
        }
        push (in, Q{U (g), sc * U (g), sc * U (g), sc * U (g)});
        return in;
    }
    static std::vector<T> quatAny (Rng& g)
    {
        std::vector<T> in;
        push (in, g () % 4 == 0 ? Q{0, 0, 0, 0} : g () % 3 == 0 ? unitQ (g) : Q{U (g) * 10, U (g), U (g), U (g)});
        return in;
    }
};
struct Row { const char* name; long evals = 0, bad = 0; std::set<size_t> hit; };
template <class T, class G> static void run (Row& row, void (*body) (Ctx<T>&), unsigned long seed, int n, G gen)
{
    auto fi = fnIndex ().find (row.name);
    if (fi == fnIndex ().end ()) return;
    Rng g (seed);
    for (int k = 0; k < n; ++k)
    {
        std::vector<T> in = gen (g);
        std::string d;
        size_t leaf = (size_t) -1;
        ++row.evals;
        bool ok = tvOne<T> (*fi->second, body, in, d, &leaf);
        if (leaf != (size_t) -1) row.hit.insert (leaf);
        if (!ok)
        {
            ++row.bad;
            printf ("TVFAIL %s %s :: %s :: in=", sizeof (T) == 4 ? "float" : "double", row.name, d.c_str ());
            for (auto& x : in) printf ("%.17g ", (double) x);
            printf ("\n");
        }
    }
}
#define C10DIR(NAME, IDENT, GEN)                                                                     \
    {                                                                                                 \
        Row row; row.name = NAME;                                                                     \
        run<double> (row, &X_##IDENT::run<double>, seed * 31 + 1, n, [] (Rng& g) { return Gen<double>::GEN; }); \
        run<float> (row, &X_##IDENT::run<float>, seed * 31 + 2, n, [] (Rng& g) { return Gen<float>::GEN; });   \
        printf ("TVDIR %s evals=%ld failures=%ld leaves_hit=%zu paths=%zu\n", NAME, row.evals, row.bad, row.hit.size (), fnIndex ()[NAME]->paths.size ()); \
        if (getenv ("C10DIR_DEBUG")) for (size_t L = 0; L < fnIndex ()[NAME]->paths.size (); ++L) { printf ("  leaf %zu %s:", L, row.hit.count (L) ? "HIT " : "miss"); for (auto& c : fnIndex ()[NAME]->paths[L].conds) printf (" %d", (int) c.second); printf ("\n"); } \
        bad += row.bad;                                                                               \
    }
static int main_ (unsigned long seed, int n)
{
    long bad = 0;
    C10DIR ("C10.Quat.slerp", q_slerp, slerp (g, false))
    C10DIR ("C10.Quat.slerpShortestArc", q_slerpShortestArc, slerp (g, false))
    C10DIR ("C10.Quat.slerpSame", q_slerpSame, slerp (g, true))
    C10DIR ("C10.Quat.intermediate", q_intermediate, intermediate (g))
    C10DIR ("C10.Quat.log", q_log, log (g))
    C10DIR ("C10.Quat.exp", q_exp, exp (g))
    C10DIR ("C10.Quat.normalize", q_normalize, quatAny (g))
    C10DIR ("C10.Quat.normalized", q_normalized, quatAny (g))
    C10DIR ("C10.Quat.axis", q_axis, quatAny (g))
    return bad ? 1 : 0;
}
} // namespace c10dir
int main (int argc, char** argv)
{
    if (argc > 1 && std::string (argv[1]) == "tvdir")
    {
        std::vector<char*> av (argv, argv + argc);
        av[1] = (char*) "quiet";
        symns::sym_main ((int) av.size (), av.data ()); // unknown mode: explores the entries (fills fnIndex), prints nothing
        return c10dir::main_ (argc > 2 ? strtoul (argv[2], 0, 10) : 1, argc > 3 ? atoi (argv[3]) : 1500);
    }
    int rc = symns::sym_main (argc, argv);
    // intermediate (96 paths) never survives the generic rattv generator: hand-picked sparse keys, see c10extra.h
    if (argc > 1 && std::string (argv[1]) == "rattv") symns::c10ExtraRatCases ("C10.Quat.intermediate", 3, false, argc > 2 ? strtoul (argv[2], 0, 10) : 1, argc > 3 ? atoi (argv[3]) : 3);
    return rc;
}
