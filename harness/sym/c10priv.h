// Access to the PRIVATE member Quat<T>::setRotationInternal without touching the header: the address of a private
// member may be named in an explicit instantiation ([temp.spec]: access checks do not apply there); the
// instantiation stores it in Tag<T>::ptr during static initialisation.
#pragma once
#include <ImathQuat.h>
namespace c10priv
{
template <class T> struct Tag
{
    typedef void (IMATH_INTERNAL_NAMESPACE::Quat<T>::*type) (const IMATH_INTERNAL_NAMESPACE::Vec3<T>&, const IMATH_INTERNAL_NAMESPACE::Vec3<T>&, IMATH_INTERNAL_NAMESPACE::Quat<T>&) IMATH_NOEXCEPT;
    static type ptr;
};
template <class T> typename Tag<T>::type Tag<T>::ptr;
template <class T, typename Tag<T>::type p> struct Rob
{
    struct Filler { Filler () { Tag<T>::ptr = p; } };
    static Filler filler;
};
template <class T, typename Tag<T>::type p> typename Rob<T, p>::Filler Rob<T, p>::filler;
} // namespace c10priv
#define C10_STEAL(T) template struct c10priv::Rob<T, &IMATH_INTERNAL_NAMESPACE::Quat<T>::setRotationInternal>;
