// Shared by sym_c12.cpp and sym_c12e.cpp: `extractAndRemoveScalingAndShear<Sym>` (3-D, 2-D) as explicit specialisations that emit
// opaque calls of the hand model (Model/SHRT.lean; signatures: harness/sym/index_shrt.txt), and their native evaluators for
// translator validation (the REAL inner function at double / float).  Include after sym.h, shapes.h, main.h, ImathMatrixAlgo.h.
#pragma once
IMATH_INTERNAL_NAMESPACE_HEADER_ENTER
template <>
inline bool
extractAndRemoveScalingAndShear (Matrix44<symns::Sym>& mat, Vec3<symns::Sym>& scl, Vec3<symns::Sym>& shr, bool exc)
{
    using symns::Sym;
    const Matrix44<Sym> in = mat;
    Sym flag = symns::opaqueS ("SHRT.ear44Flag", in);
    if (flag == Sym (0))
    {
        if (exc) throw std::domain_error ("Cannot remove zero scaling from matrix.");
        return false;
    }
    mat = symns::opaqueA<Matrix44<Sym>> ("SHRT.ear44Mat", in);
    scl = symns::opaqueA<Vec3<Sym>> ("SHRT.ear44Scl", in);
    shr = symns::opaqueA<Vec3<Sym>> ("SHRT.ear44Shr", in);
    return true;
}
template <>
inline bool
extractAndRemoveScalingAndShear (Matrix33<symns::Sym>& mat, Vec2<symns::Sym>& scl, symns::Sym& shr, bool exc)
{
    using symns::Sym;
    const Matrix33<Sym> in = mat;
    Sym flag = symns::opaqueS ("SHRT.ear33Flag", in);
    if (flag == Sym (0))
    {
        if (exc) throw std::domain_error ("Cannot remove zero scaling from matrix.");
        return false;
    }
    mat = symns::opaqueA<Matrix33<Sym>> ("SHRT.ear33Mat", in);
    scl = symns::opaqueA<Vec2<Sym>> ("SHRT.ear33Scl", in);
    shr = symns::opaqueS ("SHRT.ear33Shr", in);
    return true;
}
IMATH_INTERNAL_NAMESPACE_HEADER_EXIT

// native evaluators (translator validation): the real inner function at double / float, non-throwing form
template <class T, int what> static std::vector<T> nativeEar44 (const std::vector<T>& a)
{
    IMATH_INTERNAL_NAMESPACE::Matrix44<T> m;
    for (int i = 0; i < 4; ++i) for (int j = 0; j < 4; ++j) m.x[i][j] = a[4 * i + j];
    IMATH_INTERNAL_NAMESPACE::Vec3<T> scl (0), shr (0);
    bool ok = IMATH_INTERNAL_NAMESPACE::extractAndRemoveScalingAndShear (m, scl, shr, false);
    std::vector<T> o;
    if (what == 0) o.push_back (ok ? T (1) : T (0));
    if (what == 1) for (int i = 0; i < 4; ++i) for (int j = 0; j < 4; ++j) o.push_back (m.x[i][j]);
    if (what == 2) for (int i = 0; i < 3; ++i) o.push_back (scl[i]);
    if (what == 3) for (int i = 0; i < 3; ++i) o.push_back (shr[i]);
    return o;
}
template <class T, int what> static std::vector<T> nativeEar33 (const std::vector<T>& a)
{
    IMATH_INTERNAL_NAMESPACE::Matrix33<T> m;
    for (int i = 0; i < 3; ++i) for (int j = 0; j < 3; ++j) m.x[i][j] = a[3 * i + j];
    IMATH_INTERNAL_NAMESPACE::Vec2<T> scl (0);
    T shr = 0;
    bool ok = IMATH_INTERNAL_NAMESPACE::extractAndRemoveScalingAndShear (m, scl, shr, false);
    std::vector<T> o;
    if (what == 0) o.push_back (ok ? T (1) : T (0));
    if (what == 1) for (int i = 0; i < 3; ++i) for (int j = 0; j < 3; ++j) o.push_back (m.x[i][j]);
    if (what == 2) for (int i = 0; i < 2; ++i) o.push_back (scl[i]);
    if (what == 3) o.push_back (shr);
    return o;
}
#define NATIVE(name, fn, w) static int native_##fn##w = (symns::natives ()[name] = symns::Native{&fn<double, w>, &fn<float, w>}, 0);
NATIVE ("SHRT.ear44Flag", nativeEar44, 0)
NATIVE ("SHRT.ear44Mat", nativeEar44, 1)
NATIVE ("SHRT.ear44Scl", nativeEar44, 2)
NATIVE ("SHRT.ear44Shr", nativeEar44, 3)
NATIVE ("SHRT.ear33Flag", nativeEar33, 0)
NATIVE ("SHRT.ear33Mat", nativeEar33, 1)
NATIVE ("SHRT.ear33Scl", nativeEar33, 2)
NATIVE ("SHRT.ear33Shr", nativeEar33, 3)

// With c10frac.h included first (SYMNS_HAVE_FRACS): the REAL inner function is also instantiated at the exact-fraction type FracS
// (fixed rational stubs for sqrt and the limit constants — the same as the tree evaluator and the Lean side use), so that
// troute.lean_tv validates the emitted text of the wrappers that call it (flag test, argument order, projections) instead of
// skipping them; the Lean side evaluates the HAND MODEL adapters (Model/SHRT.lean) at Rat with the same stubs, which makes this
// a second, exact-arithmetic tie between the hand model and the real template (besides the bitwise Float correspondence).
#ifdef SYMNS_HAVE_FRACS
template <int what> static std::vector<symns::Frac> fracEar44 (const std::vector<symns::Frac>& a)
{
    return symns::fracRun ([&] {
        using symns::FracS;
        IMATH_INTERNAL_NAMESPACE::Matrix44<FracS> m;
        for (int i = 0; i < 4; ++i) for (int j = 0; j < 4; ++j) m.x[i][j] = FracS (a[4 * i + j]);
        const IMATH_INTERNAL_NAMESPACE::Matrix44<FracS> in = m;
        IMATH_INTERNAL_NAMESPACE::Vec3<FracS> scl (FracS (0)), shr (FracS (0));
        bool ok = IMATH_INTERNAL_NAMESPACE::extractAndRemoveScalingAndShear (m, scl, shr, false);
        std::vector<FracS> o;
        // on failure the adapters of Model/SHRT.lean return (0, the input matrix, 0, 0)
        if (what == 0) o.push_back (ok ? FracS (1) : FracS (0));
        if (what == 1) for (int i = 0; i < 4; ++i) for (int j = 0; j < 4; ++j) o.push_back (ok ? m.x[i][j] : in.x[i][j]);
        if (what == 2) for (int i = 0; i < 3; ++i) o.push_back (ok ? scl[i] : FracS (0));
        if (what == 3) for (int i = 0; i < 3; ++i) o.push_back (ok ? shr[i] : FracS (0));
        return o;
    });
}
template <int what> static std::vector<symns::Frac> fracEar33 (const std::vector<symns::Frac>& a)
{
    return symns::fracRun ([&] {
        using symns::FracS;
        IMATH_INTERNAL_NAMESPACE::Matrix33<FracS> m;
        for (int i = 0; i < 3; ++i) for (int j = 0; j < 3; ++j) m.x[i][j] = FracS (a[3 * i + j]);
        const IMATH_INTERNAL_NAMESPACE::Matrix33<FracS> in = m;
        IMATH_INTERNAL_NAMESPACE::Vec2<FracS> scl (FracS (0));
        FracS shr (0);
        bool ok = IMATH_INTERNAL_NAMESPACE::extractAndRemoveScalingAndShear (m, scl, shr, false);
        std::vector<FracS> o;
        if (what == 0) o.push_back (ok ? FracS (1) : FracS (0));
        if (what == 1) for (int i = 0; i < 3; ++i) for (int j = 0; j < 3; ++j) o.push_back (ok ? m.x[i][j] : in.x[i][j]);
        if (what == 2) for (int i = 0; i < 2; ++i) o.push_back (ok ? scl[i] : FracS (0));
        if (what == 3) o.push_back (ok ? shr : FracS (0));
        return o;
    });
}
#define NATIVEQ(name, fn, w) static int nativeq_##fn##w = (symns::natives ()[name].q = &fn<w>, 0);
NATIVEQ ("SHRT.ear44Flag", fracEar44, 0)
NATIVEQ ("SHRT.ear44Mat", fracEar44, 1)
NATIVEQ ("SHRT.ear44Scl", fracEar44, 2)
NATIVEQ ("SHRT.ear44Shr", fracEar44, 3)
NATIVEQ ("SHRT.ear33Flag", fracEar33, 0)
NATIVEQ ("SHRT.ear33Mat", fracEar33, 1)
NATIVEQ ("SHRT.ear33Scl", fracEar33, 2)
NATIVEQ ("SHRT.ear33Shr", fracEar33, 3)
#endif
