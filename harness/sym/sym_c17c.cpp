// C17 colour extractor (module C17Color): the four NON-template bodies of src/Imath/ImathColorAlgo.cpp
//   Vec3<double>   hsv2rgb_d (const Vec3<double>&)      Color4<double> hsv2rgb_d (const Color4<double>&)
//   Vec3<double>   rgb2hsv_d (const Vec3<double>&)      Color4<double> rgb2hsv_d (const Color4<double>&)
//
// They are written for `double`, not for a template parameter, so T = Sym cannot be "instantiated".  The translation
// unit is instead compiled TWICE from the very same file of /repo:
//   1. as it stands                       -> the real functions (the reference of the translator validation, at double);
//   2. with the token `double` defined as the symbolic scalar (`#define double symns::Sym`)
//                                         -> overloads `hsv2rgb_d (const Vec3<Sym>&)` ... whose statements are the source's
//      statements, executed on symbolic components by the path explorer like every other T-route entry.
// (`#include "ImathColorAlgo.h"` inside the .cpp is skipped the second time by its include guard; literals such as `6.` and
// `0.0` keep their type double and convert to Sym as everywhere else.)
//
// `int (std::floor (hue))`: `std::floor (Sym)` returns a SymFloor whose `explicit operator int` asks the explorer
// "floorR (hue) == k ?" for k = 0 ... 5 in turn and returns 6 (no `case` label: x = y = z stay 0) when all are refused, so the
// `switch` runs on a concrete int on every path and the emitted tree is `if floorR h = 0 then .. else if floorR h = 1 ...`.
// `floorR : α → α` is an uninterpreted PARAMETER of the emitted definitions (the floor as a value of the scalar type);
// theorems gen_hsv2rgbV3 / gen_hsv2rgbC4 (Props/C17.lean) instantiate it with `fun x => ((floorInt x : Int) : α)` and prove
// the emitted tree equal to the hand model Model/ColorAlgo.lean for every input.
#include "sym.h"
namespace symns
{
inline const Node* callNode (const std::string& name, std::vector<const Node*> k) { return pool ().mk (CALL, k, name); }
struct SymFloor
{
    Sym v;
    explicit operator int () const
    {
        for (int k = 0; k < 6; ++k)
            if (v == Sym (k)) return k;
        return 6;
    }
};
} // namespace symns
namespace std
{
inline symns::SymFloor floor (symns::Sym a) { return symns::SymFloor{symns::Sym (symns::callNode ("floorR", {a.n}))}; }
} // namespace std
#include "shapes.h"
#include "main.h"
#include <ImathColorAlgo.h>
#include <cmath>

// 1. the real functions
#include <ImathColorAlgo.cpp>
// 2. the same statements at the symbolic scalar
#define double symns::Sym
#include <ImathColorAlgo.cpp>
#undef double

namespace symns
{
static int regC17cParams = [] {
    FnRecord* r = new FnRecord;
    r->name   = "floorR";
    r->status = "param";
    r->params.push_back (Param{"x", nullptr, std::vector<const Node*> (1, nullptr)});
    fnIndex ()["floorR"] = r;
    paramFns ()["floorR"] = "α → α";
    natives ()["floorR"]  = Native{[] (const std::vector<double>& a) { return std::vector<double>{std::floor (a[0])}; },
                                  [] (const std::vector<float>& a) { return std::vector<float>{std::floor (a[0])}; },
                                  // exact fractions (Lean-side validation; the Lean stub is `fun x => ((Rat.floor x : Int) : Rat)`)
                                  [] (const std::vector<Frac>& a) {
                                      I128 q = a[0].n / a[0].d;
                                      if (a[0].n % a[0].d != 0 && a[0].n < 0) q -= 1;
                                      return std::vector<Frac>{Frac (q, (I128) 1)};
                                  }};
    return 0;
}();
} // namespace symns

using namespace IMATH_INTERNAL_NAMESPACE;

// translator validation at double only: the functions exist for double and for Sym, not for float
#define EXTRACT_DOUBLE(module, ident, leanname, opts, ...)                                                                              \
    struct X_##ident { template <class T> static void run (symns::Ctx<T>& c) __VA_ARGS__ };                                             \
    static int reg_##ident = (symns::entries ().push_back (symns::Entry{module, leanname, opts, &X_##ident::run<symns::Sym>,            \
        {{"double", symns::makeTV<double> (&X_##ident::run<double>)}}, symns::makeRun (&X_##ident::run<double>)}), 0);

#define LAT symns::Opts ().lattice (8)
EXTRACT_DOUBLE ("C17Color", c17c_hsv2rgbV3, "Color.hsv2rgbV3", LAT, { auto a = c.template in<Vec3<T>> ("hsv"); c.out (hsv2rgb_d (a)); })
EXTRACT_DOUBLE ("C17Color", c17c_hsv2rgbC4, "Color.hsv2rgbC4", LAT, { auto a = c.template in<Color4<T>> ("hsv"); c.out (hsv2rgb_d (a)); })
EXTRACT_DOUBLE ("C17Color", c17c_rgb2hsvV3, "Color.rgb2hsvV3", LAT, { auto a = c.template in<Vec3<T>> ("c"); c.out (rgb2hsv_d (a)); })
EXTRACT_DOUBLE ("C17Color", c17c_rgb2hsvC4, "Color.rgb2hsvC4", LAT, { auto a = c.template in<Color4<T>> ("c"); c.out (rgb2hsv_d (a)); })

int main (int argc, char** argv) { return symns::sym_main (argc, argv); }
