// C10 extraction table: quaternion / matrix / axis-angle rotations.
// Lean names carry the prefix `C10.` because all Gen modules share the namespace ImathVerif.Gen
// (C04Quat / C05 / C09 extract other Quat / Matrix members).
//   module C10Quat : ImathQuat.h members and free functions, ImathMath.h sinx_over_x
//   module C10Algo : ImathMatrixAlgo.h extractQuat / rotationMatrix, ImathMatrix.h Matrix44::setAxisAngle
// Vec3::length() is an opaque call of Gen `V3.length` (OPAQUE_LENGTH in sym_c10.cpp; real body in Gen/Leaf.lean).
// squad / spline are extracted by sym_c10b.cpp (ops_c10b.h) with slerp / intermediate opaque.
#define IN(Ty, n) auto n = c.template in<Ty<T>> (#n)

// ---- rotating a vector, matrix forms
EXTRACT ("C10Quat", q_rotateVector, "C10.Quat.rotateVector", { IN (Quat, q); IN (Vec3, v); c.out (q.rotateVector (v)); })
EXTRACT ("C10Quat", q_vecMulQuat, "C10.V3.mulQuat", { IN (Vec3, v); IN (Quat, q); c.out (v * q); })
EXTRACT ("C10Quat", q_toMatrix33, "C10.Quat.toMatrix33", { IN (Quat, q); c.out (q.toMatrix33 ()); })
EXTRACT ("C10Quat", q_toMatrix44, "C10.Quat.toMatrix44", { IN (Quat, q); c.out (q.toMatrix44 ()); })
EXTRACT ("C10Quat", q_m33MulQuat, "C10.M33.mulQuat", { IN (Matrix33, m); IN (Quat, q); c.out (m * q); })
EXTRACT ("C10Quat", q_quatMulM33, "C10.Quat.mulM33", { IN (Quat, q); IN (Matrix33, m); c.out (q * m); })
// ---- the code's own vector x matrix and matrix x matrix operators (also in C05; extracted again so that C10's
//      theorems "rotateVector = v * toMatrix33" and "toMatrix33 (q1*q2) = product" are statements about the code's operators
//      and depend on C10's regenerated modules only)
EXTRACT ("C10Quat", v3_mulM33, "C10.V3.mulM33", { IN (Vec3, v); IN (Matrix33, m); c.out (v * m); })
EXTRACT ("C10Quat", v3_mulM44, "C10.V3.mulM44", { IN (Vec3, v); IN (Matrix44, m); c.out (v * m); })
EXTRACT ("C10Quat", m44_multDir, "C10.M44.multDirMatrix", { IN (Matrix44, m); IN (Vec3, v); Vec3<T> d; m.multDirMatrix (v, d); c.out (d); })
EXTRACT ("C10Quat", m33_mul, "C10.M33.mul", { IN (Matrix33, a); IN (Matrix33, b); c.out (a * b); })
EXTRACT ("C10Quat", m44_mul, "C10.M44.mul", { IN (Matrix44, a); IN (Matrix44, b); c.out (a * b); })
EXTRACT ("C10Quat", m33_transposed, "C10.M33.transposed", { IN (Matrix33, a); c.out (a.transposed ()); })
EXTRACT ("C10Quat", m33_det, "C10.M33.determinant", { IN (Matrix33, a); c.outS (a.determinant ()); })
// ---- product (also in C05; extracted again so that C10's theorems depend on C10's regenerated module only), conjugate, inverse
EXTRACT ("C10Quat", q_mul, "C10.Quat.mul", { IN (Quat, a); IN (Quat, b); c.out (a * b); })
EXTRACT ("C10Quat", q_conj, "C10.Quat.conj", { IN (Quat, q); c.out (~q); })
EXTRACT ("C10Quat", q_neg, "C10.Quat.neg", { IN (Quat, q); c.out (-q); })
EXTRACT ("C10Quat", q_inverse, "C10.Quat.inverse", { IN (Quat, q); c.out (q.inverse ()); })
EXTRACT ("C10Quat", q_invert, "C10.Quat.invert", { IN (Quat, q); q.invert (); c.out (q); })
EXTRACT ("C10Quat", q_invertRet, "C10.Quat.invertRet", { IN (Quat, q); Quat<T> r = q.invert (); c.out (r); })
EXTRACT ("C10Quat", q_div, "C10.Quat.div", { IN (Quat, a); IN (Quat, b); c.out (a / b); })
EXTRACT ("C10Quat", q_divAssign, "C10.Quat.divAssign", { IN (Quat, a); IN (Quat, b); a /= b; c.out (a); })
EXTRACT ("C10Quat", q_dot4, "C10.Quat.dot4", { IN (Quat, a); IN (Quat, b); c.outS (a ^ b); })
// ---- aliasing (the same object on both sides): the compound operators and the spellings that pass one object twice must still
//      compute with the ORIGINAL operand values (`q *= q` reads q.r after a member may already have been overwritten).
//      C05 has the matrix / generic product entries; these are C10's own: every product / quotient spelling the rotation code uses.
EXTRACT ("C10Quat", q_mulAssign, "C10.Quat.mulAssign", { IN (Quat, a); IN (Quat, b); a *= b; c.out (a); })
EXTRACT ("C10Quat", q_mulAssignSelf, "C10.Quat.mulAssignSelf", { IN (Quat, a); a *= a; c.out (a); })
EXTRACT ("C10Quat", q_mulSelf, "C10.Quat.mulSelf", { IN (Quat, a); a = a * a; c.out (a); })
EXTRACT ("C10Quat", q_divAssignSelf, "C10.Quat.divAssignSelf", { IN (Quat, a); a /= a; c.out (a); })
EXTRACT ("C10Quat", q_divSelf, "C10.Quat.divSelf", { IN (Quat, a); a = a / a; c.out (a); })
EXTRACT ("C10Quat", q_mulAssignInverseSelf, "C10.Quat.mulAssignInverseSelf", { IN (Quat, a); a *= a.inverse (); c.out (a); })
EXTRACT ("C10Quat", q_mulAssignConjSelf, "C10.Quat.mulAssignConjSelf", { IN (Quat, a); a *= ~a; c.out (a); })
EXTRACT ("C10Quat", q_setAxisAngleAliasV, "C10.Quat.setAxisAngleAliasV", { IN (Quat, q); T radians = c.inS ("radians"); q.setAxisAngle (q.v, radians); c.out (q); })
EXTRACT ("C10Quat", q_rotateVectorAliasV, "C10.Quat.rotateVectorAliasV", { IN (Quat, q); q.v = q.rotateVector (q.v); c.out (q); })
EXTRACT ("C10Quat", q_slerpSame, "C10.Quat.slerpSame", { IN (Quat, q); T t = c.inS ("t"); c.out (slerp (q, q, t)); })
// ---- length, normalize
EXTRACT ("C10Quat", q_length, "C10.Quat.length", { IN (Quat, q); c.outS (q.length ()); })
EXTRACT ("C10Quat", q_normalize, "C10.Quat.normalize", { IN (Quat, q); q.normalize (); c.out (q); })
EXTRACT ("C10Quat", q_normalized, "C10.Quat.normalized", { IN (Quat, q); c.out (q.normalized ()); })
// ---- log / exp / axis / angle / setAxisAngle
EXTRACT ("C10Quat", q_log, "C10.Quat.log", { IN (Quat, q); c.out (q.log ()); })
EXTRACT ("C10Quat", q_exp, "C10.Quat.exp", { IN (Quat, q); c.out (q.exp ()); })
EXTRACT ("C10Quat", q_angle, "C10.Quat.angle", { IN (Quat, q); c.outS (q.angle ()); })
EXTRACT ("C10Quat", q_axis, "C10.Quat.axis", { IN (Quat, q); c.out (q.axis ()); })
EXTRACT ("C10Quat", q_setAxisAngle, "C10.Quat.setAxisAngle", { IN (Quat, q); IN (Vec3, axis); T radians = c.inS ("radians"); q.setAxisAngle (axis, radians); c.out (q); })
// ---- setRotation / rotationMatrix (three paths: <= 90 degrees, split at the halfway vector, antipodal fallback) are extracted by
//      sym_c10c.cpp (ops_c10c.h, module C10Rot: `C10.Quat.setRotationMod`, `C10.rotationMatrixMod`) from the same two C++ functions,
//      with the building blocks below as opaque calls.  The flat 115-path twins that used to be extracted here appeared in no theorem
//      (audit W1) and were removed; the modular trees are validated bitwise against the real code (tv c10c) and at Rat (lean-tv c10c).
// ---- building blocks of setRotation, extracted separately so that sym_c10c.cpp can call them opaquely (module C10Rot):
//      Vec3::normalized and the private member Quat::setRotationInternal (reached through c10priv::Tag<T>::ptr, see sym_c10.cpp)
EXTRACT ("C10Quat", v3_normalized, "C10.V3.normalized", { IN (Vec3, a); c.out (a.normalized ()); })
EXTRACT ("C10Quat", q_setRotationInternal, "C10.Quat.setRotationInternal", { IN (Vec3, f0); IN (Vec3, t0); Quat<T> me, q; (me.*c10priv::Tag<T>::ptr) (f0, t0, q); c.out (q); })
// ---- interpolation
EXTRACT ("C10Quat", f_sinx_over_x, "C10.sinx_over_x", { T x = c.inS ("x"); c.outS (sinx_over_x (x)); })
EXTRACT ("C10Quat", q_angle4D, "C10.Quat.angle4D", { IN (Quat, q1); IN (Quat, q2); c.outS (angle4D (q1, q2)); })
EXTRACT ("C10Quat", q_slerp, "C10.Quat.slerp", { IN (Quat, q1); IN (Quat, q2); T t = c.inS ("t"); c.out (slerp (q1, q2, t)); })
EXTRACT ("C10Quat", q_slerpShortestArc, "C10.Quat.slerpShortestArc", { IN (Quat, q1); IN (Quat, q2); T t = c.inS ("t"); c.out (slerpShortestArc (q1, q2, t)); })
EXTRACT ("C10Quat", q_intermediate, "C10.Quat.intermediate", { IN (Quat, q0); IN (Quat, q1); IN (Quat, q2); c.out (intermediate (q0, q1, q2)); })

// ---- ImathMatrixAlgo.h / ImathMatrix.h
EXTRACT ("C10Algo", a_extractQuat, "C10.extractQuat", { IN (Matrix44, mat); c.out (extractQuat (mat)); })
EXTRACT ("C10Algo", a_m44_setAxisAngle, "C10.M44.setAxisAngle", { IN (Matrix44, m); IN (Vec3, axis); T angle = c.inS ("angle"); m.setAxisAngle (axis, angle); c.out (m); })
