// C18 extractor: one loop iteration of the sphere samplers of ImathRandom.h with a scripted generator (module C18Samplers).
#include "sym.h"
#include "c10frac.h" // FracS: Vec::length at exact fractions so that lean_tv covers the hollow / gaussSphere entries calling it
#include "shapes.h"
#include "main.h"
OPAQUE_LENGTH (Vec2, "V2", 2)
OPAQUE_LENGTH (Vec3, "V3", 3)
OPAQUE_LENGTH (Vec4, "V4", 4)
using namespace IMATH_INTERNAL_NAMESPACE;
#include "ops_c18.h"
int main (int argc, char** argv) { return symns::sym_main (argc, argv); }
