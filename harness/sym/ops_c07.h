// C07 extraction table: BOTH members of every checked / unchecked pair, extracted independently
// (they are separate textual copies in the headers).  Every Lean name is prefixed `C07.` so that
// the modules never clash with another property's Gen module.
//   suffix 0 = the overload without a flag, F = flag false, T = flag true
#define IN(Ty, n) auto n = c.template in<Ty<T>> (#n)
// extra small-integer-lattice TV inputs per element type for the pivot-search / zero-test trees (path coverage of TV is reported)
#ifndef C07_GJ_LATTICE
#define C07_GJ_LATTICE 3000
#endif
#ifndef C07_ALGO_LATTICE
#define C07_ALGO_LATTICE 1500
#endif

//---------------------------------------------------------------------------
// Vec2/3/4: normalize / normalizeExc / normalizeNonNull, normalized / normalizedExc / normalizedNonNull
#define NORMS(Ty, id, L)                                                                                   \
    EXTRACT ("C07Vec", id##_normalize, "C07." L ".normalize", { IN (Ty, a); a.normalize (); c.out (a); })                 \
    EXTRACT ("C07Vec", id##_normalizeExc, "C07." L ".normalizeExc", { IN (Ty, a); a.normalizeExc (); c.out (a); })        \
    EXTRACT ("C07Vec", id##_normalizeNonNull, "C07." L ".normalizeNonNull", { IN (Ty, a); a.normalizeNonNull (); c.out (a); }) \
    EXTRACT ("C07Vec", id##_normalized, "C07." L ".normalized", { IN (Ty, a); c.out (a.normalized ()); })                 \
    EXTRACT ("C07Vec", id##_normalizedExc, "C07." L ".normalizedExc", { IN (Ty, a); c.out (a.normalizedExc ()); })        \
    EXTRACT ("C07Vec", id##_normalizedNonNull, "C07." L ".normalizedNonNull", { IN (Ty, a); c.out (a.normalizedNonNull ()); })
NORMS (Vec2, v2, "V2")
NORMS (Vec3, v3, "V3")
NORMS (Vec4, v4, "V4")
// Vec3(Vec4) vs Vec3(Vec4, InfException)
EXTRACT ("C07Vec", v3_ofV4, "C07.V3.ofV4", { IN (Vec4, v); c.out (Vec3<T> (v)); })
EXTRACT ("C07Vec", v3_ofV4Exc, "C07.V3.ofV4Exc", { IN (Vec4, v); c.out (Vec3<T> (v, INF_EXCEPTION)); })

//---------------------------------------------------------------------------
// Matrix22/33/44: inverse() / inverse(false) / inverse(true), invert likewise, gjInverse / gjInvert (3x3)
#define INVS(Ty, id, L)                                                                                    \
    EXTRACT ("C07Mat", id##_inverse0, "C07." L ".inverse0", { IN (Ty, a); c.out (a.inverse ()); })                        \
    EXTRACT ("C07Mat", id##_inverseF, "C07." L ".inverseF", { IN (Ty, a); c.out (a.inverse (false)); })                   \
    EXTRACT ("C07Mat", id##_inverseT, "C07." L ".inverseT", { IN (Ty, a); c.out (a.inverse (true)); })                    \
    EXTRACT ("C07Mat", id##_invert0, "C07." L ".invert0", { IN (Ty, a); a.invert (); c.out (a); })                        \
    EXTRACT ("C07Mat", id##_invertF, "C07." L ".invertF", { IN (Ty, a); a.invert (false); c.out (a); })                   \
    EXTRACT ("C07Mat", id##_invertT, "C07." L ".invertT", { IN (Ty, a); a.invert (true); c.out (a); })
INVS (Matrix22, m22, "M22")
INVS (Matrix33, m33, "M33")
INVS (Matrix44, m44, "M44") // Matrix44<Sym>::gjInverse is opaque here (parameter functions gj44, gj44F, gj44Tstatus, gj44Tvalue)
#define GJ_OPTS symns::Opts ().paths (20000).lattice (C07_GJ_LATTICE)
EXTRACT_OPT ("C07GJ", m33_gjInverse0, "C07.M33.gjInverse0", GJ_OPTS, { IN (Matrix33, a); c.out (a.gjInverse ()); })
EXTRACT_OPT ("C07GJ", m33_gjInverseF, "C07.M33.gjInverseF", GJ_OPTS, { IN (Matrix33, a); c.out (a.gjInverse (false)); })
EXTRACT_OPT ("C07GJ", m33_gjInverseT, "C07.M33.gjInverseT", GJ_OPTS, { IN (Matrix33, a); c.out (a.gjInverse (true)); })
EXTRACT_OPT ("C07GJ", m33_gjInvert0, "C07.M33.gjInvert0", GJ_OPTS, { IN (Matrix33, a); a.gjInvert (); c.out (a); })
EXTRACT_OPT ("C07GJ", m33_gjInvertF, "C07.M33.gjInvertF", GJ_OPTS, { IN (Matrix33, a); a.gjInvert (false); c.out (a); })
EXTRACT_OPT ("C07GJ", m33_gjInvertT, "C07.M33.gjInvertT", GJ_OPTS, { IN (Matrix33, a); a.gjInvert (true); c.out (a); })

//---------------------------------------------------------------------------
// Frustum: six scalars + a concrete orthographic flag (one entry per flag value where the flag is read)
#define FRU(ORTHO)                                                                                         \
    T n = c.inS ("n"); T f = c.inS ("f"); T l = c.inS ("l"); T r = c.inS ("r"); T t = c.inS ("t"); T b = c.inS ("b"); \
    symns::FrustumX<T> fr (n, f, l, r, t, b, ORTHO)
#define OUTFRU c.outS (fr.nearPlane ()); c.outS (fr.farPlane ()); c.outS (fr.left ()); c.outS (fr.right ()); c.outS (fr.top ()); c.outS (fr.bottom ()); c.outB (fr.orthographic ())
#define FRU_FLAG(id, L, ORTHO)                                                                             \
    EXTRACT ("C07Frustum", fr_pm_##id, "C07.Frustum.projectionMatrix_" L, { FRU (ORTHO); c.out (fr.projectionMatrix ()); })       \
    EXTRACT ("C07Frustum", fr_pmE_##id, "C07.Frustum.projectionMatrixExc_" L, { FRU (ORTHO); c.out (fr.projectionMatrixExc ()); }) \
    EXTRACT ("C07Frustum", fr_pp_##id, "C07.Frustum.projectPointToScreen_" L, { FRU (ORTHO); IN (Vec3, p); c.out (fr.projectPointToScreen (p)); })       \
    EXTRACT ("C07Frustum", fr_ppE_##id, "C07.Frustum.projectPointToScreenExc_" L, { FRU (ORTHO); IN (Vec3, p); c.out (fr.projectPointToScreenExc (p)); }) \
    EXTRACT ("C07Frustum", fr_nz_##id, "C07.Frustum.normalizedZToDepth_" L, { FRU (ORTHO); T z = c.inS ("z"); c.outS (fr.normalizedZToDepth (z)); })       \
    EXTRACT ("C07Frustum", fr_nzE_##id, "C07.Frustum.normalizedZToDepthExc_" L, { FRU (ORTHO); T z = c.inS ("z"); c.outS (fr.normalizedZToDepthExc (z)); }) \
    EXTRACT ("C07Frustum", fr_zd_##id, "C07.Frustum.ZToDepth_5_0_10_" L, { FRU (ORTHO); c.outS (fr.ZToDepth (5, 0, 10)); })        \
    EXTRACT ("C07Frustum", fr_zdE_##id, "C07.Frustum.ZToDepthExc_5_0_10_" L, { FRU (ORTHO); c.outS (fr.ZToDepthExc (5, 0, 10)); })
FRU_FLAG (p, "persp", false)
FRU_FLAG (o, "ortho", true)
// zval > zmax + 1 wraps; zmax == zmin is the failure case of ZToDepthExc
EXTRACT ("C07Frustum", fr_zd_wrap, "C07.Frustum.ZToDepth_12_0_10_persp", { FRU (false); c.outS (fr.ZToDepth (12, 0, 10)); })
EXTRACT ("C07Frustum", fr_zdE_wrap, "C07.Frustum.ZToDepthExc_12_0_10_persp", { FRU (false); c.outS (fr.ZToDepthExc (12, 0, 10)); })
EXTRACT ("C07Frustum", fr_zd_zero, "C07.Frustum.ZToDepth_3_7_7_persp", { FRU (false); c.outS (fr.ZToDepth (3, 7, 7)); })
EXTRACT ("C07Frustum", fr_zdE_zero, "C07.Frustum.ZToDepthExc_3_7_7_persp", { FRU (false); c.outS (fr.ZToDepthExc (3, 7, 7)); })
// more literal triples (audit r2 S3): zval = zmax + 1 (the last value that does NOT wrap), negative range, wrap with a negative zmin, the
// unit range, and a range beyond 32 bits (the z range used to be narrowed to int); the general integer plumbing of the unchecked
// member (wrap, zdiff, cast) is proved in Props/C16Z.lean (zToDepth_*_inrange / _wrap), here the CHECKED copy is tied to it triple by triple
#define ZTD_PAIR(id, L, ZV, ZMIN, ZMAX)                                                                    \
    EXTRACT ("C07Frustum", fr_zd_##id, "C07.Frustum.ZToDepth_" L "_persp", { FRU (false); c.outS (fr.ZToDepth (ZV, ZMIN, ZMAX)); })       \
    EXTRACT ("C07Frustum", fr_zdE_##id, "C07.Frustum.ZToDepthExc_" L "_persp", { FRU (false); c.outS (fr.ZToDepthExc (ZV, ZMIN, ZMAX)); }) \
    EXTRACT ("C07Frustum", fr_zdo_##id, "C07.Frustum.ZToDepth_" L "_ortho", { FRU (true); c.outS (fr.ZToDepth (ZV, ZMIN, ZMAX)); })        \
    EXTRACT ("C07Frustum", fr_zdoE_##id, "C07.Frustum.ZToDepthExc_" L "_ortho", { FRU (true); c.outS (fr.ZToDepthExc (ZV, ZMIN, ZMAX)); })
ZTD_PAIR (t11, "11_0_10", 11, 0, 10)
ZTD_PAIR (tm3, "m3_m10_10", -3, -10, 10)
ZTD_PAIR (t25, "25_m5_15", 25, -5, 15)
ZTD_PAIR (t01, "0_0_1", 0, 0, 1)
ZTD_PAIR (tw, "w33", 8589934591L, 1L, 8589934591L)
// members that do not read the flag
EXTRACT ("C07Frustum", fr_l2s, "C07.Frustum.localToScreen", { FRU (false); IN (Vec2, p); c.out (fr.localToScreen (p)); })
EXTRACT ("C07Frustum", fr_l2sE, "C07.Frustum.localToScreenExc", { FRU (false); IN (Vec2, p); c.out (fr.localToScreenExc (p)); })
EXTRACT ("C07Frustum", fr_sr, "C07.Frustum.screenRadius", { FRU (false); IN (Vec3, p); T radius = c.inS ("radius"); c.outS (fr.screenRadius (p, radius)); })
EXTRACT ("C07Frustum", fr_srE, "C07.Frustum.screenRadiusExc", { FRU (false); IN (Vec3, p); T radius = c.inS ("radius"); c.outS (fr.screenRadiusExc (p, radius)); })
EXTRACT ("C07Frustum", fr_wr, "C07.Frustum.worldRadius", { FRU (false); IN (Vec3, p); T radius = c.inS ("radius"); c.outS (fr.worldRadius (p, radius)); })
EXTRACT ("C07Frustum", fr_wrE, "C07.Frustum.worldRadiusExc", { FRU (false); IN (Vec3, p); T radius = c.inS ("radius"); c.outS (fr.worldRadiusExc (p, radius)); })
EXTRACT ("C07Frustum", fr_as, "C07.Frustum.aspect", { FRU (false); c.outS (fr.aspect ()); })
EXTRACT ("C07Frustum", fr_asE, "C07.Frustum.aspectExc", { FRU (false); c.outS (fr.aspectExc ()); })
// set (near, far, fovx, fovy, aspect) vs setExc: the whole state is the result
#define FOVIN T n = c.inS ("n"); T f = c.inS ("f"); T fovx = c.inS ("fovx"); T fovy = c.inS ("fovy"); T aspect = c.inS ("aspect"); symns::FrustumX<T> fr
EXTRACT ("C07Frustum", fr_set, "C07.Frustum.setFov", { FOVIN; fr.set (n, f, fovx, fovy, aspect); OUTFRU; })
EXTRACT ("C07Frustum", fr_setE, "C07.Frustum.setFovExc", { FOVIN; fr.setExc (n, f, fovx, fovy, aspect); OUTFRU; })
// the same pair on an object whose PRIOR state is orthographic (set (…, true) first): the whole state is the result, so a
// member that one of the two copies forgets to overwrite (e.g. the orthographic flag) is visible here and only here
EXTRACT ("C07Frustum", fr_setO, "C07.Frustum.setFovFromOrtho", { FOVIN; fr.set (T (3), T (7), T (-2), T (5), T (4), T (-1), true); fr.set (n, f, fovx, fovy, aspect); OUTFRU; })
EXTRACT ("C07Frustum", fr_setOE, "C07.Frustum.setFovExcFromOrtho", { FOVIN; fr.set (T (3), T (7), T (-2), T (5), T (4), T (-1), true); fr.setExc (n, f, fovx, fovy, aspect); OUTFRU; })

//---------------------------------------------------------------------------
// MatrixAlgo: the `exc` flag (one body, flag threaded down to checkForZeroScaleInRow)
#define ALGO_OPTS symns::Opts ().lattice (C07_ALGO_LATTICE)
#define ALGO_FLAG(S, EXC)                                                                                  \
    EXTRACT ("C07Algo", al_chk2##S, "C07.Algo.checkForZeroScaleInRow2" #S, { T scl = c.inS ("scl"); IN (Vec2, row); c.outB (checkForZeroScaleInRow (scl, row, EXC)); }) \
    EXTRACT ("C07Algo", al_chk3##S, "C07.Algo.checkForZeroScaleInRow3" #S, { T scl = c.inS ("scl"); IN (Vec3, row); c.outB (checkForZeroScaleInRow (scl, row, EXC)); }) \
    EXTRACT_OPT ("C07Algo", al_es2##S, "C07.Algo.extractScaling2" #S, ALGO_OPTS, { IN (Matrix33, m); Vec2<T> scl (T (0)); bool ok = extractScaling (m, scl, EXC); c.outB (ok); c.out (scl); }) \
    EXTRACT_OPT ("C07Algo", al_ess2##S, "C07.Algo.extractScalingAndShear2" #S, ALGO_OPTS, { IN (Matrix33, m); Vec2<T> scl (T (0)); T shr = T (0); bool ok = extractScalingAndShear (m, scl, shr, EXC); c.outB (ok); c.out (scl); c.outS (shr); }) \
    EXTRACT_OPT ("C07Algo", al_ears2##S, "C07.Algo.extractAndRemoveScalingAndShear2" #S, ALGO_OPTS, { IN (Matrix33, m); Vec2<T> scl (T (0)); T shr = T (0); bool ok = extractAndRemoveScalingAndShear (m, scl, shr, EXC); c.outB (ok); c.out (m); c.out (scl); c.outS (shr); }) \
    EXTRACT_OPT ("C07Algo", al_rss2##S, "C07.Algo.removeScalingAndShear2" #S, ALGO_OPTS, { IN (Matrix33, m); bool ok = removeScalingAndShear (m, EXC); c.outB (ok); c.out (m); }) \
    EXTRACT_OPT ("C07Algo", al_sss2##S, "C07.Algo.sansScalingAndShear2" #S, ALGO_OPTS, { IN (Matrix33, m); c.out (sansScalingAndShear (m, EXC)); }) \
    EXTRACT_OPT ("C07Algo", al_shrt2##S, "C07.Algo.extractSHRT2" #S, ALGO_OPTS, { IN (Matrix33, m); Vec2<T> s (T (0)); T h = T (0); T r = T (0); Vec2<T> t (T (0)); bool ok = extractSHRT (m, s, h, r, t, EXC); c.outB (ok); c.out (s); c.outS (h); c.outS (r); c.out (t); })
// removeScaling / sansScaling (2-D): forward `exc` to extractSHRT, then rebuild the matrix (translate, rotate, shear); sin / cos /
// atan2 are parameters of the emitted definitions (sym_c07.cpp includes <math.h> first so that `cos ((T) r)` is not ambiguous)
#define ALGO_FLAG2(S, EXC)                                                                                 \
    EXTRACT_OPT ("C07Algo", al_rs2##S, "C07.Algo.removeScaling2" #S, ALGO_OPTS, { IN (Matrix33, m); bool ok = removeScaling (m, EXC); c.outB (ok); c.out (m); }) \
    EXTRACT_OPT ("C07Algo", al_ss2##S, "C07.Algo.sansScaling2" #S, ALGO_OPTS, { IN (Matrix33, m); c.out (sansScaling (m, EXC)); })
ALGO_FLAG (F, false)
ALGO_FLAG (T, true)
ALGO_FLAG2 (F, false)
ALGO_FLAG2 (T, true)
