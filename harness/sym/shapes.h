// Mapping of Imath aggregates to Lean structures (ImathVerif/Basic/Types.lean).
#pragma once
#include "extract.h"
#include <ImathVec.h>
#include <ImathMatrix.h>
#include <ImathQuat.h>
#include <ImathColor.h>
#include <ImathShear.h>
#include <ImathBox.h>
#include <ImathInterval.h>
#include <ImathLine.h>
#include <ImathPlane.h>
#include <ImathSphere.h>

namespace symns
{
using namespace IMATH_INTERNAL_NAMESPACE;

inline const Shape* shV2 () { static Shape s{"V2", {{"x", nullptr}, {"y", nullptr}}}; return &s; }
inline const Shape* shV3 () { static Shape s{"V3", {{"x", nullptr}, {"y", nullptr}, {"z", nullptr}}}; return &s; }
inline const Shape* shV4 () { static Shape s{"V4", {{"x", nullptr}, {"y", nullptr}, {"z", nullptr}, {"w", nullptr}}}; return &s; }
inline const Shape* shC4 () { static Shape s{"C4", {{"r", nullptr}, {"g", nullptr}, {"b", nullptr}, {"a", nullptr}}}; return &s; }
inline const Shape* shShear6 ()
{
    static Shape s{"Shear6", {{"xy", nullptr}, {"xz", nullptr}, {"yz", nullptr}, {"yx", nullptr}, {"zx", nullptr}, {"zy", nullptr}}};
    return &s;
}
inline const Shape* shMat (int n)
{
    static Shape s2{"M22", {}}, s3{"M33", {}}, s4{"M44", {}};
    Shape& s = n == 2 ? s2 : n == 3 ? s3 : s4;
    if (s.fields.empty ())
        for (int i = 0; i < n; ++i) for (int j = 0; j < n; ++j) s.fields.push_back ({"x" + std::to_string (i) + std::to_string (j), nullptr});
    return &s;
}
inline const Shape* shQuat () { static Shape s{"Quat", {{"r", nullptr}, {"v", shV3 ()}}}; return &s; }
inline const Shape* shBox2 () { static Shape s{"Box2", {{"min", shV2 ()}, {"max", shV2 ()}}}; return &s; }
inline const Shape* shBox3 () { static Shape s{"Box3", {{"min", shV3 ()}, {"max", shV3 ()}}}; return &s; }
inline const Shape* shBox4 () { static Shape s{"Box4", {{"min", shV4 ()}, {"max", shV4 ()}}}; return &s; }
inline const Shape* shInterval () { static Shape s{"Interval", {{"min", nullptr}, {"max", nullptr}}}; return &s; }
inline const Shape* shLine3 () { static Shape s{"Line3", {{"pos", shV3 ()}, {"dir", shV3 ()}}}; return &s; }
inline const Shape* shPlane3 () { static Shape s{"Plane3", {{"normal", shV3 ()}, {"distance", nullptr}}}; return &s; }
inline const Shape* shSphere3 () { static Shape s{"Sphere3", {{"center", shV3 ()}, {"radius", nullptr}}}; return &s; }

template <class T> struct Agg<Vec2<T>> { static const Shape* shape () { return shV2 (); } static void flat (Vec2<T>& a, std::vector<T*>& p) { p.push_back (&a.x); p.push_back (&a.y); } };
template <class T> struct Agg<Vec3<T>> { static const Shape* shape () { return shV3 (); } static void flat (Vec3<T>& a, std::vector<T*>& p) { p.push_back (&a.x); p.push_back (&a.y); p.push_back (&a.z); } };
template <class T> struct Agg<Vec4<T>> { static const Shape* shape () { return shV4 (); } static void flat (Vec4<T>& a, std::vector<T*>& p) { p.push_back (&a.x); p.push_back (&a.y); p.push_back (&a.z); p.push_back (&a.w); } };
template <class T> struct Agg<Color3<T>> { static const Shape* shape () { return shV3 (); } static void flat (Color3<T>& a, std::vector<T*>& p) { p.push_back (&a.x); p.push_back (&a.y); p.push_back (&a.z); } };
template <class T> struct Agg<Color4<T>> { static const Shape* shape () { return shC4 (); } static void flat (Color4<T>& a, std::vector<T*>& p) { p.push_back (&a.r); p.push_back (&a.g); p.push_back (&a.b); p.push_back (&a.a); } };
template <class T> struct Agg<Shear6<T>> { static const Shape* shape () { return shShear6 (); } static void flat (Shear6<T>& a, std::vector<T*>& p) { p.push_back (&a.xy); p.push_back (&a.xz); p.push_back (&a.yz); p.push_back (&a.yx); p.push_back (&a.zx); p.push_back (&a.zy); } };
template <class T> struct Agg<Matrix22<T>> { static const Shape* shape () { return shMat (2); } static void flat (Matrix22<T>& a, std::vector<T*>& p) { for (int i = 0; i < 2; ++i) for (int j = 0; j < 2; ++j) p.push_back (&a.x[i][j]); } };
template <class T> struct Agg<Matrix33<T>> { static const Shape* shape () { return shMat (3); } static void flat (Matrix33<T>& a, std::vector<T*>& p) { for (int i = 0; i < 3; ++i) for (int j = 0; j < 3; ++j) p.push_back (&a.x[i][j]); } };
template <class T> struct Agg<Matrix44<T>> { static const Shape* shape () { return shMat (4); } static void flat (Matrix44<T>& a, std::vector<T*>& p) { for (int i = 0; i < 4; ++i) for (int j = 0; j < 4; ++j) p.push_back (&a.x[i][j]); } };
template <class T> struct Agg<Quat<T>> { static const Shape* shape () { return shQuat (); } static void flat (Quat<T>& a, std::vector<T*>& p) { p.push_back (&a.r); p.push_back (&a.v.x); p.push_back (&a.v.y); p.push_back (&a.v.z); } };
template <class T> struct Agg<Box<Vec2<T>>> { static const Shape* shape () { return shBox2 (); } static void flat (Box<Vec2<T>>& a, std::vector<T*>& p) { Agg<Vec2<T>>::flat (a.min, p); Agg<Vec2<T>>::flat (a.max, p); } };
template <class T> struct Agg<Box<Vec3<T>>> { static const Shape* shape () { return shBox3 (); } static void flat (Box<Vec3<T>>& a, std::vector<T*>& p) { Agg<Vec3<T>>::flat (a.min, p); Agg<Vec3<T>>::flat (a.max, p); } };
template <class T> struct Agg<Box<Vec4<T>>> { static const Shape* shape () { return shBox4 (); } static void flat (Box<Vec4<T>>& a, std::vector<T*>& p) { Agg<Vec4<T>>::flat (a.min, p); Agg<Vec4<T>>::flat (a.max, p); } };
template <class T> struct Agg<Interval<T>> { static const Shape* shape () { return shInterval (); } static void flat (Interval<T>& a, std::vector<T*>& p) { p.push_back (&a.min); p.push_back (&a.max); } };
template <class T> struct Agg<Line3<T>> { static const Shape* shape () { return shLine3 (); } static void flat (Line3<T>& a, std::vector<T*>& p) { Agg<Vec3<T>>::flat (a.pos, p); Agg<Vec3<T>>::flat (a.dir, p); } };
template <class T> struct Agg<Plane3<T>> { static const Shape* shape () { return shPlane3 (); } static void flat (Plane3<T>& a, std::vector<T*>& p) { Agg<Vec3<T>>::flat (a.normal, p); p.push_back (&a.distance); } };
template <class T> struct Agg<Sphere3<T>> { static const Shape* shape () { return shSphere3 (); } static void flat (Sphere3<T>& a, std::vector<T*>& p) { Agg<Vec3<T>>::flat (a.center, p); p.push_back (&a.radius); } };

} // namespace symns
