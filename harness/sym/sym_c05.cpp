#include "sym.h"
#include "shapes.h"
#include "main.h"
#include <ImathMatrixAlgo.h>
using namespace IMATH_INTERNAL_NAMESPACE;
#include "ops_c05.h"
int main (int argc, char** argv) { return symns::sym_main (argc, argv); }
