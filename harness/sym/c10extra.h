// C10: extra Lean-side validation cases (rattv) for entries that never survive the generic generator: with the rational stubs for
// sqrt / sin / acos ..., `intermediate` (one inverse, two logs, an exp, a normalize) and `spline` (two intermediates, three slerps) overflow
// the 128-bit fractions on random inputs and would silently have no case.  Sparse key quaternions (unit axes, zeros, small integers) do not.
// Include after main.h.
#pragma once
#include "main.h"
namespace symns
{
inline void c10ExtraRatCases (const char* fn, int nkeys, bool hasT, unsigned long seed, int want)
{
    auto fi = fnIndex ().find (fn);
    if (fi == fnIndex ().end () || fi->second->paths.empty ()) return;
    static const long keys[][4] = {{1, 0, 0, 0}, {0, 1, 0, 0}, {0, 0, 1, 0}, {0, 0, 0, 1}, {-1, 0, 0, 0}, {0, 0, -1, 0}, {1, 1, 0, 0}, {0, 0, 0, 0}, {2, 0, 0, 0}, {0, 1, 0, -1}, {1, 0, 2, 0}, {0, 2, 1, 0}};
    static const long ts[][2] = {{0, 1}, {1, 1}, {1, 2}, {2, 1}, {-1, 1}, {1, 3}};
    const int nk = sizeof (keys) / sizeof (keys[0]), nt = sizeof (ts) / sizeof (ts[0]);
    std::mt19937_64 g (seed * 77 + 5);
    int got = 0;
    for (int tries = 0; tries < 20000 && got < want; ++tries)
    {
        int needNonzero = tries < 16000 ? 2 : 1; // prefer results with several non-zero components (argument-order sensitive)
        std::vector<Frac> in;
        for (int k = 0; k < nkeys; ++k) { const long* q = keys[g () % nk]; for (int j = 0; j < 4; ++j) in.push_back (Frac ((I128) q[j], (I128) 1)); }
        if (hasT) { const long* t = ts[g () % nt]; in.push_back (Frac ((I128) t[0], (I128) t[1])); }
        try
        {
            Evaluator<Frac> ev; std::vector<Frac> vals; std::vector<long> ints; std::string exc;
            if (!ev.run (*fi->second, in, vals, ints, exc)) continue;
            int nz = 0;
            for (auto& x : vals) nz += x.n != 0;
            if (nz < needNonzero) continue;
            printf ("RATCASE %s IN", fn);
            for (auto& x : in) printf (" %s", x.str ().c_str ());
            printf (" OUT exc=%s vals=", exc.empty () ? "-" : exc.c_str ());
            for (auto& x : vals) printf ("%s,", x.str ().c_str ());
            printf (" ints=\n");
            ++got;
        }
        catch (const FracOverflow&) {}
    }
}
} // namespace symns
