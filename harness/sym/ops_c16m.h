// C16 (H-route part): Frustum::planes(p, M) plane by plane, and the real-valued core of DepthToZ.
//
// `Frustum<T>::planes (p, M)` computes `double (_nearPlane)` and `DepthToZ` computes `long (…)`: a symbolic scalar has no
// conversion to a machine number, so these bodies cannot be instantiated at T = Sym.  The HAND MODEL is the transcript
// in sym_c16m.cpp (the explicit specialisation `Frustum<Sym>::planes (p, M)`: the body of ImathFrustum.h with the
// `double (…)` / `(T)` casts removed) and `c16_depthToZp` below (the body of DepthToZ up to `Zp`).  At T = double / float the
// entries below run the REAL code, so translator validation is the correspondence: the Lean text emitted from the
// transcript, evaluated at double, must agree bit for bit with `Frustum<double>::planes (p, M)` on every run
// (`double (x)` is the identity at double).  At float the real code computes the far-corner scale in double and differs
// from the transcript by rounding: that comparison is made, with a tolerance, by harness/corr/c16_corr.cpp.
#define IN(Ty, n) auto n = c.template in<Ty<T>> (#n)

// TV at double only
#define EXTRACT_D(module, ident, leanname, ...)                                                        \
    struct X_##ident { template <class T> static void run (symns::Ctx<T>& c) __VA_ARGS__ };              \
    static int reg_##ident = (symns::entries ().push_back (symns::Entry{module, leanname, symns::Opts (), &X_##ident::run<symns::Sym>, \
        {{"double", symns::makeTV<double> (&X_##ident::run<double>)}}, symns::makeRun (&X_##ident::run<double>)}), 0);

#define FRUSTUM_IN(ORTHO)                                                                               \
    T n = c.inS ("n"); T f = c.inS ("f"); T l = c.inS ("l"); T r = c.inS ("r"); T t = c.inS ("t"); T b = c.inS ("b"); \
    Frustum<T> fr (n, f, l, r, t, b, ORTHO);

#define PLANE_M(MAC, kind, ORTHO, i)                                                                    \
    MAC ("C16PlanesM", planesM_##kind##_##i, "Frustum.planesM_" #kind "_" #i, {                          \
        FRUSTUM_IN (ORTHO); IN (Matrix44, M); Plane3<T> p[6]; c16_only = i; fr.planes (p, M); c16_only = -1; c.out (p[i]); })
PLANE_M (EXTRACT_D, persp, false, 0) PLANE_M (EXTRACT_D, persp, false, 1) PLANE_M (EXTRACT_D, persp, false, 2)
PLANE_M (EXTRACT_D, persp, false, 3) PLANE_M (EXTRACT_D, persp, false, 4) PLANE_M (EXTRACT_D, persp, false, 5)
PLANE_M (EXTRACT, ortho, true, 0) PLANE_M (EXTRACT, ortho, true, 1) PLANE_M (EXTRACT, ortho, true, 2)
PLANE_M (EXTRACT, ortho, true, 3) PLANE_M (EXTRACT, ortho, true, 4) PLANE_M (EXTRACT, ortho, true, 5)

// DepthToZ up to the `long` cast: the value Zp with  DepthToZ (depth, zmin, zmax) = long (0.5 * (Zp + 1) * zdiff) + zmin.
// These two entries call the TRANSCRIPT at every type (their TV compares the transcript with itself).  The tie to the real code is
// (a) the theorem depthToZp_*_real_body (Props/C16Z.lean): the definitions emitted here equal the operand of the cast in
// Gen.Frustum.DepthToZ_*_3_10, which sym_c16.cpp extracts from the REAL body (sym.h: `long (x)` records x) with bitwise TV at double, and
// (b) c16_corr.cpp, which checks the equation above against the real DepthToZ at float and double.
EXTRACT ("C16PlanesM", depthToZp_persp, "Frustum.depthToZp_persp", { FRUSTUM_IN (false); T depth = c.inS ("depth"); c.outS (c16_depthToZp (fr, depth)); })
EXTRACT ("C16PlanesM", depthToZp_ortho, "Frustum.depthToZp_ortho", { FRUSTUM_IN (true); T depth = c.inS ("depth"); c.outS (c16_depthToZp (fr, depth)); })
