// C15, second extractor: `operator* (Plane3, Matrix44)` with the three-point `Plane3::set` it ends in made an
// opaque call of Gen `Plane3.setPoints` (whose real body is extracted by sym_c15.cpp), so that the emitted
// definition reads "the plane through the images of these three points" (4 paths instead of 8 huge ones).
#define IN(Ty, n) auto n = c.template in<Ty<T>> (#n)
EXTRACT ("C15PlaneMul", p_mulM44, "Plane3.mulM44", { auto pl = c.template in<Plane3<T>> ("pl"); IN (Matrix44, m); c.out (pl * m); })
