// C13, second extractor: the FOUR textual copies of transform / affineTransform (ImathBoxAlgo.h), module C13Transform.
//
//  * `*_affine`: the whole overload, box symbolic, matrix symbolic except that the last column is the LITERALS (0,0,0,1),
//    so that the affine test `m[0][3] == 0 && ... && m[3][3] == 1` folds and the Arvo arm is taken:
//    isEmpty (3 returns) + isInfinite (1 return, 6 ways of not being infinite) x 2^9 orders of (a < b)  = 3,076 paths each.
//    affineTransform has no test on the matrix, so its two overloads are extracted with a fully symbolic matrix.
//  * `*_projective`: the whole overload with a fully symbolic matrix; the entry first asks the four comparisons of the
//    affine test and leaves (returning the box unchanged: a dummy) if the matrix is affine, so that inside transform()
//    the test is already decided and only the projective arm is walked; `Box::extendBy(point)` and `Vec3 * Matrix44`
//    are opaque calls of the definitions extracted by sym_c13 (`Box3.extendByPoint`, `BoxAlgo.vecTimesM44`): 41 paths each.
#define INB3(n) auto n = c.template in<Box<Vec3<T>>> (#n)
#define INM(n) auto n = c.template in<Matrix44<T>> (#n)
#define AFFINE_COLUMN(m) m[0][3] = T (0); m[1][3] = T (0); m[2][3] = T (0); m[3][3] = T (1)
#define LEAVE_IF_AFFINE(m, b) if (m[0][3] == 0 && m[1][3] == 0 && m[2][3] == 0 && m[3][3] == 1) { c.out (b); return; }

EXTRACT_OPT ("C13Transform", xf0_affine, "BoxAlgo.transform_affine", symns::Opts ().paths (5000),
             { INB3 (b); INM (m); AFFINE_COLUMN (m); c.out (transform (b, m)); })
EXTRACT_OPT ("C13Transform", xf1_affine, "BoxAlgo.transformOut_affine", symns::Opts ().paths (5000),
             { INB3 (b); INM (m); INB3 (r); AFFINE_COLUMN (m); transform (b, m, r); c.out (r); })
EXTRACT_OPT ("C13Transform", xf2, "BoxAlgo.affineTransform", symns::Opts ().paths (5000),
             { INB3 (b); INM (m); c.out (affineTransform (b, m)); })
EXTRACT_OPT ("C13Transform", xf3, "BoxAlgo.affineTransformOut", symns::Opts ().paths (5000),
             { INB3 (b); INM (m); INB3 (r); affineTransform (b, m, r); c.out (r); })
EXTRACT ("C13Transform", xf0_projective, "BoxAlgo.transform_projective",
         { INB3 (b); INM (m); LEAVE_IF_AFFINE (m, b); c.out (transform (b, m)); })
EXTRACT ("C13Transform", xf1_projective, "BoxAlgo.transformOut_projective",
         { INB3 (b); INM (m); INB3 (r); LEAVE_IF_AFFINE (m, b); transform (b, m, r); c.out (r); })
