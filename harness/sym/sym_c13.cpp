#include "sym.h"
#include <half.h>
#include "shapes.h"
#include "main.h"
#include <ImathBox.h>
#include <ImathInterval.h>
#include <ImathBoxAlgo.h>
using namespace IMATH_INTERNAL_NAMESPACE;
#include "ops_c13.h"
int main (int argc, char** argv) { return symns::sym_main (argc, argv); }
