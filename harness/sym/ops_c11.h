// C11 extraction table: Euler angles in all 24 orders (ImathEuler.h), the
// extractEuler* helpers of ImathMatrixAlgo.h and Matrix44::setEulerAngles.
// The Euler ORDER is concrete per entry (one entry per order and member).
#define IN(Ty, n) auto n = c.template in<Ty<T>> (#n)

#define C11_ORDERS(X)                                                                     \
    X (XYZ) X (XZY) X (YZX) X (YXZ) X (ZXY) X (ZYX)                                       \
    X (XZX) X (XYX) X (YXY) X (YZY) X (ZYZ) X (ZXZ)                                       \
    X (XYZr) X (XZYr) X (YZXr) X (YXZr) X (ZXYr) X (ZYXr)                                 \
    X (XZXr) X (XYXr) X (YXYr) X (YZYr) X (ZYZr) X (ZXZr)

// --- module C11Euler: members of Euler<T>, one entry per order ----------------------
#define C11_PER_ORDER(O)                                                                                                                  \
    EXTRACT ("C11Euler", e_toM33_##O, "Euler.toMatrix33_" #O, { IN (Vec3, a); Euler<T> e (a, Euler<T>::O); c.out (e.toMatrix33 ()); })      \
    EXTRACT ("C11Euler", e_toM44_##O, "Euler.toMatrix44_" #O, { IN (Vec3, a); Euler<T> e (a, Euler<T>::O); c.out (e.toMatrix44 ()); })      \
    EXTRACT ("C11Euler", e_toQuat_##O, "Euler.toQuat_" #O, { IN (Vec3, a); Euler<T> e (a, Euler<T>::O); c.out (e.toQuat ()); })             \
    EXTRACT ("C11Euler", e_exM33_##O, "Euler.extractM33_" #O,                                                                              \
             { IN (Matrix33, m); Euler<T> e (Euler<T>::O); e.extract (m); c.out (Vec3<T> (e.x, e.y, e.z)); })                               \
    EXTRACT ("C11Euler", e_exM44_##O, "Euler.extractM44_" #O,                                                                              \
             { IN (Matrix44, m); Euler<T> e (Euler<T>::O); e.extract (m); c.out (Vec3<T> (e.x, e.y, e.z)); })                               \
    EXTRACT ("C11Euler", e_ctorM33_##O, "Euler.ctorM33_" #O, { IN (Matrix33, m); Euler<T> e (m, Euler<T>::O); c.out (Vec3<T> (e.x, e.y, e.z)); c.outI ((long) e.order ()); }) \
    EXTRACT ("C11Euler", e_ctorM44_##O, "Euler.ctorM44_" #O, { IN (Matrix44, m); Euler<T> e (m, Euler<T>::O); c.out (Vec3<T> (e.x, e.y, e.z)); c.outI ((long) e.order ()); }) \
    EXTRACT ("C11Euler", e_exQuat_##O, "Euler.extractQuat_" #O,                                                                            \
             { IN (Quat, q); Euler<T> e (Euler<T>::O); e.extract (q); c.out (Vec3<T> (e.x, e.y, e.z)); })                                   \
    EXTRACT ("C11Euler", e_ctorXYZ_##O, "Euler.ctorXYZLayout_" #O,                                                                         \
             { IN (Vec3, v); Euler<T> e (v, Euler<T>::O, Euler<T>::XYZLayout); c.out (Vec3<T> (e.x, e.y, e.z)); c.outI ((long) e.order ()); }) \
    EXTRACT ("C11Euler", e_ctorXYZs_##O, "Euler.ctorXYZLayoutScalars_" #O,                                                                 \
             { T xi = c.inS ("xi"); T yi = c.inS ("yi"); T zi = c.inS ("zi"); Euler<T> e (xi, yi, zi, Euler<T>::O, Euler<T>::XYZLayout);      \
               c.out (Vec3<T> (e.x, e.y, e.z)); c.outI ((long) e.order ()); })                                                               \
    EXTRACT ("C11Euler", e_ctorIJK_##O, "Euler.ctorIJKLayout_" #O,                                                                         \
             { IN (Vec3, v); Euler<T> e (v, Euler<T>::O, Euler<T>::IJKLayout); c.out (Vec3<T> (e.x, e.y, e.z)); c.outI ((long) e.order ()); }) \
    EXTRACT ("C11Euler", e_setXYZ_##O, "Euler.setXYZVector_" #O,                                                                           \
             { IN (Vec3, a); IN (Vec3, v); Euler<T> e (a, Euler<T>::O); e.setXYZVector (v); c.out (Vec3<T> (e.x, e.y, e.z)); })             \
    EXTRACT ("C11Euler", e_toXYZ_##O, "Euler.toXYZVector_" #O, { IN (Vec3, a); Euler<T> e (a, Euler<T>::O); c.out (e.toXYZVector ()); })   \
    EXTRACT ("C11Euler", e_angleOrder_##O, "Euler.angleOrder_" #O,                                                                         \
             { Euler<T> e (Euler<T>::O); int i, j, k; e.angleOrder (i, j, k); c.outI (i); c.outI (j); c.outI (k); })                        \
    EXTRACT ("C11Euler", e_angleMapping_##O, "Euler.angleMapping_" #O,                                                                     \
             { Euler<T> e (Euler<T>::O); int i, j, k; e.angleMapping (i, j, k); c.outI (i); c.outI (j); c.outI (k); })                      \
    EXTRACT ("C11Euler", e_order_##O, "Euler.order_" #O,                                                                                   \
             { Euler<T> e (Euler<T>::O); c.outI ((long) e.order ()); c.outB (Euler<T>::legal (Euler<T>::O));                                \
               c.outB (e.frameStatic ()); c.outB (e.initialRepeated ()); c.outB (e.parityEven ()); c.outI ((long) e.initialAxis ()); })     \
    EXTRACT ("C11Euler", e_setOrderKeeps_##O, "Euler.setOrderKeepsAngles_" #O,                                                             \
             { IN (Vec3, a); Euler<T> e (a, Euler<T>::XYZ); e.setOrder (Euler<T>::O); c.out (Vec3<T> (e.x, e.y, e.z)); c.outI ((long) e.order ()); }) \
    EXTRACT ("C11Euler", e_copy_##O, "Euler.copyAndAssign_" #O,                                                                            \
             { IN (Vec3, a); IN (Vec3, v); Euler<T> e (a, Euler<T>::O); Euler<T> c1 (e); Euler<T> c2; c2 = e; Euler<T> c3 (e); c3 = v;         \
               c.out (Vec3<T> (c1.x, c1.y, c1.z)); c.outI ((long) c1.order ()); c.out (Vec3<T> (c2.x, c2.y, c2.z)); c.outI ((long) c2.order ()); \
               c.out (Vec3<T> (c3.x, c3.y, c3.z)); c.outI ((long) c3.order ()); })                                                             \
    EXTRACT ("C11Euler", e_reorderFromXYZ_##O, "Euler.reorderFromXYZ_" #O,                                                                     \
             { IN (Vec3, a); Euler<T> s (a, Euler<T>::XYZ); Euler<T> e (s, Euler<T>::O); c.out (Vec3<T> (e.x, e.y, e.z)); c.outI ((long) e.order ()); }) \
    EXTRACT ("C11Euler", e_reorderToZYX_##O, "Euler.reorderToZYXr_" #O,                                                                     \
             { IN (Vec3, a); Euler<T> s (a, Euler<T>::O); Euler<T> e (s, Euler<T>::ZYXr); c.out (Vec3<T> (e.x, e.y, e.z)); c.outI ((long) e.order ()); })
C11_ORDERS (C11_PER_ORDER)
// the re-ordering constructor for two further pairs whose SOURCE is neither XYZ nor static resp. whose TARGET is neither ZYXr nor
// static: witnesses by extraction (not only by reading) that the constructor's body does not depend on either order
EXTRACT ("C11Euler", e_reorder_YXYr_XZX, "Euler.reorder_YXYr_XZX",
         { IN (Vec3, a); Euler<T> s (a, Euler<T>::YXYr); Euler<T> e (s, Euler<T>::XZX); c.out (Vec3<T> (e.x, e.y, e.z)); c.outI ((long) e.order ()); })
EXTRACT ("C11Euler", e_reorder_ZXY_YZXr, "Euler.reorder_ZXY_YZXr",
         { IN (Vec3, a); Euler<T> s (a, Euler<T>::ZXY); Euler<T> e (s, Euler<T>::YZXr); c.out (Vec3<T> (e.x, e.y, e.z)); c.outI ((long) e.order ()); })

// --- module C11Algo ---------------------------------------------------------------
EXTRACT ("C11Algo", a_setEulerAngles, "Euler.M44_setEulerAngles", { IN (Vec3, r); Matrix44<T> m; m.setEulerAngles (r); c.out (m); })
EXTRACT ("C11Algo", a_rotate, "Euler.M44_rotate", { IN (Matrix44, m); IN (Vec3, r); m.rotate (r); c.out (m); })
EXTRACT ("C11Algo", a_m33_setRotation, "Euler.M33_setRotation", { T r = c.inS ("r"); Matrix33<T> m; m.setRotation (r); c.out (m); })
EXTRACT ("C11Algo", a_m22_setRotation, "Euler.M22_setRotation", { T r = c.inS ("r"); Matrix22<T> m; m.setRotation (r); c.out (m); })
EXTRACT ("C11Algo", a_quat_toM33, "Euler.Quat_toMatrix33", { IN (Quat, q); c.out (q.toMatrix33 ()); })
EXTRACT ("C11Algo", a_quat_toM44, "Euler.Quat_toMatrix44", { IN (Quat, q); c.out (q.toMatrix44 ()); })
EXTRACT ("C11Algo", a_extractEulerXYZ, "Euler.extractEulerXYZ", { IN (Matrix44, m); Vec3<T> rot; extractEulerXYZ (m, rot); c.out (rot); })
EXTRACT ("C11Algo", a_extractEulerZYX, "Euler.extractEulerZYX", { IN (Matrix44, m); Vec3<T> rot; extractEulerZYX (m, rot); c.out (rot); })
EXTRACT ("C11Algo", a_extractEuler22, "Euler.extractEuler22", { IN (Matrix22, m); T rot; extractEuler (m, rot); c.outS (rot); })
EXTRACT ("C11Algo", a_extractEuler33, "Euler.extractEuler33", { IN (Matrix33, m); T rot; extractEuler (m, rot); c.outS (rot); })
// angleMod is an uninterpreted parameter `angleMod : α → α` (its body casts to float and calls fmod: H-route, Model/EulerOrder.lean)
EXTRACT ("C11Algo", a_simpleXYZ, "Euler.simpleXYZRotation",
         { IN (Vec3, xyzRot); IN (Vec3, target); Euler<T>::simpleXYZRotation (xyzRot, target); c.out (xyzRot); })
// nearestRotation computes `M_PI + xyzRot[i]` in DOUBLE for every T and rounds the sum to T: at T = float the real code
// rounds once (double add, then to float) where the tree evaluated at float rounds M_PI first.  The extracted definition is
// the exact-arithmetic reading (DESIGN §3); translator validation of these entries is therefore bitwise at double only,
// and the float instantiation is covered by the measured residue (c11_residue.cpp).
#define EXTRACT_DBL(module, ident, leanname, ...)                                                     \
    struct X_##ident { template <class T> static void run (symns::Ctx<T>& c) __VA_ARGS__ };            \
    static int reg_##ident = (symns::entries ().push_back (symns::Entry{module, leanname, symns::Opts (), &X_##ident::run<symns::Sym>, \
        {{"double", symns::makeTV<double> (&X_##ident::run<double>)}}, symns::makeRun (&X_##ident::run<double>)}), 0);
#define C11_NEAR(O)                                                                                                                       \
    EXTRACT_DBL ("C11Algo", a_nearest_##O, "Euler.nearestRotation_" #O,                                                                        \
             { IN (Vec3, xyzRot); IN (Vec3, target); Euler<T>::nearestRotation (xyzRot, target, Euler<T>::O); c.out (xyzRot); })            \
    EXTRACT_DBL ("C11Algo", a_makeNear_##O, "Euler.makeNear_" #O,                                                                              \
             { IN (Vec3, a); IN (Vec3, t); Euler<T> e (a, Euler<T>::O); Euler<T> tg (t, Euler<T>::O); e.makeNear (tg);                      \
               c.out (Vec3<T> (e.x, e.y, e.z)); c.outI ((long) e.order ()); })                                                           \
    /* target given in a DIFFERENT order (ImathEuler.h makeNear: `if (order () != target.order ())` converts it with the        \
       re-ordering constructor); for O = ZYXr resp. XYZ the entry takes the same-order branch */                                 \
    EXTRACT_DBL ("C11Algo", a_makeNearZYXr_##O, "Euler.makeNearFromZYXr_" #O,                                                                  \
             { IN (Vec3, a); IN (Vec3, t); Euler<T> e (a, Euler<T>::O); Euler<T> tg (t, Euler<T>::ZYXr); e.makeNear (tg);                   \
               c.out (Vec3<T> (e.x, e.y, e.z)); c.outI ((long) e.order ()); })                                                           \
    EXTRACT_DBL ("C11Algo", a_makeNearXYZ_##O, "Euler.makeNearFromXYZ_" #O,                                                                    \
             { IN (Vec3, a); IN (Vec3, t); Euler<T> e (a, Euler<T>::O); Euler<T> tg (t, Euler<T>::XYZ); e.makeNear (tg);                    \
               c.out (Vec3<T> (e.x, e.y, e.z)); c.outI ((long) e.order ()); })
C11_ORDERS (C11_NEAR)
