// C08 extractor: length2 + the normalize family with length() opaque (module C08).
#include "sym.h"
#include "shapes.h"
#include "main.h"
OPAQUE_LENGTH (Vec2, "V2", 2)
OPAQUE_LENGTH (Vec3, "V3", 3)
OPAQUE_LENGTH (Vec4, "V4", 4)
using namespace IMATH_INTERNAL_NAMESPACE;
#include "ops_c08.h"
#include "c08_modes.h" // extra modes ratwit / rateval / ratargs / ratwith used by tools/props/c08.py; every other mode is sym_main's
int main (int argc, char** argv)
{
    int rc = c08modes::extra_main (argc, argv);
    return rc >= 0 ? rc : symns::sym_main (argc, argv);
}
