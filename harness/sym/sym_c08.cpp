// C08 extractor: length2 + the normalize family with length() opaque (module C08).
#include "sym.h"
#include "shapes.h"
#include "main.h"
OPAQUE_LENGTH (Vec2, "V2", 2)
OPAQUE_LENGTH (Vec3, "V3", 3)
OPAQUE_LENGTH (Vec4, "V4", 4)
using namespace IMATH_INTERNAL_NAMESPACE;
#include "ops_c08.h"
#include "c08_modes.h" // extra modes ratwit / rateval / ratargs / ratwith used by tools/props/c08.py; every other mode is sym_main's
#define C08_REGN(id, L)                                                                                                \
    C08_REG (id##_dot, "C08." L ".dot") C08_REG (id##_length2, "C08." L ".length2") C08_REG (id##_normalize, "C08." L ".normalize") \
    C08_REG (id##_normalizeExc, "C08." L ".normalizeExc") C08_REG (id##_normalizeNonNull, "C08." L ".normalizeNonNull")      \
    C08_REG (id##_normalized, "C08." L ".normalized") C08_REG (id##_normalizedExc, "C08." L ".normalizedExc")                \
    C08_REG (id##_normalizedNonNull, "C08." L ".normalizedNonNull")
C08_REGN (v2, "V2")
C08_REGN (v3, "V3")
C08_REGN (v4, "V4")
int main (int argc, char** argv)
{
    int rc = c08modes::extra_main (argc, argv);
    return rc >= 0 ? rc : symns::sym_main (argc, argv);
}
