// C09 extractor, second stage (modules C09Up, C09Rot):
//  * rotationMatrixWithUpDir with alignZAxisWithTargetDir as an OPAQUE call of Gen `Frame.alignZAxisWithTargetDir`
//    (80 paths, extracted with its real body by sym_c09.cpp; inlined twice the tree explodes);
//  * rotationMatrix(from,to) with Quat::setRotation(from,to) as an OPAQUE call of Gen `Frame.quatSetRotation` (115 paths,
//    real body extracted by sym_c09.cpp).
// The callees' Lean signatures come from Gen/index_c09.txt (passed as --idx, together with index_leaf.txt).
// For translator validation the calls are evaluated with the real functions at double / float, and — Lean-side validation of the
// emitted text, `rattv` — with the real templates instantiated at the exact-fraction type FracS (Native::q below).
#include <math.h>
#include "sym.h"
#include "c10frac.h" // FracS: Vec::length at exact fractions so that lean_tv covers the entries calling it
#include "shapes.h"
#include "main.h"
#include <ImathMatrixAlgo.h>
OPAQUE_LENGTH (Vec3, "V3", 3)
IMATH_INTERNAL_NAMESPACE_HEADER_ENTER
template <> inline void alignZAxisWithTargetDir<symns::Sym> (Matrix44<symns::Sym>& result, Vec3<symns::Sym> targetDir, Vec3<symns::Sym> upDir)
{
    result = symns::opaqueA<Matrix44<symns::Sym>> ("Frame.alignZAxisWithTargetDir", targetDir, upDir);
}
template <> inline Quat<symns::Sym>& Quat<symns::Sym>::setRotation (const Vec3<symns::Sym>& from, const Vec3<symns::Sym>& to) IMATH_NOEXCEPT
{
    *this = symns::opaqueA<Quat<symns::Sym>> ("Frame.quatSetRotation", *this, from, to);
    return *this;
}
IMATH_INTERNAL_NAMESPACE_HEADER_EXIT
template <class T> static std::vector<T> nativeQuatSetRotation (const std::vector<T>& a)
{
    IMATH_INTERNAL_NAMESPACE::Quat<T> q (a[0], a[1], a[2], a[3]);
    q.setRotation (IMATH_INTERNAL_NAMESPACE::Vec3<T> (a[4], a[5], a[6]), IMATH_INTERNAL_NAMESPACE::Vec3<T> (a[7], a[8], a[9]));
    return std::vector<T>{q.r, q.v.x, q.v.y, q.v.z};
}
static std::vector<symns::Frac> fracQuatSetRotation (const std::vector<symns::Frac>& a)
{
    return symns::fracRun ([&] {
        using symns::FracS;
        IMATH_INTERNAL_NAMESPACE::Quat<FracS> q (a[0], a[1], a[2], a[3]);
        q.setRotation (IMATH_INTERNAL_NAMESPACE::Vec3<FracS> (a[4], a[5], a[6]), IMATH_INTERNAL_NAMESPACE::Vec3<FracS> (a[7], a[8], a[9]));
        return std::vector<FracS>{q.r, q.v.x, q.v.y, q.v.z};
    });
}
static int native_qsr = (symns::natives ()["Frame.quatSetRotation"] = symns::Native{&nativeQuatSetRotation<double>, &nativeQuatSetRotation<float>, &fracQuatSetRotation}, 0);
template <class T> static std::vector<T> nativeAlignZ (const std::vector<T>& a)
{
    IMATH_INTERNAL_NAMESPACE::Matrix44<T> r;
    IMATH_INTERNAL_NAMESPACE::alignZAxisWithTargetDir (r, IMATH_INTERNAL_NAMESPACE::Vec3<T> (a[0], a[1], a[2]), IMATH_INTERNAL_NAMESPACE::Vec3<T> (a[3], a[4], a[5]));
    std::vector<T> o;
    for (int i = 0; i < 4; ++i) for (int j = 0; j < 4; ++j) o.push_back (r.x[i][j]);
    return o;
}
static std::vector<symns::Frac> fracAlignZ (const std::vector<symns::Frac>& a)
{
    return symns::fracRun ([&] {
        using symns::FracS;
        IMATH_INTERNAL_NAMESPACE::Matrix44<FracS> r;
        IMATH_INTERNAL_NAMESPACE::alignZAxisWithTargetDir (r, IMATH_INTERNAL_NAMESPACE::Vec3<FracS> (a[0], a[1], a[2]), IMATH_INTERNAL_NAMESPACE::Vec3<FracS> (a[3], a[4], a[5]));
        std::vector<FracS> o;
        for (int i = 0; i < 4; ++i) for (int j = 0; j < 4; ++j) o.push_back (r.x[i][j]);
        return o;
    });
}
static int native_alignZ = (symns::natives ()["Frame.alignZAxisWithTargetDir"] = symns::Native{&nativeAlignZ<double>, &nativeAlignZ<float>, &fracAlignZ}, 0);
using namespace IMATH_INTERNAL_NAMESPACE;
#define IN(Ty, n) auto n = c.template in<Ty<T>> (#n)
EXTRACT_OPT ("C09Up", fr_rotationMatrixUp, "Frame.rotationMatrixWithUpDir", symns::Opts ().lattice (100),
         { IN (Vec3, fromDir); IN (Vec3, toDir); IN (Vec3, upDir); c.out (rotationMatrixWithUpDir (fromDir, toDir, upDir)); })
EXTRACT ("C09Rot", fr_rotationMatrix, "Frame.rotationMatrix", { IN (Vec3, fromDir); IN (Vec3, toDir); c.out (rotationMatrix (fromDir, toDir)); })
int main (int argc, char** argv) { return symns::sym_main (argc, argv); }
