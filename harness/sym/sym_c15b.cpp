#include "sym.h"
#include "shapes.h"
#include "main.h"
#include <ImathPlane.h>
#include <ImathMatrix.h>
// modular extraction: Plane3<Sym>::set (p1, p2, p3) is an opaque call of Gen `Plane3.setPoints`
IMATH_INTERNAL_NAMESPACE_HEADER_ENTER
template <>
inline void
Plane3<symns::Sym>::set (const Vec3<symns::Sym>& p1, const Vec3<symns::Sym>& p2, const Vec3<symns::Sym>& p3) IMATH_NOEXCEPT
{
    *this = symns::opaqueA<Plane3<symns::Sym>> ("Plane3.setPoints", p1, p2, p3);
}
IMATH_INTERNAL_NAMESPACE_HEADER_EXIT
template <class T> static std::vector<T> nativeSetPoints (const std::vector<T>& a)
{
    using namespace IMATH_INTERNAL_NAMESPACE;
    Plane3<T> p;
    p.set (Vec3<T> (a[0], a[1], a[2]), Vec3<T> (a[3], a[4], a[5]), Vec3<T> (a[6], a[7], a[8]));
    return std::vector<T>{p.normal.x, p.normal.y, p.normal.z, p.distance};
}
static int native_plane_set = (symns::natives ()["Plane3.setPoints"] = symns::Native{
    [] (const std::vector<double>& a) { return nativeSetPoints<double> (a); },
    [] (const std::vector<float>& a) { return nativeSetPoints<float> (a); }}, 0);
using namespace IMATH_INTERNAL_NAMESPACE;
#include "ops_c15b.h"
#include "c15_modes.h" // extra modes ratstep / leafinfo used by tools/props/c15.py; every other mode is sym_main's
int main (int argc, char** argv)
{
    int rc = c15modes::extra_main (argc, argv);
    return rc >= 0 ? rc : symns::sym_main (argc, argv);
}
