// C10: exact-rational element type for the Lean-side translator validation (rattv) of entries that call another
// extracted function opaquely (Vec3::length, Vec3::normalized, Quat::setRotationInternal, slerp, intermediate).
// The REAL Imath templates are instantiated at T = FracS (natives ()[...].q), with the same fixed rational stubs for
// sqrt / sin / cos / acos / atan2 and the same limit constants as the evaluator of the extracted trees
// (extract.h Sc<Frac>) and as tools/troute.py on the Lean side.  So the value the callee contributes on the C++ side is
// what the emitted Lean definition of the callee computes at Rat: the composite's emitted text (call order, argument
// order, projections) is then checked by the ordinary troute.lean_tv instead of being skipped.
// Same device as harness/sym/sym_c07.cpp (Vec::length only); include AFTER sym.h and BEFORE any Imath header
// (the Imath templates call std::sqrt etc. qualified, so the overloads must be visible at their definition).
#pragma once
#define SYMNS_HAVE_FRACS 1 // opaque.h: OPAQUE_LENGTH then also registers the callee at exact fractions (Native::q)
#include "frac.h"
#include <limits>
#include <vector>
namespace symns
{
// the Imath functions are noexcept: an overflow of the 128-bit fractions must not throw inside them.  FracS records it
// in a sticky flag; the caller discards the result and throws FracOverflow outside the noexcept function.
struct FracS
{
    Frac v;
    FracS () {}
    FracS (int x) : v (x) {}
    FracS (long x) : v (x) {}
    FracS (double x) : v (Frac (x)) {}
    FracS (Frac x) : v (x) {}
    explicit operator bool () const { return v.n != 0; }
    static bool& overflowed () { static bool b = false; return b; }
    template <class F> static FracS guard (F f) { try { return FracS (f ()); } catch (const FracOverflow&) { overflowed () = true; return FracS (); } }
    template <class F> static bool guardB (F f) { try { return f (); } catch (const FracOverflow&) { overflowed () = true; return false; } }
};
inline FracS operator+ (FracS a, FracS b) { return FracS::guard ([&] { return a.v + b.v; }); }
inline FracS operator- (FracS a, FracS b) { return FracS::guard ([&] { return a.v - b.v; }); }
inline FracS operator* (FracS a, FracS b) { return FracS::guard ([&] { return a.v * b.v; }); }
inline FracS operator/ (FracS a, FracS b) { return FracS::guard ([&] { return a.v / b.v; }); }
inline FracS operator- (FracS a) { return FracS (-a.v); }
inline FracS& operator+= (FracS& a, FracS b) { a = a + b; return a; }
inline FracS& operator-= (FracS& a, FracS b) { a = a - b; return a; }
inline FracS& operator*= (FracS& a, FracS b) { a = a * b; return a; }
inline FracS& operator/= (FracS& a, FracS b) { a = a / b; return a; }
inline bool operator< (FracS a, FracS b) { return FracS::guardB ([&] { return a.v < b.v; }); }
inline bool operator> (FracS a, FracS b) { return b < a; }
inline bool operator<= (FracS a, FracS b) { return !(b < a); }
inline bool operator>= (FracS a, FracS b) { return !(a < b); }
inline bool operator== (FracS a, FracS b) { return a.v == b.v; }
inline bool operator!= (FracS a, FracS b) { return !(a.v == b.v); }
// stub indices: extract.h Sc<Frac>::f1 uses (int) op - (int) SQRT with the Op order of sym.h
//   SQRT 0, SIN 1, COS 2, TAN 3, (ATAN2 4: stub2 (0)), ACOS 5, ASIN 6, ATAN 7, EXP 8, LOG 9
inline FracS fstub1 (int w, FracS a) { return FracS::guard ([&] { return stub1 (w, a.v); }); }
} // namespace symns
namespace std
{
inline symns::FracS sqrt (symns::FracS a) { return symns::fstub1 (0, a); }
inline symns::FracS sin (symns::FracS a) { return symns::fstub1 (1, a); }
inline symns::FracS cos (symns::FracS a) { return symns::fstub1 (2, a); }
inline symns::FracS acos (symns::FracS a) { return symns::fstub1 (5, a); }
inline symns::FracS atan2 (symns::FracS a, symns::FracS b) { return symns::FracS::guard ([&] { return symns::stub2 (0, a.v, b.v); }); }
// extract.h evaluates ABS as (a > 0) ? a : -a
inline symns::FracS abs (symns::FracS a) { return a > symns::FracS (0) ? a : -a; }
template <> class numeric_limits<symns::FracS>
{
public:
    static constexpr bool is_specialized = true;
    static constexpr bool is_signed      = true;
    static constexpr bool is_integer     = false;
    static symns::FracS min () { return symns::FracS (symns::Frac (1, 1024)); }
    static symns::FracS max () { return symns::FracS (symns::Frac (1048576, 1)); }
    static symns::FracS epsilon () { return symns::FracS (symns::Frac (1, 64)); }
    static symns::FracS lowest () { return symns::FracS (symns::Frac (-1048576, 1)); }
};
} // namespace std
namespace symns
{
// run `f` (which fills `out` from FracS results) and turn a recorded overflow into the exception rattv expects
template <class F> inline std::vector<Frac> fracRun (F f)
{
    FracS::overflowed () = false;
    std::vector<FracS> r = f ();
    if (FracS::overflowed ()) throw FracOverflow ();
    std::vector<Frac> o;
    for (auto& x : r) o.push_back (x.v);
    return o;
}
} // namespace symns
