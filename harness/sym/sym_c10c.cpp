// C10 third extractor: setRotation / rotationMatrix with normalized / setRotationInternal opaque (module C10Rot).
#include "sym.h"
#include "c10frac.h" // FracS: the callees at exact fractions (rattv), before any Imath header
#include "shapes.h"
#include "main.h"
#include <ImathMatrixAlgo.h>
#include "c10priv.h"
C10_STEAL (double)
C10_STEAL (float)
C10_STEAL (symns::FracS)
// explicit specialisations for T = Sym: opaque CALL nodes of the Gen definitions extracted by sym_c10.cpp
IMATH_INTERNAL_NAMESPACE_HEADER_ENTER
template <> inline Vec3<symns::Sym> Vec3<symns::Sym>::normalized () const IMATH_NOEXCEPT
{
    return symns::opaqueA<Vec3<symns::Sym>> ("C10.V3.normalized", *this);
}
template <> inline void Quat<symns::Sym>::setRotationInternal (const Vec3<symns::Sym>& f0, const Vec3<symns::Sym>& t0, Quat<symns::Sym>& q) IMATH_NOEXCEPT
{
    q = symns::opaqueA<Quat<symns::Sym>> ("C10.Quat.setRotationInternal", f0, t0);
}
IMATH_INTERNAL_NAMESPACE_HEADER_EXIT
template <class T> static std::vector<T> nativeNormalized (const std::vector<T>& a)
{
    IMATH_INTERNAL_NAMESPACE::Vec3<T> v (a[0], a[1], a[2]), r = v.normalized ();
    return std::vector<T>{r.x, r.y, r.z};
}
template <class T> static std::vector<T> nativeSRI (const std::vector<T>& a)
{
    IMATH_INTERNAL_NAMESPACE::Vec3<T> f (a[0], a[1], a[2]), t (a[3], a[4], a[5]);
    IMATH_INTERNAL_NAMESPACE::Quat<T> me, q;
    (me.*c10priv::Tag<T>::ptr) (f, t, q);
    return std::vector<T>{q.r, q.v.x, q.v.y, q.v.z};
}
static int native_c10c = (symns::natives ()["C10.V3.normalized"] = symns::Native{&nativeNormalized<double>, &nativeNormalized<float>},
                          symns::natives ()["C10.Quat.setRotationInternal"] = symns::Native{&nativeSRI<double>, &nativeSRI<float>}, 0);
// the REAL Vec3::normalized / Quat::setRotationInternal at exact fractions with the fixed stubs (c10frac.h): troute.lean_tv then
// validates the emitted text of setRotationMod / rotationMatrixMod instead of skipping them
static std::vector<symns::Frac> fracNormalized (const std::vector<symns::Frac>& a)
{
    return symns::fracRun ([&] {
        using symns::FracS;
        IMATH_INTERNAL_NAMESPACE::Vec3<FracS> v (a[0], a[1], a[2]), r = v.normalized ();
        return std::vector<FracS>{r.x, r.y, r.z};
    });
}
static std::vector<symns::Frac> fracSRI (const std::vector<symns::Frac>& a)
{
    return symns::fracRun ([&] {
        using symns::FracS;
        IMATH_INTERNAL_NAMESPACE::Vec3<FracS> f (a[0], a[1], a[2]), t (a[3], a[4], a[5]);
        IMATH_INTERNAL_NAMESPACE::Quat<FracS> me, q;
        (me.*c10priv::Tag<FracS>::ptr) (f, t, q);
        return std::vector<FracS>{q.r, q.v.x, q.v.y, q.v.z};
    });
}
static int native_c10c_q = (symns::natives ()["C10.V3.normalized"].q = &fracNormalized, symns::natives ()["C10.Quat.setRotationInternal"].q = &fracSRI, 0);
using namespace IMATH_INTERNAL_NAMESPACE;
#include "ops_c10c.h"
// Directed translator validation (audit W8): the generic TV inputs reach the antipodal fallback only by coincidence.  Here `to` is
// built from `from`: exactly opposite (to = -m from, exact in T), opposite within a few eps (threshold sub-case of the fallback),
// nearly opposite (split path) -- with `from` chosen so that each of the fallback's axis choices occurs -- and the tree is
// compared with the real code bit for bit as in `tv`.  Prints  TVDIR <entry> evals= failures= leaves_hit= paths=  lines.
template <class T> static void directedTV (const char* name, void (*body) (symns::Ctx<T>&), bool withQuat, unsigned long seed, int n,
                                           std::set<size_t>& hit, long& evals, long& bad)
{
    using namespace symns;
    auto fi = fnIndex ().find (name);
    if (fi == fnIndex ().end ()) return;
    std::mt19937_64 g (seed);
    std::uniform_real_distribution<double> U (-1.0, 1.0);
    static const double mags[][3] = {{3, 2, 1}, {1, 2, 3}, {2, 3, 1}, {2, 1, 0}, {0, 1, 2}, {1, 0, 0}, {0, 1, 0}, {0, 0, 1}, {1, 1, 0}, {1, 1, 1}, {1, 3, 2}, {3, 1, 2}};
    static const double ms[] = {1, 2, 0.5, 3, 4};
    const double eps = (double) std::numeric_limits<T>::epsilon ();
    for (int k = 0; k < n; ++k)
    {
        double f[3];
        if (k % 3 == 0) for (int j = 0; j < 3; ++j) f[j] = U (g) * std::pow (10.0, (double) ((int) (g () % 5) - 2));
        else { const double* m = mags[g () % 12]; for (int j = 0; j < 3; ++j) f[j] = m[j] * ((g () & 1) ? 1 : -1) * (k % 3 == 2 ? 0.37 : 1); }
        if (f[0] == 0 && f[1] == 0 && f[2] == 0) f[0] = 1;
        T fT[3] = {(T) f[0], (T) f[1], (T) f[2]}, tT[3];
        int mode = (k / 3) % 5; // 0 exactly opposite, 1 within a few eps, 2 ~40 eps off, 3 1e-2 off (split), 4 same side (one step)
        double m = ms[g () % 5];
        double pert = mode == 0 ? 0 : mode == 1 ? 3 * eps : mode == 2 ? 40 * eps : 1e-2; // relative size of the sideways perturbation
        double L = std::sqrt ((double) fT[0] * fT[0] + (double) fT[1] * fT[1] + (double) fT[2] * fT[2]);
        for (int j = 0; j < 3; ++j) tT[j] = (T) (-m * ((double) fT[j] + pert * L * U (g)));
        if (mode == 4) for (int j = 0; j < 3; ++j) tT[j] = (T) (m * ((double) fT[j] + 0.3 * L * U (g)));
        if (mode == 0) for (int j = 0; j < 3; ++j) tT[j] = (T) (-(T) m * fT[j]); // exact multiples (m is a power of two or 3: exact or once rounded, still parallel to within rounding)
        std::vector<T> in;
        if (withQuat) for (int j = 0; j < 4; ++j) in.push_back ((T) U (g));
        for (int j = 0; j < 3; ++j) in.push_back (fT[j]);
        for (int j = 0; j < 3; ++j) in.push_back (tT[j]);
        std::string d;
        size_t leaf = (size_t) -1;
        ++evals;
        bool ok = tvOne<T> (*fi->second, body, in, d, &leaf);
        if (leaf != (size_t) -1) hit.insert (leaf);
        if (!ok)
        {
            ++bad;
            printf ("TVFAIL %s %s :: %s :: in=", sizeof (T) == 4 ? "float" : "double", name, d.c_str ());
            for (auto& x : in) printf ("%.17g ", (double) x);
            printf ("\n");
        }
    }
}
int main (int argc, char** argv)
{
    if (argc > 1 && std::string (argv[1]) == "tvdir")
    {
        // explore the entries (fills fnIndex); index files of the callees as given
        std::vector<char*> av (argv, argv + argc);
        av[1] = (char*) "quiet";
        symns::sym_main ((int) av.size (), av.data ()); // unknown mode: explores, prints nothing
        unsigned long seed = argc > 2 ? strtoul (argv[2], 0, 10) : 1;
        int n = argc > 3 ? atoi (argv[3]) : 600;
        long bad = 0;
        {
            std::set<size_t> hit; long ev = 0, b = 0;
            directedTV<double> ("C10.Quat.setRotationMod", &X_q_setRotationMod::run<double>, true, seed * 7 + 1, n, hit, ev, b);
            directedTV<float> ("C10.Quat.setRotationMod", &X_q_setRotationMod::run<float>, true, seed * 7 + 2, n, hit, ev, b);
            printf ("TVDIR C10.Quat.setRotationMod evals=%ld failures=%ld leaves_hit=%zu paths=%zu\n", ev, b, hit.size (), symns::fnIndex ()["C10.Quat.setRotationMod"]->paths.size ());
            bad += b;
        }
        {
            std::set<size_t> hit; long ev = 0, b = 0;
            directedTV<double> ("C10.rotationMatrixMod", &X_a_rotationMatrixMod::run<double>, false, seed * 7 + 3, n, hit, ev, b);
            directedTV<float> ("C10.rotationMatrixMod", &X_a_rotationMatrixMod::run<float>, false, seed * 7 + 4, n, hit, ev, b);
            printf ("TVDIR C10.rotationMatrixMod evals=%ld failures=%ld leaves_hit=%zu paths=%zu\n", ev, b, hit.size (), symns::fnIndex ()["C10.rotationMatrixMod"]->paths.size ());
            bad += b;
        }
        return bad ? 1 : 0;
    }
    return symns::sym_main (argc, argv);
}
