// C10 third extractor: setRotation / rotationMatrix with normalized / setRotationInternal opaque (module C10Rot).
#include "sym.h"
#include "shapes.h"
#include "main.h"
#include <ImathMatrixAlgo.h>
#include "c10priv.h"
C10_STEAL (double)
C10_STEAL (float)
// explicit specialisations for T = Sym: opaque CALL nodes of the Gen definitions extracted by sym_c10.cpp
IMATH_INTERNAL_NAMESPACE_HEADER_ENTER
template <> inline Vec3<symns::Sym> Vec3<symns::Sym>::normalized () const IMATH_NOEXCEPT
{
    return symns::opaqueA<Vec3<symns::Sym>> ("C10.V3.normalized", *this);
}
template <> inline void Quat<symns::Sym>::setRotationInternal (const Vec3<symns::Sym>& f0, const Vec3<symns::Sym>& t0, Quat<symns::Sym>& q) IMATH_NOEXCEPT
{
    q = symns::opaqueA<Quat<symns::Sym>> ("C10.Quat.setRotationInternal", f0, t0);
}
IMATH_INTERNAL_NAMESPACE_HEADER_EXIT
template <class T> static std::vector<T> nativeNormalized (const std::vector<T>& a)
{
    IMATH_INTERNAL_NAMESPACE::Vec3<T> v (a[0], a[1], a[2]), r = v.normalized ();
    return std::vector<T>{r.x, r.y, r.z};
}
template <class T> static std::vector<T> nativeSRI (const std::vector<T>& a)
{
    IMATH_INTERNAL_NAMESPACE::Vec3<T> f (a[0], a[1], a[2]), t (a[3], a[4], a[5]);
    IMATH_INTERNAL_NAMESPACE::Quat<T> me, q;
    (me.*c10priv::Tag<T>::ptr) (f, t, q);
    return std::vector<T>{q.r, q.v.x, q.v.y, q.v.z};
}
static int native_c10c = (symns::natives ()["C10.V3.normalized"] = symns::Native{&nativeNormalized<double>, &nativeNormalized<float>},
                          symns::natives ()["C10.Quat.setRotationInternal"] = symns::Native{&nativeSRI<double>, &nativeSRI<float>}, 0);
using namespace IMATH_INTERNAL_NAMESPACE;
#include "ops_c10c.h"
int main (int argc, char** argv) { return symns::sym_main (argc, argv); }
