// Extraction table for C17 (scalar utilities and root solvers).
//   module C17Fun   : ImathFun.h abs sign lerp ulerp lerpfactor clamp cmp cmpt iszero equal,
//                     ImathMath.h sinx_over_x equalWithAbsError equalWithRelError
//   module C17Roots : ImathRoots.h solveLinear solveQuadratic solveNormalizedCubic solveCubic
//
// sym.h overloads the QUALIFIED calls `IMATH_INTERNAL_NAMESPACE::abs / clamp / equalWithAbsError / equalWithRelError`
// at Sym with single DAG nodes (`sabs`, `sclamp`, `sabsdiff` of Basic/Types.lean) so that composite functions stay
// small.  Here the TEMPLATES themselves are wanted: an explicit template argument list (`abs<T> (a)`) selects only
// the templates.  Inside lerpfactor / cmpt / iszero / equal the calls `abs (d)` still resolve to the node overload;
// theorems `abs_is_sabs` ... (Props/C17.lean) prove that the node's Lean definition IS the extracted template body.
//
// floor / ceil / trunc cast to `int` and divs / mods / divp / modp are `int` functions: not extractable (H-route,
// Model/Fun.lean + harness/corr/fun_corr.cpp, UBSan build).
#define S(n) T n = c.inS (#n)
// small-integer lattice inputs in addition to the generic generator: ties (a == b, D == 0, |a - b| == t) reach every leaf
#define LAT symns::Opts ().lattice (256)

// Translator validation with a tolerance, for the two entries whose D <= 0 arm computes in std::complex<T>:
// libstdc++'s std::complex<double/float> specialisations divide with the compiler's __divdc3/__divsc3 (scaled
// algorithm) where the generic template that T = Sym instantiates uses the textbook formula - equal in exact
// arithmetic, different in the last bits.  Integer results (the root count) must agree exactly, every value must
// agree bit for bit OR to TOL * max (1, |value|).  On the generator's wild-scale inputs (coefficients spread over 10^+-9,
// where the cubic is ill-conditioned and a last-bit difference is amplified without bound) a non-bitwise agreement is
// accepted only on the complex arm (count 2 or 3); the one-root arms and the delegations are bitwise everywhere.
namespace symns
{
template <class T> inline double cubicTol () { return 1e-12; }
template <> inline double cubicTol<float> () { return 1e-5; }
template <class T> TVFn makeTolTV (void (*body) (Ctx<T>&))
{
    return [body] (const FnRecord& f, unsigned long seed, int n, bool nozero, std::string& detail, TVStats& st) -> bool {
        std::mt19937_64 g (seed);
        size_t nin = 0;
        for (auto& p : f.params) nin += p.vars.size ();
        for (int k = 0; k < n; ++k)
        {
            auto in = (k % 8 == 5) ? TVGen<T>::lattice (g, nin, k / 8, nozero) : TVGen<T>::values (g, nin, k, true, nozero);
            if (k % 4 == 3 && nin >= 3)
            {
                // coefficients of (x - r1)(x - r2)(x - r3), small integer / quarter roots: D < 0 (three real roots) and D = 0 (repeated)
                double r1 = (double) ((long) (g () % 13) - 6) / (k % 8 == 3 ? 1.0 : 4.0), r2 = (double) ((long) (g () % 13) - 6) / 2.0, r3 = (double) ((long) (g () % 9) - 4);
                if (k % 16 == 7) { r1 = r2 = (double) (1 + (long) (g () % 3)) * ((g () & 1) ? 1 : -1); r3 = -2 * r1; }   // (m, m, -2m): D == 0 exactly, p != 0
                if (k % 32 == 15) { r1 = r2 = r3 = (double) ((long) (g () % 7) - 3); }                                    // (m, m, m): the triple root, D == 0 and p == 0
                double co[3] = {-(r1 + r2 + r3), r1 * r2 + r1 * r3 + r2 * r3, -r1 * r2 * r3};
                double lead = nin == 4 ? (double) ((long) (g () % 5) + 1) * ((g () & 1) ? 1 : -1) : 1.0;
                size_t o = nin == 4 ? 1 : 0;
                if (nin == 4) in[0] = fromDouble<T> (lead);
                for (int j = 0; j < 3; ++j) in[o + j] = fromDouble<T> (lead * co[j]);
            }
            if (nin == 4 && k % 8 == 1)
            {
                // solveCubic with a == 0: the delegation to solveQuadratic / solveLinear, every degenerate leaf at least once
                auto q = TVGen<T>::lattice (g, 3, k / 8, nozero);
                in[0] = T (0);
                for (int j = 0; j < 3; ++j) in[1 + j] = q[j];
                if (k == 1) in[1] = in[2] = in[3] = T (0);
                if (k == 9) { in[1] = in[2] = T (0); in[3] = T (1); }
                if (k == 17) { in[1] = T (0); in[2] = T (2); in[3] = T (-6); }
                if (k == 25) { in[1] = T (1); in[2] = T (-2); in[3] = T (1); }   // D == 0
                if (k == 33) { in[1] = T (1); in[2] = T (0); in[3] = T (1); }    // D < 0
                if (k == 41) { in[1] = T (1); in[2] = T (3); in[3] = T (2); }    // D > 0, b > 0
                if (k == 49) { in[1] = T (1); in[2] = T (-3); in[3] = T (2); }   // D > 0, b <= 0
            }
            ++st.evals;
            for (size_t q = 1; q < in.size (); ++q) if (!sameBits (in[q], in[0])) { ++st.nontrivial; break; }
            Ctx<T> c;
            c.inputs = &in;
            body (c);
            Evaluator<T>      ev;
            std::vector<T>    vals;
            std::vector<long> ints;
            std::string       exc, d;
            bool ran = ev.run (f, in, vals, ints, exc);
            if (ran) st.hit[&f].insert (ev.leafIndex);
            if (!ran) d = "no path of the extracted tree matches";
            else if (vals.size () != c.cvals.size () || ints != c.cints) d = "root count / arity differs";
            else
                for (size_t i = 0; i < vals.size () && d.empty (); ++i)
                {
                    if (sameBits (vals[i], c.cvals[i])) continue;
                    double a = (double) c.cvals[i], b = (double) vals[i];
                    bool   wild = (k % 4 != 3) && (k % 8 == 2 || k % 8 == 3 || k % 8 == 4 || k % 8 == 7);
                    if (wild && !ints.empty () && (ints[0] == 2 || ints[0] == 3)) continue;
                    if (!(std::fabs (a - b) <= cubicTol<T> () * std::max (1.0, std::fabs (a))))
                    {
                        std::ostringstream s;
                        s.precision (17);
                        s << "component " << i << ": real=" << a << " tree=" << b;
                        d = s.str ();
                    }
                }
            if (!d.empty ())
            {
                std::ostringstream s;
                s.precision (17);
                s << d << " :: in=";
                for (auto& x : in) s << (double) x << " ";
                detail = s.str ();
                return false;
            }
        }
        return true;
    };
}
} // namespace symns
#define EXTRACT_TOL(module, ident, leanname, ...)                                                     \
    struct X_##ident { template <class T> static void run (symns::Ctx<T>& c) __VA_ARGS__ };            \
    static int reg_##ident = (symns::entries ().push_back (symns::Entry{module, leanname, symns::Opts (), &X_##ident::run<symns::Sym>, \
        {{"double", symns::makeTolTV<double> (&X_##ident::run<double>)}, {"float", symns::makeTolTV<float> (&X_##ident::run<float>)}}, symns::makeRun (&X_##ident::run<double>)}), 0);

// ---- ImathFun.h
EXTRACT_OPT ("C17Fun", f_abs, "Fun.abs", LAT, { S (a); c.outS (IMATH_INTERNAL_NAMESPACE::abs<T> (a)); })
EXTRACT_OPT ("C17Fun", f_sign, "Fun.sign", LAT, { S (a); c.outI (IMATH_INTERNAL_NAMESPACE::sign<T> (a)); })
EXTRACT_OPT ("C17Fun", f_lerp, "Fun.lerp", LAT, { S (a); S (b); S (t); c.outS (IMATH_INTERNAL_NAMESPACE::lerp<T, T> (a, b, t)); })
EXTRACT_OPT ("C17Fun", f_ulerp, "Fun.ulerp", LAT, { S (a); S (b); S (t); c.outS (IMATH_INTERNAL_NAMESPACE::ulerp<T, T> (a, b, t)); })
EXTRACT_OPT ("C17Fun", f_lerpfactor, "Fun.lerpfactor", LAT, { S (m); S (a); S (b); c.outS (IMATH_INTERNAL_NAMESPACE::lerpfactor<T> (m, a, b)); })
EXTRACT_OPT ("C17Fun", f_clamp, "Fun.clamp", LAT, { S (a); S (l); S (h); c.outS (IMATH_INTERNAL_NAMESPACE::clamp<T> (a, l, h)); })
EXTRACT_OPT ("C17Fun", f_cmp, "Fun.cmp", LAT, { S (a); S (b); c.outI (IMATH_INTERNAL_NAMESPACE::cmp<T> (a, b)); })
EXTRACT_OPT ("C17Fun", f_cmpt, "Fun.cmpt", LAT, { S (a); S (b); S (t); c.outI (IMATH_INTERNAL_NAMESPACE::cmpt<T> (a, b, t)); })
EXTRACT_OPT ("C17Fun", f_iszero, "Fun.iszero", LAT, { S (a); S (t); c.outB (IMATH_INTERNAL_NAMESPACE::iszero<T> (a, t)); })
EXTRACT_OPT ("C17Fun", f_equal, "Fun.equal", LAT, { S (a); S (b); S (t); c.outB (IMATH_INTERNAL_NAMESPACE::equal<T, T, T> (a, b, t)); })
// ---- ImathMath.h
EXTRACT_OPT ("C17Fun", f_sinx, "Fun.sinx_over_x", LAT, { S (x); c.outS (IMATH_INTERNAL_NAMESPACE::sinx_over_x<T> (x)); })
EXTRACT_OPT ("C17Fun", f_eqAbs, "Fun.equalWithAbsError", LAT, { S (x1); S (x2); S (e); c.outB (IMATH_INTERNAL_NAMESPACE::equalWithAbsError<T> (x1, x2, e)); })
EXTRACT_OPT ("C17Fun", f_eqRel, "Fun.equalWithRelError", LAT, { S (x1); S (x2); S (e); c.outB (IMATH_INTERNAL_NAMESPACE::equalWithRelError<T> (x1, x2, e)); })

// ---- ImathRoots.h: (count, x[0], x[1], x[2]); a slot the solver does not write stays 0
EXTRACT_OPT ("C17Roots", r_linear, "Roots.solveLinear", LAT, { S (a); S (b); T x = T (0); int n = solveLinear (a, b, x); c.outI (n); c.outS (x); })
EXTRACT_OPT ("C17Roots", r_quadratic, "Roots.solveQuadratic", LAT,
         { S (a); S (b); S (cc); T x[2] = {T (0), T (0)}; int n = solveQuadratic (a, b, cc, x); c.outI (n); c.outS (x[0]); c.outS (x[1]); })
EXTRACT_TOL ("C17Roots", r_ncubic, "Roots.solveNormalizedCubic",
         { S (r); S (s); S (t); T x[3] = {T (0), T (0), T (0)}; int n = solveNormalizedCubic (r, s, t, x); c.outI (n); c.outS (x[0]); c.outS (x[1]); c.outS (x[2]); })
EXTRACT_TOL ("C17Roots", r_cubic, "Roots.solveCubic",
         { S (a); S (b); S (cc); S (d); T x[3] = {T (0), T (0), T (0)}; int n = solveCubic (a, b, cc, d, x); c.outI (n); c.outS (x[0]); c.outS (x[1]); c.outS (x[2]); })
#undef S
#undef LAT
