// C05 extraction table: products, transposes, minors, determinants.
#define IN(Ty, n) auto n = c.template in<Ty<T>> (#n)

#define DOTS(Ty, id, L)                                                                              \
    EXTRACT ("C05", id##_dot, L ".dot", { IN (Ty, a); IN (Ty, b); c.outS (a.dot (b)); })              \
    EXTRACT ("C05", id##_dotOp, L ".dotOp", { IN (Ty, a); IN (Ty, b); c.outS (a ^ b); })              \
    EXTRACT ("C05", id##_length2, L ".length2", { IN (Ty, a); c.outS (a.length2 ()); })
DOTS (Vec2, v2, "V2")
DOTS (Vec3, v3, "V3")
DOTS (Vec4, v4, "V4")
EXTRACT ("C05", v2_cross, "V2.cross", { IN (Vec2, a); IN (Vec2, b); c.outS (a.cross (b)); })
EXTRACT ("C05", v2_crossOp, "V2.crossOp", { IN (Vec2, a); IN (Vec2, b); c.outS (a % b); })
EXTRACT ("C05", v3_cross, "V3.cross", { IN (Vec3, a); IN (Vec3, b); c.out (a.cross (b)); })
EXTRACT ("C05", v3_crossOp, "V3.crossOp", { IN (Vec3, a); IN (Vec3, b); c.out (a % b); })
EXTRACT ("C05", v3_crossAssign, "V3.crossAssign", { IN (Vec3, a); IN (Vec3, b); a %= b; c.out (a); })
// quaternion product
EXTRACT ("C05", q_mul, "Quat.mul", { IN (Quat, a); IN (Quat, b); c.out (a * b); })
EXTRACT ("C05", q_mulAssign, "Quat.mulAssign", { IN (Quat, a); IN (Quat, b); a *= b; c.out (a); })
EXTRACT ("C05", q_euclid, "Quat.euclideanInnerProduct", { IN (Quat, a); IN (Quat, b); c.outS (a ^ b); })
// matrix x matrix, all spellings
// extra TV inputs from the small-integer lattice {-2..2} with a random share of zeros: every one of the 16 zero-skipping leaves of
// Matrix44::determinant is reached by TV itself (obliged by c05.py through chk.tv_paths)
#define DET_OPTS symns::Opts ().lattice (256)
#define MATMUL(Ty, id, L)                                                                            \
    EXTRACT ("C05", id##_mul, L ".mul", { IN (Ty, a); IN (Ty, b); c.out (a * b); })                   \
    EXTRACT ("C05", id##_mulAssign, L ".mulAssign", { IN (Ty, a); IN (Ty, b); a *= b; c.out (a); })   \
    EXTRACT ("C05", id##_transpose, L ".transpose", { IN (Ty, a); a.transpose (); c.out (a); })       \
    EXTRACT ("C05", id##_transposed, L ".transposed", { IN (Ty, a); c.out (a.transposed ()); })       \
    EXTRACT_OPT ("C05", id##_det, L ".determinant", DET_OPTS, { IN (Ty, a); c.outS (a.determinant ()); })  \
    EXTRACT ("C05", id##_trace, L ".trace", { IN (Ty, a); c.outS (a.trace ()); })
MATMUL (Matrix22, m22, "M22")
MATMUL (Matrix33, m33, "M33")
MATMUL (Matrix44, m44, "M44")
EXTRACT ("C05", m44_multiply2, "M44.multiplyStatic", { IN (Matrix44, a); IN (Matrix44, b); c.out (Matrix44<T>::multiply (a, b)); })
EXTRACT ("C05", m44_multiply3, "M44.multiplyStatic3", { IN (Matrix44, a); IN (Matrix44, b); Matrix44<T> r; Matrix44<T>::multiply (a, b, r); c.out (r); })
// vector x matrix family
EXTRACT ("C05", v2m22_mul, "V2.mulM22", { IN (Vec2, v); IN (Matrix22, m); c.out (v * m); })
EXTRACT ("C05", v2m22_mulAssign, "V2.mulAssignM22", { IN (Vec2, v); IN (Matrix22, m); v *= m; c.out (v); })
EXTRACT ("C05", m22_multDir, "M22.multDirMatrix", { IN (Matrix22, m); IN (Vec2, v); Vec2<T> d; m.multDirMatrix (v, d); c.out (d); })
EXTRACT ("C05", v2m33_mul, "V2.mulM33", { IN (Vec2, v); IN (Matrix33, m); c.out (v * m); })
EXTRACT ("C05", v2m33_mulAssign, "V2.mulAssignM33", { IN (Vec2, v); IN (Matrix33, m); v *= m; c.out (v); })
EXTRACT ("C05", m33_multVec, "M33.multVecMatrix", { IN (Matrix33, m); IN (Vec2, v); Vec2<T> d; m.multVecMatrix (v, d); c.out (d); })
EXTRACT ("C05", m33_multDir, "M33.multDirMatrix", { IN (Matrix33, m); IN (Vec2, v); Vec2<T> d; m.multDirMatrix (v, d); c.out (d); })
EXTRACT ("C05", v3m33_mul, "V3.mulM33", { IN (Vec3, v); IN (Matrix33, m); c.out (v * m); })
EXTRACT ("C05", v3m33_mulAssign, "V3.mulAssignM33", { IN (Vec3, v); IN (Matrix33, m); v *= m; c.out (v); })
EXTRACT ("C05", v3m44_mul, "V3.mulM44", { IN (Vec3, v); IN (Matrix44, m); c.out (v * m); })
EXTRACT ("C05", v3m44_mulAssign, "V3.mulAssignM44", { IN (Vec3, v); IN (Matrix44, m); v *= m; c.out (v); })
EXTRACT ("C05", m44_multVec, "M44.multVecMatrix", { IN (Matrix44, m); IN (Vec3, v); Vec3<T> d; m.multVecMatrix (v, d); c.out (d); })
EXTRACT ("C05", m44_multDir, "M44.multDirMatrix", { IN (Matrix44, m); IN (Vec3, v); Vec3<T> d; m.multDirMatrix (v, d); c.out (d); })
EXTRACT ("C05", v4m44_mul, "V4.mulM44", { IN (Vec4, v); IN (Matrix44, m); c.out (v * m); })
EXTRACT ("C05", v4m44_mulAssign, "V4.mulAssignM44", { IN (Vec4, v); IN (Matrix44, m); v *= m; c.out (v); })
// outer products
EXTRACT ("C05", outer3, "M33.outerProduct", { IN (Vec3, a); IN (Vec3, b); c.out (outerProduct (a, b)); })
EXTRACT ("C05", outer4, "M44.outerProduct", { IN (Vec4, a); IN (Vec4, b); c.out (outerProduct (a, b)); })
// minors (every row/column choice, concrete indices)
#define MINOR33(r, cc) EXTRACT ("C05", m33_minor_##r##cc, "M33.minorOf_" #r "_" #cc, { IN (Matrix33, a); c.outS (a.minorOf (r, cc)); })
MINOR33 (0, 0) MINOR33 (0, 1) MINOR33 (0, 2) MINOR33 (1, 0) MINOR33 (1, 1) MINOR33 (1, 2) MINOR33 (2, 0) MINOR33 (2, 1) MINOR33 (2, 2)
#define MINOR44(r, cc) EXTRACT ("C05", m44_minor_##r##cc, "M44.minorOf_" #r "_" #cc, { IN (Matrix44, a); c.outS (a.minorOf (r, cc)); })
MINOR44 (0, 0) MINOR44 (0, 1) MINOR44 (0, 2) MINOR44 (0, 3) MINOR44 (1, 0) MINOR44 (1, 1) MINOR44 (1, 2) MINOR44 (1, 3)
MINOR44 (2, 0) MINOR44 (2, 1) MINOR44 (2, 2) MINOR44 (2, 3) MINOR44 (3, 0) MINOR44 (3, 1) MINOR44 (3, 2) MINOR44 (3, 3)
EXTRACT ("C05", m33_fastMinor, "M33.fastMinor_01_12", { IN (Matrix33, a); c.outS (a.fastMinor (0, 1, 1, 2)); })
EXTRACT ("C05", m33_fastMinorB, "M33.fastMinor_12_02", { IN (Matrix33, a); c.outS (a.fastMinor (1, 2, 0, 2)); })
EXTRACT ("C05", m44_fastMinor, "M44.fastMinor_123_012", { IN (Matrix44, a); c.outS (a.fastMinor (1, 2, 3, 0, 1, 2)); })
EXTRACT ("C05", m44_fastMinorB, "M44.fastMinor_013_123", { IN (Matrix44, a); c.outS (a.fastMinor (0, 1, 3, 1, 2, 3)); })
// fastMinor at further index tuples: descending, repeated, r0 = 2 / c0 = 2, and the three other tuples
// Matrix44::determinant calls (the body is index-generic; every tuple is additionally run on the real code by c05_residue)
#define FASTMINOR33(r0, r1, c0, c1) EXTRACT ("C05", m33_fastMinor_##r0##r1##_##c0##c1, "M33.fastMinor_" #r0 #r1 "_" #c0 #c1, { IN (Matrix33, a); c.outS (a.fastMinor (r0, r1, c0, c1)); })
#define FASTMINOR44(r0, r1, r2, c0, c1, c2) EXTRACT ("C05", m44_fastMinor_##r0##r1##r2##_##c0##c1##c2, "M44.fastMinor_" #r0 #r1 #r2 "_" #c0 #c1 #c2, { IN (Matrix44, a); c.outS (a.fastMinor (r0, r1, r2, c0, c1, c2)); })
FASTMINOR33 (2, 1, 2, 0) FASTMINOR33 (0, 0, 1, 1) FASTMINOR33 (2, 0, 0, 2)
FASTMINOR44 (3, 2, 1, 2, 1, 0) FASTMINOR44 (0, 0, 2, 1, 3, 3) FASTMINOR44 (0, 2, 3, 0, 1, 2) FASTMINOR44 (0, 1, 3, 0, 1, 2) FASTMINOR44 (0, 1, 2, 0, 1, 2)
// aliasing: the compound spellings with the object itself as right operand
EXTRACT ("C05", q_mulSelf, "Quat.mulAssignSelf", { IN (Quat, a); a *= a; c.out (a); })
EXTRACT ("C05", m22_mulSelf, "M22.mulAssignSelf", { IN (Matrix22, a); a *= a; c.out (a); })
EXTRACT ("C05", m33_mulSelf, "M33.mulAssignSelf", { IN (Matrix33, a); a *= a; c.out (a); })
EXTRACT ("C05", m44_mulSelf, "M44.mulAssignSelf", { IN (Matrix44, a); a *= a; c.out (a); })
EXTRACT ("C05", v3_crossSelf, "V3.crossAssignSelf", { IN (Vec3, a); a %= a; c.out (a); })
EXTRACT ("C05", m44_multiply3Alias, "M44.multiplyStatic3AliasA", { IN (Matrix44, a); IN (Matrix44, b); Matrix44<T>::multiply (a, b, a); c.out (a); })
EXTRACT ("C05", m44_multiply3AliasB, "M44.multiplyStatic3AliasB", { IN (Matrix44, a); IN (Matrix44, b); Matrix44<T>::multiply (a, b, b); c.out (b); })
