// C12 extraction table: SHRT wrappers (ImathMatrixAlgo.h 446-545, 826-902, 1110-1235, 1323-1402).
// `exc` is a concrete bool: one entry per value where both are of interest (`…Exc` = exc true, returns Except).
// When a function returns false its out-parameters are unspecified (partially written by the real code): the entries
// report zeros for them in that case, so that the translator validation compares only what callers may rely on.
#define IN(Ty, n) auto n = c.template in<Ty<T>> (#n)
#define Z3 Vec3<T> (T (0))
#define Z2 Vec2<T> (T (0))

// ---------------------------------------------------------------- guards
EXTRACT ("C12", chk3, "V3.checkForZeroScaleInRow", { T scl = c.inS ("scl"); IN (Vec3, row); c.outB (checkForZeroScaleInRow (scl, row, false)); })
EXTRACT ("C12", chk3e, "V3.checkForZeroScaleInRowExc", { T scl = c.inS ("scl"); IN (Vec3, row); c.outB (checkForZeroScaleInRow (scl, row, true)); })
EXTRACT ("C12", chk2, "V2.checkForZeroScaleInRow", { T scl = c.inS ("scl"); IN (Vec2, row); c.outB (checkForZeroScaleInRow (scl, row, false)); })
EXTRACT ("C12", chk2e, "V2.checkForZeroScaleInRowExc", { T scl = c.inS ("scl"); IN (Vec2, row); c.outB (checkForZeroScaleInRow (scl, row, true)); })

// ---------------------------------------------------------------- 3-D (Matrix44)
EXTRACT ("C12", m44_extractScaling, "M44.extractScaling",
         { IN (Matrix44, m); Vec3<T> s (T (0)); bool ok = extractScaling (m, s, false); c.outB (ok); c.out (ok ? s : Z3); })
EXTRACT ("C12", m44_extractScalingExc, "M44.extractScalingExc",
         { IN (Matrix44, m); Vec3<T> s (T (0)); bool ok = extractScaling (m, s, true); c.outB (ok); c.out (ok ? s : Z3); })
EXTRACT ("C12", m44_extractScalingAndShear, "M44.extractScalingAndShear",
         { IN (Matrix44, m); Vec3<T> s (T (0)); Vec3<T> h (T (0)); bool ok = extractScalingAndShear (m, s, h, false);
           c.outB (ok); c.out (ok ? s : Z3); c.out (ok ? h : Z3); })
EXTRACT ("C12", m44_sansScalingAndShear, "M44.sansScalingAndShear", { IN (Matrix44, m); c.out (sansScalingAndShear (m, false)); })
EXTRACT ("C12", m44_sansScalingAndShearExc, "M44.sansScalingAndShearExc", { IN (Matrix44, m); c.out (sansScalingAndShear (m, true)); })
// the out-parameter overload decomposes `result` (NOT `mat`) in place and copies `mat` on failure
EXTRACT ("C12", m44_sansScalingAndShearOut, "M44.sansScalingAndShearOut",
         { IN (Matrix44, result); IN (Matrix44, m); sansScalingAndShear (result, m, false); c.out (result); })
EXTRACT ("C12", m44_removeScalingAndShear, "M44.removeScalingAndShear",
         { IN (Matrix44, m); bool ok = removeScalingAndShear (m, false); c.outB (ok); c.out (m); })
EXTRACT ("C12", m44_extractEulerXYZ, "M44.extractEulerXYZ", { IN (Matrix44, m); Vec3<T> r (T (0)); extractEulerXYZ (m, r); c.out (r); })
EXTRACT ("C12", m44_extractSHRT, "M44.extractSHRT",
         { IN (Matrix44, m); Vec3<T> s (T (0)); Vec3<T> h (T (0)); Vec3<T> r (T (0)); Vec3<T> t (T (0));
           bool ok = extractSHRT (m, s, h, r, t, false); c.outB (ok); c.out (ok ? s : Z3); c.out (ok ? h : Z3); c.out (ok ? r : Z3); c.out (ok ? t : Z3); })
EXTRACT ("C12", m44_extractSHRTExc, "M44.extractSHRTExc",
         { IN (Matrix44, m); Vec3<T> s (T (0)); Vec3<T> h (T (0)); Vec3<T> r (T (0)); Vec3<T> t (T (0));
           bool ok = extractSHRT (m, s, h, r, t, true); c.outB (ok); c.out (ok ? s : Z3); c.out (ok ? h : Z3); c.out (ok ? r : Z3); c.out (ok ? t : Z3); })
EXTRACT ("C12", m44_sansScaling, "M44.sansScaling", { IN (Matrix44, m); c.out (sansScaling (m, false)); })
EXTRACT ("C12", m44_sansScalingExc, "M44.sansScalingExc", { IN (Matrix44, m); c.out (sansScaling (m, true)); })
EXTRACT ("C12", m44_removeScaling, "M44.removeScaling", { IN (Matrix44, m); bool ok = removeScaling (m, false); c.outB (ok); c.out (m); })
// computeRSMatrix: translate(A) * rotate(keepRotateA ? A : B) * scale(keepScaleA ? A : B); throws on degenerate A or B
#define RS(ka, ks) EXTRACT ("C12", m44_rs_##ka##ks, "M44.computeRSMatrix_" #ka "_" #ks, { IN (Matrix44, A); IN (Matrix44, B); c.out (computeRSMatrix (ka != 0, ks != 0, A, B)); })
RS (1, 1) RS (1, 0) RS (0, 1) RS (0, 0)

// ---------------------------------------------------------------- 2-D (Matrix33)
EXTRACT ("C12", m33_extractScaling, "M33.extractScaling",
         { IN (Matrix33, m); Vec2<T> s (T (0)); bool ok = extractScaling (m, s, false); c.outB (ok); c.out (ok ? s : Z2); })
EXTRACT ("C12", m33_extractScalingAndShear, "M33.extractScalingAndShear",
         { IN (Matrix33, m); Vec2<T> s (T (0)); T h = T (0); bool ok = extractScalingAndShear (m, s, h, false);
           c.outB (ok); c.out (ok ? s : Z2); c.outS (ok ? h : T (0)); })
EXTRACT ("C12", m33_sansScalingAndShear, "M33.sansScalingAndShear", { IN (Matrix33, m); c.out (sansScalingAndShear (m, false)); })
EXTRACT ("C12", m33_sansScalingAndShearExc, "M33.sansScalingAndShearExc", { IN (Matrix33, m); c.out (sansScalingAndShear (m, true)); })
EXTRACT ("C12", m33_removeScalingAndShear, "M33.removeScalingAndShear",
         { IN (Matrix33, m); bool ok = removeScalingAndShear (m, false); c.outB (ok); c.out (m); })
EXTRACT ("C12", m33_extractEuler, "M33.extractEuler", { IN (Matrix33, m); T r = T (0); extractEuler (m, r); c.outS (r); })
EXTRACT ("C12", m22_extractEuler, "M22.extractEuler", { IN (Matrix22, m); T r = T (0); extractEuler (m, r); c.outS (r); })
EXTRACT ("C12", m33_extractSHRT, "M33.extractSHRT",
         { IN (Matrix33, m); Vec2<T> s (T (0)); T h = T (0); T r = T (0); Vec2<T> t (T (0));
           bool ok = extractSHRT (m, s, h, r, t, false); c.outB (ok); c.out (ok ? s : Z2); c.outS (ok ? h : T (0)); c.outS (ok ? r : T (0)); c.out (ok ? t : Z2); })
EXTRACT ("C12", m33_sansScaling, "M33.sansScaling", { IN (Matrix33, m); c.out (sansScaling (m, false)); })
EXTRACT ("C12", m33_sansScalingExc, "M33.sansScalingExc", { IN (Matrix33, m); c.out (sansScaling (m, true)); })
EXTRACT ("C12", m33_removeScaling, "M33.removeScaling", { IN (Matrix33, m); bool ok = removeScaling (m, false); c.outB (ok); c.out (m); })

// ---------------------------------------------------------------- recomposition tails (1 path each)
// The statement sequences with which sansScaling / removeScaling / computeRSMatrix rebuild their result, run on
// free inputs.  The theorems about the wrappers first show `wrapper = tail (factors)` (fast: identical DAGs) and then
// use the algebraic theorem about the tail; the wrappers themselves are extracted from the real functions above.
EXTRACT ("C12", m44_composeTRH, "M44.composeTRH", { IN (Vec3, t); IN (Vec3, r); IN (Vec3, h); Matrix44<T> M; M.translate (t); M.rotate (r); M.shear (h); c.out (M); })
EXTRACT ("C12", m44_composeTRS, "M44.composeTRS", { IN (Vec3, t); IN (Vec3, r); IN (Vec3, s); Matrix44<T> M; M.makeIdentity (); M.translate (t); M.rotate (r); M.scale (s); c.out (M); })
EXTRACT ("C12", m33_composeTRH, "M33.composeTRH", { IN (Vec2, t); T r = c.inS ("r"); T h = c.inS ("h"); Matrix33<T> M; M.translate (t); M.rotate (r); M.shear (h); c.out (M); })

// ---------------------------------------------------------------- Euler's re-ordering constructor from order XYZ (24 orders)
// `Euler<T> eXYZ (r, XYZ); Euler<T> e (eXYZ, rOrder);` as the 7-argument extractSHRT overload uses it; the angles only (the same
// code as C11's `Euler.reorderFromXYZ_<O>`, which also reports the order: theorem C12Euler.reorder_copies_agree).  Extracted HERE so
// that the opaque call of it in sym_c12e.cpp refers to a definition regenerated by the same check.
#define C12_ORDERS(X)                                                                     \
    X (XYZ) X (XZY) X (YZX) X (YXZ) X (ZXY) X (ZYX)                                       \
    X (XZX) X (XYX) X (YXY) X (YZY) X (ZYZ) X (ZXZ)                                       \
    X (XYZr) X (XZYr) X (YZXr) X (YXZr) X (ZXYr) X (ZYXr)                                 \
    X (XZXr) X (XYXr) X (YXYr) X (YZYr) X (ZYZr) X (ZXZr)
#define C12_REORDER(O)                                                                                                             \
    EXTRACT ("C12", m44_reorder_##O, "M44.reorderFromXYZ_" #O,                                                                      \
             { IN (Vec3, a); Euler<T> s (a, Euler<T>::XYZ); Euler<T> e (s, Euler<T>::O); c.out (Vec3<T> (e.x, e.y, e.z)); })
C12_ORDERS (C12_REORDER)
