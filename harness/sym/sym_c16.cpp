// C16 extractor: Frustum (module C16Frustum) and FrustumTest (module C16Test).
// Frustum::planes (p, M) is an opaque call here (its hand transcript is extracted by sym_c16m.cpp into Gen/C16PlanesM.lean;
// for translator validation the call is evaluated with the REAL planes (p, M) at double / float).
#include <math.h>
#include "sym.h"
#include "c10frac.h" // FracS: Vec::length at exact fractions so that lean_tv covers the entries calling it
#include "shapes.h"
#include "main.h"
// `0.5 * (Zp + 1) * zdiff` (DepthToZ): Sym * long would be ambiguous between the int / double / float overloads of sym.h
namespace symns { inline Sym operator* (Sym a, long b) { return a * Sym (b); } }
#include <ImathFrustum.h>
#include <ImathFrustumTest.h>
OPAQUE_LENGTH (Vec3, "V3", 3)
IMATH_INTERNAL_NAMESPACE_HEADER_ENTER
template <>
inline void
Frustum<symns::Sym>::planes (Plane3<symns::Sym> p[6], const Matrix44<symns::Sym>& M) const IMATH_NOEXCEPT
{
    static const char* digit[6] = {"0", "1", "2", "3", "4", "5"};
    for (int i = 0; i < 6; ++i)
        p[i] = symns::opaqueA<Plane3<symns::Sym>> (
            std::string ("Frustum.planesM_") + (_orthographic ? "ortho_" : "persp_") + digit[i], _nearPlane, _farPlane, _left, _right,
            _top, _bottom, M);
}
IMATH_INTERNAL_NAMESPACE_HEADER_EXIT
using namespace IMATH_INTERNAL_NAMESPACE;
// ---- DepthToZ: the REAL template body, with the operand of its `long (…)` cast made observable.
// At T = Sym, `long (x)` records x (sym.h).  For translator validation the same body is instantiated at C16CapD: plain double
// arithmetic (every mixed operand converts to double exactly as in Frustum<double>), `long (x)` records x and truncates.
struct C16CapD
{
    double v;
    C16CapD () : v (0) {}
    C16CapD (double x) : v (x) {}
    explicit operator long () const { last () = v; ++count (); return long (v); }
    static double& last () { static double d = 0; return d; }
    static int&    count () { static int n = 0; return n; }
};
inline C16CapD operator+ (C16CapD a, C16CapD b) { return C16CapD (a.v + b.v); }
inline C16CapD operator- (C16CapD a, C16CapD b) { return C16CapD (a.v - b.v); }
inline C16CapD operator* (C16CapD a, C16CapD b) { return C16CapD (a.v * b.v); }
inline C16CapD operator/ (C16CapD a, C16CapD b) { return C16CapD (a.v / b.v); }
inline C16CapD operator- (C16CapD a) { return C16CapD (-a.v); }
inline bool operator< (C16CapD a, C16CapD b) { return a.v < b.v; }
inline bool operator> (C16CapD a, C16CapD b) { return a.v > b.v; }
namespace std
{
// DepthToZExc's guards read numeric_limits<T>::max ()
template <> class numeric_limits<C16CapD>
{
public:
    static constexpr bool is_specialized = true;
    static C16CapD max () { return C16CapD (numeric_limits<double>::max ()); }
};
}
template <class T> struct C16Long;
template <> struct C16Long<symns::Sym>
{
    typedef symns::Sym S;
    static void       reset () { symns::longCasts ().clear (); }
    static int        count () { return (int) symns::longCasts ().size (); }
    static symns::Sym last () { return symns::longCasts ().empty () ? symns::Sym (0) : symns::longCasts ().back (); }
    static long       trunc (symns::Sym) { return 0; }
    static long       vsPlainDouble (S, S, S, S, S, S, bool, S, long, long, long) { return 0; }
    static long       vsPlainDoubleExc (S, S, S, S, S, S, bool, S, long, long, long) { return 0; }
};
template <> struct C16Long<double>
{
    typedef C16CapD S;
    static void   reset () { C16CapD::count () = 0; }
    static int    count () { return C16CapD::count (); }
    static double last () { return C16CapD::last (); }
    static long   trunc (double v) { return long (v); }
    // the instantiation at C16CapD returns what Frustum<double>::DepthToZ returns (difference, must be 0)
    static long vsPlainDouble (double n, double f, double l, double r, double t, double b, bool o, double depth, long zmin, long zmax, long z)
    {
        return z - Frustum<double> (n, f, l, r, t, b, o).DepthToZ (depth, zmin, zmax);
    }
    static long vsPlainDoubleExc (double n, double f, double l, double r, double t, double b, bool o, double depth, long zmin, long zmax, long z)
    {
        return z - Frustum<double> (n, f, l, r, t, b, o).DepthToZExc (depth, zmin, zmax); // (reached only when the wrapper instantiation did not throw)
    }
};
template <> struct C16Long<float> : C16Long<double> {}; // (not run: EXTRACT_D)
namespace
{
template <class T> std::vector<T> c16_nativePlane (const std::vector<T>& a, bool ortho, int i)
{
    Frustum<T>  fr (a[0], a[1], a[2], a[3], a[4], a[5], ortho);
    Matrix44<T> M;
    for (int r = 0; r < 4; ++r) for (int c = 0; c < 4; ++c) M.x[r][c] = a[6 + 4 * r + c];
    Plane3<T> p[6];
    fr.planes (p, M);
    return std::vector<T>{p[i].normal.x, p[i].normal.y, p[i].normal.z, p[i].distance};
}
int c16_registerNatives ()
{
    for (int o = 0; o < 2; ++o)
        for (int i = 0; i < 6; ++i)
        {
            bool ortho = o == 1;
            symns::natives ()[std::string ("Frustum.planesM_") + (ortho ? "ortho_" : "persp_") + char ('0' + i)] = symns::Native{
                [ortho, i] (const std::vector<double>& a) { return c16_nativePlane<double> (a, ortho, i); },
                [ortho, i] (const std::vector<float>& a) { return c16_nativePlane<float> (a, ortho, i); }};
        }
    return 0;
}
static int c16_nativesRegistered = c16_registerNatives ();
}
#include "ops_c16.h"

// `tvin`: C++-side translator validation on GIVEN inputs (stdin: "<Fn> v v v ..." per line; strtod, hex floats allowed): the extracted tree vs
// the real instantiation at double and (inputs rounded) at float, bit for bit, plus the leaf of the tree each input reaches.
// tools/props/c16.py feeds directed inputs (empty boxes per axis, frusta equal except in one field, zero-length rays and normals, tangent
// objects) and obliges that every REACHABLE leaf of every branching tree is compared.  `unreach_literal_length` counts the paths on which
// `length (literal non-zero vector) == 0` is TRUE (the near / far normals (0,0,+-1), the axis normals of the orthographic planes ()): no input
// reaches them; recomputed from the current tree.
struct TvinEntry { const char* name; void (*d) (symns::Ctx<double>&); void (*f) (symns::Ctx<float>&); };
#define TVIN(ident, nm) {nm, &X_##ident::run<double>, &X_##ident::run<float>}
#define TVIN_D(ident, nm) {nm, &X_##ident::run<double>, nullptr}
#define TVIN_BOTH(ident, nm) TVIN (ident##_persp, nm "_persp"), TVIN (ident##_ortho, nm "_ortho")
static const TvinEntry tvinEntries[] = {
    TVIN_BOTH (degenerate, "Frustum.degenerate"), TVIN_BOTH (setFov, "Frustum.setFov"), TVIN (ctorFov, "Frustum.ctorFov"),
    TVIN (modifyNearAndFar_persp, "Frustum.modifyNearAndFar_persp"), TVIN (eq_persp_persp, "Frustum.eq_persp_persp"),
    TVIN (eq_ortho_ortho, "Frustum.eq_ortho_ortho"), TVIN (eq_persp_ortho, "Frustum.eq_persp_ortho"), TVIN (eq_ortho_persp, "Frustum.eq_ortho_persp"),
    TVIN_D (dtzE_persp, "Frustum.DepthToZExc_persp_3_10"), TVIN_D (dtzE_ortho, "Frustum.DepthToZExc_ortho_3_10"),
    TVIN_BOTH (projectScreenToRay, "Frustum.projectScreenToRay"), TVIN (projectPointToScreen_persp, "Frustum.projectPointToScreen_persp"),
    TVIN_BOTH (planes, "Frustum.planes"), TVIN_BOTH (ft_isVisiblePoint, "FrustumTest.isVisiblePoint"),
    TVIN_BOTH (ft_isVisibleSphere, "FrustumTest.isVisibleSphere"), TVIN_BOTH (ft_isVisibleBox, "FrustumTest.isVisibleBox"),
    TVIN_BOTH (ft_containsSphere, "FrustumTest.completelyContainsSphere"), TVIN_BOTH (ft_containsBox, "FrustumTest.completelyContainsBox")};
static int tvin (int argc, char** argv)
{
    using namespace symns;
    for (int i = 1; i + 1 < argc; ++i)
        if (std::string (argv[i]) == "--idx") loadIndex (argv[i + 1]);
    std::map<std::string, FnRecord*> recs;
    for (auto& e : entries ()) { FnRecord* r = explore (e); recs[r->name] = r; }
    std::map<std::string, std::set<size_t>> hit;
    std::map<std::string, long> n;
    long bad = 0, evals = 0;
    std::string line;
    while (std::getline (std::cin, line))
    {
        std::istringstream is (line); std::string fn, t; is >> fn;
        if (fn.empty ()) continue;
        std::vector<double> in;
        while (is >> t) in.push_back (strtod (t.c_str (), nullptr));
        const TvinEntry* te = nullptr;
        for (auto& e : tvinEntries) if (fn == e.name) te = &e;
        if (!te || !recs.count (fn)) { printf ("TVINERR %s unknown\n", fn.c_str ()); ++bad; continue; }
        FnRecord* r = recs[fn];
        size_t nin = 0;
        for (auto& p : r->params) nin += p.vars.size ();
        if (in.size () != nin) { printf ("TVINERR %s arity need=%zu got=%zu\n", fn.c_str (), nin, in.size ()); ++bad; continue; }
        std::vector<float> inf (in.begin (), in.end ());
        std::string d; size_t leaf = (size_t) -1;
        ++n[fn]; ++evals;
        if (!tvOne<double> (*r, te->d, in, d, &leaf)) { ++bad; printf ("TVFAIL double %s :: %s :: in=%s\n", fn.c_str (), d.c_str (), line.c_str ()); }
        if (leaf != (size_t) -1) hit[fn].insert (leaf);
        if (te->f)
        {
            leaf = (size_t) -1; ++evals;
            if (!tvOne<float> (*r, te->f, inf, d, &leaf)) { ++bad; printf ("TVFAIL float %s :: %s :: in=%s\n", fn.c_str (), d.c_str (), line.c_str ()); }
            if (leaf != (size_t) -1) hit[fn].insert (leaf);
        }
    }
    for (auto& e : tvinEntries)
    {
        if (!recs.count (e.name)) { printf ("TVINERR %s not-extracted\n", e.name); ++bad; continue; }
        FnRecord* r = recs[e.name];
        size_t unreach = 0;
        for (auto& p : r->paths)
        {
            bool u = false;
            for (auto& cv : p.conds)
            {
                const Cond& c = cv.first;
                if (c.kind == C_LT || c.kind == C_LE || !cv.second) continue;
                const Node* call = c.a->op == CALL ? c.a : c.b->op == CALL ? c.b : nullptr;
                const Node* other = call == c.a ? c.b : c.a;
                if (!call || other->op != LIT || other->lit != 0 || call->s.find ("length") == std::string::npos) continue;
                bool allLit = !call->k.empty (), nonzero = false;
                for (auto* k : call->k) { if (k->op != LIT) allLit = false; else if (k->lit != 0) nonzero = true; }
                if (allLit && nonzero) u = true;
            }
            if (u) ++unreach;
        }
        printf ("TVINSUM %s inputs=%ld hit=%zu paths=%zu unreach_literal_length=%zu leaves=", e.name, n[e.name], hit[e.name].size (), r->paths.size (), unreach);
        for (size_t l : hit[e.name]) printf ("%zu,", l);
        printf ("\n");
    }
    // trees that are not in the table (a new branching entry must be added to it)
    for (auto& kv : recs)
        if (kv.second->paths.size () > 1)
        {
            bool listed = false;
            for (auto& e : tvinEntries) if (kv.first == e.name) listed = true;
            if (!listed) printf ("TVINUNLISTED %s paths=%zu\n", kv.first.c_str (), kv.second->paths.size ());
        }
    printf ("TVIN evaluations=%ld failures=%ld\n", evals, bad);
    return bad ? 1 : 0;
}
int main (int argc, char** argv)
{
    if (argc > 1 && std::string (argv[1]) == "tvin") return tvin (argc, argv);
    return symns::sym_main (argc, argv);
}
