// C16 extractor: Frustum (module C16Frustum) and FrustumTest (module C16Test).
// Frustum::planes (p, M) is an opaque call here (its hand transcript is extracted by sym_c16m.cpp into Gen/C16PlanesM.lean;
// for translator validation the call is evaluated with the REAL planes (p, M) at double / float).
#include <math.h>
#include "sym.h"
#include "c10frac.h" // FracS: Vec::length at exact fractions so that lean_tv covers the entries calling it
#include "shapes.h"
#include "main.h"
// `0.5 * (Zp + 1) * zdiff` (DepthToZ): Sym * long would be ambiguous between the int / double / float overloads of sym.h
namespace symns { inline Sym operator* (Sym a, long b) { return a * Sym (b); } }
#include <ImathFrustum.h>
#include <ImathFrustumTest.h>
OPAQUE_LENGTH (Vec3, "V3", 3)
IMATH_INTERNAL_NAMESPACE_HEADER_ENTER
template <>
inline void
Frustum<symns::Sym>::planes (Plane3<symns::Sym> p[6], const Matrix44<symns::Sym>& M) const IMATH_NOEXCEPT
{
    static const char* digit[6] = {"0", "1", "2", "3", "4", "5"};
    for (int i = 0; i < 6; ++i)
        p[i] = symns::opaqueA<Plane3<symns::Sym>> (
            std::string ("Frustum.planesM_") + (_orthographic ? "ortho_" : "persp_") + digit[i], _nearPlane, _farPlane, _left, _right,
            _top, _bottom, M);
}
IMATH_INTERNAL_NAMESPACE_HEADER_EXIT
using namespace IMATH_INTERNAL_NAMESPACE;
// ---- DepthToZ: the REAL template body, with the operand of its `long (…)` cast made observable.
// At T = Sym, `long (x)` records x (sym.h).  For translator validation the same body is instantiated at C16CapD: plain double
// arithmetic (every mixed operand converts to double exactly as in Frustum<double>), `long (x)` records x and truncates.
struct C16CapD
{
    double v;
    C16CapD () : v (0) {}
    C16CapD (double x) : v (x) {}
    explicit operator long () const { last () = v; ++count (); return long (v); }
    static double& last () { static double d = 0; return d; }
    static int&    count () { static int n = 0; return n; }
};
inline C16CapD operator+ (C16CapD a, C16CapD b) { return C16CapD (a.v + b.v); }
inline C16CapD operator- (C16CapD a, C16CapD b) { return C16CapD (a.v - b.v); }
inline C16CapD operator* (C16CapD a, C16CapD b) { return C16CapD (a.v * b.v); }
inline C16CapD operator/ (C16CapD a, C16CapD b) { return C16CapD (a.v / b.v); }
inline C16CapD operator- (C16CapD a) { return C16CapD (-a.v); }
inline bool operator< (C16CapD a, C16CapD b) { return a.v < b.v; }
inline bool operator> (C16CapD a, C16CapD b) { return a.v > b.v; }
namespace std
{
// DepthToZExc's guards read numeric_limits<T>::max ()
template <> class numeric_limits<C16CapD>
{
public:
    static constexpr bool is_specialized = true;
    static C16CapD max () { return C16CapD (numeric_limits<double>::max ()); }
};
}
template <class T> struct C16Long;
template <> struct C16Long<symns::Sym>
{
    typedef symns::Sym S;
    static void       reset () { symns::longCasts ().clear (); }
    static int        count () { return (int) symns::longCasts ().size (); }
    static symns::Sym last () { return symns::longCasts ().empty () ? symns::Sym (0) : symns::longCasts ().back (); }
    static long       trunc (symns::Sym) { return 0; }
    static long       vsPlainDouble (S, S, S, S, S, S, bool, S, long, long, long) { return 0; }
    static long       vsPlainDoubleExc (S, S, S, S, S, S, bool, S, long, long, long) { return 0; }
};
template <> struct C16Long<double>
{
    typedef C16CapD S;
    static void   reset () { C16CapD::count () = 0; }
    static int    count () { return C16CapD::count (); }
    static double last () { return C16CapD::last (); }
    static long   trunc (double v) { return long (v); }
    // the instantiation at C16CapD returns what Frustum<double>::DepthToZ returns (difference, must be 0)
    static long vsPlainDouble (double n, double f, double l, double r, double t, double b, bool o, double depth, long zmin, long zmax, long z)
    {
        return z - Frustum<double> (n, f, l, r, t, b, o).DepthToZ (depth, zmin, zmax);
    }
    static long vsPlainDoubleExc (double n, double f, double l, double r, double t, double b, bool o, double depth, long zmin, long zmax, long z)
    {
        return z - Frustum<double> (n, f, l, r, t, b, o).DepthToZExc (depth, zmin, zmax); // (reached only when the wrapper instantiation did not throw)
    }
};
template <> struct C16Long<float> : C16Long<double> {}; // (not run: EXTRACT_D)
namespace
{
template <class T> std::vector<T> c16_nativePlane (const std::vector<T>& a, bool ortho, int i)
{
    Frustum<T>  fr (a[0], a[1], a[2], a[3], a[4], a[5], ortho);
    Matrix44<T> M;
    for (int r = 0; r < 4; ++r) for (int c = 0; c < 4; ++c) M.x[r][c] = a[6 + 4 * r + c];
    Plane3<T> p[6];
    fr.planes (p, M);
    return std::vector<T>{p[i].normal.x, p[i].normal.y, p[i].normal.z, p[i].distance};
}
int c16_registerNatives ()
{
    for (int o = 0; o < 2; ++o)
        for (int i = 0; i < 6; ++i)
        {
            bool ortho = o == 1;
            symns::natives ()[std::string ("Frustum.planesM_") + (ortho ? "ortho_" : "persp_") + char ('0' + i)] = symns::Native{
                [ortho, i] (const std::vector<double>& a) { return c16_nativePlane<double> (a, ortho, i); },
                [ortho, i] (const std::vector<float>& a) { return c16_nativePlane<float> (a, ortho, i); }};
        }
    return 0;
}
static int c16_nativesRegistered = c16_registerNatives ();
}
#include "ops_c16.h"
int main (int argc, char** argv) { return symns::sym_main (argc, argv); }
