// Symbolic scalar `Sym` and path explorer: the front half of the translator
// (T-route, DESIGN.md §2.2).  The real Imath templates are instantiated at
// T = symns::Sym; arithmetic builds a hash-consed expression DAG, comparisons
// consult a decision script and are recorded, and running a function under
// every script yields its complete decision tree.
//
// This header must be included BEFORE any Imath header except
// ImathConfig.h/ImathNamespace.h, because the overloads of the qualified calls
// IMATH_INTERNAL_NAMESPACE::abs / clamp must be visible at template definition.
#pragma once
#include <ImathConfig.h>
#include <ImathNamespace.h>
#include <cmath>
#include <cstdint>
#include <cstring>
#include <functional>
#include <limits>
#include <map>
#include <set>
#include <sstream>
#include <stdexcept>
#include <string>
#include <unordered_map>
#include <vector>
#include <algorithm>

namespace symns
{

enum Op
{
    VAR, LIT, ADD, SUB, MUL, DIV, NEG, ABS, MIN, MAX, CLAMP, ABSDIFF,
    SQRT, SIN, COS, TAN, ATAN2, ACOS, ASIN, ATAN, EXP, LOG, POW,
    TMIN, TMAX, TEPS, TLOWEST,
    CALL,  // opaque call of another extracted function: s = name, k = flattened args
    PROJ,  // component `idx` of an aggregate-valued CALL (k[0])
    CAST   // conversion of a value of ANOTHER element type to T (C04 narrowing entries): emitted as the parameter `cast : β → α`
};

struct Node
{
    Op                       op;
    std::vector<const Node*> k;
    std::string              s;   // VAR: lean path (e.g. "a.x"); CALL: callee; PROJ: field path
    double                   lit; // LIT
    int                      id;
};

struct Pool
{
    std::vector<Node*>                     all;
    std::map<std::string, const Node*>     index;
    const Node* mk (Op op, std::vector<const Node*> k = {}, const std::string& s = "", double lit = 0)
    {
        std::ostringstream key;
        key << op << '|' << s << '|';
        uint64_t bits; memcpy (&bits, &lit, 8);
        key << bits;
        for (auto* c : k) key << ',' << c->id;
        auto it = index.find (key.str ());
        if (it != index.end ()) return it->second;
        Node* n = new Node{op, k, s, lit, (int) all.size ()};
        all.push_back (n);
        index[key.str ()] = n;
        return n;
    }
};
inline Pool& pool () { static Pool p; return p; }

// float-typed results of opaque members (C11: Euler<T>::angleMod returns `float` for every T): the
// member's T = Sym specialisation returns a NaN whose payload indexes this table (floatToken), and
// Sym (float) maps such a NaN back to the node.  No arithmetic is performed on the token in between.
inline std::vector<const Node*>& floatTokens () { static std::vector<const Node*> v; return v; }
inline float floatToken (const Node* n)
{
    auto& t = floatTokens ();
    t.push_back (n);
    uint32_t bits = 0x7fc00000u | (uint32_t) (t.size () & 0x3fffffu);
    float f; memcpy (&f, &bits, 4);
    return f;
}
inline const Node* nodeOfFloat (float v)
{
    uint32_t bits; memcpy (&bits, &v, 4);
    uint32_t k = bits & 0x3fffffu;
    if ((bits & 0x7fc00000u) == 0x7fc00000u && k >= 1 && k <= floatTokens ().size ()) return floatTokens ()[k - 1];
    return pool ().mk (LIT, {}, "", (double) v);
}

//-----------------------------------------------------------------------------
// conditions and the explorer

enum CondKind { C_LT, C_LE, C_EQ };
struct Cond { CondKind kind; const Node* a; const Node* b; };
inline bool operator< (const Cond& x, const Cond& y)
{
    if (x.kind != y.kind) return x.kind < y.kind;
    if (x.a->id != y.a->id) return x.a->id < y.a->id;
    return x.b->id < y.b->id;
}

struct TooManyPaths : std::runtime_error { TooManyPaths () : std::runtime_error ("too many paths") {} };
struct PathTooLong : std::runtime_error { PathTooLong () : std::runtime_error ("path too long") {} };

struct Explorer
{
    std::vector<bool>                  script;
    size_t                             pos = 0;
    std::vector<std::pair<Cond, bool>> path;
    std::map<Cond, bool>               known;
    bool                               active = false;
    size_t                             maxDepth = 400;

    void begin () { pos = 0; path.clear (); known.clear (); active = true; }
    void learn (CondKind k, const Node* a, const Node* b, bool v) { known[Cond{k, a, b}] = v; }
    bool decide (CondKind kind, const Node* a, const Node* b)
    {
        if (a->op == LIT && b->op == LIT)
            return kind == C_LT ? a->lit < b->lit : kind == C_LE ? a->lit <= b->lit : a->lit == b->lit;
        if (a == b) return kind != C_LT;
        Cond c{kind, a, b};
        auto it = known.find (c);
        if (it != known.end ()) return it->second;
        if (!active) throw std::logic_error ("Sym comparison outside exploration");
        bool v;
        if (pos < script.size ()) v = script[pos];
        else { v = true; script.push_back (true); }
        ++pos;
        if (pos > maxDepth) throw PathTooLong ();
        path.push_back ({c, v});
        // consequences over a linear order
        if (kind == C_LT)
        {
            if (v) { learn (C_LT, a, b, true); learn (C_LE, a, b, true); learn (C_EQ, a, b, false); learn (C_EQ, b, a, false);
                     learn (C_LT, b, a, false); learn (C_LE, b, a, false); }
            else   { learn (C_LT, a, b, false); learn (C_LE, b, a, true); }
        }
        else if (kind == C_LE)
        {
            if (v) { learn (C_LE, a, b, true); learn (C_LT, b, a, false); }
            else   { learn (C_LE, a, b, false); learn (C_LT, b, a, true); learn (C_LE, b, a, true); learn (C_LT, a, b, false);
                     learn (C_EQ, a, b, false); learn (C_EQ, b, a, false); }
        }
        else
        {
            if (v) { learn (C_EQ, a, b, true); learn (C_EQ, b, a, true); learn (C_LE, a, b, true); learn (C_LE, b, a, true);
                     learn (C_LT, a, b, false); learn (C_LT, b, a, false); }
            else   { learn (C_EQ, a, b, false); learn (C_EQ, b, a, false); }
        }
        return v;
    }
    // advance to the next unexplored script; false when the tree is exhausted
    bool next ()
    {
        script.resize (pos);
        while (!script.empty () && script.back () == false) script.pop_back ();
        if (script.empty ()) return false;
        script.back () = false;
        return true;
    }
};
inline Explorer& explorer () { static Explorer e; return e; }

//-----------------------------------------------------------------------------
// the scalar

struct Sym
{
    const Node* n;
    Sym () : n (pool ().mk (LIT, {}, "", 0.0)) {}
    Sym (const Node* p) : n (p) {}
    Sym (int v) : n (pool ().mk (LIT, {}, "", (double) v)) {}
    Sym (unsigned v) : n (pool ().mk (LIT, {}, "", (double) v)) {}
    Sym (long v) : n (pool ().mk (LIT, {}, "", (double) v)) {}
    Sym (unsigned long v) : n (pool ().mk (LIT, {}, "", (double) v)) {}
    Sym (float v) : n (nodeOfFloat (v)) {}
    Sym (double v) : n (pool ().mk (LIT, {}, "", v)) {}
    static Sym var (const std::string& name) { return Sym (pool ().mk (VAR, {}, name)); }
    // contextual conversion `if (T l = length ())` (ImathQuat.h normalize): l != 0, a recorded decision
    explicit operator bool () const;
    // `long (x)` (ImathFrustum.h DepthToZ): a symbolic scalar has no machine-integer value.  The operand is RECORDED in
    // symns::longCasts () (the extraction entry outputs it) and 0 is returned.  Explicit: never used by overload resolution.
    explicit operator long () const;
};

// a second, distinct scalar type standing for "another element type S": forces the
// converting constructors / assignments `Vec3<T>(const Vec3<S>&)` to be instantiated
struct SymB
{
    const Node* n;
    SymB () : n (pool ().mk (LIT, {}, "", 0.0)) {}
    SymB (Sym s) : n (s.n) {}
    SymB (int v) : n (pool ().mk (LIT, {}, "", (double) v)) {}
    operator Sym () const { return Sym (n); }
};

inline Sym un (Op op, Sym a) { return Sym (pool ().mk (op, {a.n})); }
inline Sym bin (Op op, Sym a, Sym b) { return Sym (pool ().mk (op, {a.n, b.n})); }

inline Sym operator+ (Sym a, Sym b) { return bin (ADD, a, b); }
inline Sym operator- (Sym a, Sym b) { return bin (SUB, a, b); }
inline Sym operator* (Sym a, Sym b) { return bin (MUL, a, b); }
inline Sym operator/ (Sym a, Sym b) { return bin (DIV, a, b); }
inline Sym operator- (Sym a) { return a.n->op == LIT ? Sym (-a.n->lit) : un (NEG, a); }
inline Sym operator+ (Sym a) { return a; }
inline Sym& operator+= (Sym& a, Sym b) { a = a + b; return a; }
inline Sym& operator-= (Sym& a, Sym b) { a = a - b; return a; }
inline Sym& operator*= (Sym& a, Sym b) { a = a * b; return a; }
inline Sym& operator/= (Sym& a, Sym b) { a = a / b; return a; }

#define SYM_MIXED(T)                                                                     \
    inline Sym operator+ (Sym a, T b) { return a + Sym (b); }                              \
    inline Sym operator+ (T a, Sym b) { return Sym (a) + b; }                              \
    inline Sym operator- (Sym a, T b) { return a - Sym (b); }                              \
    inline Sym operator- (T a, Sym b) { return Sym (a) - b; }                              \
    inline Sym operator* (Sym a, T b) { return a * Sym (b); }                              \
    inline Sym operator* (T a, Sym b) { return Sym (a) * b; }                              \
    inline Sym operator/ (Sym a, T b) { return a / Sym (b); }                              \
    inline Sym operator/ (T a, Sym b) { return Sym (a) / b; }                              \
    inline bool operator< (Sym a, T b);                                                    \
    inline bool operator< (T a, Sym b);                                                    \
    inline bool operator> (Sym a, T b);                                                    \
    inline bool operator> (T a, Sym b);                                                    \
    inline bool operator<= (Sym a, T b);                                                   \
    inline bool operator<= (T a, Sym b);                                                   \
    inline bool operator>= (Sym a, T b);                                                   \
    inline bool operator>= (T a, Sym b);                                                   \
    inline bool operator== (Sym a, T b);                                                   \
    inline bool operator== (T a, Sym b);                                                   \
    inline bool operator!= (Sym a, T b);                                                   \
    inline bool operator!= (T a, Sym b);
SYM_MIXED (int)
SYM_MIXED (double)
SYM_MIXED (float)

inline bool operator< (Sym a, Sym b) { return explorer ().decide (C_LT, a.n, b.n); }
inline bool operator> (Sym a, Sym b) { return explorer ().decide (C_LT, b.n, a.n); }
inline bool operator<= (Sym a, Sym b) { return explorer ().decide (C_LE, a.n, b.n); }
inline bool operator>= (Sym a, Sym b) { return explorer ().decide (C_LE, b.n, a.n); }
inline bool operator== (Sym a, Sym b) { return explorer ().decide (C_EQ, a.n, b.n); }
inline bool operator!= (Sym a, Sym b) { return !explorer ().decide (C_EQ, a.n, b.n); }
inline Sym::operator bool () const { return !explorer ().decide (C_EQ, n, Sym (0).n); }
inline std::vector<Sym>& longCasts () { static std::vector<Sym> v; return v; }
inline Sym::operator long () const { longCasts ().push_back (*this); return 0; }
#define SYM_MIXED_CMP(T)                                                                  \
    inline bool operator< (Sym a, T b) { return a < Sym (b); }                             \
    inline bool operator< (T a, Sym b) { return Sym (a) < b; }                             \
    inline bool operator> (Sym a, T b) { return a > Sym (b); }                             \
    inline bool operator> (T a, Sym b) { return Sym (a) > b; }                             \
    inline bool operator<= (Sym a, T b) { return a <= Sym (b); }                           \
    inline bool operator<= (T a, Sym b) { return Sym (a) <= b; }                           \
    inline bool operator>= (Sym a, T b) { return a >= Sym (b); }                           \
    inline bool operator>= (T a, Sym b) { return Sym (a) >= b; }                           \
    inline bool operator== (Sym a, T b) { return a == Sym (b); }                           \
    inline bool operator== (T a, Sym b) { return Sym (a) == b; }                           \
    inline bool operator!= (Sym a, T b) { return a != Sym (b); }                           \
    inline bool operator!= (T a, Sym b) { return Sym (a) != b; }
SYM_MIXED_CMP (int)
SYM_MIXED_CMP (double)
SYM_MIXED_CMP (float)

inline std::ostream& operator<< (std::ostream& os, Sym a);

// math functions found by ADL for unqualified calls
inline Sym sqrt (Sym a) { return un (SQRT, a); }
inline Sym sin (Sym a) { return un (SIN, a); }
inline Sym cos (Sym a) { return un (COS, a); }
inline Sym tan (Sym a) { return un (TAN, a); }
inline Sym acos (Sym a) { return un (ACOS, a); }
inline Sym asin (Sym a) { return un (ASIN, a); }
inline Sym atan (Sym a) { return un (ATAN, a); }
inline Sym exp (Sym a) { return un (EXP, a); }
inline Sym log (Sym a) { return un (LOG, a); }
inline Sym atan2 (Sym a, Sym b) { return bin (ATAN2, a, b); }
inline Sym pow (Sym a, Sym b) { return bin (POW, a, b); }
// `abs` is a template here so that an UNQUALIFIED `abs (x)` inside the Imath namespace (ImathLineAlgo.h), which sees both
// this function (ADL) and the non-template `IMATH_INTERNAL_NAMESPACE::abs (Sym)` below, is not ambiguous: the non-template wins.
template <class S, class = typename std::enable_if<std::is_same<S, Sym>::value>::type> inline Sym abs (S a) { return un (ABS, a); }
inline Sym fabs (Sym a) { return un (ABS, a); }

} // namespace symns

// qualified std:: calls made by the Imath templates
namespace std
{
inline symns::Sym sqrt (symns::Sym a) { return symns::sqrt (a); }
inline symns::Sym sin (symns::Sym a) { return symns::sin (a); }
inline symns::Sym cos (symns::Sym a) { return symns::cos (a); }
inline symns::Sym tan (symns::Sym a) { return symns::tan (a); }
inline symns::Sym acos (symns::Sym a) { return symns::acos (a); }
inline symns::Sym asin (symns::Sym a) { return symns::asin (a); }
inline symns::Sym atan (symns::Sym a) { return symns::atan (a); }
inline symns::Sym exp (symns::Sym a) { return symns::exp (a); }
inline symns::Sym log (symns::Sym a) { return symns::log (a); }
inline symns::Sym atan2 (symns::Sym a, symns::Sym b) { return symns::atan2 (a, b); }
inline symns::Sym pow (symns::Sym a, symns::Sym b) { return symns::pow (a, b); }
inline symns::Sym abs (symns::Sym a) { return symns::abs (a); }
inline symns::Sym fabs (symns::Sym a) { return symns::abs (a); }
inline symns::Sym min (symns::Sym a, symns::Sym b) { return symns::bin (symns::MIN, a, b); }
inline symns::Sym max (symns::Sym a, symns::Sym b) { return symns::bin (symns::MAX, a, b); }

template <> class numeric_limits<symns::Sym>
{
public:
    static constexpr bool is_specialized = true;
    static constexpr bool is_signed      = true;
    static constexpr bool is_integer     = false;
    static constexpr bool is_exact       = false;
    static constexpr bool has_infinity   = false;
    static constexpr bool has_quiet_NaN  = false;
    static symns::Sym min () { return symns::Sym (symns::pool ().mk (symns::TMIN)); }
    static symns::Sym max () { return symns::Sym (symns::pool ().mk (symns::TMAX)); }
    static symns::Sym lowest () { return symns::Sym (symns::pool ().mk (symns::TLOWEST)); }
    static symns::Sym epsilon () { return symns::Sym (symns::pool ().mk (symns::TEPS)); }
};
} // namespace std

// qualified IMATH_INTERNAL_NAMESPACE::abs / clamp calls: non-template overloads win
IMATH_INTERNAL_NAMESPACE_HEADER_ENTER
inline symns::Sym abs (symns::Sym a) { return symns::un (symns::ABS, a); }
inline symns::Sym clamp (symns::Sym a, symns::Sym l, symns::Sym h)
{
    return symns::Sym (symns::pool ().mk (symns::CLAMP, {a.n, l.n, h.n}));
}
// ImathMath.h: ((x1 > x2) ? x1 - x2 : x2 - x1) <= e   and   ... <= e * ((x1 > 0) ? x1 : -x1)
// (one recorded decision each instead of three; the scalar templates themselves are modelled for C17)
inline bool equalWithAbsError (symns::Sym x1, symns::Sym x2, symns::Sym e)
{
    return symns::bin (symns::ABSDIFF, x1, x2) <= e;
}
inline bool equalWithRelError (symns::Sym x1, symns::Sym x2, symns::Sym e)
{
    return symns::bin (symns::ABSDIFF, x1, x2) <= e * symns::un (symns::ABS, x1);
}
IMATH_INTERNAL_NAMESPACE_HEADER_EXIT
