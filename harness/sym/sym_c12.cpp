// C12 extractor (module C12): the SHRT wrappers of ImathMatrixAlgo.h in 3-D and 2-D, checkForZeroScaleInRow,
// extractEuler / extractEulerXYZ, computeRSMatrix.
//
// The inner `extractAndRemoveScalingAndShear` is NOT extracted here: its 3-D path tree explodes (> 5,000 paths), so both the
// 3-D and the 2-D function are hand models (lean/ImathVerif/Model/SHRT.lean, H-route, bitwise correspondence in
// harness/corr/c12_corr.cpp).  In THIS translation unit they are explicit specialisations for T = Sym that emit opaque calls
//     SHRT.ear44Flag m  (1 = returned true, 0 = returned false / threw),  SHRT.ear44Mat m,  SHRT.ear44Scl m,  SHRT.ear44Shr m
// (signatures: harness/sym/index_shrt.txt, passed as --idx).  The specialisation reproduces the only control flow a caller
// can observe: `false` (or std::domain_error when `exc`) when the flag is 0, otherwise the three results.
// For translator validation the calls are evaluated with the REAL function at double / float.
#include <math.h>
#include "sym.h"
#include "c10frac.h" // FracS: the real templates at exact fractions (rattv), before any Imath header
#include "shapes.h"
#include "main.h"
#include <ImathMatrixAlgo.h>
OPAQUE_LENGTH (Vec2, "V2", 2)
OPAQUE_LENGTH (Vec3, "V3", 3)

#include "c12_shrt_opaque.h"

using namespace IMATH_INTERNAL_NAMESPACE;
#include "ops_c12.h"
int main (int argc, char** argv) { return symns::sym_main (argc, argv); }
