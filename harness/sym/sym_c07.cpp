// C07 extractor: both members of every checked / unchecked pair (see ops_c07.h).
// <math.h> first: its global `using std::cos;` declarations must not see sym.h's std::cos (Sym) overloads, otherwise the unqualified
// `cos ((T) r)` of Matrix33::setRotation (reached through the 2-D removeScaling / sansScaling) is ambiguous with the ADL candidate.
#include <math.h>
#include "sym.h"
// Exact-rational element type for the Lean-side validation of the entries that call Vec::length () opaquely: the REAL
// Vec2/3/4<T>::length () is instantiated at T = Frac (below, natives ()[...].q), with the same fixed stubs for sqrt / min / max
// as the evaluator of the extracted trees (extract.h Sc<Frac>) and as tools/troute.py on the Lean side.  Like the Sym
// overloads of sym.h, these must be visible before the Imath templates are defined (qualified std:: calls).
#include "frac.h"
namespace symns
{
// Vec::length () is noexcept, so an overflow of the 128-bit fractions must not throw inside it: FracS records it in a sticky
// flag (the result is then discarded by the caller, which throws FracOverflow outside the noexcept function)
struct FracS
{
    Frac v;
    FracS () {}
    FracS (int x) : v (x) {}
    FracS (Frac x) : v (x) {}
    static bool& overflowed () { static bool b = false; return b; }
    template <class F> static FracS guard (F f) { try { return FracS (f ()); } catch (const FracOverflow&) { overflowed () = true; return FracS (); } }
    template <class F> static bool guardB (F f) { try { return f (); } catch (const FracOverflow&) { overflowed () = true; return false; } }
};
inline FracS operator+ (FracS a, FracS b) { return FracS::guard ([&] { return a.v + b.v; }); }
inline FracS operator- (FracS a, FracS b) { return FracS::guard ([&] { return a.v - b.v; }); }
inline FracS operator* (FracS a, FracS b) { return FracS::guard ([&] { return a.v * b.v; }); }
inline FracS operator/ (FracS a, FracS b) { return FracS::guard ([&] { return a.v / b.v; }); }
inline FracS operator- (FracS a) { return FracS (-a.v); }
inline FracS& operator+= (FracS& a, FracS b) { a = a + b; return a; }
inline FracS& operator-= (FracS& a, FracS b) { a = a - b; return a; }
inline FracS& operator*= (FracS& a, FracS b) { a = a * b; return a; }
inline FracS& operator/= (FracS& a, FracS b) { a = a / b; return a; }
inline bool operator< (FracS a, FracS b) { return FracS::guardB ([&] { return a.v < b.v; }); }
inline bool operator> (FracS a, FracS b) { return b < a; }
inline bool operator<= (FracS a, FracS b) { return !(b < a); }
inline bool operator>= (FracS a, FracS b) { return !(a < b); }
inline bool operator== (FracS a, FracS b) { return a.v == b.v; }
inline bool operator!= (FracS a, FracS b) { return !(a.v == b.v); }
}
namespace std
{
inline symns::FracS sqrt (symns::FracS a) { return symns::FracS::guard ([&] { return symns::stub1 (0, a.v); }); }
inline symns::FracS abs (symns::FracS a) { return a < symns::FracS (0) ? -a : a; }
template <> class numeric_limits<symns::FracS>
{
public:
    static constexpr bool is_specialized = true;
    static constexpr bool is_signed      = true;
    static constexpr bool is_integer     = false;
    static symns::FracS min () { return symns::FracS (symns::Frac (1, 1024)); }
    static symns::FracS max () { return symns::FracS (symns::Frac (1048576, 1)); }
};
}
#include "shapes.h"
#include "main.h"
#include <ImathMatrixAlgo.h>
#include <ImathFrustum.h>
OPAQUE_LENGTH (Vec2, "V2", 2)
OPAQUE_LENGTH (Vec3, "V3", 3)
OPAQUE_LENGTH (Vec4, "V4", 4)
template <class V> static std::vector<symns::Frac> fracLength (const std::vector<symns::Frac>& a)
{
    V v;
    for (size_t i = 0; i < a.size (); ++i) v[(int) i] = symns::FracS (a[i]);
    symns::FracS::overflowed () = false;
    symns::FracS l = v.length ();
    if (symns::FracS::overflowed ()) throw symns::FracOverflow ();
    return {l.v};
}
static int fracLengths = [] {
    using symns::FracS;
    symns::natives ()["V2.length"].q = fracLength<IMATH_INTERNAL_NAMESPACE::Vec2<FracS>>;
    symns::natives ()["V3.length"].q = fracLength<IMATH_INTERNAL_NAMESPACE::Vec3<FracS>>;
    symns::natives ()["V4.length"].q = fracLength<IMATH_INTERNAL_NAMESPACE::Vec4<FracS>>;
    return 0;
}();

// Matrix44<Sym>::gjInverse is opaque: its tree is far too large to enumerate, and Matrix44::inverse /
// invert only forward to it on the non-affine arm.  The callee is a PARAMETER of the emitted Lean
// definitions, so the pair theorems hold for every Gauss-Jordan implementation:
//   gj44        = gjInverse ()
//   gj44F       = gjInverse (false)
//   gj44Tstatus = 0 if gjInverse (true) returns, 1 if it throws std::invalid_argument
//   gj44Tvalue  = the value gjInverse (true) returns (when it returns)
// (an Except-valued unknown function, encoded as status + value; TV evaluates the real members.)
IMATH_INTERNAL_NAMESPACE_HEADER_ENTER
template <> inline Matrix44<symns::Sym> Matrix44<symns::Sym>::gjInverse () const IMATH_NOEXCEPT
{
    return symns::opaqueA<Matrix44<symns::Sym>> ("gj44", *this);
}
template <> inline Matrix44<symns::Sym> Matrix44<symns::Sym>::gjInverse (bool singExc) const
{
    if (!singExc) return symns::opaqueA<Matrix44<symns::Sym>> ("gj44F", *this);
    if (!(symns::opaqueS ("gj44Tstatus", *this) == symns::Sym (0))) throw std::invalid_argument ("Cannot invert singular matrix.");
    return symns::opaqueA<Matrix44<symns::Sym>> ("gj44Tvalue", *this);
}
IMATH_INTERNAL_NAMESPACE_HEADER_EXIT

namespace symns
{
// Frustum::localToScreen / localToScreenExc are protected
template <class T> struct FrustumX : IMATH_INTERNAL_NAMESPACE::Frustum<T>
{
    using IMATH_INTERNAL_NAMESPACE::Frustum<T>::Frustum;
    FrustumX () : IMATH_INTERNAL_NAMESPACE::Frustum<T> () {}
    using IMATH_INTERNAL_NAMESPACE::Frustum<T>::localToScreen;
    using IMATH_INTERNAL_NAMESPACE::Frustum<T>::localToScreenExc;
};

template <class S> std::vector<S> gj44Native (const std::vector<S>& a, int which)
{
    IMATH_INTERNAL_NAMESPACE::Matrix44<S> m, r;
    for (int i = 0; i < 4; ++i) for (int j = 0; j < 4; ++j) m[i][j] = a[4 * i + j];
    S status = 0;
    if (which == 0) r = m.gjInverse ();
    else if (which == 1) r = m.gjInverse (false);
    else
    {
        // any exception other than std::invalid_argument propagates and fails the validation
        try { r = m.gjInverse (true); }
        catch (const std::invalid_argument&) { status = 1; }
    }
    if (which == 2) return {status};
    std::vector<S> o;
    for (int i = 0; i < 4; ++i) for (int j = 0; j < 4; ++j) o.push_back (r[i][j]);
    return o;
}
// Lean-side validation (rattv): the four parameter functions are fixed rational stubs, DIFFERENT from one another and not
// symmetric in the slots, the same as GJ_STUBS in tools/props/c07.py: what is validated is the emitted text around the
// calls (which parameter is called where, on which argument), not Gauss-Jordan.
//   gj44 (m)[i]        = m[(5 i + 3) mod 16] * (i + 2) / 3 + m[i] + (i + 1) / 7
//   gj44F (m)[i]       = m[(3 i + 1) mod 16] * (i + 1) / 5 - m[i] + (i + 2) / 3
//   gj44Tvalue (m)[i]  = m[(7 i + 2) mod 16] * (i + 3) / 2 + m[15 - i] + (i + 1) / 11
//   gj44Tstatus (m)    = 1 if m[0] + 2 m[5] - m[10] + m[15] > 1/2 else 0
inline std::vector<Frac> gj44Stub (const std::vector<Frac>& m, int which)
{
    if (which == 2) return {(m[0] + Frac (2) * m[5] - m[10] + m[15] > Frac (1, 2)) ? Frac (1) : Frac (0)};
    std::vector<Frac> o;
    for (int i = 0; i < 16; ++i)
        o.push_back (which == 0   ? m[(5 * i + 3) % 16] * Frac (i + 2, 3) + m[i] + Frac (i + 1, 7)
                     : which == 1 ? m[(3 * i + 1) % 16] * Frac (i + 1, 5) - m[i] + Frac (i + 2, 3)
                                  : m[(7 * i + 2) % 16] * Frac (i + 3, 2) + m[15 - i] + Frac (i + 1, 11));
    return o;
}
static int regGJ44 = [] {
    const char* names[] = {"gj44", "gj44F", "gj44Tstatus", "gj44Tvalue"};
    for (int w = 0; w < 4; ++w)
    {
        FnRecord* r = new FnRecord;
        r->name = names[w];
        r->status = "param";
        r->params.push_back (Param{"a", shMat (4), std::vector<const Node*> (16, nullptr)});
        fnIndex ()[names[w]] = r;
        paramFns ()[names[w]] = w == 2 ? "M44 α → α" : "M44 α → M44 α";
        natives ()[names[w]] = Native{[w] (const std::vector<double>& a) { return gj44Native<double> (a, w); },
                                      [w] (const std::vector<float>& a) { return gj44Native<float> (a, w); },
                                      [w] (const std::vector<Frac>& a) { return gj44Stub (a, w); }};
    }
    return 0;
}();
} // namespace symns

using namespace IMATH_INTERNAL_NAMESPACE;
#include "ops_c07.h"
int main (int argc, char** argv) { return symns::sym_main (argc, argv); }
