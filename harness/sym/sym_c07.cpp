// C07 extractor: both members of every checked / unchecked pair (see ops_c07.h).
#include "sym.h"
#include "shapes.h"
#include "main.h"
#include <ImathMatrixAlgo.h>
#include <ImathFrustum.h>
OPAQUE_LENGTH (Vec2, "V2", 2)
OPAQUE_LENGTH (Vec3, "V3", 3)
OPAQUE_LENGTH (Vec4, "V4", 4)

// Matrix44<Sym>::gjInverse is opaque: its tree is far too large to enumerate, and Matrix44::inverse /
// invert only forward to it on the non-affine arm.  The callee is a PARAMETER of the emitted Lean
// definitions, so the pair theorems hold for every Gauss-Jordan implementation:
//   gj44        = gjInverse ()
//   gj44F       = gjInverse (false)
//   gj44Tstatus = 0 if gjInverse (true) returns, 1 if it throws std::invalid_argument
//   gj44Tvalue  = the value gjInverse (true) returns (when it returns)
// (an Except-valued unknown function, encoded as status + value; TV evaluates the real members.)
IMATH_INTERNAL_NAMESPACE_HEADER_ENTER
template <> inline Matrix44<symns::Sym> Matrix44<symns::Sym>::gjInverse () const IMATH_NOEXCEPT
{
    return symns::opaqueA<Matrix44<symns::Sym>> ("gj44", *this);
}
template <> inline Matrix44<symns::Sym> Matrix44<symns::Sym>::gjInverse (bool singExc) const
{
    if (!singExc) return symns::opaqueA<Matrix44<symns::Sym>> ("gj44F", *this);
    if (!(symns::opaqueS ("gj44Tstatus", *this) == symns::Sym (0))) throw std::invalid_argument ("Cannot invert singular matrix.");
    return symns::opaqueA<Matrix44<symns::Sym>> ("gj44Tvalue", *this);
}
IMATH_INTERNAL_NAMESPACE_HEADER_EXIT

namespace symns
{
// Frustum::localToScreen / localToScreenExc are protected
template <class T> struct FrustumX : IMATH_INTERNAL_NAMESPACE::Frustum<T>
{
    using IMATH_INTERNAL_NAMESPACE::Frustum<T>::Frustum;
    FrustumX () : IMATH_INTERNAL_NAMESPACE::Frustum<T> () {}
    using IMATH_INTERNAL_NAMESPACE::Frustum<T>::localToScreen;
    using IMATH_INTERNAL_NAMESPACE::Frustum<T>::localToScreenExc;
};

template <class S> std::vector<S> gj44Native (const std::vector<S>& a, int which)
{
    IMATH_INTERNAL_NAMESPACE::Matrix44<S> m, r;
    for (int i = 0; i < 4; ++i) for (int j = 0; j < 4; ++j) m[i][j] = a[4 * i + j];
    S status = 0;
    if (which == 0) r = m.gjInverse ();
    else if (which == 1) r = m.gjInverse (false);
    else
    {
        // any exception other than std::invalid_argument propagates and fails the validation
        try { r = m.gjInverse (true); }
        catch (const std::invalid_argument&) { status = 1; }
    }
    if (which == 2) return {status};
    std::vector<S> o;
    for (int i = 0; i < 4; ++i) for (int j = 0; j < 4; ++j) o.push_back (r[i][j]);
    return o;
}
static int regGJ44 = [] {
    const char* names[] = {"gj44", "gj44F", "gj44Tstatus", "gj44Tvalue"};
    for (int w = 0; w < 4; ++w)
    {
        FnRecord* r = new FnRecord;
        r->name = names[w];
        r->status = "param";
        r->params.push_back (Param{"a", shMat (4), std::vector<const Node*> (16, nullptr)});
        fnIndex ()[names[w]] = r;
        paramFns ()[names[w]] = w == 2 ? "M44 α → α" : "M44 α → M44 α";
        natives ()[names[w]] = Native{[w] (const std::vector<double>& a) { return gj44Native<double> (a, w); },
                                      [w] (const std::vector<float>& a) { return gj44Native<float> (a, w); }};
    }
    return 0;
}();
} // namespace symns

using namespace IMATH_INTERNAL_NAMESPACE;
#include "ops_c07.h"
int main (int argc, char** argv) { return symns::sym_main (argc, argv); }
