// Vec2/3/4 arithmetic, products (C04/C05)
#define VEC_OPS(V, NAME, LEAN)                                                                            \
    EXTRACT_ALLT ("Vec", NAME##_add, LEAN ".add", { auto a = c.template in<V<T>> ("a"); auto b = c.template in<V<T>> ("b"); c.out (a + b); })            \
    EXTRACT ("Vec", NAME##_addAssign, LEAN ".addAssign", { auto a = c.template in<V<T>> ("a"); auto b = c.template in<V<T>> ("b"); a += b; c.out (a); }) \
    EXTRACT ("Vec", NAME##_sub, LEAN ".sub", { auto a = c.template in<V<T>> ("a"); auto b = c.template in<V<T>> ("b"); c.out (a - b); })            \
    EXTRACT ("Vec", NAME##_subAssign, LEAN ".subAssign", { auto a = c.template in<V<T>> ("a"); auto b = c.template in<V<T>> ("b"); a -= b; c.out (a); }) \
    EXTRACT ("Vec", NAME##_neg, LEAN ".neg", { auto a = c.template in<V<T>> ("a"); c.out (-a); })                                                   \
    EXTRACT ("Vec", NAME##_negate, LEAN ".negate", { auto a = c.template in<V<T>> ("a"); a.negate (); c.out (a); })                                  \
    EXTRACT ("Vec", NAME##_mul, LEAN ".mul", { auto a = c.template in<V<T>> ("a"); auto b = c.template in<V<T>> ("b"); c.out (a * b); })            \
    EXTRACT ("Vec", NAME##_mulAssign, LEAN ".mulAssign", { auto a = c.template in<V<T>> ("a"); auto b = c.template in<V<T>> ("b"); a *= b; c.out (a); }) \
    EXTRACT ("Vec", NAME##_mulS, LEAN ".mulS", { auto a = c.template in<V<T>> ("a"); T s = c.inS ("s"); c.out (a * s); })                           \
    EXTRACT ("Vec", NAME##_mulSAssign, LEAN ".mulSAssign", { auto a = c.template in<V<T>> ("a"); T s = c.inS ("s"); a *= s; c.out (a); })            \
    EXTRACT ("Vec", NAME##_smul, LEAN ".smul", { T s = c.inS ("s"); auto a = c.template in<V<T>> ("a"); c.out (s * a); })                           \
    EXTRACT_ALLT_OPT ("Vec", NAME##_div, LEAN ".div", symns::Opts ().nz (), { auto a = c.template in<V<T>> ("a"); auto b = c.template in<V<T>> ("b"); c.out (a / b); })            \
    EXTRACT ("Vec", NAME##_divAssign, LEAN ".divAssign", { auto a = c.template in<V<T>> ("a"); auto b = c.template in<V<T>> ("b"); a /= b; c.out (a); }) \
    EXTRACT ("Vec", NAME##_divS, LEAN ".divS", { auto a = c.template in<V<T>> ("a"); T s = c.inS ("s"); c.out (a / s); })                           \
    EXTRACT ("Vec", NAME##_divSAssign, LEAN ".divSAssign", { auto a = c.template in<V<T>> ("a"); T s = c.inS ("s"); a /= s; c.out (a); })            \
    EXTRACT ("Vec", NAME##_eq, LEAN ".eq", { auto a = c.template in<V<T>> ("a"); auto b = c.template in<V<T>> ("b"); c.outB (a == b); })            \
    EXTRACT ("Vec", NAME##_ne, LEAN ".ne", { auto a = c.template in<V<T>> ("a"); auto b = c.template in<V<T>> ("b"); c.outB (a != b); })            \
    EXTRACT ("Vec", NAME##_dot, LEAN ".dot", { auto a = c.template in<V<T>> ("a"); auto b = c.template in<V<T>> ("b"); c.outS (a.dot (b)); })       \
    EXTRACT ("Vec", NAME##_dotOp, LEAN ".dotOp", { auto a = c.template in<V<T>> ("a"); auto b = c.template in<V<T>> ("b"); c.outS (a ^ b); })       \
    EXTRACT ("Vec", NAME##_length2, LEAN ".length2", { auto a = c.template in<V<T>> ("a"); c.outS (a.length2 ()); })

VEC_OPS (Vec2, v2, "V2")
VEC_OPS (Vec3, v3, "V3")
VEC_OPS (Vec4, v4, "V4")
EXTRACT ("Vec", v2_cross, "V2.cross", { auto a = c.template in<Vec2<T>> ("a"); auto b = c.template in<Vec2<T>> ("b"); c.outS (a.cross (b)); })
EXTRACT ("Vec", v2_crossOp, "V2.crossOp", { auto a = c.template in<Vec2<T>> ("a"); auto b = c.template in<Vec2<T>> ("b"); c.outS (a % b); })
EXTRACT ("Vec", v3_cross, "V3.cross", { auto a = c.template in<Vec3<T>> ("a"); auto b = c.template in<Vec3<T>> ("b"); c.out (a.cross (b)); })
EXTRACT ("Vec", v3_crossOp, "V3.crossOp", { auto a = c.template in<Vec3<T>> ("a"); auto b = c.template in<Vec3<T>> ("b"); c.out (a % b); })
EXTRACT ("Vec", v3_crossAssign, "V3.crossAssign", { auto a = c.template in<Vec3<T>> ("a"); auto b = c.template in<Vec3<T>> ("b"); a %= b; c.out (a); })

EXTRACT ("Vec", v3_normalized, "V3.normalized", { auto a = c.template in<Vec3<T>> ("a"); c.out (a.normalized ()); })
EXTRACT ("Vec", v3_normalizedExc, "V3.normalizedExc", { auto a = c.template in<Vec3<T>> ("a"); c.out (a.normalizedExc ()); })
