#include "sym.h"
#include "shapes.h"
#include "main.h"
#include <ImathLineAlgo.h>
#include <ImathVecAlgo.h>
#include <ImathPlane.h>
#include <ImathSphere.h>
#include <ImathBox.h>
#include <ImathMatrix.h>
OPAQUE_LENGTH (Vec2, "V2", 2)
OPAQUE_LENGTH (Vec3, "V3", 3)
OPAQUE_LENGTH (Vec4, "V4", 4)
using namespace IMATH_INTERNAL_NAMESPACE;
#include "ops_c15.h"
int main (int argc, char** argv) { return symns::sym_main (argc, argv); }
