#include "sym.h"
#include "shapes.h"
#include "main.h"
#include <ImathLineAlgo.h>
#include <ImathVecAlgo.h>
#include <ImathPlane.h>
#include <ImathSphere.h>
#include <ImathBox.h>
#include <ImathMatrix.h>
OPAQUE_LENGTH (Vec2, "V2", 2)
OPAQUE_LENGTH (Vec3, "V3", 3)
OPAQUE_LENGTH (Vec4, "V4", 4)
using namespace IMATH_INTERNAL_NAMESPACE;
#include "ops_c15.h"
#include "c15_modes.h" // extra modes ratstep / leafinfo used by tools/props/c15.py; every other mode is sym_main's

// `tvin`: C++-side translator validation on GIVEN inputs (stdin: "<Fn> v v v ..." per line, values read by strtod, hex floats allowed):
// the extracted tree vs the real instantiation at double and (inputs rounded) at float, bit for bit, and the leaf of the tree that
// each input reaches.  tools/props/c15.py feeds structured inputs (lattice triangles with lines aimed at edges / vertices / interior,
// degenerate and parallel configurations, inputs that fire the overflow guards) and obliges that every reachable leaf is compared.
struct TvinEntry { const char* name; void (*d) (symns::Ctx<double>&); void (*f) (symns::Ctx<float>&); };
#define TVIN(ident, nm) {nm, &X_##ident::run<double>, &X_##ident::run<float>}
static const TvinEntry tvinEntries[] = {TVIN (l_set, "Line3.set"), TVIN (l_cpl, "Line3.closestPointToLine"), TVIN (l_dl, "Line3.distanceToLine"),
                                        TVIN (la_closestPoints, "LineAlgo.closestPoints"), TVIN (la_intersect, "LineAlgo.intersect"),
                                        TVIN (la_rotatePoint, "LineAlgo.rotatePoint"), TVIN (p_set3, "Plane3.setPoints"), TVIN (p_intersectT, "Plane3.intersectT"),
                                        TVIN (p_intersect, "Plane3.intersect"), TVIN (s_intersectT, "Sphere3.intersectT"), TVIN (s_intersect, "Sphere3.intersect"),
                                        TVIN (la_closestVertex, "LineAlgo.closestVertex"), TVIN (l_mulM44, "Line3.mulM44")};
static int tvin (int argc, char** argv)
{
    using namespace symns;
    for (int i = 1; i + 1 < argc; ++i)
        if (std::string (argv[i]) == "--idx") loadIndex (argv[i + 1]);
    std::map<std::string, FnRecord*> recs;
    for (auto& e : entries ()) { FnRecord* r = explore (e); recs[r->name] = r; }
    std::map<std::string, std::set<size_t>> hit;
    std::map<std::string, long> n;
    long bad = 0, evals = 0;
    std::string line;
    while (std::getline (std::cin, line))
    {
        std::istringstream is (line); std::string fn, t; is >> fn;
        std::vector<double> in;
        while (is >> t) in.push_back (strtod (t.c_str (), nullptr));
        const TvinEntry* te = nullptr;
        for (auto& e : tvinEntries) if (fn == e.name) te = &e;
        if (!te || !recs.count (fn)) { printf ("TVINERR %s unknown\n", fn.c_str ()); ++bad; continue; }
        FnRecord* r = recs[fn];
        size_t nin = 0;
        for (auto& p : r->params) nin += p.vars.size ();
        if (in.size () != nin) { printf ("TVINERR %s arity need=%zu got=%zu\n", fn.c_str (), nin, in.size ()); ++bad; continue; }
        std::vector<float> inf (in.begin (), in.end ());
        std::string d; size_t leaf = (size_t) -1;
        ++n[fn]; evals += 2;
        if (!tvOne<double> (*r, te->d, in, d, &leaf)) { ++bad; printf ("TVFAIL double %s :: %s :: in=%s\n", fn.c_str (), d.c_str (), line.c_str ()); }
        if (leaf != (size_t) -1) hit[fn].insert (leaf);
        leaf = (size_t) -1;
        if (!tvOne<float> (*r, te->f, inf, d, &leaf)) { ++bad; printf ("TVFAIL float %s :: %s :: in=%s\n", fn.c_str (), d.c_str (), line.c_str ()); }
        if (leaf != (size_t) -1) hit[fn].insert (leaf);
    }
    for (auto& kv : hit)
    {
        printf ("TVINSUM %s inputs=%ld hit=%zu paths=%zu leaves=", kv.first.c_str (), n[kv.first], kv.second.size (), recs[kv.first]->paths.size ());
        for (size_t l : kv.second) printf ("%zu,", l);
        printf ("\n");
    }
    printf ("TVIN evaluations=%ld failures=%ld\n", evals, bad);
    return bad ? 1 : 0;
}

int main (int argc, char** argv)
{
    if (argc > 1 && std::string (argv[1]) == "tvin") return tvin (argc, argv);
    int rc = c15modes::extra_main (argc, argv);
    return rc >= 0 ? rc : symns::sym_main (argc, argv);
}
