// C12E extraction table: the 7-argument and the `Euler<T>&` overload of the 3-D extractSHRT (ImathMatrixAlgo.h 826-856, 870-883),
// one entry per order and overload (the order is a concrete enumerator per entry), both `exc` spellings for one order;
// computeRSMatrix with small trees.  See sym_c12e.cpp for what is opaque.
//   Ord:   extractSHRT (m, s, h, Vec3 r, t, exc, rOrder)  -> (ok, s, h, r, t);  r = the angles about X, Y, Z (toXYZVector) of the rOrder decomposition
//   Euler: extractSHRT (m, s, h, Euler r (order), t, exc)  -> (ok, s, h, (r.x, r.y, r.z), t, r.order ());  r's OWN storage (ijk layout)
// When the function returns false the out-parameters are reported as zeros (unspecified in the real code).
#define IN(Ty, n) auto n = c.template in<Ty<T>> (#n)
#define Z3 Vec3<T> (T (0))
#define C12_SHRT_ORDER(O)                                                                                                                   \
    EXTRACT ("C12E", m44_extractSHRTOrd_##O, "M44.extractSHRTOrd_" #O,                                                                       \
             { IN (Matrix44, m); Vec3<T> s (T (0)); Vec3<T> h (T (0)); Vec3<T> r (T (0)); Vec3<T> t (T (0));                                  \
               bool ok = extractSHRT (m, s, h, r, t, false, Euler<T>::O);                                                                     \
               c.outB (ok); c.out (ok ? s : Z3); c.out (ok ? h : Z3); c.out (ok ? r : Z3); c.out (ok ? t : Z3); })                            \
    EXTRACT ("C12E", m44_extractSHRTEuler_##O, "M44.extractSHRTEuler_" #O,                                                                   \
             { IN (Matrix44, m); Vec3<T> s (T (0)); Vec3<T> h (T (0)); Euler<T> r (Euler<T>::O); Vec3<T> t (T (0));                           \
               bool ok = extractSHRT (m, s, h, r, t, false);                                                                                  \
               c.outB (ok); c.out (ok ? s : Z3); c.out (ok ? h : Z3); c.out (ok ? Vec3<T> (r.x, r.y, r.z) : Z3); c.out (ok ? t : Z3);         \
               c.outI ((long) r.order ()); })
C12_ALL_ORDERS (C12_SHRT_ORDER)
// exc = true: std::domain_error instead of `false`
EXTRACT ("C12E", m44_extractSHRTOrdExc, "M44.extractSHRTOrdExc_ZYX",
         { IN (Matrix44, m); Vec3<T> s (T (0)); Vec3<T> h (T (0)); Vec3<T> r (T (0)); Vec3<T> t (T (0));
           bool ok = extractSHRT (m, s, h, r, t, true, Euler<T>::ZYX);
           c.outB (ok); c.out (ok ? s : Z3); c.out (ok ? h : Z3); c.out (ok ? r : Z3); c.out (ok ? t : Z3); })
EXTRACT ("C12E", m44_extractSHRTEulerExc, "M44.extractSHRTEulerExc_ZYX",
         { IN (Matrix44, m); Vec3<T> s (T (0)); Vec3<T> h (T (0)); Euler<T> r (Euler<T>::ZYX); Vec3<T> t (T (0));
           bool ok = extractSHRT (m, s, h, r, t, true);
           c.outB (ok); c.out (ok ? s : Z3); c.out (ok ? h : Z3); c.out (ok ? Vec3<T> (r.x, r.y, r.z) : Z3); c.out (ok ? t : Z3); c.outI ((long) r.order ()); })
// the 6-argument call once more (3 paths here), as the reference the other two are compared with
EXTRACT ("C12E", m44_extractSHRT6, "M44.extractSHRT6",
         { IN (Matrix44, m); Vec3<T> s (T (0)); Vec3<T> h (T (0)); Vec3<T> r (T (0)); Vec3<T> t (T (0));
           bool ok = extractSHRT (m, s, h, r, t, false); c.outB (ok); c.out (ok ? s : Z3); c.out (ok ? h : Z3); c.out (ok ? r : Z3); c.out (ok ? t : Z3); })
// computeRSMatrix: translate(A) * rotate(keepRotateA ? A : B) * scale(keepScaleA ? A : B); throws on degenerate A or B
#define RSE(ka, ks) EXTRACT ("C12E", m44_rse_##ka##ks, "M44.computeRSMatrixS_" #ka "_" #ks, { IN (Matrix44, A); IN (Matrix44, B); c.out (computeRSMatrix (ka != 0, ks != 0, A, B)); })
RSE (1, 1) RSE (1, 0) RSE (0, 1) RSE (0, 0)
