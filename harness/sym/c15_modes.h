// Extra command-line modes of the C15 extractors (sym_c15, sym_c15b) and, for the callees, of sym_leaf — used by
// tools/props/c15.py for the Lean-side validation of the EMITTED TEXT of the entries that CALL an opaque function
// (audit C15 W4: troute.lean_tv skips all of them) and for the leaf-coverage obligation of the C++-side TV.
// Everything here works with the public members of symns::Evaluator; main.h is untouched and `sym_main` handles every
// other mode.
//
//   ratstep     stdin: "<id> <Fn> IN <frac> ... [CALLS <k>=<frac>[,<frac>...] ...]" per line.  The tree of <Fn> is evaluated at
//               exact fractions (default limit / library stubs) with the given VALUES of its opaque calls (k = index of the
//               CALL node in node-id order).  Output per line:
//                 RATCASE <id> <Fn> LEAF <n> IN ... OUT exc=.. vals=..,.. ints=..,..     the walk needed no unknown call
//                 NEED <id> <k> <Callee> <frac> ...                                    an unknown call whose arguments are known
//                 RATERR <id> <reason>
//               The driver (c15.py) resolves NEED lines by running `ratstep` of the binary that owns the callee's tree
//               (sym_leaf for V*.length, sym_c15 for Plane3.setPoints) and iterates: the callee value is the value of the
//               callee's OWN extracted tree, which is what the emitted Lean text computes when it calls `V3.length tmin tmax sqrt ⟨..⟩`.
//   leafinfo    per entry: number of paths, of `true` leaves (first Bool output = 1) and of paths that take `call(..) = 0`
//               TRUE below the root (for LineAlgo.intersect: an edge of zero length although the normal's length is not zero,
//               which no input can reach)
#pragma once
#include <iostream>
#include <sstream>
namespace c15modes
{
using namespace symns;

inline Frac parseFrac (const std::string& s)
{
    auto toI = [] (const std::string& t) { I128 v = 0; bool neg = false; size_t i = 0; if (i < t.size () && t[i] == '-') { neg = true; ++i; } for (; i < t.size (); ++i) v = v * 10 + (t[i] - '0'); return neg ? -v : v; };
    size_t p = s.find ('/');
    return p == std::string::npos ? Frac (toI (s), (I128) 1) : Frac (toI (s.substr (0, p)), toI (s.substr (p + 1)));
}

inline long walk (const FnRecord& f, Evaluator<Frac>& ev)
{
    size_t lo = 0, hi = f.paths.size (), depth = 0;
    while (f.paths[lo].conds.size () != depth)
    {
        size_t mid = lo;
        while (mid < hi && f.paths[mid].conds.size () > depth && f.paths[mid].conds[depth].second) ++mid;
        bool v = ev.cond (f.paths[lo].conds[depth].first);
        if (v) { if (mid == lo) return -1; hi = mid; }
        else { if (mid == hi) return -1; lo = mid; }
        ++depth;
    }
    return (long) lo;
}

inline size_t arity (const FnRecord& f) { size_t n = 0; for (auto& p : f.params) n += p.vars.size (); return n; }

// CALL nodes of a record in a deterministic order (node id)
inline std::vector<const Node*> callsOf (const FnRecord& r)
{
    std::vector<const Node*> st, out; std::set<const Node*> seen;
    for (auto& p : r.paths) { for (auto& c : p.conds) { st.push_back (c.first.a); st.push_back (c.first.b); } for (auto* v : p.leaf.vals) st.push_back (v); }
    while (!st.empty ()) { const Node* x = st.back (); st.pop_back (); if (!seen.insert (x).second) continue; if (x->op == CALL) out.push_back (x); for (auto* k : x->k) st.push_back (k); }
    std::sort (out.begin (), out.end (), [] (const Node* a, const Node* b) { return a->id < b->id; });
    return out;
}

inline int ratstep (std::vector<FnRecord*>& recs)
{
    std::string line;
    while (std::getline (std::cin, line))
    {
        std::istringstream is (line); std::string id, fn, t; is >> id >> fn >> t; // "<id> <Fn> IN"
        std::vector<Frac> in; std::map<size_t, std::vector<Frac>> known; bool inCalls = false;
        while (is >> t)
        {
            if (t == "CALLS") { inCalls = true; continue; }
            if (!inCalls) { in.push_back (parseFrac (t)); continue; }
            size_t eq = t.find ('=');
            if (eq == std::string::npos) continue;
            std::vector<Frac> v; std::string rest = t.substr (eq + 1), cur;
            for (char ch : rest + ",") { if (ch == ',') { if (!cur.empty ()) v.push_back (parseFrac (cur)); cur.clear (); } else cur += ch; }
            known[(size_t) atol (t.substr (0, eq).c_str ())] = v;
        }
        FnRecord* r = nullptr;
        for (auto* x : recs) if (x->name == fn && x->status == "ok") r = x;
        if (!r || in.size () != arity (*r)) { printf ("RATERR %s arity-or-unknown-function\n", id.c_str ()); continue; }
        auto calls = callsOf (*r);
        Evaluator<Frac> ev;
        {
            size_t i = 0;
            for (auto& p : r->params) for (auto* v : p.vars) ev.env[v] = in.at (i++);
        }
        for (auto& kv : known) if (kv.first < calls.size ()) ev.callMemo[calls[kv.first]] = kv.second;
        try
        {
            long leaf = walk (*r, ev);
            if (leaf < 0) { printf ("RATERR %s nopath\n", id.c_str ()); continue; }
            const PathRec& p = r->paths[(size_t) leaf];
            std::vector<Frac> vals;
            if (!p.leaf.thrown) for (auto* v : p.leaf.vals) vals.push_back (ev.ev (v));
            printf ("RATCASE %s %s LEAF %ld IN", id.c_str (), r->name.c_str (), leaf);
            for (auto& x : in) printf (" %s", x.str ().c_str ());
            printf (" OUT exc=%s vals=", p.leaf.thrown ? p.leaf.exc.c_str () : "-");
            for (auto& v : vals) printf ("%s,", v.str ().c_str ());
            printf (" ints=");
            for (long x : p.leaf.ints) printf ("%ld,", x);
            printf ("\n");
        }
        catch (const FracOverflow&) { printf ("RATERR %s overflow\n", id.c_str ()); }
        catch (const std::logic_error&)
        {
            // an opaque call whose value is not known yet was needed: report the calls whose arguments can be evaluated now
            int asked = 0;
            for (size_t k = 0; k < calls.size (); ++k)
            {
                if (known.count (k)) continue;
                try
                {
                    std::vector<Frac> a;
                    for (auto* x : calls[k]->k) a.push_back (ev.ev (x));
                    printf ("NEED %s %zu %s", id.c_str (), k, calls[k]->s.c_str ());
                    for (auto& x : a) printf (" %s", x.str ().c_str ());
                    printf ("\n");
                    ++asked;
                }
                catch (const std::logic_error&) {}
                catch (const FracOverflow&) {}
            }
            if (!asked) printf ("RATERR %s unresolvable-call\n", id.c_str ());
        }
    }
    return 0;
}

inline int leafinfo (std::vector<FnRecord*>& recs)
{
    for (auto* r : recs)
    {
        if (r->status != "ok") continue;
        size_t trueLeaves = 0, eqCallTrue = 0;
        for (auto& p : r->paths)
        {
            if (!p.leaf.thrown && !p.leaf.ints.empty () && p.leaf.ints[0] == 1 && !r->outs.empty () && r->outs[0].kind == OutItem::BOOL) ++trueLeaves;
            bool bad = false;
            for (size_t d = 1; d < p.conds.size (); ++d)
            {
                const Cond& c = p.conds[d].first;
                bool isEq = c.kind != C_LT && c.kind != C_LE;
                if (isEq && p.conds[d].second && (c.a->op == CALL || c.b->op == CALL)) bad = true;
            }
            if (bad) ++eqCallTrue;
        }
        printf ("LEAFINFO %s paths=%zu true_leaves=%zu call_eq_zero_true_below_root=%zu calls=%zu\n", r->name.c_str (), r->paths.size (), trueLeaves, eqCallTrue,
                callsOf (*r).size ());
    }
    return 0;
}

// returns -1 when the mode is not one of ours (the caller then runs symns::sym_main)
inline int extra_main (int argc, char** argv)
{
    std::string mode = argc > 1 ? argv[1] : "";
    if (mode != "ratstep" && mode != "leafinfo") return -1;
    for (int i = 1; i + 1 < argc; ++i)
        if (std::string (argv[i]) == "--idx") loadIndex (argv[i + 1]);
    std::vector<FnRecord*> recs;
    for (auto& e : entries ()) recs.push_back (explore (e));
    return mode == "ratstep" ? ratstep (recs) : leafinfo (recs);
}
} // namespace c15modes
