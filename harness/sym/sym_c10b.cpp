// C10 second extractor: squad / spline with slerp / intermediate opaque (module C10Interp).
#include "sym.h"
#include "c10frac.h" // FracS: the callees at exact fractions (rattv), before any Imath header
#include "shapes.h"
#include "main.h"
#include "c10extra.h"
#include <ImathQuat.h>
// explicit specialisations for T = Sym: opaque CALL nodes of the Gen definitions extracted by sym_c10.cpp
IMATH_INTERNAL_NAMESPACE_HEADER_ENTER
template <> inline Quat<symns::Sym> slerp (const Quat<symns::Sym>& q1, const Quat<symns::Sym>& q2, symns::Sym t) IMATH_NOEXCEPT
{
    return symns::opaqueA<Quat<symns::Sym>> ("C10.Quat.slerp", q1, q2, t);
}
template <> inline Quat<symns::Sym> intermediate (const Quat<symns::Sym>& q0, const Quat<symns::Sym>& q1, const Quat<symns::Sym>& q2) IMATH_NOEXCEPT
{
    return symns::opaqueA<Quat<symns::Sym>> ("C10.Quat.intermediate", q0, q1, q2);
}
IMATH_INTERNAL_NAMESPACE_HEADER_EXIT
// translator validation evaluates the calls with the real functions
template <class T> static std::vector<T> nativeSlerp (const std::vector<T>& a)
{
    IMATH_INTERNAL_NAMESPACE::Quat<T> q1 (a[0], a[1], a[2], a[3]), q2 (a[4], a[5], a[6], a[7]);
    auto r = IMATH_INTERNAL_NAMESPACE::slerp (q1, q2, a[8]);
    return std::vector<T>{r.r, r.v.x, r.v.y, r.v.z};
}
template <class T> static std::vector<T> nativeIntermediate (const std::vector<T>& a)
{
    IMATH_INTERNAL_NAMESPACE::Quat<T> q0 (a[0], a[1], a[2], a[3]), q1 (a[4], a[5], a[6], a[7]), q2 (a[8], a[9], a[10], a[11]);
    auto r = IMATH_INTERNAL_NAMESPACE::intermediate (q0, q1, q2);
    return std::vector<T>{r.r, r.v.x, r.v.y, r.v.z};
}
static int native_c10b = (symns::natives ()["C10.Quat.slerp"] = symns::Native{&nativeSlerp<double>, &nativeSlerp<float>},
                          symns::natives ()["C10.Quat.intermediate"] = symns::Native{&nativeIntermediate<double>, &nativeIntermediate<float>}, 0);
// the REAL slerp / intermediate at exact fractions with the fixed stubs (c10frac.h): troute.lean_tv then validates the emitted
// text of squad / spline (call order, argument order of the opaque calls) instead of skipping them
static std::vector<symns::Frac> fracSlerp (const std::vector<symns::Frac>& a)
{
    return symns::fracRun ([&] {
        using symns::FracS;
        IMATH_INTERNAL_NAMESPACE::Quat<FracS> q1 (a[0], a[1], a[2], a[3]), q2 (a[4], a[5], a[6], a[7]);
        auto r = IMATH_INTERNAL_NAMESPACE::slerp (q1, q2, FracS (a[8]));
        return std::vector<FracS>{r.r, r.v.x, r.v.y, r.v.z};
    });
}
static std::vector<symns::Frac> fracIntermediate (const std::vector<symns::Frac>& a)
{
    return symns::fracRun ([&] {
        using symns::FracS;
        IMATH_INTERNAL_NAMESPACE::Quat<FracS> q0 (a[0], a[1], a[2], a[3]), q1 (a[4], a[5], a[6], a[7]), q2 (a[8], a[9], a[10], a[11]);
        auto r = IMATH_INTERNAL_NAMESPACE::intermediate (q0, q1, q2);
        return std::vector<FracS>{r.r, r.v.x, r.v.y, r.v.z};
    });
}
static int native_c10b_q = (symns::natives ()["C10.Quat.slerp"].q = &fracSlerp, symns::natives ()["C10.Quat.intermediate"].q = &fracIntermediate, 0);
using namespace IMATH_INTERNAL_NAMESPACE;
#include "ops_c10b.h"
// spline never survives the generic rattv generator (overflow of the 128-bit fractions): hand-picked sparse key sets, see c10extra.h
int main (int argc, char** argv)
{
    int rc = symns::sym_main (argc, argv);
    if (argc > 1 && std::string (argv[1]) == "rattv") symns::c10ExtraRatCases ("C10.Quat.spline", 4, true, argc > 2 ? strtoul (argv[2], 0, 10) : 1, argc > 3 ? atoi (argv[3]) : 3);
    return rc;
}
