// C10 second extractor: squad / spline with slerp / intermediate opaque (module C10Interp).
#include "sym.h"
#include "shapes.h"
#include "main.h"
#include <ImathQuat.h>
// explicit specialisations for T = Sym: opaque CALL nodes of the Gen definitions extracted by sym_c10.cpp
IMATH_INTERNAL_NAMESPACE_HEADER_ENTER
template <> inline Quat<symns::Sym> slerp (const Quat<symns::Sym>& q1, const Quat<symns::Sym>& q2, symns::Sym t) IMATH_NOEXCEPT
{
    return symns::opaqueA<Quat<symns::Sym>> ("C10.Quat.slerp", q1, q2, t);
}
template <> inline Quat<symns::Sym> intermediate (const Quat<symns::Sym>& q0, const Quat<symns::Sym>& q1, const Quat<symns::Sym>& q2) IMATH_NOEXCEPT
{
    return symns::opaqueA<Quat<symns::Sym>> ("C10.Quat.intermediate", q0, q1, q2);
}
IMATH_INTERNAL_NAMESPACE_HEADER_EXIT
// translator validation evaluates the calls with the real functions
template <class T> static std::vector<T> nativeSlerp (const std::vector<T>& a)
{
    IMATH_INTERNAL_NAMESPACE::Quat<T> q1 (a[0], a[1], a[2], a[3]), q2 (a[4], a[5], a[6], a[7]);
    auto r = IMATH_INTERNAL_NAMESPACE::slerp (q1, q2, a[8]);
    return std::vector<T>{r.r, r.v.x, r.v.y, r.v.z};
}
template <class T> static std::vector<T> nativeIntermediate (const std::vector<T>& a)
{
    IMATH_INTERNAL_NAMESPACE::Quat<T> q0 (a[0], a[1], a[2], a[3]), q1 (a[4], a[5], a[6], a[7]), q2 (a[8], a[9], a[10], a[11]);
    auto r = IMATH_INTERNAL_NAMESPACE::intermediate (q0, q1, q2);
    return std::vector<T>{r.r, r.v.x, r.v.y, r.v.z};
}
static int native_c10b = (symns::natives ()["C10.Quat.slerp"] = symns::Native{&nativeSlerp<double>, &nativeSlerp<float>},
                          symns::natives ()["C10.Quat.intermediate"] = symns::Native{&nativeIntermediate<double>, &nativeIntermediate<float>}, 0);
using namespace IMATH_INTERNAL_NAMESPACE;
#include "ops_c10b.h"
int main (int argc, char** argv) { return symns::sym_main (argc, argv); }
