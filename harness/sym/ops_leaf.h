// Leaf functions whose real bodies are extracted here and referenced as opaque
// calls by the composite extractors: Vec2/3/4::length (and lengthTiny through it).
EXTRACT ("Leaf", v2_length, "V2.length", { auto a = c.template in<Vec2<T>> ("a"); c.outS (a.length ()); })
EXTRACT ("Leaf", v3_length, "V3.length", { auto a = c.template in<Vec3<T>> ("a"); c.outS (a.length ()); })
EXTRACT ("Leaf", v4_length, "V4.length", { auto a = c.template in<Vec4<T>> ("a"); c.outS (a.length ()); })
