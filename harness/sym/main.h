// main() for an extractor binary: `emit <dir>` writes the Lean modules,
// `tv <seed> <n>` runs the C++-side translator validation, `list` prints entries.
#pragma once
#include "extract.h"
#include "opaque.h"
#include <fstream>
#include <sys/stat.h>

namespace symns
{

template <class T> std::vector<T> nativeCall (const std::string& name, const std::vector<T>& args)
{
    auto it = natives ().find (name);
    if (it == natives ().end ()) throw std::logic_error ("no native evaluator for opaque call " + name);
    if constexpr (std::is_same<T, Frac>::value)
    {
        if (!it->second.q) throw std::logic_error ("opaque call at Frac");
        return it->second.q (args);
    }
    else if constexpr (std::is_same<T, double>::value) return it->second.d (args);
    else if constexpr (std::is_same<T, float>::value) return it->second.f (args);
    else throw std::logic_error ("opaque call at unsupported element type");
}

template <class T> inline T fromDouble (double x) { return T ((float) x); }
template <> inline double fromDouble<double> (double x) { return x; }

template <class T> struct TVGen
{
    // structured inputs; NaN/inf only for branch-free functions
    static std::vector<T> values (std::mt19937_64& g, size_t n, int mode, bool branching, bool nozero)
    {
        std::vector<T> v (n);
        std::uniform_real_distribution<double> U (-4.0, 4.0);
        std::uniform_int_distribution<int>     I (-3, 3);
        static const double specials[] = {0.0, -0.0, 1.0, -1.0, 2.0, 0.5, -0.5, 3.0, 1e-30, -1e-30, 1e30, -1e30, 1e-300, 1e300, 65504.0, 6e-8};
        for (size_t i = 0; i < n; ++i)
        {
            double x;
            switch (mode % 8)
            {
                case 0: x = (double) I (g); break;
                case 1: x = U (g); break;
                case 2: x = (i == (size_t) (mode / 8) % (n ? n : 1)) ? 1.0 : 0.0; break;
                case 3: x = specials[g () % 8]; break;
                case 4: x = U (g) * std::pow (10.0, (double) (I (g) * 3)); break;
                case 5: x = (double) I (g) * 0.25; break;
                case 6: x = (g () % 3 == 0) ? 0.0 : U (g); break;
                default:
                    x = specials[g () % (sizeof (specials) / sizeof (double))];
                    if (!branching && g () % 5 == 0) x = (g () & 1) ? std::numeric_limits<double>::infinity () : std::numeric_limits<double>::quiet_NaN ();
            }
            if (std::numeric_limits<T>::is_integer)
            {
                // integers: small values (signed overflow is undefined behaviour), full range for types that promote to int
                long r = (mode % 8 == 7 && sizeof (T) <= 2) ? (long) (g () % 65536) - 32768 : (long) (g () % 201) - 100;
                if (mode % 8 == 0) r = I (g);
                if (!std::numeric_limits<T>::is_signed) r = (mode % 8 == 7) ? (long) (g () % 256) : std::labs (r) % 256;
                if (nozero && (T) r == (T) 0) r = 1;
                v[i] = (T) r;
                continue;
            }
            if (nozero && x == 0) x = 1.0;
            v[i] = fromDouble<T> (x);
        }
        return v;
    }
    // small-integer lattice inputs (Opts::lattice): entries from {-2..2}, with a random share of zeros, and (square
    // layouts of 9 / 16 slots) a row copied / scaled onto another or a zeroed column in some of the draws
    static std::vector<T> lattice (std::mt19937_64& g, size_t n, int k, bool nozero)
    {
        std::vector<T> v (n);
        static const int small[] = {-2, -1, 0, 1, 2, 1, -1, 3};
        int pz = (k % 4) * 25; // share of zeros: 0, 25, 50, 75 %
        for (size_t i = 0; i < n; ++i)
        {
            long x = (int) (g () % 100) < pz ? 0 : small[g () % 8];
            if (nozero && x == 0) x = 1;
            v[i] = (T) x;
        }
        size_t d = n == 9 ? 3 : n == 16 ? 4 : 0;
        if (d && !nozero)
        {
            unsigned r = (unsigned) (g () % 6);
            size_t a = g () % d, b = g () % d;
            if (r == 0 && a != b) { for (size_t c = 0; c < d; ++c) v[a * d + c] = (T) ((long) v[b * d + c] * (long) (1 + g () % 2)); }
            else if (r == 1) { for (size_t c = 0; c < d; ++c) { if (g () % 3) v[c * d + a] = (T) 0; } }
            else if (r == 2) { for (size_t c = 0; c < d; ++c) v[c * d + a] = (T) ((c == b) ? 1 : 0); }
        }
        return v;
    }
};

template <class T>
inline bool tvOne (const FnRecord& f, void (*body) (Ctx<T>&), const std::vector<T>& in, std::string& detail, size_t* leafOut = nullptr)
{
    Ctx<T> c;
    c.inputs = &in;
    std::string excReal;
    try { body (c); }
    catch (const std::exception& x) { excReal = excKind (x); }
    Evaluator<T>      ev;
    std::vector<T>    vals;
    std::vector<long> ints;
    std::string       exc;
    bool              ok = ev.run (f, in, vals, ints, exc);
    if (!ok) { detail = "no path of the extracted tree matches"; return false; }
    if (leafOut) *leafOut = ev.leafIndex;
    if (exc != excReal) { detail = "exception kind: real='" + excReal + "' tree='" + exc + "'"; return false; }
    if (!exc.empty ()) return true;
    if (vals.size () != c.cvals.size () || ints != c.cints) { detail = "result arity / integer results differ"; return false; }
    if (ev.strs != c.cstrs)
    {
        detail = "printed text differs: real='" + (c.cstrs.empty () ? std::string ("") : c.cstrs[0]) + "' tree='" + (ev.strs.empty () ? std::string ("") : ev.strs[0]) + "'";
        return false;
    }
    for (size_t i = 0; i < vals.size (); ++i)
        if (!sameBits (vals[i], c.cvals[i]))
        {
            std::ostringstream s;
            s.precision (17);
            s << "component " << i << ": real=" << (double) c.cvals[i] << " tree=" << (double) vals[i];
            detail = s.str ();
            return false;
        }
    return true;
}

template <class T> TVFn makeTV (void (*body) (Ctx<T>&))
{
    return [body] (const FnRecord& f, unsigned long seed, int n, bool nozero, std::string& detail, TVStats& st) -> bool {
        std::mt19937_64 g (seed);
        size_t nin = 0;
        for (auto& p : f.params) nin += p.vars.size ();
        bool branching = f.paths.size () > 1;
        const int extra = tvLatticeExtra ();
        for (int k = 0; k < n + extra; ++k)
        {
            auto in = k < n ? TVGen<T>::values (g, nin, k, branching, nozero) : TVGen<T>::lattice (g, nin, k - n, nozero);
            ++st.evals;
            for (size_t q = 1; q < in.size (); ++q) if (!sameBits (in[q], in[0])) { ++st.nontrivial; break; }
            std::string d;
            size_t leaf = (size_t) -1;
            bool okOne = tvOne<T> (f, body, in, d, &leaf);
            if (leaf != (size_t) -1) st.hit[&f].insert (leaf);
            if (!okOne)
            {
                std::ostringstream s;
                s.precision (17);
                s << d << " :: in=";
                for (auto& x : in) s << (double) x << " ";
                detail = s.str ();
                return false;
            }
        }
        return true;
    };
}

inline std::vector<std::string>& lastRealStrs () { static std::vector<std::string> v; return v; }
inline RunFn makeRun (void (*body) (Ctx<double>&))
{
    return [body] (const std::vector<double>& in, std::vector<double>& vals, std::vector<long>& ints, std::string& exc) {
        Ctx<double> c;
        c.inputs = &in;
        try { body (c); }
        catch (const std::exception& x) { exc = excKind (x); }
        vals = c.cvals;
        ints = c.cints;
        lastRealStrs () = c.cstrs;
    };
}

inline int sym_main (int argc, char** argv)
{
    std::string mode = argc > 1 ? argv[1] : "list";
    // trailing "--idx file" arguments: signatures of functions extracted by another binary
    for (int i = 1; i + 1 < argc; ++i)
        if (std::string (argv[i]) == "--idx") loadIndex (argv[i + 1]);
    std::vector<FnRecord*> recs;
    for (auto& e : entries ()) recs.push_back (explore (e));
    if (mode == "list")
    {
        for (auto* r : recs) printf ("%s %s paths=%zu status=%s\n", r->module.c_str (), r->name.c_str (), r->paths.size (), r->status.c_str ());
        return 0;
    }
    if (mode == "emit")
    {
        std::string dir = argv[2];
        std::vector<std::string> modules;
        std::map<std::string, std::string> text;
        std::map<std::string, std::set<std::string>> deps;
        std::map<std::string, std::string> fnModule;
        Emitter em;
        std::ofstream idx (dir + "/index_" + std::string (argc > 3 ? argv[3] : "main") + ".txt");
        for (auto* r : recs)
        {
            if (std::find (modules.begin (), modules.end (), r->module) == modules.end ()) modules.push_back (r->module);
            if (r->status != "ok")
            {
                idx << indexLine (*r, Needs ()) << "\n";
                text[r->module] += "-- NOT EXTRACTED (" + r->status + "): " + r->name + "\n\n";
                continue;
            }
            fnModule[r->name] = r->module;
            text[r->module] += em.emit (r) + "\n";
            idx << indexLine (*r, needsIndex ()[r->name]) << "\n";
            // module dependencies through opaque calls
            for (auto& p : r->paths)
            {
                std::vector<const Node*> st;
                for (auto& c : p.conds) { st.push_back (c.first.a); st.push_back (c.first.b); }
                for (auto* v : p.leaf.vals) st.push_back (v);
                std::set<const Node*> seen;
                while (!st.empty ())
                {
                    const Node* n = st.back (); st.pop_back ();
                    if (!seen.insert (n).second) continue;
                    if (n->op == CALL)
                    {
                        auto fi = fnIndex ().find (n->s);
                        std::string m = fnModule.count (n->s) ? fnModule[n->s] : (fi != fnIndex ().end () ? fi->second->module : "");
                        if (!m.empty () && m != r->module) deps[r->module].insert (m);
                    }
                    for (auto* k : n->k) st.push_back (k);
                }
            }
        }
        for (auto& m : modules)
        {
            std::ofstream os (dir + "/" + m + ".lean");
            os << "-- GENERATED from /repo/src/Imath by harness/sym (T = Sym path extraction); do not edit.\n";
            os << "import ImathVerif.Basic.Types\n";
            // a dependency is a Gen module, or (dotted name, e.g. Model.GaussJordan) a hand model called opaquely
            for (auto& d : deps[m]) os << "import ImathVerif." << (d.find ('.') == std::string::npos ? "Gen." : "") << d << "\n";
            os << "set_option linter.unusedVariables false\n";
            {
                // a definition with a very long `let` chain (e.g. rotationMatrix: 79 paths, ~900 shared terms) needs a deeper elaborator stack
                size_t cur = 0, mx = 0;
                std::istringstream is (text[m]);
                for (std::string ln; std::getline (is, ln);)
                {
                    if (ln.rfind ("def ", 0) == 0) cur = 0;
                    else if (ln.rfind ("  let ", 0) == 0) mx = std::max (mx, ++cur);
                }
                if (mx > 500) os << "set_option maxRecDepth 8192\n";
            }
            os << "namespace ImathVerif.Gen\nopen ImathVerif\n\n" << text[m] << "end ImathVerif.Gen\n";
        }
        return 0;
    }
    if (mode == "real")
    {
        // real <function> <inputs...>: run the real code at double on a replay input
        std::string fn = argv[2];
        for (size_t i = 0; i < entries ().size (); ++i)
        {
            if (entries ()[i].name != fn || !entries ()[i].runD) continue;
            std::vector<double> in, vals; std::vector<long> ints; std::string exc;
            for (int k = 3; k < argc && std::string (argv[k]) != "--idx"; ++k) in.push_back (atof (argv[k]));
            size_t nin = 0;
            for (auto& p : recs[i]->params) nin += p.vars.size ();
            if (in.size () != nin) { printf ("REAL %s arity-mismatch need=%zu got=%zu\n", fn.c_str (), nin, in.size ()); return 2; }
            entries ()[i].runD (in, vals, ints, exc);
            printf ("REAL %s exc=%s vals=", fn.c_str (), exc.empty () ? "-" : exc.c_str ());
            for (double v : vals) printf ("%.17g ", v);
            printf ("ints=");
            for (long v : ints) printf ("%ld ", v);
            for (auto& t : lastRealStrs ())
            {
                printf ("text=");
                for (unsigned char ch : t) printf (ch == '\n' ? "\\n" : "%c", ch);
            }
            printf ("\n");
            return 0;
        }
        printf ("REAL %s not-found\n", fn.c_str ());
        return 2;
    }
    if (mode == "rattv")
    {
        // Lean-side emitter validation: print cases (inputs + exact results of the extracted tree at Frac)
        unsigned long seed = argc > 2 ? strtoul (argv[2], 0, 10) : 1;
        int           n    = argc > 3 ? atoi (argv[3]) : 6;
        // optional `--den D`: every input is k/D with k in [-D-1, D+1] (C18: candidates of the unit-ball samplers; the default
        // integers in [-4,4] are almost always rejected by them)
        long fixedDen = 0;
        for (int q = 1; q + 1 < argc; ++q) if (std::string (argv[q]) == "--den") fixedDen = atol (argv[q + 1]);
        std::mt19937_64 g (seed);
        for (size_t i = 0; i < entries ().size (); ++i)
        {
            FnRecord* r = recs[i];
            if (r->status != "ok") continue;
            // skip functions calling externally extracted functions (no tree in this binary)
            bool ext = false;
            {
                std::vector<const Node*> st; std::set<const Node*> seen;
                for (auto& p : r->paths) { for (auto& c : p.conds) { st.push_back (c.first.a); st.push_back (c.first.b); } for (auto* v : p.leaf.vals) st.push_back (v); }
                while (!st.empty ()) { const Node* x = st.back (); st.pop_back (); if (!seen.insert (x).second) continue;
                    if (x->op == CALL) { auto fi = fnIndex ().find (x->s); if (fi == fnIndex ().end () || fi->second->paths.empty ())
                                             { auto ni = natives ().find (x->s); if (ni == natives ().end () || !ni->second.q) ext = true; } }
                    for (auto* k : x->k) st.push_back (k); }
            }
            if (ext) { printf ("RATSKIP %s external-call\n", r->name.c_str ()); continue; }
            size_t nin = 0;
            for (auto& p : r->params) nin += p.vars.size ();
            for (int k = 0; k < n; ++k)
            {
                std::vector<Frac> in;
                for (size_t j = 0; j < nin; ++j)
                {
                    if (fixedDen > 0)
                    {
                        in.push_back (Frac ((I128) ((long) (g () % (unsigned long) (2 * fixedDen + 3)) - (fixedDen + 1)), (I128) fixedDen));
                        continue;
                    }
                    long a = (long) (g () % 9) - 4;
                    long d = (k % 3 == 2) ? (long) (g () % 3) + 1 : 1;
                    if (k % 3 == 1 && g () % 3 == 0) a = 0;
                    in.push_back (Frac ((I128) a, (I128) d));
                }
                try
                {
                    Evaluator<Frac> ev; std::vector<Frac> vals; std::vector<long> ints; std::string exc;
                    if (!ev.run (*r, in, vals, ints, exc)) continue;
                    printf ("RATCASE %s IN", r->name.c_str ());
                    for (auto& x : in) printf (" %s", x.str ().c_str ());
                    printf (" OUT exc=%s vals=", exc.empty () ? "-" : exc.c_str ());
                    for (auto& x : vals) printf ("%s,", x.str ().c_str ());
                    printf (" ints=");
                    for (long x : ints) printf ("%ld,", x);
                    // printed texts of the selected leaf in canonical segment form
                    {
                        Emitter em2; em2.r = r;
                        // find the leaf again: re-run path selection through the evaluator's conditions
                        size_t lo = 0, hi = r->paths.size (), depth = 0;
                        while (r->paths[lo].conds.size () != depth)
                        {
                            size_t mid = lo;
                            while (mid < hi && r->paths[mid].conds.size () > depth && r->paths[mid].conds[depth].second) ++mid;
                            if (ev.cond (r->paths[lo].conds[depth].first)) hi = mid; else lo = mid;
                            ++depth;
                        }
                        for (auto& text : r->paths[lo].leaf.strs)
                        {
                            printf (" segs=");
                            for (auto& t : parseText (text))
                            {
                                if (t.tok) printf ("T%ld:%ld:%ld:%ld|", em2.varIndex (t.node), t.w, t.flags, t.prec);
                                else { printf ("L"); for (unsigned char ch : t.lit) printf ("%02x", ch); printf ("|"); }
                            }
                        }
                    }
                    printf ("\n");
                }
                catch (const FracOverflow&) {}
            }
        }
        return 0;
    }
    if (mode == "tv")
    {
        unsigned long seed = argc > 2 ? strtoul (argv[2], 0, 10) : 1;
        int           n    = argc > 3 ? atoi (argv[3]) : 64;
        long bad = 0, fns = 0;
        TVStats st;
        std::map<std::string, long> perType;
        for (size_t i = 0; i < entries ().size (); ++i)
        {
            const Entry& e = entries ()[i];
            FnRecord*    r = recs[i];
            if (r->status != "ok" || e.tv.empty ()) continue;
            ++fns;
            tvLatticeExtra () = e.opts.latticeTV * std::max (1, n / 48); // scales with the tier (n = 48 quick)
            for (auto& t : e.tv)
            {
                std::string detail;
                long before = st.evals;
                if (!t.second (*r, seed * 1000003ul + i, n, e.opts.nozero, detail, st))
                {
                    ++bad;
                    printf ("TVFAIL %s %s :: %s\n", t.first.c_str (), r->name.c_str (), detail.c_str ());
                }
                perType[t.first] += st.evals - before;
            }
            tvLatticeExtra () = 0;
            // leaves of the extracted tree reached by the inputs above (all element types together)
            if (r->paths.size () > 1) printf ("TVPATHS %s hit=%zu paths=%zu\n", r->name.c_str (), st.hit[r].size (), r->paths.size ());
        }
        printf ("TV functions=%ld evaluations=%ld nontrivial=%ld failures=%ld", fns, st.evals, st.nontrivial, bad);
        for (auto& kv : perType) printf (" %s=%ld", kv.first.c_str (), kv.second);
        printf ("\n");
        return bad ? 1 : 0;
    }
    return 2;
}

} // namespace symns
