// C10 (third extractor): setRotation / rotationMatrix with Vec3::normalized and Quat::setRotationInternal as OPAQUE
// calls of the definitions extracted by sym_c10.cpp (`C10.V3.normalized`, `C10.Quat.setRotationInternal`).
// The flat trees (115 paths, C10Quat/C10Algo) are extracted from the same code; this modular form (module "C10Rot")
// keeps the three-path structure (<= 90 degrees / split at the halfway vector / antipodal fallback) readable
// and is what the setRotation theorems are stated about.
#define IN(Ty, n) auto n = c.template in<Ty<T>> (#n)
// lattice (64): extra TV inputs from the small-integer lattice with random sparsity -- exactly opposite pairs (to = -k from on a coordinate
// axis / in a coordinate plane) occur there, so the five leaves of the antipodal fallback are compared with the real code as well
EXTRACT_OPT ("C10Rot", q_setRotationMod, "C10.Quat.setRotationMod", symns::Opts ().lattice (64), { IN (Quat, q); IN (Vec3, vfrom); IN (Vec3, vto); q.setRotation (vfrom, vto); c.out (q); })
EXTRACT_OPT ("C10Rot", a_rotationMatrixMod, "C10.rotationMatrixMod", symns::Opts ().lattice (64), { IN (Vec3, vfrom); IN (Vec3, vto); c.out (rotationMatrix (vfrom, vto)); })
// aliasing: `from` is the quaternion's own vector part (read through a reference while *this is being written)
EXTRACT_OPT ("C10Rot", q_setRotationModAliasV, "C10.Quat.setRotationModAliasV", symns::Opts ().lattice (64), { IN (Quat, q); IN (Vec3, vto); q.setRotation (q.v, vto); c.out (q); })
