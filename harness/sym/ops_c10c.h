// C10 (third extractor): setRotation / rotationMatrix with Vec3::normalized and Quat::setRotationInternal as OPAQUE
// calls of the definitions extracted by sym_c10.cpp (`C10.V3.normalized`, `C10.Quat.setRotationInternal`).
// The flat trees (115 paths, C10Quat/C10Algo) are extracted from the same code; this modular form (module "C10Rot")
// keeps the three-path structure (<= 90 degrees / split at the halfway vector / antipodal fallback) readable
// and is what the setRotation theorems are stated about.
#define IN(Ty, n) auto n = c.template in<Ty<T>> (#n)
EXTRACT ("C10Rot", q_setRotationMod, "C10.Quat.setRotationMod", { IN (Quat, q); IN (Vec3, vfrom); IN (Vec3, vto); q.setRotation (vfrom, vto); c.out (q); })
EXTRACT ("C10Rot", a_rotationMatrixMod, "C10.rotationMatrixMod", { IN (Vec3, vfrom); IN (Vec3, vto); c.out (rotationMatrix (vfrom, vto)); })
