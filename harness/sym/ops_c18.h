// C18 extraction table: ONE iteration of the do/while loops of solidSphereRand / hollowSphereRand and the body of
// gaussSphereRand (ImathRandom.h), for Vec2/3/4, module "C18Samplers".
//
// The samplers are templates in the generator type `Rand`; they are instantiated here with a SCRIPTED generator whose
// nextf (-1, 1) hands out the symbolic inputs one after the other:
//   * a call with other arguments than (-1, 1) throws std::logic_error      -> `.error Exc.logicError` in the emitted def
//   * a call after the script is exhausted (= the loop condition was true and a second candidate is being drawn)
//     throws std::out_of_range                                              -> `.error Exc.outOfRange`  ("retry")
// so the emitted definition is exactly `candidate -> retry | accept result`; Props/C18.lean proves that the hand loop
// models of Spec/Rand48Field.lean iterate this generated step.  Vec::length () is the opaque call of Gen `V?.length`.
// gaussRand is `float`-typed throughout (not a template in the scalar): it is NOT extractable; in gaussSphereRand it is
// the explicit specialisation below, returning the symbolic input `g` (a float token, see sym.h floatToken).
#pragma once
#include <ImathRandom.h>

namespace c18
{
struct Retry : std::out_of_range
{
    Retry () : std::out_of_range ("script exhausted: the sampler loop draws another candidate") {}
};

template <class T> struct ScriptRand
{
    std::vector<T> draws;
    size_t         k     = 0;
    float          gauss = 0; // value returned by gaussRand (*this) at T = Sym (explicit specialisation)
    T nextf (T lo, T hi)
    {
        if (!(lo == T (-1)) || !(hi == T (1))) throw std::logic_error ("sampler drew from another range than nextf (-1, 1)");
        if (k == draws.size ()) throw Retry ();
        return draws[k++];
    }
};
} // namespace c18

IMATH_INTERNAL_NAMESPACE_HEADER_ENTER
template <> inline float gaussRand<c18::ScriptRand<symns::Sym>> (c18::ScriptRand<symns::Sym>& r) { return r.gauss; }
template <> inline float gaussRand<c18::ScriptRand<float>> (c18::ScriptRand<float>& r) { return r.gauss; }
IMATH_INTERNAL_NAMESPACE_HEADER_EXIT

namespace c18
{
inline float gaussValue (symns::Sym g) { return symns::floatToken (g.n); }
inline float gaussValue (float g) { return g; }
} // namespace c18

// like EXTRACT, with translator validation at float only: the factor returned by gaussRand is a `float` for every element
// type, so at double the real code multiplies by (double) (float) g, which the tree (`* g`) reproduces only for float inputs
#define EXTRACT_FLOAT(module, ident, leanname, ...)                                                                                     \
    struct X_##ident { template <class T> static void run (symns::Ctx<T>& c) __VA_ARGS__ };                                             \
    static int reg_##ident = (symns::entries ().push_back (symns::Entry{module, leanname, symns::Opts (), &X_##ident::run<symns::Sym>,  \
        {{"float", symns::makeTV<float> (&X_##ident::run<float>)}}, nullptr}), 0);

#define C18_SCRIPT2(v) c18::ScriptRand<T> r{{v.x, v.y}}
#define C18_SCRIPT3(v) c18::ScriptRand<T> r{{v.x, v.y, v.z}}
#define C18_SCRIPT4(v) c18::ScriptRand<T> r{{v.x, v.y, v.z, v.w}}

#define C18_SAMPLERS(Ty, N, SCRIPT)                                                                                                   \
    EXTRACT ("C18Samplers", c18_solid##N, "C18.solidSphere" #N "_iter",                                                               \
             { auto v = c.template in<Ty<T>> ("v"); SCRIPT (v); c.out (solidSphereRand<Ty<T>> (r)); })                                \
    EXTRACT ("C18Samplers", c18_hollow##N, "C18.hollowSphere" #N "_iter",                                                             \
             { auto v = c.template in<Ty<T>> ("v"); SCRIPT (v); c.out (hollowSphereRand<Ty<T>> (r)); })                               \
    EXTRACT_FLOAT ("C18Samplers", c18_gsphere##N, "C18.gaussSphere" #N "_body",                                                       \
                   { T g = c.inS ("g"); auto v = c.template in<Ty<T>> ("v"); SCRIPT (v); r.gauss = c18::gaussValue (g);               \
                     c.out (gaussSphereRand<Ty<T>> (r)); })
C18_SAMPLERS (Vec2, 2, C18_SCRIPT2)
C18_SAMPLERS (Vec3, 3, C18_SCRIPT3)
C18_SAMPLERS (Vec4, 4, C18_SCRIPT4)
