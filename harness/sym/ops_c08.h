// C08 extraction table: length2 and the six normalize forms of Vec2/3/4 (module "C08").
// length() is an opaque call of Gen `V2/V3/V4.length` here (OPAQUE_LENGTH in sym_c08.cpp); its real body —
// including lengthTiny — is extracted by sym_leaf.cpp into Gen/Leaf.lean and proved in Props/C08.lean.
// Lean names carry the prefix `C08.` because other Gen modules (C05, C07, Vec) extract functions with the
// same C++ names and all Gen modules share the namespace ImathVerif.Gen.
#define IN(Ty, n) auto n = c.template in<Ty<T>> (#n)

#define NORMS(Ty, id, L)                                                                                              \
    EXTRACT ("C08", id##_dot, "C08." L ".dot", { IN (Ty, a); IN (Ty, b); c.outS (a.dot (b)); })                         \
    EXTRACT ("C08", id##_length2, "C08." L ".length2", { IN (Ty, a); c.outS (a.length2 ()); })                          \
    EXTRACT ("C08", id##_normalize, "C08." L ".normalize", { IN (Ty, a); a.normalize (); c.out (a); })                  \
    EXTRACT ("C08", id##_normalizeExc, "C08." L ".normalizeExc", { IN (Ty, a); a.normalizeExc (); c.out (a); })         \
    EXTRACT ("C08", id##_normalizeNonNull, "C08." L ".normalizeNonNull", { IN (Ty, a); a.normalizeNonNull (); c.out (a); }) \
    EXTRACT ("C08", id##_normalized, "C08." L ".normalized", { IN (Ty, a); c.out (a.normalized ()); })                  \
    EXTRACT ("C08", id##_normalizedExc, "C08." L ".normalizedExc", { IN (Ty, a); c.out (a.normalizedExc ()); })         \
    EXTRACT ("C08", id##_normalizedNonNull, "C08." L ".normalizedNonNull", { IN (Ty, a); c.out (a.normalizedNonNull ()); })
NORMS (Vec2, v2, "V2")
NORMS (Vec3, v3, "V3")
NORMS (Vec4, v4, "V4")
