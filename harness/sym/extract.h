// Path exploration driver, decision-tree builder, Lean emitter and translator
// validation (TV) evaluator.  See sym.h and DESIGN.md §2.2/§2.3.
#pragma once
#include "sym.h"
#include "frac.h"
#include <cstdio>
#include <iostream>
#include <memory>
#include <random>
#include <typeinfo>

namespace symns
{

inline std::ostream& operator<< (std::ostream& os, Sym a)
{
    // a Sym prints as one opaque token recording the stream state a real element would be
    // formatted with (field width, format flags, precision); like a real operator<< it resets the width
    std::ostringstream t;
    t << '\x01' << a.n->id << ':' << (long) os.width () << ':' << (long) os.flags () << ':' << (long) os.precision () << '\x02';
    os.width (0);
    return os.write (t.str ().data (), (std::streamsize) t.str ().size ());
}

// a printed text split into literal pieces and element tokens
struct TextSeg { bool tok; std::string lit; int node; long w, flags, prec; };
inline std::vector<TextSeg> parseText (const std::string& s)
{
    std::vector<TextSeg> out;
    std::string cur;
    for (size_t i = 0; i < s.size (); ++i)
    {
        if (s[i] != '\x01') { cur += s[i]; continue; }
        if (!cur.empty ()) { out.push_back (TextSeg{false, cur, 0, 0, 0, 0}); cur.clear (); }
        size_t e = s.find ('\x02', i);
        TextSeg t{true, "", 0, 0, 0, 0};
        sscanf (s.substr (i + 1, e - i - 1).c_str (), "%d:%ld:%ld:%ld", &t.node, &t.w, &t.flags, &t.prec);
        out.push_back (t);
        i = e;
    }
    if (!cur.empty ()) out.push_back (TextSeg{false, cur, 0, 0, 0, 0});
    return out;
}

//-----------------------------------------------------------------------------
// aggregate shapes (how a C++ aggregate maps to a Lean structure)

struct Shape
{
    std::string                                       lean;   // Lean structure name, e.g. "V3"
    std::vector<std::pair<std::string, const Shape*>> fields; // nullptr = scalar leaf
    void leaves (const std::string& prefix, std::vector<std::string>& out) const
    {
        for (auto& f : fields)
        {
            std::string p = prefix.empty () ? f.first : prefix + "." + f.first;
            if (f.second) f.second->leaves (p, out);
            else out.push_back (p);
        }
    }
    int count () const { std::vector<std::string> l; leaves ("", l); return (int) l.size (); }
    // anonymous-constructor expression from leaf expressions
    std::string ctor (const std::vector<std::string>& comps, size_t& i) const
    {
        std::string s = "⟨";
        bool first = true;
        for (auto& f : fields)
        {
            if (!first) s += ", ";
            first = false;
            if (f.second) s += f.second->ctor (comps, i);
            else s += comps[i++];
        }
        return s + "⟩";
    }
};

template <class A> struct Agg; // specialised in shapes.h: shape(), flat(A&, std::vector<T*>&)

//-----------------------------------------------------------------------------
// function records

struct OutItem { enum Kind { AGG, SCALAR, BOOL, INT, STR } kind; const Shape* shape; int n; };
struct Leaf
{
    bool                     thrown = false;
    std::string              exc;
    std::vector<const Node*> vals;
    std::vector<long>        ints;
    std::vector<std::string> strs; // printed texts (tokens encoded, see parseText)
};
struct PathRec { std::vector<std::pair<Cond, bool>> conds; Leaf leaf; };
struct Param { std::string name; const Shape* shape; std::vector<const Node*> vars; bool src = false; /* C04 cast entries: element type β (the source of `cast : β → α`) */ };

struct FnRecord
{
    std::string          module, name, note;
    std::vector<Param>   params;
    std::vector<OutItem> outs;
    std::vector<PathRec> paths;
    std::string          status = "ok";
    bool                 throws = false;
    bool                 outsDone = false;
};

inline std::map<std::string, FnRecord*>& fnIndex () { static std::map<std::string, FnRecord*> m; return m; }

//-----------------------------------------------------------------------------
// Ctx: symbolic and concrete

struct Thrown { std::string kind; };

template <class T> struct Ctx
{
    static constexpr bool symbolic = std::is_same<T, Sym>::value;
    FnRecord*          rec   = nullptr; // symbolic: being filled
    bool               first = true;    // record params only on the first path
    bool               recordOuts = true;
    Leaf               leaf;
    size_t             outIdx = 0;
    // concrete mode
    const std::vector<T>* inputs = nullptr;
    size_t                ipos   = 0;
    std::vector<T>        cvals;
    std::vector<long>     cints;
    std::vector<std::string> cstrs;
    size_t                pIdx = 0;

    T inS (const std::string& name)
    {
        if constexpr (symbolic)
        {
            Sym v = Sym::var (name);
            if (first) rec->params.push_back (Param{name, nullptr, {v.n}});
            return v;
        }
        else { return (*inputs)[ipos++]; }
    }
    template <class A> A in (const std::string& name)
    {
        A                a{};
        std::vector<T*>  ptrs;
        Agg<A>::flat (a, ptrs);
        if constexpr (symbolic)
        {
            std::vector<std::string> lv;
            Agg<A>::shape ()->leaves ("", lv);
            Param p{name, Agg<A>::shape (), {}};
            for (size_t i = 0; i < ptrs.size (); ++i)
            {
                Sym v   = Sym::var (name + "." + lv[i]);
                *ptrs[i] = v;
                p.vars.push_back (v.n);
            }
            if (first) rec->params.push_back (p);
        }
        else
        {
            for (auto* p : ptrs) *p = (*inputs)[ipos++];
        }
        return a;
    }
    void item (OutItem::Kind k, const Shape* s, int n)
    {
        if constexpr (symbolic) { if (recordOuts) rec->outs.push_back (OutItem{k, s, n}); }
    }
    void put (const T& v)
    {
        if constexpr (symbolic) leaf.vals.push_back (v.n);
        else cvals.push_back (v);
    }
    template <class A> void out (const A& a0)
    {
        A               a = a0;
        std::vector<T*> ptrs;
        Agg<A>::flat (a, ptrs);
        item (OutItem::AGG, Agg<A>::shape (), (int) ptrs.size ());
        for (auto* p : ptrs) put (*p);
    }
    void outS (const T& v) { item (OutItem::SCALAR, nullptr, 1); put (v); }
    void outB (bool b)
    {
        item (OutItem::BOOL, nullptr, 1);
        if constexpr (symbolic) leaf.ints.push_back (b ? 1 : 0); else cints.push_back (b ? 1 : 0);
    }
    void outStr (const std::string& v)
    {
        item (OutItem::STR, nullptr, 1);
        if constexpr (symbolic) leaf.strs.push_back (v); else cstrs.push_back (v);
    }
    void outI (long v)
    {
        item (OutItem::INT, nullptr, 1);
        if constexpr (symbolic) leaf.ints.push_back (v); else cints.push_back (v);
    }
};

inline std::string excKind (const std::exception& e)
{
    if (dynamic_cast<const std::domain_error*> (&e)) return "domainError";
    if (dynamic_cast<const std::invalid_argument*> (&e)) return "invalidArgument";
    if (dynamic_cast<const std::overflow_error*> (&e)) return "overflowError";
    if (dynamic_cast<const std::underflow_error*> (&e)) return "underflowError";
    if (dynamic_cast<const std::out_of_range*> (&e)) return "outOfRange";
    if (dynamic_cast<const std::logic_error*> (&e)) return "logicError";
    if (dynamic_cast<const std::runtime_error*> (&e)) return "runtimeError";
    return "other";
}

// registry of extraction entries
struct Opts
{
    size_t maxPaths = 4096;
    bool   nozero   = false; // TV inputs never zero (integer division)
    const char* note = "";
    Opts& paths (size_t n) { maxPaths = n; return *this; }
    Opts& nz () { nozero = true; return *this; }
    Opts& say (const char* s) { note = s; return *this; }
    // additional TV inputs per element type from the small-integer lattice {-2..2} with random sparsity / repeated rows
    // (pivot-search and zero-test trees: the inputs on which the rare leaves are reached); see tvLatticeExtra ()
    int    latticeTV = 0;
    Opts& lattice (int n) { latticeTV = n; return *this; }
};
inline int& tvLatticeExtra () { static int v = 0; return v; } // set by the tv driver from Opts::latticeTV before an entry is validated
struct TVStats { long evals = 0; long nontrivial = 0; /* inputs not all equal */
                 std::map<const void*, std::set<size_t>> hit; /* per FnRecord: leaves of the extracted tree reached by the TV inputs */ };
// type-erased translator-validation runner for one element type
typedef std::function<bool (const FnRecord&, unsigned long seed, int n, bool nozero, std::string& detail, TVStats&)> TVFn;
// run the real instantiation at double on given inputs (replay of a failing input)
typedef std::function<void (const std::vector<double>&, std::vector<double>&, std::vector<long>&, std::string&)> RunFn;
struct Entry
{
    std::string module, name;
    Opts        opts;
    std::function<void (Ctx<Sym>&)>           sym;
    std::vector<std::pair<std::string, TVFn>> tv;
    RunFn                                     runD;
};
inline std::vector<Entry>& entries () { static std::vector<Entry> e; return e; }
template <class T> TVFn makeTV (void (*body) (Ctx<T>&)); // defined in main.h
RunFn makeRun (void (*body) (Ctx<double>&));            // defined in main.h

// EXTRACT(module, ident, "Lean.name", { body using `c` and element type `T` }): TV at double and float
#define EXTRACT_OPT(module, ident, leanname, opts, ...)                                               \
    struct X_##ident { template <class T> static void run (symns::Ctx<T>& c) __VA_ARGS__ };            \
    static int reg_##ident = (symns::entries ().push_back (symns::Entry{module, leanname, opts, &X_##ident::run<symns::Sym>, \
        {{"double", symns::makeTV<double> (&X_##ident::run<double>)}, {"float", symns::makeTV<float> (&X_##ident::run<float>)}}, symns::makeRun (&X_##ident::run<double>)}), 0);
#define EXTRACT(module, ident, leanname, ...) EXTRACT_OPT (module, ident, leanname, symns::Opts (), __VA_ARGS__)
// TV at all seven element types of C04
#define EXTRACT_ALLT_OPT(module, ident, leanname, opts, ...)                                          \
    struct X_##ident { template <class T> static void run (symns::Ctx<T>& c) __VA_ARGS__ };            \
    static int reg_##ident = (symns::entries ().push_back (symns::Entry{module, leanname, opts, &X_##ident::run<symns::Sym>, \
        {{"double", symns::makeTV<double> (&X_##ident::run<double>)}, {"float", symns::makeTV<float> (&X_##ident::run<float>)},  \
         {"half", symns::makeTV<half> (&X_##ident::run<half>)}, {"int", symns::makeTV<int> (&X_##ident::run<int>)},              \
         {"short", symns::makeTV<short> (&X_##ident::run<short>)}, {"int64", symns::makeTV<int64_t> (&X_##ident::run<int64_t>)}, \
         {"uchar", symns::makeTV<unsigned char> (&X_##ident::run<unsigned char>)}}, symns::makeRun (&X_##ident::run<double>)}), 0);
#define EXTRACT_ALLT(module, ident, leanname, ...) EXTRACT_ALLT_OPT (module, ident, leanname, symns::Opts (), __VA_ARGS__)
// symbolic only (body not instantiable / not meaningful at double): no C++-side TV
#define EXTRACT_SYM(module, ident, leanname, ...)                                                    \
    struct X_##ident { template <class T> static void run (symns::Ctx<T>& c) __VA_ARGS__ };            \
    static int reg_##ident = (symns::entries ().push_back (symns::Entry{module, leanname, symns::Opts (), &X_##ident::run<symns::Sym>, {}, nullptr}), 0);

inline FnRecord* explore (const Entry& e)
{
    FnRecord* r = new FnRecord;
    r->module = e.module; r->name = e.name; r->note = e.opts.note;
    Explorer& ex = explorer ();
    ex.script.clear ();
    bool first = true;
    while (true)
    {
        ex.begin ();
        Ctx<Sym> c;
        c.rec = r; c.first = first; c.recordOuts = !r->outsDone;
        PathRec p;
        try { e.sym (c); p.leaf = c.leaf; r->outsDone = true; }
        catch (const TooManyPaths&) { r->status = "too-many-paths"; break; }
        catch (const PathTooLong&) { r->status = "path-too-long"; break; }
        catch (const std::exception& x)
        {
            p.leaf = Leaf (); p.leaf.thrown = true; p.leaf.exc = excKind (x); r->throws = true;
            if (!r->outsDone) r->outs.clear ();
        }
        ex.active = false;
        p.conds = ex.path;
        r->paths.push_back (p);
        first = false;
        if (r->paths.size () > e.opts.maxPaths) { r->status = "too-many-paths"; break; }
        if (!ex.next ()) break;
    }
    ex.active = false;
    fnIndex ()[r->name] = r;
    return r;
}

//-----------------------------------------------------------------------------
// Lean emitter

struct Needs
{
    std::set<std::string> cls;   // "Add","Sub","Mul","Div","Neg","LT","LE","DecEq"
    std::set<long>        lits;  // OfNat literals
    std::set<std::string> extra; // tmin,tmax,teps,tlowest,sqrt,...
    void merge (const Needs& o) { cls.insert (o.cls.begin (), o.cls.end ()); lits.insert (o.lits.begin (), o.lits.end ()); extra.insert (o.extra.begin (), o.extra.end ()); }
};
inline std::map<std::string, Needs>& needsIndex () { static std::map<std::string, Needs> m; return m; }
// parameter functions (C07): an opaque callee that is a PARAMETER of every emitted definition using it
// (name -> Lean type, e.g. "gj44" -> "M44 α → M44 α"); printed after the EXTRA_ORDER parameters, in name order.
// The callee's argument shapes come from a FnRecord registered in fnIndex() under the same name.
inline std::map<std::string, std::string>& paramFns () { static std::map<std::string, std::string> m; return m; }

static const char* EXTRA_ORDER[] = {"tmin", "tmax", "teps", "tlowest", "sqrt", "sin", "cos", "tan", "acos", "asin", "atan", "exp", "log", "atan2", "pow", "cast"};
inline bool extraIsBinary (const std::string& e) { return e == "atan2" || e == "pow"; }
inline bool extraIsConst (const std::string& e) { return e == "tmin" || e == "tmax" || e == "teps" || e == "tlowest"; }

inline void litParts (double v, bool& neg, unsigned long long& num, unsigned long long& den)
{
    neg = std::signbit (v) && v != 0;
    double a = std::fabs (v);
    den = 1;
    int guard = 0;
    while (a != std::floor (a) && guard < 1000) { a *= 2; den *= 2; ++guard; if (den == 0) break; }
    num = (unsigned long long) a;
}

struct Emitter
{
    const FnRecord*            r;
    std::map<const Node*, int> refs;
    std::set<const Node*>      letted;
    Needs                      needs;

    void countRefs (const Node* n)
    {
        if (++refs[n] > 1) return;
        for (auto* k : n->k) countRefs (k);
    }
    void collectNeeds (const Node* n, std::set<const Node*>& seen)
    {
        if (!seen.insert (n).second) return;
        for (auto* k : n->k) collectNeeds (k, seen);
        switch (n->op)
        {
            case ADD: needs.cls.insert ("Add"); break;
            case SUB: needs.cls.insert ("Sub"); break;
            case MUL: needs.cls.insert ("Mul"); break;
            case DIV: needs.cls.insert ("Div"); break;
            case NEG: needs.cls.insert ("Neg"); break;
            case ABS: needs.cls.insert ("LT"); needs.cls.insert ("Neg"); needs.lits.insert (0); break;
            case MIN: case MAX: case CLAMP: needs.cls.insert ("LT"); break;
            case ABSDIFF: needs.cls.insert ("LT"); needs.cls.insert ("Sub"); break;
            case LIT:
            {
                bool neg; unsigned long long num, den;
                litParts (n->lit, neg, num, den);
                needs.lits.insert ((long) num);
                if (den != 1) { needs.lits.insert ((long) den); needs.cls.insert ("Div"); }
                if (neg) needs.cls.insert ("Neg");
                break;
            }
            case SQRT: needs.extra.insert ("sqrt"); break;
            case SIN: needs.extra.insert ("sin"); break;
            case COS: needs.extra.insert ("cos"); break;
            case TAN: needs.extra.insert ("tan"); break;
            case ACOS: needs.extra.insert ("acos"); break;
            case ASIN: needs.extra.insert ("asin"); break;
            case ATAN: needs.extra.insert ("atan"); break;
            case EXP: needs.extra.insert ("exp"); break;
            case LOG: needs.extra.insert ("log"); break;
            case ATAN2: needs.extra.insert ("atan2"); break;
            case POW: needs.extra.insert ("pow"); break;
            case TMIN: needs.extra.insert ("tmin"); break;
            case TMAX: needs.extra.insert ("tmax"); break;
            case TEPS: needs.extra.insert ("teps"); break;
            case TLOWEST: needs.extra.insert ("tlowest"); break;
            case CAST: needs.extra.insert ("cast"); break;
            case CALL:
            {
                auto it = needsIndex ().find (n->s);
                if (it != needsIndex ().end ()) needs.merge (it->second);
                if (paramFns ().count (n->s)) needs.extra.insert (n->s);
                break;
            }
            default: break;
        }
    }
    static std::string litStr (double v)
    {
        bool neg; unsigned long long num, den;
        litParts (v, neg, num, den);
        std::ostringstream s;
        // a literal that is not num / 2^k with k < 64 (e.g. 1e-9) cannot be printed exactly: emit an undefined identifier so that the
        // generated module does not compile, instead of `num / 0` (= 0 in a field, which would silently drop the term)
        if (den == 0 || (double) num / (double) den != std::fabs (v)) return "(literal_not_a_64_bit_dyadic_fraction : α)";
        if (den == 1) s << "(" << num << " : α)";
        else s << "((" << num << " : α) / (" << den << " : α))";
        return neg ? "(-" + s.str () + ")" : s.str ();
    }
    static std::string extraArgs (const Needs& nd)
    {
        std::string s;
        for (auto* e : EXTRA_ORDER) if (nd.extra.count (e)) s += std::string (" ") + e;
        for (auto& pf : paramFns ()) if (nd.extra.count (pf.first)) s += " " + pf.first;
        return s;
    }
    std::string callStr (const Node* n)
    {
        // CALL: args are flattened leaves; rebuild per callee's params
        auto it = fnIndex ().find (n->s);
        std::string s = "(" + n->s;
        auto ni = needsIndex ().find (n->s);
        if (ni != needsIndex ().end ()) s += extraArgs (ni->second);
        size_t i = 0;
        if (it != fnIndex ().end ())
        {
            for (auto& p : it->second->params)
            {
                if (!p.shape) { s += " " + expr (n->k[i++]); continue; }
                std::vector<std::string> comps;
                for (size_t j = 0; j < p.vars.size (); ++j) comps.push_back (expr (n->k[i++]));
                size_t ci = 0;
                s += " " + p.shape->ctor (comps, ci);
            }
        }
        else for (auto* k : n->k) s += " " + expr (k);
        return s + ")";
    }
    std::string raw (const Node* n)
    {
        auto b = [&] (const char* op) { return "(" + expr (n->k[0]) + " " + op + " " + expr (n->k[1]) + ")"; };
        auto f1 = [&] (const char* f) { return std::string ("(") + f + " " + expr (n->k[0]) + ")"; };
        auto f2 = [&] (const char* f) { return std::string ("(") + f + " " + expr (n->k[0]) + " " + expr (n->k[1]) + ")"; };
        switch (n->op)
        {
            case VAR: return n->s;
            case LIT: return litStr (n->lit);
            case ADD: return b ("+");
            case SUB: return b ("-");
            case MUL: return b ("*");
            case DIV: return b ("/");
            case NEG: return "(-" + expr (n->k[0]) + ")";
            case ABS: return f1 ("sabs");
            case MIN: return f2 ("smin");
            case MAX: return f2 ("smax");
            case ABSDIFF: return f2 ("sabsdiff");
            case CLAMP: return "(sclamp " + expr (n->k[0]) + " " + expr (n->k[1]) + " " + expr (n->k[2]) + ")";
            case SQRT: return f1 ("sqrt");
            case SIN: return f1 ("sin");
            case COS: return f1 ("cos");
            case TAN: return f1 ("tan");
            case ACOS: return f1 ("acos");
            case ASIN: return f1 ("asin");
            case ATAN: return f1 ("atan");
            case EXP: return f1 ("exp");
            case LOG: return f1 ("log");
            case ATAN2: return f2 ("atan2");
            case POW: return f2 ("pow");
            case TMIN: return "tmin";
            case TMAX: return "tmax";
            case TEPS: return "teps";
            case TLOWEST: return "tlowest";
            case CALL: return callStr (n);
            case PROJ: return "(" + expr (n->k[0]) + ")." + n->s;
            case CAST: return f1 ("cast");
        }
        return "?";
    }
    std::string expr (const Node* n)
    {
        if (letted.count (n)) return "t" + std::to_string (n->id);
        return raw (n);
    }
    static bool atomic (const Node* n)
    {
        return n->op == VAR || n->op == LIT || n->op == TMIN || n->op == TMAX || n->op == TEPS || n->op == TLOWEST;
    }
    std::string condStr (const Cond& c)
    {
        const char* op = c.kind == C_LT ? "<" : c.kind == C_LE ? "≤" : "=";
        return expr (c.a) + " " + op + " " + expr (c.b);
    }
    std::string leafStr (const Leaf& l)
    {
        if (l.thrown) return ".error Exc." + l.exc;
        std::vector<std::string> items;
        size_t                   vi = 0, ii = 0, si = 0;
        for (auto& o : r->outs)
        {
            if (o.kind == OutItem::STR) { items.push_back (segsStr (l.strs[si++])); continue; }
            if (o.kind == OutItem::AGG)
            {
                std::vector<std::string> comps;
                for (int j = 0; j < o.n; ++j) comps.push_back (expr (l.vals[vi++]));
                size_t ci = 0;
                items.push_back (o.shape->ctor (comps, ci));
            }
            else if (o.kind == OutItem::SCALAR) items.push_back (expr (l.vals[vi++]));
            else if (o.kind == OutItem::BOOL) items.push_back (l.ints[ii++] ? "true" : "false");
            else items.push_back ("(" + std::to_string (l.ints[ii++]) + " : Int)");
        }
        std::string s;
        if (items.size () == 1) s = items[0];
        else { s = "("; for (size_t i = 0; i < items.size (); ++i) s += (i ? ", " : "") + items[i]; s += ")"; }
        return r->throws ? ".ok (" + s + ")" : s;
    }
    // flattened index of an input variable node (position among all parameter leaves)
    long varIndex (int nodeId)
    {
        long k = 0;
        for (auto& p : r->params) for (auto* v : p.vars) { if (v && v->id == nodeId) return k; ++k; }
        return 1000000 + nodeId; // not a plain input slot
    }
    std::string segsStr (const std::string& text)
    {
        std::string s = "[";
        bool first = true;
        for (auto& t : parseText (text))
        {
            if (!first) s += ", ";
            first = false;
            if (t.tok) s += "Seg.tok " + std::to_string (varIndex (t.node)) + " " + std::to_string (t.w) + " " + std::to_string (t.flags) + " " + std::to_string (t.prec);
            else
            {
                s += "Seg.lit [";
                bool f2 = true;
                for (char ch : t.lit)
                {
                    if (!f2) s += ", ";
                    f2 = false;
                    if (ch == '\n') s += "'\\n'"; else if (ch == '\'') s += "'\\''"; else if (ch == '\\') s += "'\\\\'";
                    else if (ch == '\t') s += "'\\t'"; else { s += "'"; s += ch; s += "'"; }
                }
                s += "]";
            }
        }
        return s + "]";
    }
    std::string retType ()
    {
        std::vector<std::string> items;
        for (auto& o : r->outs)
            items.push_back (o.kind == OutItem::STR ? "(List Seg)" : o.kind == OutItem::AGG ? "(" + o.shape->lean + " α)" : o.kind == OutItem::SCALAR ? "α" : o.kind == OutItem::BOOL ? "Bool" : "Int");
        std::string s;
        if (items.empty ()) s = "Unit";
        else { for (size_t i = 0; i < items.size (); ++i) s += (i ? " × " : "") + items[i]; }
        if (items.size () > 1) s = "(" + s + ")";
        return r->throws ? "Except Exc " + s : s;
    }
    void tree (std::ostream& os, size_t lo, size_t hi, size_t depth, int ind)
    {
        std::string pad (ind, ' ');
        const PathRec& p0 = r->paths[lo];
        if (p0.conds.size () == depth)
        {
            os << pad << leafStr (p0.leaf) << "\n";
            return;
        }
        size_t mid = lo;
        while (mid < hi && r->paths[mid].conds.size () > depth && r->paths[mid].conds[depth].second) ++mid;
        os << pad << "if " << condStr (p0.conds[depth].first) << " then\n";
        if (mid > lo) tree (os, lo, mid, depth + 1, ind + 2);
        else os << pad << "  " << "sorry_unreachable\n";
        os << pad << "else\n";
        if (hi > mid) tree (os, mid, hi, depth + 1, ind + 2);
        else os << pad << "  " << "sorry_unreachable\n";
    }
    std::string emit (const FnRecord* rec)
    {
        r = rec;
        refs.clear (); letted.clear (); needs = Needs ();
        std::set<const Node*> seen;
        for (auto& p : r->paths)
        {
            for (auto& c : p.conds)
            {
                countRefs (c.first.a); countRefs (c.first.b);
                collectNeeds (c.first.a, seen); collectNeeds (c.first.b, seen);
                needs.cls.insert (c.first.kind == C_LT ? "LT" : c.first.kind == C_LE ? "LE" : "DecEq");
            }
            for (auto* v : p.leaf.vals) { countRefs (v); collectNeeds (v, seen); }
        }
        needsIndex ()[r->name] = needs;
        std::vector<const Node*> lets;
        for (auto& kv : refs)
            if (kv.second >= 2 && !atomic (kv.first) && kv.first->op != PROJ) lets.push_back (kv.first);
        std::sort (lets.begin (), lets.end (), [] (const Node* a, const Node* b) { return a->id < b->id; });
        std::ostringstream os;
        os << "/-- extracted from the C++ template at T = Sym; " << r->paths.size () << " path(s)";
        if (!r->note.empty ()) os << "; " << r->note;
        os << " -/\n";
        os << "def " << r->name << " {α : Type}";
        if (needs.extra.count ("cast")) os << " {β : Type}";
        for (auto* c : {"Add", "Sub", "Mul", "Div", "Neg", "LT", "LE"})
            if (needs.cls.count (c)) os << " [" << c << " α]";
        if (needs.cls.count ("LT")) os << " [DecidableLT α]";
        if (needs.cls.count ("LE")) os << " [DecidableLE α]";
        if (needs.cls.count ("DecEq")) os << " [DecidableEq α]";
        for (long l : needs.lits) os << " [OfNat α " << l << "]";
        for (auto* e : EXTRA_ORDER)
            if (needs.extra.count (e))
                os << " (" << e << " : " << (extraIsConst (e) ? "α" : extraIsBinary (e) ? "α → α → α" : std::string (e) == "cast" ? "β → α" : "α → α") << ")";
        for (auto& pf : paramFns ())
            if (needs.extra.count (pf.first)) os << " (" << pf.first << " : " << pf.second << ")";
        for (auto& p : r->params) os << " (" << p.name << " : " << (p.shape ? p.shape->lean + " " : "") << (p.src ? "β" : "α") << ")";
        os << " : " << retType () << " :=\n";
        for (auto* n : lets)
        {
            os << "  let t" << n->id << " := " << raw (n) << "\n";
            letted.insert (n);
        }
        tree (os, 0, r->paths.size (), 0, 2);
        return os.str ();
    }
};

//-----------------------------------------------------------------------------
// evaluation of an extracted tree at a concrete scalar type (translator validation)

template <class T> std::vector<T> nativeCall (const std::string& name, const std::vector<T>& args); // main.h

// scalar-type adapters for the evaluator (Frac uses the fixed rational stubs)
template <class T> struct Sc
{
    static T lit (double v) { return T (v); }
    static T f1 (Op op, T a)
    {
        switch (op)
        {
            case SQRT: return T (std::sqrt (a)); case SIN: return T (std::sin (a)); case COS: return T (std::cos (a));
            case TAN: return T (std::tan (a)); case ACOS: return T (std::acos (a)); case ASIN: return T (std::asin (a));
            case ATAN: return T (std::atan (a)); case EXP: return T (std::exp (a)); default: return T (std::log (a));
        }
    }
    static T f2 (Op op, T a, T b) { return op == ATAN2 ? T (std::atan2 (a, b)) : T (std::pow (a, b)); }
    static T tmin () { return std::numeric_limits<T>::min (); }
    static T tmax () { return std::numeric_limits<T>::max (); }
    static T teps () { return std::numeric_limits<T>::epsilon (); }
    static T tlowest () { return std::numeric_limits<T>::lowest (); }
    static T cast (T a) { return a; } // single-typed evaluation: source type = T
};
template <> struct Sc<Frac>
{
    static Frac lit (double v) { return Frac (v); }
    static Frac f1 (Op op, Frac a) { return stub1 ((int) op - (int) SQRT, a); }
    static Frac f2 (Op op, Frac a, Frac b) { return stub2 (op == ATAN2 ? 0 : 1, a, b); }
    static Frac tmin () { return Frac (1, 1024); }
    static Frac tmax () { return Frac (1048576, 1); }
    static Frac teps () { return Frac (1, 64); }
    static Frac tlowest () { return Frac (-1048576, 1); }
    static Frac cast (Frac a) { return stub1 ((int) CAST - (int) SQRT, a); } // a fixed rational stub, like the library functions
};

template <class T> struct Evaluator
{
    std::map<const Node*, T> env;
    std::map<const Node*, T> memo;
    T tmin = Sc<T>::tmin (), tmax = Sc<T>::tmax (), teps = Sc<T>::teps (), tlowest = Sc<T>::tlowest ();

    T ev (const Node* n)
    {
        auto it = memo.find (n);
        if (it != memo.end ()) return it->second;
        T v = ev1 (n);
        memo[n] = v;
        return v;
    }
    T ev1 (const Node* n)
    {
        switch (n->op)
        {
            case VAR: return env.at (n);
            case LIT: return Sc<T>::lit (n->lit);
            case ADD: return T (ev (n->k[0]) + ev (n->k[1]));
            case SUB: return T (ev (n->k[0]) - ev (n->k[1]));
            case MUL: return T (ev (n->k[0]) * ev (n->k[1]));
            case DIV: return T (ev (n->k[0]) / ev (n->k[1]));
            case NEG: return T (-ev (n->k[0]));
            case ABS: { T a = ev (n->k[0]); return (a > Sc<T>::lit (0)) ? a : T (-a); }
            case MIN: { T a = ev (n->k[0]), b = ev (n->k[1]); return (b < a) ? b : a; }
            case MAX: { T a = ev (n->k[0]), b = ev (n->k[1]); return (a < b) ? b : a; }
            case CLAMP: { T a = ev (n->k[0]), l = ev (n->k[1]), h = ev (n->k[2]); return (a < l) ? l : ((a > h) ? h : a); }
            case ABSDIFF: { T a = ev (n->k[0]), b = ev (n->k[1]); return (a > b) ? T (a - b) : T (b - a); }
            case SQRT: case SIN: case COS: case TAN: case ACOS: case ASIN: case ATAN: case EXP: case LOG:
                return Sc<T>::f1 (n->op, ev (n->k[0]));
            case ATAN2: case POW: return Sc<T>::f2 (n->op, ev (n->k[0]), ev (n->k[1]));
            case TMIN: return tmin;
            case TMAX: return tmax;
            case TEPS: return teps;
            case TLOWEST: return tlowest;
            case CAST: return Sc<T>::cast (ev (n->k[0]));
            case CALL:
            {
                std::vector<T> r = call (n);
                return r.at (0);
            }
            case PROJ:
            {
                std::vector<T> r = call (n->k[0]);
                return r.at ((size_t) n->lit);
            }
        }
        return Sc<T>::lit (0);
    }
    std::map<const Node*, std::vector<T>> callMemo;
    std::vector<T> call (const Node* n)
    {
        auto it = callMemo.find (n);
        if (it != callMemo.end ()) return it->second;
        std::vector<T> args;
        for (auto* k : n->k) args.push_back (ev (k));
        auto fi = fnIndex ().find (n->s);
        if (fi == fnIndex ().end () || fi->second->paths.empty ())
        {
            std::vector<T> r = nativeCall<T> (n->s, args);
            callMemo[n] = r;
            return r;
        }
        FnRecord* f = fi->second;
        Evaluator<T> sub;
        std::vector<T> vals; std::vector<long> ints; std::string exc;
        sub.run (*f, args, vals, ints, exc);
        callMemo[n] = vals;
        return vals;
    }
    bool cond (const Cond& c)
    {
        T a = ev (c.a), b = ev (c.b);
        return c.kind == C_LT ? a < b : c.kind == C_LE ? a <= b : a == b;
    }
    // returns false if no path matches (cannot happen for a complete tree)
    size_t leafIndex = (size_t) -1; // index (in f.paths) of the leaf selected by the last run ()
    std::vector<std::string> strs; // texts of the selected leaf, element tokens rendered with the real stream formatting
    template <class U> static void renderTok (std::ostringstream& o, const U& v) { o << v; }
    bool run (const FnRecord& f, const std::vector<T>& args, std::vector<T>& vals, std::vector<long>& ints, std::string& exc)
    {
        env.clear (); memo.clear (); callMemo.clear ();
        size_t i = 0;
        for (auto& p : f.params) for (auto* v : p.vars) env[v] = args.at (i++);
        // walk the DFS-ordered path list as a tree
        size_t lo = 0, hi = f.paths.size (), depth = 0;
        while (true)
        {
            const PathRec& p0 = f.paths[lo];
            if (p0.conds.size () == depth)
            {
                leafIndex = lo;
                exc = p0.leaf.thrown ? p0.leaf.exc : "";
                vals.clear ();
                for (auto* v : p0.leaf.vals) vals.push_back (ev (v));
                ints = p0.leaf.ints;
                strs.clear ();
                if constexpr (!std::is_same<T, Frac>::value)
                    for (auto& text : p0.leaf.strs)
                    {
                        std::string out;
                        for (auto& t : parseText (text))
                        {
                            if (!t.tok) { out += t.lit; continue; }
                            std::ostringstream o;
                            o.flags ((std::ios_base::fmtflags) t.flags);
                            o.precision (t.prec);
                            o.width (t.w);
                            renderTok (o, ev (pool ().all[t.node]));
                            out += o.str ();
                        }
                        strs.push_back (out);
                    }
                return true;
            }
            size_t mid = lo;
            while (mid < hi && f.paths[mid].conds.size () > depth && f.paths[mid].conds[depth].second) ++mid;
            bool v = cond (p0.conds[depth].first);
            if (v) { if (mid == lo) return false; hi = mid; }
            else   { if (mid == hi) return false; lo = mid; }
            ++depth;
        }
    }
};

template <class T> inline bool sameBits (T a, T b)
{
    if (a != a && b != b) return true;
    return memcmp (&a, &b, sizeof (T)) == 0;
}

} // namespace symns
