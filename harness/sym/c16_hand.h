// C16 hand models (H-route) shared by the extractor sym_c16m.cpp and the correspondence harness c16_corr.cpp.
#pragma once
#include <ImathFrustum.h>

// Frustum<T>::DepthToZ (ImathFrustum.h) up to, and excluding, `return long (0.5 * (Zp + 1) * zdiff) + zmin;`
template <class T>
inline T
c16_depthToZp (const IMATH_INTERNAL_NAMESPACE::Frustum<T>& fr, T depth)
{
    T farMinusNear = fr.farPlane () - fr.nearPlane ();
    if (fr.orthographic ())
    {
        T farPlusNear = T (2) * depth + fr.farPlane () + fr.nearPlane ();
        T Zp          = -farPlusNear / farMinusNear;
        return Zp;
    }
    else
    {
        T farTimesNear = T (2) * fr.farPlane () * fr.nearPlane ();
        T farPlusNear  = farTimesNear / depth + fr.farPlane () + fr.nearPlane ();
        T Zp           = farPlusNear / farMinusNear;
        return Zp;
    }
}

// Frustum<T>::planes (p, M).  The body computes the far-corner scale in double: `double s = _farPlane / double (_nearPlane);
// T farLeft = (T) (s * _left);` …  The transcript keeps the cast points and makes the type of `s` a template parameter S:
//   S = T      : the casts are identities — the exact-arithmetic reading, the only one a symbolic scalar can run (extracted to Lean);
//   S = double : the body as written; at T = float this is compared BITWISE with the real Frustum<float>::planes (p, M) by c16_corr.cpp
//                (at T = double both coincide and translation validation compares bitwise).
// `only` >= 0 computes just that plane.
template <class T, class S = T>
inline void
c16_planesM (const IMATH_INTERNAL_NAMESPACE::Frustum<T>& fr, IMATH_INTERNAL_NAMESPACE::Plane3<T> p[6],
             const IMATH_INTERNAL_NAMESPACE::Matrix44<T>& M, int only)
{
    using namespace IMATH_INTERNAL_NAMESPACE;
    T _left = fr.left (), _right = fr.right (), _top = fr.top (), _bottom = fr.bottom (), _nearPlane = fr.nearPlane (),
      _farPlane = fr.farPlane ();
    auto want = [only] (int i) { return only < 0 || only == i; };
    Vec3<T> a = Vec3<T> (_left, _bottom, -_nearPlane) * M;
    Vec3<T> b = Vec3<T> (_left, _top, -_nearPlane) * M;
    Vec3<T> c = Vec3<T> (_right, _top, -_nearPlane) * M;
    Vec3<T> d = Vec3<T> (_right, _bottom, -_nearPlane) * M;
    if (!fr.orthographic ())
    {
        S       s         = S (_farPlane) / S (_nearPlane);
        T       farLeft   = T (s * S (_left));
        T       farRight  = T (s * S (_right));
        T       farTop    = T (s * S (_top));
        T       farBottom = T (s * S (_bottom));
        Vec3<T> e         = Vec3<T> (farLeft, farBottom, -_farPlane) * M;
        Vec3<T> f         = Vec3<T> (farLeft, farTop, -_farPlane) * M;
        Vec3<T> g         = Vec3<T> (farRight, farTop, -_farPlane) * M;
        Vec3<T> o         = Vec3<T> (0, 0, 0) * M;
        if (want (0)) p[0].set (o, c, b);
        if (want (1)) p[1].set (o, d, c);
        if (want (2)) p[2].set (o, a, d);
        if (want (3)) p[3].set (o, b, a);
        if (want (4)) p[4].set (a, d, c);
        if (want (5)) p[5].set (e, f, g);
    }
    else
    {
        Vec3<T> e = Vec3<T> (_left, _bottom, -_farPlane) * M;
        Vec3<T> f = Vec3<T> (_left, _top, -_farPlane) * M;
        Vec3<T> g = Vec3<T> (_right, _top, -_farPlane) * M;
        Vec3<T> h = Vec3<T> (_right, _bottom, -_farPlane) * M;
        if (want (0)) p[0].set (c, g, f);
        if (want (1)) p[1].set (d, h, g);
        if (want (2)) p[2].set (a, e, h);
        if (want (3)) p[3].set (b, f, e);
        if (want (4)) p[4].set (a, d, c);
        if (want (5)) p[5].set (e, f, g);
    }
}
