// C13 extraction table: Box<Vec2>, Box<Vec3> (the hand-unrolled specialisations),
// Box<Vec4> (the GENERIC template: loops over dimensions), Interval, and the
// point/box algorithms of ImathBoxAlgo.h (clip, closestPointInBox, closestPointOnBox).
// transform/affineTransform: second extractor (ops_c13t.h) + hand model Model/BoxTransform.lean.
// EXTRACT_ALLT: translator validation at all seven element types (double, float, half, int, short, int64, unsigned char) —
// the members only compare, add, subtract and halve, so every type runs the same template (audit C13 W5); only
// `Vec3 * Matrix44` (a division by w) stays at float/double.
#define BX(V) Box<V<T>>
#define INB(V, n) auto n = c.template in<Box<V<T>>> (#n)
#define INV(V, n) auto n = c.template in<V<T>> (#n)

#define BOXOPS(M, V, id, L)                                                                                         \
    EXTRACT_ALLT (M, id##_default, L ".default", { BX (V) b; c.out (b); })                                                \
    EXTRACT_ALLT (M, id##_makeEmpty, L ".makeEmpty", { INB (V, b); b.makeEmpty (); c.out (b); })                          \
    EXTRACT_ALLT (M, id##_makeInfinite, L ".makeInfinite", { INB (V, b); b.makeInfinite (); c.out (b); })                 \
    EXTRACT_ALLT (M, id##_ofPoint, L ".ofPoint", { INV (V, p); BX (V) b (p); c.out (b); })                                \
    EXTRACT_ALLT (M, id##_ofMinMax, L ".ofMinMax", { INV (V, lo); INV (V, hi); BX (V) b (lo, hi); c.out (b); })           \
    EXTRACT_ALLT (M, id##_extendByPoint, L ".extendByPoint", { INB (V, b); INV (V, p); b.extendBy (p); c.out (b); })      \
    EXTRACT_ALLT (M, id##_extendByBox, L ".extendByBox", { INB (V, b); INB (V, o); b.extendBy (o); c.out (b); })          \
    EXTRACT_ALLT (M, id##_intersectsPoint, L ".intersectsPoint", { INB (V, b); INV (V, p); c.outB (b.intersects (p)); })  \
    EXTRACT_ALLT (M, id##_intersectsBox, L ".intersectsBox", { INB (V, b); INB (V, o); c.outB (b.intersects (o)); })      \
    EXTRACT_ALLT (M, id##_isEmpty, L ".isEmpty", { INB (V, b); c.outB (b.isEmpty ()); })                                  \
    EXTRACT_ALLT (M, id##_hasVolume, L ".hasVolume", { INB (V, b); c.outB (b.hasVolume ()); })                            \
    EXTRACT_ALLT (M, id##_isInfinite, L ".isInfinite", { INB (V, b); c.outB (b.isInfinite ()); })                         \
    EXTRACT_ALLT (M, id##_size, L ".size", { INB (V, b); c.out (b.size ()); })                                            \
    EXTRACT_ALLT (M, id##_center, L ".center", { INB (V, b); c.out (b.center ()); })                                      \
    EXTRACT_ALLT (M, id##_majorAxis, L ".majorAxis", { INB (V, b); c.outI ((long) b.majorAxis ()); })                     \
    EXTRACT_ALLT (M, id##_eq, L ".eq", { INB (V, a); INB (V, b); c.outB (a == b); })                                      \
    EXTRACT_ALLT (M, id##_ne, L ".ne", { INB (V, a); INB (V, b); c.outB (a != b); })

BOXOPS ("C13Box", Vec2, box2, "Box2")
BOXOPS ("C13Box", Vec3, box3, "Box3")
BOXOPS ("C13Box", Vec4, box4, "Box4")

#define INI(n) auto n = c.template in<Interval<T>> (#n)
EXTRACT_ALLT ("C13Interval", iv_default, "Interval.default", { Interval<T> b; c.out (b); })
EXTRACT_ALLT ("C13Interval", iv_makeEmpty, "Interval.makeEmpty", { INI (b); b.makeEmpty (); c.out (b); })
EXTRACT_ALLT ("C13Interval", iv_makeInfinite, "Interval.makeInfinite", { INI (b); b.makeInfinite (); c.out (b); })
EXTRACT_ALLT ("C13Interval", iv_ofPoint, "Interval.ofPoint", { T p = c.inS ("p"); Interval<T> b (p); c.out (b); })
EXTRACT_ALLT ("C13Interval", iv_ofMinMax, "Interval.ofMinMax", { T lo = c.inS ("lo"); T hi = c.inS ("hi"); Interval<T> b (lo, hi); c.out (b); })
EXTRACT_ALLT ("C13Interval", iv_extendByPoint, "Interval.extendByPoint", { INI (b); T p = c.inS ("p"); b.extendBy (p); c.out (b); })
EXTRACT_ALLT ("C13Interval", iv_extendByBox, "Interval.extendByBox", { INI (b); INI (o); b.extendBy (o); c.out (b); })
EXTRACT_ALLT ("C13Interval", iv_intersectsPoint, "Interval.intersectsPoint", { INI (b); T p = c.inS ("p"); c.outB (b.intersects (p)); })
EXTRACT_ALLT ("C13Interval", iv_intersectsBox, "Interval.intersectsBox", { INI (b); INI (o); c.outB (b.intersects (o)); })
EXTRACT_ALLT ("C13Interval", iv_isEmpty, "Interval.isEmpty", { INI (b); c.outB (b.isEmpty ()); })
EXTRACT_ALLT ("C13Interval", iv_hasVolume, "Interval.hasVolume", { INI (b); c.outB (b.hasVolume ()); })
EXTRACT_ALLT ("C13Interval", iv_isInfinite, "Interval.isInfinite", { INI (b); c.outB (b.isInfinite ()); })
EXTRACT_ALLT ("C13Interval", iv_size, "Interval.size", { INI (b); c.outS (b.size ()); })
// Interval<T>::center() is the SCALAR expression (max + min) / 2: for short / unsigned char the operands are promoted to int, so
// the real code does not wrap where the tree evaluated at T would (a property of C++ integer promotion, not of the template);
// translator validation of this one entry therefore runs at the five types whose arithmetic is closed (Box<Vec<short>>::center()
// goes through Vec<short>::operator+, which truncates to short, and is validated at all seven).
#define EXTRACT_CLOSED_T(module, ident, leanname, ...)                                                   \
    struct X_##ident { template <class T> static void run (symns::Ctx<T>& c) __VA_ARGS__ };            \
    static int reg_##ident = (symns::entries ().push_back (symns::Entry{module, leanname, symns::Opts (), &X_##ident::run<symns::Sym>, \
        {{"double", symns::makeTV<double> (&X_##ident::run<double>)}, {"float", symns::makeTV<float> (&X_##ident::run<float>)},  \
         {"half", symns::makeTV<half> (&X_##ident::run<half>)}, {"int", symns::makeTV<int> (&X_##ident::run<int>)},              \
         {"int64", symns::makeTV<int64_t> (&X_##ident::run<int64_t>)}}, symns::makeRun (&X_##ident::run<double>)}), 0);
EXTRACT_CLOSED_T ("C13Interval", iv_center, "Interval.center", { INI (b); c.outS (b.center ()); })
EXTRACT_ALLT ("C13Interval", iv_eq, "Interval.eq", { INI (a); INI (b); c.outB (a == b); })
EXTRACT_ALLT ("C13Interval", iv_ne, "Interval.ne", { INI (a); INI (b); c.outB (a != b); })

// ImathBoxAlgo.h
#define CLIPOPS(V, id, L)                                                                                             \
    EXTRACT_ALLT ("C13Algo", id##_clip, L ".clip", { INV (V, p); INB (V, b); c.out (clip (p, b)); })                   \
    EXTRACT_ALLT ("C13Algo", id##_closestIn, L ".closestPointInBox", { INV (V, p); INB (V, b); c.out (closestPointInBox (p, b)); })
CLIPOPS (Vec2, algo2, "Box2")
CLIPOPS (Vec3, algo3, "Box3")
CLIPOPS (Vec4, algo4, "Box4")
EXTRACT_ALLT_OPT ("C13Algo", algo3_closestOn, "Box3.closestPointOnBox", symns::Opts ().paths (5000),
             { INV (Vec3, p); INB (Vec3, b); c.out (closestPointOnBox (p, b)); })
// Vec3 * Matrix44 with homogeneous divide, as used on the eight corners by the projective path of transform()
EXTRACT ("C13Algo", algo_vecTimesM44, "BoxAlgo.vecTimesM44", { INV (Vec3, v); auto m = c.template in<Matrix44<T>> ("m"); c.out (v * m); })
