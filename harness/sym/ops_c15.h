// C15 extraction table: Line3, Plane3, Sphere3 members, ImathLineAlgo.h and
// ImathVecAlgo.h.  Vec2/3/4::length() is an opaque call of Gen `V*.length`
// (sym_leaf), so `normalize()` inside Line3::set / Plane3::set stays small.
// Out-parameters are initialised with 0 (false) so that the `false` paths are
// deterministic at every element type.
#define IN(Ty, n) auto n = c.template in<Ty<T>> (#n)
#define INL(n) auto n = c.template in<Line3<T>> (#n)
#define INP(n) auto n = c.template in<Plane3<T>> (#n)

//---------------------------------------------------------------- ImathLine.h
EXTRACT ("C15Line", l_set, "Line3.set", { IN (Vec3, p0); IN (Vec3, p1); Line3<T> l; l.set (p0, p1); c.out (l); })
EXTRACT ("C15Line", l_ctor, "Line3.ctor", { IN (Vec3, p0); IN (Vec3, p1); Line3<T> l (p0, p1); c.out (l); })
EXTRACT ("C15Line", l_eval, "Line3.eval", { INL (l); T t = c.inS ("t"); c.out (l (t)); })
EXTRACT ("C15Line", l_cpp, "Line3.closestPointToPoint", { INL (l); IN (Vec3, p); c.out (l.closestPointTo (p)); })
EXTRACT ("C15Line", l_cpl, "Line3.closestPointToLine", { INL (l1); INL (l2); c.out (l1.closestPointTo (l2)); })
EXTRACT ("C15Line", l_dp, "Line3.distanceToPoint", { INL (l); IN (Vec3, p); c.outS (l.distanceTo (p)); })
EXTRACT ("C15Line", l_dl, "Line3.distanceToLine", { INL (l1); INL (l2); c.outS (l1.distanceTo (l2)); })
// operator* (Line3, Matrix44) (ImathLine.h): the line through the images of pos and pos + dir
EXTRACT ("C15Line", l_mulM44, "Line3.mulM44", { INL (l); IN (Matrix44, m); c.out (l * m); })

//---------------------------------------------------------------- ImathLineAlgo.h
EXTRACT ("C15Algo", la_closestPoints, "LineAlgo.closestPoints", {
    INL (l1); INL (l2);
    Vec3<T> p1 (T (0)); Vec3<T> p2 (T (0));
    bool r = closestPoints (l1, l2, p1, p2);
    c.outB (r); c.out (p1); c.out (p2);
})
EXTRACT ("C15Algo", la_intersect, "LineAlgo.intersect", {
    INL (l); IN (Vec3, v0); IN (Vec3, v1); IN (Vec3, v2);
    Vec3<T> pt (T (0)); Vec3<T> bary (T (0)); bool front = false;
    bool r = intersect (l, v0, v1, v2, pt, bary, front);
    c.outB (r); c.out (pt); c.out (bary); c.outB (front);
})
EXTRACT ("C15Algo", la_closestVertex, "LineAlgo.closestVertex", { IN (Vec3, v0); IN (Vec3, v1); IN (Vec3, v2); INL (l); c.out (closestVertex (v0, v1, v2, l)); })
EXTRACT ("C15Algo", la_rotatePoint, "LineAlgo.rotatePoint", { IN (Vec3, p); INL (l); T angle = c.inS ("angle"); c.out (rotatePoint (p, l, angle)); })

//---------------------------------------------------------------- ImathVecAlgo.h
#define VECALGO(Ty, id, L)                                                                                         \
    EXTRACT ("C15Algo", id##_project, L ".project", { IN (Ty, s); IN (Ty, t); c.out (project (s, t)); })             \
    EXTRACT ("C15Algo", id##_orthogonal, L ".orthogonal", { IN (Ty, s); IN (Ty, t); c.out (orthogonal (s, t)); })    \
    EXTRACT ("C15Algo", id##_reflect, L ".reflect", { IN (Ty, s); IN (Ty, t); c.out (reflect (s, t)); })             \
    EXTRACT ("C15Algo", id##_closestVertex, L ".closestVertex", { IN (Ty, v0); IN (Ty, v1); IN (Ty, v2); IN (Ty, p); c.out (closestVertex (v0, v1, v2, p)); })
VECALGO (Vec2, va2, "VecAlgo2")
VECALGO (Vec3, va3, "VecAlgo3")
VECALGO (Vec4, va4, "VecAlgo4")

//---------------------------------------------------------------- ImathPlane.h
EXTRACT ("C15Plane", p_set3, "Plane3.setPoints", { IN (Vec3, p1); IN (Vec3, p2); IN (Vec3, p3); Plane3<T> p; p.set (p1, p2, p3); c.out (p); })
EXTRACT ("C15Plane", p_setPN, "Plane3.setPointNormal", { IN (Vec3, point); IN (Vec3, n); Plane3<T> p; p.set (point, n); c.out (p); })
EXTRACT ("C15Plane", p_setND, "Plane3.setNormalDistance", { IN (Vec3, n); T d = c.inS ("d"); Plane3<T> p; p.set (n, d); c.out (p); })
EXTRACT ("C15Plane", p_ctor3, "Plane3.ctorPoints", { IN (Vec3, p1); IN (Vec3, p2); IN (Vec3, p3); Plane3<T> p (p1, p2, p3); c.out (p); })
EXTRACT ("C15Plane", p_ctorPN, "Plane3.ctorPointNormal", { IN (Vec3, point); IN (Vec3, n); Plane3<T> p (point, n); c.out (p); })
EXTRACT ("C15Plane", p_ctorND, "Plane3.ctorNormalDistance", { IN (Vec3, n); T d = c.inS ("d"); Plane3<T> p (n, d); c.out (p); })
EXTRACT ("C15Plane", p_distanceTo, "Plane3.distanceTo", { INP (pl); IN (Vec3, p); c.outS (pl.distanceTo (p)); })
EXTRACT ("C15Plane", p_reflectPoint, "Plane3.reflectPoint", { INP (pl); IN (Vec3, p); c.out (pl.reflectPoint (p)); })
EXTRACT ("C15Plane", p_reflectVector, "Plane3.reflectVector", { INP (pl); IN (Vec3, v); c.out (pl.reflectVector (v)); })
EXTRACT ("C15Plane", p_intersect, "Plane3.intersect", { INP (pl); INL (l); Vec3<T> pt (T (0)); bool r = pl.intersect (l, pt); c.outB (r); c.out (pt); })
EXTRACT ("C15Plane", p_intersectT, "Plane3.intersectT", { INP (pl); INL (l); T t (0); bool r = pl.intersectT (l, t); c.outB (r); c.outS (t); })
// operator* (Plane3, Matrix44): extracted by sym_c15b.cpp with Plane3::set(p1,p2,p3) opaque (module C15PlaneMul)
EXTRACT ("C15Plane", p_neg, "Plane3.neg", { INP (pl); c.out (-pl); })

//---------------------------------------------------------------- ImathSphere.h
EXTRACT ("C15Sphere", s_circumscribe, "Sphere3.circumscribe", { auto b = c.template in<Box<Vec3<T>>> ("b"); Sphere3<T> s; s.circumscribe (b); c.out (s); })
EXTRACT ("C15Sphere", s_intersectT, "Sphere3.intersectT", { auto s = c.template in<Sphere3<T>> ("s"); INL (l); T t (0); bool r = s.intersectT (l, t); c.outB (r); c.outS (t); })
EXTRACT ("C15Sphere", s_intersect, "Sphere3.intersect", { auto s = c.template in<Sphere3<T>> ("s"); INL (l); Vec3<T> pt (T (0)); bool r = s.intersect (l, pt); c.outB (r); c.out (pt); })
