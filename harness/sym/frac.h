// Exact rational scalar for the Lean-side translator validation ("rattv"):
// the extracted tree is evaluated in C++ at Frac and the EMITTED LEAN TEXT is
// evaluated by Lean at Rat on the same inputs; both must print the same
// fractions.  Transcendental / limits parameters are fixed rational stubs, the
// same on both sides (they are parameters of the generated definitions).
// Conventions follow Lean's Rat: x / 0 = 0.
#pragma once
#include <stdexcept>
#include <string>
namespace symns
{
struct FracOverflow : std::runtime_error { FracOverflow () : std::runtime_error ("frac overflow") {} };
typedef __int128 I128;
inline I128 gcd128 (I128 a, I128 b) { if (a < 0) a = -a; if (b < 0) b = -b; while (b) { I128 t = a % b; a = b; b = t; } return a; }
inline I128 mulc (I128 a, I128 b) { I128 r; if (__builtin_mul_overflow (a, b, &r)) throw FracOverflow (); return r; }
inline I128 addc (I128 a, I128 b) { I128 r; if (__builtin_add_overflow (a, b, &r)) throw FracOverflow (); return r; }
struct Frac
{
    I128 n, d; // d > 0, gcd = 1
    Frac () : n (0), d (1) {}
    Frac (long v) : n (v), d (1) {}
    Frac (int v) : n (v), d (1) {}
    Frac (I128 a, I128 b)
    {
        if (b == 0) { n = 0; d = 1; return; }
        if (b < 0) { a = -a; b = -b; }
        I128 g = gcd128 (a, b);
        if (g == 0) g = 1;
        n = a / g; d = b / g;
    }
    explicit Frac (double v)
    {
        // dyadic literal
        double a = v < 0 ? -v : v; I128 den = 1; int guard = 0;
        while (a != (double) (long long) a && guard < 60) { a *= 2; den *= 2; ++guard; }
        *this = Frac ((I128) (long long) a * (v < 0 ? -1 : 1), den);
    }
    std::string str () const
    {
        auto s = [] (I128 x) { if (x == 0) return std::string ("0"); bool neg = x < 0; if (neg) x = -x; std::string r; while (x > 0) { r = char ('0' + (int) (x % 10)) + r; x /= 10; } return neg ? "-" + r : r; };
        return s (n) + "/" + s (d);
    }
};
// Reduce by common factors BEFORE multiplying (same values, far fewer 128-bit overflows: two dyadic literals such as M_PI
// with denominators 2^48 add to a denominator 2^48, not 2^96).
inline Frac operator+ (Frac a, Frac b)
{
    I128 g = gcd128 (a.d, b.d); if (g == 0) g = 1;
    I128 bd = b.d / g, ad = a.d / g;
    return Frac (addc (mulc (a.n, bd), mulc (b.n, ad)), mulc (ad, b.d));
}
inline Frac operator- (Frac a) { return Frac (-a.n, a.d); }
inline Frac operator- (Frac a, Frac b) { return a + (-b); }
inline Frac operator* (Frac a, Frac b)
{
    I128 g1 = gcd128 (a.n, b.d), g2 = gcd128 (b.n, a.d); if (g1 == 0) g1 = 1; if (g2 == 0) g2 = 1;
    return Frac (mulc (a.n / g1, b.n / g2), mulc (a.d / g2, b.d / g1));
}
inline Frac operator/ (Frac a, Frac b)
{
    if (b.n == 0) return Frac ();
    I128 g1 = gcd128 (a.n, b.n), g2 = gcd128 (a.d, b.d); if (g1 == 0) g1 = 1; if (g2 == 0) g2 = 1;
    return Frac (mulc (a.n / g1, b.d / g2), mulc (a.d / g2, b.n / g1));
}
inline bool operator< (Frac a, Frac b)
{
    I128 g = gcd128 (a.d, b.d); if (g == 0) g = 1;
    return mulc (a.n, b.d / g) < mulc (b.n, a.d / g);
}
inline bool operator> (Frac a, Frac b) { return b < a; }
inline bool operator<= (Frac a, Frac b) { return !(b < a); }
inline bool operator>= (Frac a, Frac b) { return !(a < b); }
inline bool operator== (Frac a, Frac b) { return a.n == b.n && a.d == b.d; }
inline bool operator!= (Frac a, Frac b) { return !(a == b); }
// fixed rational stubs; MUST match tools/troute.py (lean_tv)
inline Frac stub1 (int which, Frac x)
{
    static const int num[] = {1, 2, 3, 5, 7, 11, 13, 17, 19};
    return x * Frac (num[which % 9], which + 2) + Frac (which + 1, 3);
}
inline Frac stub2 (int which, Frac x, Frac y) { return x * Frac (2 + which, 3) - y * Frac (1, 2 + which) + Frac (1 + which, 5); }
} // namespace symns
