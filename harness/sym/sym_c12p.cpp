// C12 extractor, third translation unit (module C12P): procrustesRotationAndTranslation at N = 3 points (audit S7).
//
// The function (ImathMatrixAlgo.cpp 73-269) is a template in the POINT type T but does all its arithmetic in `double`
// (`V3d`, `M33d`, `M44d`, `double`, a Kahan summation class), so instantiating it at T = Sym does not make it symbolic.  Here
// the SOURCE FILE ImathMatrixAlgo.cpp is #included with the tokens `double`, `V3d`, `M33d`, `M44d` re-defined to the symbolic
// scalar and its aggregates for the duration of the #include: the text that is compiled is the file itself, every arithmetic
// operation of it runs on Sym.  The template so obtained returns Matrix44<Sym>; it is a different template from the one
// declared in ImathMatrixAlgo.h (return type Matrix44<double>), which is linked from the separately compiled, unmodified
// ImathMatrixAlgo.cpp and is what translator validation calls at double.
// `jacobiSVD (C, U, S, V, eps, true)` becomes three UNINTERPRETED function parameters `svdU svdV : M33 α → M33 α`, `svdS : M33 α → V3 α`
// of the emitted definitions (the theorems hold for every solver with the stated properties; the solver's building blocks are the
// hand model Model/Jacobi.lean); translator validation evaluates them with the real jacobiSVD.
#include <math.h>
#include "sym.h"
#include "shapes.h"
#include "main.h"
#include <ImathMatrixAlgo.h>
#include <ImathEuler.h>
#include <algorithm>
#include <cmath>
#include <limits>

IMATH_INTERNAL_NAMESPACE_SOURCE_ENTER
template <>
void
jacobiSVD (
    const Matrix33<symns::Sym>& A, Matrix33<symns::Sym>& U, Vec3<symns::Sym>& S, Matrix33<symns::Sym>& V, const symns::Sym tol,
    const bool forcePositiveDeterminant)
{
    if (!forcePositiveDeterminant) { fprintf (stderr, "sym_c12p: jacobiSVD called without forcePositiveDeterminant\n"); abort (); }
    U = symns::opaqueA<Matrix33<symns::Sym>> ("svdU", A);
    S = symns::opaqueA<Vec3<symns::Sym>> ("svdS", A);
    V = symns::opaqueA<Matrix33<symns::Sym>> ("svdV", A);
}
IMATH_INTERNAL_NAMESPACE_SOURCE_EXIT

// renamed for the duration of the #include: the symbolic template must not collide with the real one declared in the header, nor
// the constants defined by the file with those of the real object file
#define procrustesRotationAndTranslation procrustesSym
#define identity22f identity22fSym
#define identity33f identity33fSym
#define identity44f identity44fSym
#define identity22d identity22dSym
#define identity33d identity33dSym
#define identity44d identity44dSym
#define double symns::Sym
#define V3d Vec3<symns::Sym>
#define M33d Matrix33<symns::Sym>
#define M44d Matrix44<symns::Sym>
#include <ImathMatrixAlgo.cpp>
#undef procrustesRotationAndTranslation
#undef identity22f
#undef identity33f
#undef identity44f
#undef identity22d
#undef identity33d
#undef identity44d
#undef double
#undef V3d
#undef M33d
#undef M44d

template <int what> static std::vector<double> nativeSVD (const std::vector<double>& a)
{
    using namespace IMATH_INTERNAL_NAMESPACE;
    Matrix33<double> A, U, V; Vec3<double> S;
    for (int i = 0; i < 3; ++i) for (int j = 0; j < 3; ++j) A[i][j] = a[3 * i + j];
    jacobiSVD (A, U, S, V, std::numeric_limits<double>::epsilon (), true);
    std::vector<double> o;
    if (what == 0) for (int i = 0; i < 3; ++i) for (int j = 0; j < 3; ++j) o.push_back (U[i][j]);
    if (what == 1) for (int i = 0; i < 3; ++i) o.push_back (S[i]);
    if (what == 2) for (int i = 0; i < 3; ++i) for (int j = 0; j < 3; ++j) o.push_back (V[i][j]);
    return o;
}
static std::vector<float> noFloat (const std::vector<float>&) { abort (); }
static int native_svdU = (symns::natives ()["svdU"] = symns::Native{&nativeSVD<0>, &noFloat}, 0);
static int native_svdS = (symns::natives ()["svdS"] = symns::Native{&nativeSVD<1>, &noFloat}, 0);
static int native_svdV = (symns::natives ()["svdV"] = symns::Native{&nativeSVD<2>, &noFloat}, 0);

namespace symns
{
static int regSvdParams = [] {
    const char* names[3] = {"svdU", "svdS", "svdV"};
    const char* types[3] = {"M33 α → M33 α", "M33 α → V3 α", "M33 α → M33 α"};
    for (int i = 0; i < 3; ++i)
    {
        FnRecord* r = new FnRecord;
        r->name   = names[i];
        r->status = "param";
        Param pr{"c", shMat (3), {}};
        for (int j = 0; j < 9; ++j) pr.vars.push_back (nullptr);
        r->params.push_back (pr);
        fnIndex ()[names[i]]  = r;
        paramFns ()[names[i]] = types[i];
    }
    return 0;
}();
} // namespace symns

using namespace IMATH_INTERNAL_NAMESPACE;
// select the symbolic template (returns Matrix44<Sym>) at T = Sym and the real one (returns Matrix44<double>) at T = double
template <class T> struct Proc;
template <> struct Proc<symns::Sym>
{
    typedef symns::Sym S;
    static Matrix44<S> w (const Vec3<S>* A, const Vec3<S>* B, const S* wt, size_t n, bool sc) { return procrustesSym (A, B, wt, n, sc); }
    static Matrix44<S> u (const Vec3<S>* A, const Vec3<S>* B, size_t n, bool sc) { return procrustesSym (A, B, n, sc); }
};
template <> struct Proc<double>
{
    typedef double S;
    static Matrix44<S> w (const Vec3<S>* A, const Vec3<S>* B, const S* wt, size_t n, bool sc) { return procrustesRotationAndTranslation (A, B, wt, n, sc); }
    static Matrix44<S> u (const Vec3<S>* A, const Vec3<S>* B, size_t n, bool sc) { return procrustesRotationAndTranslation (A, B, n, sc); }
};
#include "ops_c12p.h"
int main (int argc, char** argv) { return symns::sym_main (argc, argv); }
