// C16 extractor, H-route part: the hand transcript of Frustum::planes (p, M) and of DepthToZ's real-valued core
// (module C16PlanesM).  See ops_c16m.h for why these are hand models and how they are tied to the real code.
#include <math.h>
#include "sym.h"
#include "c10frac.h" // FracS: Vec::length at exact fractions so that lean_tv covers the entries calling it
#include "shapes.h"
#include "main.h"
#include <ImathFrustum.h>
#include "c16_hand.h"
OPAQUE_LENGTH (Vec3, "V3", 3)
static int c16_only = -1;
IMATH_INTERNAL_NAMESPACE_HEADER_ENTER
// the real body cannot be instantiated at Sym (`double (_nearPlane)`): at T = Sym, and only there, use the transcript
template <>
inline void
Frustum<symns::Sym>::planes (Plane3<symns::Sym> p[6], const Matrix44<symns::Sym>& M) const IMATH_NOEXCEPT
{
    c16_planesM (*this, p, M, c16_only);
}
IMATH_INTERNAL_NAMESPACE_HEADER_EXIT
using namespace IMATH_INTERNAL_NAMESPACE;
#include "ops_c16m.h"
int main (int argc, char** argv) { return symns::sym_main (argc, argv); }
