// C09 extractor: transform builders and frame builders (modules C09Mat, C09Frame).
// <math.h> first: its global `using std::sin;` … declarations must not see sym.h's std::sin(Sym) overloads, otherwise the
// unqualified calls `sin (r)`, `fabs (x)` of ImathMatrix.h / ImathFrame.h are ambiguous with the ADL candidates symns::sin.
#include <math.h>
#include "sym.h"
// firstFrame() is declared IMATH_NOEXCEPT but calls normalizeExc(): when pi == pj the real build calls
// std::terminate instead of throwing the documented std::domain_error.  In THIS translation unit noexcept is
// switched off so that path can be enumerated (it appears as `.error Exc.domainError` in Gen.Frame.firstFrame);
// nothing else depends on noexcept.
#undef IMATH_NOEXCEPT
#define IMATH_NOEXCEPT
namespace symns
{
// nextFrame calls the C function acosf for every T
inline Sym acosf (Sym a) { return un (ACOS, a); }
}
#include "shapes.h"
#include "main.h"
#include <ImathMatrixAlgo.h>
#include <ImathFrame.h>
OPAQUE_LENGTH (Vec3, "V3", 3)
using namespace IMATH_INTERNAL_NAMESPACE;
#include "ops_c09.h"
int main (int argc, char** argv) { return symns::sym_main (argc, argv); }
