// C09 extractor: transform builders and frame builders (modules C09Mat, C09Frame).
// <math.h> first: its global `using std::sin;` … declarations must not see sym.h's std::sin(Sym) overloads, otherwise the
// unqualified calls `sin (r)`, `fabs (x)` of ImathMatrix.h / ImathFrame.h are ambiguous with the ADL candidates symns::sin.
#include <math.h>
#include "sym.h"
#include "c10frac.h" // FracS: Vec3::length at exact fractions so that lean_tv covers the entries calling it
// NB: IMATH_NOEXCEPT is NOT overridden here (it was, while firstFrame() was declared noexcept although it calls normalizeExc(); fixed in
// /repo by 24cea33): the extractor sees the headers as shipped.  firstFrame's pi == pj path is the `.error Exc.domainError` leaf of
// Gen.Frame.firstFrame; harness/corr/c09_noexcept.cpp observes on the shipped build that this exception really reaches the caller.
// Should a throwing call ever sit under `noexcept` again, the extractor itself terminates on that path (build/emit VIOLATION) and the
// noexcept harness reports the input.
#include "shapes.h"
#include "main.h"
#include <ImathMatrixAlgo.h>
#include <ImathFrame.h>
OPAQUE_LENGTH (Vec3, "V3", 3)
using namespace IMATH_INTERNAL_NAMESPACE;
#include "ops_c09.h"
int main (int argc, char** argv) { return symns::sym_main (argc, argv); }
