// C11 extractor: Euler<T> in all 24 orders, extractEuler*, setEulerAngles (see ops_c11.h).
// <math.h> first: its global `using std::sin;` declarations must not see sym.h's std::sin(Sym) overloads (unqualified `cos (r)` in ImathMatrix.h)
#include <math.h>
#include "sym.h"
#include "shapes.h"
#include "main.h"
#include <ImathMatrixAlgo.h>
#include <ImathEuler.h>
OPAQUE_LENGTH (Vec2, "V2", 2)
OPAQUE_LENGTH (Vec3, "V3", 3)

// Euler<T>::angleMod calls fmod and returns `float` for every T, which a symbolic scalar cannot
// provide.  It is made an uninterpreted PARAMETER `angleMod : α → α` of the emitted definitions of
// simpleXYZRotation / nearestRotation / makeNear (the theorems about them hold for every function
// with the stated properties); its body is modelled by hand (Model/EulerOrder.lean, H-route) and
// tied to the real code by the driver correspondence of tools/props/c11.py.  The float return value
// of the T = Sym specialisation is a token that Sym (float) maps back to the call node (sym.h).
IMATH_INTERNAL_NAMESPACE_HEADER_ENTER
template <> inline float Euler<symns::Sym>::angleMod (symns::Sym angle) IMATH_NOEXCEPT
{
    return symns::floatToken (symns::opaqueS ("angleMod", angle).n);
}
IMATH_INTERNAL_NAMESPACE_HEADER_EXIT

namespace symns
{
static int regAngleMod = [] {
    FnRecord* r = new FnRecord;
    r->name   = "angleMod";
    r->status = "param";
    r->params.push_back (Param{"angle", nullptr, std::vector<const Node*> (1, nullptr)});
    fnIndex ()["angleMod"]  = r;
    paramFns ()["angleMod"] = "α → α";
    natives ()["angleMod"]  = Native{
        [] (const std::vector<double>& a) { return std::vector<double>{(double) IMATH_INTERNAL_NAMESPACE::Euler<double>::angleMod (a[0])}; },
        [] (const std::vector<float>& a) { return std::vector<float>{IMATH_INTERNAL_NAMESPACE::Euler<float>::angleMod (a[0])}; },
        // Lean-side validation of the emitted text (rattv): a fixed rational stand-in for the PARAMETER `angleMod`, the same
        // function as `ANGLEMOD_STUB` in tools/props/c11.py (not odd, not linear-through-0: a wrong argument or sign at a call
        // site changes the result)
        [] (const std::vector<Frac>& a) { return std::vector<Frac>{a[0] * Frac (3, 7) + Frac (1, 5)}; }};
    return 0;
}();
} // namespace symns

using namespace IMATH_INTERNAL_NAMESPACE;
#include "ops_c11.h"
int main (int argc, char** argv) { return symns::sym_main (argc, argv); }
