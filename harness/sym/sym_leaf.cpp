#include "sym.h"
#include "shapes.h"
using namespace IMATH_INTERNAL_NAMESPACE;
#include "main.h"
#include "ops_leaf.h"
int main (int argc, char** argv) { return symns::sym_main (argc, argv); }
