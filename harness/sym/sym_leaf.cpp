#include "sym.h"
#include "shapes.h"
using namespace IMATH_INTERNAL_NAMESPACE;
#include "main.h"
#include "ops_leaf.h"
#include "c08_modes.h" // extra modes ratwit / rateval / ratargs / ratwith used by tools/props/c08.py; every other mode is sym_main's
C08_REG (v2_length, "V2.length")
C08_REG (v3_length, "V3.length")
C08_REG (v4_length, "V4.length")
int main (int argc, char** argv)
{
    int rc = c08modes::extra_main (argc, argv);
    return rc >= 0 ? rc : symns::sym_main (argc, argv);
}
