// C16 extraction table: what the Frustum / FrustumTest methods COMPUTE.  The `…Exc` spellings are NOT extracted here: C07 proves that each
// pair agrees wherever the Exc copy does not throw, so what an Exc body computes is known only through C07's pair theorem plus C16's theorem
// about the non-Exc body (ZToDepthExc / DepthToZExc: C07 compares them at three literal triples and by sampling).
// A Frustum<T> is built inside each entry from six scalars with the constructor and a CONCRETE orthographic flag:
// the perspective and orthographic formulas are separate textual copies, so every method is extracted for both flags
// (`…_persp`, `…_ortho`).
#define IN(Ty, n) auto n = c.template in<Ty<T>> (#n)
#define FRUSTUM_IN(ORTHO)                                                                               \
    T n = c.inS ("n"); T f = c.inS ("f"); T l = c.inS ("l"); T r = c.inS ("r"); T t = c.inS ("t"); T b = c.inS ("b"); \
    C16Fr<T> fr (n, f, l, r, t, b, ORTHO);
#define FRUSTUM_OUT(F)                                                                                  \
    c.outS ((F).nearPlane ()); c.outS ((F).farPlane ()); c.outS ((F).left ()); c.outS ((F).right ()); c.outS ((F).top ()); \
    c.outS ((F).bottom ()); c.outB ((F).orthographic ());

// exposes the protected screenToLocal / localToScreen
template <class T> struct C16Fr : Frustum<T>
{
    C16Fr (T n, T f, T l, T r, T t, T b, bool o) : Frustum<T> (n, f, l, r, t, b, o) {}
    using Frustum<T>::screenToLocal;
    using Frustum<T>::localToScreen;
};
// exposes the protected transposed plane storage of FrustumTest
template <class T> struct C16Ft : FrustumTest<T>
{
    C16Ft () : FrustumTest<T> () {}
    C16Ft (const Frustum<T>& fr, const Matrix44<T>& M) : FrustumTest<T> (fr, M) {}
    using FrustumTest<T>::planeNormX;
    using FrustumTest<T>::planeNormY;
    using FrustumTest<T>::planeNormZ;
    using FrustumTest<T>::planeOffsetVec;
    using FrustumTest<T>::planeNormAbsX;
    using FrustumTest<T>::planeNormAbsY;
    using FrustumTest<T>::planeNormAbsZ;
};

#define BOTH(MAC) MAC (persp, false) MAC (ortho, true)

// ---------------------------------------------------------------- constructor / set / accessors
#define E_CTOR(k, O) EXTRACT ("C16Frustum", ctor_##k, "Frustum.ctor_" #k, { FRUSTUM_IN (O); FRUSTUM_OUT (fr); })
BOTH (E_CTOR)
#define E_SET(k, O)                                                                                     \
    EXTRACT ("C16Frustum", set_##k, "Frustum.set_" #k, {                                                \
        FRUSTUM_IN (!(O)); T n2 = c.inS ("n2"); T f2 = c.inS ("f2"); T l2 = c.inS ("l2"); T r2 = c.inS ("r2"); T t2 = c.inS ("t2"); \
        T b2 = c.inS ("b2"); fr.set (n2, f2, l2, r2, t2, b2, O); FRUSTUM_OUT (fr); })
BOTH (E_SET)
#define E_DEGEN(k, O) EXTRACT ("C16Frustum", degenerate_##k, "Frustum.degenerate_" #k, { FRUSTUM_IN (O); c.outB (fr.degenerate ()); })
BOTH (E_DEGEN)
// set (nearPlane, farPlane, fovx, fovy, aspect): the previous state (both flags) is overwritten
#define E_SETFOV(k, O)                                                                                  \
    EXTRACT ("C16Frustum", setFov_##k, "Frustum.setFov_" #k, {                                          \
        FRUSTUM_IN (O); T nearPlane = c.inS ("nearPlane"); T farPlane = c.inS ("farPlane"); T fovx = c.inS ("fovx");     \
        T fovy = c.inS ("fovy"); T aspect = c.inS ("aspect"); fr.set (nearPlane, farPlane, fovx, fovy, aspect); FRUSTUM_OUT (fr); })
BOTH (E_SETFOV)
EXTRACT ("C16Frustum", ctorFov, "Frustum.ctorFov", {
    T nearPlane = c.inS ("nearPlane"); T farPlane = c.inS ("farPlane"); T fovx = c.inS ("fovx"); T fovy = c.inS ("fovy");
    T aspect = c.inS ("aspect"); Frustum<T> fr (nearPlane, farPlane, fovx, fovy, aspect); FRUSTUM_OUT (fr); })
#define E_FOV(k, O)                                                                                     \
    EXTRACT ("C16Frustum", fovx_##k, "Frustum.fovx_" #k, { FRUSTUM_IN (O); c.outS (fr.fovx ()); })        \
    EXTRACT ("C16Frustum", fovy_##k, "Frustum.fovy_" #k, { FRUSTUM_IN (O); c.outS (fr.fovy ()); })        \
    EXTRACT ("C16Frustum", aspect_##k, "Frustum.aspect_" #k, { FRUSTUM_IN (O); c.outS (fr.aspect ()); })
BOTH (E_FOV)
#define E_MODNF(k, O)                                                                                   \
    EXTRACT ("C16Frustum", modifyNearAndFar_##k, "Frustum.modifyNearAndFar_" #k, {                       \
        FRUSTUM_IN (O); T n2 = c.inS ("n2"); T f2 = c.inS ("f2"); fr.modifyNearAndFar (n2, f2); FRUSTUM_OUT (fr); })
BOTH (E_MODNF)
#define E_SETORTHO(k, O)                                                                                \
    EXTRACT ("C16Frustum", setOrthographic_##k, "Frustum.setOrthographic_" #k, { FRUSTUM_IN (!(O)); fr.setOrthographic (O); FRUSTUM_OUT (fr); })
BOTH (E_SETORTHO)
#define E_WINDOW(k, O)                                                                                  \
    EXTRACT ("C16Frustum", window_##k, "Frustum.window_" #k, {                                          \
        FRUSTUM_IN (O); T wl = c.inS ("wl"); T wr = c.inS ("wr"); T wt = c.inS ("wt"); T wb = c.inS ("wb");              \
        Frustum<T> w = fr.window (wl, wr, wt, wb); FRUSTUM_OUT (w); })
BOTH (E_WINDOW)

// ---------------------------------------------------------------- members no clause names, but which live in the anchored files:
// operator= (seven unrolled field copies), the copy constructor (= operator=), the default constructor (constants 0.1, 1000, -+1),
// operator== / != (seven-way && chain), hither () / yon ()
#define E_COPY(k, O)                                                                                    \
    EXTRACT ("C16Frustum", assign_##k, "Frustum.assign_" #k, {                                          \
        FRUSTUM_IN (O); Frustum<T> g (T (9), T (8), T (7), T (6), T (5), T (4), !(O)); g = fr; FRUSTUM_OUT (g); })                 \
    EXTRACT ("C16Frustum", copyCtor_##k, "Frustum.copyCtor_" #k, { FRUSTUM_IN (O); const Frustum<T>& src = fr; Frustum<T> g (src); FRUSTUM_OUT (g); }) \
    EXTRACT ("C16Frustum", hitherYon_##k, "Frustum.hitherYon_" #k, { FRUSTUM_IN (O); c.outS (fr.hither ()); c.outS (fr.yon ()); })
BOTH (E_COPY)
EXTRACT ("C16Frustum", defaultCtor, "Frustum.defaultCtor", { Frustum<T> g; FRUSTUM_OUT (g); })
#define FRUSTUM_IN2(ORTHO)                                                                              \
    T n2 = c.inS ("n2"); T f2 = c.inS ("f2"); T l2 = c.inS ("l2"); T r2 = c.inS ("r2"); T t2 = c.inS ("t2"); T b2 = c.inS ("b2"); \
    Frustum<T> fr2 (n2, f2, l2, r2, t2, b2, ORTHO);
#define E_EQ(id, O1, O2)                                                                                \
    EXTRACT ("C16Frustum", eq_##id, "Frustum.eq_" #id, { FRUSTUM_IN (O1); FRUSTUM_IN2 (O2); c.outB (fr == fr2); c.outB (fr != fr2); })
E_EQ (persp_persp, false, false) E_EQ (ortho_ortho, true, true) E_EQ (persp_ortho, false, true) E_EQ (ortho_persp, true, false)

// ---------------------------------------------------------------- ZToDepth at concrete integer arguments (T (long) is a literal):
// in range, zmax + 1 (NOT wrapped), zmax + 2 (wrapped), negative zmin, and the 32-bit z-buffer range [0, 2^32 - 1]
#define E_ZTD(k, O)                                                                                     \
    EXTRACT ("C16Frustum", ztd_5_0_10_##k, "Frustum.ZToDepth_" #k "_5_0_10", { FRUSTUM_IN (O); c.outS (fr.ZToDepth (5, 0, 10)); })          \
    EXTRACT ("C16Frustum", ztd_11_0_10_##k, "Frustum.ZToDepth_" #k "_11_0_10", { FRUSTUM_IN (O); c.outS (fr.ZToDepth (11, 0, 10)); })       \
    EXTRACT ("C16Frustum", ztd_12_0_10_##k, "Frustum.ZToDepth_" #k "_12_0_10", { FRUSTUM_IN (O); c.outS (fr.ZToDepth (12, 0, 10)); })       \
    EXTRACT ("C16Frustum", ztd_m3_m10_10_##k, "Frustum.ZToDepth_" #k "_m3_m10_10", { FRUSTUM_IN (O); c.outS (fr.ZToDepth (-3, -10, 10)); }) \
    EXTRACT ("C16Frustum", ztd_w32_##k, "Frustum.ZToDepth_" #k "_w32", { FRUSTUM_IN (O); c.outS (fr.ZToDepth (4294967295L, 0, 4294967295L)); })
BOTH (E_ZTD)

// ---------------------------------------------------------------- DepthToZ: the real body with `long (x)` observable (sym_c16.cpp).
// Outputs: x = 0.5 * (Zp + 1) * zdiff as computed by the REAL body, the integer (result - long (x)) (= zmin), the number of casts,
// and (TV only; 0 at Sym) the difference to Frustum<double>::DepthToZ on the same input.
// TV at double only (at float the real body mixes float and double; c16_corr compares DepthToZ itself at both types).
#define EXTRACT_D(module, ident, leanname, ...)                                                        \
    struct X_##ident { template <class T> static void run (symns::Ctx<T>& c) __VA_ARGS__ };              \
    static int reg_##ident = (symns::entries ().push_back (symns::Entry{module, leanname, symns::Opts (), &X_##ident::run<symns::Sym>, \
        {{"double", symns::makeTV<double> (&X_##ident::run<double>)}}, symns::makeRun (&X_##ident::run<double>)}), 0);
#define E_DTZ(k, O)                                                                                     \
    EXTRACT_D ("C16Frustum", dtz_##k, "Frustum.DepthToZ_" #k "_3_10", {                                   \
        T n = c.inS ("n"); T f = c.inS ("f"); T l = c.inS ("l"); T r = c.inS ("r"); T t = c.inS ("t"); T b = c.inS ("b"); \
        T depth = c.inS ("depth");                                                                      \
        typedef typename C16Long<T>::S S;                                                               \
        Frustum<S> fr (S (n), S (f), S (l), S (r), S (t), S (b), O);                                     \
        C16Long<T>::reset ();                                                                           \
        long z = fr.DepthToZ (S (depth), 3, 10);                                                        \
        T    x = C16Long<T>::last ();                                                                   \
        c.outS (x); c.outI (z - C16Long<T>::trunc (x)); c.outI (C16Long<T>::count ());                 \
        c.outI (C16Long<T>::vsPlainDouble (n, f, l, r, t, b, O, depth, 3, 10, z)); })
BOTH (E_DTZ)
// … and the throwing copy DepthToZExc (separate textual copy of both branches, with the three overflow guards)
#define E_DTZE(k, O)                                                                                    \
    EXTRACT_D ("C16Frustum", dtzE_##k, "Frustum.DepthToZExc_" #k "_3_10", {                               \
        T n = c.inS ("n"); T f = c.inS ("f"); T l = c.inS ("l"); T r = c.inS ("r"); T t = c.inS ("t"); T b = c.inS ("b"); \
        T depth = c.inS ("depth");                                                                      \
        typedef typename C16Long<T>::S S;                                                               \
        Frustum<S> fr (S (n), S (f), S (l), S (r), S (t), S (b), O);                                     \
        C16Long<T>::reset ();                                                                           \
        long z = fr.DepthToZExc (S (depth), 3, 10);                                                     \
        T    x = C16Long<T>::last ();                                                                   \
        c.outS (x); c.outI (z - C16Long<T>::trunc (x)); c.outI (C16Long<T>::count ());                 \
        c.outI (C16Long<T>::vsPlainDoubleExc (n, f, l, r, t, b, O, depth, 3, 10, z)); })
BOTH (E_DTZE)

// ---------------------------------------------------------------- projection
#define E_PROJ(k, O)                                                                                    \
    EXTRACT ("C16Frustum", projectionMatrix_##k, "Frustum.projectionMatrix_" #k, { FRUSTUM_IN (O); c.out (fr.projectionMatrix ()); }) \
    EXTRACT ("C16Frustum", screenToLocal_##k, "Frustum.screenToLocal_" #k, { FRUSTUM_IN (O); IN (Vec2, s); c.out (fr.screenToLocal (s)); }) \
    EXTRACT ("C16Frustum", localToScreen_##k, "Frustum.localToScreen_" #k, { FRUSTUM_IN (O); IN (Vec2, p); c.out (fr.localToScreen (p)); }) \
    EXTRACT ("C16Frustum", projectScreenToRay_##k, "Frustum.projectScreenToRay_" #k, { FRUSTUM_IN (O); IN (Vec2, s); c.out (fr.projectScreenToRay (s)); }) \
    EXTRACT ("C16Frustum", projectPointToScreen_##k, "Frustum.projectPointToScreen_" #k, { FRUSTUM_IN (O); IN (Vec3, p); c.out (fr.projectPointToScreen (p)); }) \
    EXTRACT ("C16Frustum", normalizedZToDepth_##k, "Frustum.normalizedZToDepth_" #k, { FRUSTUM_IN (O); T zval = c.inS ("zval"); c.outS (fr.normalizedZToDepth (zval)); }) \
    EXTRACT ("C16Frustum", screenRadius_##k, "Frustum.screenRadius_" #k, { FRUSTUM_IN (O); IN (Vec3, p); T radius = c.inS ("radius"); c.outS (fr.screenRadius (p, radius)); }) \
    EXTRACT ("C16Frustum", worldRadius_##k, "Frustum.worldRadius_" #k, { FRUSTUM_IN (O); IN (Vec3, p); T radius = c.inS ("radius"); c.outS (fr.worldRadius (p, radius)); })
BOTH (E_PROJ)

// Vec3 * Matrix44 as used by the projection clauses: Props/C16.lean states them with Gen.V3.mulM44 (module Gen/C05, regenerated by the
// C05 check); this entry re-extracts the operator in THIS check and a `rfl` theorem identifies the two
EXTRACT ("C16Frustum", v3mulm44, "Frustum.V3mulM44", { IN (Vec3, v); IN (Matrix44, m); c.out (v * m); })

// ---------------------------------------------------------------- planes (p): six planes, order top,right,bottom,left,near,far
#define E_PLANES(k, O)                                                                                  \
    EXTRACT ("C16Frustum", planes_##k, "Frustum.planes_" #k, {                                          \
        FRUSTUM_IN (O); Plane3<T> p[6]; fr.planes (p); for (int i = 0; i < 6; ++i) c.out (p[i]); })
BOTH (E_PLANES)

// ---------------------------------------------------------------- FrustumTest (planes (p, M) opaque: Gen.Frustum.planesM_<kind>_<i>)
#define E_FT(k, O)                                                                                      \
    EXTRACT ("C16Test", ft_setFrustum_##k, "FrustumTest.setFrustum_" #k, {                               \
        /* `+ zero`: std::abs gives +0 for -0 while the DAG's abs node is (a > 0) ? a : -a; adding 0 makes both +0 so that TV */ \
        /* can stay bitwise (the difference is invisible in a field) */                                  \
        FRUSTUM_IN (O); IN (Matrix44, M); C16Ft<T> ft (fr, M); Vec3<T> zero (0, 0, 0);                    \
        for (int i = 0; i < 2; ++i) c.out (ft.planeNormX[i]);                                            \
        for (int i = 0; i < 2; ++i) c.out (ft.planeNormY[i]);                                            \
        for (int i = 0; i < 2; ++i) c.out (ft.planeNormZ[i]);                                            \
        for (int i = 0; i < 2; ++i) c.out (ft.planeOffsetVec[i]);                                        \
        for (int i = 0; i < 2; ++i) c.out (ft.planeNormAbsX[i] + zero);                                        \
        for (int i = 0; i < 2; ++i) c.out (ft.planeNormAbsY[i] + zero);                                        \
        for (int i = 0; i < 2; ++i) c.out (ft.planeNormAbsZ[i] + zero); })                                      \
    EXTRACT ("C16Test", ft_isVisiblePoint_##k, "FrustumTest.isVisiblePoint_" #k, {                        \
        FRUSTUM_IN (O); IN (Matrix44, M); IN (Vec3, v); FrustumTest<T> ft (fr, M); c.outB (ft.isVisible (v)); })        \
    EXTRACT ("C16Test", ft_isVisibleSphere_##k, "FrustumTest.isVisibleSphere_" #k, {                      \
        FRUSTUM_IN (O); IN (Matrix44, M); IN (Sphere3, s); FrustumTest<T> ft (fr, M); c.outB (ft.isVisible (s)); })     \
    EXTRACT ("C16Test", ft_isVisibleBox_##k, "FrustumTest.isVisibleBox_" #k, {                            \
        FRUSTUM_IN (O); IN (Matrix44, M); auto bx = c.template in<Box<Vec3<T>>> ("bx"); FrustumTest<T> ft (fr, M); c.outB (ft.isVisible (bx)); }) \
    EXTRACT ("C16Test", ft_containsSphere_##k, "FrustumTest.completelyContainsSphere_" #k, {              \
        FRUSTUM_IN (O); IN (Matrix44, M); IN (Sphere3, s); FrustumTest<T> ft (fr, M); c.outB (ft.completelyContains (s)); }) \
    EXTRACT ("C16Test", ft_containsBox_##k, "FrustumTest.completelyContainsBox_" #k, {                    \
        FRUSTUM_IN (O); IN (Matrix44, M); auto bx = c.template in<Box<Vec3<T>>> ("bx"); FrustumTest<T> ft (fr, M); c.outB (ft.completelyContains (bx)); })
BOTH (E_FT)
// the two stores at the end of setFrustum (currFrustum, cameraMatrix) through their accessors, and the default constructor
#define FT_STORAGE_OUT(ft)                                                                              \
    { Vec3<T> zero (0, 0, 0);                                                                           \
      for (int i = 0; i < 2; ++i) c.out (ft.planeNormX[i]);                                              \
      for (int i = 0; i < 2; ++i) c.out (ft.planeNormY[i]);                                              \
      for (int i = 0; i < 2; ++i) c.out (ft.planeNormZ[i]);                                              \
      for (int i = 0; i < 2; ++i) c.out (ft.planeOffsetVec[i]);                                          \
      for (int i = 0; i < 2; ++i) c.out (ft.planeNormAbsX[i] + zero);                                    \
      for (int i = 0; i < 2; ++i) c.out (ft.planeNormAbsY[i] + zero);                                    \
      for (int i = 0; i < 2; ++i) c.out (ft.planeNormAbsZ[i] + zero); }
#define E_FTSTORE(k, O)                                                                                 \
    EXTRACT ("C16Test", ft_stores_##k, "FrustumTest.stores_" #k, {                                       \
        FRUSTUM_IN (O); IN (Matrix44, M); FrustumTest<T> ft (fr, M); FRUSTUM_OUT (ft.currentFrustum ()); c.out (ft.cameraMat ()); })
BOTH (E_FTSTORE)
EXTRACT ("C16Test", ft_defaultCtor, "FrustumTest.defaultCtor", {
    C16Ft<T> ft; FRUSTUM_OUT (ft.currentFrustum ()); c.out (ft.cameraMat ()); FT_STORAGE_OUT (ft); })
