// C13 second extractor: the four transform / affineTransform overloads (module C13Transform).
// Box<Vec3<Sym>>::extendBy (point) and Vec3<Sym> * Matrix44<Sym> are opaque calls of the Gen definitions
// `Box3.extendByPoint` / `BoxAlgo.vecTimesM44` extracted by sym_c13.cpp (their real bodies are proved about there).
#include "sym.h"
#include "shapes.h"
#include "main.h"
#include <ImathBox.h>
#include <ImathMatrix.h>
IMATH_INTERNAL_NAMESPACE_HEADER_ENTER
template <> inline void Box<Vec3<symns::Sym>>::extendBy (const Vec3<symns::Sym>& point) IMATH_NOEXCEPT
{
    *this = symns::opaqueA<Box<Vec3<symns::Sym>>> ("Box3.extendByPoint", *this, point);
}
// non-template overload: preferred to `template <class S, class T> Vec3<S> operator* (const Vec3<S>&, const Matrix44<T>&)`
inline Vec3<symns::Sym> operator* (const Vec3<symns::Sym>& v, const Matrix44<symns::Sym>& m) IMATH_NOEXCEPT
{
    return symns::opaqueA<Vec3<symns::Sym>> ("BoxAlgo.vecTimesM44", v, m);
}
IMATH_INTERNAL_NAMESPACE_HEADER_EXIT
#include <ImathBoxAlgo.h>
template <class T> static std::vector<T> nativeExtendByPoint (const std::vector<T>& a)
{
    using namespace IMATH_INTERNAL_NAMESPACE;
    Box<Vec3<T>> b (Vec3<T> (a[0], a[1], a[2]), Vec3<T> (a[3], a[4], a[5]));
    b.extendBy (Vec3<T> (a[6], a[7], a[8]));
    return std::vector<T>{b.min.x, b.min.y, b.min.z, b.max.x, b.max.y, b.max.z};
}
template <class T> static std::vector<T> nativeVecTimesM44 (const std::vector<T>& a)
{
    using namespace IMATH_INTERNAL_NAMESPACE;
    Vec3<T>     v (a[0], a[1], a[2]);
    Matrix44<T> m;
    for (int i = 0; i < 4; ++i) for (int j = 0; j < 4; ++j) m[i][j] = a[3 + 4 * i + j];
    Vec3<T> r = v * m;
    return std::vector<T>{r.x, r.y, r.z};
}
static int native_c13t = (symns::natives ()["Box3.extendByPoint"] = symns::Native{&nativeExtendByPoint<double>, &nativeExtendByPoint<float>},
                          symns::natives ()["BoxAlgo.vecTimesM44"] = symns::Native{&nativeVecTimesM44<double>, &nativeVecTimesM44<float>}, 0);
// the two callees at exact fractions (rattv: validates the emitted call text incl. argument order of the projective entries)
static std::vector<symns::Frac> fracExtendByPoint (const std::vector<symns::Frac>& a)
{
    std::vector<symns::Frac> r (a.begin (), a.begin () + 6);
    for (int i = 0; i < 3; ++i) { if (a[6 + i] < r[i]) r[i] = a[6 + i]; if (r[3 + i] < a[6 + i]) r[3 + i] = a[6 + i]; }
    return r;
}
static std::vector<symns::Frac> fracVecTimesM44 (const std::vector<symns::Frac>& a)
{
    auto M = [&] (int i, int j) { return a[3 + 4 * i + j]; };
    symns::Frac w = a[0] * M (0, 3) + a[1] * M (1, 3) + a[2] * M (2, 3) + M (3, 3);
    std::vector<symns::Frac> r;
    for (int j = 0; j < 3; ++j) r.push_back ((a[0] * M (0, j) + a[1] * M (1, j) + a[2] * M (2, j) + M (3, j)) / w);
    return r;
}
static int native_c13t_q = (symns::natives ()["Box3.extendByPoint"].q = &fracExtendByPoint, symns::natives ()["BoxAlgo.vecTimesM44"].q = &fracVecTimesM44, 0);
using namespace IMATH_INTERNAL_NAMESPACE;
#include "ops_c13t.h"
int main (int argc, char** argv) { return symns::sym_main (argc, argv); }
