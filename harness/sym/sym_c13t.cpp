// C13 second extractor: the four transform / affineTransform overloads (module C13Transform).
// Box<Vec3<Sym>>::extendBy (point) and Vec3<Sym> * Matrix44<Sym> are opaque calls of the Gen definitions
// `Box3.extendByPoint` / `BoxAlgo.vecTimesM44` extracted by sym_c13.cpp (their real bodies are proved about there).
#include "sym.h"
#include "shapes.h"
#include "main.h"
#include <ImathBox.h>
#include <ImathMatrix.h>
IMATH_INTERNAL_NAMESPACE_HEADER_ENTER
template <> inline void Box<Vec3<symns::Sym>>::extendBy (const Vec3<symns::Sym>& point) IMATH_NOEXCEPT
{
    *this = symns::opaqueA<Box<Vec3<symns::Sym>>> ("Box3.extendByPoint", *this, point);
}
// non-template overload: preferred to `template <class S, class T> Vec3<S> operator* (const Vec3<S>&, const Matrix44<T>&)`
inline Vec3<symns::Sym> operator* (const Vec3<symns::Sym>& v, const Matrix44<symns::Sym>& m) IMATH_NOEXCEPT
{
    return symns::opaqueA<Vec3<symns::Sym>> ("BoxAlgo.vecTimesM44", v, m);
}
IMATH_INTERNAL_NAMESPACE_HEADER_EXIT
#include <ImathBoxAlgo.h>
template <class T> static std::vector<T> nativeExtendByPoint (const std::vector<T>& a)
{
    using namespace IMATH_INTERNAL_NAMESPACE;
    Box<Vec3<T>> b (Vec3<T> (a[0], a[1], a[2]), Vec3<T> (a[3], a[4], a[5]));
    b.extendBy (Vec3<T> (a[6], a[7], a[8]));
    return std::vector<T>{b.min.x, b.min.y, b.min.z, b.max.x, b.max.y, b.max.z};
}
template <class T> static std::vector<T> nativeVecTimesM44 (const std::vector<T>& a)
{
    using namespace IMATH_INTERNAL_NAMESPACE;
    Vec3<T>     v (a[0], a[1], a[2]);
    Matrix44<T> m;
    for (int i = 0; i < 4; ++i) for (int j = 0; j < 4; ++j) m[i][j] = a[3 + 4 * i + j];
    Vec3<T> r = v * m;
    return std::vector<T>{r.x, r.y, r.z};
}
static int native_c13t = (symns::natives ()["Box3.extendByPoint"] = symns::Native{&nativeExtendByPoint<double>, &nativeExtendByPoint<float>},
                          symns::natives ()["BoxAlgo.vecTimesM44"] = symns::Native{&nativeVecTimesM44<double>, &nativeVecTimesM44<float>}, 0);
// the two callees at exact fractions (rattv: validates the emitted call text incl. argument order of the projective entries)
static std::vector<symns::Frac> fracExtendByPoint (const std::vector<symns::Frac>& a)
{
    std::vector<symns::Frac> r (a.begin (), a.begin () + 6);
    for (int i = 0; i < 3; ++i) { if (a[6 + i] < r[i]) r[i] = a[6 + i]; if (r[3 + i] < a[6 + i]) r[3 + i] = a[6 + i]; }
    return r;
}
static std::vector<symns::Frac> fracVecTimesM44 (const std::vector<symns::Frac>& a)
{
    auto M = [&] (int i, int j) { return a[3 + 4 * i + j]; };
    symns::Frac w = a[0] * M (0, 3) + a[1] * M (1, 3) + a[2] * M (2, 3) + M (3, 3);
    std::vector<symns::Frac> r;
    for (int j = 0; j < 3; ++j) r.push_back ((a[0] * M (0, j) + a[1] * M (1, j) + a[2] * M (2, j) + M (3, j)) / w);
    return r;
}
static int native_c13t_q = (symns::natives ()["Box3.extendByPoint"].q = &fracExtendByPoint, symns::natives ()["BoxAlgo.vecTimesM44"].q = &fracVecTimesM44, 0);
using namespace IMATH_INTERNAL_NAMESPACE;
#include "ops_c13t.h"

// `tvbounds <seed> <n> [--idx f]`: translator validation on STRUCTURED boxes (audit r2 N3).  The generic `tv` mode draws random
// coordinates, so `min.x == lowest` never happens and only one of the six "not infinite" exits of isInfinite() — hence one of the six
// copies of the 2^9-leaf Arvo subtree — is executed natively.  Here the first k (k = 0..6, uniform) of the coordinates
// min.x, max.x, min.y, max.y, min.z, max.z (the order in which isInfinite() tests them) are the type bounds, the others lattice values;
// one box in eight is inverted on some axis; matrix entries are in {0, +-1/4, +-1/2, +-1} with uniform signs (the order of a < b in the
// Arvo loop is the sign pattern of the 3x3 block), so no product overflows to inf - inf = NaN.  Real instantiation vs tree, bit for bit,
// at double and float; prints the leaves reached per entry.
template <class T> static void tvbOne (const symns::FnRecord& f, void (*body) (symns::Ctx<T>&), bool hasR, int kind /*0 affine-column entry, 1 full matrix, 2 projective*/,
                                       unsigned long seed, long n, std::set<size_t>& hit, long& evals, long& fails, const char* ty)
{
    std::mt19937_64 g (seed * 1000003ul + sizeof (T) * 17 + kind);
    const T         lo = std::numeric_limits<T>::lowest (), hi = std::numeric_limits<T>::max ();
    static const double mag[] = {0.25, 0.5, 1.0, 1.0};
    for (long it = 0; it < n; ++it)
    {
        std::vector<T> in;
        T              bmin[3], bmax[3];
        for (int i = 0; i < 3; ++i)
        {
            long a = (long) (g () % 9) - 4, c = (long) (g () % 9) - 4;
            if (a > c) std::swap (a, c);
            bmin[i] = (T) a; bmax[i] = (T) c;
        }
        if (g () % 8 == 0) { int i = (int) (g () % 3); bmin[i] = (T) 2; bmax[i] = (T) -1; } // inverted on one axis
        int k = (int) (g () % 7);
        for (int j = 0; j < k; ++j) { if (j % 2 == 0) bmin[j / 2] = lo; else bmax[j / 2] = hi; }
        for (int i = 0; i < 3; ++i) in.push_back (bmin[i]);
        for (int i = 0; i < 3; ++i) in.push_back (bmax[i]);
        for (int i = 0; i < 16; ++i)
        {
            double v = mag[g () % 4] * ((g () & 1) ? 1 : -1);
            if (g () % 16 == 0) v = 0;
            in.push_back ((T) v);
        }
        if (kind == 2)
        {
            // which term of the affine test fails first: uniform over the four positions (and sometimes none: the dummy leaf)
            int j = (int) (g () % 4);
            for (int q = 0; q < j; ++q) in[6 + 4 * q + 3] = (T) 0;
            if (in[6 + 4 * j + 3] == (T) (j == 3 ? 1 : 0)) in[6 + 4 * j + 3] = (T) 0.5;
            if (g () % 16 == 0) { in[6 + 3] = 0; in[6 + 7] = 0; in[6 + 11] = 0; in[6 + 15] = 1; }
        }
        if (hasR) for (int i = 0; i < 6; ++i) in.push_back ((T) ((long) (g () % 7) - 3));
        std::string d;
        size_t      leaf = (size_t) -1;
        bool        ok   = symns::tvOne<T> (f, body, in, d, &leaf);
        ++evals;
        if (leaf != (size_t) -1) hit.insert (leaf);
        if (!ok && fails++ < 5)
        {
            std::ostringstream os;
            os.precision (17);
            for (auto& x : in) os << (double) x << " ";
            printf ("TVFAIL %s %s :: %s :: in=%s\n", ty, f.name.c_str (), d.c_str (), os.str ().c_str ());
        }
    }
}
#define TVB(ident, hasR, kind)                                                                                                   \
    {                                                                                                                            \
        const symns::FnRecord* f = nullptr;                                                                                      \
        for (size_t i = 0; i < symns::entries ().size (); ++i) if (&X_##ident::run<symns::Sym> == *symns::entries ()[i].sym.target<void (*) (symns::Ctx<symns::Sym>&)> ()) f = recs[i]; \
        std::set<size_t> hit; long ev = 0, fl = 0;                                                                               \
        tvbOne<double> (*f, &X_##ident::run<double>, hasR, kind, seed, n, hit, ev, fl, "double");                                \
        tvbOne<float> (*f, &X_##ident::run<float>, hasR, kind, seed, n, hit, ev, fl, "float");                                   \
        printf ("TVB %s evals=%ld fails=%ld leaves_hit=%zu paths=%zu\n", f->name.c_str (), ev, fl, hit.size (), f->paths.size ());  \
        totalFails += fl;                                                                                                        \
    }
int main (int argc, char** argv)
{
    if (argc > 1 && std::string (argv[1]) == "tvbounds")
    {
        unsigned long seed = argc > 2 ? strtoul (argv[2], 0, 10) : 1;
        long          n    = argc > 3 ? atol (argv[3]) : 20000;
        for (int i = 1; i + 1 < argc; ++i)
            if (std::string (argv[i]) == "--idx") symns::loadIndex (argv[i + 1]);
        std::vector<symns::FnRecord*> recs;
        for (auto& e : symns::entries ()) recs.push_back (symns::explore (e));
        long totalFails = 0;
        TVB (xf0_affine, false, 0)
        TVB (xf1_affine, true, 0)
        TVB (xf2, false, 1)
        TVB (xf3, true, 1)
        TVB (xf0_projective, false, 2)
        TVB (xf1_projective, true, 2)
        printf ("TVBDONE fails=%ld\n", totalFails);
        return totalFails ? 1 : 0;
    }
    return symns::sym_main (argc, argv);
}
