// C06 extraction table: determinant-based inversion (non-throwing forms).
//   Matrix22::inverse()/invert()   ImathMatrix.h 1873-1912 / 1821-1827
//   Matrix33::inverse()/invert()   2961-3068 / 2838-2844   (general cofactor arm + affine 2x2 arm, both in one tree)
//   Matrix44::inverse()/invert()   4487-4556 / 4404-4410   (non-affine arm = opaque call of M44.gjInverse,
//                                                            the hand model of Model/GaussJordan.lean; affine arm = 3x3 cofactors)
// The throwing copies (singExc) belong to C07.  gjInverse itself is H-route (path tree explodes).
#define IN(Ty, n) auto n = c.template in<Ty<T>> (#n)

EXTRACT ("C06", m22_inverse, "M22.inverse", { IN (Matrix22, a); c.out (a.inverse ()); })
EXTRACT ("C06", m22_invert, "M22.invert", { IN (Matrix22, a); a.invert (); c.out (a); })
EXTRACT ("C06", m33_inverse, "M33.inverse", { IN (Matrix33, a); c.out (a.inverse ()); })
EXTRACT ("C06", m33_invert, "M33.invert", { IN (Matrix33, a); a.invert (); c.out (a); })
EXTRACT ("C06", m44_inverse, "M44.inverse", { IN (Matrix44, a); c.out (a.inverse ()); })
EXTRACT ("C06", m44_invert, "M44.invert", { IN (Matrix44, a); a.invert (); c.out (a); })
