// C09 extraction table: transform builders (set*), in-place forms (translate/scale/shear/rotate)
// and frame builders.  Every set* entry takes the CURRENT matrix as an input as well, so the
// theorems also say that set* overwrites every slot.
#define IN(Ty, n) auto n = c.template in<Ty<T>> (#n)

// (frame builders come FIRST: the emitter's node numbers are global, so with this order an edit to a Matrix22/33/44 member that no frame
//  builder uses leaves the text of Gen/C09Frame.lean — and the slow tree theorems about it — untouched)
// ---------------------------------------------------------------- frame builders (Vec3::length opaque)
// order and modules: nextFrame (Gen/C09Next), Quat::setRotation (Gen/C09Quat) and alignZAxisWithTargetDir (Gen/C09Align) first and in their
// own modules, so that an edit to another frame builder does not renumber them (their tree theorems take minutes to re-elaborate)
// nextFrame calls `acosf` whatever T is: the model's `acos` parameter stands for `x ↦ T(acosf(float(x)))`, so the
// bitwise translator validation is run at float only (at double the tree's ACOS node would be evaluated by std::acos(double)).
// It also normalises its tangent arguments in place (non-const references): they are returned as 2nd and 3rd result.
#define EXTRACT_FLOATONLY(module, ident, leanname, ...)                                                \
    struct X_##ident { template <class T> static void run (symns::Ctx<T>& c) __VA_ARGS__ };            \
    static int reg_##ident = (symns::entries ().push_back (symns::Entry{module, leanname, symns::Opts (), &X_##ident::run<symns::Sym>, \
        {{"float", symns::makeTV<float> (&X_##ident::run<float>)}}, symns::makeRun (&X_##ident::run<double>)}), 0);
EXTRACT_FLOATONLY ("C09Next", fr_nextFrame, "Frame.nextFrame",
                   { IN (Matrix44, Mi); IN (Vec3, pi); IN (Vec3, pj); IN (Vec3, ti); IN (Vec3, tj); Matrix44<T> r = nextFrame (Mi, pi, pj, ti, tj); c.out (r); c.out (ti); c.out (tj); })
// rotationMatrix(from,to) = Quat::setRotation(from,to).toMatrix44(): the two halves are extracted separately (inlined, the
// tree has ~850 shared sub-terms and Lean's elaborator runs out of recursion depth); sym_c09up.cpp extracts rotationMatrix itself
// with Quat::setRotation as an opaque call of `Frame.quatSetRotation`.
EXTRACT ("C09Quat", fr_quatSetRotation, "Frame.quatSetRotation", { IN (Quat, q); IN (Vec3, fromDir); IN (Vec3, toDir); q.setRotation (fromDir, toDir); c.out (q); })
EXTRACT ("C09Quat", fr_quatToMatrix44, "Frame.quatToMatrix44", { IN (Quat, q); c.out (q.toMatrix44 ()); })
EXTRACT ("C09Align", fr_alignZ, "Frame.alignZAxisWithTargetDir",
         { IN (Vec3, targetDir); IN (Vec3, upDir); Matrix44<T> result (UNINITIALIZED); alignZAxisWithTargetDir (result, targetDir, upDir); c.out (result); })
// rotationMatrixWithUpDir: extracted by sym_c09up.cpp (module C09Up) with alignZAxisWithTargetDir opaque (inlined: 1201 paths)
EXTRACT ("C09Frame", fr_computeLocalFrame, "Frame.computeLocalFrame", { IN (Vec3, p); IN (Vec3, xDir); IN (Vec3, normal); c.out (computeLocalFrame (p, xDir, normal)); })
EXTRACT ("C09Frame", fr_addOffset, "Frame.addOffset",
         { IN (Matrix44, inMat); IN (Vec3, tOffset); IN (Vec3, rOffset); IN (Vec3, sOffset); IN (Matrix44, ref); c.out (addOffset (inMat, tOffset, rOffset, sOffset, ref)); })
EXTRACT ("C09Frame", fr_firstFrame, "Frame.firstFrame", { IN (Vec3, pi); IN (Vec3, pj); IN (Vec3, pk); c.out (firstFrame (pi, pj, pk)); })
EXTRACT ("C09Frame", fr_lastFrame, "Frame.lastFrame", { IN (Matrix44, Mi); IN (Vec3, pi); IN (Vec3, pj); c.out (lastFrame (Mi, pi, pj)); })

// ---------------------------------------------------------------- Matrix44
EXTRACT ("C09Mat", m44_setEuler, "M44.setEulerAngles", { IN (Matrix44, m); IN (Vec3, r); m.setEulerAngles (r); c.out (m); })
EXTRACT ("C09Mat", m44_setAxisAngle, "M44.setAxisAngle", { IN (Matrix44, m); IN (Vec3, axis); T angle = c.inS ("angle"); m.setAxisAngle (axis, angle); c.out (m); })
EXTRACT ("C09Mat", m44_rotate, "M44.rotate", { IN (Matrix44, m); IN (Vec3, r); m.rotate (r); c.out (m); })
EXTRACT ("C09Mat", m44_setScaleS, "M44.setScaleS", { IN (Matrix44, m); T s = c.inS ("s"); m.setScale (s); c.out (m); })
EXTRACT ("C09Mat", m44_setScaleV, "M44.setScaleV", { IN (Matrix44, m); IN (Vec3, s); m.setScale (s); c.out (m); })
EXTRACT ("C09Mat", m44_scale, "M44.scale", { IN (Matrix44, m); IN (Vec3, s); m.scale (s); c.out (m); })
EXTRACT ("C09Mat", m44_setTranslation, "M44.setTranslation", { IN (Matrix44, m); IN (Vec3, t); m.setTranslation (t); c.out (m); })
EXTRACT ("C09Mat", m44_translation, "M44.translation", { IN (Matrix44, m); c.out (m.translation ()); })
EXTRACT ("C09Mat", m44_translate, "M44.translate", { IN (Matrix44, m); IN (Vec3, t); m.translate (t); c.out (m); })
EXTRACT ("C09Mat", m44_setShearV, "M44.setShearV", { IN (Matrix44, m); IN (Vec3, h); m.setShear (h); c.out (m); })
EXTRACT ("C09Mat", m44_setShear6, "M44.setShear6", { IN (Matrix44, m); IN (Shear6, h); m.setShear (h); c.out (m); })
EXTRACT ("C09Mat", m44_shearV, "M44.shearV", { IN (Matrix44, m); IN (Vec3, h); m.shear (h); c.out (m); })
EXTRACT ("C09Mat", m44_shear6, "M44.shear6", { IN (Matrix44, m); IN (Shear6, h); m.shear (h); c.out (m); })
// the value returned by the in-place forms is *this (same object): also extract the returned reference once
EXTRACT ("C09Mat", m44_translateRet, "M44.translateRet", { IN (Matrix44, m); IN (Vec3, t); Matrix44<T> r = m.translate (t); c.out (r); })

// ---------------------------------------------------------------- Matrix33
EXTRACT ("C09Mat", m33_setRotation, "M33.setRotation", { IN (Matrix33, m); T r = c.inS ("r"); m.setRotation (r); c.out (m); })
EXTRACT ("C09Mat", m33_rotate, "M33.rotate", { IN (Matrix33, m); T r = c.inS ("r"); m.rotate (r); c.out (m); })
EXTRACT ("C09Mat", m33_setScaleS, "M33.setScaleS", { IN (Matrix33, m); T s = c.inS ("s"); m.setScale (s); c.out (m); })
EXTRACT ("C09Mat", m33_setScaleV, "M33.setScaleV", { IN (Matrix33, m); IN (Vec2, s); m.setScale (s); c.out (m); })
EXTRACT ("C09Mat", m33_scale, "M33.scale", { IN (Matrix33, m); IN (Vec2, s); m.scale (s); c.out (m); })
EXTRACT ("C09Mat", m33_setTranslation, "M33.setTranslation", { IN (Matrix33, m); IN (Vec2, t); m.setTranslation (t); c.out (m); })
EXTRACT ("C09Mat", m33_translation, "M33.translation", { IN (Matrix33, m); c.out (m.translation ()); })
EXTRACT ("C09Mat", m33_translate, "M33.translate", { IN (Matrix33, m); IN (Vec2, t); m.translate (t); c.out (m); })
EXTRACT ("C09Mat", m33_setShearS, "M33.setShearS", { IN (Matrix33, m); T xy = c.inS ("xy"); m.setShear (xy); c.out (m); })
EXTRACT ("C09Mat", m33_setShearV, "M33.setShearV", { IN (Matrix33, m); IN (Vec2, h); m.setShear (h); c.out (m); })
EXTRACT ("C09Mat", m33_shearS, "M33.shearS", { IN (Matrix33, m); T xy = c.inS ("xy"); m.shear (xy); c.out (m); })
EXTRACT ("C09Mat", m33_shearV, "M33.shearV", { IN (Matrix33, m); IN (Vec2, h); m.shear (h); c.out (m); })

// ---------------------------------------------------------------- Matrix22
EXTRACT ("C09Mat", m22_setRotation, "M22.setRotation", { IN (Matrix22, m); T r = c.inS ("r"); m.setRotation (r); c.out (m); })
EXTRACT ("C09Mat", m22_rotate, "M22.rotate", { IN (Matrix22, m); T r = c.inS ("r"); m.rotate (r); c.out (m); })
EXTRACT ("C09Mat", m22_setScaleS, "M22.setScaleS", { IN (Matrix22, m); T s = c.inS ("s"); m.setScale (s); c.out (m); })
EXTRACT ("C09Mat", m22_setScaleV, "M22.setScaleV", { IN (Matrix22, m); IN (Vec2, s); m.setScale (s); c.out (m); })
EXTRACT ("C09Mat", m22_scale, "M22.scale", { IN (Matrix22, m); IN (Vec2, s); m.scale (s); c.out (m); })

