// C09 extraction table: transform builders (set*), in-place forms (translate/scale/shear/rotate)
// and frame builders.  Every set* entry takes the CURRENT matrix as an input as well, so the
// theorems also say that set* overwrites every slot.
#define IN(Ty, n) auto n = c.template in<Ty<T>> (#n)

// (frame builders come FIRST: the emitter's node numbers are global, so with this order an edit to a Matrix22/33/44 member that no frame
//  builder uses leaves the text of Gen/C09Frame.lean — and the slow tree theorems about it — untouched)
// ---------------------------------------------------------------- frame builders (Vec3::length opaque)
// order and modules: nextFrame (Gen/C09Next), Quat::setRotation (Gen/C09Quat) and alignZAxisWithTargetDir (Gen/C09Align) first and in their
// own modules, so that an edit to another frame builder does not renumber them (their tree theorems take minutes to re-elaborate)
// nextFrame calls `std::acos (dot)` (since fix 13e5c51; before, the C function `acosf` for every T): plain EXTRACT, i.e. the bitwise
// translator validation runs at float AND double.  There is deliberately NO `symns::acosf` shim any more: a regression to `acosf (dot)`
// does not compile at T = Sym (extractor build fails -> VIOLATION), and `std::acos ((float) dot)` fails TV at double bitwise.
// It also normalises its tangent arguments in place (non-const references): they are returned as 2nd and 3rd result.
// FRAME_OPTS: extra TV inputs from the small-integer lattice {-2..2} with 0-75 % zeros (zero vectors, axis-aligned and exactly parallel /
// opposite pairs arise there): the inputs on which the fallback leaves of the trees are reached; leaves reached are reported (TVPATHS) and
// tools/props/c09.py obliges a floor per tree
#define FRAME_OPTS symns::Opts ().lattice (2500)
EXTRACT_OPT ("C09Next", fr_nextFrame, "Frame.nextFrame", FRAME_OPTS,
         { IN (Matrix44, Mi); IN (Vec3, pi); IN (Vec3, pj); IN (Vec3, ti); IN (Vec3, tj); Matrix44<T> r = nextFrame (Mi, pi, pj, ti, tj); c.out (r); c.out (ti); c.out (tj); })
// rotationMatrix(from,to) = Quat::setRotation(from,to).toMatrix44(): the two halves are extracted separately (inlined, the
// tree has ~850 shared sub-terms and Lean's elaborator runs out of recursion depth); sym_c09up.cpp extracts rotationMatrix itself
// with Quat::setRotation as an opaque call of `Frame.quatSetRotation`.
EXTRACT_OPT ("C09Quat", fr_quatSetRotation, "Frame.quatSetRotation", FRAME_OPTS, { IN (Quat, q); IN (Vec3, fromDir); IN (Vec3, toDir); q.setRotation (fromDir, toDir); c.out (q); })
EXTRACT ("C09Quat", fr_quatToMatrix44, "Frame.quatToMatrix44", { IN (Quat, q); c.out (q.toMatrix44 ()); })
EXTRACT_OPT ("C09Align", fr_alignZ, "Frame.alignZAxisWithTargetDir", FRAME_OPTS,
         { IN (Vec3, targetDir); IN (Vec3, upDir); Matrix44<T> result (UNINITIALIZED); alignZAxisWithTargetDir (result, targetDir, upDir); c.out (result); })
// rotationMatrixWithUpDir: extracted by sym_c09up.cpp (module C09Up) with alignZAxisWithTargetDir opaque (inlined: 1201 paths)
EXTRACT_OPT ("C09Frame", fr_computeLocalFrame, "Frame.computeLocalFrame", FRAME_OPTS, { IN (Vec3, p); IN (Vec3, xDir); IN (Vec3, normal); c.out (computeLocalFrame (p, xDir, normal)); })
EXTRACT ("C09Frame", fr_addOffset, "Frame.addOffset",
         { IN (Matrix44, inMat); IN (Vec3, tOffset); IN (Vec3, rOffset); IN (Vec3, sOffset); IN (Matrix44, ref); c.out (addOffset (inMat, tOffset, rOffset, sOffset, ref)); })
EXTRACT_OPT ("C09Frame", fr_firstFrame, "Frame.firstFrame", FRAME_OPTS, { IN (Vec3, pi); IN (Vec3, pj); IN (Vec3, pk); c.out (firstFrame (pi, pj, pk)); })
EXTRACT ("C09Frame", fr_lastFrame, "Frame.lastFrame", { IN (Matrix44, Mi); IN (Vec3, pi); IN (Vec3, pj); c.out (lastFrame (Mi, pi, pj)); })

// ---------------------------------------------------------------- Matrix44
EXTRACT ("C09Mat", m44_setEuler, "M44.setEulerAngles", { IN (Matrix44, m); IN (Vec3, r); m.setEulerAngles (r); c.out (m); })
EXTRACT_OPT ("C09Mat", m44_setAxisAngle, "M44.setAxisAngle", FRAME_OPTS, { IN (Matrix44, m); IN (Vec3, axis); T angle = c.inS ("angle"); m.setAxisAngle (axis, angle); c.out (m); })
EXTRACT ("C09Mat", m44_rotate, "M44.rotate", { IN (Matrix44, m); IN (Vec3, r); m.rotate (r); c.out (m); })
EXTRACT ("C09Mat", m44_setScaleS, "M44.setScaleS", { IN (Matrix44, m); T s = c.inS ("s"); m.setScale (s); c.out (m); })
EXTRACT ("C09Mat", m44_setScaleV, "M44.setScaleV", { IN (Matrix44, m); IN (Vec3, s); m.setScale (s); c.out (m); })
EXTRACT ("C09Mat", m44_scale, "M44.scale", { IN (Matrix44, m); IN (Vec3, s); m.scale (s); c.out (m); })
EXTRACT ("C09Mat", m44_setTranslation, "M44.setTranslation", { IN (Matrix44, m); IN (Vec3, t); m.setTranslation (t); c.out (m); })
EXTRACT ("C09Mat", m44_translation, "M44.translation", { IN (Matrix44, m); c.out (m.translation ()); })
EXTRACT ("C09Mat", m44_translate, "M44.translate", { IN (Matrix44, m); IN (Vec3, t); m.translate (t); c.out (m); })
EXTRACT ("C09Mat", m44_setShearV, "M44.setShearV", { IN (Matrix44, m); IN (Vec3, h); m.setShear (h); c.out (m); })
EXTRACT ("C09Mat", m44_setShear6, "M44.setShear6", { IN (Matrix44, m); IN (Shear6, h); m.setShear (h); c.out (m); })
EXTRACT ("C09Mat", m44_shearV, "M44.shearV", { IN (Matrix44, m); IN (Vec3, h); m.shear (h); c.out (m); })
EXTRACT ("C09Mat", m44_shear6, "M44.shear6", { IN (Matrix44, m); IN (Shear6, h); m.shear (h); c.out (m); })
// the value returned by the in-place forms is *this (same object): also extract the returned reference once
EXTRACT ("C09Mat", m44_translateRet, "M44.translateRet", { IN (Matrix44, m); IN (Vec3, t); Matrix44<T> r = m.translate (t); c.out (r); })

// ---------------------------------------------------------------- Matrix33
EXTRACT ("C09Mat", m33_setRotation, "M33.setRotation", { IN (Matrix33, m); T r = c.inS ("r"); m.setRotation (r); c.out (m); })
EXTRACT ("C09Mat", m33_rotate, "M33.rotate", { IN (Matrix33, m); T r = c.inS ("r"); m.rotate (r); c.out (m); })
EXTRACT ("C09Mat", m33_setScaleS, "M33.setScaleS", { IN (Matrix33, m); T s = c.inS ("s"); m.setScale (s); c.out (m); })
EXTRACT ("C09Mat", m33_setScaleV, "M33.setScaleV", { IN (Matrix33, m); IN (Vec2, s); m.setScale (s); c.out (m); })
EXTRACT ("C09Mat", m33_scale, "M33.scale", { IN (Matrix33, m); IN (Vec2, s); m.scale (s); c.out (m); })
EXTRACT ("C09Mat", m33_setTranslation, "M33.setTranslation", { IN (Matrix33, m); IN (Vec2, t); m.setTranslation (t); c.out (m); })
EXTRACT ("C09Mat", m33_translation, "M33.translation", { IN (Matrix33, m); c.out (m.translation ()); })
EXTRACT ("C09Mat", m33_translate, "M33.translate", { IN (Matrix33, m); IN (Vec2, t); m.translate (t); c.out (m); })
EXTRACT ("C09Mat", m33_setShearS, "M33.setShearS", { IN (Matrix33, m); T xy = c.inS ("xy"); m.setShear (xy); c.out (m); })
EXTRACT ("C09Mat", m33_setShearV, "M33.setShearV", { IN (Matrix33, m); IN (Vec2, h); m.setShear (h); c.out (m); })
EXTRACT ("C09Mat", m33_shearS, "M33.shearS", { IN (Matrix33, m); T xy = c.inS ("xy"); m.shear (xy); c.out (m); })
EXTRACT ("C09Mat", m33_shearV, "M33.shearV", { IN (Matrix33, m); IN (Vec2, h); m.shear (h); c.out (m); })

// ---------------------------------------------------------------- Matrix22
EXTRACT ("C09Mat", m22_setRotation, "M22.setRotation", { IN (Matrix22, m); T r = c.inS ("r"); m.setRotation (r); c.out (m); })
EXTRACT ("C09Mat", m22_rotate, "M22.rotate", { IN (Matrix22, m); T r = c.inS ("r"); m.rotate (r); c.out (m); })
EXTRACT ("C09Mat", m22_setScaleS, "M22.setScaleS", { IN (Matrix22, m); T s = c.inS ("s"); m.setScale (s); c.out (m); })
EXTRACT ("C09Mat", m22_setScaleV, "M22.setScaleV", { IN (Matrix22, m); IN (Vec2, s); m.setScale (s); c.out (m); })
EXTRACT ("C09Mat", m22_scale, "M22.scale", { IN (Matrix22, m); IN (Vec2, s); m.scale (s); c.out (m); })


// ---------------------------------------------------------------- the value RETURNED by the other in-place forms (audit W10)
// every in-place form returns `*this`; a body that returned a copy made before the update would leave the entries above unchanged.
// (appended at the END so that no earlier entry is renumbered)
EXTRACT ("C09Mat", m44_scaleRet, "M44.scaleRet", { IN (Matrix44, m); IN (Vec3, s); Matrix44<T> r = m.scale (s); c.out (r); })
EXTRACT ("C09Mat", m44_shearVRet, "M44.shearVRet", { IN (Matrix44, m); IN (Vec3, h); Matrix44<T> r = m.shear (h); c.out (r); })
EXTRACT ("C09Mat", m44_shear6Ret, "M44.shear6Ret", { IN (Matrix44, m); IN (Shear6, h); Matrix44<T> r = m.shear (h); c.out (r); })
EXTRACT ("C09Mat", m44_rotateRet, "M44.rotateRet", { IN (Matrix44, m); IN (Vec3, r); Matrix44<T> q = m.rotate (r); c.out (q); })
EXTRACT ("C09Mat", m33_translateRet, "M33.translateRet", { IN (Matrix33, m); IN (Vec2, t); Matrix33<T> r = m.translate (t); c.out (r); })
EXTRACT ("C09Mat", m33_scaleRet, "M33.scaleRet", { IN (Matrix33, m); IN (Vec2, s); Matrix33<T> r = m.scale (s); c.out (r); })
EXTRACT ("C09Mat", m33_shearSRet, "M33.shearSRet", { IN (Matrix33, m); T xy = c.inS ("xy"); Matrix33<T> r = m.shear (xy); c.out (r); })
EXTRACT ("C09Mat", m33_shearVRet, "M33.shearVRet", { IN (Matrix33, m); IN (Vec2, h); Matrix33<T> r = m.shear (h); c.out (r); })
EXTRACT ("C09Mat", m33_rotateRet, "M33.rotateRet", { IN (Matrix33, m); T r = c.inS ("r"); Matrix33<T> q = m.rotate (r); c.out (q); })
EXTRACT ("C09Mat", m22_rotateRet, "M22.rotateRet", { IN (Matrix22, m); T r = c.inS ("r"); Matrix22<T> q = m.rotate (r); c.out (q); })
EXTRACT ("C09Mat", m22_scaleRet, "M22.scaleRet", { IN (Matrix22, m); IN (Vec2, s); Matrix22<T> r = m.scale (s); c.out (r); })
