// Modular extraction (DESIGN.md §2.2 device iii): in a composite extractor the
// members listed here are explicit specialisations for T = Sym that emit an
// opaque CALL node; their real bodies are extracted by the leaf extractor
// (sym_leaf.cpp), whose index file supplies the callee's Lean signature.
// For translator validation the CALL is evaluated with the real function at
// double / float.
#pragma once
#include "shapes.h"
#include <fstream>

namespace symns
{

struct Native
{
    std::function<std::vector<double> (const std::vector<double>&)> d;
    std::function<std::vector<float> (const std::vector<float>&)>   f;
    // optional: the callee at exact fractions (rattv).  When every opaque callee of an entry has one, the Lean-side
    // validation covers that entry too (emitted call text incl. argument order) instead of skipping it.
    std::function<std::vector<Frac> (const std::vector<Frac>&)>     q;
};
inline std::map<std::string, Native>& natives () { static std::map<std::string, Native> m; return m; }

inline std::map<std::string, const Shape*>& shapeByName ()
{
    static std::map<std::string, const Shape*> m;
    if (m.empty ())
        for (const Shape* s : {shV2 (), shV3 (), shV4 (), shC4 (), shShear6 (), shMat (2), shMat (3), shMat (4), shQuat (), shBox2 (), shBox3 (),
                               shBox4 (), shInterval (), shLine3 (), shPlane3 (), shSphere3 ()})
            m[s->lean] = s;
    return m;
}

// index line:  FN <name> | cls=a,b | lits=0,2 | extra=tmin,sqrt | params=a:V3,s:- | outs=V3,-
inline void loadIndex (const std::string& file)
{
    std::ifstream in (file);
    std::string   line;
    auto split = [] (const std::string& s, char c) { std::vector<std::string> r; std::string cur; for (char ch : s) { if (ch == c) { r.push_back (cur); cur.clear (); } else cur += ch; } if (!cur.empty ()) r.push_back (cur); return r; };
    while (std::getline (in, line))
    {
        if (line.rfind ("FN ", 0) != 0) continue;
        auto parts = split (line.substr (3), '|');
        std::string name = parts[0];
        while (!name.empty () && name.back () == ' ') name.pop_back ();
        if (fnIndex ().count (name)) continue;
        Needs     nd;
        FnRecord* r = new FnRecord;
        r->name   = name;
        r->status = "external";
        for (size_t i = 1; i < parts.size (); ++i)
        {
            std::string p = parts[i];
            while (!p.empty () && p[0] == ' ') p.erase (0, 1);
            while (!p.empty () && p.back () == ' ') p.pop_back ();
            auto eq = p.find ('=');
            if (eq == std::string::npos) continue;
            std::string k = p.substr (0, eq), v = p.substr (eq + 1);
            for (auto& it : split (v, ','))
            {
                if (k == "cls") nd.cls.insert (it);
                else if (k == "lits") nd.lits.insert (atol (it.c_str ()));
                else if (k == "extra") nd.extra.insert (it);
                else if (k == "params")
                {
                    auto c = it.find (':');
                    std::string pn = it.substr (0, c), sh = it.substr (c + 1);
                    Param pr{pn, sh == "-" ? nullptr : shapeByName ().at (sh), {}};
                    int n = pr.shape ? pr.shape->count () : 1;
                    for (int j = 0; j < n; ++j) pr.vars.push_back (nullptr);
                    r->params.push_back (pr);
                }
                else if (k == "throws") r->throws = it == "1";
                else if (k == "module") r->module = it;
            }
        }
        fnIndex ()[name]    = r;
        needsIndex ()[name] = nd;
    }
}

inline std::string indexLine (const FnRecord& r, const Needs& nd)
{
    std::ostringstream s;
    auto join = [] (const std::vector<std::string>& v) { std::string o; for (size_t i = 0; i < v.size (); ++i) o += (i ? "," : "") + v[i]; return o; };
    std::vector<std::string> cls (nd.cls.begin (), nd.cls.end ()), ex (nd.extra.begin (), nd.extra.end ()), lits, ps;
    for (long l : nd.lits) lits.push_back (std::to_string (l));
    for (auto& p : r.params) ps.push_back (p.name + ":" + (p.shape ? p.shape->lean : "-"));
    std::vector<std::string> os;
    for (auto& o : r.outs) os.push_back (o.kind == OutItem::AGG ? o.shape->lean : o.kind == OutItem::SCALAR ? "-" : o.kind == OutItem::BOOL ? "B" : o.kind == OutItem::STR ? "S" : "I");
    s << "FN " << r.name << " | cls=" << join (cls) << " | lits=" << join (lits) << " | extra=" << join (ex) << " | params=" << join (ps)
      << " | outs=" << join (os) << " | throws=" << (r.throws ? 1 : 0) << " | paths=" << r.paths.size () << " | status=" << r.status << " | module=" << r.module;
    return s.str ();
}

// flatten arguments into nodes
inline void flatArgs (std::vector<const Node*>&) {}
template <class A, class... R> inline void flatArgs (std::vector<const Node*>& out, const A& a, const R&... rest);
inline void flatOne (std::vector<const Node*>& out, const Sym& s) { out.push_back (s.n); }
template <class A> inline void flatOne (std::vector<const Node*>& out, const A& a0)
{
    A a = a0;
    std::vector<Sym*> p;
    Agg<A>::flat (a, p);
    for (auto* q : p) out.push_back (q->n);
}
template <class A, class... R> inline void flatArgs (std::vector<const Node*>& out, const A& a, const R&... rest)
{
    flatOne (out, a);
    flatArgs (out, rest...);
}

template <class... Args> inline Sym opaqueS (const std::string& name, const Args&... args)
{
    std::vector<const Node*> k;
    flatArgs (k, args...);
    return Sym (pool ().mk (CALL, k, name));
}
template <class A, class... Args> inline A opaqueA (const std::string& name, const Args&... args)
{
    std::vector<const Node*> k;
    flatArgs (k, args...);
    const Node* call = pool ().mk (CALL, k, name);
    A a{};
    std::vector<Sym*> p;
    Agg<A>::flat (a, p);
    std::vector<std::string> lv;
    Agg<A>::shape ()->leaves ("", lv);
    for (size_t i = 0; i < p.size (); ++i) *p[i] = Sym (pool ().mk (PROJ, {call}, lv[i], (double) i));
    return a;
}

} // namespace symns

// With c10frac.h included first (SYMNS_HAVE_FRACS) the REAL Vec::length is also instantiated at the exact-fraction type
// FracS (fixed rational stubs for sqrt and the limit constants, the same as the tree evaluator and the Lean side use), so
// that troute.lean_tv validates the emitted text of entries that call length() (call order, tmin/tmax argument order)
// instead of skipping them.
#ifdef SYMNS_HAVE_FRACS
#define OPAQUE_LENGTH_Q(V, N)                                                                               \
    , [] (const std::vector<symns::Frac>& a) { return symns::fracRun ([&] { IMATH_INTERNAL_NAMESPACE::V<symns::FracS> v; \
          for (int i = 0; i < N; ++i) v[i] = symns::FracS (a[i]); return std::vector<symns::FracS>{v.length ()}; }); }
#else
#define OPAQUE_LENGTH_Q(V, N)
#endif
#define OPAQUE_LENGTH(V, LEANV, N)                                                                          \
    IMATH_INTERNAL_NAMESPACE_HEADER_ENTER                                                                    \
    template <> inline symns::Sym V<symns::Sym>::length () const IMATH_NOEXCEPT { return symns::opaqueS (LEANV ".length", *this); } \
    IMATH_INTERNAL_NAMESPACE_HEADER_EXIT                                                                     \
    static int native_##V##_length = (symns::natives ()[LEANV ".length"] = symns::Native{                      \
        [] (const std::vector<double>& a) { IMATH_INTERNAL_NAMESPACE::V<double> v; for (int i = 0; i < N; ++i) v[i] = a[i]; return std::vector<double>{v.length ()}; }, \
        [] (const std::vector<float>& a) { IMATH_INTERNAL_NAMESPACE::V<float> v; for (int i = 0; i < N; ++i) v[i] = a[i]; return std::vector<float>{v.length ()}; } OPAQUE_LENGTH_Q (V, N)}, 0);
