// C12P extraction table: procrustesRotationAndTranslation on three points, weighted / unweighted x doScale (see sym_c12p.cpp).
// Translator validation at double only (the real function computes in double whatever the point type is).
#define IN(Ty, n) auto n = c.template in<Ty<T>> (#n)
#define EXTRACT_DBL(module, ident, leanname, ...)                                                     \
    struct X_##ident { template <class T> static void run (symns::Ctx<T>& c) __VA_ARGS__ };            \
    static int reg_##ident = (symns::entries ().push_back (symns::Entry{module, leanname, symns::Opts (), &X_##ident::run<symns::Sym>, \
        {{"double", symns::makeTV<double> (&X_##ident::run<double>)}}, symns::makeRun (&X_##ident::run<double>)}), 0);
#define PROC_U(sc) EXTRACT_DBL ("C12P", proc_u##sc, "Procrustes.unweighted3_" #sc,                                      \
    { IN (Vec3, a0); IN (Vec3, a1); IN (Vec3, a2); IN (Vec3, b0); IN (Vec3, b1); IN (Vec3, b2);                          \
      Vec3<T> A[3] = {a0, a1, a2}; Vec3<T> B[3] = {b0, b1, b2}; c.out (Proc<T>::u (A, B, 3, sc != 0)); })
#define PROC_W(sc) EXTRACT_DBL ("C12P", proc_w##sc, "Procrustes.weighted3_" #sc,                                        \
    { IN (Vec3, a0); IN (Vec3, a1); IN (Vec3, a2); IN (Vec3, b0); IN (Vec3, b1); IN (Vec3, b2); IN (Vec3, w);            \
      Vec3<T> A[3] = {a0, a1, a2}; Vec3<T> B[3] = {b0, b1, b2}; T W[3] = {w.x, w.y, w.z}; c.out (Proc<T>::w (A, B, W, 3, sc != 0)); })
PROC_U (0) PROC_U (1) PROC_W (0) PROC_W (1)
