// Extra command-line modes of the C08 extractors (sym_leaf, sym_c08), used by tools/props/c08.py for the Lean-side
// validation of the EMITTED TEXT (audit C08 W4/W5).  Everything here works at Frac (exact fractions) with the public
// members of symns::Evaluator; shared machinery (main.h) is untouched, and `sym_main` handles every other mode.
//
//   ratwit                    (sym_leaf)  one exact witness per reachable leaf of every entry: small integer components
//                                         x four pairs of limit stubs chosen so that each outcome of the guard
//                                         `dot < 2*tmin || tmax < dot` is forced.  Prints WITCASE / WITSUM lines.
//   tvwit            (sym_leaf, sym_c08)  C++-side TV at double AND float with leaf coverage: real code vs tree, bitwise, on every leaf reachable with
//                                         the real limits (for sym_c08: both leaves of every branching normalize form, the zero vector included)
//   rateval                   (sym_leaf)  stdin: "<Fn> <frac> ..." per line -> "RATVAL <line-no> <frac>,..." (tree at Frac, default stubs)
//   ratargs <seed> <n>        (sym_c08)   for every entry that calls an externally extracted function (length() is opaque
//                                         here): n random inputs and the exact ARGUMENTS of each call on them
//   ratwith                   (sym_c08)   stdin: "<Fn> IN <fracs> CALLS <frac> ..." -> RATCASE lines: the tree evaluated
//                                         at Frac with the given VALUES of its calls (computed by sym_leaf rateval)
#pragma once
#include <iostream>
#include <sstream>
namespace c08modes
{
using namespace symns;

inline Frac parseFrac (const std::string& s)
{
    auto toI = [] (const std::string& t) { I128 v = 0; bool neg = false; size_t i = 0; if (i < t.size () && t[i] == '-') { neg = true; ++i; } for (; i < t.size (); ++i) v = v * 10 + (t[i] - '0'); return neg ? -v : v; };
    size_t p = s.find ('/');
    return p == std::string::npos ? Frac (toI (s), (I128) 1) : Frac (toI (s.substr (0, p)), toI (s.substr (p + 1)));
}

// index of the leaf selected by the current state of `ev` (env / callMemo set by the caller); -1 if no path matches
template <class S> inline long walk (const FnRecord& f, Evaluator<S>& ev)
{
    size_t lo = 0, hi = f.paths.size (), depth = 0;
    while (f.paths[lo].conds.size () != depth)
    {
        size_t mid = lo;
        while (mid < hi && f.paths[mid].conds.size () > depth && f.paths[mid].conds[depth].second) ++mid;
        bool v = ev.cond (f.paths[lo].conds[depth].first);
        if (v) { if (mid == lo) return -1; hi = mid; }
        else { if (mid == hi) return -1; lo = mid; }
        ++depth;
    }
    return (long) lo;
}

template <class S> inline void setEnv (const FnRecord& f, Evaluator<S>& ev, const std::vector<S>& in)
{
    ev.env.clear (); ev.memo.clear (); ev.callMemo.clear ();
    size_t i = 0;
    for (auto& p : f.params) for (auto* v : p.vars) ev.env[v] = in.at (i++);
}

inline size_t arity (const FnRecord& f) { size_t n = 0; for (auto& p : f.params) n += p.vars.size (); return n; }

// CALL nodes of a record, in a deterministic order (node id)
inline std::vector<const Node*> callsOf (const FnRecord& r)
{
    std::vector<const Node*> st, out; std::set<const Node*> seen;
    for (auto& p : r.paths) { for (auto& c : p.conds) { st.push_back (c.first.a); st.push_back (c.first.b); } for (auto* v : p.leaf.vals) st.push_back (v); }
    while (!st.empty ()) { const Node* x = st.back (); st.pop_back (); if (!seen.insert (x).second) continue; if (x->op == CALL) out.push_back (x); for (auto* k : x->k) st.push_back (k); }
    std::sort (out.begin (), out.end (), [] (const Node* a, const Node* b) { return a->id < b->id; });
    return out;
}

inline void printCase (const char* tag, const FnRecord& r, long leaf, const std::vector<Frac>& in, Evaluator<Frac>& ev)
{
    const PathRec& p = r.paths[(size_t) leaf];
    printf ("%s %s LEAF %ld TMIN %s TMAX %s IN", tag, r.name.c_str (), leaf, ev.tmin.str ().c_str (), ev.tmax.str ().c_str ());
    for (auto& x : in) printf (" %s", x.str ().c_str ());
    printf (" OUT exc=%s vals=", p.leaf.thrown ? p.leaf.exc.c_str () : "-");
    if (!p.leaf.thrown) for (auto* v : p.leaf.vals) printf ("%s,", ev.ev (v).str ().c_str ());
    printf (" ints=");
    for (long x : p.leaf.ints) printf ("%ld,", x);
    printf ("\n");
}

inline int ratwit (std::vector<FnRecord*>& recs)
{
    // limit stubs (tmin, tmax): ordinary (guard decided by the vector) / second disjunct always true / first disjunct always true
    // / both disjuncts false
    const int   NS = 4;
    const Frac stubs[NS][2] = {{Frac (1, 1024), Frac (1048576, 1)}, {Frac (-1, 1), Frac (-1, 1)}, {Frac ((I128) 1 << 30, (I128) 1), Frac ((I128) 1 << 40, (I128) 1)},
                               {Frac (-1, 1), Frac ((I128) 1 << 40, (I128) 1)}};
    for (auto* r : recs)
    {
        if (r->status != "ok") continue;
        size_t nin = arity (*r);
        long   total = 1;
        for (size_t i = 0; i < nin; ++i) total *= 9;
        std::vector<char> hit (r->paths.size (), 0);
        long nhit = 0;
        for (int s = 0; s < NS; ++s)
            for (long c = 0; c < total; ++c)
            {
                std::vector<Frac> in;
                long q = c;
                for (size_t i = 0; i < nin; ++i) { in.push_back (Frac ((long) (q % 9) - 4)); q /= 9; }
                try
                {
                    Evaluator<Frac> ev;
                    ev.tmin = stubs[s][0]; ev.tmax = stubs[s][1];
                    setEnv (*r, ev, in);
                    long leaf = walk (*r, ev);
                    if (leaf < 0 || hit[(size_t) leaf]) continue;
                    hit[(size_t) leaf] = 1; ++nhit;
                    printCase ("WITCASE", *r, leaf, in, ev);
                }
                catch (const FracOverflow&) {}
            }
        long constLeaves = 0, constHit = 0, other = 0, otherHit = 0;
        for (size_t i = 0; i < r->paths.size (); ++i)
        {
            const Leaf& l = r->paths[i].leaf;
            bool isConst = !l.thrown && l.vals.size () == 1 && l.vals[0]->op == LIT;
            if (isConst) { ++constLeaves; constHit += hit[i]; } else { ++other; otherHit += hit[i]; }
        }
        printf ("WITSUM %s leaves=%zu hit=%ld nonconst_leaves=%ld nonconst_hit=%ld const_leaves=%ld const_hit=%ld candidates=%ld\n", r->name.c_str (), r->paths.size (),
                nhit, other, otherHit, constLeaves, constHit, NS * total);
    }
    return 0;
}

// C++-side TV with recorded leaf coverage (audit W5, r2 N3): for every leaf reachable with the REAL limits — small integer components
// (the zero vector included) x three scales (squares underflow / ordinary / squares overflow: 2^-600, 1, 2^600 at double, 2^-70, 1, 2^70
// at float) — the REAL instantiation (the entry's body run at T, registered with C08_REG) and the extracted tree evaluated at T must
// agree bit for bit (symns::tvOne), and the leaf reached is recorded.  Calls to the opaque length() are evaluated with the real member.
struct Bodies { void (*d) (Ctx<double>&); void (*f) (Ctx<float>&); };
inline std::map<std::string, Bodies>& bodies () { static std::map<std::string, Bodies> m; return m; }
#define C08_REG(ident, leanname) static int c08reg_##ident = (c08modes::bodies ()[leanname] = c08modes::Bodies{&X_##ident::run<double>, &X_##ident::run<float>}, 0);

template <class T> inline long tvwitOne (FnRecord* r, void (*body) (Ctx<T>&), const char* ty, const T (&scales)[3])
{
    size_t nin = arity (*r);
    long   total = 1;
    for (size_t i = 0; i < nin; ++i) total *= 9;
    std::vector<char> hit (r->paths.size (), 0);
    long nhit = 0, evals = 0, mism = 0;
    const long step = total > 20000 ? total / 20000 + 1 : 1; // (two-vector entries such as dot: a sample; the zero input is always included)
    for (int s = 0; s < 3; ++s)
        for (long c0 = 0; c0 < total + step; c0 += step)
        {
            long c = c0 >= total ? (total - 1) / 2 : c0;     // last round: the all-zero input
            std::vector<T> in;
            long q = c;
            for (size_t i = 0; i < nin; ++i) { in.push_back ((T) ((long) (q % 9) - 4) * scales[s]); q /= 9; }
            Evaluator<T> ev;
            setEnv (*r, ev, in);
            long leaf = walk (*r, ev);
            if (leaf < 0) { ++mism; printf ("TVWITFAIL %s %s no-path\n", r->name.c_str (), ty); continue; }
            bool first = !hit[(size_t) leaf];
            if (first) { hit[(size_t) leaf] = 1; ++nhit; }
            if (!first && (c % 7) != 0) continue; // every leaf once + a sample of the repeats
            std::string detail;
            ++evals;
            if (!tvOne<T> (*r, body, in, detail))
            {
                ++mism;
                if (mism <= 5) { printf ("TVWITFAIL %s %s leaf=%ld in=", r->name.c_str (), ty, leaf); for (T x : in) printf ("%a ", (double) x); printf (":: %s\n", detail.c_str ()); }
            }
        }
    long other = 0, otherHit = 0, constLeaves = 0, constHit = 0;
    for (size_t i = 0; i < r->paths.size (); ++i)
    {
        const Leaf& l = r->paths[i].leaf;
        bool isConst = !l.thrown && l.vals.size () == 1 && l.vals[0]->op == LIT;
        if (isConst) { ++constLeaves; constHit += hit[i]; } else { ++other; otherHit += hit[i]; }
    }
    printf ("TVWIT %s %s leaves=%zu hit=%ld nonconst_leaves=%ld nonconst_hit=%ld const_leaves=%ld const_hit=%ld evaluations=%ld mismatches=%ld\n", r->name.c_str (), ty,
            r->paths.size (), nhit, other, otherHit, constLeaves, constHit, evals, mism);
    return mism;
}

inline int tvwit (std::vector<FnRecord*>& recs)
{
    const double sd[3] = {std::ldexp (1.0, -600), 1.0, std::ldexp (1.0, 600)};
    const float  sf[3] = {std::ldexp (1.0f, -70), 1.0f, std::ldexp (1.0f, 70)};
    long bad = 0;
    for (auto* r : recs)
    {
        if (r->status != "ok") continue;
        auto it = bodies ().find (r->name);
        if (it == bodies ().end ()) { printf ("TVWITSKIP %s no-body-registered\n", r->name.c_str ()); continue; }
        bad += tvwitOne<double> (r, it->second.d, "double", sd);
        bad += tvwitOne<float> (r, it->second.f, "float", sf);
    }
    return bad ? 1 : 0;
}

inline int rateval (std::vector<FnRecord*>& recs)
{
    std::string line; long no = 0;
    while (std::getline (std::cin, line))
    {
        std::istringstream is (line); std::string fn, t; is >> fn;
        std::vector<Frac> in;
        while (is >> t) in.push_back (parseFrac (t));
        FnRecord* r = nullptr;
        for (auto* x : recs) if (x->name == fn && x->status == "ok") r = x;
        if (!r || in.size () != arity (*r)) { printf ("RATVAL %ld error\n", no++); continue; }
        try
        {
            Evaluator<Frac> ev; std::vector<Frac> vals; std::vector<long> ints; std::string exc;
            if (!ev.run (*r, in, vals, ints, exc)) { printf ("RATVAL %ld nopath\n", no++); continue; }
            printf ("RATVAL %ld ", no++);
            for (auto& v : vals) printf ("%s,", v.str ().c_str ());
            printf ("\n");
        }
        catch (const FracOverflow&) { printf ("RATVAL %ld overflow\n", no++); }
    }
    return 0;
}

inline int ratargs (std::vector<FnRecord*>& recs, unsigned long seed, int n)
{
    std::mt19937_64 g (seed);
    for (auto* r : recs)
    {
        if (r->status != "ok") continue;
        auto calls = callsOf (*r);
        if (calls.empty ()) continue;
        size_t nin = arity (*r);
        for (int k = 0; k < n; ++k)
        {
            std::vector<Frac> in;
            for (size_t j = 0; j < nin; ++j)
            {
                long a = (long) (g () % 9) - 4, d = (k % 3 == 2) ? (long) (g () % 3) + 1 : 1;
                if (k % 4 == 1 && g () % 2 == 0) a = 0;
                if (k % 4 == 3) { a = 0; }                       // the zero vector: the `length() = 0` path of every form
                if (k % 8 == 5) d = 64;                          // small components: the underflow side of the callee's guard
                if (k % 8 == 6) a *= 1024;                       // large components: the overflow side
                in.push_back (Frac ((I128) a, (I128) d));
            }
            try
            {
                Evaluator<Frac> ev;
                setEnv (*r, ev, in);
                printf ("CALLARGS %s IN", r->name.c_str ());
                for (auto& x : in) printf (" %s", x.str ().c_str ());
                for (auto* c : calls)
                {
                    printf (" CALL %s", c->s.c_str ());
                    for (auto* a : c->k) printf (" %s", ev.ev (a).str ().c_str ()); // (arguments that themselves contain a call would throw: not the case for C08)
                }
                printf ("\n");
            }
            catch (const std::exception&) {}
        }
    }
    return 0;
}

inline int ratwith (std::vector<FnRecord*>& recs)
{
    std::string line;
    while (std::getline (std::cin, line))
    {
        std::istringstream is (line); std::string fn, t; is >> fn >> t; // "<Fn> IN"
        std::vector<Frac> in, cv; bool inCalls = false;
        while (is >> t) { if (t == "CALLS") { inCalls = true; continue; } (inCalls ? cv : in).push_back (parseFrac (t)); }
        FnRecord* r = nullptr;
        for (auto* x : recs) if (x->name == fn && x->status == "ok") r = x;
        if (!r || in.size () != arity (*r)) { printf ("RATERR %s arity\n", fn.c_str ()); continue; }
        auto calls = callsOf (*r);
        if (calls.size () != cv.size ()) { printf ("RATERR %s calls=%zu values=%zu\n", fn.c_str (), calls.size (), cv.size ()); continue; }
        try
        {
            Evaluator<Frac> ev;
            setEnv (*r, ev, in);
            for (size_t i = 0; i < calls.size (); ++i) ev.callMemo[calls[i]] = std::vector<Frac>{cv[i]};
            long leaf = walk (*r, ev);
            if (leaf < 0) { printf ("RATERR %s nopath\n", fn.c_str ()); continue; }
            printCase ("RATCASE", *r, leaf, in, ev);
        }
        catch (const FracOverflow&) { printf ("RATERR %s overflow\n", fn.c_str ()); }
    }
    return 0;
}

// returns -1 when the mode is not one of ours (the caller then runs symns::sym_main)
inline int extra_main (int argc, char** argv)
{
    std::string mode = argc > 1 ? argv[1] : "";
    if (mode != "ratwit" && mode != "rateval" && mode != "ratargs" && mode != "ratwith" && mode != "tvwit") return -1;
    for (int i = 1; i + 1 < argc; ++i)
        if (std::string (argv[i]) == "--idx") loadIndex (argv[i + 1]);
    std::vector<FnRecord*> recs;
    for (auto& e : entries ()) recs.push_back (explore (e));
    if (mode == "ratwit") return ratwit (recs);
    if (mode == "tvwit") return tvwit (recs);
    if (mode == "rateval") return rateval (recs);
    if (mode == "ratargs") return ratargs (recs, argc > 2 ? strtoul (argv[2], 0, 10) : 1, argc > 3 ? atoi (argv[3]) : 8);
    return ratwith (recs);
}
} // namespace c08modes
