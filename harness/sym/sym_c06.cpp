#include "sym.h"
#include "shapes.h"
#include "main.h"
#include <ImathMatrixAlgo.h>

// Matrix44<Sym>::gjInverse() (non-throwing) is an OPAQUE call of `M44.gjInverse`: its path tree explodes, so it is
// modelled by hand (lean/ImathVerif/Model/GaussJordan.lean, H-route, bitwise correspondence in harness/corr/c06_inv.cpp).
// The callee's Lean signature comes from harness/sym/index_gj.txt (passed as --idx).  For translator validation the
// call is evaluated with the real gjInverse at double / float.
IMATH_INTERNAL_NAMESPACE_HEADER_ENTER
template <> inline Matrix44<symns::Sym> Matrix44<symns::Sym>::gjInverse () const IMATH_NOEXCEPT
{
    return symns::opaqueA<Matrix44<symns::Sym>> ("M44.gjInverse", *this);
}
IMATH_INTERNAL_NAMESPACE_HEADER_EXIT
template <class T> static std::vector<T> nativeGj44 (const std::vector<T>& a)
{
    IMATH_INTERNAL_NAMESPACE::Matrix44<T> m;
    for (int i = 0; i < 4; ++i) for (int j = 0; j < 4; ++j) m.x[i][j] = a[4 * i + j];
    IMATH_INTERNAL_NAMESPACE::Matrix44<T> r = m.gjInverse ();
    std::vector<T> o;
    for (int i = 0; i < 4; ++i) for (int j = 0; j < 4; ++j) o.push_back (r.x[i][j]);
    return o;
}
static int native_gj44 = (symns::natives ()["M44.gjInverse"] = symns::Native{&nativeGj44<double>, &nativeGj44<float>}, 0);

using namespace IMATH_INTERNAL_NAMESPACE;
#include "ops_c06.h"
int main (int argc, char** argv) { return symns::sym_main (argc, argv); }
